(** IndexerFresh (group symmap, bridge to group scope): the single-visit condition [log_fresh] of the position log
    (the last checked hypothesis of C06 for the Core fragment) PROVED from "the identifier ranges of each file's AST are
    pairwise distinct" (NoDup of CoreParts.file_idents ranges; proved for the model pipeline by builder "bridge").
    Every identifier occurrence is keyed at most once -- `index_name_value` / `value_first_ident` take the first identifier
    of a value that is not indexed otherwise -- except the `let` of a record body, which keys the range twice: first as the
    definition of the new field, then as a reference to the overridden field, whose own definition range was consumed
    earlier (invariant [FieldsOK]) and is therefore different.
    One more Hoare-style traversal of Indexer.v.  Ghost state: the list [A] of (file-tagged) identifier ranges consumed so
    far; the triple [hk f l m Q] lets [m] consume the identifier parts of [l] (ranges tagged with the current file f). *)
From Coq Require Import List Arith NArith Bool Lia Permutation.
From TG.Model Require Import CoreAst CoreParts Scope BangOps Indexer IndexerOps.
From TG.Proofs Require ScopeFrame.
Import ListNotations.
Open Scope N_scope.

(** ---- keys: the file-tagged identifier ranges of a list of parts *)
Definition tagr (f : N) (r : rng) : rng := mkR f (r_lo r) (r_hi r).
Definition pkey (f : N) (p : part) : list rng := match p with PI i => [tagr f (i_rng i)] | PR _ => [] end.
Definition keys (f : N) (l : list part) : list rng := flat_map (pkey f) l.
Lemma keys_app : forall f a b, keys f (a ++ b) = keys f a ++ keys f b.
Proof. intros. unfold keys. apply flat_map_app. Qed.
Lemma keys_file : forall f l r, In r (keys f l) -> r_file r = f.
Proof.
  intros f l r H. unfold keys in H. apply in_flat_map in H. destruct H as (p & _ & Hp).
  destruct p as [r0|i]; cbn in Hp; [destruct Hp|]. destruct Hp as [<-|[]]. reflexivity.
Qed.
Lemma keys_flat_map : forall A f (g : A -> list part) l, keys f (flat_map g l) = flat_map (fun x => keys f (g x)) l.
Proof. intros A f g. induction l as [|x r IH]; cbn [flat_map]; [reflexivity|]. rewrite keys_app, IH. reflexivity. Qed.

(** ---- the shape of the position log (newest first) *)
Definition fresh (k : rng) (L : list (rng * symid)) : Prop := Forall (fun e => fst e <> k) L.
Definition pairc (s : st) (e : rng * symid) (older : list (rng * symid)) : Prop :=
  exists e0 older', older = e0 :: older' /\ fst e0 = fst e /\ define_loc s (snd e0) = Some (fst e0) /\
                    fresh (fst e) older' /\ exists d, define_loc s (snd e) = Some d /\ d <> fst e.
Fixpoint LogOK (s : st) (L : list (rng * symid)) : Prop :=
  match L with
  | [] => True
  | e :: older => (fresh (fst e) older \/ pairc s e older) /\ LogOK s older
  end.

Lemma LogOK_cons_intro : forall s e older, (fresh (fst e) older \/ pairc s e older) -> LogOK s older -> LogOK s (e :: older).
Proof. intros s e older H1 H2. split; assumption. Qed.

Definition Stable (s s' : st) : Prop := forall id d, define_loc s id = Some d -> define_loc s' id = Some d.
Lemma Stable_refl : forall s, Stable s s.
Proof. intros s id d H. exact H. Qed.
Lemma Stable_trans : forall a b c, Stable a b -> Stable b c -> Stable a c.
Proof. intros a b c H1 H2 id d H. apply H2. apply H1. exact H. Qed.
Lemma Stable_same : forall s s', s_recs s' = s_recs s -> s_mcs s' = s_mcs s -> s_leaves s' = s_leaves s -> Stable s s'.
Proof. intros s s' E1 E2 E3 [i|i|i] d H; cbn [define_loc] in *; rewrite ?E1, ?E2, ?E3; exact H. Qed.

Lemma LogOK_stable : forall s s' L, Stable s s' -> LogOK s L -> LogOK s' L.
Proof.
  intros s s' L Hs. induction L as [|e older IH]; intros H; [exact I|]. destruct H as [H1 H2]. split; [|apply IH; exact H2].
  destruct H1 as [H1|(e0 & older' & E & E0 & Hd & Hf & d & Hd' & Hne)]; [left; exact H1|right].
  exists e0, older'. split; [exact E|]. split; [exact E0|]. split; [apply Hs; exact Hd|]. split; [exact Hf|].
  exists d. split; [apply Hs; exact Hd'|exact Hne].
Qed.

(** [LogOK] implies the executable [log_fresh] *)
Lemma rng_eqb_true : forall a b, rng_eqb a b = true <-> a = b.
Proof.
  intros [f1 l1 h1] [f2 l2 h2]. unfold rng_eqb. cbn. rewrite !andb_true_iff, !N.eqb_eq. split.
  - intros [[-> ->] ->]. reflexivity.
  - intros H. inversion H. auto.
Qed.
Lemma LogOK_okb : forall s L, LogOK s L -> log_okb s L = true.
Proof.
  intros s. induction L as [|e older IH]; intros H; [reflexivity|]. destruct H as [H1 H2]. cbn [log_okb].
  rewrite (IH H2), andb_true_r. destruct H1 as [H1|(e0 & older' & E & E0 & Hd & Hf & d & Hd' & Hne)].
  - assert (Hn : forallb (fun e' => negb (rng_eqb (fst e') (fst e))) older = true).
    { apply forallb_forall. intros e' He'. unfold fresh in H1. rewrite Forall_forall in H1. specialize (H1 e' He').
      destruct (rng_eqb (fst e') (fst e)) eqn:Eq; [apply rng_eqb_true in Eq; contradiction|reflexivity]. }
    destruct (is_def s e); [exact Hn|]. apply forallb_forall. intros e' He'. rewrite forallb_forall in Hn. specialize (Hn e' He').
    destruct (rng_eqb (fst e') (fst e)); [discriminate|reflexivity].
  - assert (Hnd : is_def s e = false).
    { unfold is_def. rewrite Hd'. destruct (rng_eqb d (fst e)) eqn:Eq; [apply rng_eqb_true in Eq; contradiction|reflexivity]. }
    rewrite Hnd. subst older. cbn [forallb]. apply andb_true_iff. split.
    + assert (Hd0 : is_def s e0 = true) by (unfold is_def; rewrite Hd; apply rng_eqb_true; reflexivity).
      rewrite Hd0. destruct (rng_eqb (fst e0) (fst e)); reflexivity.
    + apply forallb_forall. intros e' He'. unfold fresh in Hf. rewrite Forall_forall in Hf. specialize (Hf e' He').
      destruct (rng_eqb (fst e') (fst e)) eqn:Eq; [apply rng_eqb_true in Eq; contradiction|reflexivity].
Qed.

(** ---- the invariant *)
Definition FieldsOK (A : list rng) (s : st) : Prop :=
  Forall (fun r => Forall (fun e : name * N => exists l, nthN (s_leaves s) (snd e) = Some l /\ In (lf_loc l) A) (rc_fields r))
         (s_recs s).
Record Iv (A : list rng) (s : st) : Prop := {
  iv_pos : Forall (fun e : rng * symid => In (fst e) A) (s_pos s);
  iv_log : LogOK s (s_pos s);
  iv_fields : FieldsOK A s;
  iv_files : Forall (fun r => In (r_file r) (s_indexed s)) A }.

Lemma FieldsOK_mono : forall A A' s s', incl A A' -> s_recs s' = s_recs s ->
  (forall j l, nthN (s_leaves s) j = Some l -> nthN (s_leaves s') j = Some l) -> FieldsOK A s -> FieldsOK A' s'.
Proof.
  intros A A' s s' Hi E Hl H. unfold FieldsOK in *. rewrite E. eapply Forall_impl; [|exact H]. intros r Hr.
  eapply Forall_impl; [|exact Hr]. intros e (l & Hn & Hin). exists l. split; [apply Hl; exact Hn|apply Hi; exact Hin].
Qed.

(** a state that differs only in fields the invariant does not read *)
Lemma Iv_same : forall A s s', Iv A s ->
  s_pos s' = s_pos s -> s_recs s' = s_recs s -> s_mcs s' = s_mcs s -> s_leaves s' = s_leaves s ->
  incl (s_indexed s) (s_indexed s') -> Iv A s'.
Proof.
  intros A s s' [H1 H2 H3 H4] E1 E2 E3 E4 Hi. split.
  - rewrite E1. exact H1.
  - rewrite E1. eapply LogOK_stable; [apply Stable_same; eassumption|exact H2].
  - eapply FieldsOK_mono; [apply incl_refl|exact E2| |exact H3]. intros j l H. rewrite E4. exact H.
  - eapply Forall_impl; [|exact H4]. intros r Hr. apply Hi. exact Hr.
Qed.

Section File.
Variable f : N.

Definition post {B} (l : list part) (Q : B -> Prop) (s : st) (A : list rng) (o : option B) (s' : st) : Prop :=
  exists A', Iv A' s' /\ Stable s s' /\ s_trace s' = s_trace s /\ incl (s_indexed s) (s_indexed s') /\
    (forall r, In r A' -> In r (keys f l) \/ In r A \/ ~ In (r_file r) (s_indexed s)) /\
    (forall a, o = Some a -> Q a).
(** the triple at one initial state, and at all *)
Definition hkS {B} (s : st) (l : list part) (m : M B) (Q : B -> Prop) : Prop :=
  forall A, Iv A s -> current_file s = f -> In f (s_indexed s) -> NoDup (keys f l) ->
    (forall r, In r (keys f l) -> ~ In r A) -> post l Q s A (fst (m s)) (snd (m s)).
Definition hk {B} (l : list part) (m : M B) (Q : B -> Prop) : Prop := forall s, hkS s l m Q.
Definition any {B} : B -> Prop := fun _ => True.
Definition optq {B} (Q : B -> Prop) (o : option B) : Prop := forall a, o = Some a -> Q a.

(** a computation that leaves the invariant's fields alone *)
Lemma post_same : forall B l (Q : B -> Prop) s A o s', Iv A s ->
  s_pos s' = s_pos s -> s_recs s' = s_recs s -> s_mcs s' = s_mcs s -> s_leaves s' = s_leaves s ->
  incl (s_indexed s) (s_indexed s') -> s_trace s' = s_trace s -> optq Q o -> post l Q s A o s'.
Proof.
  intros B l Q s A o s' HI E1 E2 E3 E4 Hi Et Hq. exists A. split; [eapply Iv_same; eassumption|].
  split; [apply Stable_same; assumption|]. split; [exact Et|]. split; [exact Hi|]. split; [|exact Hq].
  intros r Hr. right. left. exact Hr.
Qed.

Lemma hk_post : forall B l (m : M B) (Q Q' : B -> Prop), hk l m Q -> (forall a, Q a -> Q' a) -> hk l m Q'.
Proof.
  intros B l m Q Q' H HQ s A HI Hf Hin Hnd Hd. destruct (H s A HI Hf Hin Hnd Hd) as (A' & H1 & H2 & H3 & H4 & H5 & H6).
  exists A'. repeat (split; [assumption|]). intros a Ha. apply HQ. apply H6. exact Ha.
Qed.
Lemma hk_any : forall B l (m : M B) Q, hk l m Q -> hk l m any.
Proof. intros B l m Q H. eapply hk_post; [exact H|]. intros; exact I. Qed.

(** unused parts *)
Lemma NoDup_app_l : forall A (a b : list A), NoDup (a ++ b) -> NoDup a.
Proof. intros A a b H. induction a as [|x a IH]; [constructor|]. inversion H; subst. constructor; [intros Hx; apply H2; apply in_or_app; left; exact Hx|apply IH; exact H3]. Qed.
Lemma NoDup_app_r : forall A (a b : list A), NoDup (a ++ b) -> NoDup b.
Proof. intros A a b H. induction a as [|x a IH]; [exact H|]. inversion H; subst. apply IH. exact H3. Qed.
Lemma NoDup_app_disj : forall A (a b : list A) x, NoDup (a ++ b) -> In x a -> In x b -> False.
Proof.
  intros A a b x H. induction a as [|y a IH]; intros Ha Hb; [destruct Ha|]. inversion H; subst.
  destruct Ha as [->|Ha]; [apply H2; apply in_or_app; right; exact Hb|apply IH; assumption].
Qed.

Lemma hk_wr : forall B l l2 (m : M B) Q, hk l m Q -> hk (l ++ l2) m Q.
Proof.
  intros B l l2 m Q H s A HI Hf Hin Hnd Hd. rewrite keys_app in Hnd.
  destruct (H s A HI Hf Hin (NoDup_app_l _ _ _ Hnd)) as (A' & H1 & H2 & H3 & H4 & H5 & H6).
  { intros r Hr. apply Hd. rewrite keys_app. apply in_or_app. left. exact Hr. }
  exists A'. repeat (split; [assumption|]). split; [|exact H6].
  intros r Hr. destruct (H5 r Hr) as [Hk|Hk]; [left; rewrite keys_app; apply in_or_app; left; exact Hk|right; exact Hk].
Qed.
Lemma hk_wl : forall B l1 l (m : M B) Q, hk l m Q -> hk (l1 ++ l) m Q.
Proof.
  intros B l1 l m Q H s A HI Hf Hin Hnd Hd. rewrite keys_app in Hnd.
  destruct (H s A HI Hf Hin (NoDup_app_r _ _ _ Hnd)) as (A' & H1 & H2 & H3 & H4 & H5 & H6).
  { intros r Hr. apply Hd. rewrite keys_app. apply in_or_app. right. exact Hr. }
  exists A'. repeat (split; [assumption|]). split; [|exact H6].
  intros r Hr. destruct (H5 r Hr) as [Hk|Hk]; [left; rewrite keys_app; apply in_or_app; right; exact Hk|right; exact Hk].
Qed.
Lemma hk_w0 : forall B l (m : M B) Q, hk [] m Q -> hk l m Q.
Proof. intros B l m Q H. apply (hk_wl B l [] m Q) in H. rewrite app_nil_r in H. exact H. Qed.
Lemma hk_wcons : forall B p l (m : M B) Q, hk l m Q -> hk (p :: l) m Q.
Proof. intros B p l m Q H. apply (hk_wl B [p] l m Q H). Qed.

(** ---- monad rules *)
Lemma hk_ret : forall B (x : B) (Q : B -> Prop), Q x -> hk [] (ret x) Q.
Proof.
  intros B x Q Hq s A HI Hf Hin _ _. cbn. apply post_same; try reflexivity; try assumption; [apply incl_refl|].
  intros a E. inversion E. subst. exact Hq.
Qed.
Lemma hk_none : forall B (Q : B -> Prop), hk [] none Q.
Proof.
  intros B Q s A HI Hf Hin _ _. cbn. apply post_same; try reflexivity; try assumption; [apply incl_refl|].
  intros a E. discriminate.
Qed.
Lemma hk_bad : forall B (Q : B -> Prop), hk [] bad Q.
Proof.
  intros B Q s A HI Hf Hin _ _. unfold bad. cbn [fst snd]. apply post_same; try reflexivity; try assumption; [apply incl_refl|].
  intros a E. discriminate.
Qed.
Lemma hk_lift : forall B (o : option B) (Q : B -> Prop), optq Q o -> hk [] (lift o) Q.
Proof. intros B o Q Hq s A HI Hf Hin _ _. cbn. apply post_same; try reflexivity; try assumption. apply incl_refl. Qed.
Lemma hk_lift_any : forall B (o : option B), hk [] (lift o) any.
Proof. intros. apply hk_lift. intros a _. exact I. Qed.
Lemma hk_get : forall B (g : st -> B), hk [] (get g) any.
Proof.
  intros B g s A HI Hf Hin _ _. cbn. apply post_same; try reflexivity; try assumption; [apply incl_refl|]. intros a _. exact I.
Qed.
Lemma hk_state : hk [] state any.
Proof. apply hk_get. Qed.
Lemma hk_here : forall r, hk [] (here r) (fun loc => loc = tagr f r).
Proof.
  intros r s A HI Hf Hin _ _. unfold here, get. cbn [fst snd]. apply post_same; try reflexivity; try assumption; [apply incl_refl|].
  intros a E. inversion E. subst a. rewrite Hf. reflexivity.
Qed.

Lemma cur_of_trace : forall s s', s_trace s' = s_trace s -> current_file s = f -> current_file s' = f.
Proof. intros s s' H Hf. unfold current_file in *. rewrite H. exact Hf. Qed.

Lemma hkS_bind : forall B C s l1 l2 (m : M B) (k : B -> M C) Q1 Q2,
  hkS s l1 m Q1 -> (forall a, Q1 a -> hk l2 (k a) Q2) -> hkS s (l1 ++ l2) (bind m k) Q2.
Proof.
  intros B C s l1 l2 m k Q1 Q2 Hm Hk A HI Hf Hin Hnd Hd. rewrite keys_app in Hnd.
  destruct (Hm A HI Hf Hin (NoDup_app_l _ _ _ Hnd)) as (A1 & I1 & S1 & T1 & X1 & K1 & R1).
  { intros r Hr. apply Hd. rewrite keys_app. apply in_or_app. left. exact Hr. }
  unfold bind. destruct (m s) as [[a|] s1]; cbn [fst snd] in *.
  - destruct (Hk a (R1 a eq_refl) s1 A1 I1 (cur_of_trace _ _ T1 Hf) (X1 _ Hin) (NoDup_app_r _ _ _ Hnd)) as (A2 & I2 & S2 & T2 & X2 & K2 & R2).
    { intros r Hr HA1. destruct (K1 r HA1) as [Hk1|[HA|Hnf]].
      - exact (NoDup_app_disj _ _ _ r Hnd Hk1 Hr).
      - apply (Hd r); [rewrite keys_app; apply in_or_app; right; exact Hr|exact HA].
      - apply Hnf. rewrite (keys_file _ _ _ Hr). exact Hin. }
    exists A2. split; [exact I2|]. split; [eapply Stable_trans; eassumption|]. split; [congruence|].
    split; [eapply incl_tran; eassumption|]. split; [|exact R2].
    intros r Hr. destruct (K2 r Hr) as [Hk2|[HA1|Hnf]].
    + left. rewrite keys_app. apply in_or_app. right. exact Hk2.
    + destruct (K1 r HA1) as [Hk1|Hrest]; [left; rewrite keys_app; apply in_or_app; left; exact Hk1|right; exact Hrest].
    + right. right. intros Hx. apply Hnf. apply X1. exact Hx.
  - exists A1. split; [exact I1|]. split; [exact S1|]. split; [exact T1|]. split; [exact X1|]. split; [|intros a E; discriminate].
    intros r Hr. destruct (K1 r Hr) as [Hk1|Hrest]; [left; rewrite keys_app; apply in_or_app; left; exact Hk1|right; exact Hrest].
Qed.
Lemma hk_bind : forall B C l1 l2 (m : M B) (k : B -> M C) Q1 Q2,
  hk l1 m Q1 -> (forall a, Q1 a -> hk l2 (k a) Q2) -> hk (l1 ++ l2) (bind m k) Q2.
Proof. intros B C l1 l2 m k Q1 Q2 Hm Hk s. apply hkS_bind with (Q1 := Q1); [apply Hm|exact Hk]. Qed.
Lemma hkS_seq : forall B C s l1 l2 (m : M B) (k : M C) Q1 Q2, hkS s l1 m Q1 -> hk l2 k Q2 -> hkS s (l1 ++ l2) (seq m k) Q2.
Proof.
  intros B C s l1 l2 m k Q1 Q2 Hm Hk A HI Hf Hin Hnd Hd. rewrite keys_app in Hnd.
  destruct (Hm A HI Hf Hin (NoDup_app_l _ _ _ Hnd)) as (A1 & I1 & S1 & T1 & X1 & K1 & R1).
  { intros r Hr. apply Hd. rewrite keys_app. apply in_or_app. left. exact Hr. }
  unfold seq.
  destruct (Hk (snd (m s)) A1 I1 (cur_of_trace _ _ T1 Hf) (X1 _ Hin) (NoDup_app_r _ _ _ Hnd)) as (A2 & I2 & S2 & T2 & X2 & K2 & R2).
  { intros r Hr HA1. destruct (K1 r HA1) as [Hk1|[HA|Hnf]].
    - exact (NoDup_app_disj _ _ _ r Hnd Hk1 Hr).
    - apply (Hd r); [rewrite keys_app; apply in_or_app; right; exact Hr|exact HA].
    - apply Hnf. rewrite (keys_file _ _ _ Hr). exact Hin. }
  exists A2. split; [exact I2|]. split; [eapply Stable_trans; eassumption|]. split; [congruence|].
  split; [eapply incl_tran; eassumption|]. split; [|exact R2].
  intros r Hr. destruct (K2 r Hr) as [Hk2|[HA1|Hnf]].
  + left. rewrite keys_app. apply in_or_app. right. exact Hk2.
  + destruct (K1 r HA1) as [Hk1|Hrest]; [left; rewrite keys_app; apply in_or_app; left; exact Hk1|right; exact Hrest].
  + right. right. intros Hx. apply Hnf. apply X1. exact Hx.
Qed.
Lemma hk_seq : forall B C l1 l2 (m : M B) (k : M C) Q1 Q2, hk l1 m Q1 -> hk l2 k Q2 -> hk (l1 ++ l2) (seq m k) Q2.
Proof. intros B C l1 l2 m k Q1 Q2 Hm Hk s. apply hkS_seq with (Q1 := Q1); [apply Hm|exact Hk]. Qed.
(** `s <- state ;; k s`: the continuation knows that the snapshot is the current state *)
Lemma hk_bind_state : forall C l (k : st -> M C) Q, (forall x, hkS x l (k x) Q) -> hk l (bind state k) Q.
Proof. intros C l k Q H s. exact (H s). Qed.
Lemma hkS_ext : forall B s l (m m' : M B) Q, m s = m' s -> hkS s l m Q -> hkS s l m' Q.
Proof. intros B s l m m' Q E H A. rewrite <- E. apply H. Qed.
Lemma hk_ext : forall B l (m m' : M B) Q, (forall s, m s = m' s) -> hk l m Q -> hk l m' Q.
Proof. intros B l m m' Q E H s. eapply hkS_ext; [apply E|apply H]. Qed.
(** derived forms: one side consumes nothing *)
Lemma hk_bind0 : forall B C l (m : M B) (k : B -> M C) Q1 Q2,
  hk [] m Q1 -> (forall a, Q1 a -> hk l (k a) Q2) -> hk l (bind m k) Q2.
Proof. intros B C l m k Q1 Q2 Hm Hk. exact (hk_bind B C [] l m k Q1 Q2 Hm Hk). Qed.
Lemma hk_seq0 : forall B C l (m : M B) (k : M C) Q1 Q2, hk [] m Q1 -> hk l k Q2 -> hk l (seq m k) Q2.
Proof. intros B C l m k Q1 Q2 Hm Hk. exact (hk_seq B C [] l m k Q1 Q2 Hm Hk). Qed.
Lemma hk_bindr : forall B C l (m : M B) (k : B -> M C) Q1 Q2,
  hk l m Q1 -> (forall a, Q1 a -> hk [] (k a) Q2) -> hk l (bind m k) Q2.
Proof. intros B C l m k Q1 Q2 Hm Hk. pose proof (hk_bind B C l [] m k Q1 Q2 Hm Hk) as H. rewrite app_nil_r in H. exact H. Qed.
Lemma hk_seqr : forall B C l (m : M B) (k : M C) Q1 Q2, hk l m Q1 -> hk [] k Q2 -> hk l (seq m k) Q2.
Proof. intros B C l m k Q1 Q2 Hm Hk. pose proof (hk_seq B C l [] m k Q1 Q2 Hm Hk) as H. rewrite app_nil_r in H. exact H. Qed.

Lemma hk_try : forall B l (m : M B) Q, hk l m Q -> hk l (try_ m) (optq Q).
Proof.
  intros B l m Q Hm s A HI Hf Hin Hnd Hd. destruct (Hm s A HI Hf Hin Hnd Hd) as (A1 & I1 & S1 & T1 & X1 & K1 & R1).
  unfold try_. destruct (m s) as [o s1]. cbn [fst snd] in *. exists A1. repeat (split; [assumption|]).
  intros a E. inversion E. subst a. exact R1.
Qed.
Lemma hk_iterM : forall X B (g : X -> list part) (body : X -> M B) l,
  (forall x, In x l -> hk (g x) (body x) any) -> hk (flat_map g l) (iterM body l) any.
Proof.
  intros X B g body. induction l as [|x r IH]; intros H; cbn [iterM flat_map]; [apply hk_ret; exact I|].
  eapply hk_seq; [apply H; left; reflexivity|apply IH]. intros y Hy. apply H. right. exact Hy.
Qed.
Lemma hk_mapM_opt : forall X B (g : X -> list part) (body : X -> M B) (Q : B -> Prop) l,
  (forall x, In x l -> hk (g x) (body x) Q) -> hk (flat_map g l) (mapM_opt body l) (Forall (optq Q)).
Proof.
  intros X B g body Q. induction l as [|x r IH]; intros H; cbn [mapM_opt flat_map]; [apply hk_ret; constructor|].
  eapply hk_bind; [apply hk_try; apply H; left; reflexivity|]. intros o Ho.
  eapply hk_bindr; [apply IH; intros y Hy; apply H; right; exact Hy|]. intros os Hos.
  apply hk_ret. constructor; assumption.
Qed.

(** ---- primitives *)
(** states whose arenas extend those of [s] by appended elements *)
Lemma nthN_app_keep : forall X (l : list X) x j y, nthN l j = Some y -> nthN (l ++ [x]) j = Some y.
Proof. intros. apply ScopeFrame.nthN_app_old. assumption. Qed.
Lemma nthN_app_last : forall X (l : list X) x, nthN (l ++ [x]) (lenN l) = Some x.
Proof.
  intros X l x. unfold nthN, lenN. rewrite Nnat.Nat2N.id. rewrite nth_error_app2; [|lia]. rewrite Nat.sub_diag. reflexivity.
Qed.
Lemma Stable_app_rec : forall s x, Stable s (set_recs (s_recs s ++ [x]) s).
Proof. intros s x [i|i|i] d H; cbn [define_loc] in *; cbn; [|exact H|exact H].
  destruct (nthN (s_recs s) i) as [r|] eqn:E; [|discriminate]. rewrite (nthN_app_keep _ _ x _ _ E). exact H. Qed.
Lemma Stable_app_mc : forall s x, Stable s (set_mcs (s_mcs s ++ [x]) s).
Proof. intros s x [i|i|i] d H; cbn [define_loc] in *; cbn; [exact H| |exact H].
  destruct (nthN (s_mcs s) i) as [r|] eqn:E; [|discriminate]. rewrite (nthN_app_keep _ _ x _ _ E). exact H. Qed.
Lemma Stable_app_leaf : forall s x, Stable s (set_leaves (s_leaves s ++ [x]) s).
Proof. intros s x [i|i|i] d H; cbn [define_loc] in *; cbn; [exact H|exact H|].
  destruct (nthN (s_leaves s) i) as [r|] eqn:E; [|discriminate]. rewrite (nthN_app_keep _ _ x _ _ E). exact H. Qed.

(** an arena-extended state [s0] (same position log, indexed files) still satisfies the invariant *)
Lemma Iv_ext : forall A s s0, Iv A s -> Stable s s0 -> s_pos s0 = s_pos s -> s_indexed s0 = s_indexed s ->
  FieldsOK A s0 -> Iv A s0.
Proof.
  intros A s s0 [H1 H2 H3 H4] Hs E1 E2 HF. split.
  - rewrite E1. exact H1.
  - rewrite E1. eapply LogOK_stable; eassumption.
  - exact HF.
  - rewrite E2. exact H4.
Qed.

(** keying a fresh range *)
Lemma Iv_add_pos_fresh : forall A s0 loc id, Iv A s0 -> ~ In loc A -> In (r_file loc) (s_indexed s0) ->
  Iv (loc :: A) (add_pos loc id s0).
Proof.
  intros A s0 loc id [H1 H2 H3 H4] Hn Hfile. unfold add_pos. destruct (rng_empty loc).
  - split.
    + eapply Forall_impl; [|exact H1]. intros e He. right. exact He.
    + exact H2.
    + eapply FieldsOK_mono; [|reflexivity| |exact H3]; [intros r Hr; right; exact Hr|auto].
    + constructor; [exact Hfile|exact H4].
  - split; cbn [s_pos set_pos].
    + constructor; [left; reflexivity|]. eapply Forall_impl; [|exact H1]. intros e He. right. exact He.
    + cbn [LogOK]. split.
      * left. cbn [fst]. unfold fresh. eapply Forall_impl; [|exact H1]. intros e He E. apply Hn. rewrite <- E. exact He.
      * eapply LogOK_stable; [|exact H2]. apply Stable_same; reflexivity.
    + eapply FieldsOK_mono; [|reflexivity| |exact H3]; [intros r Hr; right; exact Hr|auto].
    + constructor; [exact Hfile|exact H4].
Qed.
Lemma Stable_add_pos : forall loc id s0, Stable s0 (add_pos loc id s0).
Proof. intros. unfold add_pos. destruct (rng_empty loc); [apply Stable_refl|apply Stable_same; reflexivity]. Qed.
Lemma trace_add_pos : forall r id s, s_trace (add_pos r id s) = s_trace s.
Proof. intros. unfold add_pos. destruct (rng_empty r); reflexivity. Qed.
Lemma indexed_add_pos : forall r id s, s_indexed (add_pos r id s) = s_indexed s.
Proof. intros. unfold add_pos. destruct (rng_empty r); reflexivity. Qed.

(** the post-condition of a primitive that extends the arenas to [s0] and keys the identifier [i] *)
Lemma post_consume : forall B (Q : B -> Prop) i s A o s0 id,
  Iv A s -> In f (s_indexed s) -> ~ In (tagr f (i_rng i)) A ->
  Stable s s0 -> s_pos s0 = s_pos s -> s_indexed s0 = s_indexed s -> s_trace s0 = s_trace s -> FieldsOK A s0 ->
  optq Q o -> post [PI i] Q s A o (add_pos (tagr f (i_rng i)) id s0).
Proof.
  intros B Q i s A o s0 id HI Hin Hn Hs E1 E2 E3 HF Hq.
  exists (tagr f (i_rng i) :: A). split.
  - apply Iv_add_pos_fresh; [eapply Iv_ext; eassumption|exact Hn|rewrite E2; exact Hin].
  - split; [eapply Stable_trans; [exact Hs|apply Stable_add_pos]|]. split; [rewrite trace_add_pos; exact E3|].
    split; [rewrite indexed_add_pos, E2; apply incl_refl|]. split; [|exact Hq].
    intros r [<-|Hr]; [left; left; reflexivity|right; left; exact Hr].
Qed.
Lemma key_not_in : forall i A, (forall r, In r (keys f [PI i]) -> ~ In r A) -> ~ In (tagr f (i_rng i)) A.
Proof. intros i A H. apply H. left. reflexivity. Qed.

Lemma FieldsOK_same : forall A s s0, s_recs s0 = s_recs s -> s_leaves s0 = s_leaves s -> FieldsOK A s -> FieldsOK A s0.
Proof. intros A s s0 E1 E2 H. apply (FieldsOK_mono A A s s0); [apply incl_refl|exact E1| |exact H]. intros j l Hj. rewrite E2. exact Hj. Qed.
Lemma FieldsOK_app_leaf : forall A s x, FieldsOK A s -> FieldsOK A (set_leaves (s_leaves s ++ [x]) s).
Proof. intros A s x H. apply (FieldsOK_mono A A s _); [apply incl_refl|reflexivity| |exact H]. intros j l Hj. cbn. apply nthN_app_keep. exact Hj. Qed.
Lemma FieldsOK_app_rec : forall A s x, rc_fields x = [] -> FieldsOK A s -> FieldsOK A (set_recs (s_recs s ++ [x]) s).
Proof.
  intros A s x Hx H. unfold FieldsOK in *. cbn [s_recs set_recs s_leaves]. apply Forall_app. split; [exact H|].
  constructor; [rewrite Hx; constructor|constructor].
Qed.

Lemma hk_error : forall loc k, hk [] (error loc k) any.
Proof. intros loc k s A HI Hf Hin _ _. unfold error, upd. cbn [fst snd]. apply post_same; try reflexivity; try assumption; [apply incl_refl|intros a _; exact I]. Qed.
Lemma hk_err : forall r k, hk [] (err r k) any.
Proof. intros r k. unfold err. apply hk_bind0 with (Q1 := fun loc => loc = tagr f r); [apply hk_here|]. intros loc _. apply hk_error. Qed.
Lemma hk_emit : forall l, hk [] (emit l) any.
Proof.
  intros l. unfold emit. induction l as [|d r IH]; cbn [iterM]; [apply hk_ret; exact I|].
  apply hk_seq0 with (Q1 := any); [apply hk_err|exact IH].
Qed.
Lemma hk_next_anonymous : hk [] next_anonymous any.
Proof. intros s A HI Hf Hin _ _. unfold next_anonymous, upd. cbn [fst snd]. apply post_same; try reflexivity; try assumption; [apply incl_refl|intros a _; exact I]. Qed.
Lemma hk_push_scope : forall k, hk [] (push_scope k) any.
Proof. intros k s A HI Hf Hin _ _. unfold push_scope, upd. cbn [fst snd]. apply post_same; try reflexivity; try assumption; [apply incl_refl|intros a _; exact I]. Qed.
Lemma hk_pop_scope : hk [] pop_scope any.
Proof.
  intros s A HI Hf Hin Hnd Hd. unfold pop_scope. destruct (s_scopes s).
  - apply (hk_bad unit any s A HI Hf Hin Hnd Hd).
  - cbn [fst snd]. apply post_same; try reflexivity; try assumption; [apply incl_refl|intros a _; exact I].
Qed.
Lemma hk_scoped : forall B k l (body : M B) Q, hk l body Q -> hk l (scoped k body) Q.
Proof.
  intros B k l body Q H. unfold scoped. apply hk_seq0 with (Q1 := any); [apply hk_push_scope|].
  eapply hk_bindr; [apply hk_try; exact H|]. intros o Ho. apply hk_seq0 with (Q1 := any); [apply hk_pop_scope|apply hk_lift; exact Ho].
Qed.

Lemma hk_add_reference : forall id i, hk [PI i] (add_reference id (tagr f (i_rng i))) any.
Proof.
  intros id i s A HI Hf Hin _ Hd. unfold add_reference, upd. cbn [fst snd].
  apply post_consume; try reflexivity; try assumption; [apply key_not_in; exact Hd|apply Stable_same; reflexivity| |intros a _; exact I].
  eapply FieldsOK_same; [| |apply (iv_fields _ _ HI)]; reflexivity.
Qed.
Lemma hk_add_record : forall nm c i, hk [PI i] (add_record nm c (tagr f (i_rng i))) any.
Proof.
  intros nm c i s A HI Hf Hin _ Hd. unfold add_record. cbn [fst snd].
  apply post_consume; try assumption; [apply key_not_in; exact Hd| | | | | |intros a _; exact I]; destruct c; try reflexivity;
    try (eapply Stable_trans; [apply Stable_app_rec|apply Stable_same; reflexivity]);
    (eapply FieldsOK_same; [| |apply FieldsOK_app_rec; [|apply (iv_fields _ _ HI)]]; reflexivity).
Qed.
Lemma hk_add_anonymous_def : forall nm loc, hk [] (add_anonymous_def nm loc) any.
Proof.
  intros nm loc s A HI Hf Hin _ _. unfold add_anonymous_def. cbn [fst snd]. exists A. split.
  - eapply Iv_ext; [exact HI|apply Stable_app_rec|reflexivity|reflexivity|]. apply FieldsOK_app_rec; [reflexivity|apply (iv_fields _ _ HI)].
  - split; [apply Stable_app_rec|]. split; [reflexivity|]. split; [apply incl_refl|]. split; [intros r Hr; right; left; exact Hr|intros a _; exact I].
Qed.
Lemma hk_add_leaf : forall l i, lf_loc l = tagr f (i_rng i) -> hk [PI i] (add_leaf l) any.
Proof.
  intros l i El s A HI Hf Hin _ Hd. unfold add_leaf. cbn [fst snd]. rewrite El.
  apply post_consume; try reflexivity; try assumption; [apply key_not_in; exact Hd|apply Stable_app_leaf| |intros a _; exact I].
  apply FieldsOK_app_leaf. apply (iv_fields _ _ HI).
Qed.
Lemma hk_add_defset : forall l i, lf_loc l = tagr f (i_rng i) -> hk [PI i] (add_defset l) any.
Proof.
  intros l i El s A HI Hf Hin _ Hd. unfold add_defset. cbn [fst snd]. rewrite El.
  apply post_consume; try reflexivity; try assumption; [apply key_not_in; exact Hd| | |intros a _; exact I].
  - eapply Stable_trans; [apply Stable_app_leaf|apply Stable_same; reflexivity].
  - eapply FieldsOK_same; [| |apply FieldsOK_app_leaf; apply (iv_fields _ _ HI)]; reflexivity.
Qed.
Lemma hk_add_leaf_nopos : forall l, hk [] (add_leaf_nopos l) any.
Proof.
  intros l s A HI Hf Hin _ _. unfold add_leaf_nopos. cbn [fst snd]. exists A. split.
  - eapply Iv_ext; [exact HI|apply Stable_app_leaf|reflexivity|reflexivity|]. apply FieldsOK_app_leaf. apply (iv_fields _ _ HI).
  - split; [apply Stable_app_leaf|]. split; [reflexivity|]. split; [apply incl_refl|]. split; [intros r Hr; right; left; exact Hr|intros a _; exact I].
Qed.
Lemma hk_add_multiclass : forall nm i, hk [PI i] (add_multiclass nm (tagr f (i_rng i))) any.
Proof.
  intros nm i s A HI Hf Hin _ Hd. unfold add_multiclass. cbn [fst snd].
  apply post_consume; try reflexivity; try assumption; [apply key_not_in; exact Hd| | |intros a _; exact I].
  - eapply Stable_trans; [apply Stable_app_mc|apply Stable_same; reflexivity].
  - eapply FieldsOK_same; [| |apply (iv_fields _ _ HI)]; reflexivity.
Qed.

(** ---- mutators of records / multiclasses *)
Lemma Forall_set_nth_keep : forall X (Pr : X -> Prop) (g : X -> X) n l,
  (forall x, Pr x -> Pr (g x)) -> Forall Pr l -> Forall Pr (set_nth n g l).
Proof.
  intros X Pr g. induction n as [|n IH]; intros l Hg H; destruct l as [|x r]; cbn [set_nth]; try exact H;
    inversion H; subst; constructor; auto.
Qed.
Lemma Stable_set_rec : forall s id g, (forall r, rc_loc (g r) = rc_loc r) ->
  Stable s (set_recs (set_nth (N.to_nat id) g (s_recs s)) s).
Proof.
  intros s id g Hg [i|i|i] d H; cbn [define_loc] in *; cbn; [|exact H|exact H].
  rewrite ScopeFrame.nthN_set_nth. destruct (id =? i); [|exact H].
  destruct (nthN (s_recs s) i) as [r|]; [|discriminate]. cbn in *. rewrite Hg. exact H.
Qed.
Lemma Stable_set_mc : forall s id g, (forall m, mc_loc (g m) = mc_loc m) ->
  Stable s (set_mcs (set_nth (N.to_nat id) g (s_mcs s)) s).
Proof.
  intros s id g Hg [i|i|i] d H; cbn [define_loc] in *; cbn; [exact H| |exact H].
  rewrite ScopeFrame.nthN_set_nth. destruct (id =? i); [|exact H].
  destruct (nthN (s_mcs s) i) as [r|]; [|discriminate]. cbn in *. rewrite Hg. exact H.
Qed.

(** [record_mut] with a function that keeps the definition range and maps good field maps to good field maps *)
Lemma Iv_record_mut : forall A s id g, Iv A s -> (forall r, rc_loc (g r) = rc_loc r) ->
  (forall r, Forall (fun e : name * N => exists l, nthN (s_leaves s) (snd e) = Some l /\ In (lf_loc l) A) (rc_fields r) ->
             Forall (fun e : name * N => exists l, nthN (s_leaves s) (snd e) = Some l /\ In (lf_loc l) A) (rc_fields (g r))) ->
  Iv A (snd (record_mut id g s)) /\ Stable s (snd (record_mut id g s)) /\
  s_trace (snd (record_mut id g s)) = s_trace s /\ s_indexed (snd (record_mut id g s)) = s_indexed s /\
  s_pos (snd (record_mut id g s)) = s_pos s /\ s_leaves (snd (record_mut id g s)) = s_leaves s.
Proof.
  intros A s id g HI Hg Hf. unfold record_mut. destruct (nthN (s_recs s) id).
  - cbn [fst snd]. split; [|split; [apply Stable_set_rec; exact Hg|repeat split]].
    eapply Iv_ext; [exact HI|apply Stable_set_rec; exact Hg|reflexivity|reflexivity|].
    unfold FieldsOK. cbn [s_recs set_recs s_leaves]. apply Forall_set_nth_keep; [exact Hf|apply (iv_fields _ _ HI)].
  - unfold bad. cbn [fst snd]. split; [|split; [apply Stable_same; reflexivity|repeat split]].
    eapply Iv_same; [exact HI| | | | |apply incl_refl]; reflexivity.
Qed.
Lemma hk_record_mut_keep : forall id g, (forall r, rc_loc (g r) = rc_loc r) -> (forall r, rc_fields (g r) = rc_fields r) ->
  hk [] (record_mut id g) any.
Proof.
  intros id g Hg Hfl s A HI Hf Hin _ _.
  destruct (Iv_record_mut A s id g HI Hg) as (H1 & H2 & H3 & H4 & _); [intros r Hr; rewrite Hfl; exact Hr|].
  exists A. split; [exact H1|]. split; [exact H2|]. split; [exact H3|]. split; [rewrite H4; apply incl_refl|].
  split; [intros r Hr; right; left; exact Hr|intros a _; exact I].
Qed.
Lemma hk_multiclass_mut : forall id g, (forall m, mc_loc (g m) = mc_loc m) -> hk [] (multiclass_mut id g) any.
Proof.
  intros id g Hg s A HI Hf Hin Hnd Hd. unfold multiclass_mut. destruct (nthN (s_mcs s) id).
  - cbn [fst snd]. exists A. split.
    + eapply Iv_ext; [exact HI|apply Stable_set_mc; exact Hg|reflexivity|reflexivity|].
      eapply FieldsOK_same; [| |apply (iv_fields _ _ HI)]; reflexivity.
    + split; [apply Stable_set_mc; exact Hg|]. split; [reflexivity|]. split; [apply incl_refl|].
      split; [intros r Hr; right; left; exact Hr|intros a _; exact I].
  - apply (hk_bad unit any s A HI Hf Hin Hnd Hd).
Qed.
Lemma hk_scopes_add_variable : forall l i, lf_loc l = tagr f (i_rng i) -> hk [PI i] (scopes_add_variable l) any.
Proof.
  intros l i El. unfold scopes_add_variable. eapply hk_bindr; [apply hk_add_leaf; exact El|]. intros id _ s A HI Hf Hin Hnd Hd.
  destruct (s_scopes s).
  - apply (hk_bad unit any s A HI Hf Hin Hnd Hd).
  - cbn [fst snd]. apply post_same; try reflexivity; try assumption; [apply incl_refl|intros a _; exact I].
Qed.

(** ---- field lookups find consumed definition ranges *)
Lemma alookup_Forall : forall (Qe : N -> Prop) k (m : list (name * N)) v,
  Forall (fun e => Qe (snd e)) m -> alookup k m = Some v -> Qe v.
Proof.
  intros Qe k m v H. induction H as [|[k' v'] rest Hx Hr IH]; cbn; [discriminate|].
  destruct (name_eqb k k'); [intros E; inversion E; subst; exact Hx|exact IH].
Qed.
Lemma imap_insert_Forall : forall (Qe : N -> Prop) k v (m : list (name * N)),
  Qe v -> Forall (fun e => Qe (snd e)) m -> Forall (fun e => Qe (snd e)) (imap_insert k v m).
Proof.
  intros Qe k v m Hv H. induction H as [|[k' v'] rest Hx Hr IH]; cbn.
  - constructor; [exact Hv|constructor].
  - destruct (name_eqb k k'); constructor; cbn; auto.
Qed.
Lemma find_field_fields : forall A s, FieldsOK A s -> forall fuel id nm fid,
  Scope.find_field fuel (s_recs s) id nm = Some fid -> exists l, nthN (s_leaves s) fid = Some l /\ In (lf_loc l) A.
Proof.
  intros A s HF. induction fuel as [|fuel IH]; intros id nm fid E; cbn in E; [discriminate|].
  destruct (nthN (s_recs s) id) as [r|] eqn:En; [|discriminate].
  assert (Hr : Forall (fun e : name * N => exists l, nthN (s_leaves s) (snd e) = Some l /\ In (lf_loc l) A) (rc_fields r)).
  { unfold FieldsOK in HF. rewrite Forall_forall in HF. apply HF. unfold nthN in En. eapply nth_error_In. exact En. }
  destruct (alookup nm (rc_fields r)) as [f0|] eqn:Ef.
  - inversion E. subst.
    exact (alookup_Forall (fun j => exists l, nthN (s_leaves s) j = Some l /\ In (lf_loc l) A) _ _ _ Hr Ef).
  - clear Hr. induction (rc_parents r) as [|p ps IHps]; [discriminate|].
    destruct (Scope.find_field fuel (s_recs s) p nm) as [f1|] eqn:E1.
    + inversion E. subst. eapply IH; eassumption.
    + apply IHps. exact E.
Qed.

(** ---- a new field: `add_record_field` immediately followed by `Record::add_record_field` (FieldDef, FieldLet) *)
Definition add_field_leaf (lf : leaf) (rid : N) (nm : name) : M N :=
  bind (add_leaf lf) (fun fid => seq (record_mut rid (rec_add_field nm fid)) (ret fid)).
Lemma add_field_leaf_ext : forall B lf rid nm (rest : N -> M B) s,
  bind (add_leaf lf) (fun fid => seq (record_mut rid (rec_add_field nm fid)) (rest fid)) s = bind (add_field_leaf lf rid nm) rest s.
Proof. intros. reflexivity. Qed.

(** what [add_field_leaf] does to a state that satisfies the invariant and has not consumed the range yet *)
Lemma add_field_leaf_step : forall lf rid nm A s, Iv A s -> ~ In (lf_loc lf) A -> In (r_file (lf_loc lf)) (s_indexed s) ->
  let nid := lenN (s_leaves s) in
  let s2 := snd (add_field_leaf lf rid nm s) in
  fst (add_field_leaf lf rid nm s) = Some nid /\
  Iv (lf_loc lf :: A) s2 /\ Stable s s2 /\ s_trace s2 = s_trace s /\ s_indexed s2 = s_indexed s /\
  s_leaves s2 = s_leaves s ++ [lf] /\
  s_pos s2 = (if rng_empty (lf_loc lf) then s_pos s else (lf_loc lf, SyLeaf nid) :: s_pos s).
Proof.
  intros lf rid nm A s HI Hn Hfile nid s2.
  set (s0 := set_leaves (s_leaves s ++ [lf]) s).
  set (s1 := add_pos (lf_loc lf) (SyLeaf nid) s0).
  assert (E2 : add_field_leaf lf rid nm s = (Some nid, snd (record_mut rid (rec_add_field nm nid) s1))) by reflexivity.
  assert (HI0 : Iv A s0).
  { eapply Iv_ext; [exact HI|apply Stable_app_leaf|reflexivity|reflexivity|apply FieldsOK_app_leaf; apply (iv_fields _ _ HI)]. }
  assert (HI1 : Iv (lf_loc lf :: A) s1) by (apply Iv_add_pos_fresh; assumption).
  assert (Hl1 : s_leaves s1 = s_leaves s ++ [lf]) by (unfold s1, add_pos; destruct (rng_empty (lf_loc lf)); reflexivity).
  destruct (Iv_record_mut (lf_loc lf :: A) s1 rid (rec_add_field nm nid) HI1) as (H1 & H2 & H3 & H4 & H5 & H6).
  { intros r. reflexivity. }
  { intros r Hr. cbn [rec_add_field rc_fields].
    apply (imap_insert_Forall (fun j => exists l, nthN (s_leaves s1) j = Some l /\ In (lf_loc l) (lf_loc lf :: A))); [|exact Hr].
    exists lf. split; [rewrite Hl1; apply nthN_app_last|left; reflexivity]. }
  unfold s2. rewrite E2. cbn [fst snd]. split; [reflexivity|]. split; [exact H1|].
  split; [eapply Stable_trans; [apply Stable_app_leaf|]; eapply Stable_trans; [apply (Stable_add_pos (lf_loc lf) (SyLeaf nid) s0)|exact H2]|].
  split; [rewrite H3; unfold s1; rewrite trace_add_pos; reflexivity|].
  split; [rewrite H4; unfold s1; rewrite indexed_add_pos; reflexivity|].
  split; [rewrite H6; exact Hl1|]. rewrite H5. unfold s1, add_pos. destruct (rng_empty (lf_loc lf)); reflexivity.
Qed.

Lemma hk_add_field_leaf : forall lf rid nm i, lf_loc lf = tagr f (i_rng i) -> hk [PI i] (add_field_leaf lf rid nm) any.
Proof.
  intros lf rid nm i El s A HI Hf Hin _ Hd.
  destruct (add_field_leaf_step lf rid nm A s HI) as (E & H1 & H2 & H3 & H4 & _).
  { rewrite El. apply key_not_in. exact Hd. }
  { rewrite El. exact Hin. }
  exists (lf_loc lf :: A). split; [exact H1|]. split; [exact H2|]. split; [exact H3|]. split; [rewrite H4; apply incl_refl|].
  split; [|intros a _; exact I]. intros r [<-|Hr]; [left; rewrite El; left; reflexivity|right; left; exact Hr].
Qed.

(** ---- `let x = v` in a record body: the new field is keyed, then the same range is keyed as a reference to the
    overridden field [fid], whose own definition range was consumed earlier *)
Lemma hkS_let_core : forall x lf rid nm i fid f0 fuel rid0 nm0,
  lf_loc lf = tagr f (i_rng i) -> nthN (s_leaves x) fid = Some f0 ->
  Scope.find_field fuel (s_recs x) rid0 nm0 = Some fid ->
  hkS x [PI i] (bind (add_field_leaf lf rid nm) (fun _ => add_reference (SyLeaf fid) (lf_loc lf))) any.
Proof.
  intros x lf rid nm i fid f0 fuel rid0 nm0 El Ef0 Eff.
  set (s2 := snd (add_field_leaf lf rid nm x)).
  set (s2' := set_refs ((SyLeaf fid, lf_loc lf) :: s_refs s2) (set_uses ((lf_loc lf, define_loc s2 (SyLeaf fid)) :: s_uses s2) s2)).
  assert (Ew : bind (add_field_leaf lf rid nm) (fun _ => add_reference (SyLeaf fid) (lf_loc lf)) x
               = (Some tt, add_pos (lf_loc lf) (SyLeaf fid) s2')) by reflexivity.
  unfold hkS. rewrite Ew. cbn [fst snd]. intros A HI Hf Hin _ Hd.
  assert (Hn : ~ In (lf_loc lf) A) by (rewrite El; apply key_not_in; exact Hd).
  destruct (find_field_fields A x (iv_fields _ _ HI) fuel rid0 nm0 fid Eff) as (l0 & El0 & Hl0). rewrite Ef0 in El0. inversion El0. subst l0.
  assert (Hne : lf_loc f0 <> lf_loc lf) by (intros E; apply Hn; rewrite <- E; exact Hl0).
  destruct (add_field_leaf_step lf rid nm A x HI Hn) as (E & H1 & H2 & H3 & H4 & H5 & H6).
  { rewrite El. exact Hin. }
  fold s2 in H1, H2, H3, H4, H5, H6.
  assert (HI2' : Iv (lf_loc lf :: A) s2') by (eapply Iv_same; [exact H1| | | | |apply incl_refl]; reflexivity).
  assert (HS : Stable x (add_pos (lf_loc lf) (SyLeaf fid) s2')).
  { eapply Stable_trans; [exact H2|]. eapply Stable_trans; [apply (Stable_same s2 s2'); reflexivity|apply Stable_add_pos]. }
  exists (lf_loc lf :: A). split.
  - (* the invariant *)
    unfold add_pos. destruct (rng_empty (lf_loc lf)) eqn:Eemp; [exact HI2'|].
    destruct HI2' as [P1 P2 P3 P4]. split; cbn [s_pos set_pos].
    + constructor; [left; reflexivity|exact P1].
    + change (s_pos s2') with (s_pos s2). rewrite H6. apply LogOK_cons_intro.
      * right. exists (lf_loc lf, SyLeaf (lenN (s_leaves x))), (s_pos x). cbn [fst snd].
        split; [reflexivity|]. split; [reflexivity|].
        split; [cbn [define_loc]; change (s_leaves (set_pos _ s2')) with (s_leaves s2); rewrite H5, nthN_app_last; reflexivity|].
        split.
        -- unfold fresh. eapply Forall_impl; [|apply (iv_pos _ _ HI)]. intros e He Ee. apply Hn. rewrite <- Ee. exact He.
        -- exists (lf_loc f0). split; [|exact Hne]. cbn [define_loc]. change (s_leaves (set_pos _ s2')) with (s_leaves s2).
           rewrite H5, (nthN_app_keep _ _ lf _ _ Ef0). reflexivity.
      * eapply LogOK_stable; [apply (Stable_same s2'); reflexivity|]. change (s_pos s2') with (s_pos s2) in P2. rewrite H6 in P2. exact P2.
    + eapply FieldsOK_same; [| |exact P3]; reflexivity.
    + exact P4.
  - split; [exact HS|]. split; [rewrite trace_add_pos; exact H3|]. split; [rewrite indexed_add_pos; change (s_indexed s2') with (s_indexed s2); rewrite H4; apply incl_refl|].
    split; [|intros a _; exact I]. intros r [<-|Hr]; [left; rewrite El; left; reflexivity|right; left; exact Hr].
Qed.

(** ---- reordering the parts (only the set of keys matters) *)
Lemma hk_perm : forall B l l' (m : M B) Q, Permutation (keys f l') (keys f l) -> hk l m Q -> hk l' m Q.
Proof.
  intros B l l' m Q Hp H s A HI Hf Hin Hnd Hd.
  destruct (H s A HI Hf Hin (Permutation_NoDup Hp Hnd)) as (A' & H1 & H2 & H3 & H4 & H5 & H6).
  { intros r Hr. apply Hd. eapply Permutation_in; [apply Permutation_sym; exact Hp|exact Hr]. }
  exists A'. repeat (split; [assumption|]). split; [|exact H6].
  intros r Hr. destruct (H5 r Hr) as [Hk|Hk]; [left; eapply Permutation_in; [apply Permutation_sym; exact Hp|exact Hk]|right; exact Hk].
Qed.
Lemma hk_swap : forall B l1 l2 l3 (m : M B) Q, hk (l2 ++ l1 ++ l3) m Q -> hk (l1 ++ l2 ++ l3) m Q.
Proof. intros B l1 l2 l3 m Q H. eapply hk_perm; [|exact H]. rewrite !keys_app. apply Permutation_app_swap_app. Qed.
Lemma hk_swap2 : forall B l1 l2 (m : M B) Q, hk (l2 ++ l1) m Q -> hk (l1 ++ l2) m Q.
Proof. intros B l1 l2 m Q H. eapply hk_perm; [|exact H]. rewrite !keys_app. apply Permutation_app_comm. Qed.

Lemma hk_iterM0 : forall X B (body : X -> M B) l, (forall x, hk [] (body x) any) -> hk [] (iterM body l) any.
Proof.
  intros X B body. induction l as [|x r IH]; intros H; cbn [iterM]; [apply hk_ret; exact I|].
  apply hk_seq0 with (Q1 := any); [apply H|apply IH; exact H].
Qed.
Lemma hk_bind_lift_none : forall B C l (k : B -> M C) Q, hk l (bind (lift None) k) Q.
Proof.
  intros B C l k Q. apply hk_w0. apply hk_bind0 with (Q1 := fun _ => False); [apply hk_lift; intros a E; discriminate|intros a []].
Qed.
Lemma hk_bind_lift_some : forall B C l (a : B) (k : B -> M C) Q, hk l (k a) Q -> hk l (bind (lift (Some a)) k) Q.
Proof. intros B C l a k Q H. eapply hk_ext; [|exact H]. intros s. reflexivity. Qed.

Ltac hret := apply hk_ret; exact I.
Lemma hk_bind_here : forall C l r (k : rng -> M C) Q, hk l (k (tagr f r)) Q -> hk l (bind (here r) k) Q.
Proof. intros C l r k Q H. apply hk_bind0 with (Q1 := fun loc => loc = tagr f r); [apply hk_here|]. intros loc ->. exact H. Qed.
Ltac hhere := apply hk_bind_here.
Ltac hstate := apply hk_bind0 with (Q1 := any); [apply hk_state|]; intros ? _.

(** ---- the traversal of Indexer.v *)
Lemma k_leaf_of : forall i, hk [] (leaf_of i) any.
Proof. intros i. unfold leaf_of. hstate. apply hk_lift_any. Qed.

Lemma k_index_ty : forall t, hk (ty_parts t) (index_ty t) any.
Proof.
  induction t; cbn [index_ty ty_parts]; try hret.
  - eapply hk_bindr; [exact IHt|]. intros x _. hret.
  - hhere. hstate. destruct (find_class _ (i_name i)).
    + eapply hk_seqr; [apply hk_add_reference|hret].
    + apply hk_w0. apply hk_seq0 with (Q1 := any); [apply hk_error|apply hk_none].
Qed.

Lemma k_index_annot : forall op an r,
  hk (match an with Some (t, tr) => PR tr :: ty_parts t | None => [] end) (index_annot op an r) any.
Proof.
  intros op an r. unfold index_annot. destruct (bang_annot op).
  - apply hk_w0. apply hk_seq0 with (Q1 := any); [|hret]. destruct an as [[t tr]|]; [apply hk_err|hret].
  - destruct an as [[t tr]|].
    + apply hk_wcons. eapply hk_any. apply hk_try. apply k_index_ty.
    + apply hk_seq0 with (Q1 := any); [apply hk_err|hret].
  - destruct an as [[t tr]|]; [|hret]. apply hk_wcons. eapply hk_any. apply hk_try. apply k_index_ty.
Qed.
Lemma k_check_arity : forall op vs r, hk [] (check_arity op vs r) any.
Proof. intros. unfold check_arity. destruct (arity_ok _ _); [hret|apply hk_err]. Qed.

Lemma k_sufs_loop : forall (l : list suffix) t,
  hk (flat_map suffix_parts l)
     ((fix sufs_loop (t : mty) (l : list suffix) : M mty :=
           match l with
           | [] => ret t
           | sf :: r =>
             bind match sf with
                   | SufRange => lift (match t with MBits _ => Some MBit | _ => None end)
                   | SufSlice single => if single then lift (element_typ t) else ret t
                   | SufField i fr =>
                     bind (here (i_rng i)) (fun loc =>
                     bind state (fun s =>
                     match ty_find_field s t (i_name i) with
                     | None => match t with MUnknown => none | _ => seq (err fr DCannotAccessField) none end
                     | Some f => seq (add_reference (SyLeaf f) loc) (bind (leaf_of f) (fun lf => ret (lf_ty lf)))
                     end))
                   end (fun t' => sufs_loop t' r)
           end) t l) any.
Proof.
  induction l as [|sf r IH]; intros t; [hret|]. cbn [flat_map].
  eapply hk_bind with (Q1 := any); [|intros t' _; apply IH].
  destruct sf as [|single|i fr]; cbn [suffix_parts].
  - apply hk_lift_any.
  - destruct single; [apply hk_lift_any|hret].
  - apply (hk_wr _ [PI i] [PR fr]). hhere. hstate. destruct (ty_find_field _ t (i_name i)).
    + eapply hk_seqr; [apply hk_add_reference|]. apply hk_bind0 with (Q1 := any); [apply k_leaf_of|]. intros lf _. hret.
    + apply hk_w0. destruct t; try (apply hk_seq0 with (Q1 := any); [apply hk_err|apply hk_none]). apply hk_none.
Qed.

Lemma k_bind_var : forall i t,
  hk [PI i] (bind (here (i_rng i)) (fun loc => scopes_add_variable (mkLeaf LVar (i_name i) t false loc))) any.
Proof. intros. hhere. apply hk_scopes_add_variable. reflexivity. Qed.
Lemma k_bind_var_first : forall v i t, value_first_ident v = Some i ->
  hk (value_parts v) (bind (here (i_rng i)) (fun loc => scopes_add_variable (mkLeaf LVar (i_name i) t false loc))) any.
Proof.
  intros v j t E. destruct v as [r [|[sv sufs] rest]]; cbn in E; try discriminate. destruct sv; try discriminate.
  inversion E. subst. cbn [value_parts flat_map inner_parts simple_parts app]. apply hk_wcons.
  apply (hk_wr _ [PI j]). apply k_bind_var.
Qed.

Definition kvalues_ok (n : nat) : Prop :=
  (forall v, hk (value_parts v) (index_value n v) any) /\
  (forall x, hk (inner_parts x) (index_inner n x) any) /\
  (forall sv, hk (simple_parts sv) (index_simple n sv) any) /\
  (forall a, hk (arg_parts a) (index_arg n a) any) /\
  (forall op an vs r, hk (simple_parts (SBang op an vs r)) (index_bang n op an vs r) any) /\
  (forall op a vs r, hk (flat_map value_parts vs) (index_bang_ops n op a vs r) any).

Lemma kvalues_ok_all : forall n, kvalues_ok n.
Proof.
  induction n as [|n (IHv & IHi & IHs & IHa & IHb & IHo)].
  - split; [|split; [|split; [|split; [|split]]]]; intros; apply hk_w0; apply hk_bad.
  - assert (Hvals : forall vs, hk (flat_map value_parts vs) (iterM (index_value n) vs) any)
      by (intros vs; apply hk_iterM; intros v _; apply IHv).
    assert (Hmap : forall vs, hk (flat_map value_parts vs) (mapM_opt (index_value n) vs) any)
      by (intros vs; eapply hk_any; apply hk_mapM_opt with (Q := any); intros v _; apply IHv).
    assert (Hargs : forall l, hk (flat_map arg_parts l) (mapM_opt (index_arg n) l) any)
      by (intros l; eapply hk_any; apply hk_mapM_opt with (Q := any); intros a _; apply IHa).
    split; [|split; [|split; [|split; [|split]]]].
    + (* index_value *)
      intros [r [|first rest]]; cbn [index_value value_parts]; [apply hk_w0; apply hk_none|].
      apply hk_wcons. cbn [flat_map].
      eapply hk_bind; [apply hk_try; apply IHi|]. intros t1 _.
      eapply hk_seqr; [apply hk_iterM; intros y _; apply IHi|].
      destruct rest; [apply hk_lift_any|hret].
    + (* index_inner *)
      intros [sv sufs]; cbn [index_inner inner_parts].
      eapply hk_bind; [apply IHs|]. intros t0 _. apply k_sufs_loop.
    + (* index_simple *)
      intros sv. destruct sv; cbn [index_simple simple_parts]; try hret.
      * eapply hk_seqr; [apply Hvals|hret].
      * eapply hk_bindr; [apply Hmap|]. intros os _. hret.
      * eapply hk_seqr; [apply Hvals|hret].
      * (* SId *)
        hhere. hstate. destruct (resolve_id _ (i_name i)) as [sym|].
        -- eapply hk_seqr; [apply hk_add_reference|]. hstate.
           destruct sym.
           ++ apply hk_bind0 with (Q1 := any); [apply hk_lift_any|]. intros rc _.
              destruct (rc_class rc); [apply hk_none|].
              apply hk_bind0 with (Q1 := any); [apply hk_lift_any|]. intros d _. hret.
           ++ apply hk_none.
           ++ apply hk_bind0 with (Q1 := any); [apply hk_lift_any|]. intros lf _.
              destruct (lf_kind lf); try hret. apply hk_none.
        -- apply hk_w0. destruct (name_eqb (i_name i) name_NAME); [hret|].
           apply hk_seq0 with (Q1 := any); [apply hk_error|apply hk_none].
      * (* SClassVal *)
        hhere. hstate. destruct (find_class _ (i_name i)) as [cid|].
        -- apply (hk_seq _ _ [PI i] (PR r :: flat_map arg_parts args)) with (Q1 := any); [apply hk_add_reference|].
           apply hk_wcons. hstate. apply hk_bind0 with (Q1 := any); [apply hk_lift_any|]. intros rc _.
           eapply hk_bindr; [apply Hargs|]. intros avs _. hstate.
           apply hk_seq0 with (Q1 := any); [apply hk_emit|hret].
        -- apply hk_w0. apply hk_seq0 with (Q1 := any); [apply hk_error|apply hk_none].
      * (* SBang *) apply IHb.
      * eapply hk_seqr; [apply Hvals|apply hk_none].
    + (* index_arg *)
      intros a. destruct a; cbn [index_arg arg_parts].
      * apply hk_wcons. eapply hk_bindr; [apply hk_try; apply IHv|]. intros o _. hret.
      * apply hk_wcons. eapply hk_bindr; [apply hk_try; apply IHv|]. intros o _. hret.
      * apply hk_w0. apply hk_seq0 with (Q1 := any); [apply hk_err|apply hk_none].
    + (* index_bang *)
      intros op an vs r. cbn [index_bang simple_parts]. apply hk_wcons.
      eapply hk_bind; [apply k_index_annot|]. intros a _.
      apply hk_seq0 with (Q1 := any); [apply k_check_arity|apply IHo].
    + (* index_bang_ops *)
      intros op a vs r. cbn [index_bang_ops].
      assert (Hdflt :
        hk (flat_map value_parts vs)
           (match bang_check_each op with
              | Some expected =>
                seq (iterM (fun v =>
                         bind (try_ (index_value n v)) (fun o =>
                         match o with
                         | Some t => bind state (fun s => if can_cast s t expected then ret tt else err (value_rng v) DOperand)
                         | None => ret tt
                         end)) vs)
                    (bind state (fun s => lift (snd (bang_post s op a []))))
              | None =>
                bind (mapM_opt (index_value n) vs) (fun os =>
                bind state (fun s =>
                let '(ds, t) := bang_post s op a (combine (map value_rng vs) os) in
                seq (iterM (fun d => err (fst d) DOperand) ds) (lift t)))
              end) any).
      { destruct (bang_check_each op) as [expected|].
        - eapply hk_seqr.
          + apply hk_iterM. intros v _.
            eapply hk_bindr; [apply hk_try; apply IHv|]. intros o _.
            destruct o as [t|]; [|hret]. hstate.
            destruct (can_cast _ t expected); [hret|apply hk_err].
          + hstate. apply hk_lift_any.
        - eapply hk_bindr; [apply Hmap|]. intros os _. hstate.
          destruct (bang_post _ op a (combine (map value_rng vs) os)) as [ds t].
          apply hk_seq0 with (Q1 := any); [|apply hk_lift_any].
          apply hk_iterM0. intros d. apply hk_err. }
      destruct op; try exact Hdflt; clear Hdflt.
      * (* XFilter: vs = var :: lst :: pred :: _; visiting order lst, var, pred *)
        destruct vs as [|var [|lst [|pred rest]]]; cbn [nth_error]; try apply hk_bind_lift_none;
          repeat (apply hk_bind_lift_some; try apply hk_bind_lift_none).
        cbn [flat_map]. apply hk_swap.
        eapply hk_bind; [apply IHv|]. intros lt _.
        apply hk_bind0 with (Q1 := any); [apply hk_lift_any|]. intros vt _.
        apply hk_bind0 with (Q1 := fun i => value_first_ident var = Some i); [apply hk_lift; intros i0 E; exact E|]. intros i Hi.
        eapply hk_seqr; [|hret]. apply hk_scoped.
        eapply hk_seq; [apply k_bind_var_first; exact Hi|]. apply hk_wr. apply IHv.
      * (* XFoldl: vs = init :: lst :: acc :: var :: expr :: _ *)
        destruct vs as [|init [|lst [|acc [|var [|expr rest]]]]]; cbn [nth_error]; try apply hk_bind_lift_none;
          repeat (apply hk_bind_lift_some; try apply hk_bind_lift_none).
        cbn [flat_map].
        eapply hk_bind; [apply IHv|]. intros it _.
        eapply hk_bind; [apply IHv|]. intros lt _.
        apply hk_bind0 with (Q1 := any); [apply hk_lift_any|]. intros et _.
        apply hk_bind0 with (Q1 := fun i => value_first_ident acc = Some i); [apply hk_lift; intros i0 E; exact E|]. intros ia Hia.
        apply hk_bind0 with (Q1 := fun i => value_first_ident var = Some i); [apply hk_lift; intros i0 E; exact E|]. intros iv Hiv.
        eapply hk_seqr; [|hret]. apply hk_scoped.
        eapply hk_seq; [apply k_bind_var_first; exact Hia|].
        eapply hk_seq; [apply k_bind_var_first; exact Hiv|]. apply hk_wr. apply IHv.
      * (* XForEach: vs = var :: sq :: expr :: _; visiting order sq, var, expr *)
        destruct vs as [|var [|sq [|expr rest]]]; cbn [nth_error]; try apply hk_bind_lift_none;
          repeat (apply hk_bind_lift_some; try apply hk_bind_lift_none).
        cbn [flat_map]. apply hk_swap.
        eapply hk_bind; [apply IHv|]. intros st_ _.
        apply hk_bind0 with (Q1 := any); [apply hk_lift_any|]. intros vt _.
        apply hk_bind0 with (Q1 := fun i => value_first_ident var = Some i); [apply hk_lift; intros i0 E; exact E|]. intros i Hi.
        eapply hk_bindr; [|intros et _; hret].
        apply hk_try. apply hk_scoped.
        eapply hk_seq; [apply k_bind_var_first; exact Hi|]. apply hk_wr. apply IHv.
Qed.

Lemma k_index_value : forall n v, hk (value_parts v) (index_value n v) any.
Proof. intros n. apply (kvalues_ok_all n). Qed.
Lemma k_index_arg : forall n a, hk (arg_parts a) (index_arg n a) any.
Proof. intros n. apply (kvalues_ok_all n). Qed.
Lemma k_index_args : forall n l, hk (flat_map arg_parts l) (index_args n l) any.
Proof. intros n l. unfold index_args. eapply hk_any. apply hk_mapM_opt with (Q := any). intros a _. apply k_index_arg. Qed.
Lemma k_values : forall n vs, hk (flat_map value_parts vs) (iterM (index_value n) vs) any.
Proof. intros n vs. apply hk_iterM. intros v _. apply k_index_value. Qed.

Lemma k_resolve_class : forall n c, hk (classref_parts c) (resolve_class_ref_as_class n c) any.
Proof.
  intros n [i args r]. cbn [resolve_class_ref_as_class classref_parts].
  hhere. hstate. destruct (find_class _ (i_name i)) as [cid|].
  - apply (hk_seq _ _ [PI i] (PR r :: flat_map arg_parts args)) with (Q1 := any); [apply hk_add_reference|].
    apply hk_wcons. hstate. apply hk_bind0 with (Q1 := any); [apply hk_lift_any|]. intros rc _.
    eapply hk_bindr; [apply k_index_args|]. intros avs _. hstate.
    apply hk_seq0 with (Q1 := any); [apply hk_emit|hret].
  - apply hk_w0. apply hk_seq0 with (Q1 := any); [apply hk_error|apply hk_none].
Qed.
Lemma k_resolve_multiclass : forall n c, hk (classref_parts c) (resolve_class_ref_as_multiclass n c) any.
Proof.
  intros n [i args r]. cbn [resolve_class_ref_as_multiclass classref_parts].
  hhere. hstate. destruct (find_multiclass _ (i_name i)) as [mid|].
  - apply (hk_seq _ _ [PI i] (PR r :: flat_map arg_parts args)) with (Q1 := any); [apply hk_add_reference|].
    apply hk_wcons. hstate. apply hk_bind0 with (Q1 := any); [apply hk_lift_any|]. intros rc _.
    eapply hk_bindr; [apply k_index_args|]. intros avs _. hstate.
    apply hk_seq0 with (Q1 := any); [apply hk_emit|hret].
  - apply hk_w0. apply hk_seq0 with (Q1 := any); [apply hk_error|apply hk_none].
Qed.

Lemma k_index_parents : forall n ps, hk (flat_map classref_parts ps) (index_parents n ps) any.
Proof.
  intros n ps. unfold index_parents. hstate.
  destruct (current_record_id _) as [rid|].
  - apply hk_iterM. intros cr _.
    eapply hk_bindr; [apply hk_try; apply k_resolve_class|]. intros o _.
    destruct o as [cid|]; [|hret].
    destruct (cid =? rid); [apply hk_err|]. apply hk_record_mut_keep; intros r0; reflexivity.
  - destruct (current_multiclass_id _) as [mid|].
    + apply hk_iterM. intros cr _.
      eapply hk_bindr; [apply hk_try; apply k_resolve_multiclass|]. intros o _.
      destruct o as [p|]; [|hret]. apply hk_multiclass_mut. intros m. reflexivity.
    + destruct (current_defm_id _); [|apply hk_w0; apply hk_bad].
      apply hk_iterM. intros cr _. apply k_resolve_multiclass.
Qed.

Lemma k_index_targ : forall n a, hk (targ_parts a) (index_targ n a) any.
Proof.
  intros n [t i dflt]. cbn [index_targ targ_parts]. hhere.
  eapply hk_bind; [apply k_index_ty|]. intros typ _.
  apply (hk_bind _ _ [PI i] (opt_parts value_parts dflt)) with (Q1 := any); [apply hk_add_leaf; reflexivity|]. intros tid _.
  hstate. apply hk_seq0 with (Q1 := any).
  - destruct (current_record_id _) as [rid|]; [apply hk_record_mut_keep; intros r0; reflexivity|].
    destruct (current_multiclass_id _) as [mid|]; [apply hk_multiclass_mut; intros m; reflexivity|apply hk_bad].
  - destruct dflt as [v|]; cbn [opt_parts]; [|apply hk_none].
    eapply hk_seqr; [apply k_index_value|apply hk_none].
Qed.

(** `index_name_value nm` followed by the definition it names: consumes the first identifier of the value *)
Lemma k_named : forall B v (k : name * rng -> M B),
  (forall i, hk [PI i] (k (i_name i, tagr f (i_rng i))) any) ->
  hk (value_parts v) (bind (index_name_value v) k) any.
Proof.
  intros B v k H. destruct v as [r [|[sv sufs] rest]]; cbn [index_name_value];
    try (apply hk_w0; apply hk_bind0 with (Q1 := fun _ => False); [apply hk_none|intros a []]).
  destruct sv; try (apply hk_w0; apply hk_bind0 with (Q1 := fun _ => False); [apply hk_none|intros a []]).
  cbn [value_parts flat_map inner_parts simple_parts app]. apply hk_wcons. apply (hk_wr _ [PI i]).
  apply hk_bind0 with (Q1 := fun p => p = (i_name i, tagr f (i_rng i))).
  - hhere. apply hk_ret. reflexivity.
  - intros p ->. apply H.
Qed.

Lemma k_index_defvar : forall n i v, hk (PI i :: value_parts v) (index_defvar n i v) any.
Proof.
  intros n i v. unfold index_defvar. hhere. apply (hk_swap2 _ [PI i] (value_parts v)).
  eapply hk_bind; [apply hk_try; apply k_index_value|]. intros o _.
  apply hk_scopes_add_variable. reflexivity.
Qed.

Lemma hkS_bind_lift_some : forall B C x l (a : B) (k : B -> M C) Q, hkS x l (k a) Q -> hkS x l (bind (lift (Some a)) k) Q.
Proof. intros B C x l a k Q H. apply (hkS_ext _ x l (k a)); [reflexivity|exact H]. Qed.
Lemma hkS_bind_leaf_of : forall C x fid l (k : leaf -> M C) Q,
  (forall f0, nthN (s_leaves x) fid = Some f0 -> hkS x l (k f0) Q) -> hkS x l (bind (leaf_of fid) k) Q.
Proof.
  intros C x fid l k Q H. destruct (nthN (s_leaves x) fid) as [f0|] eqn:E.
  - apply (hkS_ext _ x l (k f0)); [|apply H; reflexivity].
    unfold bind, leaf_of, state, get, lift. cbn. rewrite E. reflexivity.
  - apply (hkS_ext _ x l none); [|apply (hk_w0 _ l _ _ (hk_none C Q) x)].
    unfold bind, leaf_of, state, get, lift, none. cbn. rewrite E. reflexivity.
Qed.
Lemma let_tail_ext : forall B lf rid nm fid (rest : M B) s,
  bind (add_leaf lf) (fun nid => seq (record_mut rid (rec_add_field nm nid)) (seq (add_reference (SyLeaf fid) (lf_loc lf)) rest)) s
  = bind (bind (add_field_leaf lf rid nm) (fun _ => add_reference (SyLeaf fid) (lf_loc lf))) (fun _ => rest) s.
Proof. intros. reflexivity. Qed.

Lemma k_index_item : forall n it, hk (item_parts it) (index_item n it) any.
Proof.
  intros n it. destruct it as [t i v|i v|i v|c m|v]; cbn [index_item item_parts].
  - (* field definition *)
    hstate. destruct (current_record_id _) as [rid|]; [|apply hk_w0; apply hk_bad].
    hhere. eapply hk_bind; [apply k_index_ty|]. intros typ _.
    eapply hk_ext; [intros s; symmetry; apply add_field_leaf_ext|].
    apply (hk_bind _ _ [PI i] (opt_parts value_parts v)) with (Q1 := any); [apply hk_add_field_leaf; reflexivity|]. intros fid _.
    destruct v as [v'|]; cbn [opt_parts]; [apply hk_bind_lift_some|apply hk_bind_lift_none].
    eapply hk_bindr; [apply k_index_value|]. intros vt _. hstate.
    destruct (can_cast _ vt typ); [apply hk_none|apply hk_err].
  - (* let: the field override *)
    hhere. apply hk_bind_state. intros x.
    destruct (current_record_id x) as [rid|]; [|apply (hk_w0 _ _ _ _ (hk_bad unit any) x)].
    destruct (Scope.find_field (rec_fuel x) (s_recs x) rid (i_name i)) as [fid|] eqn:Eff;
      [|apply (hk_bind_lift_none _ _ _ _ _ x)].
    apply hkS_bind_lift_some. apply hkS_bind_leaf_of. intros f0 Ef0.
    eapply hkS_ext; [symmetry; apply let_tail_ext|].
    apply (hkS_bind _ _ x [PI i] (value_parts v)) with (Q1 := any).
    + eapply hkS_let_core; [reflexivity|exact Ef0|exact Eff].
    + intros _ _. eapply hk_bindr; [apply k_index_value|]. intros vt _. hstate.
      destruct (can_cast _ vt (lf_ty f0)); [apply hk_none|apply hk_err].
  - apply k_index_defvar.
  - apply hk_swap2. eapply hk_seq; [apply k_index_value|].
    eapply hk_seqr; [apply k_index_value|apply hk_none].
  - eapply hk_seqr; [apply k_index_value|apply hk_none].
Qed.

Lemma k_record_body : forall n ps b,
  hk (flat_map classref_parts ps ++ flat_map item_parts b) (index_record_body n ps b) any.
Proof.
  intros n ps b. unfold index_record_body. eapply hk_seq; [apply k_index_parents|].
  apply hk_iterM. intros it _. apply k_index_item.
Qed.
Lemma k_targs : forall n (o : option (list targ)),
  hk (opt_parts (flat_map targ_parts) o) (match o with Some l => iterM (index_targ n) l | None => ret tt end) any.
Proof. intros n [l|]; cbn [opt_parts]; [|hret]. apply hk_iterM. intros a _. apply k_index_targ. Qed.

End File.

(** ---- `include`: the included file has not been indexed, so none of its keys has been consumed *)
Lemma pop_file_eq : forall s2 g l, s_trace s2 = g :: l -> pop_file s2 = (Some tt, set_files l (s_indexed s2) s2).
Proof. intros s2 g l H. unfold pop_file. rewrite H. reflexivity. Qed.

Lemma hkS_include : forall f g x (o : option (list stmt)) (m : list stmt -> M unit),
  ~ In g (s_indexed x) ->
  (forall body, o = Some body -> hk g (flat_map stmt_parts body) (m body) any /\ NoDup (keys g (flat_map stmt_parts body))) ->
  hkS f x [] (seq (upd (fun s => set_files (s_trace s) (g :: s_indexed s) s))
                  (bind (lift o) (fun body => seq (push_file g) (seq (m body) pop_file)))) any.
Proof.
  intros f g x o m Hg Hm A HI Hf Hin _ _.
  set (s0 := set_files (s_trace x) (g :: s_indexed x) x).
  destruct o as [body|].
  - destruct (Hm body eq_refl) as [Hb Hnd].
    set (s1 := set_files (g :: s_trace s0) (s_indexed s0) s0).
    change (seq (upd (fun s => set_files (s_trace s) (g :: s_indexed s) s))
                (bind (lift (Some body)) (fun body => seq (push_file g) (seq (m body) pop_file))) x)
      with (pop_file (snd (m body s1))).
    assert (HI1 : Iv A s1).
    { eapply Iv_same; [exact HI| | | | |]; try reflexivity. intros y Hy. right. exact Hy. }
    destruct (Hb s1 A HI1 eq_refl (or_introl eq_refl) Hnd) as (A2 & I2 & S2 & T2 & X2 & K2 & _).
    { intros r Hr HA. apply Hg. rewrite <- (keys_file _ _ _ Hr).
      pose proof (iv_files _ _ HI) as HF. rewrite Forall_forall in HF. apply HF. exact HA. }
    rewrite (pop_file_eq _ g (s_trace x)); [|rewrite T2; reflexivity]. cbn [fst snd].
    exists A2. split.
    + eapply Iv_same; [exact I2| | | | |apply incl_refl]; reflexivity.
    + split; [eapply Stable_trans; [apply (Stable_same x s1); reflexivity|]; eapply Stable_trans; [exact S2|apply Stable_same; reflexivity]|].
      split; [reflexivity|]. split; [intros y Hy; apply X2; right; exact Hy|]. split; [|intros a _; exact I].
      intros r Hr. right. destruct (K2 r Hr) as [Hk|[HA|Hnf]].
      * right. rewrite (keys_file _ _ _ Hk). exact Hg.
      * left. exact HA.
      * right. intros Hx. apply Hnf. right. exact Hx.
  - change (seq (upd (fun s => set_files (s_trace s) (g :: s_indexed s) s))
                (bind (lift None) (fun body => seq (push_file g) (seq (m body) pop_file))) x)
      with (@None unit, s0). cbn [fst snd].
    apply post_same; try reflexivity; try assumption; [intros y Hy; right; exact Hy|intros a E; discriminate].
Qed.

(** ---- statements *)
Section Stmts.
Variable files : list (list stmt).
Hypothesis files_nodup : forall g body, nthN files g = Some body -> NoDup (keys g (flat_map stmt_parts body)).

Ltac hret2 := apply hk_ret; exact I.

Lemma k_index_stmt : forall n f x, hk f (stmt_parts x) (index_stmt files n x) any.
Proof.
  induction n as [|n IH]; intros f x; [apply hk_w0; apply hk_bad|].
  assert (Hl : forall g l, hk g (flat_map stmt_parts l) (iterM (index_stmt files n) l) any)
    by (intros g l; apply hk_iterM; intros y _; apply IH).
  destruct x; cbn [index_stmt stmt_parts].
  - (* include *)
    apply hk_w0. destruct target as [g|]; [|apply hk_seq0 with (Q1 := any); [apply hk_err|apply hk_none]].
    apply hk_bind_state. intros x0.
    destruct (existsb (N.eqb g) (s_indexed x0)) eqn:Eidx; [apply (hk_none _ unit any x0)|].
    apply hkS_include.
    + intros Hin. assert (existsb (N.eqb g) (s_indexed x0) = true) by (apply existsb_exists; exists g; split; [exact Hin|apply N.eqb_refl]). congruence.
    + intros body E. split; [apply Hl|apply files_nodup; exact E].
  - apply hk_swap2. eapply hk_seq; [apply k_index_value|]. eapply hk_seqr; [apply k_index_value|apply hk_none].
  - (* class *)
    apply hk_bind_here.
    apply (hk_bind _ _ _ [PI i] (opt_parts (flat_map targ_parts) targs ++ flat_map classref_parts parents ++ flat_map item_parts body))
      with (Q1 := any); [apply hk_add_record|]. intros rid _.
    apply hk_scoped. eapply hk_seq; [apply k_targs|apply k_record_body].
  - (* def *)
    eapply hk_bind with (Q1 := any).
    + destruct nm as [v|]; cbn [opt_parts].
      * apply k_named. intros i0. apply hk_add_record.
      * apply hk_seq0 with (Q1 := any); [apply hk_next_anonymous|]. apply hk_bind_here. apply hk_add_anonymous_def.
    + intros did _. apply hk_wcons. apply hk_scoped. apply k_record_body.
  - (* defm *)
    eapply hk_bind with (Q1 := any).
    + destruct nm as [v|]; cbn [opt_parts].
      * apply k_named. intros i0. apply hk_add_leaf. reflexivity.
      * apply hk_seq0 with (Q1 := any); [apply hk_next_anonymous|]. apply hk_bind_here. apply hk_add_leaf_nopos.
    + intros did _. apply hk_wcons. apply hk_scoped. apply k_index_parents.
  - (* defset *)
    apply hk_bind_here. eapply hk_bind; [apply k_index_ty|]. intros typ _.
    apply (hk_bind _ _ _ [PI i] (flat_map stmt_parts body)) with (Q1 := any); [apply hk_add_defset; reflexivity|]. intros did _.
    apply hk_scoped. apply Hl.
  - apply k_index_defvar.
  - eapply hk_seqr; [apply k_index_value|apply hk_none].
  - (* foreach *)
    apply hk_bind_here.
    apply (hk_swap _ _ [PI i] (match init with FeRange => [] | FeValue v => value_parts v end) (flat_map stmt_parts body)).
    eapply hk_bind with (Q1 := any).
    + eapply hk_any. apply hk_try with (Q := any). destruct init as [|v]; [hret2|].
      eapply hk_bindr; [apply k_index_value|]. intros t _. apply hk_lift_any.
    + intros o _. apply (hk_bind _ _ _ [PI i] (flat_map stmt_parts body)) with (Q1 := any); [apply hk_add_leaf; reflexivity|].
      intros vid _. apply hk_scoped. apply Hl.
  - (* if *)
    eapply hk_seq; [apply k_index_value|].
    pose proof (hk_iterM f (list stmt) unit (flat_map stmt_parts) (fun body => scoped KBlock (iterM (index_stmt files n) body))
                  (th :: match el with Some e => [e] | None => [] end)) as H.
    destruct el as [e|]; cbn [flat_map opt_parts] in *; rewrite ?app_nil_r in *; apply H; intros b _; apply hk_scoped; apply Hl.
  - (* let *)
    eapply hk_seq; [apply k_values|]. apply hk_scoped. apply Hl.
  - (* multiclass *)
    apply hk_bind_here.
    apply (hk_bind _ _ _ [PI i] (opt_parts (flat_map targ_parts) targs ++ flat_map classref_parts parents ++ flat_map stmt_parts body))
      with (Q1 := any); [apply hk_add_multiclass|]. intros mid _.
    apply hk_scoped. eapply hk_seq; [apply k_targs|]. eapply hk_seq; [apply k_index_parents|apply Hl].
Qed.
End Stmts.

(** ---- the workspace theorem: the position log of EVERY Core workspace whose identifier ranges are pairwise distinct
    within each file satisfies the single-visit condition *)
Theorem index_ws_log_fresh : forall w,
  (forall g body, nthN (ws_files w) g = Some body -> NoDup (keys g (flat_map stmt_parts body))) ->
  log_fresh (index_ws w) = true.
Proof.
  intros w H. unfold log_fresh, index_ws. destruct (ws_files w) as [|root rest] eqn:E; [reflexivity|].
  assert (Hh : hk 0 (flat_map stmt_parts root) (iterM (index_stmt (root :: rest) (ws_fuel w)) root) any).
  { apply hk_iterM. intros y _. apply k_index_stmt. exact H. }
  assert (HI0 : Iv [] st0).
  { split; cbn; try constructor. }
  destruct (Hh st0 [] HI0 eq_refl (or_introl eq_refl) (H 0 root eq_refl)) as (A' & HI & _).
  { intros r _ []. }
  apply LogOK_okb. apply (iv_log _ _ HI).
Qed.
Print Assumptions index_ws_log_fresh.

(** the keys of a file are the (tagged) ranges of its identifiers *)
Lemma keys_idents : forall g l,
  keys g l = map (fun i => tagr g (i_rng i)) (flat_map (fun p => match p with PI i => [i] | PR _ => [] end) l).
Proof.
  intros g. induction l as [|p l IH]; [reflexivity|]. cbn [keys flat_map]. fold (keys g l). rewrite map_app, IH.
  destruct p; reflexivity.
Qed.
Lemma keys_file_idents : forall g body, keys g (flat_map stmt_parts body) = map (fun i => tagr g (i_rng i)) (file_idents body).
Proof. intros. apply keys_idents. Qed.

Theorem index_ws_log_fresh_idents : forall w : workspace,
  (forall g body, nthN (ws_files w) g = Some body ->
     NoDup (map (fun i => mkR g (r_lo (i_rng i)) (r_hi (i_rng i))) (file_idents body))) ->
  log_fresh (index_ws w) = true.
Proof.
  intros w H. apply index_ws_log_fresh. intros g body Hn. rewrite keys_file_idents. exact (H g body Hn).
Qed.
