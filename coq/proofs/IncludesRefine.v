(** C16/C07/C12: [Includes.collect] (the model of collect_sources, with FileIds, the FileSet of the
    Vfs and the three salsa inputs) computes the path-level walk [IncludesGraph.pcollect] over the
    effective file system [read w fs] (open documents first, then the disk).

    Invariants (all preserved by every iteration of the loop, for every world and every state):
    - [wf_fs]: the id table of the file system is a bijection between known paths and ids < next;
    - [truthful]: every text the database holds is the text [read] returns for the path of that id
      (this is C12 for one walk: an open document is never replaced by its on-disk text);
    - the queue / the file set under construction are the images of the path-level queue / visited
      list, with [file_content] = content of the entry and [resolved_include_map] = links of the
      entry (targets translated to paths).
    [collect_refines] is the simulation; [set_root_file_view] packages it as: after
    [set_root_file], the [view] of the state (root path, and for every file of the source root in
    walk order: path, file_content, resolved_include_map with targets as paths) is [pcollect]'s
    result. *)
From Coq Require Import List NArith Bool Lia Arith.
From TG.Model Require Import Includes.
From TG.Proofs Require Import IncludesGraph.
Import ListNotations.
Local Open Scope nat_scope.

Section Refine.
Context {path istr : Type} {PA : PathAlg path istr} {PAok : PathAlgOk path istr}.
Notation content := (content istr).
Notation world := (world path istr).
Notation fsys := (@fsys path istr).
Notation inputs := (@inputs path istr).
Notation entry := (@entry path istr).

(** ** the id table *)
Record wf_fs (fs : fsys) : Prop := {
  wf_fp : forall p f, file_for_path fs p = Some f -> path_for_file fs f = Some p;
  wf_pf : forall p f, path_for_file fs f = Some p -> file_for_path fs p = Some f;
  wf_lt : forall p f, path_for_file fs f = Some p -> (f < next fs)%N
}.

Definition ext (fs fs' : fsys) : Prop :=
  opened fs' = opened fs /\
  forall f p, path_for_file fs f = Some p -> path_for_file fs' f = Some p.

Lemma ext_refl : forall fs, ext fs fs.
Proof. intro fs. split; auto. Qed.

Lemma ext_trans : forall a b c, ext a b -> ext b c -> ext a c.
Proof. intros a b c [A1 A2] [B1 B2]. split; [congruence | auto]. Qed.

Lemma wf_init : wf_fs fs_init.
Proof. constructor; cbn; intros; discriminate. Qed.

Lemma pof_inj : forall fs f g p, wf_fs fs ->
  path_for_file fs f = Some p -> path_for_file fs g = Some p -> f = g.
Proof.
  intros fs f g p W Hf Hg. apply (wf_pf fs W) in Hf. apply (wf_pf fs W) in Hg. congruence.
Qed.

Lemma assign_spec : forall fs p f fs',
  wf_fs fs -> assign fs p = (f, fs') ->
  wf_fs fs' /\ ext fs fs' /\ path_for_file fs' f = Some p.
Proof.
  intros fs p f fs' W H. unfold assign in H.
  destruct (file_for_path fs p) as [f0|] eqn:E.
  - injection H as <- <-. split; [exact W|]. split; [apply ext_refl|]. apply (wf_fp fs W). exact E.
  - injection H as <- <-.
    assert (Hnew : forall g q, path_for_file fs g = Some q -> (next fs =? g)%N = false).
    { intros g q Hg. apply N.eqb_neq. pose proof (wf_lt fs W q g Hg). lia. }
    split; [|split].
    + constructor; unfold file_for_path, path_for_file; cbn [ids next assoc rassoc].
      * intros q g Hq. destruct (path_eqb p q) eqn:Epq.
        -- inversion Hq; subst. rewrite N.eqb_refl. apply path_eqb_ok in Epq. congruence.
        -- pose proof (wf_fp fs W q g Hq) as Hg. rewrite (Hnew g q Hg). exact Hg.
      * intros q g Hg. destruct (next fs =? g)%N eqn:En.
        -- inversion Hg; subst. rewrite path_eqb_refl. apply N.eqb_eq in En. congruence.
        -- pose proof (wf_pf fs W q g Hg) as Hq. destruct (path_eqb p q) eqn:Epq.
           ++ apply path_eqb_ok in Epq. subst q. unfold file_for_path in *. congruence.
           ++ exact Hq.
      * intros q g Hg. destruct (next fs =? g)%N eqn:En.
        -- apply N.eqb_eq in En. lia.
        -- pose proof (wf_lt fs W q g Hg). lia.
    + split; [reflexivity|]. intros g q Hg. unfold path_for_file. cbn [ids rassoc].
      rewrite (Hnew g q Hg). exact Hg.
    + unfold path_for_file. cbn [ids rassoc]. rewrite N.eqb_refl. reflexivity.
Qed.

(** ** the effective file system *)
Variable w : world.
Variable op : list (path * content).        (* Vfs::open_documents: constant during one walk *)

Definition rd (p : path) : option content :=
  match assoc p op with Some c => Some c | None => disk w p end.

Lemma read_rd : forall fs p, opened fs = op -> read w fs p = rd p.
Proof. intros fs p H. unfold read, rd. rewrite H. reflexivity. Qed.

(** every text held by the database is the true text of a known file *)
Definition truthful (fs : fsys) (db : inputs) : Prop :=
  forall f c, fc db f = Some c -> exists q, path_for_file fs f = Some q /\ rd q = Some c.

Lemma truthful_ext : forall fs fs' db, truthful fs db -> ext fs fs' -> truthful fs' db.
Proof.
  intros fs fs' db T [_ E] f c H. destruct (T f c H) as [q [A B]]. exists q. split; auto.
Qed.

Definition fc_mono (db db' : inputs) : Prop := forall f, fc db f <> None -> fc db' f <> None.

(** ** resolve_include_file *)
Lemma resolve_spec : forall s dirs fs db fs' db' o,
  wf_fs fs -> opened fs = op -> truthful fs db ->
  resolve w fs db s dirs = (fs', db', o) ->
  wf_fs fs' /\ ext fs fs' /\ truthful fs' db' /\ fc_mono db db' /\
  rim db' = rim db /\ sroot db' = sroot db /\
  match o with
  | Some f => exists q, presolve rd s dirs = Some q /\ path_for_file fs' f = Some q /\ fc db' f <> None
  | None => presolve rd s dirs = None
  end.
Proof.
  induction dirs as [|d r IH]; intros fs db fs' db' o W Hop T H; cbn [resolve presolve] in *.
  - injection H as <- <- <-. split; [exact W|]. split; [apply ext_refl|]. split; [exact T|].
    split; [intros f Hf; exact Hf|]. split; [reflexivity|]. split; reflexivity.
  - rewrite (read_rd fs _ Hop) in H.
    assert (W1 : wf_fs (log_read fs (join d s))) by (destruct W; constructor; assumption).
    assert (E1 : ext fs (log_read fs (join d s))) by (split; auto).
    destruct (rd (join d s)) as [c|] eqn:Ec.
    + destruct (assign (log_read fs (join d s)) (join d s)) as [f fs2] eqn:Ea.
      inversion H; subst. clear H.
      destruct (assign_spec _ _ _ _ W1 Ea) as [W2 [E2 Hf]].
      split; [exact W2|]. split; [exact (ext_trans _ _ _ E1 E2)|].
      split; [|split; [|split; [reflexivity|split; [reflexivity|]]]].
      * intros g c' Hg. cbn [set_fc fc] in Hg. destruct (g =? f)%N eqn:Eg.
        -- apply N.eqb_eq in Eg. subst g. inversion Hg; subst. exists (join d s). split; assumption.
        -- destruct (T g c' Hg) as [q [A B]]. exists q. split; [|exact B].
           apply (proj2 E2). apply (proj2 E1). exact A.
      * intros g Hg. cbn [set_fc fc]. destruct (g =? f)%N; [discriminate|exact Hg].
      * exists (join d s). split; [reflexivity|]. split; [exact Hf|].
        cbn [set_fc fc]. rewrite N.eqb_refl. discriminate.
    + assert (T1 : truthful (log_read fs (join d s)) db) by (eapply truthful_ext; eauto).
      destruct (IH _ _ _ _ _ W1 Hop T1 H) as [A [B C]].
      split; [exact A|]. split; [exact (ext_trans _ _ _ E1 B)|exact C].
Qed.

Definition lrel (fs : fsys) (a : rng * N) (b : rng * path) : Prop :=
  fst a = fst b /\ path_for_file fs (snd a) = Some (snd b).

Lemma lrel_ext : forall fs fs' l pl, ext fs fs' -> Forall2 (lrel fs) l pl -> Forall2 (lrel fs') l pl.
Proof.
  intros fs fs' l pl [_ E] H. induction H as [|a b l pl [A B] _ IH]; constructor; auto.
  split; auto.
Qed.

(** ** the include loop of one file *)
Lemma resolve_all_spec : forall dirs incs fs db fs' db' l,
  wf_fs fs -> opened fs = op -> truthful fs db ->
  resolve_all w fs db dirs incs = (fs', db', l) ->
  wf_fs fs' /\ ext fs fs' /\ truthful fs' db' /\ fc_mono db db' /\
  rim db' = rim db /\ sroot db' = sroot db /\
  Forall2 (lrel fs') l (presolve_all rd dirs incs) /\
  Forall (fun a => fc db' (snd a) <> None) l.
Proof.
  induction incs as [|[sid s] r IH]; intros fs db fs' db' l W Hop T H; cbn [resolve_all presolve_all] in *.
  - injection H as <- <- <-. split; [exact W|]. split; [apply ext_refl|]. split; [exact T|].
    split; [intros f Hf; exact Hf|]. split; [reflexivity|]. split; [reflexivity|].
    split; constructor.
  - destruct (resolve w fs db s dirs) as [[fs1 db1] o] eqn:E1.
    destruct (resolve_all w fs1 db1 dirs r) as [[fs2 db2] l2] eqn:E2.
    inversion H; subst. clear H.
    destruct (resolve_spec _ _ _ _ _ _ _ W Hop T E1) as [W1 [X1 [T1 [M1 [R1 [S1 O1]]]]]].
    assert (Hop1 : opened fs1 = op) by (rewrite (proj1 X1); exact Hop).
    destruct (IH _ _ _ _ _ W1 Hop1 T1 E2) as [W2 [X2 [T2 [M2 [R2 [S2 [L2 F2]]]]]]].
    split; [exact W2|]. split; [exact (ext_trans _ _ _ X1 X2)|]. split; [exact T2|].
    split; [intros f Hf; apply M2; apply M1; exact Hf|].
    split; [congruence|]. split; [congruence|].
    destruct o as [f|].
    + destruct O1 as [q [Hq [Hf Hc]]]. rewrite Hq. split.
      * constructor; [|exact L2]. split; [reflexivity|]. apply (proj2 X2). exact Hf.
      * constructor; [|exact F2]. apply M2. exact Hc.
    + rewrite O1. split; assumption.
Qed.

(** ** the walk *)
Definition qrel (fs : fsys) (db : inputs) (f : N) (q : path) : Prop :=
  path_for_file fs f = Some q /\ fc db f <> None.

Definition erel (fs : fsys) (db : inputs) (x : N * path) (e : entry) : Prop :=
  snd x = e_path e /\
  path_for_file fs (fst x) = Some (snd x) /\
  fc db (fst x) = Some (e_content e) /\
  exists lid, rim db (fst x) = Some lid /\ Forall2 (lrel fs) lid (e_links e).

Record cinv (fs : fsys) (db : inputs) (queue : list N) (fset : list (N * path))
       (pq : list path) (vis : list entry) : Prop := {
  ci_wf : wf_fs fs;
  ci_op : opened fs = op;
  ci_truth : truthful fs db;
  ci_queue : Forall2 (qrel fs db) queue pq;
  ci_fset : Forall2 (erel fs db) fset vis
}.

Lemma mem_agree : forall fs db fset vis f p,
  wf_fs fs -> Forall2 (erel fs db) fset vis -> path_for_file fs f = Some p ->
  fset_mem f fset = pmem p vis.
Proof.
  intros fs db fset vis f p W H Hf. unfold fset_mem, pmem.
  induction H as [|x e fset vis [A [B _]] _ IH]; [reflexivity|].
  cbn [existsb]. rewrite IH. f_equal. rewrite <- A.
  destruct (fst x =? f)%N eqn:E.
  - apply N.eqb_eq in E. rewrite E in B. symmetry. apply path_eqb_ok. congruence.
  - symmetry. apply path_eqb_false. intro Hx. rewrite Hx in B.
    apply N.eqb_neq in E. apply E. eapply pof_inj; eauto.
Qed.

Lemma fset_mem_false : forall f (fset : list (N * path)) x, fset_mem f fset = false -> In x fset -> fst x <> f.
Proof.
  intros f fset x H Hin E. unfold fset_mem in H.
  assert (existsb (fun y => (fst y =? f)%N) fset = true); [|congruence].
  apply existsb_exists. exists x. split; [exact Hin | apply N.eqb_eq; exact E].
Qed.

Lemma Forall2_in_l : forall (A B : Type) (R : A -> B -> Prop) l l',
  Forall2 R l l' -> forall a, In a l -> exists b, In b l' /\ R a b.
Proof.
  intros A B R l l' H. induction H as [|a b l l' Hab _ IH]; intros x Hx; [contradiction|].
  destruct Hx as [<-|Hx].
  - exists b. split; [left; reflexivity|exact Hab].
  - destruct (IH x Hx) as [y [Hy Hr]]. exists y. split; [right; exact Hy|exact Hr].
Qed.

Lemma Forall2_weaken_in : forall (A B : Type) (R R' : A -> B -> Prop) l l',
  Forall2 R l l' -> (forall a b, In a l -> R a b -> R' a b) -> Forall2 R' l l'.
Proof.
  intros A B R R' l l' H. induction H as [|a b l l' Hab _ IH]; intro K; constructor.
  - apply K; [left; reflexivity|exact Hab].
  - apply IH. intros x y Hx. apply K. right. exact Hx.
Qed.

Definition same_outcome (r : outcome (fsys * inputs * list (N * path))) (pr : outcome (list entry))
           (P : fsys -> inputs -> list (N * path) -> list entry -> Prop) : Prop :=
  match r with
  | Done (fs', db', fset') => exists V, pr = Done V /\ P fs' db' fset' V
  | OutOfFuel => pr = OutOfFuel
  | Panic e => pr = Panic e
  end.

Theorem collect_refines : forall fuel fs db queue fset pq vis,
  cinv fs db queue fset pq vis ->
  same_outcome (collect fuel w fs db queue fset) (pcollect rd (extra w) fuel pq vis)
    (fun fs' db' fset' V =>
       cinv fs' db' [] fset' [] V /\ ext fs fs' /\ sroot db' = sroot db /\ fc_mono db db').
Proof.
  induction fuel as [|n IH]; intros fs db queue fset pq vis I.
  - destruct I as [W Hop T Q F]. inversion Q; subst; cbn [collect pcollect same_outcome].
    + exists vis. split; [reflexivity|]. split; [constructor; auto|].
      split; [apply ext_refl|]. split; [reflexivity|]. intros f Hf; exact Hf.
    + reflexivity.
  - destruct I as [W Hop T Q F]. inversion Q as [|f p q pq' [Hfp Hfc] Q']; subst.
    + cbn [collect pcollect same_outcome].
      exists vis. split; [reflexivity|]. split; [constructor; auto|].
      split; [apply ext_refl|]. split; [reflexivity|]. intros f Hf; exact Hf.
    + cbn [collect pcollect]. rewrite (mem_agree fs db fset vis f p W F Hfp).
      destruct (pmem p vis) eqn:Hm.
      * apply IH. constructor; auto.
      * rewrite <- (mem_agree fs db fset vis f p W F Hfp) in Hm.
        destruct (fc db f) as [c|] eqn:Ec; [|congruence].
        destruct (T f c Ec) as [p0 [Hp0 Hrd]].
        assert (p0 = p) by congruence. subst p0.
        rewrite Hfp, Hrd.
        destruct (parent p) as [d|] eqn:Ed; [|reflexivity].
        destruct (resolve_all w fs db (d :: extra w) (list_includes (c_items c))) as [[fs1 db1] l] eqn:Er.
        destruct (resolve_all_spec _ _ _ _ _ _ _ W Hop T Er) as [W1 [X1 [T1 [M1 [R1 [S1 [L1 F1]]]]]]].
        set (pl := presolve_all rd (d :: extra w) (list_includes (c_items c))) in *.
        assert (Hop1 : opened fs1 = op) by (rewrite (proj1 X1); exact Hop).
        (* contents of known files are stable *)
        assert (Stable : forall g t cg, path_for_file fs g = Some t -> fc db g = Some cg -> fc db1 g = Some cg).
        { intros g t cg Hg Hcg.
          destruct (fc db1 g) as [c1|] eqn:E1; [|exfalso; apply (M1 g); congruence].
          destruct (T g cg Hcg) as [t0 [A0 B0]]. destruct (T1 g c1 E1) as [t1 [A1 B1]].
          apply (proj2 X1) in A0. congruence. }
        assert (I1 : cinv fs1 (set_rim db1 f l) (q ++ map snd l) ((f, p) :: fset)
                          (pq' ++ map snd pl) ((p, c, pl) :: vis)).
        { constructor.
          - exact W1.
          - exact Hop1.
          - intros g cg Hg. cbn [set_rim fc] in Hg. apply T1. exact Hg.
          - apply Forall2_app.
            + eapply Forall2_weaken_in; [exact Q'|]. intros g t _ [A B]. split.
              * apply (proj2 X1). exact A.
              * cbn [set_rim fc]. apply M1. exact B.
            + clear - L1 F1. induction L1 as [|a b l pl [A B] _ IHl]; cbn [map]; constructor.
              * split; [exact B|]. cbn [set_rim fc]. inversion F1; assumption.
              * apply IHl. inversion F1; assumption.
          - constructor.
            + split; [reflexivity|]. cbn [fst snd e_path e_content e_links].
              split; [apply (proj2 X1); exact Hfp|].
              split; [cbn [set_rim fc]; eapply Stable; eauto|].
              exists l. split; [cbn [set_rim rim]; rewrite N.eqb_refl; reflexivity|exact L1].
            + eapply Forall2_weaken_in; [exact F|]. intros x e Hx [A [B [C [lid [D E]]]]].
              split; [exact A|]. split; [apply (proj2 X1); exact B|].
              split; [cbn [set_rim fc]; eapply Stable; eauto|].
              exists lid. split.
              * cbn [set_rim rim]. pose proof (fset_mem_false f fset x Hm Hx) as Hne.
                apply N.eqb_neq in Hne. rewrite Hne. rewrite R1. exact D.
              * eapply lrel_ext; eauto. }
        specialize (IH _ _ _ _ _ _ I1).
        destruct (collect n w fs1 (set_rim db1 f l) (q ++ map snd l) ((f, p) :: fset))
          as [[[fs2 db2] fset2]| |e]; cbn [same_outcome] in *; [|exact IH|exact IH].
        destruct IH as [V [HV [I2 [X2 [S2 M2]]]]]. exists V. split; [exact HV|].
        split; [exact I2|]. split; [exact (ext_trans _ _ _ X1 X2)|].
        split; [rewrite S2; cbn [set_rim sroot]; exact S1|].
        intros g Hg. apply M2. cbn [set_rim fc]. apply M1. exact Hg.
Qed.

End Refine.
