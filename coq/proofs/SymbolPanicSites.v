(** C03: disposition of every inventoried panic site of the `ide` crate (GenPanicSites.v, regenerated from the
    sources on every run).  A site is identified by (file, enclosing fn, kind of construct, callee / macro name, ordinal
    among the sites with the same first four components) - not by its source text, so renaming locals, comments, messages
    and formatting do not change it (see tools/translate/t_panicsites.py).  A site that is not listed here (new `unwrap` / `expect` / `panic!` / index expression /
    asserting library call, or an old one that moved to another function) makes [all_sites_disposed] false, i.e.
    breaks the obligation C03_panic_sites_inventoried. *)
From Coq Require Import String List Bool Arith.
From TG.Gen Require Import GenPanicSites.
Import ListNotations.
Open Scope string_scope.

Inductive disposition :=
| Proved (how : string)        (* discharged by a theorem about the op-level model under a checked hypothesis *)
| Oracle (why : string)        (* only exercised: all queries at all offsets in a child process *)
| OutOfScope (why : string).   (* belongs to another property *)

Definition site := (string * string * string * string * nat)%type.
Definition site_eqb (a b : site) : bool :=
  let '(f1, g1, k1, c1, n1) := a in let '(f2, g2, k2, c2, n2) := b in
  String.eqb f1 f2 && String.eqb g1 g2 && String.eqb k1 k2 && String.eqb c1 c2 && Nat.eqb n1 n2.

Definition dispositions : list (site * disposition) := [
  (("file_system.rs", "path_for_file", "index", "self.id_to_path", 0%nat), OutOfScope "workspace collection: property C16 (path_for_file / collect_sources / INCLUDE_DIR)");
  (("file_system.rs", "collect_sources", "method", "expect", 0%nat), OutOfScope "workspace collection: property C16 (path_for_file / collect_sources / INCLUDE_DIR)");
  (("file_system.rs", "collect_sources", "method", "unwrap", 0%nat), OutOfScope "workspace collection: property C16 (path_for_file / collect_sources / INCLUDE_DIR)");
  (("index.rs", "index", "method", "expect", 0%nat), Oracle "indexer / handler code outside the op-level model: all queries at all offsets on generated programs, prefixes, token edits, stress patterns");
  (("index.rs", "index", "macro", "panic", 0%nat), Oracle "indexer / handler code outside the op-level model: all queries at all offsets on generated programs, prefixes, token edits, stress patterns");
  (("index.rs", "index", "macro", "panic", 1%nat), Oracle "indexer / handler code outside the op-level model: all queries at all offsets on generated programs, prefixes, token edits, stress patterns");
  (("index.rs", "check_template_args", "method", "unwrap", 0%nat), Oracle "indexer / handler code outside the op-level model: all queries at all offsets on generated programs, prefixes, token edits, stress patterns");
  (("index.rs", "index", "method", "expect", 1%nat), Oracle "indexer / handler code outside the op-level model: all queries at all offsets on generated programs, prefixes, token edits, stress patterns");
  (("index.rs", "index", "method", "expect", 2%nat), Oracle "indexer / handler code outside the op-level model: all queries at all offsets on generated programs, prefixes, token edits, stress patterns");
  (("line_index.rs", "new", "method", "expect", 0%nat), OutOfScope "position mapping: property C10");
  (("line_index.rs", "utf16_col", "index", "self.text", 0%nat), OutOfScope "position mapping: property C10");
  (("line_index.rs", "offset_at", "index", "self.text", 0%nat), OutOfScope "position mapping: property C10");
  (("line_index.rs", "offset_at", "method", "expect", 0%nat), OutOfScope "position mapping: property C10");
  (("symbol_map.rs", "record", "method", "expect", 0%nat), Proved "C03_symbol_map_total_partial for the modelled readers (find_symbol_at, goto_definition, references, find_field, is_subclass_of: IdsInv); other callers (indexer, hover, completion, document_symbol, inlay_hint) by oracle");
  (("symbol_map.rs", "record_mut", "method", "expect", 0%nat), Proved "apply_op_ok: under op_ids_ok (ids allocated before use, checked on every real log) no op fails");
  (("symbol_map.rs", "template_arg", "method", "expect", 0%nat), Proved "C03_symbol_map_total_partial for the modelled readers (find_symbol_at, goto_definition, references, find_field, is_subclass_of: IdsInv); other callers (indexer, hover, completion, document_symbol, inlay_hint) by oracle");
  (("symbol_map.rs", "template_arg_mut", "method", "expect", 0%nat), Proved "apply_op_ok: under op_ids_ok (ids allocated before use, checked on every real log) no op fails");
  (("symbol_map.rs", "record_field", "method", "expect", 0%nat), Proved "C03_symbol_map_total_partial for the modelled readers (find_symbol_at, goto_definition, references, find_field, is_subclass_of: IdsInv); other callers (indexer, hover, completion, document_symbol, inlay_hint) by oracle");
  (("symbol_map.rs", "record_field_mut", "method", "expect", 0%nat), Proved "apply_op_ok: under op_ids_ok (ids allocated before use, checked on every real log) no op fails");
  (("symbol_map.rs", "variable", "method", "expect", 0%nat), Proved "C03_symbol_map_total_partial for the modelled readers (find_symbol_at, goto_definition, references, find_field, is_subclass_of: IdsInv); other callers (indexer, hover, completion, document_symbol, inlay_hint) by oracle");
  (("symbol_map.rs", "variable_mut", "method", "expect", 0%nat), Proved "apply_op_ok: under op_ids_ok (ids allocated before use, checked on every real log) no op fails");
  (("symbol_map.rs", "defset", "method", "expect", 0%nat), Proved "C03_symbol_map_total_partial for the modelled readers (find_symbol_at, goto_definition, references, find_field, is_subclass_of: IdsInv); other callers (indexer, hover, completion, document_symbol, inlay_hint) by oracle");
  (("symbol_map.rs", "defset_mut", "method", "expect", 0%nat), Proved "apply_op_ok: under op_ids_ok (ids allocated before use, checked on every real log) no op fails");
  (("symbol_map.rs", "multiclass", "method", "expect", 0%nat), Proved "C03_symbol_map_total_partial for the modelled readers (find_symbol_at, goto_definition, references, find_field, is_subclass_of: IdsInv); other callers (indexer, hover, completion, document_symbol, inlay_hint) by oracle");
  (("symbol_map.rs", "multiclass_mut", "method", "expect", 0%nat), Proved "apply_op_ok: under op_ids_ok (ids allocated before use, checked on every real log) no op fails");
  (("symbol_map.rs", "defm", "method", "expect", 0%nat), Proved "C03_symbol_map_total_partial for the modelled readers (find_symbol_at, goto_definition, references, find_field, is_subclass_of: IdsInv); other callers (indexer, hover, completion, document_symbol, inlay_hint) by oracle");
  (("symbol_map.rs", "defm_mut", "method", "expect", 0%nat), Proved "apply_op_ok: under op_ids_ok (ids allocated before use, checked on every real log) no op fails");
  (("symbol_map.rs", "iter_symbols_in_range", "libcall", "iset.iter(range)", 0%nat), Proved "iter_symbols_in_range_ok: the guard of fix 751cf5a excludes the empty query (C03_unguarded_range_query_panics shows it is needed)");
  (("symbol_map.rs", "iter_symbols_in_range", "libcall", "TextRange::new", 0%nat), Oracle "interval keys come out of iset with start < end (they were inserted non-empty): modelled, not verified");
  (("symbol_map.rs", "add_anonymous_def", "macro", "assert", 0%nat), Oracle "add_anonymous_def is only called from Def::index with RecordKind::Def (one call site)");
  (("symbol_map.rs", "add_to_pos_to_symbol_map", "libcall", "iset.insert(range)", 0%nat), Proved "add_to_pos_ok: the is_empty filter excludes the empty insert (ivl_insert_checked never fails)");
  (("utils.rs", "range_excluding_trivia", "libcall", "TextRange::new", 0%nat), Oracle "indexer / handler code outside the op-level model: all queries at all offsets on generated programs, prefixes, token edits, stress patterns");
  (("handlers/completion.rs", "exec", "libcall", "token_at_offset", 0%nat), Oracle "indexer / handler code outside the op-level model: all queries at all offsets on generated programs, prefixes, token edits, stress patterns");
  (("handlers/hover.rs", "extract_symbol_signature", "macro", "unreachable", 0%nat), Oracle "indexer / handler code outside the op-level model: all queries at all offsets on generated programs, prefixes, token edits, stress patterns");
  (("handlers/hover.rs", "extract_doc_comments", "libcall", "covering_element", 0%nat), Oracle "indexer / handler code outside the op-level model: all queries at all offsets on generated programs, prefixes, token edits, stress patterns");
  (("handlers/inlay_hint.rs", "inlay_hint_class", "libcall", "covering_element", 0%nat), Oracle "indexer / handler code outside the op-level model: all queries at all offsets on generated programs, prefixes, token edits, stress patterns");
  (("handlers/inlay_hint.rs", "inlay_hint_record_field", "libcall", "covering_element", 0%nat), Oracle "indexer / handler code outside the op-level model: all queries at all offsets on generated programs, prefixes, token edits, stress patterns");
  (("index/bang_operator.rs", "index", "macro", "unreachable", 0%nat), Oracle "indexer / handler code outside the op-level model: all queries at all offsets on generated programs, prefixes, token edits, stress patterns");
  (("index/bang_operator.rs", "expect_values", "macro", "unimplemented", 0%nat), Oracle "indexer / handler code outside the op-level model: all queries at all offsets on generated programs, prefixes, token edits, stress patterns");
  (("index/context.rs", "current_file_id", "method", "expect", 0%nat), Oracle "indexer / handler code outside the op-level model: all queries at all offsets on generated programs, prefixes, token edits, stress patterns");
  (("index/context.rs", "pop_file", "method", "expect", 0%nat), Oracle "indexer / handler code outside the op-level model: all queries at all offsets on generated programs, prefixes, token edits, stress patterns");
  (("index/scope.rs", "pop", "method", "expect", 0%nat), Oracle "indexer / handler code outside the op-level model: all queries at all offsets on generated programs, prefixes, token edits, stress patterns");
  (("index/scope.rs", "add_variable", "method", "expect", 0%nat), Oracle "indexer / handler code outside the op-level model: all queries at all offsets on generated programs, prefixes, token edits, stress patterns");
  (("index/scope.rs", "find_variable_in_current_scope", "method", "expect", 0%nat), Oracle "indexer / handler code outside the op-level model: all queries at all offsets on generated programs, prefixes, token edits, stress patterns")
].

Definition site_disposed (s : site) : bool := existsb (fun d => site_eqb s (fst d)) dispositions.
Definition all_sites_disposed : bool := forallb site_disposed panic_sites.
Definition undisposed_sites : list site := filter (fun s => negb (site_disposed s)) panic_sites.

Lemma panic_sites_disposed : all_sites_disposed = true.
Proof. vm_compute. reflexivity. Qed.

Definition is_proved (d : disposition) : bool := match d with Proved _ => true | _ => false end.
Definition n_proved : nat := length (filter (fun d => is_proved (snd d)) dispositions).
Definition n_sites : nat := length panic_sites.
