(** C17, tree-derived ranges: every node range, token range and trimmed node range
    (`utils::range_excluding_trivia`: folding ranges, document links) of ANY green tree lies inside the tree's
    text on UTF-8 character boundaries; with C01 (the parse tree of a text has that text) and C02 (syntax-error
    ranges) of the parser group this covers the ranges a handler copies from the parse of a workspace file.
    Imports (read-only) the results of the groups parser (ParserTile / GTile / ParserTop) and outline
    (TreeNavProofs / FoldingProofs). *)
From Coq Require Import List Arith NArith Bool Lia.
From TG.Gen Require Import GenTokens GenGrammar GenGrammarCert GenFoldKinds.
From TG.Model Require Import Chars Lexer Prep Tree TreeNav ParserPrims GInterp Folding SymbolMap SymbolWf.
From TG.Proofs Require Import LexBasics ParserTile GTile ParserTop TreeNavProofs FoldingProofs SymbolRanges.
Import ListNotations.
Open Scope N_scope.

(** [ParserTile.on_char_boundary] is what [is_boundary] decides *)
Lemma on_char_boundary_is : forall txt o, on_char_boundary txt o <-> is_boundary txt o = true.
Proof. intros txt o. unfold on_char_boundary. symmetry. apply is_boundary_spec. Qed.

Lemma range_valid_intro : forall ws f txt lo hi,
  fmap_get ws f = Some txt -> lo <= hi -> on_char_boundary txt lo -> on_char_boundary txt hi ->
  range_valid ws (mkFR f lo hi) = true.
Proof.
  intros ws f txt lo hi Hf Hle Hlo Hhi. unfold range_valid. cbn [fr_file fr_lo fr_hi]. rewrite Hf.
  apply on_char_boundary_is in Hlo. apply on_char_boundary_is in Hhi.
  rewrite Hlo, Hhi. rewrite (proj2 (N.leb_le lo hi) Hle). reflexivity.
Qed.

(** ---- node ranges *)
Lemma tree_len_bytes : forall t, tree_len t = bytes (tree_text t).
Proof. intros t. destruct (leaves_from_spec t 0) as (_ & _ & H). exact H. Qed.

Lemma forest_len_bytes : forall cs, forest_len cs = bytes (forest_text cs).
Proof.
  induction cs as [|c r IH]; [reflexivity|].
  rewrite forest_len_cons. unfold forest_text in *. cbn [map concat]. rewrite bytes_app, <- IH, tree_len_bytes. reflexivity.
Qed.

Lemma boundary_mid : forall a b c, on_char_boundary (a ++ b ++ c) (bytes a + bytes b).
Proof. intros a b c. rewrite <- bytes_app. rewrite app_assoc. apply boundary_prefix. Qed.

Lemma descendants_boundary_gen : forall t off pre post, off = bytes pre ->
  forall lo hi n, In (lo, hi, n) (descendants_from off t) ->
    on_char_boundary (pre ++ tree_text t ++ post) lo /\ on_char_boundary (pre ++ tree_text t ++ post) hi /\ lo <= hi.
Proof.
  induction t as [k txt|k cs IH] using tree_ind'; intros off pre post Hoff lo hi n Hin.
  - rewrite descendants_from_tok in Hin. destruct Hin.
  - rewrite descendants_from_node in Hin. rewrite tree_text_node. destruct Hin as [Heq|Hin].
    + injection Heq as <- <- <-. subst off. rewrite forest_len_bytes.
      split; [apply boundary_prefix|]. split; [apply boundary_mid|lia].
    + revert off pre Hoff Hin. induction IH as [|c r Hc Hr IHr]; intros off pre Hoff Hin; [destruct Hin|].
      cbn [descendants_forest] in Hin. unfold forest_text. cbn [map concat]. fold (forest_text r).
      apply in_app_or in Hin. destruct Hin as [Hin|Hin].
      * specialize (Hc off pre (forest_text r ++ post) Hoff lo hi n Hin).
        rewrite <- app_assoc. exact Hc.
      * specialize (IHr (off + tree_len c) (pre ++ tree_text c)).
        rewrite bytes_app, <- tree_len_bytes in IHr. specialize (IHr ltac:(lia) Hin).
        rewrite <- !app_assoc in IHr. rewrite <- app_assoc. exact IHr.
Qed.

Theorem descendants_boundary : forall t lo hi n, In (lo, hi, n) (descendants t) ->
  on_char_boundary (tree_text t) lo /\ on_char_boundary (tree_text t) hi /\ lo <= hi.
Proof.
  intros t lo hi n Hin. pose proof (descendants_boundary_gen t 0 [] [] eq_refl lo hi n Hin) as H.
  cbn [app] in H. rewrite app_nil_r in H. exact H.
Qed.

(** ---- token ranges *)
Theorem leaves_valid : forall t l, In l (leaves t) ->
  on_char_boundary (tree_text t) (lf_lo l) /\ on_char_boundary (tree_text t) (lf_hi l) /\ lf_lo l <= lf_hi l.
Proof.
  intros t l Hin. pose proof (leaves_boundary t) as HF. rewrite Forall_forall in HF. specialize (HF l Hin).
  destruct l as [[[k lo] hi] tx]. cbn in HF. cbn [lf_lo lf_hi]. destruct HF as [H1 H2]. split; [exact H1|]. split; [exact H2|].
  pose proof (leaves_bounds t 0 _ Hin) as HB. unfold leaf_in in HB. cbn [lf_lo lf_hi] in HB. lia.
Qed.

(** ---- trimmed node ranges: utils::range_excluding_trivia of any node of the tree *)
Theorem trimmed_range_boundary : forall t lo hi n, In (lo, hi, n) (descendants t) ->
  let r := range_excluding_trivia lo n in
  on_char_boundary (tree_text t) (fst r) /\ on_char_boundary (tree_text t) (snd r) /\ fst r <= snd r.
Proof.
  intros t lo hi n Hin. cbn zeta. destruct (descendants_boundary t lo hi n Hin) as (Hlo & Hhi & Hle).
  unfold range_excluding_trivia. cbn [fst snd]. split; [exact Hlo|].
  destruct (last_opt (filter sig_token (leaves_from lo n))) as [l|] eqn:E.
  - apply last_opt_In in E. apply filter_In in E. destruct E as [El _].
    destruct (descendants_facts t 0 lo hi n Hin) as (_ & _ & _ & Hsub).
    pose proof (Hsub l El) as Hl. destruct (leaves_valid t l Hl) as (_ & H2 & _). split; [exact H2|].
    pose proof (leaves_bounds n lo l El) as HB. unfold leaf_in in HB. lia.
  - split; [exact Hlo|lia].
Qed.

Lemma folding_model_in : forall t r, In r (folding_model t) ->
  exists lo hi n, In (lo, hi, n) (descendants t) /\ r = range_excluding_trivia lo n.
Proof.
  intros t r Hin. unfold folding_model in Hin. apply in_map_iff in Hin. destruct Hin as ([[lo hi] n] & Hr & Hin).
  apply filter_In in Hin. destruct Hin as [Hin _]. exists lo, hi, n. split; [exact Hin|]. symmetry. exact Hr.
Qed.

(** ---- the statements of props/C17.v (tree part) *)
Theorem c17_tree_ranges_valid : forall t ws f, fmap_get ws f = Some (tree_text t) ->
  (forall lo hi n, In (lo, hi, n) (descendants t) -> range_valid ws (mkFR f lo hi) = true) /\
  (forall l, In l (leaves t) -> range_valid ws (mkFR f (lf_lo l) (lf_hi l)) = true) /\
  (forall lo hi n, In (lo, hi, n) (descendants t) ->
     range_valid ws (mkFR f (fst (range_excluding_trivia lo n)) (snd (range_excluding_trivia lo n))) = true).
Proof.
  intros t ws f Hf. split; [|split].
  - intros lo hi n Hin. destruct (descendants_boundary t lo hi n Hin) as (H1 & H2 & H3).
    eapply range_valid_intro; eassumption.
  - intros l Hin. destruct (leaves_valid t l Hin) as (H1 & H2 & H3). eapply range_valid_intro; eassumption.
  - intros lo hi n Hin. destruct (trimmed_range_boundary t lo hi n Hin) as (H1 & H2 & H3).
    eapply range_valid_intro; eassumption.
Qed.

Theorem c17_folding_ranges_valid : forall t ws f, fmap_get ws f = Some (tree_text t) ->
  forall r, In r (folding_model t) -> range_valid ws (mkFR f (fst r) (snd r)) = true.
Proof.
  intros t ws f Hf r Hin. destruct (folding_model_in t r Hin) as (lo & hi & n & Hd & ->).
  destruct (c17_tree_ranges_valid t ws f Hf) as (_ & _ & H). eapply H. exact Hd.
Qed.

(** the parse of a workspace text: tree text = file text (C01), so all of the above holds for the file's text *)
Theorem c17_parse_ranges_valid : forall fuel txt t errs st ws f,
  fmap_get ws f = Some txt ->
  parse_with fuel grammar_prog grammar_entry txt = ParseOk t errs st ->
  (* syntax-error diagnostics (C02) *)
  (forall lo hi m, In (lo, hi, m) errs -> range_valid ws (mkFR f lo hi) = true) /\
  (* every node and token range *)
  (forall lo hi n, In (lo, hi, n) (descendants t) -> range_valid ws (mkFR f lo hi) = true) /\
  (forall l, In l (leaves t) -> range_valid ws (mkFR f (lf_lo l) (lf_hi l)) = true) /\
  (* range_excluding_trivia of every node: document links (the include's path node) and folding ranges *)
  (forall lo hi n, In (lo, hi, n) (descendants t) ->
     range_valid ws (mkFR f (fst (range_excluding_trivia lo n)) (snd (range_excluding_trivia lo n))) = true) /\
  (forall r, In r (folding_model t) -> range_valid ws (mkFR f (fst r) (snd r)) = true).
Proof.
  intros fuel txt t errs st ws f Hf Hp.
  destruct (grammar_lossless _ _ _ _ _ Hp) as (Htxt & _). rewrite <- Htxt in Hf.
  pose proof (grammar_errors_wf _ _ _ _ _ Hp) as He. rewrite Forall_forall in He.
  destruct (c17_tree_ranges_valid t ws f Hf) as (H1 & H2 & H3).
  split; [|split; [exact H1|split; [exact H2|split; [exact H3|]]]].
  - intros lo hi m Hin. specialize (He _ Hin). cbn in He. destruct He as (_ & Hle & _ & Hb1 & Hb2).
    rewrite <- Htxt in Hb1, Hb2. eapply range_valid_intro; eassumption.
  - apply c17_folding_ranges_valid. exact Hf.
Qed.

(** non-vacuity of the parse hypotheses: "class A;\n// é\nclass B : A;" parses; 2 folding ranges, the second one
    starts after the two-byte character *)
Example c17_parse_ex : exists t errs st,
  parse_with 100 grammar_prog grammar_entry c17_text = ParseOk t errs st /\
  folding_model t = [(0, 8); (15, 27)] /\ (10 <= List.length (descendants t))%nat.
Proof. vm_compute. do 3 eexists. split; [reflexivity|]. split; [reflexivity|]. repeat constructor. Qed.
