(** Soundness of A-cost (CostAn.v): for every program, certificate and constant table accepted by [chk_fns] and
    [cchk], the work [nlex + nstart] of every execution is bounded by a constant per expression plus [B] units per
    consumed token -- hence linear in the number of raw tokens.

    Potential [pot s = W s + B * msr s].  Claim for an execution of [e] from [s] to [s'] inside a function of rank
    [r], with static fact [al] (LookProg.v):
      - if nothing was consumed (and [cs al = false]):  W s' <= W s + znull r e            (null executions are cheap)
      - pot s' + [consumed] * slack <= pot s + zc e,    slack = D if [cs al] else sigma r  (tokens pay, with slack)
    The slack is what lets an enclosing loop iteration or wrapper function be paid by the same tokens: a loop
    iteration that consumed costs nothing net (slack >= overhead), and a chain of wrapper functions that were
    entered before anything was consumed has strictly decreasing ranks, each level giving up [D] of slack. *)
From Coq Require Import List Arith NArith Bool Lia.
From TG.Gen Require Import GenTokens GenLexTables.
From TG.Model Require Import Chars Lexer Prep Tree ParserPrims GInterp.
From TG.Proofs Require Import LexBasics PrepBasics ParserTile LookProg LookProgBase LookProgSound CostAn.
Import ListNotations.
Open Scope nat_scope.

Arguments p_eat : simpl never.
Arguments p_eat_if : simpl never.
Arguments p_assert : simpl never.
Arguments p_expect : simpl never.
Arguments p_skip_all : simpl never.
Arguments p_error_and_eat : simpl never.
Arguments p_error_and_recover : simpl never.
Arguments p_start_node : simpl never.
Arguments p_finish_node : simpl never.
Arguments p_start_node_at : simpl never.
Arguments p_error : simpl never.
Arguments p_at_set : simpl never.
Arguments env_get : simpl never.
Arguments env_set : simpl never.
Arguments join : simpl never.
Arguments sigma : simpl never.

(** * Work of the primitives *)
Definition W (s : pst) : nat := N.to_nat (nlex s) + N.to_nat (nstart s).

Lemma W_lex s : W (p_lex s) = S (W s).
Proof.
  unfold p_lex. destruct (prep_next (pp s) (raw s)) as [[[k len] pp'] raw'].
  destruct (take_bytes len (src s)) as [tx src']. unfold W. cbn [nlex nstart].
  rewrite N2Nat.inj_add. change (N.to_nat 1) with 1. lia.
Qed.
Lemma W_save s s1 : p_save s = Some s1 -> W s1 = W s.
Proof. intros H. destruct (p_save_frame _ _ H) as (_ & _ & _ & _ & _ & A & B). unfold W. rewrite A, B. reflexivity. Qed.
Lemma W_with_bld s b : W (with_bld s b) = W s.
Proof. reflexivity. Qed.
Lemma W_error s m : W (p_error s m) = W s.
Proof. reflexivity. Qed.
Lemma W_start_node s k : W (p_start_node s k) = S (W s).
Proof. unfold p_start_node, W. cbn [nlex nstart with_bld]. rewrite N2Nat.inj_add. change (N.to_nat 1) with 1. lia. Qed.
Lemma W_finish_node s s' : p_finish_node s = Some s' -> W s' = W s.
Proof. unfold p_finish_node. destruct (b_finish_node (bld s)); [|discriminate]. intros H; inversion H; reflexivity. Qed.
Lemma W_start_node_at s cp k s' : p_start_node_at s cp k = Some s' -> W s' = W s.
Proof. unfold p_start_node_at. destruct (b_start_node_at (bld s) cp k); [|discriminate]. intros H; inversion H; reflexivity. Qed.

Lemma trivia_not_eof k : is_trivia k = true -> k <> T_Eof.
Proof. intros H E. subst. discriminate. Qed.

Lemma p_skip_pot : forall fuel s s', p_skip fuel s = Some s' -> W s' + msr s' <= W s + msr s.
Proof.
  induction fuel as [|x fuel IH]; intros s s' H; cbn [p_skip] in H.
  - destruct (is_trivia (cur s)); inversion H; subst; lia.
  - destruct (is_trivia (cur s)) eqn:TR; [|inversion H; subst; lia].
    destruct (p_save s) as [s1|] eqn:SV; [|discriminate]. apply IH in H.
    pose proof (p_lex_msr s1). rewrite (p_save_msr_pre _ _ SV) in *. rewrite W_lex, (W_save _ _ SV) in H.
    pose proof (msr_pre_lt s (trivia_not_eof _ TR)). lia.
Qed.
Lemma p_eat_pot s s' : p_eat s = Some s' -> W s' + msr s' <= W s + msr s + 1.
Proof.
  unfold p_eat. destruct (p_save s) as [s1|] eqn:SV; [|discriminate]. unfold p_skip_all. intros H.
  apply p_skip_pot in H. pose proof (p_lex_msr s1). rewrite (p_save_msr_pre _ _ SV) in *. rewrite W_lex, (W_save _ _ SV) in H.
  pose proof (msr_pre_le s). lia.
Qed.

Definition res_pot (s : pst) (c : nat) (r : res) : Prop :=
  match r with RVal _ _ s' | RBrk _ s' | RRet _ _ s' => W s' + msr s' <= W s + msr s + c | RPanic | ROOF => True end.

Lemma exec_prim_pot p pr en s : res_pot s (prim_cost pr) (exec_prim p pr en s).
Proof.
  destruct pr; cbn [exec_prim prim_cost].
  - cbn. rewrite W_start_node, msr_p_start_node. lia.
  - destruct (p_finish_node s) eqn:F; cbn; auto. rewrite (W_finish_node _ _ F). apply p_finish_node_frame in F. lia.
  - cbn. lia.
  - destruct (env_get en x) as [[b|cp]|]; cbn; auto.
    destruct (p_start_node_at s cp k) eqn:F; cbn; auto. rewrite (W_start_node_at _ _ _ _ F). apply p_start_node_at_frame in F. lia.
  - destruct (p_assert s k) eqn:F; cbn; auto. apply p_assert_inv in F. destruct F as (_ & F). apply p_eat_pot in F. lia.
  - destruct (p_expect s k m) as [s'|] eqn:F; cbn; auto. unfold p_expect in F.
    destruct (p_eat_if s k) as [[b s1]|] eqn:E; [|discriminate]. apply p_eat_if_inv in E.
    destruct E as [(-> & _ & E)|(-> & _ & ->)].
    + inversion F; subst. apply p_eat_pot in E. lia.
    + destruct (after_err s); inversion F; subst; [lia|]. rewrite W_error, msr_p_error. lia.
  - destruct (p_eat s) eqn:F; cbn; auto. apply p_eat_pot in F. lia.
  - destruct (p_eat_if s k) as [[b s']|] eqn:F; cbn; auto. apply p_eat_if_inv in F.
    destruct F as [(_ & _ & F)|(_ & _ & ->)]; [apply p_eat_pot in F|]; lia.
  - destruct (p_skip_all s) eqn:F; cbn; auto. unfold p_skip_all in F. apply p_skip_pot in F. lia.
  - cbn. rewrite W_error, msr_p_error. lia.
  - destruct (p_error_and_eat s m) as [s'|] eqn:F; cbn; auto. unfold p_error_and_eat in F.
    destruct (p_eat _) as [s3|] eqn:E; [|discriminate]. rewrite (W_finish_node _ _ F). apply p_finish_node_frame in F.
    apply p_eat_pot in E. rewrite W_with_bld, W_error, msr_with_bld, msr_p_error in E. lia.
  - destruct (p_error_and_recover (recover_tokens p) s m) as [s'|] eqn:F; cbn; auto. unfold p_error_and_recover in F.
    destruct (negb _ && negb _).
    + destruct (p_eat _) as [s3|] eqn:E; [|discriminate]. rewrite (W_finish_node _ _ F). apply p_finish_node_frame in F.
      apply p_eat_pot in E. rewrite W_with_bld, W_error, msr_with_bld, msr_p_error in E. lia.
    + inversion F; subst. rewrite W_error, msr_p_error. lia.
  - cbn. lia.
Qed.

(** * sigma *)
Lemma sigma_ge D RM r : 2 * D <= sigma D RM r.
Proof. unfold sigma. set (x := (RM - r) * D). lia. Qed.
Lemma sigma_le0 D RM r : sigma D RM r <= sigma D RM 0.
Proof.
  unfold sigma. assert (H : (RM - r) * D <= (RM - 0) * D) by (apply Nat.mul_le_mono_r; lia).
  set (x := (RM - r) * D) in *. set (y := (RM - 0) * D) in *. lia.
Qed.
Lemma sigma_gap D RM q r : q < r -> r <= RM -> sigma D RM r + D <= sigma D RM q.
Proof.
  intros Q R. unfold sigma. replace (RM - q) with (S (RM - r) + (r - S q)) by lia.
  rewrite Nat.mul_add_distr_r. rewrite Nat.mul_succ_l.
  set (x := (RM - r) * D). set (y := (r - S q) * D). lia.
Qed.

Section CS.
Variable p : prog.
Variable ce : cert.
Variable k : cconsts.
Notation zf := (c_zf k).
Notation D := (c_D k).
Notation RM := (c_RM k).
Notation B := (c_B k).
Notation ZC := (zc zf).
Notation ZN := (znull ce zf).
Notation ZCN := (zcn zf).
Notation SG := (sigma D RM).
Notation AN := (an p ce).

Hypothesis CERT : cert_ok p ce.
Hypothesis TAB : forall f body, fn_body p f = Some body ->
  ZN (rk ce f) body <= zfn zf f /\ ZC body <= D /\ loops_ok zf D body = true /\ rk ce f < RM.
Hypothesis BB : 2 + SG 0 <= B.

Definition pot (s : pst) : nat := W s + B * msr s.
Definition sl (al : fact) (r : nat) : nat := if cs al then D else SG r.
(** null bound in the mode of [al] *)
Definition NB (al : fact) (r : nat) (e : expr) : nat := if cs al then ZCN e else ZN r e.
Definition ind (s s' : pst) (x : nat) : nat := if Nat.ltb (msr s') (msr s) then x else 0.

Definition claim (al : fact) (r : nat) (e : expr) (s s' : pst) : Prop :=
  msr s' <= msr s /\
  (msr s' = msr s -> W s' <= W s + NB al r e) /\
  pot s' + ind s s' (sl al r) <= pot s + ZC e.
Definition rclaim (al : fact) (r : nat) (e : expr) (s : pst) (x : res) : Prop :=
  match x with RVal _ _ s' | RBrk _ s' | RRet _ _ s' => claim al r e s s' | RPanic | ROOF => True end.

Lemma zcn_le_zc e : ZCN e <= ZC e.
Proof. induction e; cbn [zcn zc]; lia. Qed.
Lemma znull_le_zc r e : ZN r e <= ZC e.
Proof. induction e; cbn [znull zc]; try lia. destruct (Nat.ltb _ r); lia. Qed.
Lemma NB_le_zc al r e : NB al r e <= ZC e.
Proof. unfold NB. destruct (cs al); [apply zcn_le_zc|apply znull_le_zc]. Qed.

Lemma sl_ge al r : D <= sl al r.
Proof. unfold sl. destruct (cs al); [lia|]. pose proof (sigma_ge D RM r). lia. Qed.
Lemma sl_le al r : sl al r <= SG 0.
Proof. unfold sl. destruct (cs al); [pose proof (sigma_ge D RM 0); lia|apply sigma_le0]. Qed.

Lemma pot_drop s s' : msr s' < msr s -> B * msr s' + B <= B * msr s.
Proof. intros H. replace (B * msr s' + B) with (B * S (msr s')) by lia. apply Nat.mul_le_mono_l. lia. Qed.

Lemma ind_eq s s' x : msr s' = msr s -> ind s s' x = 0.
Proof. intros E. unfold ind. rewrite E, Nat.ltb_irrefl. reflexivity. Qed.
Lemma ind_lt s s' x : msr s' < msr s -> ind s s' x = x.
Proof. intros E. unfold ind. apply Nat.ltb_lt in E. rewrite E. reflexivity. Qed.
Lemma ind_cases s s' x : msr s' <= msr s -> (msr s' = msr s /\ ind s s' x = 0) \/ (msr s' < msr s /\ ind s s' x = x).
Proof. intros L. destruct (Nat.eq_dec (msr s') (msr s)); [left; auto using ind_eq|right; split; [lia|apply ind_lt; lia]]. Qed.

(** a state change whose W + msr grows by at most [c]: tokens pay with slack up to [SG 0] *)
Lemma step_pot s s' c x : W s' + msr s' <= W s + msr s + c -> msr s' <= msr s -> x <= SG 0 ->
  pot s' + ind s s' x <= pot s + c.
Proof.
  intros P L X. unfold pot. destruct (ind_cases s s' x L) as [(E & ->)|(E & ->)].
  - rewrite E in *. lia.
  - assert (HD : exists d, msr s = msr s' + S d) by (exists (msr s - msr s' - 1); lia).
    destruct HD as (d & HD). rewrite HD in *. rewrite Nat.mul_add_distr_l, Nat.mul_succ_r.
    assert (Z : 1 * d <= B * d) by (apply Nat.mul_le_mono_r; lia).
    set (u := B * msr s') in *. set (v := B * d) in *. lia.
Qed.

Lemma claim_prim al r e s s' c : W s' + msr s' <= W s + msr s + c -> msr s' <= msr s -> c <= NB al r e -> c <= ZC e ->
  claim al r e s s'.
Proof.
  intros P L CN CC. split; [exact L|]. split; [intros E; lia|].
  pose proof (step_pot s s' c (sl al r) P L (sl_le al r)). lia.
Qed.

Lemma claim_refl al r e s : claim al r e s s.
Proof. split; [lia|]. split; [intros; lia|]. rewrite ind_eq by reflexivity. lia. Qed.

Lemma claim_weaken al r e e' s s' : claim al r e s s' -> NB al r e <= NB al r e' -> ZC e <= ZC e' -> claim al r e' s s'.
Proof. intros (A & N & P) HN HC. split; [exact A|]. split; [intros Y; specialize (N Y); lia|lia]. Qed.

(** sequential composition: [s -> s1] under [al] (null bound n1, cost c1), [s1 -> s2] under [al1] (n2, c2) *)
Lemma compose al al1 r s s1 s2 n1 c1 n2 c2 :
  msr s1 <= msr s -> (msr s1 = msr s -> W s1 <= W s + n1) -> pot s1 + ind s s1 (sl al r) <= pot s + c1 ->
  msr s2 <= msr s1 -> (msr s2 = msr s1 -> W s2 <= W s1 + n2) -> pot s2 + ind s1 s2 (sl al1 r) <= pot s1 + c2 ->
  (cs al = false -> cs al1 = true -> msr s1 < msr s) ->
  (cs al = true -> cs al1 = true) ->
  msr s2 <= msr s /\ (msr s2 = msr s -> W s2 <= W s + n1 + n2) /\
  pot s2 + ind s s2 (sl al r) <= pot s + c1 + c2.
Proof.
  intros L1 N1 P1 L2 N2 P2 SURE MONO. split; [lia|]. split.
  - intros E. assert (E1 : msr s1 = msr s) by lia. assert (E2 : msr s2 = msr s1) by lia.
    specialize (N1 E1). specialize (N2 E2). lia.
  - destruct (ind_cases s s1 (sl al r) L1) as [(E1 & I1)|(E1 & I1)]; rewrite I1 in P1.
    + destruct (ind_cases s1 s2 (sl al1 r) L2) as [(E2 & I2)|(E2 & I2)]; rewrite I2 in P2.
      * rewrite ind_eq by lia. lia.
      * rewrite ind_lt by lia.
        assert (sl al r <= sl al1 r).
        { unfold sl. destruct (cs al) eqn:CA.
          - rewrite (MONO eq_refl). lia.
          - destruct (cs al1) eqn:C1; [specialize (SURE eq_refl eq_refl); lia|lia]. }
        lia.
    + rewrite (ind_lt s s2) by lia. pose proof (sl_ge al1 r).
      destruct (ind_cases s1 s2 (sl al1 r) L2) as [(E2 & I2)|(E2 & I2)]; rewrite I2 in P2; lia.
Qed.

(** the null bound of the continuation, in the mode of the start, when the first part was null *)
Lemma NB_cont al al1 r e s s1 :
  (cs al = false -> cs al1 = true -> msr s1 < msr s) -> (cs al = true -> cs al1 = true) ->
  msr s1 = msr s -> NB al1 r e = NB al r e.
Proof.
  intros SURE MONO E. unfold NB. destruct (cs al) eqn:CA.
  - rewrite (MONO eq_refl). reflexivity.
  - destruct (cs al1) eqn:C1; [specialize (SURE eq_refl eq_refl); lia|reflexivity].
Qed.

Lemma top_sat_at al s : kmem (cur s) (L al) = true -> cs al = false -> sat (msr s) al s.
Proof. intros K C. repeat split; [lia|rewrite C; discriminate|exact K]. Qed.
Lemma any_sat al s : kmem (cur s) (L al) = true -> sat (S (msr s)) al s.
Proof. intros K. repeat split; [lia|intros _; lia|exact K]. Qed.

Definition Echoice (al : fact) (s : pst) : nat := if cs al then S (msr s) else msr s.

Lemma next_fact n chk r e al en s :
  kmem (cur s) (L al) = true -> ok (AN chk r e al) = true ->
  rpost (Echoice al s) (AN chk r e al) (gexec n p e en s).
Proof.
  intros K OK. unfold Echoice. destruct (cs al) eqn:C; apply (facts_sound p ce CERT); auto using top_sat_at, any_sat.
Qed.

Lemma osat_next al s o s1 : osat (Echoice al s) o s1 ->
  exists al1, o = Some al1 /\ kmem (cur s1) (L al1) = true /\ (cs al = false -> cs al1 = true -> msr s1 < msr s).
Proof.
  intros (al1 & -> & (_ & C & K)). exists al1. split; [reflexivity|]. split; [exact K|].
  intros CA C1. unfold Echoice in C. rewrite CA in C. auto.
Qed.

(** cs is never lost, in the form needed here *)
Lemma mono_slot chk r e a x : cs a = true ->
  (rt (AN chk r e a) = Some x \/ rf (AN chk r e a) = Some x \/ join (rt (AN chk r e a)) (rf (AN chk r e a)) = Some x) -> cs x = true.
Proof.
  intros C H. destruct (an_mono p ce chk r e a C) as (A1 & A2 & _).
  destruct H as [H|[H|H]].
  - rewrite H in A1. exact A1.
  - rewrite H in A2. exact A2.
  - pose proof (allc_join _ _ A1 A2) as A3. rewrite H in A3. exact A3.
Qed.

(** * Soundness *)
Theorem cost_sound : forall n r e al en s,
  kmem (cur s) (L al) = true -> ok (AN true r e al) = true -> loops_ok zf D e = true -> r <= RM ->
  rclaim al r e s (gexec n p e en s).
Proof.
  induction n as [|n IH]; intros r e al en s KM OK LO RR; [exact I|].
  destruct e as [b|x|x|pr|f arg|x y|c x y|c b| |x|vx x]; cbn [gexec an loops_ok] in *.
  - (* EB *) apply claim_refl.
  - (* EVar *) destruct (env_get en x); cbn; [apply claim_refl|exact I].
  - (* ENot *)
    pose proof (IH r x al en s KM OK LO RR) as P1.
    destruct (gexec n p x en s) as [[bv|m] en1 s1|en1 s1|v1 en1 s1| |]; cbn [rclaim] in *; auto.
  - (* EPrim *)
    pose proof (exec_prim_pot p pr en s) as PP. pose proof (exec_prim_le p pr en s) as PL.
    assert (NBP : prim_cost pr <= NB al r (EPrim pr)) by (unfold NB; destruct (cs al); cbn; lia).
    destruct (exec_prim p pr en s) as [v1 en1 s1|en1 s1|v1 en1 s1| |]; cbn [rclaim res_pot res_le] in *; auto;
      apply (claim_prim al r (EPrim pr) s s1 (prim_cost pr)); auto.
  - (* ECall *)
    apply andb_prop in OK. destruct OK as [OKP OKR].
    destruct (fn_body p f) as [body|] eqn:FB; [|exact I].
    destruct (match arg with Some (x, _) => match env_get en x with Some v => Some [v] | None => None end | None => Some [] end) as [cen0|]; [|exact I].
    pose proof (ksub_spec _ _ OKP _ KM) as PRE.
    destruct (CERT f body (cur s) FB PRE) as (OKB & _ & _).
    destruct (TAB f body FB) as (TN & TC & TL & TR).
    set (a0 := {| L := kof [cur s]; cs := false |}) in *.
    assert (RQ : rk ce f <= RM) by lia.
    pose proof (IH (rk ce f) body a0 cen0 s (kmem_self (cur s)) OKB TL RQ) as P1.
    assert (FIN : forall s1, claim a0 (rk ce f) body s s1 -> claim al r (ECall f arg) s s1).
    { intros s1 (A & N & P). unfold NB in N. cbn [cs a0] in N. split; [exact A|]. split.
      - intros E. specialize (N E). unfold NB. destruct (cs al) eqn:CA; cbn [zcn znull].
        + lia.
        + cbn [negb orb] in OKR. unfold rk in *. rewrite OKR. lia.
      - cbn [zc]. destruct (ind_cases s s1 (sl al r) A) as [(E & ->)|(E & ->)].
        + specialize (N E). unfold pot. rewrite E. lia.
        + rewrite (ind_lt s s1) in P by exact E. unfold sl at 1 in P. cbn [cs a0] in P.
          assert (D + sl al r <= SG (rk ce f)).
          { unfold sl. destruct (cs al) eqn:CA.
            - pose proof (sigma_ge D RM (rk ce f)). lia.
            - cbn [negb orb] in OKR. fold (rk ce f) in OKR. apply Nat.ltb_lt in OKR. pose proof (sigma_gap D RM _ _ OKR RR). lia. }
          lia. }
    destruct (gexec n p body cen0 s) as [v1 cen1 s1|cen1 s1|v1 cen1 s1| |]; cbn [rclaim] in *; auto;
      destruct arg as [[x [|]]|]; cbn [rclaim]; auto; destruct (env_get cen1 0); cbn [rclaim]; auto.
  - (* ESeq *)
    apply andb_prop in OK. destruct OK as [OK1 OK2]. apply andb_prop in LO. destruct LO as [LO1 LO2].
    pose proof (IH r x al en s KM OK1 LO1 RR) as P1.
    pose proof (next_fact n true r x al en s KM OK1) as F1.
    assert (WK : forall s1, claim al r x s s1 -> claim al r (ESeq x y) s s1).
    { intros s1 H. eapply claim_weaken; [exact H|unfold NB; destruct (cs al); cbn [zcn znull]; lia|cbn [zc]; lia]. }
    destruct (gexec n p x en s) as [v1 en1 s1|en1 s1|v1 en1 s1| |]; cbn [rclaim] in *; auto.
    assert (J : osat (Echoice al s) (join (rt (AN true r x al)) (rf (AN true r x al))) s1).
    { destruct v1 as [[|]|m]; cbn in F1; [apply osat_join_l|apply osat_join_r|apply osat_join_l]; exact F1. }
    destruct (osat_next al s _ s1 J) as (al1 & JL & KM1 & SURE). rewrite JL in OK2. cbn [bind] in OK2.
    assert (MONO : cs al = true -> cs al1 = true).
    { intros C. eapply mono_slot; [exact C|right; right; exact JL]. }
    pose proof (IH r y al1 en1 s1 KM1 OK2 LO2 RR) as P2.
    destruct P1 as (A1 & N1 & Q1).
    assert (FIN : forall s2, claim al1 r y s1 s2 -> claim al r (ESeq x y) s s2).
    { intros s2 (A2 & N2 & Q2).
      destruct (compose al al1 r s s1 s2 _ _ _ _ A1 N1 Q1 A2 N2 Q2 SURE MONO) as (X1 & X2 & X3).
      split; [exact X1|]. split; [|cbn [zc]; lia].
      intros E. specialize (X2 E). rewrite (NB_cont al al1 r y s s1 SURE MONO) in X2 by lia.
      unfold NB in *. destruct (cs al); cbn [zcn znull]; lia. }
    destruct (gexec n p y en1 s1) as [v2 en2 s2|en2 s2|v2 en2 s2| |]; cbn [rclaim] in *; auto.
  - (* EIf *)
    apply andb_prop in OK. destruct OK as [OK12 OK3]. apply andb_prop in OK12. destruct OK12 as [OK1 OK2].
    apply andb_prop in LO. destruct LO as [LO12 LO3]. apply andb_prop in LO12. destruct LO12 as [LO1 LO2].
    pose proof (IH r c al en s KM OK1 LO1 RR) as P1.
    pose proof (next_fact n true r c al en s KM OK1) as F1.
    assert (WK : forall s1, claim al r c s s1 -> claim al r (EIf c x y) s s1).
    { intros s1 H. eapply claim_weaken; [exact H|unfold NB; destruct (cs al); cbn [zcn znull]; lia|cbn [zc]; lia]. }
    assert (BR : forall z al1 en1 s1, claim al r c s s1 -> kmem (cur s1) (L al1) = true ->
              (cs al = false -> cs al1 = true -> msr s1 < msr s) -> (cs al = true -> cs al1 = true) ->
              ok (AN true r z al1) = true -> loops_ok zf D z = true -> (z = x \/ z = y) ->
              rclaim al r (EIf c x y) s (gexec n p z en1 s1)).
    { intros z al1 en1 s1 (A1 & N1 & Q1) KM1 SURE MONO OKZ LOZ ZZ.
      pose proof (IH r z al1 en1 s1 KM1 OKZ LOZ RR) as P2.
      assert (FIN : forall s2, claim al1 r z s1 s2 -> claim al r (EIf c x y) s s2).
      { intros s2 (A2 & N2 & Q2).
        destruct (compose al al1 r s s1 s2 _ _ _ _ A1 N1 Q1 A2 N2 Q2 SURE MONO) as (X1 & X2 & X3).
        split; [exact X1|]. split.
        - intros E. specialize (X2 E). rewrite (NB_cont al al1 r z s s1 SURE MONO) in X2 by lia.
          unfold NB in *. destruct ZZ as [-> | ->]; destruct (cs al); cbn [zcn znull]; lia.
        - cbn [zc]. destruct ZZ as [-> | ->]; lia. }
      destruct (gexec n p z en1 s1) as [v2 en2 s2|en2 s2|v2 en2 s2| |]; cbn [rclaim] in *; auto. }
    destruct (gexec n p c en s) as [[[|]|m] en1 s1|en1 s1|v1 en1 s1| |]; cbn [rclaim] in *; auto.
    + cbn in F1. destruct (osat_next al s _ s1 F1) as (al1 & JL & KM1 & SURE). rewrite JL in OK2. cbn [bind] in OK2.
      apply (BR x al1 en1 s1 P1 KM1 SURE); auto. intros C; eapply mono_slot; [exact C|left; exact JL].
    + cbn in F1. destruct (osat_next al s _ s1 F1) as (al1 & JL & KM1 & SURE). rewrite JL in OK3. cbn [bind] in OK3.
      apply (BR y al1 en1 s1 P1 KM1 SURE); auto. intros C; eapply mono_slot; [exact C|right; left; exact JL].
  - (* EWhile *)
    pose proof OK as OKW. pose proof LO as LOW.
    set (h := {| L := kall; cs := cs al |}) in *.
    assert (KH : kmem (cur s) (L h) = true) by apply kmem_kall.
    apply andb_prop in OK. destruct OK as [OK PR]. apply andb_prop in OK. destruct OK as [OK OKB0].
    apply andb_prop in OK. destruct OK as [OK OKC0]. apply andb_prop in OK. destruct OK as [OKC OKB].
    apply andb_prop in LO. destruct LO as [LO LOB]. apply andb_prop in LO. destruct LO as [LOH LOC]. apply Nat.leb_le in LOH.
    pose proof (IH r c h en s KH OKC LOC RR) as P1.
    pose proof (next_fact n true r c h en s KH OKC) as F1.
    assert (NBW : NB al r (EWhile c b) = NB al r c + NB al r b) by (unfold NB; destruct (cs al); reflexivity).
    assert (WKC : forall s1, claim h r c s s1 -> claim al r (EWhile c b) s s1).
    { intros s1 (A & N & P). split; [exact A|]. split; [intros E; specialize (N E); rewrite NBW; change (NB h r c) with (NB al r c) in N; lia|].
      change (sl h r) with (sl al r) in P. cbn [zc]. lia. }
    destruct (gexec n p c en s) as [[[|]|m] en1 s1|en1 s1|v1 en1 s1| |] eqn:E1; cbn [rclaim] in *; auto.
    cbn in F1. change (Echoice h s) with (Echoice al s) in F1.
    destruct (osat_next al s _ s1 F1) as (al1 & JL & KM1 & SURE).
    assert (OKB' : ok (AN true r b al1) = true) by (rewrite JL in OKB; exact OKB).
    assert (MONO : cs al = true -> cs al1 = true) by (intros C; eapply (mono_slot true r c h); [exact C|left; exact JL]).
    pose proof (IH r b al1 en1 s1 KM1 OKB' LOB RR) as P2.
    destruct P1 as (A1 & N1 & Q1). change (NB h r c) with (NB al r c) in N1. change (sl h r) with (sl al r) in Q1.
    (* one iteration: condition then body *)
    assert (IT : forall s2, claim al1 r b s1 s2 ->
              msr s2 <= msr s /\ (msr s2 = msr s -> W s2 <= W s + NB al r c + NB al r b) /\
              pot s2 + ind s s2 (sl al r) <= pot s + ZC c + ZC b).
    { intros s2 (A2 & N2 & Q2).
      destruct (compose al al1 r s s1 s2 _ _ _ _ A1 N1 Q1 A2 N2 Q2 SURE MONO) as (X1 & X2 & X3).
      split; [exact X1|]. split; [|exact X3].
      intros E. specialize (X2 E). rewrite (NB_cont al al1 r b s s1 SURE MONO) in X2 by lia. exact X2. }
    assert (EXIT : forall s2, claim al1 r b s1 s2 -> claim al r (EWhile c b) s s2).
    { intros s2 H. destruct (IT s2 H) as (X1 & X2 & X3). split; [exact X1|]. split; [rewrite NBW; intros E; specialize (X2 E); lia|cbn [zc]; lia]. }
    destruct (gexec n p b en1 s1) as [v2 en2 s2|en2 s2|v2 en2 s2| |] eqn:E2; cbn [rclaim] in *; auto.
    (* the iteration completed: it consumed; then the rest of the loop *)
    destruct (IT s2 P2) as (X1 & X2 & X3).
    assert (PRG : msr s2 < msr s).
    { set (h0 := {| L := kall; cs := false |}) in *.
      assert (S0 : sat (msr s) h0 s) by (repeat split; cbn [L cs]; [lia|discriminate|apply kmem_kall]).
      pose proof (facts_sound p ce CERT n false r c h0 en s (msr s) S0 OKC0) as G1. rewrite E1 in G1. cbn in G1.
      destruct G1 as (a10 & J10 & S10). rewrite J10 in OKB0, PR. cbn [bind] in OKB0, PR.
      pose proof (facts_sound p ce CERT n false r b a10 en1 s1 (msr s) S10 OKB0) as G2. rewrite E2 in G2.
      eapply allc_join_osat; [exact PR|]. destruct v2 as [[|]|m]; cbn in G2; auto. }
    rewrite (ind_lt s s2) in X3 by exact PRG.
    assert (KH2 : kmem (cur s2) (L h) = true) by apply kmem_kall.
    assert (OKW2 : ok (AN true r (EWhile c b) h) = true).
    { cbn [an]. change {| L := kall; cs := cs h |} with h. exact OKW. }
    pose proof (IH r (EWhile c b) h en2 s2 KH2 OKW2 LOW RR) as P3.
    assert (REST : forall s3, claim h r (EWhile c b) s2 s3 -> claim al r (EWhile c b) s s3).
    { intros s3 (A3 & N3 & Q3). change (sl h r) with (sl al r) in Q3. change (NB h r (EWhile c b)) with (NB al r (EWhile c b)) in N3.
      split; [lia|]. split; [intros E; lia|].
      rewrite (ind_lt s s3) by lia. cbn [zc] in *. pose proof (sl_ge al r).
      destruct (ind_cases s2 s3 (sl al r) A3) as [(E3 & I3)|(E3 & I3)].
      - (* the rest was null: it costs at most one partial iteration *)
        specialize (N3 E3). rewrite NBW in N3. pose proof (NB_le_zc al r c). pose proof (NB_le_zc al r b).
        unfold pot in *. rewrite E3 in *. lia.
      - rewrite I3 in Q3. lia. }
    destruct (gexec n p (EWhile c b) en2 s2) as [v3 en3 s3|en3 s3|v3 en3 s3| |]; cbn [rclaim] in *; auto.
  - (* EBreak *) apply claim_refl.
  - (* EReturn *)
    pose proof (IH r x al en s KM OK LO RR) as P1.
    destruct (gexec n p x en s) as [v1 en1 s1|en1 s1|v1 en1 s1| |]; cbn [rclaim] in *; auto.
  - (* ESet *)
    pose proof (IH r x al en s KM OK LO RR) as P1.
    destruct (gexec n p x en s) as [v1 en1 s1|en1 s1|v1 en1 s1| |]; cbn [rclaim] in *; auto.
Qed.

End CS.
