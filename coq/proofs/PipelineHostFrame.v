(** C07 for the whole modelled pipeline: [PipelineHost.analyze_from_state] reads a session state only
    through its [view] (root path; per workspace file in walk order: path, content, include map with paths
    as targets): what the queries read of the analysis ([an_obs]: parsed files, parse errors, Core ASTs,
    the Core workspace, ident_shape) is [obs_of_view] of the view.  Hence after any history the pipeline
    answers as [Pipeline.analyze] does from scratch over the final contents
    ([pipeline_history_independent]). *)
From Coq Require Import List NArith Bool Lia Arith String.
Close Scope string_scope.
From TG.Gen Require Import GenTokens GenAst GenGrammar.
From TG.Model Require Import Chars Lexer Prep Tree ParserPrims GInterp AstAccess Includes Host CoreAst AstToCore Scope Indexer Pipeline PipelineHost.
From TG.Proofs Require Import IncludesGraph IncludesRefine HostIndex IncludesLinks HostHistory HostTheorems
     HostFrame HostAscending PipelineHostFresh.
Import ListNotations.
Local Open Scope nat_scope.

Notation fcontent := (Includes.content text).
Notation fentry := (@entry fpath text).

(** ** the assembly as a function of (links, parsed file) per workspace file *)
Definition assemble2 (lp : list (list (N * N * N) * pfile)) :=
  let cores := map (fun klp : N * (list (N * N * N) * pfile) =>
                      match pf_tree (snd (snd klp)) with
                      | Some t => core_of_tree (fst klp) (fst (snd klp)) t
                      | None => Err "parser panic or out of fuel"%string
                      end) (number_from 0 lp) in
  let perrs := flat_map (fun klp : N * (list (N * N * N) * pfile) =>
                           map (fun e : N * N * parse_msg => (fst klp, fst (fst e), snd (fst e), snd e))
                               (pf_errors (snd (snd klp)))) (number_from 0 lp) in
  (map snd lp, perrs, cores,
   match firstErr cores with
   | Ok fl => Ok (mkWs fl (map (fun e => mkR (fst (fst (fst e))) (snd (fst (fst e))) (snd (fst e))) perrs))
   | Err e => Err e
   | Fuel => Fuel
   end,
   forallb (fun p : pfile => match pf_tree p with Some t => ident_shape t | None => true end) (map snd lp)).

Lemma number_from_map : forall (A B : Type) (g : A -> B) l k,
  number_from k (map g l) = map (fun ix => (fst ix, g (snd ix))) (number_from k l).
Proof. induction l as [|x r IH]; intro k; cbn [map number_from]; [reflexivity|]. rewrite IH. reflexivity. Qed.

Lemma flat_map_map' : forall (A B C : Type) (g : A -> B) (f : B -> list C) l,
  flat_map f (map g l) = flat_map (fun x => f (g x)) l.
Proof. induction l as [|x r IH]; cbn [map flat_map]; [reflexivity|]. rewrite IH. reflexivity. Qed.

Lemma forallb_map' : forall (A B : Type) (g : A -> B) (f : B -> bool) l,
  forallb f (map g l) = forallb (fun x => f (g x)) l.
Proof. induction l as [|x r IH]; cbn [map forallb]; [reflexivity|]. rewrite IH. reflexivity. Qed.

Lemma assemble_obs : forall ids dl (wsf : list (N * pfile)),
  an_obs (assemble ids dl wsf) = assemble2 (map (fun fp => (links_for ids dl (fst fp), snd fp)) wsf).
Proof.
  intros ids dl wsf. unfold an_obs, assemble, assemble2.
  cbn [an_files an_perrs an_cores an_core an_shape].
  rewrite number_from_map, !map_map, !flat_map_map', forallb_map'. cbn [fst snd]. unfold core_of_pfile.
  reflexivity.
Qed.

(** ** the analysis as a function of the view *)
Definition pf_of (pfuel : nat) (files : list (text * text)) (rootp : fpath) (c : fcontent) : pfile :=
  match nth_error (parsed_of pfuel files) (N.to_nat (c_tag c)) with
  | Some p => p
  | None => parse_file pfuel rootp []
  end.

Fixpoint pindex_of (q : fpath) (l : list fpath) (k : N) : option N :=
  match l with
  | [] => None
  | g :: r => if fpath_eqb g q then Some k else pindex_of q r (k + 1)%N
  end.

Definition plinks_for (paths : list fpath) (l : list (Includes.rng * fpath)) : list (N * N * N) :=
  flat_map (fun lt : Includes.rng * fpath =>
              match pindex_of (snd lt) paths 0 with
              | Some k => [(fst (fst lt), snd (fst lt), k)]
              | None => []
              end) l.

Definition view_data (pfuel : nat) (files : list (text * text)) (p : fpath) (V : list fentry) :=
  let W := rev V in
  let paths := map e_path W in
  map (fun e : fentry => (plinks_for paths (plinks_of (e_links e) (c_items (e_content e))),
                          pf_of pfuel files p (e_content e))) W.

Definition obs_of_view (pfuel : nat) (files : list (text * text)) (pv : fpath * list fentry) :=
  assemble2 (view_data pfuel files (fst pv) (snd pv)).

Section FromState.
Variables (pfuel : nat) (files : list (text * text)).
Variable fs : @fsys fpath text.
Variable db : @inputs fpath text.
Hypothesis W : wf_fs fs.

Lemma index_rel : forall ids paths t q,
  Forall2 (fun f p => path_for_file fs f = Some p) ids paths ->
  path_for_file fs t = Some q ->
  forall k, index_of t ids k = pindex_of q paths k.
Proof.
  intros ids paths t q H Ht. induction H as [|f p ids paths Hf _ IH]; intro k; [reflexivity|].
  cbn [index_of pindex_of]. destruct (f =? t)%N eqn:E.
  - apply N.eqb_eq in E. subst f. assert (p = q) by congruence. subst p.
    change (fpath_eqb q q) with (path_eqb q q). rewrite path_eqb_refl. reflexivity.
  - destruct (fpath_eqb p q) eqn:E2; [|apply IH].
    apply fpath_eqb_ok in E2. subst p. apply N.eqb_neq in E. exfalso. apply E. exact (pof_inj fs f t q W Hf Ht).
Qed.

Lemma links_for_rel : forall ids paths (dl : N -> list (Includes.rng * N)) f l pl,
  Forall2 (fun f p => path_for_file fs f = Some p) ids paths ->
  dl f = l -> Forall2 (lrel fs) l pl ->
  links_for ids dl f = plinks_for paths pl.
Proof.
  intros ids paths dl f l pl Hi Hl H. unfold links_for, plinks_for. rewrite Hl. clear Hl.
  induction H as [|[r t] [r' q] l pl [A B] _ IH]; [reflexivity|]. cbn [flat_map fst snd] in *. subst r'.
  rewrite (index_rel ids paths t q Hi B 0%N), IH. reflexivity.
Qed.

Lemma from_state_obs : forall fset root p V,
  sroot db = Some (fset, root) ->
  path_in_fset root fset = p ->
  Forall2 (erel fs db) fset V ->
  exists a, analyze_from_state pfuel files (fs, db) = Some a /\
            an_obs a = obs_of_view pfuel files (p, V).
Proof.
  intros fset root p V S Hp F. unfold analyze_from_state. rewrite S, Hp.
  set (pfile_of := fun f : N => match fc db f with
                                | Some c => match nth_error (parsed_of pfuel files) (N.to_nat (c_tag c)) with
                                            | Some p0 => Some (f, p0)
                                            | None => Some (f, parse_file pfuel p [])
                                            end
                                | None => None
                                end).
  set (dl := fun f : N => match document_link db f with Done l => l | _ => [] end).
  pose proof (Forall2_rev _ _ _ _ _ F) as F'.
  rewrite <- map_rev.
  assert (Hids : Forall2 (fun f q => path_for_file fs f = Some q) (map fst (rev fset)) (map e_path (rev V))).
  { clear - F'. induction F' as [|x e X Wl [A [B _]] _ IH]; cbn [map]; constructor; [|exact IH].
    rewrite <- A. exact B. }
  assert (G : forall X Wl, Forall2 (erel fs db) X Wl ->
                exists wsf, Pipeline.all_some (map pfile_of (map fst X)) = Some wsf /\
                  map (fun fp => (links_for (map fst (rev fset)) dl (fst fp), snd fp)) wsf =
                  map (fun e : fentry => (plinks_for (map e_path (rev V)) (plinks_of (e_links e) (c_items (e_content e))),
                                          pf_of pfuel files p (e_content e))) Wl).
  { intros X Wl H. induction H as [|x e X Wl R _ [wsf [A1 A2]]].
    - exists []. split; reflexivity.
    - pose proof R as [Ex [Bx [Cx [lid [Dx Lx]]]]].
      exists ((fst x, pf_of pfuel files p (e_content e)) :: wsf). split.
      + cbn [map Pipeline.all_some]. unfold pfile_of at 1. rewrite Cx. unfold pf_of.
        destruct (nth_error (parsed_of pfuel files) (N.to_nat (c_tag (e_content e)))); rewrite A1; reflexivity.
      + cbn [map fst snd]. rewrite A2. f_equal. f_equal.
        apply (links_for_rel _ _ dl (fst x) (links_of lid (c_items (e_content e)))); [exact Hids| |].
        * unfold dl, document_link. rewrite Dx, Cx. reflexivity.
        * apply links_rel. exact Lx. }
  destruct (G _ _ F') as [wsf [A1 A2]]. rewrite A1. eexists. split; [reflexivity|].
  rewrite assemble_obs. unfold obs_of_view, view_data. cbn [fst snd]. rewrite A2. reflexivity.
Qed.

End FromState.

(** ** every session state: the analysis is [obs_of_view] of the walk over the final contents *)
Lemma state_obs : forall pfuel files (w : world fpath text) fuel h p c (st : @Host.state fpath text),
  run fuel w st_init (h ++ [(p, c)]) = Done st ->
  exists V a,
    pcollect (truth w (h ++ [(p, c)])) (extra w) fuel [p] [] = Done V /\
    analyze_from_state pfuel files st = Some a /\
    an_obs a = obs_of_view pfuel files (p, V).
Proof.
  intros pfuel files w fuel h p c [fs db] E.
  destruct (session_frame w fuel h p c (fs, db) E) as [V [fset [root [Hv [HV [S [R [Hr [W [F [ND Cl]]]]]]]]]]].
  cbn [fst snd] in *.
  assert (Hp : path_in_fset root fset = p).
  { apply path_in_fset_found.
    - eapply erel_ids_nodup; [exact F|]. rewrite (erel_paths _ _ _ _ F). exact ND.
    - apply in_map_iff in Hr. destruct Hr as [[g q] [Eg Hi]]. cbn [fst] in Eg. subst g.
      pose proof (erel_pof _ _ _ _ _ _ F Hi) as Hq. assert (q = p) by congruence. subst q. exact Hi. }
  destruct (from_state_obs pfuel files fs db W fset root p V S Hp F) as [a [A1 A2]].
  exists V, a. split; [exact HV|]. split; [exact A1|exact A2].
Qed.

Lemma assoc_app : forall (B : Type) (q : fpath) (a b : list (fpath * B)),
  assoc q (a ++ b) = match assoc q a with Some x => Some x | None => assoc q b end.
Proof.
  induction a as [|[k v] a IH]; intro b; cbn [app assoc]; [reflexivity|].
  destruct (path_eqb k q); [reflexivity|apply IH].
Qed.

(** the in-memory disk [analyze] builds from the file list [(root, text) :: rest] starts with the root *)
Lemma disk_files_head : forall pfuel p t rest,
  exists c0 dfs', disk_files_of pfuel ((p, t) :: rest) = (components p, c0) :: dfs'.
Proof. intros. unfold disk_files_of, parsed_of. cbn [map number_from]. eexists. eexists. reflexivity. Qed.

(** ** C07 for the pipeline.
    [disk0]: the files on disk (path string, text); [Ht ++ [(p, t)]]: the history of touches (path string,
    new text), the last one touching [p].  [final] = the final contents as a file list in which earlier
    entries shadow later ones (latest touch first, then the disk) - exactly how [analyze]'s in-memory disk
    looks a path up.  The history is replayed at host level with the contents [analyze] itself builds for
    these texts (tag = position in [final]). *)
Theorem pipeline_history_independent :
  forall pfuel cfuel1 cfuel2 (disk0 Ht : list (text * text)) (p t : text) (st1 : @Host.state fpath text) an,
  let final := rev (Ht ++ [(p, t)]) ++ disk0 in
  let dfs := disk_files_of pfuel final in
  let n := S (List.length Ht) in
  run cfuel1 (world_of (skipn n dfs)) st_init (rev (firstn n dfs)) = Done st1 ->
  analyze pfuel cfuel2 final p = Some an ->
  exists a1, analyze_from_state pfuel final st1 = Some a1 /\ an_obs a1 = an_obs an.
Proof.
  intros pfuel cfuel1 cfuel2 disk0 Ht p t st1 an final dfs n E1 E2.
  assert (Hfinal : final = (p, t) :: (rev Ht ++ disk0)).
  { unfold final. rewrite rev_app_distr. reflexivity. }
  destruct (disk_files_head pfuel p t (rev Ht ++ disk0)) as [c0 [dfs' Hd]].
  assert (Hdfs : dfs = (components p, c0) :: dfs') by (unfold dfs; rewrite Hfinal; exact Hd).
  set (rootp := components p) in *.
  (* the fresh side *)
  rewrite analyze_is_from_state in E2. cbv zeta in E2. fold final in E2. fold dfs in E2. fold rootp in E2.
  assert (Hrc : assoc rootp dfs = Some c0).
  { rewrite Hdfs. cbn [assoc]. change (fpath_eqb rootp rootp) with (path_eqb rootp rootp).
    rewrite path_eqb_refl. reflexivity. }
  rewrite Hrc in E2.
  destruct (touch cfuel2 (world_of dfs) st_init rootp c0) as [st2| |e] eqn:Et; try discriminate.
  assert (R2 : run cfuel2 (world_of dfs) st_init ([] ++ [(rootp, c0)]) = Done st2).
  { cbn [app run]. rewrite Et. reflexivity. }
  destruct (state_obs pfuel final _ _ _ _ _ _ R2) as [V2 [a2 [HV2 [A2 O2]]]].
  rewrite A2 in E2. injection E2 as <-.
  (* the history side *)
  assert (Hn : firstn n dfs = (rootp, c0) :: firstn (List.length Ht) dfs').
  { unfold n. rewrite Hdfs. reflexivity. }
  rewrite Hn in E1. cbn [rev] in E1.
  destruct (state_obs pfuel final _ _ _ _ _ _ E1) as [V1 [a1 [HV1 [A1 O1]]]].
  exists a1. split; [exact A1|]. rewrite O1, O2. f_equal. f_equal.
  (* both walks read the same file system *)
  cbn [world_of extra app] in HV1, HV2.
  assert (Ext : forall q, truth (world_of (skipn n dfs)) (rev (firstn (List.length Ht) dfs') ++ [(rootp, c0)]) q =
                          truth (world_of dfs) [(rootp, c0)] q).
  { intro q. unfold truth, last_text. cbn [world_of disk].
    rewrite rev_app_distr, rev_involutive. cbn [rev app]. rewrite <- Hn.
    transitivity (assoc q dfs).
    - symmetry. rewrite <- (firstn_skipn n dfs) at 1. rewrite assoc_app. reflexivity.
    - rewrite Hdfs. cbn [assoc]. destruct (path_eqb rootp q); reflexivity. }
  rewrite (pcollect_ext _ _ Ext) in HV1.
  eapply pcollect_det; eauto.
Qed.

(** the queries of the pipeline are functions of the Core workspace [an_core]: diagnostics,
    goto_definition and references at every position answer the same *)
Corollary pipeline_queries_history_independent :
  forall pfuel cfuel1 cfuel2 (disk0 Ht : list (text * text)) (p t : text) (st1 : @Host.state fpath text) an,
  let final := rev (Ht ++ [(p, t)]) ++ disk0 in
  let dfs := disk_files_of pfuel final in
  let n := S (List.length Ht) in
  run cfuel1 (world_of (skipn n dfs)) st_init (rev (firstn n dfs)) = Done st1 ->
  analyze pfuel cfuel2 final p = Some an ->
  exists a1, analyze_from_state pfuel final st1 = Some a1 /\
    an_obs a1 = an_obs an /\
    forall ws1 ws2, an_core a1 = Ok ws1 -> an_core an = Ok ws2 ->
      an_diagnostics ws1 = an_diagnostics ws2 /\
      (forall f pos, an_goto (an_state ws1) f pos = an_goto (an_state ws2) f pos) /\
      (forall f pos, an_references (an_state ws1) f pos = an_references (an_state ws2) f pos).
Proof.
  intros pfuel cfuel1 cfuel2 disk0 Ht p t st1 an final dfs n E1 E2.
  destruct (pipeline_history_independent pfuel cfuel1 cfuel2 disk0 Ht p t st1 an E1 E2) as [a1 [A1 O]].
  exists a1. split; [exact A1|]. split; [exact O|].
  intros ws1 ws2 H1 H2. unfold an_obs in O. injection O as _ _ _ O4 _.
  assert (ws1 = ws2) by congruence. subst ws2. repeat split; reflexivity.
Qed.
