(** The rendering of the CURRENT source of handlers/folding_range.rs (exec), utils.rs (range_excluding_trivia) and
    handlers/hover.rs (extract_doc_comments, prev_token) -- coq/gen/GenHandlers.v, regenerated on every run by
    tools/translate/t_handlers.py -- equals the hand models Folding.v / DocComments.v / TreeNav.prev_token for ALL inputs.
    What stays modelled (trusted, exercised by the correspondence runs): the rowan cursor API and the str / iterator
    operations of coq/model/HandlerApi.v. *)
From Coq Require Import List NArith Bool Lia Arith.
From TG.Gen Require Import GenTokens GenFoldKinds GenHandlers.
From TG.Model Require Import Chars Tree TreeNav Folding DocComments HandlerApi.
From TG.Proofs Require Import TreeNavProofs DocProofs FoldingProofs.
Import ListNotations.
Open Scope N_scope.

(** ================= generic list facts ================= *)
Lemma it_filter_map_app {A B} (f : A -> option B) : forall a b,
  it_filter_map f (a ++ b) = it_filter_map f a ++ it_filter_map f b.
Proof.
  induction a as [|x r IH]; intros b; [reflexivity|]. cbn [app it_filter_map]. destruct (f x); rewrite IH; reflexivity.
Qed.

Lemma it_filter_map_if {A B} (p : A -> bool) (g : A -> B) : forall l,
  it_filter_map (fun x => if p x then Some (g x) else None) l = map g (filter p l).
Proof. induction l as [|x r IH]; [reflexivity|]. cbn [it_filter_map filter]. destruct (p x); cbn [map]; now rewrite IH. Qed.

Lemma filter_map_comm {A B} (f : A -> B) (q : B -> bool) : forall l,
  filter q (map f l) = map f (filter (fun x => q (f x)) l).
Proof. induction l as [|x r IH]; [reflexivity|]. cbn [map filter]. destruct (q (f x)); cbn [map]; now rewrite IH. Qed.

Lemma last_opt_map {A B} (f : A -> B) : forall l, last_opt (map f l) = option_map f (last_opt l).
Proof.
  induction l as [|x r IH]; [reflexivity|]. destruct r as [|y r']; [reflexivity|].
  change (last_opt (map f (x :: y :: r'))) with (last_opt (map f (y :: r'))). rewrite IH. reflexivity.
Qed.

Lemma filter_ext_in' {A} (p q : A -> bool) : forall l, (forall x, In x l -> p x = q x) -> filter p l = filter q l.
Proof.
  induction l as [|x r IH]; intros H; [reflexivity|]. cbn [filter]. rewrite (H x (or_introl eq_refl)).
  rewrite IH; [reflexivity|]. intros y Hy. apply H. now right.
Qed.

(** ================= the element sequence of a cursor vs the leaf / node sequences of Tree.v ================= *)
(** the leaf a TOKEN cursor stands for *)
Definition tok_leaf (c : cursor) : leaf := (kind_of (fst c), cur_offset c, cur_offset c + tree_len (fst c), tree_text (fst c)).
Definition node_info (c : cursor) : N * N * tree := (cur_offset c, cur_offset c + tree_len (fst c), fst c).

Lemma forest_len_rev_cons : forall c lr, forest_len (rev (c :: lr)) = forest_len (rev lr) + tree_len c.
Proof.
  intros c lr. cbn [rev]. rewrite forest_len_app, forest_len_cons.
  assert (forest_len (@nil tree) = 0) as -> by reflexivity. lia.
Qed.

Lemma child_offset : forall k lr r ctx,
  forest_len (before_ctx (mkFrame k lr r :: ctx)) = forest_len (before_ctx ctx) + forest_len (rev lr).
Proof. intros. cbn [before_ctx fr_left]. apply forest_len_app. Qed.

Lemma tree_len_tok : forall k txt, tree_len (Tok k txt) = bytes txt.
Proof. reflexivity. Qed.

Lemma elems_leaves : forall t ctx,
  map tok_leaf (it_filter_map rw_into_token (elems_from t ctx)) = leaves_from (forest_len (before_ctx ctx)) t.
Proof.
  induction t as [k txt|k cs IH] using tree_ind'; intros ctx.
  - cbn [elems_from it_filter_map]. unfold rw_into_token at 1. cbn [fst is_node map]. rewrite leaves_from_tok.
    unfold tok_leaf, cur_offset. cbn [fst snd kind_of tree_text]. now rewrite tree_len_tok.
  - cbn [elems_from it_filter_map]. unfold rw_into_token at 1. cbn [fst is_node]. rewrite leaves_from_node.
    set (go := fix go (left_rev l : list tree) {struct l} : list cursor :=
           match l with
           | [] => []
           | c :: r => elems_from c (mkFrame k left_rev r :: ctx) ++ go (c :: left_rev) r
           end).
    assert (forall l, Forall (fun t => forall ctx, map tok_leaf (it_filter_map rw_into_token (elems_from t ctx)) =
                                          leaves_from (forest_len (before_ctx ctx)) t) l ->
            forall lr, map tok_leaf (it_filter_map rw_into_token (go lr l)) =
                       leaves_forest (forest_len (before_ctx ctx) + forest_len (rev lr)) l) as Hgo.
    { intros l Hl. induction Hl as [|c r Hc Hr IHr]; intros lr; [reflexivity|].
      cbn [go leaves_forest]. rewrite it_filter_map_app, map_app, Hc, child_offset, (IHr (c :: lr)), forest_len_rev_cons.
      now rewrite N.add_assoc. }
    rewrite (Hgo cs IH []). cbn [rev]. unfold forest_len at 2. cbn [fold_right]. now rewrite N.add_0_r.
Qed.

Lemma elems_nodes : forall t ctx,
  map node_info (filter (fun x => is_node (fst x)) (elems_from t ctx)) = descendants_from (forest_len (before_ctx ctx)) t.
Proof.
  induction t as [k txt|k cs IH] using tree_ind'; intros ctx.
  - cbn [elems_from filter fst is_node map]. now rewrite descendants_from_tok.
  - cbn [elems_from filter fst is_node map]. rewrite descendants_from_node.
    unfold node_info at 1, cur_offset at 1 2. cbn [fst snd]. rewrite tree_len_node. f_equal.
    set (go := fix go (left_rev l : list tree) {struct l} : list cursor :=
           match l with
           | [] => []
           | c :: r => elems_from c (mkFrame k left_rev r :: ctx) ++ go (c :: left_rev) r
           end).
    assert (forall l, Forall (fun t => forall ctx, map node_info (filter (fun x => is_node (fst x)) (elems_from t ctx)) =
                                          descendants_from (forest_len (before_ctx ctx)) t) l ->
            forall lr, map node_info (filter (fun x => is_node (fst x)) (go lr l)) =
                       descendants_forest (forest_len (before_ctx ctx) + forest_len (rev lr)) l) as Hgo.
    { intros l Hl. induction Hl as [|c r Hc Hr IHr]; intros lr; [reflexivity|].
      cbn [go descendants_forest]. rewrite filter_app, map_app, Hc, child_offset. f_equal.
      etransitivity; [apply (IHr (c :: lr))|]. now rewrite forest_len_rev_cons, N.add_assoc. }
    rewrite (Hgo cs IH []). cbn [rev]. unfold forest_len at 2. cbn [fold_right]. now rewrite N.add_0_r.
Qed.

(** ================= utils.rs range_excluding_trivia ================= *)
Theorem src_range_excluding_trivia_eq : forall c,
  src_range_excluding_trivia c = range_excluding_trivia (cur_offset c) (fst c).
Proof.
  intros [t ctx]. unfold src_range_excluding_trivia, range_excluding_trivia, rw_descendants_with_tokens, rw_text_range,
    cur_range, rg_start, rg_end, rg_new, it_last, opt_map_or. cbn [fst snd]. f_equal.
  change (cur_offset (t, ctx)) with (forest_len (before_ctx ctx)). rewrite <- elems_leaves.
  rewrite (filter_map_comm tok_leaf sig_token), last_opt_map.
  match goal with |- context [last_opt (filter ?p ?l)] =>
    match p with
    | (fun x => sig_token (tok_leaf x)) => fail 1
    | _ => change (last_opt (filter p l))
             with (last_opt (filter (fun x => sig_token (tok_leaf x)) (it_filter_map rw_into_token (elems_from t ctx))))
    end
  end.
  destruct (last_opt _) as [x|]; reflexivity.
Qed.

(** ================= folding_range.rs exec ================= *)
Lemma fold_kind_chain : forall k,
  (sk_eqb k S_Class || sk_eqb k S_Def || sk_eqb k S_Defset || sk_eqb k S_Foreach || sk_eqb k S_If || sk_eqb k S_Let
   || sk_eqb k S_MultiClass) = is_fold_kind k.
Proof. destruct k; reflexivity. Qed.

Theorem src_folding_exec_eq : forall db f, src_folding_exec db f = Some (folding_model (db f)).
Proof.
  intros db f. unfold src_folding_exec, folding_model, db_parse, rw_syntax_node, cur_root, rw_descendants,
    rw_descendants_with_tokens, mk_folding_range. cbn [fst snd]. f_equal. rewrite map_id.
  rewrite (it_filter_map_if (fun v_node => sk_eqb (rw_kind v_node) S_Class || sk_eqb (rw_kind v_node) S_Def
              || sk_eqb (rw_kind v_node) S_Defset || sk_eqb (rw_kind v_node) S_Foreach || sk_eqb (rw_kind v_node) S_If
              || sk_eqb (rw_kind v_node) S_Let || sk_eqb (rw_kind v_node) S_MultiClass) src_range_excluding_trivia).
  unfold descendants. change 0 with (forest_len (before_ctx [])). rewrite <- elems_nodes.
  rewrite (filter_map_comm node_info fold_node), map_map.
  rewrite (filter_ext_in' _ (fun x => fold_node (node_info x))) by (intros x _; apply fold_kind_chain).
  apply map_ext. intros c. apply src_range_excluding_trivia_eq.
Qed.

(** ================= hover.rs prev_token ================= *)
(** the inner `while let Some(last) = prev.as_node().and_then(|node| node.last_child_or_token()) { prev = last; }` *)
Lemma last_child_go : forall k ctx (z : cursor) l lr, l <> [] ->
  exists c lr', In c l /\ last_opt (child_cursors_go k ctx lr l) = Some (c, mkFrame k lr' [] :: ctx) /\
    (fix go (left_rev l : list tree) {struct l} : cursor :=
       match l with
       | [] => z
       | [c] => descend_last c (mkFrame k left_rev [] :: ctx)
       | c :: (_ :: _) as r => go (c :: left_rev) r
       end) lr l = descend_last c (mkFrame k lr' [] :: ctx).
Proof.
  intros k ctx z. induction l as [|c r IH]; intros lr Hne; [congruence|].
  destruct r as [|c2 r'].
  - exists c, lr. split; [now left|]. split; reflexivity.
  - destruct (IH (c :: lr) ltac:(discriminate)) as (c' & lr' & Hin & Hl & Hg).
    exists c', lr'. split; [now right|]. split; [exact Hl|exact Hg].
Qed.

Lemma in_tree_size : forall c l, In c l -> (tree_size c <= forest_size l)%nat.
Proof.
  intros c l. induction l as [|x r IH]; intros H; [destruct H|]. cbn [forest_size].
  destruct H as [<-|H]; [lia|]. specialize (IH H). lia.
Qed.

(** [body] is described pointwise; the hypothesis is discharged by conversion for the rendered loop body *)
Lemma descend_loop : forall (R B : Type) (body : cursor -> hm R cursor cursor),
  (forall p, body p = match opt_and_then (rw_into_node p) (fun n => rw_last_child_or_token n) with
                      | Some l => Val l
                      | None => Brk p
                      end) ->
  forall t ctx fuel, (tree_size t < fuel)%nat ->
  @hloop R B cursor fuel body (t, ctx) = Val (descend_last t ctx).
Proof.
  intros R B body Hb. induction t as [k txt|k cs IH] using tree_ind'; intros ctx fuel Hf.
  - destruct fuel as [|f]; [lia|]. cbn [hloop]. rewrite Hb. reflexivity.
  - destruct fuel as [|f]; [lia|]. cbn [hloop]. rewrite Hb. unfold rw_into_node. cbn [fst is_node opt_and_then].
    unfold rw_last_child_or_token, child_cursors. cbn [fst snd].
    destruct cs as [|c0 r0]; [reflexivity|].
    destruct (last_child_go k ctx (Node k (c0 :: r0), ctx) (c0 :: r0) [] ltac:(discriminate)) as (c & lr' & Hin & Hl & Hg).
    rewrite Hl. cbn [descend_last]. rewrite Hg.
    rewrite Forall_forall in IH. apply (IH c Hin).
    rewrite tree_size_node in Hf. pose proof (in_tree_size c _ Hin). lia.
Qed.

Definition of_walk {B A : Type} (w : walk_result) : hm (option cursor) B A :=
  match w with
  | WFound c => Ret (Some c)
  | WNone => Ret None
  | WOutOfFuel => Fuel
  end.

(** the step of the hand model, as a loop body *)
Definition walk_step (e : cursor) : hm (option cursor) cursor cursor :=
  match (match prev_sibling_or_token e with
         | Some p => Some (descend_last (fst p) (snd p))
         | None => parent e
         end) with
  | None => Ret None
  | Some x => match fst x with
              | Tok _ _ => Ret (Some x)
              | Node _ _ => Val x
              end
  end.

Lemma walk_forever : forall (B A : Type) (body : cursor -> hm (option cursor) cursor cursor),
  (forall e, body e = walk_step e) ->
  forall fuel e, @hforever (option cursor) B cursor A fuel body e = of_walk (prev_token fuel e).
Proof.
  intros B A body Hb. induction fuel as [|f IH]; intros e; [reflexivity|].
  cbn [hforever prev_token]. rewrite Hb. unfold walk_step.
  destruct (match prev_sibling_or_token e with Some p => Some (descend_last (fst p) (snd p)) | None => parent e end) as [x|];
    [|reflexivity].
  destruct (fst x); [apply IH|reflexivity].
Qed.

Definition outcome_of_walk (w : walk_result) : outcome (option cursor) :=
  match w with
  | WFound c => Done (Some c)
  | WNone => Done None
  | WOutOfFuel => OutOfFuel
  end.

Theorem src_prev_token_eq : forall c, src_prev_token c = outcome_of_walk (prev_token (S (cur_measure c)) c).
Proof.
  intros c. unfold src_prev_token.
  rewrite (walk_forever Empty_set (option cursor)).
  - destruct (prev_token _ c); reflexivity.
  - intros e. unfold walk_step, rw_prev_sibling_or_token, rw_parent, focus.
    destruct (prev_sibling_or_token e) as [p|].
    + destruct p as [pt pctx]. cbn [fst snd].
      rewrite (descend_loop (option cursor) cursor) by (intros; reflexivity || (cbn [fst]; lia)).
      cbn [hbind]. unfold rw_into_token.
      destruct (fst (descend_last pt pctx)); reflexivity.
    + destruct (parent e) as [q|]; [|reflexivity]. cbn [htry hbind]. unfold rw_into_token.
      destruct (fst q); reflexivity.
Qed.

(** the walk never runs out of the fuel the translator's annotation gives it (C19_prev_token_terminates) *)
Corollary src_prev_token_total : forall c, src_prev_token c <> OutOfFuel.
Proof.
  intros c. rewrite src_prev_token_eq. pose proof (prev_token_terminates (S (cur_measure c)) c ltac:(lia)) as T.
  destruct (prev_token _ c); [discriminate|discriminate|contradiction].
Qed.

(** ================= hover.rs extract_doc_comments ================= *)
Lemma prev_token_mono : forall f c, prev_token f c <> WOutOfFuel -> forall f', (f <= f')%nat -> prev_token f' c = prev_token f c.
Proof.
  induction f as [|f IH]; intros c H f' Hle; [now contradiction H|].
  destruct f' as [|f']; [lia|]. cbn [prev_token] in *.
  destruct (match prev_sibling_or_token c with Some p => Some (descend_last (fst p) (snd p)) | None => parent c end) as [x|];
    [|reflexivity].
  destruct (fst x); [|reflexivity]. apply IH; [exact H|lia].
Qed.

Lemma prev_token_indep : forall c f, (cur_measure c < f)%nat -> prev_token (S (cur_measure c)) c = prev_token f c.
Proof.
  intros c f Hf. symmetry. apply prev_token_mono; [|lia].
  pose proof (prev_token_terminates (S (cur_measure c)) c ltac:(lia)) as T. destruct (prev_token _ c); [discriminate|discriminate|contradiction].
Qed.

Lemma starts_with_slashes_eq : forall t, st_starts_with t [47; 47] = starts_with_slashes t.
Proof.
  intros [|a [|b r]]; cbn [st_starts_with starts_with_slashes]; rewrite ?andb_false_r; try reflexivity.
  destruct r; cbn [st_starts_with]; now rewrite andb_true_r.
Qed.

Lemma trim_slashes_eq : forall t, st_trim_start_matches_char t 47 = trim_start_matches_slash t.
Proof. induction t as [|c r IH]; [reflexivity|]. cbn. destruct (c =? 47); [exact IH|reflexivity]. Qed.

Lemma join_nl_eq : forall l, st_join [10] l = join_nl l.
Proof. induction l as [|x r IH]; [reflexivity|]. destruct r as [|y r']; [reflexivity|]. cbn [st_join join_nl] in *. now rewrite IH. Qed.

Lemma cur_leaf_facts : forall c l, cur_leaf c = Some l -> lf_kind l = rw_kind c /\ lf_text l = rw_text c.
Proof.
  intros [t ctx] l H. unfold cur_leaf in H. cbn [fst] in H. destruct t as [k cs|k txt]; [discriminate|].
  injection H as <-. split; reflexivity.
Qed.

Definition dstate : Type := (cursor * list text)%type.

(** one iteration of the doc-comment loop, on cursors, in the vocabulary of the rendering *)
Definition doc_step {R : Type} (cur : cursor) (cm : list text) : hm R dstate dstate :=
  t <- hcall (src_prev_token cur) ;;
  match t with
  | None => Brk (cur, cm)
  | Some c1 =>
      if negb (sk_eqb (rw_kind c1) S_Whitespace) || negb (Nat.eqb (st_count_char (rw_text c1) 10) 1%nat) then Brk (c1, cm)
      else
        t2 <- hcall (src_prev_token c1) ;;
        match t2 with
        | None => Brk (c1, cm)
        | Some c2 =>
            if negb (sk_eqb (rw_kind c2) S_LineComment) then Brk (c2, cm)
            else if negb (st_starts_with (rw_text c2) [47; 47]) then Brk (c2, cm)
            else Val (c2, cm ++ [st_trim_start (st_trim_start_matches_char (rw_text c2) 47)])
        end
  end.

(** the token the loop stands on when it breaks is not observable (it is not read after the loop) *)
Definition berase {R A : Type} (m : hm R dstate A) : hm R (list text) A :=
  match m with
  | Val a => Val a
  | Ret r => Ret r
  | Brk b => Brk (snd b)
  | Fuel => Fuel
  | Panic => Panic
  end.
Definition hsnd {R B : Type} (m : hm R B dstate) : hm R B (list text) :=
  match m with
  | Val a => Val (snd a)
  | Ret r => Ret r
  | Brk b => Brk b
  | Fuel => Fuel
  | Panic => Panic
  end.

Lemma doc_hloop : forall (R B : Type) (body : dstate -> hm R dstate dstate),
  (forall cur cm, berase (body (cur, cm)) = berase (doc_step cur cm)) ->
  forall fuel wfuel cur cm, (cur_measure cur < wfuel)%nat ->
  hsnd (@hloop R B dstate fuel body (cur, cm)) =
    match doc_loop fuel wfuel cur (rev cm) with Some acc => Val (rev acc) | None => Fuel end.
Proof.
  intros R B body Hb. induction fuel as [|f IH]; intros wfuel cur cm Hm; [reflexivity|].
  cbn [hloop doc_loop]. specialize (Hb cur cm). unfold doc_step in Hb.
  rewrite src_prev_token_eq, (prev_token_indep cur wfuel Hm) in Hb.
  pose proof (prev_token_terminates wfuel cur Hm) as T1.
  destruct (prev_token wfuel cur) as [c1| |] eqn:W1; cbn [outcome_of_walk hcall hbind] in Hb.
  2: { destruct (body (cur, cm)) as [a|r|b| |]; try discriminate. cbn [berase] in Hb. injection Hb as Hb.
       cbn [hsnd]. now rewrite Hb, rev_involutive. }
  2: contradiction.
  destruct (prev_token_found _ _ _ W1) as (l1 & Hl1 & _). rewrite Hl1.
  destruct (cur_leaf_facts _ _ Hl1) as (K1 & X1).
  unfold is_ws_one_newline. rewrite K1, X1, negb_andb. unfold count_nl. fold (st_count_char (rw_text c1) 10).
  destruct (negb (sk_eqb (rw_kind c1) S_Whitespace) || negb (Nat.eqb (st_count_char (rw_text c1) 10) 1%nat)).
  { destruct (body (cur, cm)) as [a|r|b| |]; try discriminate. cbn [berase] in Hb. injection Hb as Hb.
    cbn [hsnd]. now rewrite Hb, rev_involutive. }
  assert (cur_measure c1 < wfuel)%nat as Hm1 by lia.
  rewrite src_prev_token_eq, (prev_token_indep c1 wfuel Hm1) in Hb.
  pose proof (prev_token_terminates wfuel c1 Hm1) as T2.
  destruct (prev_token wfuel c1) as [c2| |] eqn:W2; cbn [outcome_of_walk hcall hbind] in Hb.
  2: { destruct (body (cur, cm)) as [a|r|b| |]; try discriminate. cbn [berase] in Hb. injection Hb as Hb.
       cbn [hsnd]. now rewrite Hb, rev_involutive. }
  2: contradiction.
  destruct (prev_token_found _ _ _ W2) as (l2 & Hl2 & _). rewrite Hl2.
  destruct (cur_leaf_facts _ _ Hl2) as (K2 & X2). rewrite K2, X2, <- starts_with_slashes_eq.
  destruct (negb (sk_eqb (rw_kind c2) S_LineComment)).
  { destruct (body (cur, cm)) as [a|r|b| |]; try discriminate. cbn [berase] in Hb. injection Hb as Hb.
    cbn [hsnd]. now rewrite Hb, rev_involutive. }
  destruct (negb (st_starts_with (rw_text c2) [47; 47])).
  { destruct (body (cur, cm)) as [a|r|b| |]; try discriminate. cbn [berase] in Hb. injection Hb as Hb.
    cbn [hsnd]. now rewrite Hb, rev_involutive. }
  destruct (body (cur, cm)) as [a|r|b| |]; try discriminate. cbn [berase] in Hb. injection Hb as ->.
  rewrite (IH wfuel c2 _ ltac:(lia)). rewrite rev_unit. unfold comment_text, st_trim_start. now rewrite trim_slashes_eq.
Qed.

Lemma kind_chain2 : forall (A : Type) (k : SyntaxKind) (a b c : A),
  match k with S_Id => a | S_Identifier => b | _ => c end =
  if sk_eqb k S_Id then a else if sk_eqb k S_Identifier then b else c.
Proof. intros A k a b c. destruct k; reflexivity. Qed.

Lemma covering_root_eq : forall root lo hi, rw_covering_element (cur_root root) (lo, hi) = covering_element root lo hi.
Proof.
  intros root lo hi. unfold rw_covering_element, covering_element, cur_root, cur_offset. cbn [fst snd before_ctx].
  change (forest_len []) with 0. rewrite N.add_0_l. destruct lo; reflexivity.
Qed.

(** destruct every atomic test / call both sides are built from *)
Ltac crunch :=
  repeat (cbn [hcall hbind berase fst snd htry];
          match goal with
          | |- context [src_prev_token ?x] => destruct (src_prev_token x) as [[?|]| |]
          | |- context [sk_eqb ?a ?b] => destruct (sk_eqb a b)
          | |- context [Nat.eqb ?a ?b] => destruct (Nat.eqb a b)
          | |- context [st_starts_with ?a ?b] => destruct (st_starts_with a b)
          end);
  cbn [hcall hbind berase fst snd htry negb orb andb]; try reflexivity.

Definition outcome_of_doc (d : doc_result) : outcome (option text) :=
  match d with
  | DocSome t => Done (Some t)
  | DocNone => Done None
  | DocOutOfFuel => OutOfFuel
  end.

Theorem src_extract_doc_comments_eq : forall root lo hi,
  src_extract_doc_comments (cur_root root) (lo, hi) =
    match covering_element root lo hi with
    | None => Panicked                                     (* rowan's assertion: outside the contract of the handler *)
    | Some _ => outcome_of_doc (extract_doc_comments root lo hi)
    end.
Proof.
  intros root lo hi. unfold src_extract_doc_comments, extract_doc_comments, decl_first_token, decl_node.
  rewrite covering_root_eq. destruct (covering_element root lo hi) as [idn|]; [|reflexivity].
  cbn [hassert hbind]. rewrite kind_chain2. unfold rw_kind, rw_parent, rw_into_node, rw_first_token.
  destruct (sk_eqb (kind_of (fst idn)) S_Id).
  - destruct (parent idn) as [idc|]; [|reflexivity]. cbn [htry hbind].
    destruct (parent idc) as [p|]; [|reflexivity]. cbn [htry hbind].
    destruct (sk_eqb (kind_of (fst p)) S_InnerValue).
    + destruct (parent p) as [v|]; [|reflexivity]. cbn [htry hbind].
      destruct (parent v) as [d|]; [|reflexivity]. cbn [htry hbind].
      destruct (first_token (fst d) (snd d)) as [c|]; [|reflexivity]. cbn [htry hbind].
      match goal with |- context [hloop ?fu ?b ?st] =>
        assert (hsnd (hloop fu b st) =
                match doc_loop (S (length (leaves_before c))) (S (cur_measure c)) c (rev []) with
                | Some acc => Val (rev acc) | None => Fuel end) as HL
          by (apply (doc_hloop (option text) Empty_set b); [intros cur cm; unfold doc_step, rw_kind; crunch|lia]);
        revert HL; destruct (hloop fu b st) as [a|r|[]| |] end;
        cbn [hsnd rev]; destruct (doc_loop _ _ c []) as [acc|]; intros HL; try discriminate; try reflexivity.
      injection HL as HL. cbn [hbind hrun]. rewrite HL, rev_involutive, join_nl_eq. unfold render_doc, st_is_empty.
      destruct (join_nl acc); reflexivity.
    + cbn [hbind]. destruct (first_token (fst p) (snd p)) as [c|]; [|reflexivity]. cbn [htry hbind].
      match goal with |- context [hloop ?fu ?b ?st] =>
        assert (hsnd (hloop fu b st) =
                match doc_loop (S (length (leaves_before c))) (S (cur_measure c)) c (rev []) with
                | Some acc => Val (rev acc) | None => Fuel end) as HL
          by (apply (doc_hloop (option text) Empty_set b); [intros cur cm; unfold doc_step, rw_kind; crunch|lia]);
        revert HL; destruct (hloop fu b st) as [a|r|[]| |] end;
        cbn [hsnd rev]; destruct (doc_loop _ _ c []) as [acc|]; intros HL; try discriminate; try reflexivity.
      injection HL as HL. cbn [hbind hrun]. rewrite HL, rev_involutive, join_nl_eq. unfold render_doc, st_is_empty.
      destruct (join_nl acc); reflexivity.
  - destruct (sk_eqb (kind_of (fst idn)) S_Identifier); [|reflexivity].
    destruct (is_node (fst idn)); [|reflexivity]. cbn [htry hbind].
    destruct (parent idn) as [p|]; [|reflexivity]. cbn [htry hbind].
    destruct (sk_eqb (kind_of (fst p)) S_InnerValue).
    + destruct (parent p) as [v|]; [|reflexivity]. cbn [htry hbind].
      destruct (parent v) as [d|]; [|reflexivity]. cbn [htry hbind].
      destruct (first_token (fst d) (snd d)) as [c|]; [|reflexivity]. cbn [htry hbind].
      match goal with |- context [hloop ?fu ?b ?st] =>
        assert (hsnd (hloop fu b st) =
                match doc_loop (S (length (leaves_before c))) (S (cur_measure c)) c (rev []) with
                | Some acc => Val (rev acc) | None => Fuel end) as HL
          by (apply (doc_hloop (option text) Empty_set b); [intros cur cm; unfold doc_step, rw_kind; crunch|lia]);
        revert HL; destruct (hloop fu b st) as [a|r|[]| |] end;
        cbn [hsnd rev]; destruct (doc_loop _ _ c []) as [acc|]; intros HL; try discriminate; try reflexivity.
      injection HL as HL. cbn [hbind hrun]. rewrite HL, rev_involutive, join_nl_eq. unfold render_doc, st_is_empty.
      destruct (join_nl acc); reflexivity.
    + cbn [hbind]. destruct (first_token (fst p) (snd p)) as [c|]; [|reflexivity]. cbn [htry hbind].
      match goal with |- context [hloop ?fu ?b ?st] =>
        assert (hsnd (hloop fu b st) =
                match doc_loop (S (length (leaves_before c))) (S (cur_measure c)) c (rev []) with
                | Some acc => Val (rev acc) | None => Fuel end) as HL
          by (apply (doc_hloop (option text) Empty_set b); [intros cur cm; unfold doc_step, rw_kind; crunch|lia]);
        revert HL; destruct (hloop fu b st) as [a|r|[]| |] end;
        cbn [hsnd rev]; destruct (doc_loop _ _ c []) as [acc|]; intros HL; try discriminate; try reflexivity.
      injection HL as HL. cbn [hbind hrun]. rewrite HL, rev_involutive, join_nl_eq. unfold render_doc, st_is_empty.
      destruct (join_nl acc); reflexivity.
Qed.

(** ================= packaged ================= *)
Theorem c18_model_is_source :
  (forall c, src_range_excluding_trivia c = range_excluding_trivia (cur_offset c) (fst c)) /\
  (forall db f, src_folding_exec db f = Some (folding_model (db f))).
Proof. split; [exact src_range_excluding_trivia_eq|exact src_folding_exec_eq]. Qed.

Theorem c19_model_is_source :
  (forall c, src_prev_token c = outcome_of_walk (prev_token (S (cur_measure c)) c)) /\
  (forall c, src_prev_token c <> OutOfFuel) /\
  (forall root lo hi,
     src_extract_doc_comments (cur_root root) (lo, hi) =
       match covering_element root lo hi with
       | None => Panicked
       | Some _ => outcome_of_doc (extract_doc_comments root lo hi)
       end).
Proof. split; [exact src_prev_token_eq|]. split; [exact src_prev_token_total|exact src_extract_doc_comments_eq]. Qed.

(** the theorems about the models, restated over the rendering of the source *)
Theorem c18_source_fold : forall db f,
  exists rs, src_folding_exec db f = Some rs /\ Forall2 fold_spec (filter fold_node (descendants (db f))) rs.
Proof. intros db f. exists (folding_model (db f)). split; [apply src_folding_exec_eq|apply fold_one_to_one]. Qed.

Theorem c19_source_doc : forall root lo hi, covering_element root lo hi <> None ->
  src_extract_doc_comments (cur_root root) (lo, hi) =
    match decl_first_token root lo hi with
    | Some d => match doc_spec (leaves_before d) with DocSome t => Done (Some t) | _ => Done None end
    | None => Done None
    end.
Proof.
  intros root lo hi H. rewrite src_extract_doc_comments_eq. destruct (covering_element root lo hi); [|congruence].
  rewrite extract_doc_correct. destruct (decl_first_token root lo hi) as [d|]; [|reflexivity].
  unfold doc_spec, render_doc. destruct (join_nl _); reflexivity.
Qed.
