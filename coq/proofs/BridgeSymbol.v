(** The bridge and group symmap's side conditions (model/SymbolWf.v), tied inside Coq:
    - [ws_id_toks_sorted]      the identifier-token list computed from ANY list of trees satisfies [toks_sorted]
                               (the hypothesis of C06_coherent / C06_total / C03 on the token list);
    - [core_ident_tok_name]    every (non-empty) identifier of the CoreAst the bridge produces for file k is found by
                               [tok_name] in that list, with its name (what [op_coh_ok] / [def_ok] test for the
                               ranges and names the indexer passes to the symbol map);
    - [core_ranges_range_valid] every range of the CoreAst satisfies [range_valid] against the workspace texts (the
                               side condition [op_range_ok] of C17).
    Uses (read-only) SymbolCoh.v / SymbolRangesTree.v of group symmap. *)
From Coq Require Import List NArith Bool String PeanoNat Lia.
From TG.Gen Require Import GenTokens GenAst GenGrammar.
From TG.Model Require Import Chars Lexer Prep Tree TreeNav ParserPrims GInterp AstAccess CoreAst AstToCore CoreParts.
From TG.Model Require Import SymbolMap SymbolWf BridgeToks Pipeline.
From TG.Proofs Require Import ParserTile GTile ParserTop SymbolMapBasics SymbolCoh SymbolRangesTree BridgeProofs BridgeText ShapeSound PipelineProofs IdNonEmpty.
Import ListNotations.
Close Scope string_scope.
Open Scope N_scope.
Open Scope list_scope.

(** * toks_sorted for the tokens of any trees *)
Lemma sel_running f : forall ls off, running off ls ->
  toks_sorted (sel_id_toks f ls) = true /\
  Forall (fun tk : tok => fr_file (fst tk) = f /\ off <= fr_lo (fst tk)) (sel_id_toks f ls).
Proof.
  induction ls as [|[[[k lo] hi] tx] r IH]; intros off R; [split; [reflexivity|constructor]|].
  cbn [running] in R. destruct R as (-> & -> & R). destruct (IH _ R) as (S & F).
  unfold sel_id_toks in *. cbn [flat_map]. fold (sel_id_toks f r) in *.
  assert (F' : Forall (fun tk : tok => fr_file (fst tk) = f /\ off <= fr_lo (fst tk)) (sel_id_toks f r)).
  { eapply Forall_impl; [|exact F]. cbv beta. intros tk (HA & HB). split; [exact HA|lia]. }
  destruct (sk_eqb k S_Id && (off <? off + bytes tx)) eqn:C; cbn [app]; [|split; assumption].
  apply andb_true_iff in C. destruct C as [_ C]. split.
  - cbn [toks_sorted fr_lo fr_hi]. rewrite C, S. cbn [andb]. rewrite andb_true_r.
    destruct (sel_id_toks f r) as [|[r' n'] q]; [reflexivity|]. pose proof (Forall_inv F) as (HA & HB). cbn [fst] in HA, HB.
    unfold tok_before. cbn [fr_file fr_lo fr_hi]. rewrite HA, N.eqb_refl. cbn [andb].
    apply orb_true_iff. right. apply N.leb_le. exact HB.
  - constructor; [cbn [fst fr_file fr_lo]; split; [reflexivity|lia]|exact F'].
Qed.

Lemma id_toks_of_sorted f t :
  toks_sorted (id_toks_of f t) = true /\ Forall (fun tk : tok => fr_file (fst tk) = f) (id_toks_of f t).
Proof.
  destruct (leaves_from_spec t 0) as (_ & R & _). destruct (sel_running f _ _ R) as (S & F).
  split; [exact S|]. eapply Forall_impl; [|exact F]. cbv beta. tauto.
Qed.

Lemma toks_sorted_app : forall a b,
  toks_sorted a = true -> toks_sorted b = true ->
  (forall x y, In x a -> In y b -> tok_before (fst x) (fst y) = true) -> toks_sorted (a ++ b) = true.
Proof.
  induction a as [|[r n] a IH]; intros b Sa Sb H; [exact Sb|].
  cbn [app]. cbn [toks_sorted] in Sa |- *. apply andb_true_iff in Sa. destruct Sa as [Sa1 Sa2].
  apply andb_true_iff in Sa1. destruct Sa1 as [Ne Adj]. rewrite Ne. cbn [andb].
  rewrite (IH b Sa2 Sb (fun x y Hx Hy => H x y (or_intror Hx) Hy)), andb_true_r.
  destruct a as [|[r2 n2] a']; cbn [app].
  - destruct b as [|[r3 n3] b']; [reflexivity|]. apply (H (r, n) (r3, n3)); left; reflexivity.
  - exact Adj.
Qed.

Lemma ws_id_toks_from_files : forall trees f, Forall (fun tk : tok => f <= fr_file (fst tk)) (ws_id_toks_from f trees).
Proof.
  induction trees as [|t r IH]; intros f; cbn [ws_id_toks_from]; [constructor|]. apply Forall_app. split.
  - destruct (id_toks_of_sorted f t) as (_ & F). eapply Forall_impl; [|exact F]. cbv beta. intros tk ->. lia.
  - eapply Forall_impl; [|apply (IH (f + 1))]. cbv beta. intros tk H. lia.
Qed.

Theorem ws_id_toks_from_sorted : forall trees f, toks_sorted (ws_id_toks_from f trees) = true.
Proof.
  induction trees as [|t r IH]; intros f; cbn [ws_id_toks_from]; [reflexivity|].
  destruct (id_toks_of_sorted f t) as (S & F). apply toks_sorted_app; [exact S|apply IH|].
  intros x y Hx Hy. rewrite Forall_forall in F. pose proof (F x Hx) as Fx.
  pose proof (ws_id_toks_from_files r (f + 1)) as G. rewrite Forall_forall in G. pose proof (G y Hy) as Gy. cbv beta in Gy.
  unfold tok_before. apply orb_true_iff. left. apply N.ltb_lt. lia.
Qed.

(** THE hypothesis of C06/C03 on the token list holds for the tokens of ANY trees *)
Theorem ws_id_toks_sorted : forall trees, toks_sorted (ws_id_toks trees) = true.
Proof. intros trees. apply ws_id_toks_from_sorted. Qed.

(** * tok_name finds every listed token *)
Lemma tok_before_irrefl r : fr_lo r < fr_hi r -> tok_before r r = false.
Proof.
  intros H. unfold tok_before. rewrite N.ltb_irrefl, N.eqb_refl. cbn [orb andb]. apply N.leb_gt. exact H.
Qed.

Lemma tok_name_of_in : forall toks r n, toks_sorted toks = true -> In (r, n) toks -> tok_name toks r = Some n.
Proof.
  induction toks as [|[r' n'] toks IH]; intros r n S H; [contradiction|]. cbn [tok_name].
  destruct (fr_eqb r' r) eqn:E.
  - apply fr_eqb_eq in E. subst r'. destruct H as [H|H]; [inversion H; reflexivity|]. exfalso.
    pose proof (toks_sorted_head _ _ _ S _ _ H) as B.
    assert (Ne : fr_lo r < fr_hi r).
    { cbn [toks_sorted] in S. apply andb_true_iff in S. destruct S as [S _]. apply andb_true_iff in S. destruct S as [S _].
      apply N.ltb_lt. exact S. }
    rewrite (tok_before_irrefl r Ne) in B. discriminate.
  - destruct H as [H|H]; [inversion H; subst; rewrite (proj2 (fr_eqb_eq r r) eq_refl) in E; discriminate|].
    apply IH; [eapply toks_sorted_tail; exact S|exact H].
Qed.

Lemma in_ws_id_toks : forall trees f k t tk, nth_error trees k = Some t -> In tk (id_toks_of (f + N.of_nat k) t) ->
  In tk (ws_id_toks_from f trees).
Proof.
  induction trees as [|t0 r IH]; intros f k t tk Hn Hi; destruct k as [|k]; cbn [nth_error] in Hn; try discriminate;
    cbn [ws_id_toks_from]; apply in_or_app.
  - inversion Hn; subst. left. rewrite N.add_0_r in Hi. exact Hi.
  - right. apply (IH (f + 1) k t tk Hn). replace (f + 1 + N.of_nat k) with (f + N.of_nat (S k)) by lia. exact Hi.
Qed.

Lemma leaf_in_id_toks f t lo hi nm : In (S_Id, lo, hi, nm) (leaves t) -> lo < hi -> In (mkFR f lo hi, nm) (id_toks_of f t).
Proof.
  intros H L. unfold id_toks_of, sel_id_toks. apply in_flat_map. exists (S_Id, lo, hi, nm). split; [exact H|].
  replace (sk_eqb S_Id S_Id) with true by reflexivity. rewrite (proj2 (N.ltb_lt lo hi) L). left. reflexivity.
Qed.

(** every identifier of the CoreAst of file k (parsed with the current grammar) is non-empty and an entry of the
    workspace's identifier-token list, found by [tok_name] with its name *)
Theorem core_ident_tok_name : forall trees k fuel txt t errs st links ss,
  nth_error trees k = Some t ->
  parse_with fuel grammar_prog grammar_entry txt = ParseOk t errs st ->
  core_of_tree (N.of_nat k) links t = Ok ss ->
  Forall (fun i => r_lo (i_rng i) < r_hi (i_rng i) /\
                   tok_name (ws_id_toks trees) (mkFR (r_file (i_rng i)) (r_lo (i_rng i)) (r_hi (i_rng i))) = Some (i_name i))
         (file_idents ss).
Proof.
  intros trees k fuel txt t errs st links ss Hn P E.
  eapply Forall_impl; [|eapply core_idents_are_id_tokens_parsed; eauto]. cbv beta. intros i (F & L).
  destruct (parse_id_nonempty _ _ _ _ _ _ _ P _ _ _ L) as (_ & Ne). split; [exact Ne|].
  apply tok_name_of_in; [apply ws_id_toks_sorted|]. rewrite F.
  eapply (in_ws_id_toks trees 0 k t); [exact Hn|]. rewrite N.add_0_l. apply leaf_in_id_toks; assumption.
Qed.

(** * range_valid (C17's side condition) for every range of the CoreAst *)
Theorem core_ranges_range_valid : forall fuel txt t errs st ws file links ss,
  fmap_get ws file = Some txt ->
  parse_with fuel grammar_prog grammar_entry txt = ParseOk t errs st ->
  core_of_tree file links t = Ok ss ->
  Forall (fun r => range_valid ws (mkFR (r_file r) (r_lo r) (r_hi r)) = true) (file_rngs ss).
Proof.
  intros fuel txt t errs st ws file links ss Hf P E.
  destruct (c17_parse_ranges_valid _ _ _ _ _ _ _ Hf P) as (_ & HD & HL & _).
  eapply Forall_impl; [|eapply core_ranges_in_tree; exact E]. cbv beta. intros r (F & [(n & Hn)|(k & tx & Hl)]); rewrite F.
  - eapply HD. exact Hn.
  - apply (HL (k, r_lo r, r_hi r, tx)). exact Hl.
Qed.

(** * The pipeline: the identifier tokens and the workspace texts of an analysis *)
Definition an_trees (a : analysis) : list tree :=
  map (fun fp : N * pfile => match pf_tree (snd fp) with Some t => t | None => Node S_Error [] end) (an_files a).
Definition an_texts (a : analysis) : list wtext :=
  map (fun kfp : N * (N * pfile) => (fst kfp, pf_text (snd (snd kfp)))) (number_from 0 (an_files a)).

Lemma fmap_get_numbered : forall (l : list (N * pfile)) s k f p, nth_error l k = Some (f, p) ->
  fmap_get (map (fun kfp : N * (N * pfile) => (fst kfp, pf_text (snd (snd kfp)))) (number_from s l)) (s + N.of_nat k) = Some (pf_text p).
Proof.
  induction l as [|[f0 p0] l IH]; intros s k f p H; destruct k as [|k]; cbn [nth_error] in H; try discriminate;
    cbn [number_from map fst snd fmap_get].
  - inversion H; subst. rewrite N.add_0_r, N.eqb_refl. reflexivity.
  - replace (s =? s + N.of_nat (S k)) with false by (symmetry; apply N.eqb_neq; lia).
    replace (s + N.of_nat (S k)) with (s + 1 + N.of_nat k) by lia. eapply IH. exact H.
Qed.

(** For EVERY analysis that yields a Core workspace: the identifier-token list computed from its trees satisfies
    symmap's [toks_sorted]; every identifier of the workspace's CoreAst is non-empty and found in it by [tok_name]
    with its name; every range of the CoreAst is [range_valid] against the workspace texts. *)
Theorem pipeline_symbol_side_conditions : forall pfuel cfuel files root a w,
  analyze pfuel cfuel files root = Some a -> an_core a = Ok w ->
  toks_sorted (ws_id_toks (an_trees a)) = true /\
  forall k fl, nth_error (ws_files w) k = Some fl ->
    Forall (fun i => r_lo (i_rng i) < r_hi (i_rng i) /\
                     tok_name (ws_id_toks (an_trees a)) (mkFR (r_file (i_rng i)) (r_lo (i_rng i)) (r_hi (i_rng i))) = Some (i_name i))
           (file_idents fl) /\
    Forall (fun r => range_valid (an_texts a) (mkFR (r_file r) (r_lo r) (r_hi r)) = true) (file_rngs fl).
Proof.
  intros pfuel cfuel files root a w A E. split; [apply ws_id_toks_sorted|].
  destruct (analyze_assemble _ _ _ _ _ A) as (ids & dl & wsf & -> & L & OKs).
  intros k fl Hk. destruct (assemble_nth _ _ _ _ _ _ E Hk) as (f & p & Hw & C).
  rewrite Forall_forall in OKs. destruct (OKs (f, p) (nth_error_In _ _ Hw)) as (fuel & PO). cbn [snd] in PO.
  unfold core_of_pfile in C. cbn [fst snd] in C. unfold pf_tree in C.
  destruct (pf_out p) as [t es st| |] eqn:O; try discriminate. symmetry in PO.
  assert (HT : nth_error (an_trees (assemble ids dl wsf)) k = Some t).
  { unfold an_trees. change (an_files (assemble ids dl wsf)) with wsf. rewrite nth_error_map, Hw. cbn [option_map snd].
    unfold pf_tree. rewrite O. reflexivity. }
  split.
  - eapply core_ident_tok_name; [exact HT|exact PO|exact C].
  - eapply core_ranges_range_valid; [|exact PO|exact C].
    unfold an_texts. change (an_files (assemble ids dl wsf)) with wsf.
    pose proof (fmap_get_numbered wsf 0 k f p Hw) as G. rewrite N.add_0_l in G. exact G.
Qed.
