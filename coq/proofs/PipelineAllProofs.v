(** Proofs about the complete analysis (model/PipelineAll.v).

    [full_state_conservative]: the joined symbol map has the interval maps, the index diagnostics and -- arena by arena,
    entry by entry -- the define_loc and reference_locs of IndexerOps.abs (b-symmap's abstraction of the indexer model);
    only names, payloads, name maps and per-file symbol lists are added.  Hence every query that reads positions,
    define_locs and reference_locs (find_symbol_at, goto_definition, references, iter_symbols_in_range) answers on the
    joined state exactly what it answers on [abs]: the theorems of C03 / C06 / C09 / C17 about
    [IndexerOps.abs (Indexer.index_ws w)] transfer to [aa_sm].
    [analyze_all_some]: analyze_all answers whenever analyze yields a Core workspace, with the fields it promises. *)
From Coq Require Import List NArith Bool Lia.
From TG.Gen Require Import GenTokens GenGrammar.
From TG.Model Require Import Chars Tree ParserPrims GInterp CoreAst AstToCore Scope Indexer Pipeline PipelineAll.
From TG.Model Require SymbolMap SymbolWf IndexerOps OutlineIndex Folding.
Import ListNotations.
Open Scope N_scope.

Module SM := SymbolMap.

(** what the position-reading queries see of an entry *)
Definition core (e : SM.entry) : SM.file_range * list SM.file_range := (SM.e_def e, SM.e_refs e).

Record same_core (S T : SM.symbol_map) : Prop := {
  sc_pos : SM.sm_pos S = SM.sm_pos T;
  sc_diags : SM.sm_diags S = SM.sm_diags T;
  sc_arena : forall k, map core (SM.get_arena S k) = map core (SM.get_arena T k) }.

Lemma same_core_entry : forall S T s, same_core S T ->
  match SM.get_entry S s, SM.get_entry T s with
  | Some e, Some e' => core e = core e'
  | None, None => True
  | _, _ => False
  end.
Proof.
  intros S T [k i] H. unfold SM.get_entry, SM.nth_N. cbn [fst snd].
  pose proof (sc_arena _ _ H k) as HA.
  assert (G : nth_error (map core (SM.get_arena S k)) (N.to_nat i) = nth_error (map core (SM.get_arena T k)) (N.to_nat i))
    by (rewrite HA; reflexivity).
  rewrite !nth_error_map in G.
  destruct (nth_error (SM.get_arena S k) (N.to_nat i)), (nth_error (SM.get_arena T k) (N.to_nat i)); cbn in G;
    try discriminate; [injection G as G1 G2; unfold core; rewrite G1, G2; reflexivity|exact I].
Qed.

Lemma same_core_find_id : forall S T f p, same_core S T -> SM.find_symbol_id_at S f p = SM.find_symbol_id_at T f p.
Proof. intros S T f p H. unfold SM.find_symbol_id_at. rewrite (sc_pos _ _ H). reflexivity. Qed.

Theorem same_core_goto : forall S T f p, same_core S T -> SM.goto_definition S f p = SM.goto_definition T f p.
Proof.
  intros S T f p H. unfold SM.goto_definition, SM.find_symbol_at. rewrite (same_core_find_id _ _ f p H).
  destruct (SM.find_symbol_id_at T f p) as [s|]; [|reflexivity].
  unfold SM.symbol. pose proof (same_core_entry _ _ s H) as E.
  destruct (SM.get_entry S s) as [e|], (SM.get_entry T s) as [e'|]; [|contradiction|contradiction|reflexivity].
  cbn. injection E as E1 E2. rewrite E1. reflexivity.
Qed.

Theorem same_core_references : forall S T f p, same_core S T -> SM.references S f p = SM.references T f p.
Proof.
  intros S T f p H. unfold SM.references, SM.find_symbol_at. rewrite (same_core_find_id _ _ f p H).
  destruct (SM.find_symbol_id_at T f p) as [s|]; [|reflexivity].
  unfold SM.symbol. pose proof (same_core_entry _ _ s H) as E.
  destruct (SM.get_entry S s) as [e|], (SM.get_entry T s) as [e'|]; [|contradiction|contradiction|reflexivity].
  cbn. injection E as E1 E2. rewrite E2. reflexivity.
Qed.

Theorem same_core_iter : forall S T loc, same_core S T -> SM.iter_symbols_in_range S loc = SM.iter_symbols_in_range T loc.
Proof.
  intros S T loc H. unfold SM.iter_symbols_in_range, SM.iter_symbols_in_range_g. rewrite (sc_pos _ _ H). reflexivity.
Qed.

(** ---- the join keeps define_loc and reference_locs of its first argument, whatever the second *)
Lemma join_arena_core : forall l1 l2, map core (fst (join_arena l1 l2)) = map core l1.
Proof.
  induction l1 as [|e1 r1 IH]; intros [|e2 r2]; cbn [join_arena]; try reflexivity.
  specialize (IH r2). destruct (join_arena r1 r2) as [r ok]. cbn [fst map] in *. rewrite IH. reflexivity.
Qed.

Lemma var_entries_core : forall s, map core (var_entries s) = map core (IndexerOps.arena_leaves s LVar).
Proof.
  intros s. unfold var_entries, IndexerOps.arena_leaves. rewrite !map_map. apply map_ext. intros p. reflexivity.
Qed.

Lemma push_file_syms_frame : forall (l : list (SM.fileid * SM.symbol_id)) S,
  let S' := fold_left (fun S x => SM.push_file_sym S (fst x) (snd x)) l S in
  SM.sm_pos S' = SM.sm_pos S /\ SM.sm_diags S' = SM.sm_diags S /\ (forall k, SM.get_arena S' k = SM.get_arena S k) /\
  SM.sm_name_to_class S' = SM.sm_name_to_class S.
Proof.
  induction l as [|x l IH]; intros S; cbn [fold_left].
  - repeat split; reflexivity.
  - destruct (IH (SM.push_file_sym S (fst x) (snd x))) as (H1 & H2 & H3 & H4). cbv zeta.
    split; [rewrite H1; reflexivity|]. split; [rewrite H2; reflexivity|]. split; [|rewrite H4; reflexivity].
    intros k. rewrite H3. destruct k; reflexivity.
Qed.

Theorem full_state_conservative : forall s o, same_core (fst (full_state s o)) (IndexerOps.abs s).
Proof.
  intros s o. unfold full_state.
  set (S1 := IndexerOps.absN s). set (S2 := OutlineIndex.oi_sm o).
  pose proof (join_arena_core (SM.sm_records S1) (SM.sm_records S2)) as J1.
  pose proof (join_arena_core (SM.sm_targs S1) (SM.sm_targs S2)) as J2.
  pose proof (join_arena_core (SM.sm_fields S1) (SM.sm_fields S2)) as J3.
  pose proof (join_arena_core (SM.sm_defsets S1) (SM.sm_defsets S2)) as J4.
  pose proof (join_arena_core (SM.sm_multiclasses S1) (SM.sm_multiclasses S2)) as J5.
  destruct (join_arena (SM.sm_records S1) (SM.sm_records S2)) as [recs ok1].
  destruct (join_arena (SM.sm_targs S1) (SM.sm_targs S2)) as [targs ok2].
  destruct (join_arena (SM.sm_fields S1) (SM.sm_fields S2)) as [fields ok3].
  destruct (join_arena (SM.sm_defsets S1) (SM.sm_defsets S2)) as [dsets ok4].
  destruct (join_arena (SM.sm_multiclasses S1) (SM.sm_multiclasses S2)) as [mcs ok5].
  cbn [fst] in *.
  match goal with |- same_core (fold_left _ ?l ?S3) _ => destruct (push_file_syms_frame l S3) as (H1 & H2 & H3 & _) end.
  cbv zeta in H1, H2, H3. split.
  - rewrite H1. reflexivity.
  - rewrite H2. reflexivity.
  - intros k. rewrite H3. destruct k; cbn [SM.get_arena SM.sm_records SM.sm_targs SM.sm_fields SM.sm_vars SM.sm_defsets
                                             SM.sm_multiclasses SM.sm_defms IndexerOps.abs].
    + exact J1.
    + exact J2.
    + exact J3.
    + apply var_entries_core.
    + exact J4.
    + exact J5.
    + reflexivity.
Qed.

(** ---- analyze_all answers whenever analyze yields a Core workspace *)
Theorem analyze_all_some : forall pfuel cfuel files root a w,
  analyze pfuel cfuel files root = Some a -> an_core a = Ok w ->
  exists A, analyze_all pfuel cfuel files root = Some A /\
    aa_an A = a /\ aa_ws A = w /\ aa_st A = index_ws w /\
    aa_sm A = fst (full_state (index_ws w) (OutlineIndex.oix w)) /\
    aa_trees A = map (fun fp : N * pfile => pf_tree (snd fp)) (an_files a).
Proof.
  intros pfuel cfuel files root a w HA HC. unfold analyze_all. rewrite HA, HC.
  destruct (full_state (index_ws w) (OutlineIndex.oix w)) as [sm ok] eqn:F.
  eexists. split; [reflexivity|]. cbn. repeat split; reflexivity.
Qed.

Theorem analyze_all_inv : forall pfuel cfuel files root A,
  analyze_all pfuel cfuel files root = Some A ->
  analyze pfuel cfuel files root = Some (aa_an A) /\ an_core (aa_an A) = Ok (aa_ws A) /\
  aa_st A = index_ws (aa_ws A) /\
  aa_sm A = fst (full_state (index_ws (aa_ws A)) (OutlineIndex.oix (aa_ws A))) /\
  aa_trees A = map (fun fp : N * pfile => pf_tree (snd fp)) (an_files (aa_an A)) /\
  aa_diags A = map (fun kp : N * (N * pfile) => diags_of_file (aa_an A) (aa_st A) (fst kp)) (number_from 0 (an_files (aa_an A))).
Proof.
  intros pfuel cfuel files root A H. unfold analyze_all in H.
  destruct (analyze pfuel cfuel files root) as [a|]; [|discriminate].
  destruct (an_core a) as [w| |] eqn:HC; try discriminate.
  destruct (full_state (index_ws w) (OutlineIndex.oix w)) as [sm ok] eqn:F.
  inversion H; subst A; clear H. cbn. rewrite F. repeat split; try reflexivity. exact HC.
Qed.

(** the symbol-map queries on the joined state are the queries on [abs] *)
Theorem q_sm_is_abs : forall pfuel cfuel files root A,
  analyze_all pfuel cfuel files root = Some A ->
  let S := IndexerOps.abs (index_ws (aa_ws A)) in
  (forall f p, q_goto_sm A f p = SM.goto_definition S f p) /\
  (forall f p, q_references_sm A f p = SM.references S f p) /\
  (forall loc, SM.iter_symbols_in_range (aa_sm A) loc = SM.iter_symbols_in_range S loc) /\
  SM.sm_diags (aa_sm A) = SM.sm_diags S.
Proof.
  intros pfuel cfuel files root A H S. destruct (analyze_all_inv _ _ _ _ _ H) as (_ & _ & _ & E & _).
  pose proof (full_state_conservative (index_ws (aa_ws A)) (OutlineIndex.oix (aa_ws A))) as C. rewrite <- E in C.
  unfold q_goto_sm, q_references_sm. split; [|split; [|split]].
  - intros f p. apply same_core_goto. exact C.
  - intros f p. apply same_core_references. exact C.
  - intros loc. apply same_core_iter. exact C.
  - exact (sc_diags _ _ C).
Qed.
