(** ScopeSimStmtT: the parts of ScopeSimStmt.v the typed development needs (spec equations, same_globals, BM_stmts). *)
From Coq Require Import List NArith Bool Lia Arith.
From TG.Model Require Import CoreAst Scope BangOps Indexer .
From TG.Model Require Import ScopeSpecT.
From TG.Proofs Require Import ScopeBalance ScopeFrame GenericResp.
From TG.Proofs Require Import ScopeSimT.
Import ListNotations.
Open Scope N_scope.

Fixpoint fragA_stmt (x : stmt) : bool :=
  let stmts := fix go (l : list stmt) : bool := match l with [] => true | y :: r => fragA_stmt y && go r end in
  match x with
  | SAssert c m => frag_value c && frag_value m
  | SDefvar _ v | SDump v => frag_value v
  | SForeach _ init b => match init with FeRange => true | FeValue v => frag_value v end && stmts b
  | SIf c th el => frag_value c && stmts th && match el with Some b => stmts b | None => true end
  | SLet vs b => forallb frag_value vs && stmts b
  | _ => false
  end.
Fixpoint fragA_stmts (l : list stmt) : bool :=
  match l with [] => true | y :: r => fragA_stmt y && fragA_stmts r end.

(** the specification's statement list as a top-level function *)
Lemma spec_stmts_cons : forall f e y r,
    spec_stmts f e (y :: r)
    = let '(ev1, e1) := spec_stmt f e y in let '(ev2, e2) := spec_stmts f e1 r in (ev1 ++ ev2, e2).
Proof. reflexivity. Qed.

(** block statements do not touch the global tables of the environment *)
Definition same_globals (e e' : env) : Prop :=
  e_cls e' = e_cls e /\ e_mcs e' = e_mcs e /\ e_defs e' = e_defs e /\ e_dsets e' = e_dsets e.
Lemma same_globals_refl : forall e, same_globals e e. Proof. intros; repeat split. Qed.
Lemma same_globals_trans : forall a b c, same_globals a b -> same_globals b c -> same_globals a c.
Proof. intros a b c (A1 & A2 & A3 & A4) (B1 & B2 & B3 & B4). repeat split; congruence. Qed.
Lemma same_globals_add_var : forall e n r, same_globals e (add_var e n r).
Proof. intros. unfold add_var. destruct (e_frames e); repeat split. Qed.
Lemma same_globals_push : forall e vs, same_globals e (push_vars e vs).
Proof. intros; repeat split. Qed.
Lemma spec_local : forall f l e,
    (fix go (e : env) (l : list stmt) {struct l} : list ev * env :=
       match l with
       | [] => ([], e)
       | y :: r => let '(ev1, e1) := spec_stmt f e y in let '(ev2, e2) := go e1 r in (ev1 ++ ev2, e2)
       end) e l = spec_stmts f e l.
Proof.
  intros f l. induction l as [|y r IH]; intros e; [reflexivity|].
  simpl. destruct (spec_stmt f e y) as [ev1 e1]. rewrite IH. reflexivity.
Qed.

Lemma spec_foreach : forall f e i init b,
    spec_stmt f e (SForeach i init b)
    = let ev0 := match init with FeRange => [] | FeValue v => spec_value f e v end in
      let vty := match init with FeRange => TUnk | FeValue v => elem_sty (sty_value e v) end in
      let '(ev1, e1) := spec_stmts f (push_tvar e (i_name i) (at_file f (i_rng i)) vty) b in
      (ev0 ++ ev1, leave e e1).
Proof. intros. simpl. rewrite spec_local. reflexivity. Qed.
Lemma spec_if : forall f e c th el,
    spec_stmt f e (SIf c th el)
    = let '(ev1, e1) := spec_stmts f (push_vars e []) th in
      let '(ev2, e2) := match el with
                        | Some b => spec_stmts f (push_vars (leave e e1) []) b
                        | None => ([], e1)
                        end in
      (spec_value f e c ++ ev1 ++ ev2, leave e e2).
Proof. intros. simpl. rewrite spec_local. destruct (spec_stmts f (push_vars e []) th). destruct el; [rewrite spec_local|]; reflexivity. Qed.
Lemma spec_let : forall f e vs b,
    spec_stmt f e (SLet vs b)
    = let '(ev1, e1) := spec_stmts f (push_vars e []) b in (spec_values f e vs ++ ev1, leave e e1).
Proof. intros. simpl. rewrite spec_local. reflexivity. Qed.

(** ---- a few more steps *)
Lemma StepV_refl : forall s, StepV s s [].
Proof. intros. apply Step_StepV, Step_refl. Qed.
Lemma Pre_StepV : forall f e s s' E, Pre f e s -> Step s s' E -> Pre f e s'.
Proof. intros. eapply Pre_Step; eassumption. Qed.
Lemma StepV_nonempty : forall s s' E, StepV s s' E -> s_scopes s <> [] -> s_scopes s' <> [].
Proof.
  intros s s' E [_ _ [vs H] _] Hn. rewrite H. destruct (s_scopes s); [congruence|simpl; discriminate].
Qed.

Lemma Step_add_leaf : forall s l, Step s (snd (add_leaf l s)) [].
Proof.
  intros. unfold add_leaf; simpl. unfold add_pos. destruct (rng_empty (lf_loc l)); simpl; split; simpl; auto;
    repeat split; auto; eexists; reflexivity.
Qed.

Lemma leaves_add_leaf : forall l s, s_leaves (snd (add_leaf l s)) = s_leaves s ++ [l].
Proof. intros. unfold add_leaf; simpl. unfold add_pos. destruct (rng_empty (lf_loc l)); reflexivity. Qed.

(** a foreach block: the loop variable is the only thing the new scope contributes *)
Lemma resolve_id_pushed_foreach : forall nmv vid s nm,
    resolve_id (pushed (KForeach nmv vid) s) nm
    = if name_eqb nm nmv then Some (SyLeaf vid) else resolve_id s nm.
Proof.
  intros. unfold resolve_id, find_local, pushed; simpl.
  unfold scope_find at 1, sc_find_variable; simpl. destruct (name_eqb nm nmv); reflexivity.
Qed.

(** ---------------------------------------------------------------------------------------------
    block statements *)
Lemma BM_stmts : forall files n l, resp BadMono (iterM (index_stmt files n) l).
Proof. intros. apply (resp_iterM BadMono BM_refl BM_trans). intros; apply BM_index_stmt. Qed.

Lemma BM_block : forall files n k b, resp BadMono (scoped k (iterM (index_stmt files n) b)).
Proof. intros. apply (r_scoped BadMono BM_refl BM_trans); try bm_prim. apply BM_stmts. Qed.
