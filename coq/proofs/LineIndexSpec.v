(** Property C10, specification level: [pos_of] / [off_of] mean what the property says, on EVERY text.
    - [pos_of_prefix]      an offset maps to (number of terminators before it, UTF-16 length of the
                           part of its line before it);
    - [pos_of_inside_crlf] the offset between CR and LF;
    - [roundtrip_prefix]   converting back returns the same offset;
    - [off_of_column] / [off_of_clamp] / [off_of_past_last_line]   columns inside / past the line, lines past
                           the last one;
    - [is_line_exists]     every line number up to the last one has a decomposition (the hypotheses of the
                           clamp theorems are satisfiable for every line of every text);
    - [off_of_mono]        [off_of] is monotone in (line, column), lexicographically.
    Induction on the text with the offset accumulators generalised; no bound on anything. *)
From Coq Require Import List NArith Bool Lia ZifyBool ZifyN.
From TG.Model Require Import Chars LineIndex.
From TG.Proofs Require Import LineIndexProofs.
Import ListNotations.
Open Scope N_scope.

Arguments N.add : simpl never.
Arguments N.sub : simpl never.
Arguments N.ltb : simpl never.
Arguments N.leb : simpl never.
Arguments N.eqb : simpl never.
Arguments N.of_nat : simpl never.
Arguments N.to_nat : simpl never.
Arguments utf8_len : simpl never.
Arguments utf16_len : simpl never.

(* ------------------------------------------------------------------------------------------ *)
(** * Small facts *)

Lemma bytes_zero_nil x : bytes x = 0 -> x = [].
Proof.
  destruct x as [|c r]; [reflexivity|]. rewrite bytes_cons. pose proof (utf8_len_bounds c). lia.
Qed.

Lemma app_bytes_inj p : forall p2 x x2, p ++ x = p2 ++ x2 -> bytes p = bytes p2 -> p = p2 /\ x = x2.
Proof.
  induction p as [|c p IH]; intros [|c2 p2] x x2 H Hb; cbn [app] in H; rewrite ?bytes_cons in Hb; cbn [bytes] in Hb.
  - split; [reflexivity|assumption].
  - pose proof (utf8_len_bounds c2). lia.
  - pose proof (utf8_len_bounds c). lia.
  - injection H as -> H. destruct (IH p2 x x2 H ltac:(lia)) as [-> ->]. split; reflexivity.
Qed.

Lemma ends_cr_snoc p : ends_cr (p ++ [13]) = true.
Proof.
  induction p as [|c r IH]; [reflexivity|].
  destruct r as [|d r']; [reflexivity|]. cbn [app] in *. rewrite ends_cr_cons2. exact IH.
Qed.

(** the boolean [crlf_split] decides [inside_crlf] at a split point *)
Lemma inside_crlf_split p s : inside_crlf (p ++ s) (bytes p) -> crlf_split p s = true.
Proof.
  intros (p' & s' & Ht & Ho).
  assert (H : p ++ s = (p' ++ [13]) ++ 10 :: s') by (rewrite <- app_assoc; exact Ht).
  destruct (app_bytes_inj _ _ _ _ H) as [-> ->].
  { rewrite bytes_app. cbn [bytes]. change (utf8_len 13) with 1. lia. }
  unfold crlf_split. rewrite ends_cr_snoc. reflexivity.
Qed.

Lemma not_inside_crlf_split p s : ~ inside_crlf (p ++ s) (bytes p) -> crlf_split p s = false.
Proof.
  intros H. destruct (crlf_split p s) eqn:E; [|reflexivity]. exfalso. apply H. now apply crlf_split_inside.
Qed.

Lemma split_not_inside_crlf p s : crlf_split p s = false -> ~ inside_crlf (p ++ s) (bytes p).
Proof. intros H Hi. apply inside_crlf_split in Hi. congruence. Qed.

Lemma crlf_split_cons c p x : p <> [] -> crlf_split (c :: p) x = crlf_split p x.
Proof. intros H. destruct p as [|d p']; [congruence|]. unfold crlf_split. now rewrite ends_cr_cons2. Qed.

Lemma hd_lf_app_ne p x : p <> [] -> hd_lf (p ++ x) = hd_lf p.
Proof. intros H. rewrite hd_lf_app. destruct p; [congruence|reflexivity]. Qed.

(* ------------------------------------------------------------------------------------------ *)
(** * offset -> position *)

Lemma line_starts_app p s : crlf_split p s = false ->
  line_starts (p ++ s) = (0 :: starts_from 0 p) ++ starts_from (bytes p) s.
Proof. intros H. unfold line_starts. rewrite starts_from_app by assumption. now rewrite N.add_0_l. Qed.

Lemma filter_le_split p rest o : bytes p <= o -> (forall x, In x rest -> o < x) ->
  filter (fun x => x <=? o) ((0 :: starts_from 0 p) ++ rest) = 0 :: starts_from 0 p.
Proof.
  intros Hp Hr. rewrite filter_app. rewrite filter_all.
  - rewrite filter_none; [apply app_nil_r|]. intros x Hx. specialize (Hr x Hx). lia.
  - intros x [<-|Hx]; [lia|]. apply starts_range in Hx. lia.
Qed.

Lemma line_of_prefix p s : crlf_split p s = false -> line_of (p ++ s) (bytes p) = count_terms p.
Proof.
  intros H. unfold line_of. rewrite line_starts_app by assumption.
  rewrite filter_le_split; [|lia|intros x Hx; apply starts_range in Hx; lia].
  cbn [length]. rewrite starts_length. lia.
Qed.

Lemma nth_start_prefix p s : crlf_split p s = false -> nth_start (p ++ s) (count_terms p) = lstart 0 0 p.
Proof.
  intros H. unfold nth_start. rewrite line_starts_app by assumption.
  replace (N.to_nat (count_terms p)) with (length (starts_from 0 p)) by apply starts_length.
  cbn [app]. apply nth_lstart.
Qed.

Lemma u16_between_mid q x b : bytes q + bytes x <= b -> u16_between 0 (bytes q) b (q ++ x) = u16 x.
Proof.
  intros H. rewrite u16_between_app, N.add_0_l. rewrite u16_between_before by lia.
  rewrite u16_between_in by lia. lia.
Qed.

Lemma u16_between_cons off a b c r :
  u16_between off a b (c :: r) =
  (if (a <=? off) && (off <? b) then utf16_len c else 0) + u16_between (off + utf8_len c) a b r.
Proof. reflexivity. Qed.

Lemma lstart_le p : lstart 0 0 p <= bytes p.
Proof. pose proof (lstart_eq p). lia. Qed.

Lemma col_prefix p b : bytes p <= b -> u16_between 0 (lstart 0 0 p) b p = u16 (last_line p).
Proof.
  intros Hb. pose proof (lstart_eq p) as E. destruct (last_line_suffix p) as (q & Hq).
  remember (last_line p) as ll eqn:Hll. clear Hll.
  subst p. rewrite bytes_app in *. replace (lstart 0 0 (q ++ ll)) with (bytes q) by lia.
  apply u16_between_mid. lia.
Qed.

(** C10_line: the offset after the prefix [p] (not between a CR and its LF) is on line
    "number of terminators of p", at column "UTF-16 length of the last line of p". *)
Theorem pos_of_prefix p s : crlf_split p s = false ->
  pos_of (p ++ s) (bytes p) = (count_terms p, u16 (last_line p)).
Proof.
  intros H. unfold pos_of. cbv zeta. rewrite line_of_prefix by assumption.
  rewrite nth_start_prefix by assumption. f_equal.
  rewrite u16_between_app, N.add_0_l. rewrite (u16_between_after s) by lia.
  rewrite col_prefix by lia. lia.
Qed.

(** the offset between CR and LF: same line, one column past the content *)
Theorem pos_of_inside_crlf p s :
  pos_of (p ++ 13 :: 10 :: s) (bytes p + 1) = (count_terms p, u16 (last_line p) + 1).
Proof.
  assert (Hs : crlf_split p (13 :: 10 :: s) = false) by (unfold crlf_split; cbn [hd_lf]; apply andb_false_r).
  assert (Hl : line_starts (p ++ 13 :: 10 :: s) = (0 :: starts_from 0 p) ++ starts_from (bytes p + 1) (10 :: s)).
  { rewrite line_starts_app by assumption. reflexivity. }
  unfold pos_of. cbv zeta.
  assert (Hline : line_of (p ++ 13 :: 10 :: s) (bytes p + 1) = count_terms p).
  { unfold line_of. rewrite Hl.
    rewrite filter_le_split; [|lia|intros x Hx; apply starts_range in Hx; lia].
    cbn [length]. rewrite starts_length. lia. }
  rewrite Hline. f_equal.
  assert (Hn : nth_start (p ++ 13 :: 10 :: s) (count_terms p) = lstart 0 0 p).
  { unfold nth_start. rewrite Hl.
    replace (N.to_nat (count_terms p)) with (length (starts_from 0 p)) by apply starts_length.
    cbn [app]. apply nth_lstart. }
  rewrite Hn. rewrite u16_between_app, N.add_0_l. rewrite col_prefix by lia.
  rewrite u16_between_cons. change (utf8_len 13) with 1. change (utf16_len 13) with 1.
  rewrite (u16_between_after (10 :: s)) by lia.
  pose proof (lstart_le p).
  destruct (lstart 0 0 p <=? bytes p) eqn:E1; [|lia].
  destruct (bytes p <? bytes p + 1) eqn:E2; [|lia]. cbn [andb]. lia.
Qed.

(* ------------------------------------------------------------------------------------------ *)
(** * position -> offset *)

Lemma drop_bytes_app q : forall off x, drop_bytes (off + bytes q) off (q ++ x) = x.
Proof.
  induction q as [|c r IH]; intros off x.
  - cbn [bytes app]. rewrite N.add_0_r. destruct x as [|d x]; cbn [drop_bytes]; [reflexivity|].
    now rewrite N.ltb_irrefl.
  - cbn [app drop_bytes]. rewrite bytes_cons. pose proof (utf8_len_bounds c).
    destruct (off <? off + (utf8_len c + bytes r)) eqn:E; [|lia].
    replace (off + (utf8_len c + bytes r)) with ((off + utf8_len c) + bytes r) by lia. apply IH.
Qed.

Lemma drop_bytes_prefix q x : drop_bytes (bytes q) 0 (q ++ x) = x.
Proof. rewrite <- (N.add_0_l (bytes q)). apply drop_bytes_app. Qed.

Lemma no_newline_app x y : no_newline (x ++ y) -> no_newline x /\ no_newline y.
Proof. unfold no_newline. rewrite forallb_app. intros H. now apply andb_prop in H. Qed.

Lemma advance_content x : forall off col y, no_newline x -> u16 x <= col ->
  advance off col (x ++ y) = advance (off + bytes x) (col - u16 x) y.
Proof.
  unfold no_newline. induction x as [|c r IH]; intros off col y Hn Hc.
  - cbn [app bytes u16]. f_equal; lia.
  - cbn [forallb] in Hn. apply andb_prop in Hn as [Hc1 Hr]. cbn [u16] in Hc. cbn [app advance].
    unfold is_newline in Hc1.
    destruct ((c =? 10) || (c =? 13)) eqn:E; [lia|].
    destruct (utf16_len c <=? col) eqn:E2; [|lia].
    rewrite IH by (assumption || lia). cbn [bytes u16]. f_equal; lia.
Qed.

Lemma advance_zero off y : advance off 0 y = off.
Proof.
  destruct y as [|c r]; cbn [advance]; [reflexivity|].
  destruct ((c =? 10) || (c =? 13)); [reflexivity|]. pose proof (utf16_len_bounds c).
  destruct (utf16_len c <=? 0) eqn:E; [lia|reflexivity].
Qed.

Lemma advance_stop off col y :
  (y = [] \/ exists c r, y = c :: r /\ is_newline c = true) -> advance off col y = off.
Proof.
  intros [->|(c & r & -> & H)]; [reflexivity|]. cbn [advance]. unfold is_newline in H.
  destruct ((c =? 10) || (c =? 13)) eqn:E; [reflexivity|lia].
Qed.

Lemma advance_ge x : forall off c, off <= advance off c x.
Proof.
  induction x as [|d r IH]; intros off c; cbn [advance]; [lia|].
  destruct ((d =? 10) || (d =? 13)); [lia|]. destruct (utf16_len d <=? c); [|lia].
  specialize (IH (off + utf8_len d) (c - utf16_len d)). lia.
Qed.

Lemma advance_le x : forall off c, advance off c x <= off + bytes x.
Proof.
  induction x as [|d r IH]; intros off c; cbn [advance]; rewrite ?bytes_cons; [cbn [bytes]; lia|].
  destruct ((d =? 10) || (d =? 13)); [lia|]. destruct (utf16_len d <=? c); [|lia].
  specialize (IH (off + utf8_len d) (c - utf16_len d)). lia.
Qed.

Lemma advance_mono x : forall off c1 c2, c1 <= c2 -> advance off c1 x <= advance off c2 x.
Proof.
  induction x as [|d r IH]; intros off c1 c2 H; cbn [advance]; [lia|].
  destruct ((d =? 10) || (d =? 13)); [lia|].
  destruct (utf16_len d <=? c1) eqn:E1.
  - destruct (utf16_len d <=? c2) eqn:E2; [|lia]. apply IH. lia.
  - destruct (utf16_len d <=? c2) eqn:E2; [|lia].
    pose proof (advance_ge r (off + utf8_len d) (c2 - utf16_len d)). lia.
Qed.

(** C10_roundtrip, on split points *)
Theorem roundtrip_prefix p s : crlf_split p s = false ->
  off_of (p ++ s) (count_terms p) (u16 (last_line p)) = bytes p.
Proof.
  intros H. unfold off_of.
  assert (L : N.of_nat (length (line_starts (p ++ s))) <=? count_terms p = false).
  { unfold line_starts. cbn [length]. rewrite starts_length, count_terms_app by assumption. lia. }
  rewrite L. cbv zeta. rewrite nth_start_prefix by assumption.
  pose proof (lstart_eq p) as E. destruct (last_line_suffix p) as (q & Hq).
  pose proof (last_line_no_newline p) as Hn.
  remember (last_line p) as ll eqn:Hll. clear Hll. subst p. rewrite bytes_app in E.
  replace (lstart 0 0 (q ++ ll)) with (bytes q) by lia.
  rewrite <- app_assoc. rewrite drop_bytes_prefix. rewrite advance_content by (assumption || lia).
  rewrite N.sub_diag, advance_zero, bytes_app. reflexivity.
Qed.

(** the position reported for the offset between CR and LF maps back to the end of the line content *)
Theorem roundtrip_inside_crlf p s :
  off_of (p ++ 13 :: 10 :: s) (count_terms p) (u16 (last_line p) + 1) = bytes p.
Proof.
  assert (H : crlf_split p (13 :: 10 :: s) = false) by (unfold crlf_split; cbn [hd_lf]; apply andb_false_r).
  unfold off_of.
  assert (L : N.of_nat (length (line_starts (p ++ 13 :: 10 :: s))) <=? count_terms p = false).
  { unfold line_starts. cbn [length]. rewrite starts_length, count_terms_app by assumption. lia. }
  rewrite L. cbv zeta. rewrite nth_start_prefix by assumption.
  pose proof (lstart_eq p) as E. destruct (last_line_suffix p) as (q & Hq).
  pose proof (last_line_no_newline p) as Hn.
  remember (last_line p) as ll eqn:Hll. clear Hll. subst p. rewrite bytes_app in E.
  replace (lstart 0 0 (q ++ ll)) with (bytes q) by lia.
  rewrite <- app_assoc. rewrite drop_bytes_prefix. rewrite advance_content by (assumption || lia).
  rewrite bytes_app. apply advance_stop. right. exists 13, (10 :: s). split; reflexivity.
Qed.

Lemma is_line_split t l q content rest : is_line t l q content rest -> crlf_split q (content ++ rest) = false.
Proof. intros (Ht & _ & _ & Hns & _). apply not_inside_crlf_split. now rewrite <- Ht. Qed.

Lemma is_line_start t l q content rest : is_line t l q content rest -> nth_start t l = bytes q.
Proof.
  intros Hl. pose proof (is_line_split _ _ _ _ _ Hl) as Hs. destruct Hl as (Ht & Hc & Hll & _).
  rewrite Ht, <- Hc, nth_start_prefix by assumption.
  pose proof (lstart_eq q) as E. rewrite Hll in E. cbn [bytes] in E. lia.
Qed.

Lemma is_line_off_of t l q content rest c : is_line t l q content rest ->
  off_of t l c = advance (bytes q) c (content ++ rest).
Proof.
  intros Hl. pose proof (is_line_split _ _ _ _ _ Hl) as Hs. pose proof (is_line_start _ _ _ _ _ Hl) as Hn.
  destruct Hl as (Ht & Hc & _). unfold off_of.
  assert (L : N.of_nat (length (line_starts t)) <=? l = false).
  { unfold line_starts. cbn [length]. rewrite starts_length, Ht, count_terms_app by assumption. lia. }
  rewrite L. cbv zeta. rewrite Hn. rewrite Ht at 1. now rewrite drop_bytes_prefix.
Qed.

(** column inside (or past) the content of a line: the offset of the last character boundary whose
    UTF-16 column does not exceed [c] *)
Theorem off_of_column t l q x y rest c :
  is_line t l q (x ++ y) rest -> u16 x <= c ->
  (y = [] \/ exists d y', y = d :: y' /\ c < u16 x + utf16_len d) ->
  off_of t l c = bytes q + bytes x.
Proof.
  intros Hl Hc Hy. rewrite (is_line_off_of _ _ _ _ _ c Hl).
  destruct Hl as (_ & _ & _ & _ & Hnn & Hrest). apply no_newline_app in Hnn as [Hnx Hny].
  rewrite <- !app_assoc. rewrite advance_content by assumption.
  destruct Hy as [->|(d & y' & -> & Hd)].
  - cbn [app]. now apply advance_stop.
  - cbn [app advance]. unfold no_newline in Hny. cbn [forallb] in Hny. apply andb_prop in Hny as [Hd1 _].
    unfold is_newline in Hd1. destruct ((d =? 10) || (d =? 13)) eqn:E; [lia|].
    destruct (utf16_len d <=? c - u16 x) eqn:E2; [lia|reflexivity].
Qed.

(** C10_clamp, first half: a column past the end of the line means the line end *)
Theorem off_of_clamp t l q content rest c :
  is_line t l q content rest -> u16 content <= c -> off_of t l c = bytes q + bytes content.
Proof.
  intros Hl Hc. apply (off_of_column t l q content [] rest c); [now rewrite app_nil_r|assumption|now left].
Qed.

(** C10_clamp, second half: a line past the last one means the end of the text *)
Theorem off_of_past_last_line t l c : count_terms t < l -> off_of t l c = bytes t.
Proof.
  intros H. unfold off_of.
  assert (L : N.of_nat (length (line_starts t)) <=? l = true).
  { unfold line_starts. cbn [length]. rewrite starts_length. lia. }
  now rewrite L.
Qed.

(* ------------------------------------------------------------------------------------------ *)
(** * Every line has a decomposition *)

Lemma starts_split t : forall off n d, (n < length (starts_from off t))%nat ->
  exists p x, t = p ++ x /\ p <> [] /\ crlf_split p x = false /\
    length (starts_from off p) = S n /\ nth n (starts_from off t) d = off + bytes p /\
    (forall base, lstart off base p = off + bytes p).
Proof.
  induction t as [|c r IH]; intros off n d Hn; [cbn [starts_from length] in Hn; lia|].
  pose proof (utf8_len_bounds c) as Hu.
  (* the split found in the tail, extended by [c] *)
  assert (Hrec : forall n' k, (n' < length (starts_from (off + utf8_len c) r))%nat ->
            (forall z, z <> [] -> hd_lf z = hd_lf r ->
               length (starts_from off (c :: z)) = (k + length (starts_from (off + utf8_len c) z))%nat /\
               forall base, exists b', lstart off base (c :: z) = lstart (off + utf8_len c) b' z) ->
            exists p x, c :: r = p ++ x /\ p <> [] /\ crlf_split p x = false /\
              length (starts_from off p) = (k + S n')%nat /\
              nth n' (starts_from (off + utf8_len c) r) d = off + bytes p /\
              (forall base, lstart off base p = off + bytes p)).
  { intros n' k Hn' Hz. destruct (IH (off + utf8_len c) n' d Hn') as (p' & x & Hr & Hne & Hs & Hlen & Hnth & Hls).
    exists (c :: p'), x. split; [cbn [app]; now rewrite Hr|]. split; [discriminate|].
    split; [now rewrite crlf_split_cons|].
    assert (Hhd : hd_lf p' = hd_lf r) by (rewrite Hr; symmetry; now apply hd_lf_app_ne).
    destruct (Hz p' Hne Hhd) as [Hz1 Hz2].
    split; [rewrite Hz1, Hlen; reflexivity|]. split; [rewrite Hnth, bytes_cons; lia|].
    intros base. destruct (Hz2 base) as (b' & ->). rewrite Hls, bytes_cons. lia. }
  rewrite starts_from_cons in Hn |- *.
  destruct (c =? 10) eqn:E10; [|destruct (c =? 13) eqn:E13; [destruct (hd_lf r) eqn:Ehd|]].
  - (* LF *)
    destruct n as [|n'].
    + exists [c], r. split; [reflexivity|]. split; [discriminate|].
      split; [unfold crlf_split; cbn [ends_cr]; destruct (c =? 13) eqn:?; [lia|reflexivity]|].
      split; [rewrite starts_from_cons, E10; reflexivity|]. split; [cbn [nth bytes]; lia|].
      intros base. cbn [lstart bytes]. rewrite E10. lia.
    + cbn [length] in Hn. cbn [nth].
      destruct (Hrec n' 1%nat ltac:(lia)) as (p & x & H1 & H2 & H3 & H4 & H5 & H6).
      { intros z _ _. split; [rewrite starts_from_cons, E10; reflexivity|].
        intros base. eexists. cbn [lstart]. rewrite E10. reflexivity. }
      exists p, x. repeat (split; [assumption|]). assumption.
  - (* CR of a CR LF pair *)
    destruct (Hrec n 0%nat Hn) as (p & x & H1 & H2 & H3 & H4 & H5 & H6).
    { intros z _ Hz. split; [rewrite starts_from_cons, E10, E13, Hz; reflexivity|].
      intros base. eexists. cbn [lstart]. rewrite E10, E13, Hz. reflexivity. }
    exists p, x. repeat (split; [assumption|]). assumption.
  - (* lone CR *)
    destruct n as [|n'].
    + exists [c], r. split; [reflexivity|]. split; [discriminate|].
      split; [unfold crlf_split; cbn [ends_cr]; rewrite Ehd; apply andb_false_r|].
      split; [rewrite starts_from_cons, E10, E13; reflexivity|]. split; [cbn [nth bytes]; lia|].
      intros base. cbn [lstart bytes]. rewrite E10, E13. cbn [hd_lf]. lia.
    + cbn [length] in Hn. cbn [nth].
      destruct (Hrec n' 1%nat ltac:(lia)) as (p & x & H1 & H2 & H3 & H4 & H5 & H6).
      { intros z _ Hz. split; [rewrite starts_from_cons, E10, E13, Hz; reflexivity|].
        intros base. eexists. cbn [lstart]. rewrite E10, E13, Hz. reflexivity. }
      exists p, x. repeat (split; [assumption|]). assumption.
  - (* ordinary character *)
    destruct (Hrec n 0%nat Hn) as (p & x & H1 & H2 & H3 & H4 & H5 & H6).
    { intros z _ _. split; [rewrite starts_from_cons, E10, E13; reflexivity|].
      intros base. eexists. cbn [lstart]. rewrite E10, E13. reflexivity. }
    exists p, x. repeat (split; [assumption|]). assumption.
Qed.

(** the text before line [l]: it has exactly [l] terminators, ends with one, and does not end
    between a CR and its LF *)
Lemma nth_start_split t l : l <= count_terms t ->
  exists p x, t = p ++ x /\ crlf_split p x = false /\ count_terms p = l /\
              nth_start t l = bytes p /\ last_line p = [].
Proof.
  intros Hl. destruct (N.eq_dec l 0) as [->|Hnz].
  - exists [], t. repeat split.
  - destruct (starts_split t 0 (N.to_nat l - 1) (bytes t)) as (p & x & Ht & _ & Hs & Hlen & Hnth & Hls).
    { rewrite starts_length. lia. }
    exists p, x. split; [assumption|]. split; [assumption|].
    assert (Hc : count_terms p = l) by (rewrite starts_length in Hlen; lia).
    split; [assumption|]. split.
    + unfold nth_start, line_starts. replace (N.to_nat l) with (S (N.to_nat l - 1)) by lia.
      cbn [nth]. rewrite Hnth. lia.
    + pose proof (lstart_eq p) as E. rewrite (Hls 0) in E. apply bytes_zero_nil. lia.
Qed.

Lemma span_newline x : exists content rest,
  x = content ++ rest /\ no_newline content /\ (rest = [] \/ exists c r, rest = c :: r /\ is_newline c = true).
Proof.
  induction x as [|c r IH].
  - exists [], []. split; [reflexivity|]. split; [reflexivity|now left].
  - destruct (is_newline c) eqn:E.
    + exists [], (c :: r). split; [reflexivity|]. split; [reflexivity|]. right. now exists c, r.
    + destruct IH as (ct & rs & -> & Hn & Hr). exists (c :: ct), rs. split; [reflexivity|].
      split; [|assumption]. unfold no_newline in *. cbn [forallb]. now rewrite E.
Qed.

Theorem is_line_exists t l : l <= count_terms t -> exists q content rest, is_line t l q content rest.
Proof.
  intros H. destruct (nth_start_split t l H) as (p & x & -> & Hs & Hc & _ & Hll).
  destruct (span_newline x) as (ct & rs & -> & Hn & Hr).
  exists p, ct, rs. unfold is_line. split; [reflexivity|]. split; [assumption|]. split; [assumption|].
  split; [now apply split_not_inside_crlf|]. split; assumption.
Qed.

(* ------------------------------------------------------------------------------------------ *)
(** * Bounds and monotonicity of [off_of] *)

Theorem off_of_le t l c : off_of t l c <= bytes t.
Proof.
  destruct (N.lt_ge_cases (count_terms t) l) as [H|H].
  - rewrite off_of_past_last_line by assumption. lia.
  - destruct (is_line_exists t l H) as (q & ct & rs & Hl). rewrite (is_line_off_of _ _ _ _ _ c Hl).
    destruct Hl as (-> & _). pose proof (advance_le (ct ++ rs) (bytes q) c). rewrite bytes_app. lia.
Qed.

Lemma off_of_ge_start t l c : l <= count_terms t -> nth_start t l <= off_of t l c.
Proof.
  intros H. destruct (is_line_exists t l H) as (q & ct & rs & Hl).
  rewrite (is_line_off_of _ _ _ _ _ c Hl), (is_line_start _ _ _ _ _ Hl). apply advance_ge.
Qed.

Lemma advance_lt_next x : forall off c n rest, starts_from off x = n :: rest -> advance off c x < n.
Proof.
  induction x as [|d r IH]; intros off c n rest H; [discriminate|].
  assert (Hoff : off < n).
  { apply (starts_range (d :: r) off n). rewrite H. now left. }
  rewrite starts_from_cons in H. cbn [advance].
  destruct (d =? 10) eqn:E10; [cbn [orb]; assumption|]. destruct (d =? 13) eqn:E13; [cbn [orb]; assumption|].
  cbn [orb]. destruct (utf16_len d <=? c); [|assumption]. now apply (IH _ _ _ rest).
Qed.

Lemma nth_ge_head n rest lo d : forall k, incr lo (n :: rest) -> (k < length (n :: rest))%nat ->
  n <= nth k (n :: rest) d.
Proof.
  intros [|k'] [_ Hi] Hk; cbn [nth]; [lia|]. cbn [length] in Hk.
  assert (Hin : In (nth k' rest d) rest) by (apply nth_In; lia).
  pose proof (incr_all_gt _ _ Hi _ Hin). lia.
Qed.

(** [off_of] is monotone in (line, column), lexicographically: an ordered LSP range maps to an
    ordered byte range *)
Theorem off_of_mono t l1 c1 l2 c2 : l1 < l2 \/ (l1 = l2 /\ c1 <= c2) -> off_of t l1 c1 <= off_of t l2 c2.
Proof.
  intros [Hlt|[<- Hc]].
  - destruct (N.lt_ge_cases (count_terms t) l2) as [H2|H2].
    { rewrite (off_of_past_last_line t l2) by assumption. apply off_of_le. }
    assert (H1 : l1 <= count_terms t) by lia.
    pose proof (off_of_ge_start t l2 c2 H2) as Hge.
    destruct (is_line_exists t l1 H1) as (q & ct & rs & Hl). rewrite (is_line_off_of _ _ _ _ _ c1 Hl).
    pose proof (is_line_split _ _ _ _ _ Hl) as Hs. destruct Hl as (Ht & Hcq & _).
    assert (Hcx : count_terms t = l1 + count_terms (ct ++ rs)) by (rewrite Ht, count_terms_app by assumption; lia).
    destruct (starts_from (bytes q) (ct ++ rs)) as [|n rest] eqn:Est.
    { apply (f_equal (@length N)) in Est. rewrite starts_length in Est. cbn [length] in Est. lia. }
    pose proof (advance_lt_next _ _ c1 _ _ Est) as Hadv.
    assert (Hn : n <= nth_start t l2).
    { unfold nth_start. rewrite Ht at 1. rewrite line_starts_app, Est by assumption.
      assert (Hlen : length (0 :: starts_from 0 q) = S (N.to_nat l1)) by (cbn [length]; rewrite starts_length; lia).
      rewrite app_nth2 by lia. rewrite Hlen.
      apply (nth_ge_head n rest (bytes q)).
      - rewrite <- Est. apply starts_incr.
      - apply (f_equal (@length N)) in Est. rewrite starts_length in Est. rewrite <- Est. lia. }
    lia.
  - destruct (N.lt_ge_cases (count_terms t) l1) as [H|H].
    + rewrite !off_of_past_last_line by assumption. lia.
    + destruct (is_line_exists t l1 H) as (q & ct & rs & Hl).
      rewrite (is_line_off_of _ _ _ _ _ c1 Hl), (is_line_off_of _ _ _ _ _ c2 Hl). now apply advance_mono.
Qed.
