(** ScopeFrame: what a statement of the indexer model can change in the state its surroundings look at.
    Main result [locals_do_not_leak]: after any statement other than `defvar` / `include` (class, def, defm,
    defset, foreach, if, let, multiclass, assert, dump), executed outside a record body, the local lookup
    `Scopes::find_local` gives for EVERY name the answer it gave before the statement: nothing declared
    inside the construct (template arguments, fields, defvars, foreach / operator variables) stays visible.
    Proved for all programs, fuels and states. *)
From Coq Require Import List NArith Bool Lia.
From TG.Model Require Import CoreAst Scope BangOps Indexer.
From TG.Proofs Require Import ScopeBalance.
Import ListNotations.
Open Scope N_scope.

(** [keepsM m]: m does not touch the multiclass arena *)
Definition keepsM {A} (m : M A) : Prop := forall s, s_mcs (snd (m s)) = s_mcs s.

Lemma kM_ret : forall A (x : A), keepsM (ret x). Proof. intros A x s; reflexivity. Qed.
Lemma kM_none : forall A, keepsM (@none A). Proof. intros A s; reflexivity. Qed.
Lemma kM_lift : forall A (o : option A), keepsM (lift o). Proof. intros A o s; reflexivity. Qed.
Lemma kM_get : forall A (f : st -> A), keepsM (get f). Proof. intros A f s; reflexivity. Qed.
Lemma kM_bad : forall A, keepsM (@bad A). Proof. intros A s; reflexivity. Qed.
Lemma kM_bind : forall A B (m : M A) (f : A -> M B), keepsM m -> (forall x, keepsM (f x)) -> keepsM (bind m f).
Proof.
  intros A B m f Hm Hf s. unfold bind. specialize (Hm s).
  destruct (m s) as [[x|] s1]; simpl in *; [rewrite Hf|]; exact Hm.
Qed.
Lemma kM_seq : forall A B (m : M A) (k : M B), keepsM m -> keepsM k -> keepsM (seq m k).
Proof. intros A B m k Hm Hk s. unfold seq. now rewrite Hk, Hm. Qed.
Lemma kM_try : forall A (m : M A), keepsM m -> keepsM (try_ m).
Proof. intros A m Hm s. unfold try_. specialize (Hm s). destruct (m s); exact Hm. Qed.
Lemma kM_iterM : forall A B (f : A -> M B) l, (forall x, In x l -> keepsM (f x)) -> keepsM (iterM f l).
Proof.
  induction l as [|x r IH]; intros H; simpl; [apply kM_ret|].
  apply kM_seq; [apply H; now left | apply IH; intros y Hy; apply H; now right].
Qed.
Lemma kM_mapM_opt : forall A B (f : A -> M B) l, (forall x, In x l -> keepsM (f x)) -> keepsM (mapM_opt f l).
Proof.
  induction l as [|x r IH]; intros H; simpl; [apply kM_ret|].
  apply kM_bind; [apply kM_try, H; now left|]. intros o.
  apply kM_bind; [apply IH; intros y Hy; apply H; now right|]. intros os. apply kM_ret.
Qed.
Lemma kM_upd : forall f, (forall s, s_mcs (f s) = s_mcs s) -> keepsM (upd f).
Proof. intros f H s; simpl; apply H. Qed.
Lemma mcs_add_pos : forall r id s, s_mcs (add_pos r id s) = s_mcs s.
Proof. intros r id s. unfold add_pos. destruct (rng_empty r); reflexivity. Qed.

Lemma kM_here : forall r, keepsM (here r). Proof. intros; apply kM_get. Qed.
Lemma kM_state : keepsM state. Proof. apply kM_get. Qed.
Lemma kM_error : forall r k, keepsM (error r k). Proof. intros; apply kM_upd; reflexivity. Qed.
Lemma kM_err : forall r k, keepsM (err r k).
Proof. intros. unfold err. apply kM_bind; [apply kM_here|intros; apply kM_error]. Qed.
Lemma kM_emit : forall l, keepsM (emit l).
Proof. intros. unfold emit. apply kM_iterM. intros; apply kM_err. Qed.
Lemma kM_leaf_of : forall i, keepsM (leaf_of i).
Proof. intros. unfold leaf_of. apply kM_bind; [apply kM_state|intros; apply kM_lift]. Qed.
Lemma kM_add_reference : forall id l, keepsM (add_reference id l).
Proof. intros. unfold add_reference. apply kM_upd. intros s. now rewrite mcs_add_pos. Qed.
Lemma kM_add_record : forall n c l, keepsM (add_record n c l).
Proof. intros n c l s. unfold add_record; simpl. rewrite mcs_add_pos. destruct c; reflexivity. Qed.
Lemma kM_add_anonymous_def : forall n l, keepsM (add_anonymous_def n l).
Proof. intros n l s. reflexivity. Qed.
Lemma kM_add_leaf : forall l, keepsM (add_leaf l).
Proof. intros l s. unfold add_leaf; simpl. now rewrite mcs_add_pos. Qed.
Lemma kM_add_leaf_nopos : forall l, keepsM (add_leaf_nopos l).
Proof. intros l s. reflexivity. Qed.
Lemma kM_record_mut : forall id f, keepsM (record_mut id f).
Proof. intros id f s. unfold record_mut. destruct (nthN (s_recs s) id); reflexivity. Qed.
Lemma kM_push_file : forall f, keepsM (push_file f). Proof. intros; apply kM_upd; reflexivity. Qed.
Lemma kM_pop_file : keepsM pop_file.
Proof. intros s. unfold pop_file. destruct (s_trace s); reflexivity. Qed.
Lemma kM_next_anonymous : keepsM next_anonymous. Proof. apply kM_upd; reflexivity. Qed.
Lemma kM_push_scope : forall k, keepsM (push_scope k). Proof. intros; apply kM_upd; reflexivity. Qed.
Lemma kM_pop_scope : keepsM pop_scope.
Proof. intros s. unfold pop_scope. destruct (s_scopes s); reflexivity. Qed.
Lemma kM_scopes_add_variable : forall l, keepsM (scopes_add_variable l).
Proof.
  intros l. unfold scopes_add_variable. apply kM_bind; [apply kM_add_leaf|].
  intros id s. destruct (s_scopes s); reflexivity.
Qed.
Lemma kM_scoped : forall A k (body : M A), keepsM body -> keepsM (scoped k body).
Proof.
  intros. unfold scoped. apply kM_seq; [apply kM_push_scope|].
  apply kM_bind; [apply kM_try; assumption|]. intros o. apply kM_seq; [apply kM_pop_scope|apply kM_lift].
Qed.

Lemma kM_add_defset : forall l, keepsM (add_defset l).
Proof. intros l s. unfold add_defset; simpl. now rewrite mcs_add_pos. Qed.
#[export] Hint Resolve kM_add_defset : keepsM.
#[export] Hint Resolve kM_ret kM_none kM_lift kM_get kM_bad kM_here kM_state kM_error kM_err kM_emit kM_leaf_of
  kM_add_reference kM_add_record kM_add_anonymous_def kM_add_leaf kM_add_leaf_nopos kM_record_mut kM_push_file
  kM_pop_file kM_next_anonymous kM_push_scope kM_pop_scope kM_scopes_add_variable : keepsM.

Ltac km :=
  repeat first
    [ progress auto with keepsM
    | apply kM_scoped
    | apply kM_bind; [|intros ?]
    | apply kM_seq
    | apply kM_try
    | match goal with
      | |- keepsM (match ?x with _ => _ end) => destruct x
      | |- keepsM (if ?x then _ else _) => destruct x
      | |- keepsM (let '(_, _) := ?x in _) => destruct x
      end ].

Lemma kM_index_ty : forall t, keepsM (index_ty t).
Proof. induction t; simpl; km. Qed.
#[export] Hint Resolve kM_index_ty : keepsM.

Definition values_keepM (n : nat) : Prop :=
  (forall v, keepsM (index_value n v)) /\ (forall x, keepsM (index_inner n x)) /\
  (forall sv, keepsM (index_simple n sv)) /\ (forall a, keepsM (index_arg n a)) /\
  (forall op an vs r, keepsM (index_bang n op an vs r)) /\
  (forall op a vs r, keepsM (index_bang_ops n op a vs r)).

Lemma kM_sufs_loop : forall (l : list suffix) t,
    keepsM ((fix sufs_loop (t : mty) (l : list suffix) : M mty :=
         match l with
         | [] => ret t
         | sf :: r =>
           bind match sf with
                 | SufRange => lift (match t with MBits _ => Some MBit | _ => None end)
                 | SufSlice single => if single then lift (element_typ t) else ret t
                 | SufField i fr =>
                   bind (here (i_rng i)) (fun loc =>
                   bind state (fun s =>
                   match ty_find_field s t (i_name i) with
                   | None => match t with MUnknown => none | _ => seq (err fr DCannotAccessField) none end
                   | Some f => seq (add_reference (SyLeaf f) loc) (bind (leaf_of f) (fun lf => ret (lf_ty lf)))
                   end))
                 end (fun t' => sufs_loop t' r)
         end) t l).
Proof. induction l as [|sf r IH]; intros t; km; apply IH. Qed.

Lemma kM_index_annot : forall op an r, keepsM (index_annot op an r).
Proof. intros. unfold index_annot. km. Qed.
Lemma kM_check_arity : forall op vs r, keepsM (check_arity op vs r).
Proof. intros. unfold check_arity. km. Qed.
#[export] Hint Resolve kM_index_annot kM_check_arity : keepsM.

Lemma values_keepM_all : forall n, values_keepM n.
Proof.
  induction n as [|n [IHv [IHi [IHs [IHa [IHb IHo]]]]]].
  - repeat split; intros; simpl; auto with keepsM.
  - repeat split.
    + intros [r [|first rest]]; simpl; km. apply kM_iterM; intros; apply IHi.
    + intros [sv sufs]; simpl. apply kM_bind; [apply IHs|]. intros t0. apply kM_sufs_loop.
    + intros sv; destruct sv; simpl; km;
        try (apply kM_iterM; intros; apply IHv); try (apply kM_mapM_opt; intros; first [apply IHv|apply IHa]).
    + intros a; destruct a; simpl; km; apply IHv.
    + intros op an vs r; simpl. km.
    + intros op a vs r; simpl.
      destruct op; simpl;
        km; try (apply kM_iterM; intros; km; apply IHv); try (apply kM_mapM_opt; intros; apply IHv).
Qed.

Lemma kM_index_value : forall n v, keepsM (index_value n v).
Proof. intros n; apply (values_keepM_all n). Qed.
Lemma kM_index_arg : forall n a, keepsM (index_arg n a).
Proof. intros n; apply (values_keepM_all n). Qed.
#[export] Hint Resolve kM_index_value kM_index_arg : keepsM.
Lemma kM_index_args : forall n l, keepsM (index_args n l).
Proof. intros. unfold index_args. apply kM_mapM_opt. intros; auto with keepsM. Qed.
Lemma kM_values : forall n vs, keepsM (iterM (index_value n) vs).
Proof. intros. apply kM_iterM. intros; auto with keepsM. Qed.
#[export] Hint Resolve kM_index_args kM_values : keepsM.
Lemma kM_resolve_class : forall n c, keepsM (resolve_class_ref_as_class n c).
Proof. intros n [i args r]; simpl; km. Qed.
Lemma kM_resolve_multiclass : forall n c, keepsM (resolve_class_ref_as_multiclass n c).
Proof. intros n [i args r]; simpl; km. Qed.
Lemma kM_index_name_value : forall v, keepsM (index_name_value v).
Proof. intros [r [|[[] sufs] rest]]; simpl; km. Qed.
Lemma kM_index_defvar : forall n i v, keepsM (index_defvar n i v).
Proof. intros. unfold index_defvar. km. Qed.
#[export] Hint Resolve kM_resolve_class kM_resolve_multiclass kM_index_name_value kM_index_defvar : keepsM.
Lemma kM_index_item : forall n it, keepsM (index_item n it).
Proof. intros n [t i v|i v|i v|c m|v]; simpl; km. Qed.
#[export] Hint Resolve kM_index_item : keepsM.

(** ---------------------------------------------------------------------------------------------
    [mcs_pref a b]: every multiclass of [a] is still there in [b] with the same template arguments *)
Definition mcs_pref (a b : list mcd) : Prop :=
  forall id m0, nthN a id = Some m0 -> exists m', nthN b id = Some m' /\ mc_targs m' = mc_targs m0.
Definition prefM {A} (m : M A) : Prop := forall s, mcs_pref (s_mcs s) (s_mcs (snd (m s))).

Lemma mcs_pref_refl : forall a, mcs_pref a a.
Proof. intros a id m0 H. eauto. Qed.
Lemma mcs_pref_trans : forall a b c, mcs_pref a b -> mcs_pref b c -> mcs_pref a c.
Proof.
  intros a b c H1 H2 id m0 H. destruct (H1 _ _ H) as [m1 [Hb E1]]. destruct (H2 _ _ Hb) as [m2 [Hc E2]].
  exists m2. split; [assumption|congruence].
Qed.
Lemma keepsM_prefM : forall A (m : M A), keepsM m -> prefM m.
Proof. intros A m H s. rewrite H. apply mcs_pref_refl. Qed.
Lemma prefM_bind : forall A B (m : M A) (f : A -> M B), prefM m -> (forall x, prefM (f x)) -> prefM (bind m f).
Proof.
  intros A B m f Hm Hf s. unfold bind. specialize (Hm s).
  destruct (m s) as [[x|] s1]; simpl in *; [|exact Hm]. eapply mcs_pref_trans; [exact Hm|apply Hf].
Qed.
Lemma prefM_seq : forall A B (m : M A) (k : M B), prefM m -> prefM k -> prefM (seq m k).
Proof. intros A B m k Hm Hk s. unfold seq. eapply mcs_pref_trans; [apply Hm|apply Hk]. Qed.
Lemma prefM_iterM : forall A B (f : A -> M B) l, (forall x, In x l -> prefM (f x)) -> prefM (iterM f l).
Proof.
  induction l as [|x r IH]; intros H; simpl; [apply keepsM_prefM, kM_ret|].
  apply prefM_seq; [apply H; now left | apply IH; intros y Hy; apply H; now right].
Qed.

Lemma nthN_app_old : forall A (l : list A) x id y, nthN l id = Some y -> nthN (l ++ [x]) id = Some y.
Proof.
  intros A l x id y H. unfold nthN in *. rewrite nth_error_app1; [assumption|].
  apply nth_error_Some. congruence.
Qed.
Lemma nthN_set_nth : forall A (l : list A) f i j,
    nthN (set_nth (N.to_nat i) f l) j = if N.eqb i j then option_map f (nthN l j) else nthN l j.
Proof.
  intros A l f i j. unfold nthN.
  destruct (N.eqb_spec i j) as [->|Hne].
  - generalize (N.to_nat j). clear. induction l as [|x r IH]; intros [|k]; simpl; auto.
  - assert (Hk : N.to_nat i <> N.to_nat j) by (intros H; apply Hne; now apply N2Nat.inj).
    revert Hk. generalize (N.to_nat i) (N.to_nat j). clear.
    induction l as [|x r IH]; intros [|a] [|b] H; simpl; auto; try congruence.
Qed.

Lemma prefM_add_multiclass : forall n l, prefM (add_multiclass n l).
Proof.
  intros n l s id m0 H. unfold add_multiclass; simpl. rewrite mcs_add_pos; simpl.
  exists m0. split; [now apply nthN_app_old|reflexivity].
Qed.
(** multiclass_mut with a function that keeps the template arguments *)
Lemma prefM_multiclass_mut : forall id f, (forall m, mc_targs (f m) = mc_targs m) -> prefM (multiclass_mut id f).
Proof.
  intros id f Hf s j m0 H. unfold multiclass_mut. destruct (nthN (s_mcs s) id) eqn:E; simpl.
  - rewrite nthN_set_nth. destruct (N.eqb id j); [rewrite H; simpl; eauto|eauto].
  - eauto.
Qed.

Lemma prefM_index_parents : forall n ps, prefM (index_parents n ps).
Proof.
  intros. unfold index_parents. apply prefM_bind; [apply keepsM_prefM; auto with keepsM|]. intros s0.
  destruct (current_record_id s0).
  - apply keepsM_prefM. apply kM_iterM. intros; km.
  - destruct (current_multiclass_id s0).
    + apply prefM_iterM. intros cr _. apply prefM_bind; [apply keepsM_prefM; km|]. intros [p|].
      * apply prefM_multiclass_mut. reflexivity.
      * apply keepsM_prefM; km.
    + destruct (current_defm_id s0); apply keepsM_prefM; [apply kM_iterM; intros|]; km.
Qed.

(** ---- scope-stack facts *)
Lemma find_map_add_vars : forall B (f : scope -> option B) vs sc,
    (forall c v, f (mkScope (sc_kind c) v) = f c) -> find_map f (add_vars vs sc) = find_map f sc.
Proof. intros B f vs [|c t] H; simpl; [reflexivity|]. now rewrite H. Qed.
Lemma current_record_add_vars : forall vs s s', s_scopes s' = add_vars vs (s_scopes s) ->
    current_record_id s' = current_record_id s.
Proof. intros. unfold current_record_id. rewrite H. apply find_map_add_vars. reflexivity. Qed.
Lemma current_multiclass_add_vars : forall vs s s', s_scopes s' = add_vars vs (s_scopes s) ->
    current_multiclass_id s' = current_multiclass_id s.
Proof. intros. unfold current_multiclass_id. rewrite H. apply find_map_add_vars. reflexivity. Qed.

(** ---- computations that respect a preorder on states *)
Section Rel.
  Variable R : st -> st -> Prop.
  Hypothesis Rrefl : forall s, R s s.
  Hypothesis Rtrans : forall a b c, R a b -> R b c -> R a c.
  Definition resp {A} (m : M A) : Prop := forall s, R s (snd (m s)).
  Lemma resp_ret : forall A (x : A), resp (ret x). Proof. intros A x s; apply Rrefl. Qed.
  Lemma resp_none : forall A, resp (@none A). Proof. intros A s; apply Rrefl. Qed.
  Lemma resp_lift : forall A (o : option A), resp (lift o). Proof. intros A o s; apply Rrefl. Qed.
  Lemma resp_get : forall A (f : st -> A), resp (get f). Proof. intros A f s; apply Rrefl. Qed.
  Lemma resp_bind : forall A B (m : M A) (f : A -> M B), resp m -> (forall x, resp (f x)) -> resp (bind m f).
  Proof.
    intros A B m f Hm Hf s. unfold bind. specialize (Hm s).
    destruct (m s) as [[x|] s1]; simpl in *; [|exact Hm]. eapply Rtrans; [exact Hm|apply Hf].
  Qed.
  Lemma resp_seq : forall A B (m : M A) (k : M B), resp m -> resp k -> resp (seq m k).
  Proof. intros A B m k Hm Hk s. unfold seq. eapply Rtrans; [apply Hm|apply Hk]. Qed.
  Lemma resp_try : forall A (m : M A), resp m -> resp (try_ m).
  Proof. intros A m Hm s. unfold try_. specialize (Hm s). destruct (m s); exact Hm. Qed.
  (** `s0 <- state ;; k s0`: the continuation runs in the very state it was given *)
  Lemma resp_state : forall B (f : st -> M B), (forall s, R s (snd (f s s))) -> resp (bind state f).
  Proof. intros B f H s. unfold bind, state, get; simpl. apply H. Qed.
  Lemma resp_iterM : forall A B (f : A -> M B) l, (forall x, In x l -> resp (f x)) -> resp (iterM f l).
  Proof.
    induction l as [|x r IH]; intros H; simpl; [apply resp_ret|].
    apply resp_seq; [apply H; now left | apply IH; intros y Hy; apply H; now right].
  Qed.
End Rel.

(** index_targ inside a record scope never touches the multiclasses; inside a multiclass scope (no record
    scope) it changes only the template arguments of the innermost multiclass *)
Definition mcs_pref_but (mid : N) (a b : list mcd) : Prop :=
  forall id m0, nthN a id = Some m0 -> id <> mid -> exists m', nthN b id = Some m' /\ mc_targs m' = mc_targs m0.

Definition RT (s s' : st) : Prop :=
  s_scopes s' = s_scopes s /\
  (current_record_id s <> None -> s_mcs s' = s_mcs s) /\
  (forall mid, current_record_id s = None -> current_multiclass_id s = Some mid ->
               mcs_pref_but mid (s_mcs s) (s_mcs s')).
Lemma RT_refl : forall s, RT s s.
Proof. intros s. repeat split; auto. intros mid _ _ id m0 H _. eauto. Qed.
Lemma RT_trans : forall a b c, RT a b -> RT b c -> RT a c.
Proof.
  intros a b c [S1 [A1 B1]] [S2 [A2 B2]].
  assert (Er : current_record_id b = current_record_id a) by (unfold current_record_id; now rewrite S1).
  assert (Em : current_multiclass_id b = current_multiclass_id a) by (unfold current_multiclass_id; now rewrite S1).
  repeat split.
  - congruence.
  - intros H. rewrite A2, A1; auto. now rewrite Er.
  - intros mid Hr Hm id m0 H Hne.
    destruct (B1 mid Hr Hm _ _ H Hne) as [m1 [Hb E1]].
    assert (Hr2 : current_record_id b = None) by congruence.
    assert (Hm2 : current_multiclass_id b = Some mid) by congruence.
    destruct (B2 mid Hr2 Hm2 id m1 Hb Hne) as [m2 [Hc E2]].
    exists m2. split; [assumption|congruence].
Qed.
Lemma RT_of_keeps : forall A (m : M A), keeps m -> keepsM m -> resp RT m.
Proof.
  intros A m Hs Hm s. repeat split; [apply Hs|intros; apply Hm|].
  intros mid _ _ id m0 H _. rewrite Hm. eauto.
Qed.

Lemma RT_index_targ : forall n a, resp RT (index_targ n a).
Proof.
  intros n [t i d]. unfold index_targ.
  apply (resp_bind RT RT_trans); [apply RT_of_keeps; auto with keeps keepsM|]. intros loc.
  apply (resp_bind RT RT_trans); [apply RT_of_keeps; auto with keeps keepsM|]. intros typ.
  apply (resp_bind RT RT_trans); [apply RT_of_keeps; auto with keeps keepsM|]. intros tid.
  apply (resp_state RT). intros s. unfold seq.
  match goal with
  | |- RT s (snd (?k (snd (?m s)))) =>
    apply RT_trans with (b := snd (m s)); [|apply (RT_of_keeps _ k); destruct d; ks; km]
  end.
  destruct (current_record_id s) as [rid|] eqn:Er.
  - apply RT_of_keeps; auto with keeps keepsM.
  - destruct (current_multiclass_id s) as [mid0|] eqn:Em; [|apply RT_of_keeps; auto with keeps keepsM].
    repeat split.
    + apply keeps_multiclass_mut.
    + intros H; congruence.
    + intros mid _ Hmid id m0 H Hne. assert (mid0 = mid) by congruence. subst mid0.
      unfold multiclass_mut. destruct (nthN (s_mcs s) mid) eqn:E; simpl; [|eauto].
      rewrite nthN_set_nth. replace (N.eqb mid id) with false by (symmetry; apply N.eqb_neq; congruence). eauto.
Qed.

(** ---- statements: relation between the state before and after *)
Definition RSB (mid : N) (s s' : st) : Prop :=
  (exists vs, s_scopes s' = add_vars vs (s_scopes s)) /\
  (current_record_id s = None -> current_multiclass_id s = Some mid ->
   mcs_pref_but mid (s_mcs s) (s_mcs s')).
Definition RS (s s' : st) : Prop :=
  (exists vs, s_scopes s' = add_vars vs (s_scopes s)) /\
  (current_record_id s = None -> mcs_pref (s_mcs s) (s_mcs s')).

Lemma RS_refl : forall s, RS s s.
Proof. intros s. split; [exists []; now rewrite add_vars_nil|intros; apply mcs_pref_refl]. Qed.
Lemma RS_trans : forall a b c, RS a b -> RS b c -> RS a c.
Proof.
  intros a b c [[v1 S1] A1] [[v2 S2] A2]. split.
  - exists (v2 ++ v1). now rewrite S2, S1, add_vars_app.
  - intros H. eapply mcs_pref_trans; [apply A1, H|apply A2].
    now rewrite (current_record_add_vars _ _ _ S1).
Qed.
Lemma RSB_refl : forall mid s, RSB mid s s.
Proof. intros mid s. split; [exists []; now rewrite add_vars_nil|]. intros _ _ id m0 H _. eauto. Qed.
Lemma RSB_trans : forall mid a b c, RSB mid a b -> RSB mid b c -> RSB mid a c.
Proof.
  intros mid a b c [[v1 S1] A1] [[v2 S2] A2]. split.
  - exists (v2 ++ v1). now rewrite S2, S1, add_vars_app.
  - intros Hr Hm id m0 H Hne.
    destruct (A1 Hr Hm _ _ H Hne) as [m1 [Hb E1]].
    assert (Hr2 : current_record_id b = None) by now rewrite (current_record_add_vars _ _ _ S1).
    assert (Hm2 : current_multiclass_id b = Some mid) by now rewrite (current_multiclass_add_vars _ _ _ S1).
    destruct (A2 Hr2 Hm2 _ _ Hb Hne) as [m2 [Hc E2]]. exists m2. split; [assumption|congruence].
Qed.
Lemma RS_RSB : forall mid A (m : M A), resp RS m -> resp (RSB mid) m.
Proof.
  intros mid A m H s. destruct (H s) as [Hs Hm]. split; [assumption|].
  intros Hr _ id m0 Hn _. apply (Hm Hr _ _ Hn).
Qed.
Lemma RT_RSB : forall mid A (m : M A), resp RT m -> resp (RSB mid) m.
Proof.
  intros mid A m H s. destruct (H s) as [Hs [_ Hm]]. split; [exists []; now rewrite add_vars_nil|].
  intros Hr Hmid. apply (Hm mid Hr Hmid).
Qed.
Lemma RS_of : forall A (m : M A), grows m -> prefM m -> resp RS m.
Proof. intros A m Hg Hp s. split; [apply Hg|intros _; apply Hp]. Qed.
Lemma RS_of_keeps : forall A (m : M A), keeps m -> keepsM m -> resp RS m.
Proof. intros. apply RS_of; [now apply keeps_grows|now apply keepsM_prefM]. Qed.

Definition nonrec (k : skind) : bool := match k with KRecord _ => false | _ => true end.

Lemma current_record_push : forall k s, nonrec k = true ->
    current_record_id (set_scopes (mkScope k [] :: s_scopes s) s) = current_record_id s.
Proof. intros k s H. unfold current_record_id; simpl. unfold sc_record_id; simpl. destruct k; try discriminate; reflexivity. Qed.

(** a block that is not a record body *)
Lemma RS_scoped_nonrec : forall A k (body : M A), nonrec k = true -> resp RS body -> resp RS (scoped k body).
Proof.
  intros A k body Hk Hb s. unfold scoped, seq, bind, try_, push_scope, upd; simpl.
  set (s1 := set_scopes (mkScope k [] :: s_scopes s) s).
  destruct (Hb s1) as [[vs Hvs] Hm]. simpl in Hvs.
  destruct (body s1) as [o s2]; simpl in *.
  assert (E : s_scopes (snd (pop_scope s2)) = s_scopes s /\ s_mcs (snd (pop_scope s2)) = s_mcs s2).
  { unfold pop_scope. rewrite Hvs. split; reflexivity. }
  destruct E as [E1 E2].
  split.
  - exists []. rewrite add_vars_nil. destruct o; simpl; exact E1.
  - intros Hr. replace (s_mcs (snd _)) with (s_mcs s2) by (destruct o; simpl; now rewrite E2).
    apply Hm. unfold s1. now rewrite current_record_push.
Qed.
(** a record body: nothing in it touches the multiclasses *)
Lemma RS_scoped_rec : forall A k (body : M A), grows body -> keepsM body -> resp RS (scoped k body).
Proof. intros. apply RS_of_keeps; [now apply keeps_scoped|now apply kM_scoped]. Qed.

Lemma kM_targs : forall n (o : option (list targ)) s, current_record_id s <> None ->
    s_mcs (snd ((match o with Some l => iterM (index_targ n) l | None => ret tt end) s)) = s_mcs s.
Proof.
  intros n [l|] s H; [|reflexivity].
  assert (G : resp RT (iterM (index_targ n) l)) by (apply (resp_iterM RT RT_refl RT_trans); intros; apply RT_index_targ).
  apply (G s), H.
Qed.

Lemma kM_index_parents_rec : forall n ps s, current_record_id s <> None ->
    s_mcs (snd (index_parents n ps s)) = s_mcs s.
Proof.
  intros n ps s H. unfold index_parents, bind, state, get; simpl.
  destruct (current_record_id s); [|congruence].
  apply kM_iterM. intros; km.
  repeat match goal with
         | |- keepsM (fun s' => match ?x with _ => _ end s') => destruct x
         end; km.
Qed.

Lemma kM_record_body : forall n ps b s, current_record_id s <> None ->
    s_mcs (snd (index_record_body n ps b s)) = s_mcs s.
Proof.
  intros. unfold index_record_body, seq.
  rewrite (kM_iterM _ _ (index_item n) b); [|intros; auto with keepsM].
  now apply kM_index_parents_rec.
Qed.

(** the body of a class / def statement, run in the pushed record scope *)
Lemma class_body_mcs : forall n rid (targs : option (list targ)) ps b s,
    s_mcs (snd (scoped (KRecord rid)
                  (seq (match targs with Some l => iterM (index_targ n) l | None => ret tt end)
                       (index_record_body n ps b)) s)) = s_mcs s.
Proof.
  intros. unfold scoped, seq, bind, try_, push_scope, upd; simpl.
  set (s1 := set_scopes (mkScope (KRecord rid) [] :: s_scopes s) s).
  assert (H1 : current_record_id s1 <> None) by (unfold s1, current_record_id; simpl; discriminate).
  pose proof (kM_targs n targs s1 H1) as E1.
  pose proof (keeps_targs n targs s1) as K1.
  set (s2 := snd ((match targs with Some l => iterM (index_targ n) l | None => ret tt end) s1)) in *.
  assert (H2 : current_record_id s2 <> None) by (unfold current_record_id in *; now rewrite K1).
  pose proof (kM_record_body n ps b s2 H2) as E2.
  destruct (index_record_body n ps b s2) as [o s3]; simpl in *.
  replace (s_mcs (snd _)) with (s_mcs s3).
  - rewrite E2, E1. reflexivity.
  - destruct o; simpl; unfold pop_scope; destruct (s_scopes s3); reflexivity.
Qed.
Lemma def_body_mcs : forall n rid ps b s,
    s_mcs (snd (scoped (KRecord rid) (index_record_body n ps b) s)) = s_mcs s.
Proof.
  intros. unfold scoped, seq, bind, try_, push_scope, upd; simpl.
  set (s1 := set_scopes (mkScope (KRecord rid) [] :: s_scopes s) s).
  assert (H1 : current_record_id s1 <> None) by (unfold s1, current_record_id; simpl; discriminate).
  pose proof (kM_record_body n ps b s1 H1) as E2.
  destruct (index_record_body n ps b s1) as [o s3]; simpl in *.
  replace (s_mcs (snd _)) with (s_mcs s3).
  - now rewrite E2.
  - destruct o; simpl; unfold pop_scope; destruct (s_scopes s3); reflexivity.
Qed.

Section StmtsFrame.
  Variable files : list (list stmt).
  Variable n : nat.
  Hypothesis IH : forall x, resp RS (index_stmt files n x).

  Lemma RS_stmts : forall l, resp RS (iterM (index_stmt files n) l).
  Proof. intros. apply (resp_iterM RS RS_refl RS_trans). intros; apply IH. Qed.

  Lemma RS_multiclass : forall i targs ps b, resp RS (index_stmt files (S n) (SMulticlass i targs ps b)).
  Proof.
    intros i targs ps b s. simpl.
    split; [apply (grows_index_stmt files (S n) (SMulticlass i targs ps b))|].
    intros Hr. simpl.
    unfold bind at 1. unfold here, get; simpl.
    set (loc := mkR (current_file s) (r_lo (i_rng i)) (r_hi (i_rng i))).
    unfold bind at 1. unfold add_multiclass at 1; simpl.
    set (mid := lenN (s_mcs s)).
    set (s1 := add_pos loc (SyMc mid) _).
    assert (Hs1 : s_scopes s1 = s_scopes s) by (unfold s1; now rewrite scopes_add_pos).
    assert (Hm1 : s_mcs s1 = s_mcs s ++ [mkMc (i_name i) [] [] loc]) by (unfold s1; now rewrite mcs_add_pos).
    (* the block *)
    unfold scoped, seq, bind, try_, push_scope, upd; simpl.
    set (s2 := set_scopes (mkScope (KMulticlass mid) [] :: s_scopes s1) s1).
    assert (Hr2 : current_record_id s2 = None).
    { unfold s2. rewrite current_record_push by reflexivity. unfold current_record_id in *. now rewrite Hs1. }
    assert (Hmid2 : current_multiclass_id s2 = Some mid) by reflexivity.
    assert (G : resp (RSB mid) (seq (match targs with Some l => iterM (index_targ n) l | None => ret tt end)
                                    (seq (index_parents n ps) (iterM (index_stmt files n) b)))).
    { apply (resp_seq _ (RSB_trans mid)).
      - apply RT_RSB. destruct targs; [|apply RT_of_keeps; auto with keeps keepsM].
        apply (resp_iterM RT RT_refl RT_trans); intros; apply RT_index_targ.
      - apply (resp_seq _ (RSB_trans mid)).
        + apply RS_RSB, RS_of; [apply keeps_grows; auto with keeps|apply prefM_index_parents].
        + apply RS_RSB, RS_stmts. }
    destruct (G s2) as [_ G2]. specialize (G2 Hr2 Hmid2).
    unfold seq in G2.
    set (s25 := snd (index_parents n ps (snd ((match targs with Some l => iterM (index_targ n) l | None => ret tt end) s2)))) in *.
    destruct (iterM (index_stmt files n) b s25) as [o s3]; simpl in *.
    intros id m0 H.
    assert (Hne : id <> mid).
    { intros ->. unfold mid, nthN, lenN in H. rewrite Nat2N.id in H.
      assert (nth_error (s_mcs s) (length (s_mcs s)) = None) by (apply nth_error_None; lia). congruence. }
    assert (H1 : nthN (s_mcs s2) id = Some m0) by (unfold s2; simpl; rewrite Hm1; now apply nthN_app_old).
    destruct (G2 _ _ H1 Hne) as [m' [Hb E']]. exists m'. split; [|assumption].
    unfold pop_scope. destruct (s_scopes s3); simpl; assumption.
  Qed.

  Lemma kM_def_id : forall nm r,
      keepsM (match nm with
              | Some v => bind (index_name_value v) (fun p => add_record (fst p) false (snd p))
              | None => seq next_anonymous (bind (here r) (fun loc => add_anonymous_def [] loc))
              end).
  Proof. intros [v|] r; km. Qed.
  Lemma kM_defm_id : forall nm r,
      keepsM (match nm with
              | Some v => bind (index_name_value v) (fun p => add_leaf (mkLeaf LDefm (fst p) MUnknown false (snd p)))
              | None => seq next_anonymous (bind (here r) (fun loc => add_leaf_nopos (mkLeaf LDefm [] MUnknown false loc)))
              end).
  Proof. intros [v|] r; km. Qed.
  Lemma keeps_def_id : forall nm r,
      keeps (match nm with
              | Some v => bind (index_name_value v) (fun p => add_record (fst p) false (snd p))
              | None => seq next_anonymous (bind (here r) (fun loc => add_anonymous_def [] loc))
              end).
  Proof. intros [v|] r; ks. Qed.
  Lemma keeps_defm_id : forall nm r,
      keeps (match nm with
              | Some v => bind (index_name_value v) (fun p => add_leaf (mkLeaf LDefm (fst p) MUnknown false (snd p)))
              | None => seq next_anonymous (bind (here r) (fun loc => add_leaf_nopos (mkLeaf LDefm [] MUnknown false loc)))
              end).
  Proof. intros [v|] r; ks. Qed.

  Lemma RS_stmt_S : forall x, resp RS (index_stmt files (S n) x).
  Proof.
    intros x.
    assert (Hb : forall A (m : M A) B (f : A -> M B), resp RS m -> (forall a, resp RS (f a)) -> resp RS (bind m f))
      by (intros; now apply (resp_bind RS RS_trans)).
    assert (Hq : forall A (m : M A) B (k : M B), resp RS m -> resp RS k -> resp RS (seq m k))
      by (intros; now apply (resp_seq RS RS_trans)).
    destruct x; simpl.
    - (* include *)
      destruct target as [f|]; [|apply RS_of_keeps; [ks|km]].
      apply (resp_state RS). intros s.
      destruct (existsb (N.eqb f) (s_indexed s)); [apply RS_refl|].
      revert s. change (resp RS (seq (upd (fun s => set_files (s_trace s) (f :: s_indexed s) s))
                                   (bind (lift (nthN files f)) (fun body => seq (push_file f)
                                      (seq (iterM (index_stmt files n) body) pop_file))))).
      apply Hq; [apply RS_of_keeps; [apply keeps_upd|apply kM_upd]; reflexivity|].
      apply Hb; [apply RS_of_keeps; auto with keeps keepsM|]. intros body.
      apply Hq; [apply RS_of_keeps; auto with keeps keepsM|].
      apply Hq; [apply RS_stmts|apply RS_of_keeps; auto with keeps keepsM].
    - (* assert *) apply RS_of_keeps; [ks|km].
    - (* class *)
      apply RS_of; [apply (grows_index_stmt files (S n) (SClass i targs parents body))|].
      apply keepsM_prefM. apply kM_bind; [auto with keepsM|]. intros loc.
      apply kM_bind; [auto with keepsM|]. intros rid. intros s. apply class_body_mcs.
    - (* def *)
      apply RS_of; [apply (grows_index_stmt files (S n) (SDef nm r parents body))|].
      apply keepsM_prefM. apply kM_bind; [apply kM_def_id|]. intros did s. apply def_body_mcs.
    - (* defm *)
      apply Hb; [apply RS_of_keeps; [apply keeps_defm_id|apply kM_defm_id]|]. intros did.
      apply RS_scoped_nonrec; [reflexivity|].
      apply RS_of; [apply keeps_grows; auto with keeps|apply prefM_index_parents].
    - (* defset *)
      apply Hb; [apply RS_of_keeps; auto with keeps keepsM|]. intros loc.
      apply Hb; [apply RS_of_keeps; auto with keeps keepsM|]. intros typ.
      apply Hb; [apply RS_of_keeps; auto with keeps keepsM|]. intros did.
      apply RS_scoped_nonrec; [reflexivity|apply RS_stmts].
    - (* defvar *) apply RS_of; [apply grows_index_defvar|apply keepsM_prefM; auto with keepsM].
    - (* dump *) apply RS_of_keeps; [ks|km].
    - (* foreach *)
      apply Hb; [apply RS_of_keeps; auto with keeps keepsM|]. intros loc.
      apply Hb; [apply RS_of_keeps; [ks|km]|]. intros typ.
      apply Hb; [apply RS_of_keeps; auto with keeps keepsM|]. intros vid.
      apply RS_scoped_nonrec; [reflexivity|apply RS_stmts].
    - (* if *)
      apply Hq; [apply RS_of_keeps; auto with keeps keepsM|].
      apply Hq; [apply RS_scoped_nonrec; [reflexivity|apply RS_stmts]|].
      apply (resp_iterM RS RS_refl RS_trans). intros. apply RS_scoped_nonrec; [reflexivity|apply RS_stmts].
    - (* let *)
      apply Hq; [apply RS_of_keeps; auto with keeps keepsM|].
      apply RS_scoped_nonrec; [reflexivity|apply RS_stmts].
    - (* multiclass *) apply (RS_multiclass i targs parents body).
  Qed.
End StmtsFrame.

Lemma RS_index_stmt : forall files n x, resp RS (index_stmt files n x).
Proof.
  intros files n. induction n as [|n IH]; intros x; [apply RS_of_keeps; simpl; auto with keeps keepsM|].
  apply RS_stmt_S, IH.
Qed.

(** ---------------------------------------------------------------------------------------------
    the local lookup after a block-like statement *)
Definition mc_scopes_valid (s : st) : Prop :=
  forall c mid, In c (s_scopes s) -> sc_kind c = KMulticlass mid -> nthN (s_mcs s) mid <> None.

Lemma no_record_scope : forall l, find_map sc_record_id l = None ->
    forall c rid, In c l -> sc_kind c <> KRecord rid.
Proof.
  induction l as [|a r IH]; simpl; intros H c rid Hc E; [contradiction|destruct Hc as [->|Hin]].
  - unfold sc_record_id in H. rewrite E in H. discriminate.
  - destruct (sc_record_id a); [discriminate|]. now apply (IH H c rid).
Qed.

Theorem locals_do_not_leak : forall files n x s nm,
    block_like x = true -> current_record_id s = None -> mc_scopes_valid s ->
    find_local (snd (index_stmt files n x s)) nm = find_local s nm.
Proof.
  intros files n x s nm Hx Hr Hv.
  pose proof (scopes_balanced files n x s Hx) as Hs.
  destruct (RS_index_stmt files n x s) as [_ Hm]. specialize (Hm Hr).
  set (s' := snd (index_stmt files n x s)) in *.
  unfold find_local. rewrite Hs.
  assert (G : forall l, (forall c, In c l -> In c (s_scopes s)) ->
                        find_map (fun c => scope_find s' c nm) l = find_map (fun c => scope_find s c nm) l).
  { induction l as [|c t IHl]; intros Hin; simpl; [reflexivity|].
    assert (E : scope_find s' c nm = scope_find s c nm).
    { unfold scope_find. destruct (sc_find_variable c nm); [reflexivity|].
      destruct (sc_kind c) eqn:Ek; try reflexivity.
      - exfalso. apply (no_record_scope _ Hr c id); [apply Hin; now left|assumption].
      - destruct (nthN (s_mcs s) id) as [m0|] eqn:E0.
        + destruct (Hm _ _ E0) as [m' [E1 E2]]. rewrite E1, E2. reflexivity.
        + exfalso. apply (Hv c id); [apply Hin; now left|assumption|assumption]. }
    rewrite E. destruct (scope_find s c nm); [reflexivity|]. apply IHl. intros; apply Hin; now right. }
  apply G. auto.
Qed.

(** a name that could not be resolved before the construct and that the construct did not define as a
    (global) def or defset cannot be resolved after it *)
Theorem out_of_scope_unresolved : forall files n x s nm,
    block_like x = true -> current_record_id s = None -> mc_scopes_valid s ->
    resolve_id s nm = None ->
    find_def (snd (index_stmt files n x s)) nm = None -> find_defset (snd (index_stmt files n x s)) nm = None ->
    resolve_id (snd (index_stmt files n x s)) nm = None.
Proof.
  intros files n x s nm Hx Hr Hv H Hd Hds. unfold resolve_id in *.
  rewrite (locals_do_not_leak files n x s nm Hx Hr Hv).
  destruct (find_local s nm); [discriminate|]. now rewrite Hd, Hds.
Qed.

(** a use of a name that does not resolve is reported at the use and records nothing *)
Theorem unresolved_use_reported : forall n i s,
    resolve_id s (i_name i) = None -> name_eqb (i_name i) name_NAME = false ->
    let loc := mkR (current_file s) (r_lo (i_rng i)) (r_hi (i_rng i)) in
    let '(o, s') := index_simple (S n) (SId i) s in
    o = None /\ s_diags s' = (loc, DSymbolNotFound) :: s_diags s /\ s_refs s' = s_refs s /\ s_pos s' = s_pos s.
Proof.
  intros n i s H Hn. simpl. unfold bind, here, state, get; simpl. rewrite H, Hn. simpl. auto.
Qed.
