(** ScopeSimRec: towards the agreement of the indexer model with ScopeSpec for ALL statements of the fragment
    (records included).  This file provides the relation that survives arena growth:
    - [LocR]: the declaration range of an existing symbol never changes (all programs);
    - [Pre2]: the relation between a specification environment and a model state, split into its local
      (frames / scope stack) and global (defs, defsets, classes, multiclasses) parts; it implies [Pre];
    - [globals_step]: what a block-like statement does to the lookups of its surroundings. *)
From Coq Require Import List NArith Bool Lia Arith.
From TG.Model Require Import CoreAst Scope BangOps Indexer ScopeSpec.
From TG.Proofs Require Import ScopeBalance ScopeFrame GenericResp ScopeSim ScopeSimStmt.
Import ListNotations.
Open Scope N_scope.

(** ---- the declaration range of an existing symbol never changes *)
Definition LocR (s s' : st) : Prop :=
  forall sym d, define_loc s sym = Some d -> define_loc s' sym = Some d.
Lemma LocR_refl : forall s, LocR s s. Proof. intros s sym d H; exact H. Qed.
Lemma LocR_trans : forall a b c, LocR a b -> LocR b c -> LocR a c.
Proof. intros a b c H1 H2 sym d H. auto. Qed.

Lemma define_loc_app_recs : forall s r sym d,
    define_loc s sym = Some d -> define_loc (set_recs (s_recs s ++ [r]) s) sym = Some d.
Proof.
  intros s r sym d H. destruct sym; simpl in *; auto.
  destruct (nthN (s_recs s) i) eqn:E; [|discriminate]. now rewrite (nthN_app_some _ _ [r] _ _ E).
Qed.
Lemma define_loc_app_leaves : forall s l sym d,
    define_loc s sym = Some d -> define_loc (set_leaves (s_leaves s ++ [l]) s) sym = Some d.
Proof.
  intros s l sym d H. destruct sym; simpl in *; auto.
  destruct (nthN (s_leaves s) i) eqn:E; [|discriminate]. now rewrite (nthN_app_some _ _ [l] _ _ E).
Qed.
Lemma define_loc_app_mcs : forall s m sym d,
    define_loc s sym = Some d -> define_loc (set_mcs (s_mcs s ++ [m]) s) sym = Some d.
Proof.
  intros s m sym d H. destruct sym; simpl in *; auto.
  destruct (nthN (s_mcs s) i) eqn:E; [|discriminate]. now rewrite (nthN_app_some _ _ [m] _ _ E).
Qed.
Lemma define_loc_add_pos : forall r id s sym, define_loc (add_pos r id s) sym = define_loc s sym.
Proof. intros. unfold add_pos. destruct (rng_empty r); reflexivity. Qed.

Lemma LocR_record_mut : forall id g, (forall r, rc_loc (g r) = rc_loc r) -> resp LocR (record_mut id g).
Proof.
  intros id g Hg s sym d H. unfold record_mut. destruct (nthN (s_recs s) id) eqn:E; simpl; [|exact H].
  destruct sym; simpl in *; auto.
  rewrite nthN_set_nth. destruct (N.eqb id i) eqn:Ei; [|exact H].
  destruct (nthN (s_recs s) i); simpl in *; [|discriminate]. now rewrite Hg.
Qed.
Lemma LocR_multiclass_mut : forall id g, (forall m, mc_loc (g m) = mc_loc m) -> resp LocR (multiclass_mut id g).
Proof.
  intros id g Hg s sym d H. unfold multiclass_mut. destruct (nthN (s_mcs s) id) eqn:E; simpl; [|exact H].
  destruct sym; simpl in *; auto.
  rewrite nthN_set_nth. destruct (N.eqb id i) eqn:Ei; [|exact H].
  destruct (nthN (s_mcs s) i); simpl in *; [|discriminate]. now rewrite Hg.
Qed.

Ltac locr_same := let s := fresh "s" in let sym := fresh "sym" in let d := fresh "d" in let H := fresh "H" in
  intros s sym d H; simpl; rewrite ?define_loc_add_pos; simpl; exact H.

Lemma LocR_index_stmt : forall files n x, resp LocR (index_stmt files n x).
Proof.
  apply (r_index_stmt LocR LocR_refl LocR_trans).
  - intros A. locr_same.
  - intros r k. locr_same.
  - intros id l. unfold add_reference, upd. locr_same.
  - intros n c l s sym d H. unfold add_record; simpl. rewrite define_loc_add_pos.
    destruct c; simpl; apply (define_loc_app_recs s _ sym d H).
  - intros n l s sym d H. simpl. apply (define_loc_app_recs s _ sym d H).
  - intros l s sym d H. unfold add_leaf; simpl. rewrite define_loc_add_pos. apply (define_loc_app_leaves s _ sym d H).
  - intros l s sym d H. simpl. apply (define_loc_app_leaves s _ sym d H).
  - intros l s sym d H. unfold add_defset; simpl. rewrite define_loc_add_pos. simpl.
    apply (define_loc_app_leaves s _ sym d H).
  - intros n l s sym d H. unfold add_multiclass; simpl. rewrite define_loc_add_pos. simpl.
    apply (define_loc_app_mcs s _ sym d H).
  - intros id n t. apply LocR_record_mut. reflexivity.
  - intros id n t. apply LocR_record_mut. reflexivity.
  - intros id p. apply LocR_record_mut. reflexivity.
  - intros id n t. apply LocR_multiclass_mut. reflexivity.
  - intros id p. apply LocR_multiclass_mut. reflexivity.
  - intros k. locr_same.
  - intros s sym d H. unfold pop_scope. destruct (s_scopes s); simpl; exact H.
  - intros l. unfold scopes_add_variable. apply (resp_bind LocR LocR_trans).
    + intros s sym d H. unfold add_leaf; simpl. rewrite define_loc_add_pos. apply (define_loc_app_leaves s _ sym d H).
    + intros id s sym d H. destruct (s_scopes s); simpl; exact H.
  - intros f. locr_same.
  - intros s sym d H. unfold pop_file. destruct (s_trace s); simpl; exact H.
  - locr_same.
  - intros f. locr_same.
Qed.

(** ---------------------------------------------------------------------------------------------
    the relation, split into locals and globals *)
Definition locals_of (e : env) (nm : name) : option rng := first_some (frame_lookup nm) (e_frames e).

Record Pre2 (f : N) (e : env) (s : st) : Prop := mkPre2 {
  p2_file : current_file s = f;
  p2_loc_some : forall nm d, locals_of e nm = Some d ->
                             exists sym, find_local s nm = Some sym /\ define_loc s sym = Some d;
  p2_loc_none : forall nm, locals_of e nm = None -> find_local s nm = None;
  p2_def_some : forall nm d, lookup nm (e_defs e) = Some d ->
                             exists id, find_def s nm = Some id /\ define_loc s (SyRecord id) = Some d;
  p2_def_none : forall nm, lookup nm (e_defs e) = None -> find_def s nm = None;
  p2_dset_some : forall nm d, lookup nm (e_dsets e) = Some d ->
                              exists id, find_defset s nm = Some id /\ define_loc s (SyLeaf id) = Some d;
  p2_dset_none : forall nm, lookup nm (e_dsets e) = None -> find_defset s nm = None;
  p2_cls_some : forall nm d, lookup_class e nm = Some d -> class_view s nm = Some d;
  p2_cls_none : forall nm, lookup_class e nm = None -> find_class s nm = None;
  p2_mc_some : forall nm d, lookup_mc e nm = Some d -> mc_view s nm = Some d;
  p2_mc_none : forall nm, lookup_mc e nm = None -> find_multiclass s nm = None }.

Lemma Pre2_Pre : forall f e s, Pre2 f e s -> Pre f e s.
Proof.
  intros f e s [F L1 L2 D1 D2 S1 S2 C1 C2 M1 M2]. split; auto.
  - intros nm d H. unfold lookup_id in H. fold (locals_of e nm) in H. unfold lookup_view, resolve_id.
    destruct (locals_of e nm) as [d0|] eqn:El.
    + injection H as <-. destruct (L1 nm d0 El) as [sym [Hs Hd]]. now rewrite Hs.
    + rewrite (L2 nm El). destruct (lookup nm (e_defs e)) as [d1|] eqn:Ed.
      * injection H as <-. destruct (D1 nm d1 Ed) as [id [Hs Hd]]. now rewrite Hs.
      * rewrite (D2 nm Ed). destruct (S1 nm d H) as [id [Hs Hd]]. rewrite Hs. exact Hd.
  - intros nm H. unfold lookup_id in H. fold (locals_of e nm) in H. unfold resolve_id.
    destruct (locals_of e nm) as [d0|] eqn:El; [discriminate|]. rewrite (L2 nm El).
    destruct (lookup nm (e_defs e)) as [d1|] eqn:Ed; [discriminate|]. rewrite (D2 nm Ed).
    now rewrite (S2 nm H).
Qed.

Lemma Pre2_initial : Pre2 0 env0 st0.
Proof. split; try reflexivity; intros; discriminate. Qed.

Lemma find_local_eq : forall s s' nm,
    s_scopes s' = s_scopes s -> s_recs s' = s_recs s -> s_mcs s' = s_mcs s -> find_local s' nm = find_local s nm.
Proof.
  intros s s' nm Hs Hr Hm. unfold find_local. rewrite Hs.
  apply find_map_ext. intros c. now apply scope_find_eq.
Qed.

(** values (and anything else that respects VR and the scope stack) keep the relation *)
Lemma Pre2_VR : forall f e s s', Pre2 f e s -> VR s s' -> s_scopes s' = s_scopes s -> Pre2 f e s'.
Proof.
  intros f e s s' [F L1 L2 D1 D2 S1 S2 C1 C2 M1 M2] V Hs.
  pose proof V as (Hr & Hm & Hc & Hd & Hmc & Hds & Ht & Hl).
  assert (FL : forall nm, find_local s' nm = find_local s nm) by (intros; now apply find_local_eq).
  split.
  - unfold current_file in *. now rewrite Ht.
  - intros nm d H. destruct (L1 nm d H) as [sym [A B]]. exists sym. rewrite FL. split; [exact A|].
    now apply (define_loc_ext s s').
  - intros nm H. rewrite FL. now apply L2.
  - intros nm d H. destruct (D1 nm d H) as [id [A B]]. exists id. unfold find_def in *. rewrite Hd.
    split; [exact A|]. now apply (define_loc_ext s s').
  - intros nm H. unfold find_def in *. rewrite Hd. now apply D2.
  - intros nm d H. destruct (S1 nm d H) as [id [A B]]. exists id. unfold find_defset in *. rewrite Hds.
    split; [exact A|]. now apply (define_loc_ext s s').
  - intros nm H. unfold find_defset in *. rewrite Hds. now apply S2.
  - intros nm d H. specialize (C1 nm d H). unfold class_view, find_class in *. now rewrite Hc, Hr.
  - intros nm H. unfold find_class in *. rewrite Hc. now apply C2.
  - intros nm d H. specialize (M1 nm d H). unfold mc_view, find_multiclass in *. now rewrite Hmc, Hm.
  - intros nm H. unfold find_multiclass in *. rewrite Hmc. now apply M2.
Qed.
Lemma Pre2_Step : forall f e s s' E, Pre2 f e s -> Step s s' E -> Pre2 f e s'.
Proof. intros f e s s' E P [_ V S _]. eapply Pre2_VR; eassumption. Qed.

(** ---------------------------------------------------------------------------------------------
    statement level *)
Record Stat (s : st) : Prop := mkStat {
  sta_norec : current_record_id s = None;
  sta_mcv : mc_scopes_valid s;
  sta_ne : s_scopes s <> [] }.

Record ResB (f : N) (s s' : st) (E : list ev) (e' : env) : Prop := mkResB {
  rb_uses : s_uses s' = rev E ++ s_uses s;
  rb_nf : nf s' = nf s;
  rb_scopes : exists vs, s_scopes s' = add_vars vs (s_scopes s);
  rb_pre : Pre2 f e' s';
  rb_stat : Stat s';
  rb_frames : e_frames e' <> [] }.

(** two states that differ at most in their scope stacks *)
Definition same_but_scopes (a b : st) : Prop :=
  s_trace a = s_trace b /\ s_recs a = s_recs b /\ s_mcs a = s_mcs b /\ s_leaves a = s_leaves b /\
  s_nclass a = s_nclass b /\ s_ndef a = s_ndef b /\ s_nmc a = s_nmc b /\ s_ndset a = s_ndset b /\
  s_uses a = s_uses b /\ s_diags a = s_diags b.

Lemma define_loc_sbs : forall a b sym, same_but_scopes a b -> define_loc a sym = define_loc b sym.
Proof. intros a b sym (_ & Hr & Hm & Hl & _). destruct sym; simpl; congruence. Qed.

Lemma mc_valid_after : forall s s', s_scopes s' = s_scopes s -> mcs_pref (s_mcs s) (s_mcs s') ->
    mc_scopes_valid s -> mc_scopes_valid s'.
Proof.
  intros s s' Hs Hp Hv c mid Hin Hk. rewrite Hs in Hin. specialize (Hv c mid Hin Hk).
  destruct (nthN (s_mcs s) mid) as [m0|] eqn:E; [|congruence].
  destruct (Hp _ _ E) as [m' [E' _]]. congruence.
Qed.

(** the global half of the relation *)
Record Pre2g (f : N) (e : env) (s : st) : Prop := mkPre2g {
  g_file : current_file s = f;
  g_def_some : forall nm d, lookup nm (e_defs e) = Some d ->
                            exists id, find_def s nm = Some id /\ define_loc s (SyRecord id) = Some d;
  g_def_none : forall nm, lookup nm (e_defs e) = None -> find_def s nm = None;
  g_dset_some : forall nm d, lookup nm (e_dsets e) = Some d ->
                             exists id, find_defset s nm = Some id /\ define_loc s (SyLeaf id) = Some d;
  g_dset_none : forall nm, lookup nm (e_dsets e) = None -> find_defset s nm = None;
  g_cls_some : forall nm d, lookup_class e nm = Some d -> class_view s nm = Some d;
  g_cls_none : forall nm, lookup_class e nm = None -> find_class s nm = None;
  g_mc_some : forall nm d, lookup_mc e nm = Some d -> mc_view s nm = Some d;
  g_mc_none : forall nm, lookup_mc e nm = None -> find_multiclass s nm = None }.
Lemma Pre2_g : forall f e s, Pre2 f e s -> Pre2g f e s.
Proof. intros f e s [F L1 L2 D1 D2 S1 S2 C1 C2 M1 M2]. split; auto. Qed.
Lemma Pre2g_globals : forall f e e' s, same_globals e e' -> Pre2g f e s -> Pre2g f e' s.
Proof.
  intros f e e' s (G1 & G2 & G3 & G4) [F D1 D2 S1 S2 C1 C2 M1 M2].
  assert (Hcl : forall nm, lookup_class e' nm = lookup_class e nm) by (intros; unfold lookup_class; now rewrite G1).
  assert (Hmcl : forall nm, lookup_mc e' nm = lookup_mc e nm) by (intros; unfold lookup_mc; now rewrite G2).
  split; auto.
  - intros nm d H. rewrite G3 in H. auto.
  - intros nm H. rewrite G3 in H. auto.
  - intros nm d H. rewrite G4 in H. auto.
  - intros nm H. rewrite G4 in H. auto.
  - intros nm d H. rewrite Hcl in H. auto.
  - intros nm H. rewrite Hcl in H. auto.
  - intros nm d H. rewrite Hmcl in H. auto.
  - intros nm H. rewrite Hmcl in H. auto.
Qed.

(** after a block-like statement whose body ended in [s_in] (related to [e1]): the locals are those of before
    the statement, the globals those of the end of the body *)
Lemma finish_block_like : forall files n x f e e1 e' s s_in E,
    block_like x = true -> Stat s -> Pre2 f e s -> e_frames e <> [] ->
    e_frames e' = e_frames e -> same_globals e1 e' ->
    Pre2g f e1 s_in -> same_but_scopes (snd (index_stmt files n x s)) s_in ->
    s_uses s_in = rev E ++ s_uses s -> nf s_in = nf s ->
    ResB f s (snd (index_stmt files n x s)) E e'.
Proof.
  intros files n x f e e1 e' s s_in E Hx [Hnr Hmv Hne] P He Hfr (G1 & G2 & G3 & G4) P1 SB HU HN.
  assert (Hloc : forall nm, locals_of e' nm = locals_of e nm) by (intros; unfold locals_of; now rewrite Hfr).
  assert (Hcl : forall nm, lookup_class e' nm = lookup_class e1 nm) by (intros; unfold lookup_class; now rewrite G1).
  assert (Hmcl : forall nm, lookup_mc e' nm = lookup_mc e1 nm) by (intros; unfold lookup_mc; now rewrite G2).
  set (s' := snd (index_stmt files n x s)) in *.
  pose proof (scopes_balanced files n x s Hx) as Hsc. fold s' in Hsc.
  pose proof (LocR_index_stmt files n x s) as HL. fold s' in HL.
  destruct (RS_index_stmt files n x s) as [_ Hpm]. fold s' in Hpm. specialize (Hpm Hnr).
  assert (FL : forall nm, find_local s' nm = find_local s nm)
    by (intros; apply locals_do_not_leak; assumption).
  pose proof SB as (Ht & Hr & Hm & Hl & Hc & Hd & Hmc & Hds & Hu & Hdg).
  destruct P as [F L1 L2 D1 D2 S1 S2 C1 C2 M1 M2].
  destruct P1 as [F' D1' D2' S1' S2' C1' C2' M1' M2'].
  split.
  - now rewrite Hu.
  - unfold nf in *. now rewrite Hdg.
  - exists []. now rewrite add_vars_nil.
  - split.
    + unfold current_file in *. now rewrite Ht.
    + intros nm d H. rewrite Hloc in H. destruct (L1 nm d H) as [sym [A B]]. exists sym. rewrite FL.
      split; [exact A|now apply HL].
    + intros nm H. rewrite Hloc in H. rewrite FL. now apply L2.
    + intros nm d H. rewrite G3 in H. destruct (D1' nm d H) as [id [A B]]. exists id. unfold find_def in *. rewrite Hd.
      split; [exact A|]. now rewrite (define_loc_sbs s' s_in).
    + intros nm H. rewrite G3 in H. unfold find_def in *. rewrite Hd. now apply D2'.
    + intros nm d H. rewrite G4 in H. destruct (S1' nm d H) as [id [A B]]. exists id. unfold find_defset in *.
      rewrite Hds. split; [exact A|]. now rewrite (define_loc_sbs s' s_in).
    + intros nm H. rewrite G4 in H. unfold find_defset in *. rewrite Hds. now apply S2'.
    + intros nm d H. rewrite Hcl in H. specialize (C1' nm d H). unfold class_view, find_class in *. now rewrite Hc, Hr.
    + intros nm H. rewrite Hcl in H. unfold find_class in *. rewrite Hc. now apply C2'.
    + intros nm d H. rewrite Hmcl in H. specialize (M1' nm d H). unfold mc_view, find_multiclass in *. now rewrite Hmc, Hm.
    + intros nm H. rewrite Hmcl in H. unfold find_multiclass in *. rewrite Hmc. now apply M2'.
  - split.
    + unfold current_record_id in *. now rewrite Hsc.
    + now apply (mc_valid_after s s').
    + now rewrite Hsc.
  - now rewrite Hfr.
Qed.

(** ---- Pre2 under the scope operations *)
Lemma find_local_pushed : forall k s nm, plain_kind k = true -> find_local (pushed k s) nm = find_local s nm.
Proof.
  intros k s nm Hk. unfold find_local, pushed; simpl.
  unfold scope_find at 1, sc_find_variable; simpl. destruct k; try discriminate; reflexivity.
Qed.
Lemma define_loc_pushed : forall k s sym, define_loc (pushed k s) sym = define_loc s sym.
Proof. intros. destruct sym; reflexivity. Qed.

Lemma Pre2_pushed : forall f e s k, Pre2 f e s -> plain_kind k = true -> Pre2 f (push_vars e []) (pushed k s).
Proof.
  intros f e s k [F L1 L2 D1 D2 S1 S2 C1 C2 M1 M2] Hk. split; auto.
  - intros nm d H. change (locals_of (push_vars e []) nm) with (locals_of e nm) in H.
    destruct (L1 nm d H) as [sym [A B]]. exists sym. rewrite find_local_pushed by assumption. auto.
  - intros nm H. change (locals_of (push_vars e []) nm) with (locals_of e nm) in H.
    rewrite find_local_pushed by assumption. now apply L2.
Qed.
Lemma Stat_pushed : forall k s, Stat s -> plain_kind k = true -> Stat (pushed k s).
Proof.
  intros k s [A B C] Hk. split.
  - unfold current_record_id, pushed in *; simpl. unfold sc_record_id at 1; simpl. destruct k; try discriminate; exact A.
  - intros c mid [<-|Hin] Hc; simpl in *.
    + destruct k; try discriminate.
    + apply (B c mid Hin Hc).
  - discriminate.
Qed.

Lemma find_local_pushed_foreach : forall nmv vid s nm,
    find_local (pushed (KForeach nmv vid) s) nm
    = if name_eqb nm nmv then Some (SyLeaf vid) else find_local s nm.
Proof.
  intros. unfold find_local, pushed; simpl.
  unfold scope_find at 1, sc_find_variable; simpl. destruct (name_eqb nm nmv); reflexivity.
Qed.
Lemma Pre2_pushed_foreach : forall f e s i vid loc,
    Pre2 f e s -> option_map lf_loc (nthN (s_leaves s) vid) = Some loc ->
    Pre2 f (push_vars e [(i_name i, loc)]) (pushed (KForeach (i_name i) vid) s).
Proof.
  intros f e s i vid loc [F L1 L2 D1 D2 S1 S2 C1 C2 M1 M2] Hl. split; auto.
  - intros nm d H. unfold locals_of, push_vars in H. simpl in H. unfold frame_lookup at 1 in H. simpl in H.
    rewrite find_local_pushed_foreach. destruct (name_eqb nm (i_name i)).
    + injection H as <-. exists (SyLeaf vid). split; [reflexivity|exact Hl].
    + destruct (L1 nm d H) as [sym [A B]]. exists sym. auto.
  - intros nm H. unfold locals_of, push_vars in H. simpl in H. unfold frame_lookup at 1 in H. simpl in H.
    rewrite find_local_pushed_foreach. destruct (name_eqb nm (i_name i)); [discriminate|]. now apply L2.
Qed.
Lemma Stat_pushed_foreach : forall nmv vid s, Stat s -> Stat (pushed (KForeach nmv vid) s).
Proof.
  intros nmv vid s [A B C]. split.
  - unfold current_record_id, pushed in *; simpl. exact A.
  - intros c mid [<-|Hin] Hc; simpl in *; [discriminate|apply (B c mid Hin Hc)].
  - discriminate.
Qed.

Lemma find_local_with_var : forall s l c t nm, s_scopes s = c :: t ->
    find_local (with_var s l) nm
    = if name_eqb nm (lf_name l) then Some (SyLeaf (lenN (s_leaves s))) else find_local s nm.
Proof.
  intros s l c t nm Hs. destruct (with_var_facts s l c t Hs) as (Hsc & Hl & _ & _ & V).
  pose proof V as (Hr & Hm & _).
  unfold find_local. rewrite Hsc, Hs. simpl.
  rewrite (scope_find_add s (with_var s l) c (lf_name l) (lenN (s_leaves s)) nm Hr Hm).
  destruct (name_eqb nm (lf_name l)); [reflexivity|].
  rewrite (find_map_ext _ _ (fun c0 => scope_find (with_var s l) c0 nm) (fun c0 => scope_find s c0 nm));
    [reflexivity|]. intros c0. apply scope_find_eq; assumption.
Qed.
Lemma locals_of_add_var : forall e n r nm, e_frames e <> [] ->
    locals_of (add_var e n r) nm = if name_eqb nm n then Some r else locals_of e nm.
Proof.
  intros e n r nm H. unfold locals_of, add_var. destruct (e_frames e) as [|fr t]; [congruence|]. simpl.
  unfold frame_lookup at 1. simpl. destruct (name_eqb nm n); reflexivity.
Qed.
Lemma globals_add_var : forall e n r,
    e_defs (add_var e n r) = e_defs e /\ e_dsets (add_var e n r) = e_dsets e.
Proof. intros. unfold add_var. destruct (e_frames e); split; reflexivity. Qed.

Lemma Pre2_with_var : forall f e s nm ty c t,
    Pre2 f e s -> s_scopes s = c :: t -> e_frames e <> [] ->
    let loc := mkR f (r_lo (i_rng nm)) (r_hi (i_rng nm)) in
    Pre2 f (add_var e (i_name nm) loc) (with_var s (mkLeaf LVar (i_name nm) ty false loc)).
Proof.
  intros f e s nm ty c t P Hs He loc.
  set (l := mkLeaf LVar (i_name nm) ty false loc).
  destruct (with_var_facts s l c t Hs) as (Hsc & Hl & _ & _ & V).
  destruct P as [F L1 L2 D1 D2 S1 S2 C1 C2 M1 M2].
  pose proof V as (Hr & Hm & Hc & Hd & Hmc & Hds & Ht & _).
  destruct (globals_add_var e (i_name nm) loc) as [Gd Gs].
  split.
  - unfold current_file in *. now rewrite Ht.
  - intros n0 d H. rewrite locals_of_add_var in H by assumption.
    rewrite (find_local_with_var s l c t n0 Hs). simpl.
    destruct (name_eqb n0 (i_name nm)).
    + injection H as <-. exists (SyLeaf (lenN (s_leaves s))). split; [reflexivity|].
      simpl. rewrite Hl, nthN_app_last. reflexivity.
    + destruct (L1 n0 d H) as [sym [A B]]. exists sym. split; [exact A|now apply (define_loc_ext s _ _ _ V)].
  - intros n0 H. rewrite locals_of_add_var in H by assumption.
    rewrite (find_local_with_var s l c t n0 Hs). simpl.
    destruct (name_eqb n0 (i_name nm)); [discriminate|]. now apply L2.
  - intros n0 d H. rewrite Gd in H. destruct (D1 n0 d H) as [id [A B]]. exists id. unfold find_def in *. rewrite Hd.
    split; [exact A|now apply (define_loc_ext s _ _ _ V)].
  - intros n0 H. rewrite Gd in H. unfold find_def in *. rewrite Hd. now apply D2.
  - intros n0 d H. rewrite Gs in H. destruct (S1 n0 d H) as [id [A B]]. exists id. unfold find_defset in *. rewrite Hds.
    split; [exact A|now apply (define_loc_ext s _ _ _ V)].
  - intros n0 H. rewrite Gs in H. unfold find_defset in *. rewrite Hds. now apply S2.
  - intros n0 d H. rewrite lookup_class_add_var in H.
    specialize (C1 n0 d H). unfold class_view, find_class in *. now rewrite Hc, Hr.
  - intros n0 H. rewrite lookup_class_add_var in H. unfold find_class in *. rewrite Hc. now apply C2.
  - intros n0 d H. rewrite lookup_mc_add_var in H.
    specialize (M1 n0 d H). unfold mc_view, find_multiclass in *. now rewrite Hmc, Hm.
  - intros n0 H. rewrite lookup_mc_add_var in H. unfold find_multiclass in *. rewrite Hmc. now apply M2.
Qed.

(** ---------------------------------------------------------------------------------------------
    fragment B: all statements; class / def without parent classes (inheritance is the next stage) *)
Fixpoint fragB_stmt (x : stmt) : bool :=
  let stmts := fix go (l : list stmt) : bool := match l with [] => true | y :: r => fragB_stmt y && go r end in
  match x with
  | SInclude _ _ => false
  | SAssert c m => frag_value c && frag_value m
  | SClass _ targs ps b =>
    match targs with Some l => forallb frag_targ l | None => true end
    && match ps with [] => true | _ => false end && forallb frag_item b
  | SDef nm _ ps b => frag_name nm && match ps with [] => true | _ => false end && forallb frag_item b
  | SDefm nm _ ps => frag_name nm && forallb frag_classref ps
  | SDefset _ _ b => stmts b
  | SDefvar _ v | SDump v => frag_value v
  | SForeach _ init b => match init with FeRange => true | FeValue v => frag_value v end && stmts b
  | SIf c th el => frag_value c && stmts th && match el with Some b => stmts b | None => true end
  | SLet vs b => forallb frag_value vs && stmts b
  | SMulticlass _ targs ps b =>
    match targs with Some l => forallb frag_targ l | None => true end
    && forallb frag_classref ps && stmts b
  end.
Fixpoint fragB_stmts (l : list stmt) : bool :=
  match l with [] => true | y :: r => fragB_stmt y && fragB_stmts r end.
Lemma fragB_local : forall l,
    (fix go (l : list stmt) : bool := match l with [] => true | y :: r => fragB_stmt y && go r end) l = fragB_stmts l.
Proof. induction l as [|y r IH]; [reflexivity|]. simpl. now rewrite IH. Qed.

Definition sim_B (files : list (list stmt)) (n : nat) : Prop := forall x f e s,
    fragB_stmt x = true -> Pre2 f e s -> Stat s -> e_frames e <> [] ->
    forallb resolved (fst (spec_stmt f e x)) = true ->
    s_bad (snd (index_stmt files n x s)) = false ->
    ResB f s (snd (index_stmt files n x s)) (fst (spec_stmt f e x)) (snd (spec_stmt f e x)).

Lemma ResB_trans : forall f a b c E1 E2 e1 e2,
    ResB f a b E1 e1 -> ResB f b c E2 e2 -> ResB f a c (E1 ++ E2) e2.
Proof.
  intros f a b c E1 E2 e1 e2 [U1 N1 [v1 S1] _ _ _] [U2 N2 [v2 S2] P2 T2 F2]. split; auto.
  - rewrite U2, U1, rev_app_distr, app_assoc. reflexivity.
  - congruence.
  - exists (v2 ++ v1). now rewrite S2, S1, add_vars_app.
Qed.

Lemma stmtsB_sim : forall files n, sim_B files n -> forall l f e s,
    fragB_stmts l = true -> Pre2 f e s -> Stat s -> e_frames e <> [] ->
    forallb resolved (fst (spec_stmts f e l)) = true ->
    s_bad (snd (iterM (index_stmt files n) l s)) = false ->
    ResB f s (snd (iterM (index_stmt files n) l s)) (fst (spec_stmts f e l)) (snd (spec_stmts f e l)).
Proof.
  intros files n IH l. induction l as [|y r IHl]; intros f e s Hf P T He HR Hb.
  - simpl. split; auto. exists []. now rewrite add_vars_nil.
  - simpl in Hf. apply andb_true_iff in Hf. destruct Hf as [Hf1 Hf2].
    rewrite spec_stmts_cons in *. simpl in Hb |- *. unfold seq in *.
    destruct (spec_stmt f e y) as [ev1 e1] eqn:E1.
    destruct (spec_stmts f e1 r) as [ev2 e2] eqn:E2. simpl in *.
    rewrite forallb_app in HR. apply andb_true_iff in HR. destruct HR as [HR1 HR2].
    assert (Hb1 : s_bad (snd (index_stmt files n y s)) = false)
      by (eapply (bad_false_before _ (iterM (index_stmt files n) r)); [apply BM_stmts|exact Hb]).
    pose proof (IH y f e s Hf1 P T He) as R1. rewrite E1 in R1. simpl in R1. specialize (R1 HR1 Hb1).
    pose proof R1 as [_ _ _ P1 T1 F1].
    pose proof (IHl f e1 (snd (index_stmt files n y s)) Hf2 P1 T1 F1) as R2.
    rewrite E2 in R2. simpl in R2. specialize (R2 HR2 Hb).
    eapply ResB_trans; eassumption.
Qed.

Lemma Stat_same_scopes : forall s s', Stat s -> s_scopes s' = s_scopes s -> s_mcs s' = s_mcs s -> Stat s'.
Proof.
  intros s s' [A B C] Hs Hm. split.
  - unfold current_record_id in *. now rewrite Hs.
  - intros c mid Hin Hk. rewrite Hs in Hin. rewrite Hm. apply (B c mid Hin Hk).
  - now rewrite Hs.
Qed.
Lemma ResB_of_Step : forall f e s s' E,
    Step s s' E -> Pre2 f e s -> Stat s -> e_frames e <> [] -> ResB f s s' E e.
Proof.
  intros f e s s' E St P T He. pose proof St as [U V S N]. split; auto.
  - exists []. now rewrite add_vars_nil.
  - eapply Pre2_Step; eassumption.
  - destruct V as (_ & Hm & _). eapply Stat_same_scopes; eassumption.
Qed.

Lemma scoped_final : forall A k (body : M A) s vs,
    s_scopes (snd (body (pushed k s))) = add_vars vs (s_scopes (pushed k s)) ->
    snd (scoped k body s) = set_scopes (s_scopes s) (snd (body (pushed k s))).
Proof.
  intros A k body s vs H. unfold scoped, seq, bind, try_, push_scope, upd; simpl. fold (pushed k s).
  destruct (body (pushed k s)) as [o s2]; simpl in *. unfold lift, pop_scope. rewrite H. reflexivity.
Qed.
Lemma sbs_set_scopes : forall sc s, same_but_scopes (set_scopes sc s) s.
Proof. intros. repeat split. Qed.
Lemma same_globals_leave : forall e e1, same_globals e1 (leave e e1).
Proof. intros. repeat split. Qed.

Section CasesB.
  Variable files : list (list stmt).
  Variable n : nat.
  Hypothesis IH : sim_B files n.

  Lemma block_B : forall b f e s,
      fragB_stmts b = true -> Pre2 f e s -> Stat s -> e_frames e <> [] ->
      forallb resolved (fst (spec_stmts f (push_vars e []) b)) = true ->
      s_bad (snd (scoped KBlock (iterM (index_stmt files n) b) s)) = false ->
      ResB f s (snd (scoped KBlock (iterM (index_stmt files n) b) s))
           (fst (spec_stmts f (push_vars e []) b)) (leave e (snd (spec_stmts f (push_vars e []) b))).
  Proof.
    intros b f e s Hf P T He HR Hb.
    assert (Hb' := Hb). apply scoped_bad in Hb'.
    pose proof (stmtsB_sim files n IH b f (push_vars e []) (pushed KBlock s) Hf
                           (Pre2_pushed f e s KBlock P eq_refl) (Stat_pushed KBlock s T eq_refl)) as R.
    destruct R as [U N [vs Sc] P1 T1 F1]; auto; [discriminate|].
    change (snd (scoped KBlock (iterM (index_stmt files n) b) s))
      with (snd (index_stmt files (S n) (SLet [] b) s)).
    eapply (finish_block_like files (S n) (SLet [] b) f e _ _ s); eauto.
    - apply same_globals_leave.
    - apply Pre2_g. exact P1.
    - change (snd (index_stmt files (S n) (SLet [] b) s)) with (snd (scoped KBlock (iterM (index_stmt files n) b) s)).
      rewrite (scoped_final _ KBlock _ s vs Sc). apply sbs_set_scopes.
  Qed.
End CasesB.

Lemma Stat_with_var : forall s l c t, Stat s -> s_scopes s = c :: t -> Stat (with_var s l).
Proof.
  intros s l c t [A B C] Hs. destruct (with_var_facts s l c t Hs) as (Hsc & _ & _ & _ & V).
  destruct V as (_ & Hm & _). split.
  - unfold current_record_id in *. rewrite Hsc, Hs in *. simpl in *. exact A.
  - intros c0 mid Hin Hk. rewrite Hsc in Hin. rewrite Hm. destruct Hin as [<-|Hin].
    + apply (B c mid); [rewrite Hs; now left|exact Hk].
    + apply (B c0 mid); [rewrite Hs; now right|exact Hk].
  - rewrite Hsc. discriminate.
Qed.

Section CasesB2.
  Variable files : list (list stmt).
  Variable n : nat.
  Hypothesis IH : sim_B files n.

  Lemma fragB_of_local : forall l,
      (fix go (l : list stmt) : bool := match l with [] => true | y :: r => fragB_stmt y && go r end) l = true ->
      fragB_stmts l = true.
  Proof. intros l H. now rewrite fragB_local in H. Qed.

  Lemma caseB_assert : forall c m f e s,
      frag_value c = true -> frag_value m = true -> Pre2 f e s -> Stat s -> e_frames e <> [] ->
      forallb resolved (spec_value f e m ++ spec_value f e c) = true ->
      s_bad (snd (index_stmt files (S n) (SAssert c m) s)) = false ->
      ResB f s (snd (index_stmt files (S n) (SAssert c m) s)) (spec_value f e m ++ spec_value f e c) e.
  Proof.
    intros c m f e s Hfc Hfm P T He HR Hb.
    rewrite forallb_app in HR. apply andb_true_iff in HR. destruct HR as [HR1 HR2].
    simpl in Hb |- *. unfold seq in *. simpl in *.
    assert (Hb1 : s_bad (snd (index_value n m s)) = false)
      by (eapply (bad_false_before _ (index_value n c)); [apply BM_index_value|exact Hb]).
    pose proof (value_agrees n m f e s Hfm (Pre2_Pre _ _ _ P) HR1 Hb1) as S1.
    pose proof (value_agrees n c f e _ Hfc (Pre_Step _ _ _ _ _ (Pre2_Pre _ _ _ P) S1) HR2 Hb) as S2.
    apply ResB_of_Step; auto. eapply Step_trans; eassumption.
  Qed.

  Lemma caseB_defvar : forall i v f e s,
      frag_value v = true -> Pre2 f e s -> Stat s -> e_frames e <> [] ->
      forallb resolved (spec_value f e v) = true ->
      s_bad (snd (index_defvar n i v s)) = false ->
      ResB f s (snd (index_defvar n i v s)) (spec_value f e v) (add_var e (i_name i) (at_file f (i_rng i))).
  Proof.
    intros i v f e s Hf P T He HR Hb.
    unfold index_defvar, bind, here, get, try_ in *. simpl in *.
    destruct (index_value n v s) as [o s1] eqn:E1. simpl in *.
    set (l := mkLeaf LVar (i_name i) match o with Some t => t | None => MUnknown end false
                     {| r_file := current_file s; r_lo := r_lo (i_rng i); r_hi := r_hi (i_rng i) |}) in *.
    assert (Hb1 : s_bad s1 = false).
    { eapply (bad_false_before _ (scopes_add_variable l)); [bm_prim|exact Hb]. }
    assert (S1 : Step s s1 (spec_value f e v)).
    { replace s1 with (snd (index_value n v s)) by now rewrite E1. apply value_agrees; auto.
      - now apply Pre2_Pre.
      - now rewrite E1. }
    assert (P1 : Pre2 f e s1) by (eapply Pre2_Step; eassumption).
    assert (T1 : Stat s1).
    { destruct S1 as [_ (_ & Hm & _) Sc _]. eapply Stat_same_scopes; eassumption. }
    destruct (s_scopes s1) as [|c t] eqn:Esc; [destruct T1 as [_ _ Hne]; congruence|].
    fold (with_var s1 l).
    assert (Hl : l = mkLeaf LVar (i_name i) match o with Some t => t | None => MUnknown end false
                        (mkR f (r_lo (i_rng i)) (r_hi (i_rng i)))).
    { unfold l. now rewrite (p2_file f e s P). }
    destruct (with_var_facts s1 l c t Esc) as (Hsc & _ & Hu & Hn & _).
    destruct S1 as [U1 _ Sc1 N1].
    split.
    - rewrite Hu. exact U1.
    - rewrite Hn. exact N1.
    - exists [(lf_name l, lenN (s_leaves s1))]. rewrite Hsc, <- Sc1, Esc. reflexivity.
    - rewrite Hl. apply (Pre2_with_var f e s1 i _ c t); assumption.
    - eapply Stat_with_var; eassumption.
    - unfold add_var. destruct (e_frames e); [congruence|discriminate].
  Qed.
End CasesB2.

(** ---- steps that may also add a parent to a multiclass (defm / multiclass parent lists) *)
Definition MR (a b : list mcd) : Prop :=
  forall id m, nthN a id = Some m ->
               exists m', nthN b id = Some m' /\ mc_loc m' = mc_loc m /\ mc_targs m' = mc_targs m.
Definition VRm (s s' : st) : Prop :=
  s_recs s' = s_recs s /\ MR (s_mcs s) (s_mcs s') /\ s_nclass s' = s_nclass s /\ s_ndef s' = s_ndef s /\
  s_nmc s' = s_nmc s /\ s_ndset s' = s_ndset s /\ s_trace s' = s_trace s /\
  (exists ext, s_leaves s' = s_leaves s ++ ext).
Lemma MR_refl : forall a, MR a a. Proof. intros a id m H. eauto. Qed.
Lemma MR_trans : forall a b c, MR a b -> MR b c -> MR a c.
Proof.
  intros a b c H1 H2 id m H. destruct (H1 _ _ H) as [m1 [A [B C]]]. destruct (H2 _ _ A) as [m2 [A2 [B2 C2]]].
  exists m2. repeat split; congruence.
Qed.
Lemma VR_VRm : forall s s', VR s s' -> VRm s s'.
Proof. intros s s' (A & B & C & D & E & F & G & H). repeat split; auto. rewrite B. apply MR_refl. Qed.
Lemma VRm_refl : forall s, VRm s s. Proof. intros. apply VR_VRm, VR_refl. Qed.
Lemma VRm_trans : forall a b c, VRm a b -> VRm b c -> VRm a c.
Proof.
  intros a b c (A1 & A2 & A3 & A4 & A5 & A6 & A7 & [x1 A8]) (B1 & B2 & B3 & B4 & B5 & B6 & B7 & [x2 B8]).
  repeat split; try congruence; [eapply MR_trans; eassumption|].
  exists (x1 ++ x2). now rewrite B8, A8, app_assoc.
Qed.

Lemma scope_find_MR : forall s s' c nm,
    s_recs s' = s_recs s -> MR (s_mcs s) (s_mcs s') ->
    (forall mid, sc_kind c = KMulticlass mid -> nthN (s_mcs s) mid <> None) ->
    scope_find s' c nm = scope_find s c nm.
Proof.
  intros s s' c nm Hr Hm Hv. unfold scope_find, rec_fuel. rewrite Hr.
  destruct (sc_find_variable c nm); [reflexivity|].
  destruct (sc_kind c) eqn:Ek; try reflexivity.
  destruct (nthN (s_mcs s) id) as [m|] eqn:E; [|exfalso; now apply (Hv id)].
  destruct (Hm _ _ E) as [m' [A [_ C]]]. now rewrite A, C.
Qed.

Lemma define_loc_VRm : forall s s' sym d, VRm s s' -> define_loc s sym = Some d -> define_loc s' sym = Some d.
Proof.
  intros s s' sym d (Hr & Hm & _ & _ & _ & _ & _ & [ext Hl]) H. destruct sym; simpl in *.
  - now rewrite Hr.
  - destruct (nthN (s_mcs s) i) as [m|] eqn:E; [|discriminate]. destruct (Hm _ _ E) as [m' [A [B _]]].
    rewrite A. simpl in *. congruence.
  - rewrite Hl. destruct (nthN (s_leaves s) i) eqn:E; [|discriminate]. now rewrite (nthN_app_some _ _ ext _ _ E).
Qed.

Lemma Pre2_VRm : forall f e s s', Pre2 f e s -> Stat s -> VRm s s' -> s_scopes s' = s_scopes s -> Pre2 f e s'.
Proof.
  intros f e s s' [F L1 L2 D1 D2 S1 S2 C1 C2 M1 M2] [_ Hv _] V Hs.
  pose proof V as (Hr & Hm & Hc & Hd & Hmc & Hds & Ht & Hl).
  assert (FL : forall nm, find_local s' nm = find_local s nm).
  { intros nm. unfold find_local. rewrite Hs.
    assert (G : forall l, (forall c, In c l -> In c (s_scopes s)) ->
                          find_map (fun c => scope_find s' c nm) l = find_map (fun c => scope_find s c nm) l).
    { induction l as [|c t IHl]; intros Hin; simpl; [reflexivity|].
      rewrite (scope_find_MR s s' c nm Hr Hm); [|intros mid Hk; apply (Hv c mid); [apply Hin; now left|exact Hk]].
      destruct (scope_find s c nm); [reflexivity|]. apply IHl. intros; apply Hin; now right. }
    apply G. auto. }
  split.
  - unfold current_file in *. now rewrite Ht.
  - intros nm d H. destruct (L1 nm d H) as [sym [A B]]. exists sym. rewrite FL. split; [exact A|].
    now apply (define_loc_VRm s s').
  - intros nm H. rewrite FL. now apply L2.
  - intros nm d H. destruct (D1 nm d H) as [id [A B]]. exists id. unfold find_def in *. rewrite Hd.
    split; [exact A|]. now apply (define_loc_VRm s s').
  - intros nm H. unfold find_def in *. rewrite Hd. now apply D2.
  - intros nm d H. destruct (S1 nm d H) as [id [A B]]. exists id. unfold find_defset in *. rewrite Hds.
    split; [exact A|]. now apply (define_loc_VRm s s').
  - intros nm H. unfold find_defset in *. rewrite Hds. now apply S2.
  - intros nm d H. specialize (C1 nm d H). unfold class_view, find_class in *. now rewrite Hc, Hr.
  - intros nm H. unfold find_class in *. rewrite Hc. now apply C2.
  - intros nm d H. specialize (M1 nm d H). unfold mc_view, find_multiclass in *. rewrite Hmc.
    destruct (alookup nm (s_nmc s)) as [id|]; [|discriminate].
    destruct (nthN (s_mcs s) id) as [m|] eqn:E; [|discriminate]. destruct (Hm _ _ E) as [m' [A [B _]]].
    rewrite A. simpl in *. congruence.
  - intros nm H. unfold find_multiclass in *. rewrite Hmc. now apply M2.
Qed.

Lemma Stat_VRm : forall s s', Stat s -> VRm s s' -> s_scopes s' = s_scopes s -> Stat s'.
Proof.
  intros s s' [A B C] (_ & Hm & _) Hs. split.
  - unfold current_record_id in *. now rewrite Hs.
  - intros c mid Hin Hk. rewrite Hs in Hin. specialize (B c mid Hin Hk).
    destruct (nthN (s_mcs s) mid) as [m|] eqn:E; [|congruence]. destruct (Hm _ _ E) as [m' [A' _]]. congruence.
  - now rewrite Hs.
Qed.

Record StepM (s s' : st) (E : list ev) : Prop := mkStepM {
  sm_uses : s_uses s' = rev E ++ s_uses s;
  sm_vr : VRm s s';
  sm_scopes : s_scopes s' = s_scopes s;
  sm_nf : nf s' = nf s }.
Lemma Step_StepM : forall s s' E, Step s s' E -> StepM s s' E.
Proof. intros s s' E [U V S N]. split; auto. now apply VR_VRm. Qed.
Lemma StepM_refl : forall s, StepM s s []. Proof. intros. apply Step_StepM, Step_refl. Qed.
Lemma StepM_trans : forall a b c E1 E2, StepM a b E1 -> StepM b c E2 -> StepM a c (E1 ++ E2).
Proof.
  intros a b c E1 E2 [U1 V1 S1 N1] [U2 V2 S2 N2]. split.
  - rewrite U2, U1, rev_app_distr, app_assoc. reflexivity.
  - eapply VRm_trans; eassumption.
  - congruence.
  - congruence.
Qed.
Lemma ResB_of_StepM : forall f e s s' E,
    StepM s s' E -> Pre2 f e s -> Stat s -> e_frames e <> [] -> ResB f s s' E e.
Proof.
  intros f e s s' E [U V Sc N] P T He. split; auto.
  - exists []. now rewrite add_vars_nil.
  - eapply Pre2_VRm; eassumption.
  - eapply Stat_VRm; eassumption.
Qed.

(** ---- references to multiclasses (parents of a multiclass, of a defm) *)
Lemma mcref_sim : forall n c f e s,
    frag_classref c = true -> Pre f e s -> forallb resolved (spec_mcref f e c) = true ->
    s_bad (snd (resolve_class_ref_as_multiclass n c s)) = false ->
    Step s (snd (resolve_class_ref_as_multiclass n c s)) (spec_mcref f e c).
Proof.
  intros n [i args r] f e s Hf P HR Hb. simpl in Hf.
  change (spec_mcref f e (CRef i args r)) with ((at_file f (i_rng i), lookup_mc e (i_name i)) :: spec_args f e args) in *.
  simpl in HR. apply andb_true_iff in HR. destruct HR as [HR1 HR2]. unfold resolved in HR1; simpl in HR1.
  destruct (lookup_mc e (i_name i)) as [d|] eqn:El; [|discriminate].
  pose proof (pre_mc_some f e s P _ _ El) as Hc. unfold mc_view in Hc.
  simpl in Hb |- *. unfold bind at 1 in Hb. unfold bind at 1. unfold here, get in *. simpl in *.
  unfold bind at 1 in Hb. unfold bind at 1. unfold state, get in *. simpl in *.
  destruct (find_multiclass s (i_name i)) as [mid|] eqn:Ef; [|discriminate].
  unfold seq at 1 in Hb. unfold seq at 1.
  set (loc := {| r_file := current_file s; r_lo := r_lo (i_rng i); r_hi := r_hi (i_rng i) |}) in *.
  pose proof (Step_add_reference s (SyMc mid) loc) as S1.
  set (s1 := snd (add_reference (SyMc mid) loc s)) in *.
  assert (E1 : define_loc s (SyMc mid) = Some d) by exact Hc.
  assert (Hmc : nthN (s_mcs s1) mid <> None).
  { destruct S1 as [_ (_ & Hm & _) _ _]. rewrite Hm. destruct (nthN (s_mcs s) mid); discriminate. }
  unfold bind at 1 in Hb. unfold bind at 1. simpl in *.
  unfold bind at 1 in Hb. unfold bind at 1. unfold lift at 1 in Hb. unfold lift at 1.
  destruct (nthN (s_mcs s1) mid) as [mc|] eqn:Emc; [|congruence].
  assert (P1 : Pre f e s1) by (eapply Pre_Step; eassumption).
  unfold bind at 1 in Hb. unfold bind at 1. unfold index_args in *.
  assert (S2 : s_bad (snd (mapM_opt (index_arg n) args s1)) = false ->
               Step s1 (snd (mapM_opt (index_arg n) args s1)) (flat_map (spec_arg f e) args)).
  { intros Hb2. destruct (mapM_opt_state _ _ (index_arg n) args s1) as [E _]. rewrite E in *.
    apply (iter_sim _ _ (index_arg n) (spec_arg f e) f e); auto.
    - intros; apply BM_index_arg.
    - intros x s0 Hin P0 HR0 Hb0. apply arg_agrees; auto. eapply forallb_In; eassumption. }
  destruct (mapM_opt (index_arg n) args s1) as [[avs|] s2] eqn:Em; simpl in *.
  2:{ destruct (mapM_opt_state _ _ (index_arg n) args s1) as [_ Hsome]. rewrite Em in Hsome. simpl in Hsome. congruence. }
  unfold seq in Hb |- *. simpl in *.
  assert (Hb2 : s_bad s2 = false).
  { eapply (bad_false_before _ (emit (check_template_args s2 (targ_leaves s1 (mc_targs mc)) avs r))); [|exact Hb].
    unfold emit. apply (resp_iterM BadMono BM_refl BM_trans). intros; apply BM_err. }
  eapply Step_eq.
  - eapply Step_trans; [exact S1|]. eapply Step_trans; [apply S2; exact Hb2|].
    apply Step_emit. intros d0 Hd0. eapply cta_kinds. exact Hd0.
  - simpl. rewrite E1, app_nil_r. unfold at_file, loc. now rewrite (pre_file f e s P).
Qed.

Lemma BM_resolve_mc : forall n c, resp BadMono (resolve_class_ref_as_multiclass n c).
Proof. intros. apply (r_resolve_multiclass BadMono BM_refl BM_trans); bm_prim. Qed.

Lemma StepM_mc_add_parent : forall s mid p, StepM s (snd (multiclass_mut mid (mc_add_parent p) s)) [].
Proof.
  intros s mid p. unfold multiclass_mut. destruct (nthN (s_mcs s) mid) as [m|] eqn:E.
  - split; [reflexivity| |reflexivity|reflexivity].
    split; [reflexivity|]. split.
    + intros id m0 H. cbn [snd s_mcs set_mcs]. rewrite nthN_set_nth.
      destruct (N.eqb mid id); [rewrite H; simpl; eauto|eauto].
    + repeat split; auto. exists []. now rewrite app_nil_r.
  - split; [reflexivity| |reflexivity|reflexivity]. repeat split; auto; [apply MR_refl|exists []; now rewrite app_nil_r].
Qed.

Lemma mcrefs_local : forall f e l,
    (fix go (e : env) (l : list classref) : list ev :=
       match l with [] => [] | c :: r => spec_mcref f e c ++ go e r end) e l = flat_map (spec_mcref f e) l.
Proof. intros f e l. induction l as [|c r IH]; [reflexivity|]. simpl. now rewrite IH. Qed.

(** `ParentClassList::index` outside a record: the references are resolved as multiclasses *)
Lemma parents_mc_sim : forall n ps f e s,
    forallb frag_classref ps = true -> Pre2 f e s -> Stat s ->
    (current_multiclass_id s <> None \/ current_defm_id s <> None) ->
    forallb resolved (flat_map (spec_mcref f e) ps) = true ->
    s_bad (snd (index_parents n ps s)) = false ->
    StepM s (snd (index_parents n ps s)) (flat_map (spec_mcref f e) ps).
Proof.
  intros n ps f e s Hf P T Hk HR Hb. unfold index_parents in *.
  unfold bind at 1 in Hb. unfold bind at 1. unfold state, get in *. simpl in *.
  rewrite (sta_norec s T) in *.
  (* both remaining branches iterate over the references; they differ in what follows a resolved one *)
  assert (G : forall (after : option N -> M unit),
             (forall o s0, StepM s0 (snd (after o s0)) []) -> (forall o, resp BadMono (after o)) ->
             forall l s0, forallb frag_classref l = true -> Pre2 f e s0 -> Stat s0 ->
                          forallb resolved (flat_map (spec_mcref f e) l) = true ->
                          s_bad (snd (iterM (fun cr => bind (try_ (resolve_class_ref_as_multiclass n cr)) after) l s0)) = false ->
                          StepM s0 (snd (iterM (fun cr => bind (try_ (resolve_class_ref_as_multiclass n cr)) after) l s0))
                                (flat_map (spec_mcref f e) l)).
  { intros after Ha HBa l. induction l as [|c r IHl]; intros s0 Hfl P0 T0 HR0 Hb0; simpl; [apply StepM_refl|].
    simpl in Hfl. apply andb_true_iff in Hfl. destruct Hfl as [Hf1 Hf2].
    simpl in HR0. rewrite forallb_app in HR0. apply andb_true_iff in HR0. destruct HR0 as [HR1 HR2].
    simpl in Hb0. unfold seq in *.
    set (g := fun cr => bind (try_ (resolve_class_ref_as_multiclass n cr)) after) in *.
    assert (BMg : forall cr, resp BadMono (g cr)).
    { intros cr. unfold g. apply (resp_bind BadMono BM_trans); [apply (resp_try BadMono), BM_resolve_mc|apply HBa]. }
    assert (Hb1 : s_bad (snd (g c s0)) = false).
    { eapply (bad_false_before _ (iterM g r)); [|exact Hb0]. apply (resp_iterM BadMono BM_refl BM_trans). intros; apply BMg. }
    assert (S1 : StepM s0 (snd (g c s0)) (spec_mcref f e c)).
    { unfold g, bind, try_ in *. destruct (resolve_class_ref_as_multiclass n c s0) as [o s1] eqn:Er. simpl in *.
      assert (Hbr : s_bad s1 = false) by (eapply (bad_false_before _ (after o)); [apply HBa|exact Hb1]).
      rewrite <- (app_nil_r (spec_mcref f e c)). eapply StepM_trans; [|apply Ha].
      apply Step_StepM. replace s1 with (snd (resolve_class_ref_as_multiclass n c s0)) by now rewrite Er.
      apply mcref_sim; auto; [now apply Pre2_Pre|now rewrite Er]. }
    eapply StepM_trans; [exact S1|]. destruct S1 as [_ V1 Sc1 _].
    apply IHl; auto; [eapply Pre2_VRm; eassumption|eapply Stat_VRm; eassumption]. }
  destruct (current_multiclass_id s) as [mid|] eqn:Em.
  - apply (G (fun o => match o with Some p => multiclass_mut mid (mc_add_parent p) | None => ret tt end)); auto.
    + intros [p|] s0; [apply StepM_mc_add_parent|apply StepM_refl].
    + intros [p|]; [bm_prim|apply (resp_ret BadMono BM_refl)].
  - destruct (current_defm_id s) as [did|] eqn:Ed; [|destruct Hk; congruence].
    (* the defm branch iterates `resolve` directly: the same loop with a trivial continuation *)
    assert (Eq : forall l s0, snd (iterM (fun cr => resolve_class_ref_as_multiclass n cr) l s0)
                              = snd (iterM (fun cr => bind (try_ (resolve_class_ref_as_multiclass n cr)) (fun _ => ret tt)) l s0)).
    { induction l as [|c r IHl]; intros s0; simpl; [reflexivity|]. unfold seq. rewrite IHl.
      unfold bind, try_. destruct (resolve_class_ref_as_multiclass n c s0); reflexivity. }
    rewrite Eq in *. apply (G (fun _ => ret tt)); auto.
    + intros; apply StepM_refl.
    + intros; apply (resp_ret BadMono BM_refl).
Qed.

Section CasesB3.
  Variable files : list (list stmt).
  Variable n : nat.
  Hypothesis IH : sim_B files n.

  Lemma caseB_dump : forall v f e s,
      frag_value v = true -> Pre2 f e s -> Stat s -> e_frames e <> [] ->
      forallb resolved (spec_value f e v) = true ->
      s_bad (snd (index_stmt files (S n) (SDump v) s)) = false ->
      ResB f s (snd (index_stmt files (S n) (SDump v) s)) (spec_value f e v) e.
  Proof.
    intros v f e s Hf P T He HR Hb. simpl in Hb |- *. unfold seq in *. simpl in *.
    apply ResB_of_Step; auto. apply value_agrees; auto. now apply Pre2_Pre.
  Qed.

  Lemma caseB_let : forall vs b f e s,
      forallb frag_value vs = true -> fragB_stmts b = true -> Pre2 f e s -> Stat s -> e_frames e <> [] ->
      forallb resolved (fst (spec_stmt f e (SLet vs b))) = true ->
      s_bad (snd (index_stmt files (S n) (SLet vs b) s)) = false ->
      ResB f s (snd (index_stmt files (S n) (SLet vs b) s)) (fst (spec_stmt f e (SLet vs b))) (snd (spec_stmt f e (SLet vs b))).
  Proof.
    intros vs b f e s Hfv Hfb P T He HR Hb. rewrite spec_let in *.
    destruct (spec_stmts f (push_vars e []) b) as [ev1 e1] eqn:Eb. simpl in HR |- *.
    rewrite forallb_app in HR. apply andb_true_iff in HR. destruct HR as [HRv HR1].
    simpl in Hb |- *. unfold seq at 1 in Hb. unfold seq at 1.
    set (s1 := snd (iterM (index_value n) vs s)) in *.
    assert (Hb1 : s_bad s1 = false)
      by (eapply (bad_false_before _ (scoped KBlock (iterM (index_stmt files n) b))); [apply BM_block|exact Hb]).
    assert (S0 : Step s s1 (spec_values f e vs)).
    { unfold spec_values, s1. apply (iter_sim _ _ (index_value n) (spec_value f e) f e); auto.
      - intros; apply BM_index_value.
      - intros x s0 Hin P0 HR0 Hb0. apply value_agrees; auto. eapply forallb_In; eassumption.
      - now apply Pre2_Pre. }
    pose proof (ResB_of_Step f e s s1 _ S0 P T He) as R0. pose proof R0 as [_ _ _ P1 T1 _].
    pose proof (block_B files n IH b f e s1 Hfb P1 T1 He) as R1. rewrite Eb in R1. simpl in R1.
    eapply ResB_trans; [exact R0|apply R1; assumption].
  Qed.

  Lemma caseB_if : forall c th el f e s,
      frag_value c = true -> fragB_stmts th = true -> match el with Some b => fragB_stmts b | None => true end = true ->
      Pre2 f e s -> Stat s -> e_frames e <> [] ->
      forallb resolved (fst (spec_stmt f e (SIf c th el))) = true ->
      s_bad (snd (index_stmt files (S n) (SIf c th el) s)) = false ->
      ResB f s (snd (index_stmt files (S n) (SIf c th el) s)) (fst (spec_stmt f e (SIf c th el))) (snd (spec_stmt f e (SIf c th el))).
  Proof.
    intros c th el f e s Hfc Hft Hfe P T He HR Hb. rewrite spec_if in *.
    destruct (spec_stmts f (push_vars e []) th) as [ev1 e1] eqn:Et.
    simpl in Hb |- *. unfold seq at 1 in Hb. unfold seq at 1.
    assert (BMrest : resp BadMono (iterM (fun body => scoped KBlock (iterM (index_stmt files n) body))
                                        (th :: match el with Some e0 => [e0] | None => [] end))).
    { apply (resp_iterM BadMono BM_refl BM_trans). intros; apply BM_block. }
    assert (Hbc : s_bad (snd (index_value n c s)) = false) by (eapply bad_false_before; [exact BMrest|exact Hb]).
    simpl in Hb |- *. unfold seq at 1 in Hb. unfold seq at 1.
    set (s1 := snd (index_value n c s)) in *.
    destruct el as [eb|].
    - simpl in Hb |- *. try unfold seq at 1 in Hb. try unfold seq at 1. simpl in Hb |- *.
      set (s2 := snd (scoped KBlock (iterM (index_stmt files n) th) s1)) in *.
      assert (Hb2 : s_bad s2 = false)
        by (eapply (bad_false_before _ (scoped KBlock (iterM (index_stmt files n) eb))); [apply BM_block|exact Hb]).
      destruct (spec_stmts f (push_vars (leave e e1) []) eb) as [ev2 e2] eqn:Ee. simpl in HR |- *.
      rewrite forallb_app in HR. apply andb_true_iff in HR. destruct HR as [HRc HR].
      rewrite forallb_app in HR. apply andb_true_iff in HR. destruct HR as [HR1 HR2].
      pose proof (value_agrees n c f e s Hfc (Pre2_Pre _ _ _ P) HRc Hbc) as S0. fold s1 in S0.
      pose proof (ResB_of_Step f e s s1 _ S0 P T He) as R0. pose proof R0 as [_ _ _ P1 T1 _].
      pose proof (block_B files n IH th f e s1 Hft P1 T1 He) as R1. rewrite Et in R1. simpl in R1.
      specialize (R1 HR1 Hb2). fold s2 in R1. pose proof R1 as [_ _ _ P2 T2 F2].
      pose proof (block_B files n IH eb f (leave e e1) s2 Hfe P2 T2 F2) as R2. rewrite Ee in R2. simpl in R2.
      specialize (R2 HR2 Hb).
      replace (leave e e2) with (leave (leave e e1) e2) by reflexivity.
      eapply ResB_trans; [exact R0|]. eapply ResB_trans; [exact R1|exact R2].
    - simpl in Hb, HR |- *.
      rewrite forallb_app in HR. apply andb_true_iff in HR. destruct HR as [HRc HR].
      rewrite app_nil_r in *.
      pose proof (value_agrees n c f e s Hfc (Pre2_Pre _ _ _ P) HRc Hbc) as S0. fold s1 in S0.
      pose proof (ResB_of_Step f e s s1 _ S0 P T He) as R0. pose proof R0 as [_ _ _ P1 T1 _].
      pose proof (block_B files n IH th f e s1 Hft P1 T1 He) as R1. rewrite Et in R1. simpl in R1.
      eapply ResB_trans; [exact R0|apply R1; assumption].
  Qed.
End CasesB3.

Lemma uses_add_leaf : forall l s, s_uses (snd (add_leaf l s)) = s_uses s /\ nf (snd (add_leaf l s)) = nf s
                                 /\ s_scopes (snd (add_leaf l s)) = s_scopes s /\ s_mcs (snd (add_leaf l s)) = s_mcs s.
Proof. intros. unfold add_leaf; simpl. unfold add_pos, nf. destruct (rng_empty (lf_loc l)); repeat split. Qed.

Section CasesB4.
  Variable files : list (list stmt).
  Variable n : nat.
  Hypothesis IH : sim_B files n.

  Lemma caseB_foreach : forall i init b f e s,
      match init with FeRange => true | FeValue v => frag_value v end = true -> fragB_stmts b = true ->
      Pre2 f e s -> Stat s -> e_frames e <> [] ->
      forallb resolved (fst (spec_stmt f e (SForeach i init b))) = true ->
      s_bad (snd (index_stmt files (S n) (SForeach i init b) s)) = false ->
      ResB f s (snd (index_stmt files (S n) (SForeach i init b) s))
           (fst (spec_stmt f e (SForeach i init b))) (snd (spec_stmt f e (SForeach i init b))).
  Proof.
    intros i init b f e s Hfi Hfb P T He HR Hb.
    pose proof (finish_block_like files (S n) (SForeach i init b) f e) as FIN.
    set (final := snd (index_stmt files (S n) (SForeach i init b) s)) in *.
    rewrite spec_foreach in *.
    set (e2 := push_vars e [(i_name i, at_file f (i_rng i))]) in *.
    destruct (spec_stmts f e2 b) as [ev1 e1] eqn:Eb. simpl in HR |- *.
    rewrite forallb_app in HR. apply andb_true_iff in HR. destruct HR as [HR0 HR1].
    set (ev0 := match init with FeRange => [] | FeValue v => spec_value f e v end) in *.
    (* run the model up to the body *)
    set (minit := match init with
                  | FeRange => ret MInt
                  | FeValue v => bind (index_value n v) (fun t => lift (element_typ t))
                  end).
    set (loc := {| r_file := current_file s; r_lo := r_lo (i_rng i); r_hi := r_hi (i_rng i) |}).
    set (lf := fun o : option mty => mkLeaf LVar (i_name i) match o with Some t => t | None => MUnknown end false loc).
    set (k := fun s1 : st => KForeach (i_name i) (lenN (s_leaves s1))).
    assert (Efin : final = snd (scoped (k (snd (minit s))) (iterM (index_stmt files n) b)
                                       (snd (add_leaf (lf (fst (minit s))) (snd (minit s)))))).
    { unfold final. simpl. unfold bind at 1. unfold here, get. simpl. unfold bind at 1. unfold try_.
      fold minit. destruct (minit s) as [o s1]. simpl. unfold bind at 1. reflexivity. }
    rewrite Efin in Hb |- *.
    assert (BMi : resp BadMono minit).
    { unfold minit. destruct init; [apply (resp_ret BadMono BM_refl)|].
      apply (resp_bind BadMono BM_trans); [apply BM_index_value|intros; apply (resp_lift BadMono BM_refl)]. }
    destruct (minit s) as [o s1] eqn:Ei. simpl in *.
    set (s2 := snd (add_leaf (lf o) s1)) in *.
    assert (Hb2 : s_bad s2 = false)
      by (eapply (bad_false_before _ (scoped (k s1) (iterM (index_stmt files n) b))); [apply BM_block|exact Hb]).
    assert (Hb1 : s_bad s1 = false) by (eapply (bad_false_before _ (add_leaf (lf o))); [bm_prim|exact Hb2]).
    assert (S0 : Step s s1 ev0).
    { unfold minit, ev0 in *. destruct init as [|v].
      - injection Ei as _ <-. apply Step_refl.
      - unfold bind in Ei. destruct (index_value n v s) as [[t|] s1'] eqn:Ev; simpl in Ei;
          injection Ei as _ <-; replace s1' with (snd (index_value n v s)) by (now rewrite Ev);
          apply value_agrees; auto; try (now apply Pre2_Pre); now rewrite Ev. }
    pose proof (ResB_of_Step f e s s1 _ S0 P T He) as [U0 N0 _ P1 T1 _].
    assert (S1 : Step s1 s2 []) by apply Step_add_leaf.
    pose proof (ResB_of_Step f e s1 s2 _ S1 P1 T1 He) as [U1 N1 _ P2 T2 _].
    assert (Hloc : loc = at_file f (i_rng i)) by (unfold loc, at_file; now rewrite (p2_file f e s P)).
    assert (Hleaf : option_map lf_loc (nthN (s_leaves s2) (lenN (s_leaves s1))) = Some (at_file f (i_rng i))).
    { unfold s2. rewrite leaves_add_leaf, nthN_app_last. simpl. now rewrite Hloc. }
    pose proof (Pre2_pushed_foreach f e s2 i (lenN (s_leaves s1)) (at_file f (i_rng i)) P2 Hleaf) as P3.
    fold e2 in P3. change (KForeach (i_name i) (lenN (s_leaves s1))) with (k s1) in P3.
    assert (Hb3 := Hb). apply scoped_bad in Hb3.
    pose proof (stmtsB_sim files n IH b f e2 (pushed (k s1) s2) Hfb P3 (Stat_pushed_foreach _ _ s2 T2)) as R3.
    rewrite Eb in R3. simpl in R3. destruct R3 as [U3 N3 [vs Sc3] P4 T4 F4]; auto; [discriminate|].
    rewrite <- Efin. unfold final.
    eapply (FIN e1 (leave e e1) s (snd (iterM (index_stmt files n) b (pushed (k s1) s2))) (ev0 ++ ev1)); auto.
    - apply same_globals_leave.
    - now apply Pre2_g.
    - change (same_but_scopes final (snd (iterM (index_stmt files n) b (pushed (k s1) s2)))).
      rewrite Efin. erewrite (scoped_final _ _ _ s2 vs); [apply sbs_set_scopes|exact Sc3].
    - rewrite U3. simpl. rewrite U1. simpl. rewrite U0, rev_app_distr, app_assoc. reflexivity.
    - rewrite N3. unfold nf, pushed; simpl. fold (nf s2). rewrite N1, N0. reflexivity.
  Qed.

  Lemma caseB_defm : forall nm r ps f e s,
      frag_name nm = true -> forallb frag_classref ps = true ->
      Pre2 f e s -> Stat s -> e_frames e <> [] ->
      forallb resolved (fst (spec_stmt f e (SDefm nm r ps))) = true ->
      s_bad (snd (index_stmt files (S n) (SDefm nm r ps) s)) = false ->
      ResB f s (snd (index_stmt files (S n) (SDefm nm r ps) s))
           (fst (spec_stmt f e (SDefm nm r ps))) (snd (spec_stmt f e (SDefm nm r ps))).
  Proof.
    intros nm r ps f e s Hfn Hfp P T He HR Hb.
    pose proof (finish_block_like files (S n) (SDefm nm r ps) f e) as FIN.
    set (final := snd (index_stmt files (S n) (SDefm nm r ps) s)) in *.
    change (spec_stmt f e (SDefm nm r ps)) with
      ((fix go (e : env) (l : list classref) : list ev :=
          match l with [] => [] | c :: r0 => spec_mcref f e c ++ go e r0 end) (push_vars e []) ps, e) in *.
    rewrite mcrefs_local in *. simpl in HR |- *.
    set (mdid := match nm with
                 | Some v => bind (index_name_value v) (fun p => add_leaf (mkLeaf LDefm (fst p) MUnknown false (snd p)))
                 | None => seq next_anonymous (bind (here r) (fun loc => add_leaf_nopos (mkLeaf LDefm [] MUnknown false loc)))
                 end).
    assert (Sd : Step s (snd (mdid s)) [] /\ fst (mdid s) <> None).
    { unfold mdid. destruct nm as [v|].
      - unfold frag_name, is_ident_first in Hfn. rewrite first_ident_eq in Hfn.
        destruct v as [rv [|[[] sufs] rest]]; simpl in Hfn; try discriminate.
        split; [|discriminate].
        exact (Step_add_leaf s (mkLeaf LDefm (i_name i) MUnknown false
                                       (mkR (current_file s) (r_lo (i_rng i)) (r_hi (i_rng i))))).
      - unfold seq, bind, here, get, next_anonymous, upd, add_leaf_nopos; simpl. split; [|discriminate].
        split; simpl; auto. repeat split; auto. eexists; reflexivity. }
    destruct Sd as [Sd Hsome].
    assert (Efin : final = match fst (mdid s) with
                           | Some did => snd (scoped (KDefm did) (index_parents n ps) (snd (mdid s)))
                           | None => snd (mdid s)
                           end).
    { unfold final. simpl. unfold bind at 1. fold mdid. destruct (mdid s) as [[did|] s1]; reflexivity. }
    destruct (mdid s) as [[did|] s1] eqn:Ed; [|simpl in Hsome; congruence]. simpl in *.
    rewrite Efin in Hb |- *.
    pose proof (ResB_of_Step f e s s1 _ Sd P T He) as [U0 N0 _ P1 T1 _].
    set (k := KDefm did) in *.
    assert (Hb3 := Hb). apply scoped_bad in Hb3.
    assert (Tp : Stat (pushed k s1)) by (apply Stat_pushed; [exact T1|reflexivity]).
    assert (Pp : Pre2 f (push_vars e []) (pushed k s1)) by (apply Pre2_pushed; [exact P1|reflexivity]).
    assert (Hk : current_multiclass_id (pushed k s1) <> None \/ current_defm_id (pushed k s1) <> None).
    { right. unfold current_defm_id, pushed; simpl. unfold sc_defm_id; simpl. discriminate. }
    destruct (parents_mc_sim n ps f (push_vars e []) (pushed k s1) Hfp Pp Tp Hk HR Hb3) as [U2 V2 Sc2 N2].
    rewrite <- Efin. unfold final.
    eapply (FIN e e s (snd (index_parents n ps (pushed k s1))) (flat_map (spec_mcref f (push_vars e [])) ps)); auto.
    - apply same_globals_refl.
    - eapply (Pre2g_globals f (push_vars e []) e); [repeat split|]. apply Pre2_g. eapply Pre2_VRm; eassumption.
    - change (same_but_scopes final (snd (index_parents n ps (pushed k s1)))).
      rewrite Efin. rewrite (scoped_final _ k _ s1 []); [apply sbs_set_scopes|]. rewrite Sc2. now rewrite add_vars_nil.
    - rewrite U2. simpl. rewrite U0. simpl. reflexivity.
    - rewrite N2. unfold nf, pushed; simpl. fold (nf s1). exact N0.
  Qed.
End CasesB4.

(** ---------------------------------------------------------------------------------------------
    record bodies (no parent classes): the innermost scope is the record's, its variables / fields / template
    arguments correspond to the three parts of the innermost frame *)
Definition AL (s : st) (l : list (name * N)) (l' : list (name * rng)) : Prop :=
  forall nm, match alookup nm l with
             | Some id => exists lf, nthN (s_leaves s) id = Some lf /\ lookup nm l' = Some (lf_loc lf)
             | None => lookup nm l' = None
             end.

Inductive RB (f : N) (e : env) (s : st) (rid : N) : Prop :=
| mkRB : forall (vars : list (name * N)) (tail : list scope) (fr : frame) (frs : list frame) (rc : recd),
    s_scopes s = mkScope (KRecord rid) vars :: tail ->
    e_frames e = fr :: frs ->
    nthN (s_recs s) rid = Some rc ->
    rc_parents rc = [] ->
    AL s vars (fr_vars fr) ->
    AL s (rc_fields rc) (fr_fields fr) ->
    AL s (rc_targs rc) (fr_targs fr) ->
    (forall nm d, first_some (frame_lookup nm) frs = Some d ->
                  exists sym, find_local (set_scopes tail s) nm = Some sym /\ define_loc s sym = Some d) ->
    (forall nm, first_some (frame_lookup nm) frs = None -> find_local (set_scopes tail s) nm = None) ->
    current_record_id (set_scopes tail s) = None ->
    RB f e s rid.

Lemma find_field_nopar : forall fuel recs rid rc nm,
    nthN recs rid = Some rc -> rc_parents rc = [] -> find_field (S fuel) recs rid nm = alookup nm (rc_fields rc).
Proof. intros fuel recs rid rc nm H Hp. simpl. rewrite H, Hp. destruct (alookup nm (rc_fields rc)); reflexivity. Qed.

Lemma find_local_cons : forall s c t nm, s_scopes s = c :: t ->
    find_local s nm = match scope_find s c nm with Some x => Some x | None => find_local (set_scopes t s) nm end.
Proof.
  intros s c t nm H. unfold find_local. rewrite H. simpl. destruct (scope_find s c nm); [reflexivity|].
  apply find_map_ext. intros c0. reflexivity.
Qed.

Lemma RB_Pre2 : forall f e s rid, RB f e s rid -> Pre2g f e s -> Pre2 f e s.
Proof.
  intros f e s rid [vars t fr frs rc Hsc Hfe Hrec Hnp Av Af At T1 T2 T3] [F D1 D2 S1 S2 C1 C2 M1 M2].
  assert (SF : forall nm, scope_find s (mkScope (KRecord rid) vars) nm
                          = match alookup nm vars with
                            | Some v => Some (SyLeaf v)
                            | None => match alookup nm (rc_fields rc) with
                                      | Some x => Some (SyLeaf x)
                                      | None => option_map SyLeaf (alookup nm (rc_targs rc))
                                      end
                            end).
  { intros nm. unfold scope_find, sc_find_variable. cbn [sc_kind sc_vars].
    destruct (alookup nm vars); [reflexivity|].
    unfold rec_fuel. rewrite (find_field_nopar _ _ _ rc nm Hrec Hnp). rewrite Hrec. reflexivity. }
  split; auto.
  - intros nm d H. unfold locals_of in H. rewrite Hfe in H. simpl in H.
    rewrite (find_local_cons s _ t nm Hsc), SF. unfold frame_lookup in H.
    specialize (Av nm). specialize (Af nm). specialize (At nm).
    destruct (alookup nm vars) as [v|].
    + destruct Av as [lf [A B]]. rewrite B in H. injection H as <-. exists (SyLeaf v). simpl. now rewrite A.
    + rewrite Av in H. destruct (alookup nm (rc_fields rc)) as [x|].
      * destruct Af as [lf [A B]]. rewrite B in H. injection H as <-. exists (SyLeaf x). simpl. now rewrite A.
      * rewrite Af in H. destruct (alookup nm (rc_targs rc)) as [y|]; simpl.
        -- destruct At as [lf [A B]]. rewrite B in H. injection H as <-. exists (SyLeaf y). simpl. now rewrite A.
        -- rewrite At in H. apply T1. exact H.
  - intros nm H. unfold locals_of in H. rewrite Hfe in H. simpl in H.
    rewrite (find_local_cons s _ t nm Hsc), SF. unfold frame_lookup in H.
    specialize (Av nm). specialize (Af nm). specialize (At nm).
    destruct (alookup nm vars) as [v|]; [destruct Av as [lf [A B]]; rewrite B in H; discriminate|].
    rewrite Av in H. destruct (alookup nm (rc_fields rc)) as [x|]; [destruct Af as [lf [A B]]; rewrite B in H; discriminate|].
    rewrite Af in H. destruct (alookup nm (rc_targs rc)) as [y|]; [destruct At as [lf [A B]]; rewrite B in H; discriminate|].
    rewrite At in H. simpl. apply T2. exact H.
Qed.

Lemma AL_ext : forall s s' l l', AL s l l' -> (exists ext, s_leaves s' = s_leaves s ++ ext) -> AL s' l l'.
Proof.
  intros s s' l l' H [ext Hl] nm. specialize (H nm). destruct (alookup nm l) as [id|]; [|exact H].
  destruct H as [lf [A B]]. exists lf. split; [|exact B]. rewrite Hl. now apply nthN_app_some.
Qed.

Lemma find_local_tail_eq : forall t s s' nm,
    s_mcs s' = s_mcs s -> current_record_id (set_scopes t s) = None ->
    find_local (set_scopes t s') nm = find_local (set_scopes t s) nm.
Proof.
  intros t s s' nm Hm Hnr. unfold find_local; simpl.
  assert (G : forall l, find_map sc_record_id l = None ->
                        find_map (fun c => scope_find (set_scopes t s') c nm) l
                        = find_map (fun c => scope_find (set_scopes t s) c nm) l).
  { induction l as [|c r IHl]; intros Hn; simpl; [reflexivity|]. simpl in Hn.
    destruct (sc_record_id c) eqn:Ec; [discriminate|].
    assert (E : scope_find (set_scopes t s') c nm = scope_find (set_scopes t s) c nm).
    { unfold scope_find. destruct (sc_find_variable c nm); [reflexivity|].
      unfold sc_record_id in Ec. destruct (sc_kind c); try reflexivity; try discriminate. simpl. now rewrite Hm. }
    rewrite E. destruct (scope_find (set_scopes t s) c nm); [reflexivity|]. now apply IHl. }
  apply G. exact Hnr.
Qed.

(** values keep the record-body relation *)
Lemma RB_VR : forall f e s s' rid, RB f e s rid -> VR s s' -> s_scopes s' = s_scopes s -> RB f e s' rid.
Proof.
  intros f e s s' rid [vars t fr frs rc Hsc Hfe Hrec Hnp Av Af At T1 T2 T3] V Hs.
  pose proof V as (Hr & Hm & Hc & Hd & Hmc & Hds & Ht & Hl).
  apply (mkRB f e s' rid vars t fr frs rc); auto.
  - now rewrite Hs.
  - now rewrite Hr.
  - now apply (AL_ext s s').
  - now apply (AL_ext s s').
  - now apply (AL_ext s s').
  - intros nm d H. destruct (T1 nm d H) as [sym [A B]]. exists sym.
    rewrite (find_local_tail_eq t s s' nm Hm T3). split; [exact A|now apply (define_loc_ext s s')].
  - intros nm H. rewrite (find_local_tail_eq t s s' nm Hm T3). now apply T2.
Qed.
Lemma Pre2g_VR : forall f e s s', Pre2g f e s -> VR s s' -> Pre2g f e s'.
Proof.
  intros f e s s' [F D1 D2 S1 S2 C1 C2 M1 M2] V.
  pose proof V as (Hr & Hm & Hc & Hd & Hmc & Hds & Ht & Hl). split.
  - unfold current_file in *. now rewrite Ht.
  - intros nm d H. destruct (D1 nm d H) as [id [A B]]. exists id. unfold find_def in *. rewrite Hd.
    split; [exact A|now apply (define_loc_ext s s')].
  - intros nm H. unfold find_def in *. rewrite Hd. now apply D2.
  - intros nm d H. destruct (S1 nm d H) as [id [A B]]. exists id. unfold find_defset in *. rewrite Hds.
    split; [exact A|now apply (define_loc_ext s s')].
  - intros nm H. unfold find_defset in *. rewrite Hds. now apply S2.
  - intros nm d H. specialize (C1 nm d H). unfold class_view, find_class in *. now rewrite Hc, Hr.
  - intros nm H. unfold find_class in *. rewrite Hc. now apply C2.
  - intros nm d H. specialize (M1 nm d H). unfold mc_view, find_multiclass in *. now rewrite Hmc, Hm.
  - intros nm H. unfold find_multiclass in *. rewrite Hmc. now apply M2.
Qed.

(** ---- pieces used by the record-body steps *)
Lemma name_eqb_eq : forall a b, name_eqb a b = true <-> a = b.
Proof.
  induction a as [|x a IH]; intros [|y b]; simpl; split; intros H; try discriminate; try reflexivity.
  - apply andb_true_iff in H. destruct H as [H1 H2]. apply N.eqb_eq in H1. apply IH in H2. now subst.
  - injection H as -> ->. rewrite N.eqb_refl. simpl. now apply IH.
Qed.
Lemma name_eqb_spec : forall a b, reflect (a = b) (name_eqb a b).
Proof.
  intros a b. destruct (name_eqb a b) eqn:E; constructor.
  - now apply name_eqb_eq.
  - intros H. apply name_eqb_eq in H. congruence.
Qed.

Lemma alookup_imap_insert : forall V (k : name) (v : V) l nm,
    alookup nm (imap_insert k v l) = if name_eqb nm k then Some v else alookup nm l.
Proof.
  intros V k v l nm. induction l as [|[k' v'] r IH]; simpl.
  - destruct (name_eqb nm k); reflexivity.
  - destruct (name_eqb_spec k k') as [->|Hne]; simpl.
    + destruct (name_eqb nm k'); reflexivity.
    + rewrite IH. destruct (name_eqb_spec nm k') as [->|Hn2]; [|reflexivity].
      destruct (name_eqb_spec k' k) as [Heq|_]; [congruence|reflexivity].
Qed.

Lemma ty_sim_some : forall t f e s,
    Pre f e s -> forallb resolved (spec_ty f e t) = true -> fst (index_ty t s) <> None.
Proof.
  induction t; intros f e s P HR; simpl; try discriminate.
  - unfold bind. specialize (IHt f e s P HR). destruct (index_ty t s) as [[x|] s1]; simpl in *; [discriminate|congruence].
  - simpl in HR. rewrite andb_true_r in HR. unfold resolved in HR; simpl in HR.
    destruct (lookup_class e (i_name i)) as [d|] eqn:El; [|discriminate].
    pose proof (pre_cls_some f e s P _ _ El) as Hc. unfold class_view in Hc.
    unfold bind, here, state, get; simpl.
    destruct (find_class s (i_name i)) as [c|] eqn:Ef; [|discriminate]. simpl. discriminate.
Qed.

(** a state update that appends leaves and changes the open record (its maps only) *)
Definition rec_update (s s' : st) (rid : N) (g : recd -> recd) : Prop :=
  s_scopes s' = s_scopes s /\ s_mcs s' = s_mcs s /\ s_trace s' = s_trace s /\
  s_nclass s' = s_nclass s /\ s_ndef s' = s_ndef s /\ s_nmc s' = s_nmc s /\ s_ndset s' = s_ndset s /\
  (exists ext, s_leaves s' = s_leaves s ++ ext) /\
  s_recs s' = set_nth (N.to_nat rid) g (s_recs s).

Lemma define_loc_rec_update : forall s s' rid g sym d,
    rec_update s s' rid g -> (forall r, rc_loc (g r) = rc_loc r) ->
    define_loc s sym = Some d -> define_loc s' sym = Some d.
Proof.
  intros s s' rid g sym d (Hs & Hm & _ & _ & _ & _ & _ & [ext Hl] & Hr) Hg H. destruct sym; simpl in *.
  - rewrite Hr, nthN_set_nth. destruct (N.eqb rid i); [|exact H].
    destruct (nthN (s_recs s) i); simpl in *; [|discriminate]. now rewrite Hg.
  - now rewrite Hm.
  - rewrite Hl. destruct (nthN (s_leaves s) i) eqn:E; [|discriminate]. now rewrite (nthN_app_some _ _ ext _ _ E).
Qed.

Lemma Pre2g_rec_update : forall f e s s' rid g,
    Pre2g f e s -> rec_update s s' rid g -> (forall r, rc_loc (g r) = rc_loc r) -> Pre2g f e s'.
Proof.
  intros f e s s' rid g [F D1 D2 S1 S2 C1 C2 M1 M2] U Hg.
  pose proof U as (Hs & Hm & Ht & Hc & Hd & Hmc & Hds & Hl & Hr).
  split.
  - unfold current_file in *. now rewrite Ht.
  - intros nm d H. destruct (D1 nm d H) as [id [A B]]. exists id. unfold find_def in *. rewrite Hd.
    split; [exact A|]. eapply define_loc_rec_update; eassumption.
  - intros nm H. unfold find_def in *. rewrite Hd. now apply D2.
  - intros nm d H. destruct (S1 nm d H) as [id [A B]]. exists id. unfold find_defset in *. rewrite Hds.
    split; [exact A|]. eapply define_loc_rec_update; eassumption.
  - intros nm H. unfold find_defset in *. rewrite Hds. now apply S2.
  - intros nm d H. specialize (C1 nm d H). unfold class_view, find_class in *. rewrite Hc.
    destruct (alookup nm (s_nclass s)) as [id|]; [|discriminate].
    change (define_loc s' (SyRecord id) = Some d). eapply define_loc_rec_update; eassumption.
  - intros nm H. unfold find_class in *. rewrite Hc. now apply C2.
  - intros nm d H. specialize (M1 nm d H). unfold mc_view, find_multiclass in *. now rewrite Hmc, Hm.
  - intros nm H. unfold find_multiclass in *. rewrite Hmc. now apply M2.
Qed.

Lemma RB_rec_update : forall f e e' s s' rid g,
    RB f e s rid -> rec_update s s' rid g ->
    (forall r, rc_loc (g r) = rc_loc r) -> (forall r, rc_parents (g r) = rc_parents r) ->
    (forall vars t fr frs rc,
        s_scopes s = mkScope (KRecord rid) vars :: t -> e_frames e = fr :: frs -> nthN (s_recs s) rid = Some rc ->
        AL s (rc_fields rc) (fr_fields fr) -> AL s (rc_targs rc) (fr_targs fr) ->
        exists fr', e_frames e' = fr' :: frs /\ fr_vars fr' = fr_vars fr /\
                    AL s' (rc_fields (g rc)) (fr_fields fr') /\ AL s' (rc_targs (g rc)) (fr_targs fr')) ->
    RB f e' s' rid.
Proof.
  intros f e e' s s' rid g [vars t fr frs rc Hsc Hfe Hrec Hnp Av Af At T1 T2 T3] U Hg Hp Hnew.
  pose proof U as (Hs & Hm & Ht & Hc & Hd & Hmc & Hds & Hl & Hr).
  destruct (Hnew vars t fr frs rc Hsc Hfe Hrec Af At) as (fr' & Hfe' & Hv' & Af' & At').
  apply (mkRB f e' s' rid vars t fr' frs (g rc)); auto.
  - now rewrite Hs.
  - rewrite Hr, nthN_set_nth, N.eqb_refl, Hrec. reflexivity.
  - now rewrite Hp.
  - rewrite Hv'. now apply (AL_ext s s').
  - intros nm d H. destruct (T1 nm d H) as [sym [A B]]. exists sym.
    rewrite (find_local_tail_eq t s s' nm Hm T3). split; [exact A|]. eapply define_loc_rec_update; eassumption.
  - intros nm H. rewrite (find_local_tail_eq t s s' nm Hm T3). now apply T2.
Qed.

Record ResR (f : N) (s s' : st) (E : list ev) (e' : env) (rid : N) : Prop := mkResR {
  rr_uses : s_uses s' = rev E ++ s_uses s;
  rr_nf : nf s' = nf s;
  rr_rb : RB f e' s' rid;
  rr_g : Pre2g f e' s' }.
Lemma ResR_trans : forall f a b c E1 E2 e1 e2 rid,
    ResR f a b E1 e1 rid -> ResR f b c E2 e2 rid -> ResR f a c (E1 ++ E2) e2 rid.
Proof.
  intros f a b c E1 E2 e1 e2 rid [U1 N1 _ _] [U2 N2 R2 G2]. split; auto.
  - rewrite U2, U1, rev_app_distr, app_assoc. reflexivity.
  - congruence.
Qed.
Lemma ResR_of_Step : forall f e s s' E rid,
    Step s s' E -> RB f e s rid -> Pre2g f e s -> ResR f s s' E e rid.
Proof.
  intros f e s s' E rid [U V Sc N] R G. split; auto.
  - eapply RB_VR; eassumption.
  - eapply Pre2g_VR; eassumption.
Qed.

Lemma RB_current : forall f e s rid, RB f e s rid -> current_record_id s = Some rid.
Proof. intros f e s rid [vars t fr frs rc Hsc _ _ _ _ _ _ _ _ _]. unfold current_record_id. rewrite Hsc. reflexivity. Qed.
Lemma RB_valid : forall f e s rid, RB f e s rid -> exists rc, nthN (s_recs s) rid = Some rc.
Proof. intros f e s rid [vars t fr frs rc _ _ Hrec _ _ _ _ _ _ _]. eauto. Qed.

(** the state after `add_leaf l; record_mut rid g` for an existing record *)
Lemma leaf_then_mut : forall s l rid g rc,
    nthN (s_recs s) rid = Some rc ->
    let s3 := snd (record_mut rid g (snd (add_leaf l s))) in
    rec_update s s3 rid g /\ s_uses s3 = s_uses s /\ nf s3 = nf s /\ s_leaves s3 = s_leaves s ++ [l] /\ s_bad s3 = s_bad s.
Proof.
  intros s l rid g rc H s3. unfold s3, record_mut, add_leaf; simpl. unfold add_pos.
  destruct (rng_empty (lf_loc l)); simpl; rewrite H; simpl; repeat split; auto; eexists; reflexivity.
Qed.

Lemma add_field_frames : forall e fr frs n r, e_frames e = fr :: frs ->
    e_frames (add_field e n r) = mkFrame (fr_vars fr) ((n, r) :: fr_fields fr) (fr_targs fr) :: frs.
Proof. intros e fr frs n r H. unfold add_field. rewrite H. reflexivity. Qed.
Lemma add_targ_frames : forall e fr frs n r, e_frames e = fr :: frs ->
    e_frames (add_targ e n r) = mkFrame (fr_vars fr) (fr_fields fr) ((n, r) :: fr_targs fr) :: frs.
Proof. intros e fr frs n r H. unfold add_targ. rewrite H. reflexivity. Qed.
Lemma same_globals_add_field : forall e n r, same_globals e (add_field e n r).
Proof. intros. unfold add_field. destruct (e_frames e); repeat split. Qed.
Lemma same_globals_add_targ : forall e n r, same_globals e (add_targ e n r).
Proof. intros. unfold add_targ. destruct (e_frames e); repeat split. Qed.

Lemma AL_insert : forall s s' l l' nm0 id lf,
    AL s l l' -> (exists ext, s_leaves s' = s_leaves s ++ ext) -> nthN (s_leaves s') id = Some lf ->
    AL s' (imap_insert nm0 id l) ((nm0, lf_loc lf) :: l').
Proof.
  intros s s' l l' nm0 id lf H Hext Hid nm. rewrite alookup_imap_insert. simpl.
  destruct (name_eqb nm nm0).
  - exists lf. auto.
  - apply (AL_ext s s' l l' H Hext nm).
Qed.

(** declaring a field (FieldDef before its initialiser, or the re-declaration by a FieldLet) *)
Lemma RB_add_field : forall f e s rid l,
    RB f e s rid -> Pre2g f e s ->
    let s3 := snd (record_mut rid (rec_add_field (lf_name l) (lenN (s_leaves s))) (snd (add_leaf l s))) in
    ResR f s s3 [] (add_field e (lf_name l) (lf_loc l)) rid.
Proof.
  intros f e s rid l R G s3.
  destruct (RB_valid _ _ _ _ R) as [rc Hrc].
  destruct (leaf_then_mut s l rid (rec_add_field (lf_name l) (lenN (s_leaves s))) rc Hrc) as (U & Hu & Hn & Hl & _).
  fold s3 in U, Hu, Hn, Hl.
  assert (Hext : exists ext, s_leaves s3 = s_leaves s ++ ext) by (eexists; exact Hl).
  assert (Hid : nthN (s_leaves s3) (lenN (s_leaves s)) = Some l) by (rewrite Hl; apply nthN_app_last).
  split; auto.
  - eapply (RB_rec_update f e _ s s3 rid _ R U); try reflexivity.
    intros vars t fr frs rc0 Hsc Hfe Hrec Af At.
    exists (mkFrame (fr_vars fr) ((lf_name l, lf_loc l) :: fr_fields fr) (fr_targs fr)).
    split; [now apply add_field_frames|]. split; [reflexivity|]. split.
    + simpl. now apply (AL_insert s s3).
    + simpl. now apply (AL_ext s s3).
  - eapply (Pre2g_globals f e); [apply same_globals_add_field|].
    eapply Pre2g_rec_update; [exact G|exact U|reflexivity].
Qed.
Lemma RB_add_targ : forall f e s rid l,
    RB f e s rid -> Pre2g f e s ->
    let s3 := snd (record_mut rid (rec_add_targ (lf_name l) (lenN (s_leaves s))) (snd (add_leaf l s))) in
    ResR f s s3 [] (add_targ e (lf_name l) (lf_loc l)) rid.
Proof.
  intros f e s rid l R G s3.
  destruct (RB_valid _ _ _ _ R) as [rc Hrc].
  destruct (leaf_then_mut s l rid (rec_add_targ (lf_name l) (lenN (s_leaves s))) rc Hrc) as (U & Hu & Hn & Hl & _).
  fold s3 in U, Hu, Hn, Hl.
  assert (Hext : exists ext, s_leaves s3 = s_leaves s ++ ext) by (eexists; exact Hl).
  assert (Hid : nthN (s_leaves s3) (lenN (s_leaves s)) = Some l) by (rewrite Hl; apply nthN_app_last).
  split; auto.
  - eapply (RB_rec_update f e _ s s3 rid _ R U); try reflexivity.
    intros vars t fr frs rc0 Hsc Hfe Hrec Af At.
    exists (mkFrame (fr_vars fr) (fr_fields fr) ((lf_name l, lf_loc l) :: fr_targs fr)).
    split; [now apply add_targ_frames|]. split; [reflexivity|]. split.
    + simpl. now apply (AL_ext s s3).
    + simpl. now apply (AL_insert s s3).
  - eapply (Pre2g_globals f e); [apply same_globals_add_targ|].
    eapply Pre2g_rec_update; [exact G|exact U|reflexivity].
Qed.

Lemma AL_cons : forall s s' l l' nm0 id lf,
    AL s l l' -> (exists ext, s_leaves s' = s_leaves s ++ ext) -> nthN (s_leaves s') id = Some lf ->
    AL s' ((nm0, id) :: l) ((nm0, lf_loc lf) :: l').
Proof.
  intros s s' l l' nm0 id lf H Hext Hid nm. simpl. destruct (name_eqb nm nm0).
  - exists lf. auto.
  - apply (AL_ext s s' l l' H Hext nm).
Qed.

Lemma RB_with_var : forall f e s rid l,
    RB f e s rid -> Pre2g f e s ->
    ResR f s (with_var s l) [] (add_var e (lf_name l) (lf_loc l)) rid.
Proof.
  intros f e s rid l R G.
  destruct R as [vars t fr frs rc Hsc Hfe Hrec Hnp Av Af At T1 T2 T3].
  destruct (with_var_facts s l _ _ Hsc) as (Hsc' & Hl & Hu & Hn & V).
  pose proof V as (Hr & Hm & _).
  assert (Hext : exists ext, s_leaves (with_var s l) = s_leaves s ++ ext) by (eexists; exact Hl).
  assert (Hid : nthN (s_leaves (with_var s l)) (lenN (s_leaves s)) = Some l) by (rewrite Hl; apply nthN_app_last).
  split; auto.
  - apply (mkRB f _ (with_var s l) rid ((lf_name l, lenN (s_leaves s)) :: vars) t
                 (mkFrame ((lf_name l, lf_loc l) :: fr_vars fr) (fr_fields fr) (fr_targs fr)) frs rc); auto.
    + unfold add_var. rewrite Hfe. reflexivity.
    + now rewrite Hr.
    + simpl. now apply (AL_cons s (with_var s l)).
    + simpl. now apply (AL_ext s (with_var s l)).
    + simpl. now apply (AL_ext s (with_var s l)).
    + intros nm d H. destruct (T1 nm d H) as [sym [A B]]. exists sym.
      rewrite (find_local_tail_eq t s (with_var s l) nm Hm T3). split; [exact A|now apply (define_loc_ext s _ _ _ V)].
    + intros nm H. rewrite (find_local_tail_eq t s (with_var s l) nm Hm T3). now apply T2.
  - eapply (Pre2g_globals f e); [apply same_globals_add_var|]. eapply Pre2g_VR; eassumption.
Qed.

Lemma RB_Pre : forall f e s rid, RB f e s rid -> Pre2g f e s -> Pre f e s.
Proof. intros. apply Pre2_Pre. eapply RB_Pre2; eassumption. Qed.

Lemma value_ResR : forall n v f e s rid,
    frag_value v = true -> RB f e s rid -> Pre2g f e s -> forallb resolved (spec_value f e v) = true ->
    s_bad (snd (index_value n v s)) = false ->
    ResR f s (snd (index_value n v s)) (spec_value f e v) e rid.
Proof.
  intros n v f e s rid Hf R G HR Hb. apply ResR_of_Step; auto. apply value_agrees; auto. eapply RB_Pre; eassumption.
Qed.

Lemma err_ResR : forall f e s rid r k, nf_kind k = false -> RB f e s rid -> Pre2g f e s ->
    ResR f s (snd (err r k s)) [] e rid.
Proof. intros. apply ResR_of_Step; auto. now apply Step_err. Qed.

Lemma BM_record_mut : forall id g, resp BadMono (record_mut id g).
Proof. intros. bm_prim. Qed.
Lemma BM_add_leaf : forall l, resp BadMono (add_leaf l).
Proof. intros. bm_prim. Qed.

(** the state reached by `FieldDef::index`, as a function of the states of its parts *)
Definition after_decl (s1 : st) (rid : N) (lf : leaf) : st :=
  snd (record_mut rid (rec_add_field (lf_name lf) (lenN (s_leaves s1))) (snd (add_leaf lf s1))).

Definition field_state (n : nat) (t : ty) (i : ident) (v : option value) (rid : N) (s : st) : st :=
  let loc := mkR (current_file s) (r_lo (i_rng i)) (r_hi (i_rng i)) in
  match index_ty t s with
  | (None, s1) => s1
  | (Some typ, s1) =>
    let s3 := after_decl s1 rid (mkLeaf LField (i_name i) typ false loc) in
    match v with
    | None => s3
    | Some v' =>
      match index_value n v' s3 with
      | (None, s4) => s4
      | (Some vt, s4) => if can_cast s4 vt typ then s4 else snd (err (value_rng v') DFieldIncompat s4)
      end
    end
  end.
Lemma field_state_eq : forall n t i v rid s, current_record_id s = Some rid ->
    snd (index_item n (IField t i v) s) = field_state n t i v rid s.
Proof.
  intros n t i v rid s Hc. unfold field_state, after_decl. simpl.
  unfold bind at 1. unfold state, get. simpl. rewrite Hc.
  unfold bind at 1. unfold here, get. simpl. unfold bind at 1.
  destruct (index_ty t s) as [[typ|] s1]; simpl; [|reflexivity].
  unfold bind at 1. simpl. unfold seq at 1. unfold bind at 1. unfold lift at 1.
  destruct v as [v'|]; simpl; [|reflexivity].
  unfold bind at 1. destruct (index_value n v' _) as [[vt|] s4]; simpl; [|reflexivity].
  unfold bind, state, get. simpl. destruct (can_cast s4 vt typ); reflexivity.
Qed.

Arguments find_field : simpl never.
Arguments rec_fuel : simpl never.

(** ... and by `FieldLet::index` *)
Definition let_state (n : nat) (i : ident) (v : value) (rid : N) (s : st) : st :=
  let loc := mkR (current_file s) (r_lo (i_rng i)) (r_hi (i_rng i)) in
  match find_field (rec_fuel s) (s_recs s) rid (i_name i) with
  | None => s
  | Some fid =>
    match nthN (s_leaves s) fid with
    | None => s
    | Some fl =>
      let s3 := after_decl s rid (mkLeaf LField (i_name i) (lf_ty fl) false loc) in
      let s4 := snd (add_reference (SyLeaf fid) loc s3) in
      match index_value n v s4 with
      | (None, s5) => s5
      | (Some vt, s5) => if can_cast s5 vt (lf_ty fl) then s5 else snd (err (value_rng v) DFieldIncompat s5)
      end
    end
  end.
Lemma let_state_eq : forall n i v rid s, current_record_id s = Some rid ->
    snd (index_item n (ILet i v) s) = let_state n i v rid s.
Proof.
  intros n i v rid s Hc. unfold let_state, after_decl. simpl.
  unfold bind at 1. unfold here, get. simpl. unfold bind at 1. unfold state, get. simpl. rewrite Hc.
  unfold bind at 1. unfold lift at 1.
  destruct (find_field (rec_fuel s) (s_recs s) rid (i_name i)) as [fid|]; simpl; [|reflexivity].
  unfold bind at 1. unfold leaf_of, bind, state, get, lift. simpl.
  destruct (nthN (s_leaves s) fid) as [fl|]; simpl; [|reflexivity].
  unfold seq. simpl.
  destruct (index_value n v _) as [[vt|] s5]; simpl; [|reflexivity].
  destruct (can_cast s5 vt (lf_ty fl)); reflexivity.
Qed.

Lemma item_sim : forall n it f e s rid,
    frag_item it = true -> RB f e s rid -> Pre2g f e s ->
    forallb resolved (fst (spec_item f e it)) = true ->
    s_bad (snd (index_item n it s)) = false ->
    ResR f s (snd (index_item n it s)) (fst (spec_item f e it)) (snd (spec_item f e it)) rid.
Proof.
  intros n it f e s rid Hf R G HR Hb. destruct it as [t i v|i v|i v|c m|v].
  - (* field *)
    rewrite (field_state_eq n t i v rid s (RB_current _ _ _ _ R)) in *.
    change (spec_item f e (IField t i v)) with
      (spec_ty f e t ++ match v with Some v' => spec_value f (add_field e (i_name i) (at_file f (i_rng i))) v' | None => [] end,
       add_field e (i_name i) (at_file f (i_rng i))) in *.
    simpl in HR |- *. set (e1 := add_field e (i_name i) (at_file f (i_rng i))) in *.
    rewrite forallb_app in HR. apply andb_true_iff in HR. destruct HR as [HRt HRv].
    unfold field_state in *.
    set (loc := mkR (current_file s) (r_lo (i_rng i)) (r_hi (i_rng i))) in *.
    assert (Hloc : loc = at_file f (i_rng i)) by (unfold loc, at_file; now rewrite (g_file f e s G)).
    pose proof (RB_Pre _ _ _ _ R G) as P.
    pose proof (ty_sim t f e s P HRt) as St. pose proof (ty_sim_some t f e s P HRt) as Hts.
    destruct (index_ty t s) as [[typ|] s1] eqn:Et; [|simpl in Hts; congruence]. simpl in St.
    pose proof (ResR_of_Step f e s s1 _ rid St R G) as R1. pose proof R1 as [_ _ Rb1 G1].
    set (lf := mkLeaf LField (i_name i) typ false loc) in *.
    pose proof (RB_add_field f e s1 rid lf Rb1 G1) as R2.
    assert (Ee : add_field e (lf_name lf) (lf_loc lf) = e1) by (unfold e1, lf; simpl; now rewrite Hloc).
    rewrite Ee in R2. change (ResR f s1 (after_decl s1 rid lf) [] e1 rid) in R2.
    set (s3 := after_decl s1 rid lf) in *. pose proof R2 as [_ _ Rb3 G3].
    destruct v as [v|]; simpl in Hf, HRv |- *.
    + destruct (index_value n v s3) as [[vt|] s4] eqn:Ev.
      * assert (Hb4 : s_bad s4 = false) by (destruct (can_cast s4 vt typ); simpl in Hb; exact Hb).
        assert (R4 : ResR f s3 s4 (spec_value f e1 v) e1 rid).
        { replace s4 with (snd (index_value n v s3)) by now rewrite Ev.
          apply value_ResR; [exact Hf|exact Rb3|exact G3|exact HRv|now rewrite Ev]. }
        destruct (can_cast s4 vt typ).
        -- eapply ResR_trans; [exact R1|]. change (spec_value f e1 v) with ([] ++ spec_value f e1 v).
           eapply ResR_trans; [exact R2|exact R4].
        -- pose proof R4 as [_ _ Rb4 G4].
           pose proof (err_ResR f e1 s4 rid (value_rng v) DFieldIncompat eq_refl Rb4 G4) as R5.
           eapply ResR_trans; [exact R1|]. change (spec_value f e1 v) with ([] ++ spec_value f e1 v).
           eapply ResR_trans; [exact R2|]. rewrite <- (app_nil_r (spec_value f e1 v)).
           eapply ResR_trans; [exact R4|exact R5].
      * assert (R4 : ResR f s3 s4 (spec_value f e1 v) e1 rid).
        { replace s4 with (snd (index_value n v s3)) by now rewrite Ev.
          apply value_ResR; [exact Hf|exact Rb3|exact G3|exact HRv|now rewrite Ev]. }
        eapply ResR_trans; [exact R1|]. change (spec_value f e1 v) with ([] ++ spec_value f e1 v).
        eapply ResR_trans; [exact R2|exact R4].
    + rewrite app_nil_r. rewrite <- (app_nil_r (spec_ty f e t)). eapply ResR_trans; [exact R1|exact R2].
  - (* let *)
    rewrite (let_state_eq n i v rid s (RB_current _ _ _ _ R)) in *.
    change (spec_item f e (ILet i v)) with
      ((at_file f (i_rng i), lookup (i_name i) (top_fields e))
         :: spec_value f (add_field e (i_name i) (at_file f (i_rng i))) v,
       add_field e (i_name i) (at_file f (i_rng i))) in *.
    simpl in HR, Hf |- *. set (e1 := add_field e (i_name i) (at_file f (i_rng i))) in *.
    apply andb_true_iff in HR. destruct HR as [HR1 HRv]. unfold resolved in HR1; simpl in HR1.
    unfold let_state in *.
    set (loc := mkR (current_file s) (r_lo (i_rng i)) (r_hi (i_rng i))) in *.
    assert (Hloc : loc = at_file f (i_rng i)) by (unfold loc, at_file; now rewrite (g_file f e s G)).
    (* the field exists: the specification resolved it among the fields of the innermost frame *)
    destruct R as [vars t fr frs rc Hsc Hfe Hrec Hnp Av Af At T1 T2 T3] eqn:ER.
    assert (Htop : top_fields e = fr_fields fr) by (unfold top_fields; now rewrite Hfe).
    rewrite Htop in *.
    destruct (lookup (i_name i) (fr_fields fr)) as [d|] eqn:El; [|discriminate].
    assert (Hff : find_field (rec_fuel s) (s_recs s) rid (i_name i) = alookup (i_name i) (rc_fields rc)).
    { unfold rec_fuel. apply (find_field_nopar _ _ _ rc); assumption. }
    rewrite Hff in *. pose proof (Af (i_name i)) as Afi.
    destruct (alookup (i_name i) (rc_fields rc)) as [fid|]; [|congruence].
    destruct Afi as [fl [Hfl Hd]]. rewrite Hfl in *.
    assert (Hdd : d = lf_loc fl) by congruence. subst d.
    set (lf := mkLeaf LField (i_name i) (lf_ty fl) false loc) in *.
    pose proof (RB_add_field f e s rid lf (mkRB f e s rid vars t fr frs rc Hsc Hfe Hrec Hnp Av Af At T1 T2 T3) G) as R2.
    assert (Ee : add_field e (lf_name lf) (lf_loc lf) = e1) by (unfold e1, lf; simpl; now rewrite Hloc).
    rewrite Ee in R2. change (ResR f s (after_decl s rid lf) [] e1 rid) in R2.
    set (s3 := after_decl s rid lf) in *. pose proof R2 as [_ _ Rb3 G3].
    pose proof (Step_add_reference s3 (SyLeaf fid) loc) as Sr.
    set (s4 := snd (add_reference (SyLeaf fid) loc s3)) in *.
    assert (Hdl : define_loc s3 (SyLeaf fid) = Some (lf_loc fl)).
    { destruct (leaf_then_mut s lf rid (rec_add_field (lf_name lf) (lenN (s_leaves s))) rc Hrec) as (_ & _ & _ & Hl3 & _).
      simpl. fold (after_decl s rid lf) in Hl3. fold s3 in Hl3. rewrite Hl3, (nthN_app_some _ _ _ _ _ Hfl). reflexivity. }
    rewrite Hdl, Hloc in Sr.
    pose proof (ResR_of_Step f e1 s3 s4 _ rid Sr Rb3 G3) as R3. pose proof R3 as [_ _ Rb4 G4].
    destruct (index_value n v s4) as [[vt|] s5] eqn:Ev.
    + assert (Hb5 : s_bad s5 = false) by (destruct (can_cast s5 vt (lf_ty fl)); simpl in Hb; exact Hb).
      assert (R5 : ResR f s4 s5 (spec_value f e1 v) e1 rid).
      { replace s5 with (snd (index_value n v s4)) by now rewrite Ev.
        apply value_ResR; [exact Hf|exact Rb4|exact G4|exact HRv|now rewrite Ev]. }
      destruct (can_cast s5 vt (lf_ty fl)).
      * change ((at_file f (i_rng i), Some (lf_loc fl)) :: spec_value f e1 v)
          with ([] ++ ([(at_file f (i_rng i), Some (lf_loc fl))] ++ spec_value f e1 v)).
        eapply ResR_trans; [exact R2|]. eapply ResR_trans; [exact R3|exact R5].
      * pose proof R5 as [_ _ Rb5 G5].
        pose proof (err_ResR f e1 s5 rid (value_rng v) DFieldIncompat eq_refl Rb5 G5) as R6.
        change ((at_file f (i_rng i), Some (lf_loc fl)) :: spec_value f e1 v)
          with ([] ++ ([(at_file f (i_rng i), Some (lf_loc fl))] ++ spec_value f e1 v)).
        eapply ResR_trans; [exact R2|]. eapply ResR_trans; [exact R3|].
        rewrite <- (app_nil_r (spec_value f e1 v)). eapply ResR_trans; [exact R5|exact R6].
    + assert (R5 : ResR f s4 s5 (spec_value f e1 v) e1 rid).
      { replace s5 with (snd (index_value n v s4)) by now rewrite Ev.
        apply value_ResR; [exact Hf|exact Rb4|exact G4|exact HRv|now rewrite Ev]. }
      change ((at_file f (i_rng i), Some (lf_loc fl)) :: spec_value f e1 v)
        with ([] ++ ([(at_file f (i_rng i), Some (lf_loc fl))] ++ spec_value f e1 v)).
      eapply ResR_trans; [exact R2|]. eapply ResR_trans; [exact R3|exact R5].
  - (* defvar *)
    simpl in Hf, HR, Hb |- *. unfold index_defvar, bind, here, get, try_ in *. simpl in *.
    destruct (index_value n v s) as [o s1] eqn:E1. simpl in *.
    set (l := mkLeaf LVar (i_name i) match o with Some t => t | None => MUnknown end false
                     {| r_file := current_file s; r_lo := r_lo (i_rng i); r_hi := r_hi (i_rng i) |}) in *.
    assert (Hb1 : s_bad s1 = false) by (eapply (bad_false_before _ (scopes_add_variable l)); [bm_prim|exact Hb]).
    assert (R1 : ResR f s s1 (spec_value f e v) e rid).
    { replace s1 with (snd (index_value n v s)) by now rewrite E1. apply value_ResR; auto. now rewrite E1. }
    pose proof R1 as [_ _ Rb1 G1]. fold (with_var s1 l).
    pose proof (RB_with_var f e s1 rid l Rb1 G1) as R2. simpl in R2.
    assert (Hloc : {| r_file := current_file s; r_lo := r_lo (i_rng i); r_hi := r_hi (i_rng i) |} = at_file f (i_rng i))
      by (unfold at_file; now rewrite (g_file f e s G)).
    rewrite Hloc in R2. rewrite <- (app_nil_r (spec_value f e v)). eapply ResR_trans; eassumption.
  - (* assert *)
    simpl in Hf, HR, Hb |- *. apply andb_true_iff in Hf. destruct Hf as [Hfc Hfm].
    rewrite forallb_app in HR. apply andb_true_iff in HR. destruct HR as [HR1 HR2].
    unfold seq in *. simpl in *.
    assert (Hb1 : s_bad (snd (index_value n m s)) = false)
      by (eapply (bad_false_before _ (index_value n c)); [apply BM_index_value|exact Hb]).
    pose proof (value_ResR n m f e s rid Hfm R G HR1 Hb1) as R1. pose proof R1 as [_ _ Rb1 G1].
    eapply ResR_trans; [exact R1|]. apply value_ResR; auto.
  - (* dump *)
    simpl in Hf, HR, Hb |- *. unfold seq in *. simpl in *. apply value_ResR; auto.
Qed.
