(** ScopeSimRec: towards the agreement of the indexer model with ScopeSpec for ALL statements of the fragment
    (records included).  This file provides the relation that survives arena growth:
    - [LocR]: the declaration range of an existing symbol never changes (all programs);
    - [Pre2]: the relation between a specification environment and a model state, split into its local
      (frames / scope stack) and global (defs, defsets, classes, multiclasses) parts; it implies [Pre];
    - [globals_step]: what a block-like statement does to the lookups of its surroundings. *)
From Coq Require Import List NArith Bool Lia Arith.
From TG.Model Require Import CoreAst Scope BangOps Indexer ScopeSpec.
From TG.Proofs Require Import ScopeBalance ScopeFrame GenericResp ScopeSim ScopeSimStmt.
Import ListNotations.
Open Scope N_scope.

(** ---- the declaration range of an existing symbol never changes *)
Definition LocR (s s' : st) : Prop :=
  forall sym d, define_loc s sym = Some d -> define_loc s' sym = Some d.
Lemma LocR_refl : forall s, LocR s s. Proof. intros s sym d H; exact H. Qed.
Lemma LocR_trans : forall a b c, LocR a b -> LocR b c -> LocR a c.
Proof. intros a b c H1 H2 sym d H. auto. Qed.

Lemma define_loc_app_recs : forall s r sym d,
    define_loc s sym = Some d -> define_loc (set_recs (s_recs s ++ [r]) s) sym = Some d.
Proof.
  intros s r sym d H. destruct sym; simpl in *; auto.
  destruct (nthN (s_recs s) i) eqn:E; [|discriminate]. now rewrite (nthN_app_some _ _ [r] _ _ E).
Qed.
Lemma define_loc_app_leaves : forall s l sym d,
    define_loc s sym = Some d -> define_loc (set_leaves (s_leaves s ++ [l]) s) sym = Some d.
Proof.
  intros s l sym d H. destruct sym; simpl in *; auto.
  destruct (nthN (s_leaves s) i) eqn:E; [|discriminate]. now rewrite (nthN_app_some _ _ [l] _ _ E).
Qed.
Lemma define_loc_app_mcs : forall s m sym d,
    define_loc s sym = Some d -> define_loc (set_mcs (s_mcs s ++ [m]) s) sym = Some d.
Proof.
  intros s m sym d H. destruct sym; simpl in *; auto.
  destruct (nthN (s_mcs s) i) eqn:E; [|discriminate]. now rewrite (nthN_app_some _ _ [m] _ _ E).
Qed.
Lemma define_loc_add_pos : forall r id s sym, define_loc (add_pos r id s) sym = define_loc s sym.
Proof. intros. unfold add_pos. destruct (rng_empty r); reflexivity. Qed.

Lemma LocR_record_mut : forall id g, (forall r, rc_loc (g r) = rc_loc r) -> resp LocR (record_mut id g).
Proof.
  intros id g Hg s sym d H. unfold record_mut. destruct (nthN (s_recs s) id) eqn:E; simpl; [|exact H].
  destruct sym; simpl in *; auto.
  rewrite nthN_set_nth. destruct (N.eqb id i) eqn:Ei; [|exact H].
  destruct (nthN (s_recs s) i); simpl in *; [|discriminate]. now rewrite Hg.
Qed.
Lemma LocR_multiclass_mut : forall id g, (forall m, mc_loc (g m) = mc_loc m) -> resp LocR (multiclass_mut id g).
Proof.
  intros id g Hg s sym d H. unfold multiclass_mut. destruct (nthN (s_mcs s) id) eqn:E; simpl; [|exact H].
  destruct sym; simpl in *; auto.
  rewrite nthN_set_nth. destruct (N.eqb id i) eqn:Ei; [|exact H].
  destruct (nthN (s_mcs s) i); simpl in *; [|discriminate]. now rewrite Hg.
Qed.

Ltac locr_same := let s := fresh "s" in let sym := fresh "sym" in let d := fresh "d" in let H := fresh "H" in
  intros s sym d H; simpl; rewrite ?define_loc_add_pos; simpl; exact H.

Lemma LocR_index_stmt : forall files n x, resp LocR (index_stmt files n x).
Proof.
  apply (r_index_stmt LocR LocR_refl LocR_trans).
  - intros A. locr_same.
  - intros r k. locr_same.
  - intros id l. unfold add_reference, upd. locr_same.
  - intros n c l s sym d H. unfold add_record; simpl. rewrite define_loc_add_pos.
    destruct c; simpl; apply (define_loc_app_recs s _ sym d H).
  - intros n l s sym d H. simpl. apply (define_loc_app_recs s _ sym d H).
  - intros l s sym d H. unfold add_leaf; simpl. rewrite define_loc_add_pos. apply (define_loc_app_leaves s _ sym d H).
  - intros l s sym d H. simpl. apply (define_loc_app_leaves s _ sym d H).
  - intros l s sym d H. unfold add_defset; simpl. rewrite define_loc_add_pos. simpl.
    apply (define_loc_app_leaves s _ sym d H).
  - intros n l s sym d H. unfold add_multiclass; simpl. rewrite define_loc_add_pos. simpl.
    apply (define_loc_app_mcs s _ sym d H).
  - intros id n t. apply LocR_record_mut. reflexivity.
  - intros id n t. apply LocR_record_mut. reflexivity.
  - intros id p. apply LocR_record_mut. reflexivity.
  - intros id n t. apply LocR_multiclass_mut. reflexivity.
  - intros id p. apply LocR_multiclass_mut. reflexivity.
  - intros k. locr_same.
  - intros s sym d H. unfold pop_scope. destruct (s_scopes s); simpl; exact H.
  - intros l. unfold scopes_add_variable. apply (resp_bind LocR LocR_trans).
    + intros s sym d H. unfold add_leaf; simpl. rewrite define_loc_add_pos. apply (define_loc_app_leaves s _ sym d H).
    + intros id s sym d H. destruct (s_scopes s); simpl; exact H.
  - intros f. locr_same.
  - intros s sym d H. unfold pop_file. destruct (s_trace s); simpl; exact H.
  - locr_same.
  - intros f. locr_same.
Qed.
