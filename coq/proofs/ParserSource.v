(** The C01 / C02 theorems, transferred from the hand model of the parser primitives to the rendering of
    crates/syntax/src/{lexer,preprocessor,parser}.rs that the translators regenerate on every run.
    [GenParserEq.gparse_with] runs the grammar program over the GENERATED ParserBase methods (GenParser.v), which call
    the GENERATED preprocessor (GenPrep.v), which calls the GENERATED lexer (GenLexer.v); [gparse_with_eq] (builder
    lexprep) says it computes exactly [parse_view (parse_with ..)] for every program, text and fuel.  Hence: *)
From Coq Require Import List Arith NArith Bool String Lia.
From TG.Gen Require Import GenTokens GenLexTables GenGrammar GenGrammarCert GenLibGlue.
From TG.Model Require Import Chars Lexer Prep Tree ParserPrims ParserMonad GInterp.
From TG.Proofs Require Import LexBasics ParserTile GTile GenParserEq ParserMsgs ParserTop GenLibGlueEq.
Import ListNotations.

(** a SyntaxError as the source rendering has it: (start, end, message string) *)
Definition serror_wf (txt : text) (e : syntax_error) : Prop :=
  let '(lo, hi, m) := e in
  m <> EmptyString /\ (lo <= hi)%N /\ (hi <= bytes txt)%N /\ on_char_boundary txt lo /\ on_char_boundary txt hi.

Lemma gparse_ok_inv fuel p entry txt t es :
  gparse_with fuel p entry txt = GParseOk t es ->
  exists errs st, parse_with fuel p entry txt = ParseOk t errs st /\ es = map emsg errs.
Proof.
  rewrite gparse_with_eq. destruct (parse_with fuel p entry txt) as [t0 errs st| |]; cbn; intros H; inversion H; subst.
  eauto.
Qed.

Lemma error_wf_emsg txt e : error_wf txt e -> serror_wf txt (emsg e).
Proof. destruct e as [[lo hi] m]. cbn. tauto. Qed.

(** C01 on the source rendering *)
Theorem source_lossless : forall fuel txt t es,
  gparse_with fuel grammar_prog grammar_entry txt = GParseOk t es -> lossless txt t.
Proof.
  intros fuel txt t es H. destruct (gparse_ok_inv _ _ _ _ _ _ H) as (errs & st & P & _).
  eapply grammar_lossless. exact P.
Qed.

(** C02 on the source rendering: a tree and an error list on EVERY text, errors well-formed *)
Theorem source_total : forall txt, exists fuel t es,
  gparse_with fuel grammar_prog grammar_entry txt = GParseOk t es /\ lossless txt t /\ Forall (serror_wf txt) es.
Proof.
  intros txt. destruct (grammar_parse_spec txt) as (fuel & t & errs & st & P & L & E & _).
  exists fuel, t, (map emsg errs). split; [rewrite gparse_with_eq, P; reflexivity|]. split; [exact L|].
  rewrite Forall_forall in *. intros e IN. apply in_map_iff in IN. destruct IN as (e0 & <- & IN0).
  apply error_wf_emsg. apply E. exact IN0.
Qed.

Lemma parse_with_mono p entry fuel txt r : parse_with fuel p entry txt = r -> r <> ParseOOF ->
  forall fuel', fuel <= fuel' -> parse_with fuel' p entry txt = r.
Proof.
  unfold parse_with. intros H NO fuel' LE.
  destruct (gexec fuel p (ECall entry None) [] (p_new txt)) as [v en s|en s|v en s| |] eqn:E1;
    try (rewrite (LookProgSound.gexec_mono p _ _ _ _ _ E1 ltac:(discriminate) _ LE); exact H).
  congruence.
Qed.

(** no fuel makes the source rendering panic *)
Theorem source_never_panics : forall fuel txt, gparse_with fuel grammar_prog grammar_entry txt <> GParsePanic.
Proof.
  intros fuel txt. rewrite gparse_with_eq.
  destruct (parse_with fuel grammar_prog grammar_entry txt) as [t errs st| |] eqn:P; cbn; try discriminate.
  exfalso. destruct (grammar_total txt) as (fuel' & t & errs & st & Q).
  pose proof (parse_with_mono _ _ _ _ _ P ltac:(discriminate) (Nat.max fuel fuel') (Nat.le_max_l _ _)) as P'.
  pose proof (parse_with_mono _ _ _ _ _ Q ltac:(discriminate) (Nat.max fuel fuel') (Nat.le_max_r _ _)) as Q'.
  congruence.
Qed.

(** * `syntax::parse` itself, as tools/translate/t_libglue.py renders it from crates/syntax/src/lib.rs (gen/GenLibGlue.v):
    Lexer::new, PreProcessor::new, Parser::new, grammar::source_file (the regenerated grammar program), Parser::finish,
    `Parse { green_node, errors }`.  [GenLibGlueEq.glib_parse_eq]: it IS [gparse_with]; hence the three theorems. *)
Definition lib_parse (fuel : nat) (txt : text) : gparse_out :=
  glib_parse (fun g => ggexec fuel grammar_prog (ECall grammar_entry None) [] g) txt.

Theorem lib_parse_is_gparse : forall fuel txt, lib_parse fuel txt = gparse_with fuel grammar_prog grammar_entry txt.
Proof. intros. apply glib_parse_eq. Qed.

Theorem lib_parse_lossless : forall fuel txt t es,
  lib_parse fuel txt = GParseOk t es ->
  lossless txt t /\ glib_syntax_node (mk_parse t es) = (0%N, t) /\ glib_errors (mk_parse t es) = es.
Proof.
  intros fuel txt t es H. rewrite lib_parse_is_gparse in H. split; [exact (source_lossless _ _ _ _ H)|].
  split; reflexivity.
Qed.

Theorem lib_parse_total : forall txt, exists fuel t es,
  lib_parse fuel txt = GParseOk t es /\ lossless txt t /\ Forall (serror_wf txt) es.
Proof.
  intros txt. destruct (source_total txt) as (fuel & t & es & P & R). exists fuel, t, es.
  rewrite lib_parse_is_gparse. split; [exact P|exact R].
Qed.

Theorem lib_parse_never_panics : forall fuel txt, lib_parse fuel txt <> GParsePanic.
Proof. intros fuel txt. rewrite lib_parse_is_gparse. apply source_never_panics. Qed.
