(** ScopeSim: the indexer model agrees with the declarative resolver ScopeSpec on the fragment [frag_*]:
    the (ghost) log of resolved uses the model produces is exactly the list of uses the specification
    computes, each with the declaration the specification assigns, and no "not found" diagnostic is emitted,
    for every well-scoped program of the fragment.  Part 1: values. *)
From Coq Require Import List NArith Bool Lia Arith.
From TG.Model Require Import CoreAst Scope BangOps Indexer ScopeSpec.
From TG.Proofs Require Import ScopeBalance ScopeFrame GenericResp.
Import ListNotations.
Open Scope N_scope.

(** ---- what a value may change: nothing but the logs and (appended) leaves *)
Definition VR (s s' : st) : Prop :=
  s_recs s' = s_recs s /\ s_mcs s' = s_mcs s /\ s_nclass s' = s_nclass s /\ s_ndef s' = s_ndef s /\
  s_nmc s' = s_nmc s /\ s_ndset s' = s_ndset s /\ s_trace s' = s_trace s /\
  (exists ext, s_leaves s' = s_leaves s ++ ext).
Lemma VR_refl : forall s, VR s s.
Proof. intros s. repeat split; auto. exists []. now rewrite app_nil_r. Qed.
Lemma VR_trans : forall a b c, VR a b -> VR b c -> VR a c.
Proof.
  intros a b c (A1 & A2 & A3 & A4 & A5 & A6 & A7 & [x1 A8]) (B1 & B2 & B3 & B4 & B5 & B6 & B7 & [x2 B8]).
  repeat split; try congruence. exists (x1 ++ x2). now rewrite B8, A8, app_assoc.
Qed.

Ltac vr_prim :=
  intros; let s := fresh "s" in intros s;
  unfold add_reference, scopes_add_variable, add_leaf, bind, upd, bad, error, push_scope, pop_scope, add_pos; simpl;
  repeat match goal with |- context [match ?x with _ => _ end] => destruct x end; simpl;
  repeat split; auto; try (exists []; now rewrite app_nil_r); try (eexists; reflexivity).

Lemma VR_index_value : forall n v, resp VR (index_value n v).
Proof. apply (r_index_value VR VR_refl VR_trans); vr_prim. Qed.
Lemma VR_index_ty : forall t, resp VR (index_ty t).
Proof. apply (r_index_ty VR VR_refl VR_trans); vr_prim. Qed.
Lemma VR_index_arg : forall n a, resp VR (index_arg n a).
Proof. apply (r_index_arg VR VR_refl VR_trans); vr_prim. Qed.
Lemma VR_index_bang_ops : forall n op a vs r, resp VR (index_bang_ops n op a vs r).
Proof. apply (r_index_bang_ops VR VR_refl VR_trans); vr_prim. Qed.

(** ---- the `bad` flag (modelled panic / fuel exhaustion) is never reset *)
Definition BadMono (s s' : st) : Prop := s_bad s = true -> s_bad s' = true.
Lemma BM_refl : forall s, BadMono s s. Proof. intros s H; exact H. Qed.
Lemma BM_trans : forall a b c, BadMono a b -> BadMono b c -> BadMono a c.
Proof. intros a b c H1 H2 H. auto. Qed.
Ltac bm_prim :=
  intros; let s := fresh "s" in intros s;
  unfold BadMono, add_reference, scopes_add_variable, add_leaf, add_leaf_nopos, add_defset, add_record,
    add_anonymous_def, add_multiclass, record_mut, multiclass_mut, pop_file, push_file, next_anonymous,
    bind, upd, bad, error, push_scope, pop_scope, add_pos; simpl;
  repeat match goal with |- context [match ?x with _ => _ end] => destruct x end; simpl; auto.
Lemma BM_index_stmt : forall files n x, resp BadMono (index_stmt files n x).
Proof. apply (r_index_stmt BadMono BM_refl BM_trans); bm_prim. Qed.
Lemma BM_index_value : forall n v, resp BadMono (index_value n v).
Proof. apply (r_index_value BadMono BM_refl BM_trans); bm_prim. Qed.

(** ---------------------------------------------------------------------------------------------
    the relation between the environment of the specification and the state of the model *)
Definition nf_kind (k : dkind) : bool :=
  match k with DSymbolNotFound | DClassNotFound | DMulticlassNotFound => true | _ => false end.
Definition nf (s : st) : list (rng * dkind) := filter (fun d => nf_kind (snd d)) (s_diags s).

Definition lookup_view (s : st) (nm : name) : option rng :=
  match resolve_id s nm with Some sym => define_loc s sym | None => None end.
Definition class_view (s : st) (nm : name) : option rng :=
  match find_class s nm with Some id => option_map rc_loc (nthN (s_recs s) id) | None => None end.
Definition mc_view (s : st) (nm : name) : option rng :=
  match find_multiclass s nm with Some id => option_map mc_loc (nthN (s_mcs s) id) | None => None end.

Record Pre (f : N) (e : env) (s : st) : Prop := mkPre {
  pre_file : current_file s = f;
  pre_id_some : forall nm d, lookup_id e nm = Some d -> lookup_view s nm = Some d;
  pre_id_none : forall nm, lookup_id e nm = None -> resolve_id s nm = None;
  pre_cls_some : forall nm d, lookup_class e nm = Some d -> class_view s nm = Some d;
  pre_cls_none : forall nm, lookup_class e nm = None -> find_class s nm = None;
  pre_mc_some : forall nm d, lookup_mc e nm = Some d -> mc_view s nm = Some d;
  pre_mc_none : forall nm, lookup_mc e nm = None -> find_multiclass s nm = None }.

(** [Step s s' E]: from s to s' exactly the uses E were logged (in order), no "not found" diagnostic was
    emitted, and nothing else a lookup depends on changed *)
Record Step (s s' : st) (E : list ev) : Prop := mkStep {
  st_uses : s_uses s' = rev E ++ s_uses s;
  st_vr : VR s s';
  st_scopes : s_scopes s' = s_scopes s;
  st_nf : nf s' = nf s }.

Lemma Step_refl : forall s, Step s s [].
Proof. intros s. split; auto. apply VR_refl. Qed.
Lemma Step_trans : forall a b c E1 E2, Step a b E1 -> Step b c E2 -> Step a c (E1 ++ E2).
Proof.
  intros a b c E1 E2 [U1 V1 S1 N1] [U2 V2 S2 N2]. split.
  - rewrite U2, U1, rev_app_distr, app_assoc. reflexivity.
  - eapply VR_trans; eassumption.
  - congruence.
  - congruence.
Qed.
Lemma Step_eq : forall a b E E', Step a b E -> E = E' -> Step a b E'.
Proof. intros; subst; assumption. Qed.

(** lookups only depend on the frame *)
Lemma scope_find_eq : forall s s' c nm,
    s_recs s' = s_recs s -> s_mcs s' = s_mcs s -> scope_find s' c nm = scope_find s c nm.
Proof. intros s s' c nm Hr Hm. unfold scope_find, rec_fuel. now rewrite Hr, Hm. Qed.
Lemma find_map_ext : forall A B (g h : A -> option B) l, (forall x, g x = h x) -> find_map g l = find_map h l.
Proof. intros A B g h l H. induction l as [|x r IH]; simpl; [reflexivity|]. rewrite H, IH. reflexivity. Qed.
Lemma resolve_id_eq : forall s s' nm,
    s_scopes s' = s_scopes s -> VR s s' -> resolve_id s' nm = resolve_id s nm.
Proof.
  intros s s' nm Hs (Hr & Hm & _ & Hd & _ & Hds & _ & _).
  unfold resolve_id, find_local, find_def, find_defset. rewrite Hs, Hd, Hds.
  rewrite (find_map_ext _ _ (fun c => scope_find s' c nm) (fun c => scope_find s c nm)); [reflexivity|].
  intros c. now apply scope_find_eq.
Qed.
Lemma nthN_app_some : forall A (l ext : list A) i x, nthN l i = Some x -> nthN (l ++ ext) i = Some x.
Proof.
  intros A l ext i x H. unfold nthN in *. rewrite nth_error_app1; [assumption|].
  apply nth_error_Some. congruence.
Qed.
Lemma define_loc_ext : forall s s' sym d, VR s s' -> define_loc s sym = Some d -> define_loc s' sym = Some d.
Proof.
  intros s s' sym d (Hr & Hm & _ & _ & _ & _ & _ & [ext Hl]) H. destruct sym; simpl in *.
  - now rewrite Hr.
  - now rewrite Hm.
  - rewrite Hl. destruct (nthN (s_leaves s) i) eqn:E; [|discriminate].
    now rewrite (nthN_app_some _ _ ext _ _ E).
Qed.

Lemma Pre_VR : forall f e s s', Pre f e s -> VR s s' -> s_scopes s' = s_scopes s -> Pre f e s'.
Proof.
  intros f e s s' [P1 P2 P3 P4 P5 P6 P7] V Hs.
  pose proof V as (Hr & Hm & Hc & Hd & Hmc & Hds & Ht & Hl).
  split.
  - unfold current_file in *. now rewrite Ht.
  - intros nm d H. specialize (P2 nm d H). unfold lookup_view in *.
    rewrite (resolve_id_eq s s' nm Hs V). destruct (resolve_id s nm); [|discriminate].
    now apply (define_loc_ext s s').
  - intros nm H. rewrite (resolve_id_eq s s' nm Hs V). now apply P3.
  - intros nm d H. specialize (P4 nm d H). unfold class_view, find_class in *. now rewrite Hc, Hr.
  - intros nm H. unfold find_class in *. rewrite Hc. now apply P5.
  - intros nm d H. specialize (P6 nm d H). unfold mc_view, find_multiclass in *. now rewrite Hmc, Hm.
  - intros nm H. unfold find_multiclass in *. rewrite Hmc. now apply P7.
Qed.
Lemma Pre_Step : forall f e s s' E, Pre f e s -> Step s s' E -> Pre f e s'.
Proof. intros f e s s' E P [_ V S _]. eapply Pre_VR; eassumption. Qed.

(** ---- small steps *)
Lemma nf_cons_other : forall s r k, nf_kind k = false -> nf (set_diags ((r, k) :: s_diags s) s) = nf s.
Proof. intros s r k H. unfold nf; simpl. now rewrite H. Qed.

Lemma Step_err : forall s r k, nf_kind k = false -> Step s (snd (err r k s)) [].
Proof.
  intros s r k H. unfold err, bind, here, get, error, upd; simpl. split.
  - reflexivity.
  - repeat split; auto. exists []. now rewrite app_nil_r.
  - reflexivity.
  - now apply nf_cons_other.
Qed.
Lemma Step_errs : forall (l : list dg) s (k : dkind), nf_kind k = false ->
    Step s (snd (iterM (fun d => err (fst d) k) l s)) [].
Proof.
  induction l as [|d r IH]; intros s k H; simpl; [apply Step_refl|].
  unfold seq. apply (Step_trans s (snd (err (fst d) k s)) _ [] []); [now apply Step_err|now apply IH].
Qed.
Lemma Step_emit : forall (l : list dg) s, (forall d, In d l -> nf_kind (snd d) = false) ->
    Step s (snd (emit l s)) [].
Proof.
  unfold emit. induction l as [|d r IH]; intros s H; simpl; [apply Step_refl|].
  unfold seq. apply (Step_trans s (snd (err (fst d) (snd d) s)) _ [] []);
    [apply Step_err, H; now left|apply IH; intros; apply H; now right].
Qed.

Lemma uses_add_pos : forall r id s, s_uses (add_pos r id s) = s_uses s.
Proof. intros. unfold add_pos. destruct (rng_empty r); reflexivity. Qed.
Lemma nf_add_pos : forall r id s, nf (add_pos r id s) = nf s.
Proof. intros. unfold add_pos, nf. destruct (rng_empty r); reflexivity. Qed.

Lemma Step_add_reference : forall s sym loc,
    Step s (snd (add_reference sym loc s)) [(loc, define_loc s sym)].
Proof.
  intros. unfold add_reference, upd; simpl. split.
  - rewrite uses_add_pos. reflexivity.
  - unfold add_pos. destruct (rng_empty loc); simpl; repeat split; auto; exists []; now rewrite app_nil_r.
  - unfold add_pos. destruct (rng_empty loc); reflexivity.
  - rewrite nf_add_pos. reflexivity.
Qed.

(** computations that do not change the state *)
Definition pure {A} (m : M A) : Prop := forall s, snd (m s) = s.
Lemma pure_ret : forall A (x : A), pure (ret x). Proof. intros A x s; reflexivity. Qed.
Lemma pure_none : forall A, pure (@none A). Proof. intros A s; reflexivity. Qed.
Lemma pure_lift : forall A (o : option A), pure (lift o). Proof. intros A o s; reflexivity. Qed.
Lemma pure_get : forall A (g : st -> A), pure (get g). Proof. intros A g s; reflexivity. Qed.
Lemma pure_bind : forall A B (m : M A) (k : A -> M B), pure m -> (forall x, pure (k x)) -> pure (bind m k).
Proof.
  intros A B m k Hm Hk s. unfold bind. specialize (Hm s). destruct (m s) as [[x|] s1]; simpl in *; subst; auto.
  apply Hk.
Qed.

Lemma bind_pure_state : forall A B (m : M A) (k : A -> M B) s,
    (forall x, pure (k x)) -> snd (bind m k s) = snd (m s).
Proof.
  intros A B m k s H. unfold bind. destruct (m s) as [[x|] s1]; simpl; [apply H|reflexivity].
Qed.

(** ---- types *)
Lemma ty_sim : forall t f e s,
    Pre f e s -> forallb resolved (spec_ty f e t) = true ->
    Step s (snd (index_ty t s)) (spec_ty f e t).
Proof.
  induction t; intros f e s P HR; simpl; try apply Step_refl.
  - (* list *)
    unfold bind. specialize (IHt f e s P HR).
    destruct (index_ty t s) as [[x|] s1]; simpl in *; assumption.
  - (* class *)
    simpl in HR. rewrite andb_true_r in HR. unfold resolved in HR; simpl in HR.
    destruct (lookup_class e (i_name i)) as [d|] eqn:El; [|discriminate].
    pose proof (pre_cls_some f e s P _ _ El) as Hc. unfold class_view in Hc.
    unfold bind, here, state, get; simpl.
    destruct (find_class s (i_name i)) as [c|] eqn:Ef; [|discriminate].
    unfold seq. simpl.
    eapply Step_eq; [apply Step_add_reference|].
    simpl. rewrite Hc. unfold at_file. now rewrite (pre_file f e s P).
Qed.

(** ---- lists of sub-terms *)
Lemma BM_index_arg : forall n a, resp BadMono (index_arg n a).
Proof. apply (r_index_arg BadMono BM_refl BM_trans); bm_prim. Qed.
Lemma BM_index_ty : forall t, resp BadMono (index_ty t).
Proof. apply (r_index_ty BadMono BM_refl BM_trans); bm_prim. Qed.
Lemma BM_index_bang_ops : forall n op a vs r, resp BadMono (index_bang_ops n op a vs r).
Proof. apply (r_index_bang_ops BadMono BM_refl BM_trans); bm_prim. Qed.
Lemma BM_index_inner : forall n x, resp BadMono (index_inner n x).
Proof. intros n. apply (values_resp_all BadMono BM_refl BM_trans); bm_prim. Qed.
Lemma BM_err : forall r k, resp BadMono (err r k).
Proof. intros r k s H. exact H. Qed.

Lemma bad_false_before : forall A (m : M A) s, resp BadMono m -> s_bad (snd (m s)) = false -> s_bad s = false.
Proof. intros A m s H Hb. destruct (s_bad s) eqn:E; [|reflexivity]. rewrite (H s E) in Hb. discriminate. Qed.

Lemma forallb_flat_map_cons : forall A (h : A -> list ev) x l,
    forallb resolved (flat_map h (x :: l)) = true ->
    forallb resolved (h x) = true /\ forallb resolved (flat_map h l) = true.
Proof. intros A h x l H. simpl in H. rewrite forallb_app in H. now apply andb_true_iff in H. Qed.

Lemma iter_sim : forall A B (g : A -> M B) (h : A -> list ev) f e,
    (forall x, resp BadMono (g x)) ->
    forall l,
      (forall x s, In x l -> Pre f e s -> forallb resolved (h x) = true -> s_bad (snd (g x s)) = false ->
                   Step s (snd (g x s)) (h x)) ->
      forall s, Pre f e s -> forallb resolved (flat_map h l) = true -> s_bad (snd (iterM g l s)) = false ->
                Step s (snd (iterM g l s)) (flat_map h l).
Proof.
  intros A B g h f e HB l. induction l as [|x r IH]; intros Hx s P HR Hbad; simpl; [apply Step_refl|].
  destruct (forallb_flat_map_cons _ h x r HR) as [HR1 HR2].
  simpl in Hbad. unfold seq in *.
  assert (Hb1 : s_bad (snd (g x s)) = false).
  { eapply (bad_false_before _ (iterM g r)); [|exact Hbad]. apply (resp_iterM BadMono BM_refl BM_trans). intros; apply HB. }
  assert (S1 : Step s (snd (g x s)) (h x)) by (apply Hx; auto; now left).
  apply (Step_trans s (snd (g x s)) _ (h x) (flat_map h r)); [exact S1|].
  apply IH; auto.
  - intros y s0 Hy. apply Hx. now right.
  - eapply Pre_Step; eassumption.
Qed.

Lemma mapM_opt_state : forall A B (g : A -> M B) l s,
    snd (mapM_opt g l s) = snd (iterM g l s) /\ fst (mapM_opt g l s) <> None.
Proof.
  intros A B g l. induction l as [|x r IH]; intros s; simpl; [split; [reflexivity|discriminate]|].
  unfold bind, try_, seq. destruct (g x s) as [o s1]; simpl.
  destruct (IH s1) as [E1 E2]. destruct (mapM_opt g r s1) as [[os|] s2]; simpl in *; [|congruence].
  split; [assumption|discriminate].
Qed.

(** ---- the pieces of a bang operator *)
Definition spec_annot (f : N) (e : env) (op : bop) (annot : option (ty * rng)) : list ev :=
  match annot with
  | Some (t, _) => if op_takes_type op then spec_ty f e t else []
  | None => []
  end.
Definition spec_operands (f : N) (e : env) (op : bop) (vs : list value) : list ev :=
  match op, vs with
  | XForEach, [var; sq; body] | XFilter, [var; sq; body] =>
    spec_value f e sq
    ++ match first_ident var with
       | Some i => spec_value f (push_vars e [(i_name i, at_file f (i_rng i))]) body
       | None => []
       end
  | XFoldl, [init; sq; acc; var; body] =>
    spec_value f e init ++ spec_value f e sq
    ++ match first_ident acc, first_ident var with
       | Some ia, Some iv =>
         spec_value f (push_vars e [(i_name iv, at_file f (i_rng iv)); (i_name ia, at_file f (i_rng ia))]) body
       | _, _ => []
       end
  | XForEach, _ | XFilter, _ | XFoldl, _ => []
  | _, _ => flat_map (spec_value f e) vs
  end.
Lemma spec_simple_bang : forall f e op annot vs r,
    spec_simple f e (SBang op annot vs r) = spec_annot f e op annot ++ spec_operands f e op vs.
Proof. reflexivity. Qed.
Definition frag_operands (op : bop) (vs : list value) : bool :=
  match op, vs with
  | XForEach, [var; sq; _] | XFilter, [var; sq; _] => is_ident_first var && is_list_literal sq
  | XFoldl, [init; sq; acc; var; _] =>
    is_plain_literal init && is_list_literal sq && is_ident_first acc && is_ident_first var
  | XForEach, _ | XFilter, _ | XFoldl, _ => false
  | _, _ => true
  end.
Lemma frag_simple_bang : forall op annot vs r,
    frag_simple (SBang op annot vs r) = forallb frag_value vs && frag_operands op vs.
Proof. reflexivity. Qed.

Lemma takes_type_annot : forall op,
    op_takes_type op = match bang_annot op with AnUnexpect => false | _ => true end.
Proof. destruct op; reflexivity. Qed.

Lemma annot_sim : forall op annot r f e s,
    Pre f e s -> forallb resolved (spec_annot f e op annot) = true ->
    Step s (snd (index_annot op annot r s)) (spec_annot f e op annot).
Proof.
  intros op annot r f e s P HR. unfold index_annot, spec_annot in *. rewrite takes_type_annot in *.
  destruct (bang_annot op); destruct annot as [[t tr]|]; simpl in *.
  - unfold seq. simpl. apply (Step_err s tr DUnexpectAnnot). reflexivity.
  - apply Step_refl.
  - unfold try_. pose proof (ty_sim t f e s P HR). destruct (index_ty t s); assumption.
  - unfold seq. simpl. apply (Step_err s r DExpectAnnot). reflexivity.
  - unfold try_. pose proof (ty_sim t f e s P HR). destruct (index_ty t s); assumption.
  - apply Step_refl.
Qed.
Lemma Step_check_arity : forall op vs r s, Step s (snd (check_arity op vs r s)) [].
Proof.
  intros. unfold check_arity. destruct (arity_ok _ _); [apply Step_refl|]. apply Step_err. reflexivity.
Qed.

(** ---- scopes: push, declare a variable, pop *)
Lemma nthN_app_last : forall A (l : list A) x, nthN (l ++ [x]) (lenN l) = Some x.
Proof.
  intros. unfold nthN, lenN. rewrite Nat2N.id. rewrite nth_error_app2 by lia. now rewrite Nat.sub_diag.
Qed.

Lemma lookup_id_add_var : forall e n r nm, e_frames e <> [] ->
    lookup_id (add_var e n r) nm = if name_eqb nm n then Some r else lookup_id e nm.
Proof.
  intros e n r nm H. unfold lookup_id, add_var. destruct (e_frames e) as [|fr t]; [congruence|]. simpl.
  unfold frame_lookup at 1. simpl. destruct (name_eqb nm n); reflexivity.
Qed.
Lemma lookup_class_add_var : forall e n r nm, lookup_class (add_var e n r) nm = lookup_class e nm.
Proof. intros. unfold add_var. destruct (e_frames e); reflexivity. Qed.
Lemma lookup_mc_add_var : forall e n r nm, lookup_mc (add_var e n r) nm = lookup_mc e nm.
Proof. intros. unfold add_var. destruct (e_frames e); reflexivity. Qed.
Lemma lookup_id_push_empty : forall e nm, lookup_id (push_vars e []) nm = lookup_id e nm.
Proof. intros. reflexivity. Qed.

(** the state after `Scopes::add_variable` *)
Definition with_var (s : st) (l : leaf) : st := snd (scopes_add_variable l s).

Lemma with_var_facts : forall s l c t, s_scopes s = c :: t ->
    s_scopes (with_var s l) = mkScope (sc_kind c) ((lf_name l, lenN (s_leaves s)) :: sc_vars c) :: t /\
    s_leaves (with_var s l) = s_leaves s ++ [l] /\
    s_uses (with_var s l) = s_uses s /\ nf (with_var s l) = nf s /\ VR s (with_var s l).
Proof.
  intros s l c t Hs. unfold with_var, scopes_add_variable, bind, add_leaf; simpl.
  unfold add_pos. destruct (rng_empty (lf_loc l)); simpl; rewrite Hs; simpl;
    repeat split; auto; eexists; reflexivity.
Qed.

Lemma scope_find_add : forall s s' c n id nm,
    s_recs s' = s_recs s -> s_mcs s' = s_mcs s ->
    scope_find s' (mkScope (sc_kind c) ((n, id) :: sc_vars c)) nm
    = if name_eqb nm n then Some (SyLeaf id) else scope_find s c nm.
Proof.
  intros s s' [k vars] n id nm Hr Hm. unfold scope_find, sc_find_variable, rec_fuel; simpl.
  destruct (name_eqb nm n); [reflexivity|]. now rewrite Hr, Hm.
Qed.

Lemma resolve_id_with_var : forall s l c t nm, s_scopes s = c :: t ->
    resolve_id (with_var s l) nm
    = if name_eqb nm (lf_name l) then Some (SyLeaf (lenN (s_leaves s))) else resolve_id s nm.
Proof.
  intros s l c t nm Hs. destruct (with_var_facts s l c t Hs) as (Hsc & Hl & _ & _ & V).
  pose proof V as (Hr & Hm & _ & Hd & _ & Hds & _ & _).
  unfold resolve_id, find_local, find_def, find_defset. rewrite Hsc, Hs, Hd, Hds. simpl.
  rewrite (scope_find_add s (with_var s l) c (lf_name l) (lenN (s_leaves s)) nm Hr Hm).
  destruct (name_eqb nm (lf_name l)); [reflexivity|].
  rewrite (find_map_ext _ _ (fun c0 => scope_find (with_var s l) c0 nm) (fun c0 => scope_find s c0 nm));
    [reflexivity|]. intros c0. apply scope_find_eq; assumption.
Qed.

Lemma Pre_with_var : forall f e s nm ty c t,
    Pre f e s -> s_scopes s = c :: t -> e_frames e <> [] ->
    let loc := mkR f (r_lo (i_rng nm)) (r_hi (i_rng nm)) in
    Pre f (add_var e (i_name nm) loc) (with_var s (mkLeaf LVar (i_name nm) ty false loc)).
Proof.
  intros f e s nm ty c t P Hs He loc.
  set (l := mkLeaf LVar (i_name nm) ty false loc).
  destruct (with_var_facts s l c t Hs) as (Hsc & Hl & _ & _ & V).
  assert (P' : Pre f e s) by exact P. destruct P as [P1 P2 P3 P4 P5 P6 P7].
  pose proof V as (Hr & Hm & Hc & Hd & Hmc & Hds & Ht & _).
  split.
  - unfold current_file in *. now rewrite Ht.
  - intros n0 d H. rewrite lookup_id_add_var in H by assumption.
    unfold lookup_view. rewrite (resolve_id_with_var s l c t n0 Hs). simpl.
    destruct (name_eqb n0 (i_name nm)).
    + injection H as <-. simpl. rewrite Hl, nthN_app_last. reflexivity.
    + specialize (P2 n0 d H). unfold lookup_view in P2. destruct (resolve_id s n0); [|discriminate].
      now apply (define_loc_ext s _ _ _ V).
  - intros n0 H. rewrite lookup_id_add_var in H by assumption.
    rewrite (resolve_id_with_var s l c t n0 Hs). simpl.
    destruct (name_eqb n0 (i_name nm)); [discriminate|]. now apply P3.
  - intros n0 d H. rewrite lookup_class_add_var in H.
    specialize (P4 n0 d H). unfold class_view, find_class in *. now rewrite Hc, Hr.
  - intros n0 H. rewrite lookup_class_add_var in H. unfold find_class in *. rewrite Hc. now apply P5.
  - intros n0 d H. rewrite lookup_mc_add_var in H.
    specialize (P6 n0 d H). unfold mc_view, find_multiclass in *. now rewrite Hmc, Hm.
  - intros n0 H. rewrite lookup_mc_add_var in H. unfold find_multiclass in *. rewrite Hmc. now apply P7.
Qed.

(** a fresh block whose kind contributes nothing to the lookup *)
Definition plain_kind (k : skind) : bool :=
  match k with KRecord _ | KMulticlass _ | KForeach _ _ => false | _ => true end.
Definition pushed (k : skind) (s : st) : st := set_scopes (mkScope k [] :: s_scopes s) s.

Lemma resolve_id_pushed : forall k s nm, plain_kind k = true -> resolve_id (pushed k s) nm = resolve_id s nm.
Proof.
  intros k s nm Hk. unfold resolve_id, find_local, pushed; simpl.
  unfold scope_find at 1, sc_find_variable; simpl. destruct k; try discriminate; reflexivity.
Qed.
Lemma Pre_pushed : forall f e s k, Pre f e s -> plain_kind k = true -> Pre f (push_vars e []) (pushed k s).
Proof.
  intros f e s k [P1 P2 P3 P4 P5 P6 P7] Hk. split; auto.
  - intros nm d H. rewrite lookup_id_push_empty in H. specialize (P2 nm d H).
    unfold lookup_view in *. rewrite resolve_id_pushed by assumption. exact P2.
  - intros nm H. rewrite lookup_id_push_empty in H. rewrite resolve_id_pushed by assumption. now apply P3.
Qed.

(** `scoped k body`: the body runs in the pushed state, the scope is dropped afterwards *)
Lemma scoped_sim : forall A k (body : M A) E s,
    Step (pushed k s) (snd (body (pushed k s))) E -> Step s (snd (scoped k body s)) E.
Proof.
  intros A k body E s [U V S N]. unfold scoped, seq, bind, try_, push_scope, upd; simpl.
  fold (pushed k s). destruct (body (pushed k s)) as [o s2]; simpl in *.
  unfold lift, pop_scope. rewrite S. simpl.
  destruct V as (Hr & Hm & Hc & Hd & Hmc & Hds & Ht & Hl).
  split; simpl; auto. repeat split; auto.
Qed.

(** [StepV]: like [Step] but the innermost scope may have gained variables *)
Record StepV (s s' : st) (E : list ev) : Prop := mkStepV {
  sv_uses : s_uses s' = rev E ++ s_uses s;
  sv_vr : VR s s';
  sv_scopes : exists vs, s_scopes s' = add_vars vs (s_scopes s);
  sv_nf : nf s' = nf s }.
Lemma Step_StepV : forall s s' E, Step s s' E -> StepV s s' E.
Proof. intros s s' E [U V S N]. split; auto. exists []. now rewrite add_vars_nil. Qed.
Lemma StepV_trans : forall a b c E1 E2, StepV a b E1 -> StepV b c E2 -> StepV a c (E1 ++ E2).
Proof.
  intros a b c E1 E2 [U1 V1 [v1 S1] N1] [U2 V2 [v2 S2] N2]. split.
  - rewrite U2, U1, rev_app_distr, app_assoc. reflexivity.
  - eapply VR_trans; eassumption.
  - exists (v2 ++ v1). now rewrite S2, S1, add_vars_app.
  - congruence.
Qed.
Lemma scoped_simV : forall A k (body : M A) E s,
    StepV (pushed k s) (snd (body (pushed k s))) E -> Step s (snd (scoped k body s)) E.
Proof.
  intros A k body E s [U V [vs S] N]. unfold scoped, seq, bind, try_, push_scope, upd; simpl.
  fold (pushed k s). destruct (body (pushed k s)) as [o s2]; simpl in *.
  unfold lift, pop_scope. rewrite S. simpl.
  destruct V as (Hr & Hm & Hc & Hd & Hmc & Hds & Ht & Hl).
  split; simpl; auto. repeat split; auto.
Qed.
Lemma StepV_with_var : forall s l c t, s_scopes s = c :: t -> StepV s (with_var s l) [].
Proof.
  intros s l c t Hs. destruct (with_var_facts s l c t Hs) as (Hsc & Hl & Hu & Hn & V).
  split; auto. exists [(lf_name l, lenN (s_leaves s))]. rewrite Hsc, Hs. reflexivity.
Qed.

(** ---- literal operands have a type *)
Lemma list_literal_typed : forall n v s,
    is_list_literal v = true -> s_bad (snd (index_value n v s)) = false ->
    exists t et, fst (index_value n v s) = Some t /\ element_typ t = Some et.
Proof.
  intros n v s H Hb.
  destruct v as [r [|[sv sufs] [|x2 rest]]]; simpl in H; try discriminate;
    destruct sv; simpl in H; try discriminate; destruct sufs; try discriminate.
  all: destruct n as [|[|[|n]]]; try (simpl in Hb; discriminate); simpl.
  - (* bits *) unfold bind, try_, seq; simpl. eexists _, _. split; [reflexivity|reflexivity].
  - (* list *) unfold bind, try_, seq; simpl.
    destruct (mapM_opt_state _ _ (index_value n) vs s) as [_ Hsome].
    destruct (mapM_opt (index_value n) vs s) as [[os|] s1]; [|simpl in Hsome; congruence]. simpl.
    eexists _, _. split; reflexivity.
Qed.

Lemma plain_literal_typed : forall n v s,
    is_plain_literal v = true -> s_bad (snd (index_value n v s)) = false ->
    exists t, fst (index_value n v s) = Some t.
Proof.
  intros n v s H Hb.
  destruct v as [r [|[sv sufs] [|x2 rest]]]; simpl in H; try discriminate;
    destruct sv; simpl in H; try discriminate; destruct sufs; try discriminate.
  all: destruct n as [|[|[|n]]]; try (simpl in Hb; discriminate); simpl.
  all: unfold bind, try_, seq; simpl; try (eexists; reflexivity).
  destruct (mapM_opt_state _ _ (index_value n) vs s) as [_ Hsome].
  destruct (mapM_opt (index_value n) vs s) as [[os|] s1]; [|simpl in Hsome; congruence]. simpl.
  eexists; reflexivity.
Qed.

(** the diagnostics of check_template_args are never "not found" diagnostics *)
Lemma cta_loop_kinds : forall s targs args k unsolved d,
    In d (fst (cta_loop s targs k unsolved args)) -> nf_kind (snd d) = false.
Proof.
  intros s targs args. induction args as [|x rest IH]; intros k unsolved d H; [destruct H|].
  simpl in H. destruct x as [[[onm t0] r0]|]; [|eapply IH; exact H].
  destruct onm as [nm|].
  - destruct (remove_name nm unsolved) as [was u'] eqn:Er. destruct was.
    + destruct (find_targ nm targs) as [a|]; simpl in H;
        destruct (cta_loop s targs (S k) u' rest) eqn:E; simpl in H.
      * destruct (can_cast s t0 (lf_ty a)); simpl in H.
        -- eapply (IH (S k) u'). rewrite E. exact H.
        -- destruct H as [<-|H]; [reflexivity|]. eapply (IH (S k) u'). rewrite E. exact H.
      * eapply (IH (S k) u'). rewrite E. exact H.
    + destruct (find_targ nm targs) as [a|]; simpl in H;
        destruct (cta_loop s targs (S k) u' rest) eqn:E; simpl in H;
        (destruct H as [<-|H]; [reflexivity|]; eapply (IH (S k) u'); rewrite E; exact H).
  - destruct (nth_error targs k) as [a|]; simpl in H.
    + destruct (cta_loop s targs (S k) (snd (remove_name (lf_name a) unsolved)) rest) eqn:E; simpl in H.
      destruct (can_cast s t0 (lf_ty a)); simpl in H.
      * eapply IH. rewrite E. exact H.
      * destruct H as [<-|H]; [reflexivity|]. eapply IH. rewrite E. exact H.
    + destruct (cta_loop s targs (S k) unsolved rest) eqn:E; simpl in H. eapply IH. rewrite E. exact H.
Qed.
Lemma cta_kinds : forall s targs args r d,
    In d (check_template_args s targs args r) -> nf_kind (snd d) = false.
Proof.
  intros s targs args r d H. unfold check_template_args in H.
  destruct (Nat.ltb (length targs) (length args)).
  - destruct H as [<-|[]]. reflexivity.
  - destruct (cta_loop s targs 0 (map lf_name targs) args) as [dl un] eqn:E.
    apply in_app_or in H. destruct H as [H|H].
    + eapply cta_loop_kinds. rewrite E. exact H.
    + apply in_flat_map in H. destruct H as [u [_ H]].
      destruct (find_targ u targs) as [a|]; [|destruct H].
      destruct (lf_default a); [destruct H|]. destruct H as [<-|[]]. reflexivity.
Qed.

Lemma sufs_loop_pure : forall (l : list suffix) t,
    forallb (fun s => match s with SufField _ _ => false | _ => true end) l = true ->
    pure ((fix sufs_loop (t : mty) (l : list suffix) : M mty :=
         match l with
         | [] => ret t
         | sf :: r =>
           bind match sf with
                 | SufRange => lift (match t with MBits _ => Some MBit | _ => None end)
                 | SufSlice single => if single then lift (element_typ t) else ret t
                 | SufField i fr =>
                   bind (here (i_rng i)) (fun loc =>
                   bind state (fun s =>
                   match ty_find_field s t (i_name i) with
                   | None => seq (err fr DCannotAccessField) none
                   | Some f => seq (add_reference (SyLeaf f) loc) (bind (leaf_of f) (fun lf => ret (lf_ty lf)))
                   end))
                 end (fun t' => sufs_loop t' r)
         end) t l).
Proof.
  induction l as [|sf r IH]; intros t H; [apply pure_ret|].
  simpl in H. apply andb_true_iff in H. destruct H as [H1 H2].
  apply pure_bind; [|intros; now apply IH].
  destruct sf; try discriminate; [apply pure_lift|]. destruct single; [apply pure_lift|apply pure_ret].
Qed.

(** ---------------------------------------------------------------------------------------------
    values: the log of the model = the uses of the specification *)
Definition sim_value (n : nat) : Prop := forall v f e s,
    frag_value v = true -> Pre f e s -> forallb resolved (spec_value f e v) = true ->
    s_bad (snd (index_value n v s)) = false -> Step s (snd (index_value n v s)) (spec_value f e v).
Definition sim_inner (n : nat) : Prop := forall x f e s,
    frag_inner x = true -> Pre f e s -> forallb resolved (spec_inner f e x) = true ->
    s_bad (snd (index_inner n x s)) = false -> Step s (snd (index_inner n x s)) (spec_inner f e x).
Definition sim_simple (n : nat) : Prop := forall sv f e s,
    frag_simple sv = true -> Pre f e s -> forallb resolved (spec_simple f e sv) = true ->
    s_bad (snd (index_simple n sv s)) = false -> Step s (snd (index_simple n sv s)) (spec_simple f e sv).
Definition sim_arg (n : nat) : Prop := forall a f e s,
    frag_arg a = true -> Pre f e s -> forallb resolved (spec_arg f e a) = true ->
    s_bad (snd (index_arg n a s)) = false -> Step s (snd (index_arg n a s)) (spec_arg f e a).
Definition sim_bang (n : nat) : Prop := forall op annot vs r f e s,
    forallb frag_value vs = true -> frag_operands op vs = true -> Pre f e s ->
    forallb resolved (spec_annot f e op annot ++ spec_operands f e op vs) = true ->
    s_bad (snd (index_bang n op annot vs r s)) = false ->
    Step s (snd (index_bang n op annot vs r s)) (spec_annot f e op annot ++ spec_operands f e op vs).
Definition sim_ops (n : nat) : Prop := forall op a vs r f e s,
    forallb frag_value vs = true -> frag_operands op vs = true -> Pre f e s ->
    forallb resolved (spec_operands f e op vs) = true ->
    s_bad (snd (index_bang_ops n op a vs r s)) = false ->
    Step s (snd (index_bang_ops n op a vs r s)) (spec_operands f e op vs).

Lemma forallb_In : forall A (p : A -> bool) l x, forallb p l = true -> In x l -> p x = true.
Proof. intros A p l x H Hin. rewrite forallb_forall in H. now apply H. Qed.

Section ValueCases.
  Variable n : nat.
  Hypothesis IHv : sim_value n.
  Hypothesis IHi : sim_inner n.
  Hypothesis IHs : sim_simple n.
  Hypothesis IHa : sim_arg n.
  Hypothesis IHb : sim_bang n.
  Hypothesis IHo : sim_ops n.

  Lemma values_sim : forall vs f e s,
      forallb frag_value vs = true -> Pre f e s -> forallb resolved (flat_map (spec_value f e) vs) = true ->
      s_bad (snd (iterM (index_value n) vs s)) = false ->
      Step s (snd (iterM (index_value n) vs s)) (flat_map (spec_value f e) vs).
  Proof.
    intros vs f e s Hf P HR Hb. apply (iter_sim _ _ (index_value n) (spec_value f e) f e); auto.
    - intros; apply BM_index_value.
    - intros x s0 Hin P0 HR0 Hb0. apply IHv; auto. eapply forallb_In; eassumption.
  Qed.
  Lemma values_sim_map : forall vs f e s,
      forallb frag_value vs = true -> Pre f e s -> forallb resolved (flat_map (spec_value f e) vs) = true ->
      s_bad (snd (mapM_opt (index_value n) vs s)) = false ->
      Step s (snd (mapM_opt (index_value n) vs s)) (flat_map (spec_value f e) vs).
  Proof.
    intros vs f e s Hf P HR Hb. destruct (mapM_opt_state _ _ (index_value n) vs s) as [E _].
    rewrite E in *. now apply values_sim.
  Qed.
  Lemma args_sim_map : forall l f e s,
      forallb frag_arg l = true -> Pre f e s -> forallb resolved (flat_map (spec_arg f e) l) = true ->
      s_bad (snd (mapM_opt (index_arg n) l s)) = false ->
      Step s (snd (mapM_opt (index_arg n) l s)) (flat_map (spec_arg f e) l).
  Proof.
    intros l f e s Hf P HR Hb. destruct (mapM_opt_state _ _ (index_arg n) l s) as [E _].
    rewrite E in *. apply (iter_sim _ _ (index_arg n) (spec_arg f e) f e); auto.
    - intros; apply BM_index_arg.
    - intros x s0 Hin P0 HR0 Hb0. apply IHa; auto. eapply forallb_In; eassumption.
  Qed.

  Lemma case_value : sim_value (S n).
  Proof.
    intros [r inners] f e s Hf P HR Hb. simpl in Hf. apply andb_true_iff in Hf. destruct Hf as [Hf Hne].
    destruct inners as [|first rest]; [discriminate|]. simpl in Hf. apply andb_true_iff in Hf. destruct Hf as [Hf1 Hf2].
    change (spec_value f e (Val r (first :: rest))) with (spec_inner f e first ++ flat_map (spec_inner f e) rest) in *.
    rewrite forallb_app in HR. apply andb_true_iff in HR. destruct HR as [HR1 HR2].
    simpl in *. unfold bind, try_, seq in *.
    destruct (index_inner n first s) as [o s1] eqn:E1. simpl in *.
    assert (Hfin : forall s2, snd ((match rest with [] => lift o | _ :: _ => ret MString end : M mty) s2) = s2)
      by (intros; destruct rest; reflexivity).
    rewrite Hfin in *.
    assert (Hb1 : s_bad s1 = false).
    { eapply (bad_false_before _ (iterM (index_inner n) rest)); [|exact Hb].
      apply (resp_iterM BadMono BM_refl BM_trans). intros; apply BM_index_inner. }
    assert (S1 : Step s s1 (spec_inner f e first)).
    { replace s1 with (snd (index_inner n first s)) by now rewrite E1. apply IHi; auto. now rewrite E1. }
    eapply Step_trans; [exact S1|].
    apply (iter_sim _ _ (index_inner n) (spec_inner f e) f e); auto.
    - intros; apply BM_index_inner.
    - intros x s0 Hin P0 HR0 Hb0. apply IHi; auto. eapply forallb_In; eassumption.
    - eapply Pre_Step; eassumption.
  Qed.

  Lemma case_inner : sim_inner (S n).
  Proof.
    intros [sv sufs] f e s Hf P HR Hb. simpl in Hf. apply andb_true_iff in Hf. destruct Hf as [Hf1 Hf2].
    change (spec_inner f e (Inner sv sufs)) with (spec_simple f e sv) in *.
    simpl in Hb |- *.
    rewrite bind_pure_state in Hb |- * by (intros; now apply sufs_loop_pure).
    apply IHs; auto.
  Qed.

  Lemma case_arg : sim_arg (S n).
  Proof.
    intros a f e s Hf P HR Hb. destruct a as [v r|nm v r|r]; simpl in *; try discriminate;
      unfold bind, try_ in *; destruct (index_value n v s) as [o s1] eqn:E1; simpl in *;
      replace s1 with (snd (index_value n v s)) by (now rewrite E1); apply IHv; auto; now rewrite E1.
  Qed.

  Lemma case_bang : sim_bang (S n).
  Proof.
    intros op annot vs r f e s Hf Hfo P HR Hb.
    rewrite forallb_app in HR. apply andb_true_iff in HR. destruct HR as [HR1 HR2].
    simpl in *. unfold bind, seq in *.
    pose proof (annot_sim op annot r f e s P HR1) as SA.
    destruct (index_annot op annot r s) as [[a|] s1] eqn:EA; simpl in *.
    - assert (Hb2 : s_bad (snd (check_arity op vs r s1)) = false).
      { eapply (bad_false_before _ (index_bang_ops n op a vs r)); [apply BM_index_bang_ops|exact Hb]. }
      eapply Step_trans; [exact SA|].
      eapply (Step_trans _ _ _ [] _); [apply Step_check_arity|].
      apply IHo; auto. eapply Pre_Step; [|apply Step_check_arity]. eapply Pre_Step; eassumption.
    - (* index_annot always returns a value *)
      exfalso. unfold index_annot in EA.
      destruct (bang_annot op); destruct annot as [[t tr]|]; simpl in EA; unfold seq, try_ in EA; simpl in EA;
        try discriminate; destruct (index_ty t s); discriminate.
  Qed.
End ValueCases.
