(** GenParserEq: the rendering of crates/syntax/src/parser.rs that tools/translate/t_parser.py regenerates on every
    run (coq/gen/GenParser.v, shallow state-monad embedding over model/ParserMonad.v; the inner token stream is the
    GENERATED preprocessor coq/gen/GenPrep.v over the GENERATED lexer coq/gen/GenLexer.v, rowan's GreenNodeBuilder is
    the contract ParserPrims.b_...) is simulated, primitive by primitive and for ALL states, by the hand model
    coq/model/ParserPrims.v (b-parser's, unchanged), including panics.  Any semantic edit of parser.rs changes
    GenParser.v and breaks this file; the theorems about the DSL interpreter GInterp.gexec, whose primitives are
    ParserPrims.p_..., then also hold of the source rendering of the parser primitives. *)
From Coq Require Import List Arith PeanoNat NArith ZArith Bool Lia String.
From TG.Gen Require Import GenTokens GenLexTables GenLexer GenPrep GenParser.
From TG.Model Require Import Chars Lexer ScanMonad PrepMonad Prep PrepRun Tree ParserPrims ParserMonad.
From TG.Model Require GInterp.
From TG.Proofs Require Import LexBasics PrepBasics GenLexerEq GenPrepEq.
From TG.Proofs Require ParserTile.
Import ListNotations.
Open Scope N_scope.

(** * States *)
(** a SyntaxError of the hand model with its message rendered *)
Definition emsg (e : N * N * parse_msg) : syntax_error := let '(lo, hi, m) := e in (lo, hi, msg_text m).

(** the generated state that corresponds to a state [s] of the hand model; [b0] = the text before the current token.
    The ghost fields of [pst] (raw, src, cursor, cur_text; the counters nlex / nstart) have no counterpart: the first
    four are tied to the inner scanner by [wf]. *)
Definition pconc (b0 : text) (s : pst) : gps :=
  mk_gps (conc (b0 ++ cur_text s) (src s) (ParserPrims.pp s)) (cur s) (cur_lo s, cur_hi s) (bld s)
         (map emsg (rev (errs s))) (after_err s).
Definition wf (b0 : text) (s : pst) : Prop :=
  raw s = raw_lex (src s) /\ cursor s = bytes (b0 ++ cur_text s) /\ cur_lo s = bytes b0.

(** the simulation relation: the inner preprocessor state is GenPrepEq.sim-related to (pp s, src s) with the scanner
    standing right after the current token, whose text is the source slice current_range; current, current_range,
    builder, errors (same order as the Vec, messages rendered), is_after_error agree *)
Definition psim (g : gps) (s : pst) : Prop := exists b0, g = pconc b0 s /\ wf b0 s.

Lemma psim_spelt g s : psim g s ->
  sim (pb_ts g) (ParserPrims.pp s) (src s) /\ raw s = raw_lex (src s)
  /\ pb_current g = cur s /\ pb_range g = (cur_lo s, cur_hi s) /\ pb_builder g = bld s
  /\ pb_errors g = map emsg (rev (errs s)) /\ pb_after g = after_err s
  /\ sc_cursor (l_s (p_ts (pb_ts g))) = cursor s
  /\ exists b0, sc_before (l_s (p_ts (pb_ts g))) = b0 ++ cur_text s /\ cur_lo s = bytes b0.
Proof.
  intros (b0 & -> & W1 & W2 & W3). split; [apply sim_conc; exists (b0 ++ cur_text s); reflexivity|].
  repeat (split; [first [exact W1 | reflexivity]|]). split; [symmetry; exact W2|]. exists b0. split; [reflexivity|exact W3].
Qed.

(** outcome of a generated function against an optional result of the hand model ([None] = a Rust panic) *)
Definition osim {A} (r : fres A * gps) (o : option (A * pst)) : Prop :=
  match o with
  | Some (a, s') => exists g', r = (FNorm a, g') /\ psim g' s'
  | None => exists g', r = (FPanic, g')
  end.
Definition ounit (o : option pst) : option (unit * pst) := option_map (fun s => (tt, s)) o.

Ltac qred1 :=
  cbv beta iota zeta delta [qbind qret qearly q_unreachable q_panic qfn_body qcall lift_pts pts_eat pts_cursor pts_text pts_take_error
       get_current set_current get_range set_range get_after set_after get_errors errors_push get_builder with_builder
       bld_token bld_start_node bld_start_node_at bld_finish_node bld_checkpoint bld_finish
       qassert qexpect try_into_text_size text_range_new syntax_error_new slice_contains
       pb_ts pb_current pb_range pb_builder pb_errors pb_after pconc
       gpr_peek gpr_at gpr_at_set gpr_eof gpr_error gpr_start_node gpr_start_node_at gpr_finish_node gpr_checkpoint gpr_builder].
Ltac qred := qred1; repeat (progress (cbn [negb andb orb fst snd]); qred1).

(** * Monad steps *)
Lemma qbind_norm {R A B} (m : QM R A) (f : A -> QM R B) st a st' : m st = (PNorm a, st') -> qbind m f st = f a st'.
Proof. unfold qbind. intros ->. reflexivity. Qed.
Lemma qbind_panic {R A B} (m : QM R A) (f : A -> QM R B) st st' : m st = (PPanic, st') -> qbind m f st = (PPanic, st').
Proof. unfold qbind. intros ->. reflexivity. Qed.
Lemma qcall_norm {R A} (f : QF A) st a st' : f st = (FNorm a, st') -> @qcall R A f st = (PNorm a, st').
Proof. unfold qcall. intros ->. reflexivity. Qed.
Lemma qcall_panic {R A} (f : QF A) st st' : f st = (FPanic, st') -> @qcall R A f st = (PPanic, st').
Proof. unfold qcall. intros ->. reflexivity. Qed.

(** * The inner stream on [conc] states *)
Lemma gp_text_run b0 a s st lo hi : lo = bytes b0 -> hi = lo + bytes a ->
  gp_text (lo, hi) (conc (b0 ++ a) s st) = (FNorm a, conc (b0 ++ a) s st).
Proof.
  intros -> ->. rewrite <- bytes_app. unfold gp_text. pred. rewrite g_text_run. reflexivity.
Qed.

Lemma range_ok s : (cur_lo s <=? cur_hi s) = true.
Proof. apply N.leb_le. unfold cur_hi. lia. Qed.

Lemma raw_lex_nil_inv s : raw_lex s = [] -> s = [].
Proof.
  destruct s as [|c r]; [reflexivity|]. destruct (lex_one (c :: r)) as [[[k e] a] rest] eqn:L.
  assert (NE : c :: r <> []) by discriminate. rewrite (raw_lex_cons _ _ _ _ _ NE L). discriminate.
Qed.

(** * error *)
Lemma gpr_error_run b0 s m : gpr_error (msg_text m) (pconc b0 s) = (FNorm tt, pconc b0 (p_error s m)).
Proof.
  qred. rewrite range_ok. qred. unfold p_error. cbn [raw src ParserPrims.pp cursor cur cur_lo cur_text bld errs after_err].
  cbn [rev]. rewrite map_app. reflexivity.
Qed.

Lemma wf_error b0 s m : wf b0 s -> wf b0 (p_error s m).
Proof. intros W. exact W. Qed.

(** * peek / at / at_set / eof / checkpoint / start_node / start_node_at / finish_node *)
Lemma gpr_peek_run b0 s : gpr_peek (pconc b0 s) = (FNorm (cur s), pconc b0 s).
Proof. reflexivity. Qed.
Lemma gpr_at_run b0 s k : gpr_at k (pconc b0 s) = (FNorm (p_at s k), pconc b0 s).
Proof. reflexivity. Qed.
Lemma gpr_at_set_run b0 s ks : gpr_at_set ks (pconc b0 s) = (FNorm (p_at_set s ks), pconc b0 s).
Proof. reflexivity. Qed.
Lemma gpr_eof_run b0 s : gpr_eof (pconc b0 s) = (FNorm (p_eof s), pconc b0 s).
Proof. reflexivity. Qed.
Lemma gpr_checkpoint_run b0 s : gpr_checkpoint (pconc b0 s) = (FNorm (b_checkpoint (bld s)), pconc b0 s).
Proof. reflexivity. Qed.
Lemma gpr_builder_run b0 s : gpr_builder (pconc b0 s) = (FNorm (bld s), pconc b0 s).
Proof. reflexivity. Qed.
Lemma gpr_start_node_run b0 s k : gpr_start_node k (pconc b0 s) = (FNorm tt, pconc b0 (p_start_node s k)).
Proof. reflexivity. Qed.
Lemma gpr_start_node_at_run b0 s cp k :
  gpr_start_node_at cp k (pconc b0 s)
  = match p_start_node_at s cp k with Some s' => (FNorm tt, pconc b0 s') | None => (FPanic, pconc b0 s) end.
Proof. unfold p_start_node_at. qred. destruct (b_start_node_at (bld s) cp k); reflexivity. Qed.
Lemma gpr_finish_node_run b0 s :
  gpr_finish_node (pconc b0 s)
  = match p_finish_node s with Some s' => (FNorm tt, pconc b0 s') | None => (FPanic, pconc b0 s) end.
Proof. unfold p_finish_node. qred. destruct (b_finish_node (bld s)); reflexivity. Qed.

Lemma wf_with_bld b0 s b : wf b0 s -> wf b0 (with_bld s b).
Proof. intros W. exact W. Qed.

(** * lex *)
Lemma gpr_lex_run b0 s : wf b0 s ->
  gpr_lex (pconc b0 s) = (FNorm tt, pconc (b0 ++ cur_text s) (p_lex s)) /\ wf (b0 ++ cur_text s) (p_lex s).
Proof.
  intros (W1 & W2 & W3). unfold p_lex.
  destruct (prep_next (ParserPrims.pp s) (raw s)) as [[[k len] pp'] raw'] eqn:HN. rewrite W1 in HN.
  destruct (gp_eat_run (b0 ++ cur_text s) (src s) _ _ _ _ _ HN) as (w & s' & E1 & E2 & E3 & RUN).
  subst len.
  assert (TB : take_bytes (bytes w) (src s) = (w, s')).
  { transitivity (take_bytes (bytes w) (w ++ s')); [f_equal; exact E1|apply ParserTile.take_bytes_app]. }
  rewrite TB.
  split.
  - unfold gpr_lex. qred. rewrite gp_cursor_run. qred. rewrite RUN. qred. rewrite gp_cursor_run. qred.
    unfold cur_hi. cbn [raw src ParserPrims.pp cursor cur cur_lo cur_text bld errs after_err].
    rewrite W2, <- bytes_app. reflexivity.
  - repeat split; cbn [raw src ParserPrims.pp cursor cur cur_lo cur_text]; [exact E2|rewrite W2, <- bytes_app; reflexivity|exact W2].
Qed.

Lemma gpr_lex_sim g s : psim g s -> osim (gpr_lex g) (Some (tt, p_lex s)).
Proof.
  intros (b0 & -> & W). destruct (gpr_lex_run b0 s W) as [RUN W'].
  exists (pconc (b0 ++ cur_text s) (p_lex s)). split; [exact RUN|]. exists (b0 ++ cur_text s). split; [reflexivity|exact W'].
Qed.

(** * save *)
Lemma gpr_save_run b0 s : wf b0 s ->
  gpr_save (pconc b0 s)
  = match p_save s with Some s1 => (FNorm tt, pconc b0 s1) | None => (FPanic, pconc b0 (with_pp_after (with_bld s (b_token (bld s) (sk_of_tk (cur s)) (cur_text s))) (snd (take_error (ParserPrims.pp s))) (after_err s))) end
  /\ forall s1, p_save s = Some s1 -> wf b0 s1.
Proof.
  intros (W1 & W2 & W3). split.
  - unfold gpr_save, p_save. qred.
    rewrite (gp_text_run b0 (cur_text s) (src s) (ParserPrims.pp s) (cur_lo s) (cur_hi s) W3 eq_refl). qred.
    cbn [with_bld cur ParserPrims.pp bld after_err]. unfold p_at.
    destruct (tk_eqb (cur s) T_Error) eqn:KE.
    + rewrite gp_take_error_run. qred. destruct (take_error (ParserPrims.pp s)) as [[e|] pp'] eqn:TE; cbn [fst snd option_map].
      * qred. change (any_err_msg e) with (msg_text (MTok e)). rewrite range_ok. qred.
        unfold p_error, with_pp_after, with_bld, cur_hi. cbn [raw src ParserPrims.pp cursor cur cur_lo cur_text bld errs after_err].
        cbn [rev]. rewrite map_app. reflexivity.
      * qred. reflexivity.
    + qred. reflexivity.
  - intros s1 H. unfold p_save in H. cbn [with_bld cur ParserPrims.pp bld after_err] in H.
    destruct (tk_eqb (cur s) T_Error).
    + destruct (take_error (ParserPrims.pp s)) as [[e|] pp']; inversion H; subst. repeat split; assumption.
    + inversion H; subst. repeat split; assumption.
Qed.

Lemma gpr_save_sim g s : psim g s -> osim (gpr_save g) (ounit (p_save s)).
Proof.
  intros (b0 & -> & W). destruct (gpr_save_run b0 s W) as [RUN W']. rewrite RUN.
  destruct (p_save s) as [s1|] eqn:PS; cbn [ounit option_map osim].
  - exists (pconc b0 s1). split; [reflexivity|]. exists b0. split; [reflexivity|apply W'; reflexivity].
  - eexists. reflexivity.
Qed.

(** * skip: `while self.current.is_trivia() { self.save(); self.lex(); }` *)
Open Scope q_scope.
Definition skip_body : unit -> QM unit (ctl unit) :=
  fun _ => c <- (t <- get_current ;; qret (is_trivia t)) ;;
           if c then (qcall gpr_save ;;; (qcall gpr_lex ;;; qret (Continue tt))) else qret (Break tt).
Lemma gpr_skip_decomp : gpr_skip = qfn_body (_ <- (n <- q_loop_fuel ;; q_loop n skip_body tt) ;; qret tt).
Proof. reflexivity. Qed.
Close Scope q_scope.

Lemma q_loop_S {R S} n (body : S -> QM R (ctl S)) s st :
  q_loop (Datatypes.S n) body s st =
  match body s st with
  | (PNorm (Continue s'), st') => q_loop n body s' st'
  | (PNorm (Break s'), st') => (PNorm s', st')
  | (PRet r, st') => (PRet r, st')
  | (PPanic, st') => (PPanic, st')
  | (POof, st') => (POof, st')
  end.
Proof.
  cbn [q_loop]. unfold qbind. destruct (body s st) as [[c|r| |] st']; try reflexivity. destruct c; reflexivity.
Qed.

Lemma trivia_not_error k : is_trivia k = true -> tk_eqb k T_Error = false.
Proof. destruct k; intros H; try discriminate H; reflexivity. Qed.

Definition mu (s : pst) : nat := (List.length (src s) + (if is_trivia (cur s) then 1 else 0))%nat.

(** one trivia token saved and the next one lexed: what is left shrinks *)
Lemma save_lex_step b0 s : wf b0 s -> is_trivia (cur s) = true ->
  exists s1, p_save s = Some s1 /\ wf (b0 ++ cur_text s1) (p_lex s1) /\ cur_text s1 = cur_text s
    /\ (raw s = [] -> is_trivia (cur (p_lex s1)) = false)
    /\ (raw s <> [] -> (List.length (raw (p_lex s1)) < List.length (raw s))%nat)
    /\ (mu (p_lex s1) < mu s)%nat.
Proof.
  intros W TR. pose proof W as (W1 & W2 & W3).
  unfold p_save. rewrite (trivia_not_error _ TR).
  set (s1 := with_pp_after (with_bld s (b_token (bld s) (sk_of_tk (cur s)) (cur_text s)))
                           (ParserPrims.pp (with_bld s (b_token (bld s) (sk_of_tk (cur s)) (cur_text s)))) false).
  exists s1. split; [reflexivity|].
  assert (W' : wf b0 s1) by exact W.
  split; [exact (proj2 (gpr_lex_run b0 s1 W'))|]. split; [reflexivity|].
  unfold p_lex. change (raw s1) with (raw s). change (ParserPrims.pp s1) with (ParserPrims.pp s). change (src s1) with (src s).
  destruct (prep_next (ParserPrims.pp s) (raw s)) as [[[k len] pp'] raw'] eqn:HN.
  pose proof HN as HN'. rewrite W1 in HN'.
  destruct (gen_prep_next_conc [] (src s) _ _ _ _ _ HN') as (w & s' & E1 & E2 & E3 & _).
  subst len.
  assert (TB : take_bytes (bytes w) (src s) = (w, s')).
  { transitivity (take_bytes (bytes w) (w ++ s')); [f_equal; exact E1|apply ParserTile.take_bytes_app]. }
  rewrite TB.
  cbn [raw cur src]. unfold mu. cbn [src cur]. rewrite TR.
  assert (NIL : raw s = [] -> is_trivia k = false).
  { intros RN. rewrite RN in HN. exact (ParserTile.prep_nil_not_trivia _ _ _ _ _ HN). }
  split; [exact NIL|].
  split; [intros NE; exact (prep_next_progress _ _ _ _ _ _ HN NE)|].
  destruct (raw s) as [|t0 r0] eqn:RW.
  - rewrite (NIL eq_refl). symmetry in W1. apply raw_lex_nil_inv in W1. rewrite W1 in E1.
    symmetry in E1. apply app_eq_nil in E1. destruct E1 as [_ ->]. rewrite W1. cbn. lia.
  - pose proof (prep_next_progress _ _ _ _ _ _ HN ltac:(discriminate)) as PG.
    assert (WN : w <> []).
    { intros ->. cbn [app] in E1. subst s'. rewrite <- W1 in E2. subst raw'. lia. }
    rewrite E1, app_length. destruct w as [|c w']; [contradiction|]. cbn [List.length].
    destruct (is_trivia k); lia.
Qed.

Lemma skip_loop : forall n hf s b0, wf b0 s -> (mu s < n)%nat ->
  (is_trivia (cur s) = false \/ (List.length (raw s) < List.length hf)%nat) ->
  exists s' b1, p_skip hf s = Some s' /\ wf b1 s'
    /\ q_loop n skip_body tt (pconc b0 s) = (PNorm tt, pconc b1 s').
Proof.
  induction n as [|n IH]; intros hf s b0 W M F; [lia|].
  rewrite q_loop_S. unfold skip_body at 1. unfold mu in M.
  assert (C : @qbind unit _ _ (qbind get_current (fun t => qret (is_trivia t)))
                (fun c => if c then qbind (qcall gpr_save) (fun _ => qbind (qcall gpr_lex) (fun _ => qret (Continue tt)))
                          else qret (Break tt)) (pconc b0 s)
              = (if is_trivia (cur s) then qbind (qcall gpr_save) (fun _ => qbind (qcall gpr_lex) (fun _ => qret (Continue tt)))
                 else qret (Break tt)) (pconc b0 s)) by reflexivity.
  rewrite C. clear C.
  destruct (is_trivia (cur s)) eqn:TR.
  - destruct F as [F|F]; [discriminate F|].
    destruct hf as [|f hf']; [cbn in F; lia|]. cbn [p_skip]. rewrite TR.
    destruct (save_lex_step b0 s W TR) as (s1 & PS & W2 & CT & NIL & PG & MU).
    rewrite PS. destruct (gpr_save_run b0 s W) as [RS _]. rewrite PS in RS.
    rewrite (qbind_norm _ _ _ _ _ (qcall_norm _ _ _ _ RS)).
    assert (W1 : wf b0 s1).
    { destruct (gpr_save_run b0 s W) as [_ X]. apply X. exact PS. }
    destruct (gpr_lex_run b0 s1 W1) as [RL _].
    rewrite (qbind_norm _ _ _ _ _ (qcall_norm _ _ _ _ RL)). unfold qret at 1.
    destruct (IH hf' (p_lex s1) (b0 ++ cur_text s1) W2) as (s' & b1 & PK & W3 & RUN).
    + unfold mu in MU. rewrite TR in MU. unfold mu. lia.
    + destruct (raw s) as [|t0 r0] eqn:RW.
      * left. apply NIL. reflexivity.
      * right. specialize (PG ltac:(discriminate)). cbn [List.length] in *. lia.
    + exists s', b1. split; [exact PK|]. split; [exact W3|]. exact RUN.
  - exists s, b0. split; [destruct hf; cbn [p_skip]; rewrite TR; reflexivity|]. split; [exact W|reflexivity].
Qed.

Lemma q_loop_fuel_run {R} b0 s :
  @q_loop_fuel R (pconc b0 s) = (PNorm (Datatypes.S (Datatypes.S (List.length (src s)))), pconc b0 s).
Proof. reflexivity. Qed.

Lemma gpr_skip_run b0 s : wf b0 s ->
  exists s' b1, p_skip_all s = Some s' /\ wf b1 s' /\ gpr_skip (pconc b0 s) = (FNorm tt, pconc b1 s').
Proof.
  intros W. unfold p_skip_all.
  destruct (skip_loop (Datatypes.S (Datatypes.S (List.length (src s)))) (eof_tok :: raw s) s b0 W) as (s' & b1 & PK & W1 & RUN).
  - unfold mu. destruct (is_trivia (cur s)); lia.
  - right. cbn [List.length]. lia.
  - exists s', b1. split; [exact PK|]. split; [exact W1|].
    rewrite gpr_skip_decomp. unfold qfn_body, qbind at 1 2. rewrite q_loop_fuel_run. cbv beta iota. rewrite RUN. reflexivity.
Qed.

Lemma gpr_skip_sim g s : psim g s -> osim (gpr_skip g) (ounit (p_skip_all s)).
Proof.
  intros (b0 & -> & W). destruct (gpr_skip_run b0 s W) as (s' & b1 & PK & W1 & RUN). rewrite PK. cbn [ounit option_map osim].
  exists (pconc b1 s'). split; [exact RUN|]. exists b1. split; [reflexivity|exact W1].
Qed.

(** * eat = save; lex; skip *)
Lemma gpr_eat_run b0 s : wf b0 s ->
  match p_eat s with
  | Some s' => exists b1, wf b1 s' /\ gpr_eat (pconc b0 s) = (FNorm tt, pconc b1 s')
  | None => exists g', gpr_eat (pconc b0 s) = (FPanic, g')
  end.
Proof.
  intros W. unfold p_eat, gpr_eat, qfn_body. destruct (gpr_save_run b0 s W) as [RS WS].
  destruct (p_save s) as [s1|] eqn:PS.
  - specialize (WS s1 eq_refl). destruct (gpr_lex_run b0 s1 WS) as [RL WL].
    destruct (gpr_skip_run _ _ WL) as (s' & b1 & PK & W1 & RK). rewrite PK. exists b1. split; [exact W1|].
    rewrite (qbind_norm _ _ _ _ _ (qcall_norm _ _ _ _ RS)).
    rewrite (qbind_norm _ _ _ _ _ (qcall_norm _ _ _ _ RL)).
    rewrite (qbind_norm _ _ _ _ _ (qcall_norm _ _ _ _ RK)). reflexivity.
  - eexists. rewrite (qbind_panic _ _ _ _ (qcall_panic _ _ _ RS)). reflexivity.
Qed.

Lemma gpr_eat_sim g s : psim g s -> osim (gpr_eat g) (ounit (p_eat s)).
Proof.
  intros (b0 & -> & W). pose proof (gpr_eat_run b0 s W) as H. destruct (p_eat s) as [s'|]; cbn [ounit option_map osim].
  - destruct H as (b1 & W1 & RUN). exists (pconc b1 s'). split; [exact RUN|]. exists b1. split; [reflexivity|exact W1].
  - exact H.
Qed.

(** * eat_if / assert / expect_with_msg / expect *)
Lemma gpr_eat_if_run b0 s k : wf b0 s ->
  match p_eat_if s k with
  | Some (r, s') => exists b1, wf b1 s' /\ gpr_eat_if k (pconc b0 s) = (FNorm r, pconc b1 s')
  | None => exists g', gpr_eat_if k (pconc b0 s) = (FPanic, g')
  end.
Proof.
  intros W. unfold p_eat_if, gpr_eat_if, qfn_body.
  rewrite (qbind_norm _ _ _ _ _ (qcall_norm _ _ _ _ (gpr_at_run b0 s k))).
  destruct (p_at s k).
  - pose proof (gpr_eat_run b0 s W) as H. destruct (p_eat s) as [s'|].
    + destruct H as (b1 & W1 & RUN). exists b1. split; [exact W1|].
      rewrite (qbind_norm _ _ _ _ _ (qcall_norm _ _ _ _ RUN)). reflexivity.
    + destruct H as (g' & RUN). eexists. rewrite (qbind_panic _ _ _ _ (qcall_panic _ _ _ RUN)). reflexivity.
  - exists b0. split; [exact W|reflexivity].
Qed.

Lemma gpr_eat_if_sim g s k : psim g s -> osim (gpr_eat_if k g) (p_eat_if s k).
Proof.
  intros (b0 & -> & W). pose proof (gpr_eat_if_run b0 s k W) as H. destruct (p_eat_if s k) as [[r s']|]; cbn [osim].
  - destruct H as (b1 & W1 & RUN). exists (pconc b1 s'). split; [exact RUN|]. exists b1. split; [reflexivity|exact W1].
  - exact H.
Qed.

Ltac qstep H := cbv beta delta [qbind qcall qfn_body]; rewrite H; cbv beta iota delta [qbind qcall qfn_body qassert qret].

Lemma gpr_assert_sim g s k : psim g s -> osim (gpr_assert k g) (ounit (p_assert s k)).
Proof.
  intros (b0 & -> & W). pose proof (gpr_eat_if_run b0 s k W) as H. unfold p_assert, gpr_assert.
  destruct (p_eat_if s k) as [[r s']|].
  - destruct H as (b1 & W1 & RUN). qstep RUN.
    destruct r; cbn [ounit option_map osim].
    + exists (pconc b1 s'). split; [reflexivity|]. exists b1. split; [reflexivity|exact W1].
    + eexists. reflexivity.
  - destruct H as (g' & RUN). cbn [ounit option_map osim]. qstep RUN. eexists. reflexivity.
Qed.

Lemma gpr_expect_with_msg_sim g s k m : psim g s -> osim (gpr_expect_with_msg k (msg_text m) g) (ounit (p_expect s k m)).
Proof.
  intros (b0 & -> & W). pose proof (gpr_eat_if_run b0 s k W) as H. unfold p_expect, gpr_expect_with_msg.
  destruct (p_eat_if s k) as [[r s']|].
  - destruct H as (b1 & W1 & RUN). qstep RUN.
    destruct r; cbn [negb ounit option_map osim].
    + exists (pconc b1 s'). split; [reflexivity|]. exists b1. split; [reflexivity|exact W1].
    + change (@get_after unit (pconc b1 s')) with (@PNorm unit bool (after_err s'), pconc b1 s'). cbv beta iota.
      destruct (after_err s') eqn:AE; cbn [negb ounit option_map osim].
      * exists (pconc b1 s'). split; [reflexivity|]. exists b1. split; [reflexivity|exact W1].
      * exists (pconc b1 (p_error s' m)). split; [|exists b1; split; [reflexivity|exact W1]].
        rewrite gpr_error_run. reflexivity.
  - destruct H as (g' & RUN). cbn [ounit option_map osim]. qstep RUN. eexists. reflexivity.
Qed.

Lemma gpr_expect_sim g s k : psim g s -> osim (gpr_expect k g) (ounit (p_expect s k (MExpected k))).
Proof.
  intros P. pose proof (gpr_expect_with_msg_sim g s k (MExpected k) P) as H.
  unfold gpr_expect, qfn_body, qcall.
  change (String.append "expected " (tk_name k)) with (msg_text (MExpected k)).
  destruct (p_expect s k (MExpected k)) as [s'|]; cbn [ounit option_map osim] in *.
  - destruct H as (g' & -> & PS). exists g'. split; [reflexivity|exact PS].
  - destruct H as (g' & ->). eexists. reflexivity.
Qed.

(** * error_and_eat / error_and_recover *)
Lemma bld_finish_node_run {R} b1 s3 :
  @bld_finish_node R (pconc b1 s3)
  = match p_finish_node s3 with Some s' => (PNorm tt, pconc b1 s') | None => (PPanic, pconc b1 s3) end.
Proof. unfold p_finish_node, bld_finish_node. cbn [pb_builder pconc]. destruct (b_finish_node (bld s3)); reflexivity. Qed.

Lemma wf_finish_node b1 s3 s' : p_finish_node s3 = Some s' -> wf b1 s3 -> wf b1 s'.
Proof. unfold p_finish_node. destruct (b_finish_node (bld s3)); intros H W; inversion H; subst; exact W. Qed.

Lemma node_eat_finish b0 s : wf b0 s ->
  let m := (qbind (@bld_start_node unit S_Error) (fun _ => qbind (qcall gpr_eat) (fun _ => qbind bld_finish_node (fun _ => qret tt)))) in
  match (match p_eat (with_bld s (b_start_node (bld s) S_Error)) with Some s3 => p_finish_node s3 | None => None end) with
  | Some s' => exists b1, wf b1 s' /\ m (pconc b0 s) = (PNorm tt, pconc b1 s')
  | None => exists g', m (pconc b0 s) = (PPanic, g')
  end.
Proof.
  intros W m. subst m.
  set (s2 := with_bld s (b_start_node (bld s) S_Error)).
  assert (R0 : @bld_start_node unit S_Error (pconc b0 s) = (PNorm tt, pconc b0 s2)) by reflexivity.
  rewrite (qbind_norm _ _ _ _ _ R0).
  pose proof (gpr_eat_run b0 s2 W) as H. destruct (p_eat s2) as [s3|].
  - destruct H as (b1 & W1 & RUN). rewrite (qbind_norm _ _ _ _ _ (qcall_norm _ _ _ _ RUN)).
    unfold qbind. rewrite bld_finish_node_run.
    destruct (p_finish_node s3) as [s'|] eqn:PF.
    + exists b1. split; [exact (wf_finish_node _ _ _ PF W1)|reflexivity].
    + eexists. reflexivity.
  - destruct H as (g' & RUN). eexists. rewrite (qbind_panic _ _ _ _ (qcall_panic _ _ _ RUN)). reflexivity.
Qed.

Lemma gpr_error_and_eat_sim g s m : psim g s -> osim (gpr_error_and_eat (msg_text m) g) (ounit (p_error_and_eat s m)).
Proof.
  intros (b0 & -> & W). unfold p_error_and_eat, gpr_error_and_eat, qfn_body.
  rewrite (qbind_norm _ _ _ _ _ (qcall_norm _ _ _ _ (gpr_error_run b0 s m))).
  pose proof (node_eat_finish b0 (p_error s m) (wf_error b0 s m W)) as H. cbv zeta in H.
  destruct (match p_eat (with_bld (p_error s m) (b_start_node (bld (p_error s m)) S_Error)) with
            | Some s3 => p_finish_node s3 | None => None end) as [s'|]; cbn [ounit option_map osim].
  - destruct H as (b1 & W1 & RUN). exists (pconc b1 s'). split; [|exists b1; split; [reflexivity|exact W1]].
    unfold qbind in *. rewrite RUN. reflexivity.
  - destruct H as (g' & RUN). eexists. unfold qbind in *. rewrite RUN. reflexivity.
Qed.

Lemma gpr_error_and_recover_sim rec g s m : psim g s ->
  osim (gpr_error_and_recover rec (msg_text m) g) (ounit (p_error_and_recover rec s m)).
Proof.
  intros (b0 & -> & W). unfold p_error_and_recover, gpr_error_and_recover, qfn_body.
  rewrite (qbind_norm _ _ _ _ _ (qcall_norm _ _ _ _ (gpr_error_run b0 s m))).
  set (s1 := p_error s m).
  assert (C : forall R, (@qbind R _ _ (qbind (qcall (gpr_at_set rec)) (fun t_1 => qret (negb t_1)))
                 (fun c_3 => if c_3 then qbind (qcall gpr_eof) (fun t_2 => qret (negb t_2)) else qret false)) (pconc b0 s1)
              = (PNorm (negb (p_at_set s1 rec) && negb (p_eof s1)), pconc b0 s1)).
  { intros R. qred. unfold p_at_set, p_eof, p_at. destruct (existsb (tk_eqb (cur s1)) rec); reflexivity. }
  rewrite (qbind_norm _ _ _ _ _ (C unit)).
  destruct (negb (p_at_set s1 rec) && negb (p_eof s1)).
  - pose proof (node_eat_finish b0 s1 (wf_error b0 s m W)) as H. cbv zeta in H.
    destruct (match p_eat (with_bld s1 (b_start_node (bld s1) S_Error)) with
              | Some s3 => p_finish_node s3 | None => None end) as [s'|]; cbn [ounit option_map osim].
    + destruct H as (b1 & W1 & RUN). exists (pconc b1 s'). split; [|exists b1; split; [reflexivity|exact W1]].
      unfold qbind in *. rewrite RUN. reflexivity.
    + destruct H as (g' & RUN). eexists. unfold qbind in *. rewrite RUN. reflexivity.
  - cbn [ounit option_map osim]. exists (pconc b0 s1). split; [reflexivity|]. exists b0. split; [reflexivity|exact W].
Qed.

(** * The remaining primitives in [osim] form *)
Lemma gpr_error_sim g s m : psim g s -> osim (gpr_error (msg_text m) g) (Some (tt, p_error s m)).
Proof.
  intros (b0 & -> & W). exists (pconc b0 (p_error s m)). split; [apply gpr_error_run|]. exists b0. split; [reflexivity|exact W].
Qed.
Lemma gpr_start_node_sim g s k : psim g s -> osim (gpr_start_node k g) (Some (tt, p_start_node s k)).
Proof.
  intros (b0 & -> & W). exists (pconc b0 (p_start_node s k)). split; [reflexivity|]. exists b0. split; [reflexivity|exact W].
Qed.
Lemma gpr_start_node_at_sim g s cp k : psim g s -> osim (gpr_start_node_at cp k g) (ounit (p_start_node_at s cp k)).
Proof.
  intros (b0 & -> & W). rewrite gpr_start_node_at_run. unfold p_start_node_at.
  destruct (b_start_node_at (bld s) cp k) as [b|]; cbn [ounit option_map osim].
  - eexists. split; [reflexivity|]. exists b0. split; [reflexivity|exact W].
  - eexists. reflexivity.
Qed.
Lemma gpr_finish_node_sim g s : psim g s -> osim (gpr_finish_node g) (ounit (p_finish_node s)).
Proof.
  intros (b0 & -> & W). rewrite gpr_finish_node_run. unfold p_finish_node.
  destruct (b_finish_node (bld s)) as [b|]; cbn [ounit option_map osim].
  - eexists. split; [reflexivity|]. exists b0. split; [reflexivity|exact W].
  - eexists. reflexivity.
Qed.
Lemma gpr_checkpoint_sim g s : psim g s -> osim (gpr_checkpoint g) (Some (b_checkpoint (bld s), s)).
Proof. intros (b0 & -> & W). exists (pconc b0 s). split; [reflexivity|]. exists b0. split; [reflexivity|exact W]. Qed.
Lemma gpr_peek_sim g s : psim g s -> osim (gpr_peek g) (Some (cur s, s)).
Proof. intros (b0 & -> & W). exists (pconc b0 s). split; [reflexivity|]. exists b0. split; [reflexivity|exact W]. Qed.
Lemma gpr_at_sim g s k : psim g s -> osim (gpr_at k g) (Some (p_at s k, s)).
Proof. intros (b0 & -> & W). exists (pconc b0 s). split; [reflexivity|]. exists b0. split; [reflexivity|exact W]. Qed.
Lemma gpr_at_set_sim g s ks : psim g s -> osim (gpr_at_set ks g) (Some (p_at_set s ks, s)).
Proof. intros (b0 & -> & W). exists (pconc b0 s). split; [reflexivity|]. exists b0. split; [reflexivity|exact W]. Qed.
Lemma gpr_eof_sim g s : psim g s -> osim (gpr_eof g) (Some (p_eof s, s)).
Proof. intros (b0 & -> & W). exists (pconc b0 s). split; [reflexivity|]. exists b0. split; [reflexivity|exact W]. Qed.
Lemma gpr_builder_sim g s : psim g s -> osim (gpr_builder g) (Some (bld s, s)).
Proof. intros (b0 & -> & W). exists (pconc b0 s). split; [reflexivity|]. exists b0. split; [reflexivity|exact W]. Qed.

(** the forms under which the grammar DSL (t_grammar) names at / eof / expect *)
Lemma gpr_at_is_at_set g s k : psim g s -> gpr_at k g = gpr_at_set [k] g.
Proof. intros (b0 & -> & W). rewrite gpr_at_run, gpr_at_set_run. unfold p_at_set, p_at. cbn [existsb]. rewrite orb_false_r. reflexivity. Qed.
Lemma gpr_eof_is_at_set g s : psim g s -> gpr_eof g = gpr_at_set [T_Eof] g.
Proof. intros (b0 & -> & W). rewrite gpr_eof_run, gpr_at_set_run. unfold p_eof, p_at_set, p_at. cbn [existsb]. rewrite orb_false_r. reflexivity. Qed.
Lemma gpr_expect_is_with_msg k g : gpr_expect k g = gpr_expect_with_msg k (msg_text (MExpected k)) g.
Proof.
  unfold gpr_expect, qfn_body, qcall. change (String.append "expected " (tk_name k)) with (msg_text (MExpected k)).
  destruct (gpr_expect_with_msg k (msg_text (MExpected k)) g) as [[a| |] g']; reflexivity.
Qed.

(** CompletedMarker *)
Lemma gpr_or_error_sim c g s m : psim g s ->
  osim (gpr_or_error c (msg_text m) g)
       (Some (tt, match c with CompletedMarker_Success => s | CompletedMarker_Fail => p_error s m end)).
Proof.
  intros (b0 & -> & W). unfold gpr_or_error, gpr_is_success, qfn_body. destruct c; cbn [CompletedMarker_eqb negb].
  - exists (pconc b0 s). split; [reflexivity|]. exists b0. split; [reflexivity|exact W].
  - exists (pconc b0 (p_error s m)). split; [|exists b0; split; [reflexivity|exact W]].
    rewrite (qbind_norm _ _ _ _ _ (qcall_norm _ _ _ _ (gpr_error_run b0 s m))). reflexivity.
Qed.

(** * new / finish *)
Theorem gpr_new_sim txt :
  exists g t', gpr_new (gp_new (g_new txt)) = (FNorm g, t') /\ psim g (p_new txt).
Proof.
  unfold p_new.
  set (s0 := {| raw := raw_lex txt; src := txt; ParserPrims.pp := pinit; cursor := 0; cur := T_Eof; cur_lo := 0; cur_text := [];
                bld := builder_init; errs := []; after_err := false; nlex := 0; nstart := 0 |}).
  assert (W0 : wf [] s0) by (repeat split).
  pose proof (proj2 (gpr_lex_run [] s0 W0)) as W1. cbn [app cur_text s0] in W1.
  unfold p_lex in *. cbn [raw src ParserPrims.pp cursor s0] in *.
  destruct (prep_next pinit (raw_lex txt)) as [[[k len] pp'] raw'] eqn:HN.
  destruct (gp_eat_run [] txt _ _ _ _ _ HN) as (w & s' & E1 & E2 & E3 & RUN). subst len.
  assert (TB : take_bytes (bytes w) txt = (w, s')).
  { transitivity (take_bytes (bytes w) (w ++ s')); [f_equal; exact E1|apply ParserTile.take_bytes_app]. }
  rewrite TB in *.
  change (gp_new (g_new txt)) with (conc [] txt pinit).
  eexists. eexists. split.
  - unfold gpr_new. cbv beta iota zeta delta [pfn_body pbind call pret ts_self]. rewrite gp_cursor_run. cbv beta iota.
    rewrite RUN. cbv beta iota. rewrite gp_cursor_run. cbv beta iota. reflexivity.
  - exists []. split; [|exact W1]. unfold pconc, cur_hi. cbn [raw src ParserPrims.pp cursor cur cur_lo cur_text bld errs after_err app rev map bytes].
    reflexivity.
Qed.

Theorem gpr_finish_sim g s : psim g s ->
  match p_finish s with
  | Some (t, es) => exists g', gpr_finish g = (FNorm (t, map emsg es), g')
  | None => exists g', gpr_finish g = (FPanic, g')
  end.
Proof.
  intros (b0 & -> & W). unfold p_finish, gpr_finish. qred. destruct (b_finish (bld s)); eexists; reflexivity.
Qed.

(** * Every primitive of the grammar DSL (GInterp.exec_prim) is simulated by the corresponding generated function *)
Definition fmap {A B} (f : A -> B) (m : QF A) : QF B :=
  fun st => match m st with
            | (FNorm a, st') => (FNorm (f a), st')
            | (FPanic, st') => (FPanic, st')
            | (FOof, st') => (FOof, st')
            end.
Definition fpanic {A} : QF A := fun st => (FPanic, st).

Definition gen_prim (rec : list TokenKind) (pr : GInterp.prim) (en : GInterp.env) : QF GInterp.val :=
  let u (m : QF unit) := fmap (fun _ => GInterp.VB true) m in
  match pr with
  | GInterp.PStartNode k => u (gpr_start_node k)
  | GInterp.PFinishNode => u gpr_finish_node
  | GInterp.PCheckpoint => fmap GInterp.VN gpr_checkpoint
  | GInterp.PStartNodeAt x k =>
      match GInterp.env_get en x with
      | Some (GInterp.VN cp) => u (gpr_start_node_at cp k)
      | _ => fpanic
      end
  | GInterp.PAssert k => u (gpr_assert k)
  | GInterp.PExpect k m => u (gpr_expect_with_msg k (msg_text m))
  | GInterp.PEat => u gpr_eat
  | GInterp.PEatIf k => fmap GInterp.VB (gpr_eat_if k)
  | GInterp.PSkip => u gpr_skip
  | GInterp.PError m => u (gpr_error (msg_text m))
  | GInterp.PErrorAndEat m => u (gpr_error_and_eat (msg_text m))
  | GInterp.PErrorAndRecover m => u (gpr_error_and_recover rec (msg_text m))
  | GInterp.PAtSet ks => fmap GInterp.VB (gpr_at_set ks)
  end.

(** a result of the DSL interpreter against a result of a generated computation *)
Definition rsim (en : GInterp.env) (r : fres GInterp.val * gps) (h : GInterp.res) : Prop :=
  match h with
  | GInterp.RVal v en' s' => en' = en /\ exists g', r = (FNorm v, g') /\ psim g' s'
  | GInterp.RPanic => exists g', r = (FPanic, g')
  | _ => False
  end.

Lemma rsim_lift en (m : QF unit) g o :
  osim (m g) (ounit o) -> rsim en (fmap (fun _ => GInterp.VB true) m g) (GInterp.lift o en).
Proof.
  unfold fmap. destruct o as [s'|]; cbn [ounit option_map osim GInterp.lift rsim].
  - intros (g' & -> & P). split; [reflexivity|]. exists g'. split; [reflexivity|exact P].
  - intros (g' & ->). eexists. reflexivity.
Qed.

Lemma rsim_val {A} en (f : A -> GInterp.val) (m : QF A) g a s' :
  osim (m g) (Some (a, s')) -> rsim en (fmap f m g) (GInterp.RVal (f a) en s').
Proof.
  unfold fmap. cbn [osim rsim]. intros (g' & -> & P). split; [reflexivity|]. exists g'. split; [reflexivity|exact P].
Qed.

Theorem gen_prim_sim p pr en g s : psim g s ->
  rsim en (gen_prim (GInterp.recover_tokens p) pr en g) (GInterp.exec_prim p pr en s).
Proof.
  intros P. destruct pr; cbn [gen_prim GInterp.exec_prim].
  - apply (rsim_val en (fun _ : unit => GInterp.VB true) _ _ tt). apply gpr_start_node_sim. exact P.
  - apply rsim_lift. apply gpr_finish_node_sim. exact P.
  - apply (rsim_val en GInterp.VN). apply gpr_checkpoint_sim. exact P.
  - destruct (GInterp.env_get en x) as [[b|cp]|]; try (eexists; reflexivity).
    apply rsim_lift. apply gpr_start_node_at_sim. exact P.
  - apply rsim_lift. apply gpr_assert_sim. exact P.
  - apply rsim_lift. apply gpr_expect_with_msg_sim. exact P.
  - apply rsim_lift. apply gpr_eat_sim. exact P.
  - pose proof (gpr_eat_if_sim g s k P) as H. destruct (p_eat_if s k) as [[b s1]|].
    + apply (rsim_val en GInterp.VB). exact H.
    + cbn [osim] in H. destruct H as (g' & H). unfold fmap. rewrite H. eexists. reflexivity.
  - apply rsim_lift. apply gpr_skip_sim. exact P.
  - apply (rsim_val en (fun _ : unit => GInterp.VB true) _ _ tt). apply gpr_error_sim. exact P.
  - apply rsim_lift. apply gpr_error_and_eat_sim. exact P.
  - apply rsim_lift. apply gpr_error_and_recover_sim. exact P.
  - apply (rsim_val en GInterp.VB). apply gpr_at_set_sim. exact P.
Qed.

(** non-vacuity: the state after `Parser::new` on "#ifdef A" + newline + "x" is related, and the hand model's eat succeeds from it *)
Example psim_nonvacuous :
  let txt := [35; 105; 102; 100; 101; 102; 32; 65; 10; 120] in
  (exists g t', gpr_new (gp_new (g_new txt)) = (FNorm g, t') /\ psim g (p_new txt))
  /\ cur (p_new txt) = T_PreProcessor /\ cur_text (p_new txt) = txt
  /\ exists s', p_skip_all (p_new txt) = Some s' /\ cur s' = T_Error.
Proof.
  cbv zeta. split; [apply gpr_new_sim|]. split; [vm_compute; reflexivity|]. split; [vm_compute; reflexivity|].
  eexists. split; [vm_compute; reflexivity|]. reflexivity.
Qed.

(** * The DSL interpreter over the GENERATED primitives: a copy of GInterp.gexec in which the state is the generated
    parser state and [exec_prim] is [gen_prim]; it is simulated by GInterp.gexec for every program, hence every
    theorem about [gexec] / [parse_with] (C01, C02, C04, C15 parser level) holds of the source rendering of parser.rs
    (the grammar functions themselves are the DSL program of t_grammar, as before). *)
Import GInterp.

Inductive gres :=
| GVal (v : val) (en : env) (g : gps)
| GBrk (en : env) (g : gps)
| GRet (v : val) (en : env) (g : gps)
| GPanic
| GOOF.

Definition gexec_prim (p : prog) (pr : prim) (en : env) (g : gps) : gres :=
  match gen_prim (recover_tokens p) pr en g with
  | (FNorm v, g') => GVal v en g'
  | (FPanic, _) => GPanic
  | (FOof, _) => GOOF
  end.

Fixpoint ggexec (fuel : nat) (p : prog) (e : expr) (en : env) (s : gps) : gres :=
  match fuel with
  | O => GOOF
  | S n =>
    match e with
    | EB b => GVal (VB b) en s
    | EVar x => match env_get en x with Some v => GVal v en s | None => GPanic end
    | ENot a =>
        match ggexec n p a en s with
        | GVal (VB b) en1 s1 => GVal (VB (negb b)) en1 s1
        | GVal (VN _) _ _ => GPanic
        | r => r
        end
    | EPrim pr => gexec_prim p pr en s
    | ECall f arg =>
        match GInterp.fn_body p f with
        | None => GPanic
        | Some body =>
            let cen := match arg with
                       | Some (x, _) => match env_get en x with Some v => Some [v] | None => None end
                       | None => Some []
                       end in
            match cen with
            | None => GPanic
            | Some cen0 =>
                let back (v : val) (cen1 : env) (s1 : gps) :=
                  match arg with
                  | Some (x, true) => match env_get cen1 0 with
                                      | Some w => GVal v (env_set en x w) s1
                                      | None => GPanic end
                  | _ => GVal v en s1
                  end in
                match ggexec n p body cen0 s with
                | GVal v cen1 s1 => back v cen1 s1
                | GRet v cen1 s1 => back v cen1 s1
                | GBrk _ _ => GPanic
                | GPanic => GPanic
                | GOOF => GOOF
                end
            end
        end
    | ESeq a b =>
        match ggexec n p a en s with
        | GVal _ en1 s1 => ggexec n p b en1 s1
        | r => r
        end
    | EIf c a b =>
        match ggexec n p c en s with
        | GVal (VB true) en1 s1 => ggexec n p a en1 s1
        | GVal (VB false) en1 s1 => ggexec n p b en1 s1
        | GVal (VN _) _ _ => GPanic
        | r => r
        end
    | EWhile c b =>
        match ggexec n p c en s with
        | GVal (VB true) en1 s1 =>
            match ggexec n p b en1 s1 with
            | GVal _ en2 s2 => ggexec n p (EWhile c b) en2 s2
            | GBrk en2 s2 => GVal (VB true) en2 s2
            | r => r
            end
        | GVal (VB false) en1 s1 => GVal (VB true) en1 s1
        | GVal (VN _) _ _ => GPanic
        | r => r
        end
    | EBreak => GBrk en s
    | EReturn a =>
        match ggexec n p a en s with
        | GVal v en1 s1 => GRet v en1 s1
        | r => r
        end
    | ESet x a =>
        match ggexec n p a en s with
        | GVal v en1 s1 => GVal (VB true) (env_set en1 x v) s1
        | r => r
        end
    end
  end.

Definition gsim (r : gres) (h : GInterp.res) : Prop :=
  match h, r with
  | RVal v en s, GVal v' en' g => v' = v /\ en' = en /\ psim g s
  | RBrk en s, GBrk en' g => en' = en /\ psim g s
  | RRet v en s, GRet v' en' g => v' = v /\ en' = en /\ psim g s
  | RPanic, GPanic => True
  | ROOF, GOOF => True
  | _, _ => False
  end.

Lemma gexec_prim_sim p pr en g s : psim g s -> gsim (gexec_prim p pr en g) (exec_prim p pr en s).
Proof.
  intros P. pose proof (gen_prim_sim p pr en g s P) as H. unfold gexec_prim.
  destruct (exec_prim p pr en s) as [v en' s'| | | |]; cbn [rsim gsim] in *; try contradiction.
  - destruct H as (-> & g' & -> & PS). repeat split. exact PS.
  - destruct H as (g' & ->). exact I.
Qed.

(** case analysis of a pair of related results *)
Ltac both H :=
  match type of H with
  | gsim ?r ?h => destruct h as [? ? ?|? ?|? ? ?| |], r as [? ? ?|? ?|? ? ?| |]; cbn [gsim] in H; try contradiction
  end.

Theorem ggexec_sim p : forall n e en g s, psim g s -> gsim (ggexec n p e en g) (gexec n p e en s).
Proof.
  induction n as [|n IH]; intros e en g s P; [exact I|].
  destruct e; cbn [ggexec gexec].
  - (* EB *) repeat split. exact P.
  - (* EVar *) destruct (env_get en x); [repeat split; exact P|exact I].
  - (* ENot *) pose proof (IH e en g s P) as H. both H; try exact H; try exact I.
    destruct H as (-> & -> & PS). destruct v; [repeat split; exact PS|exact I].
  - (* EPrim *) apply gexec_prim_sim. exact P.
  - (* ECall *) destruct (GInterp.fn_body p f) as [body|]; [|exact I].
    destruct (match arg with
              | Some (x, _) => match env_get en x with Some v => Some [v] | None => None end
              | None => Some []
              end) as [cen0|]; [|exact I].
    pose proof (IH body cen0 g s P) as H. both H; try exact I.
    + destruct H as (-> & -> & PS). destruct arg as [[x [|]]|]; try (repeat split; exact PS).
      destruct (env_get en0 0); [repeat split; exact PS|exact I].
    + destruct H as (-> & -> & PS). destruct arg as [[x [|]]|]; try (repeat split; exact PS).
      destruct (env_get en0 0); [repeat split; exact PS|exact I].
  - (* ESeq *) pose proof (IH e1 en g s P) as H. both H; try exact H; try exact I.
    destruct H as (-> & -> & PS). apply IH. exact PS.
  - (* EIf *) pose proof (IH e1 en g s P) as H. both H; try exact H; try exact I.
    destruct H as (-> & -> & PS). destruct v as [[|]|]; [apply IH; exact PS|apply IH; exact PS|exact I].
  - (* EWhile *) pose proof (IH e1 en g s P) as H. both H; try exact H; try exact I.
    destruct H as (-> & -> & PS). destruct v as [[|]|]; [|repeat split; exact PS|exact I].
    pose proof (IH e2 en0 g0 s0 PS) as H2. both H2; try exact H2; try exact I.
    + destruct H2 as (-> & -> & PS2). apply IH. exact PS2.
    + destruct H2 as (-> & PS2). repeat split. exact PS2.
  - (* EBreak *) repeat split. exact P.
  - (* EReturn *) pose proof (IH e en g s P) as H. both H; try exact H; try exact I.
  - (* ESet *) pose proof (IH e en g s P) as H. both H; try exact H; try exact I.
    destruct H as (-> & -> & PS). repeat split. exact PS.
Qed.

(** syntax::parse over the generated lexer, preprocessor and parser primitives *)
Inductive gparse_out :=
| GParseOk (t : tree) (errors : list syntax_error)
| GParsePanic
| GParseOOF.

Definition gparse_with (fuel : nat) (p : prog) (entry : nat) (txt : text) : gparse_out :=
  match gpr_new (gp_new (g_new txt)) with
  | (FNorm g0, _) =>
      match ggexec fuel p (ECall entry None) [] g0 with
      | GVal _ _ g | GRet _ _ g =>
          match gpr_finish g with
          | (FNorm (t, es), _) => GParseOk t es
          | _ => GParsePanic
          end
      | GBrk _ _ => GParsePanic
      | GPanic => GParsePanic
      | GOOF => GParseOOF
      end
  | (FPanic, _) => GParsePanic
  | (FOof, _) => GParseOOF
  end.

Definition parse_view (o : parse_out) : gparse_out :=
  match o with
  | ParseOk t es _ => GParseOk t (map emsg es)
  | ParsePanic => GParsePanic
  | ParseOOF => GParseOOF
  end.

Theorem gparse_with_eq fuel p entry txt : gparse_with fuel p entry txt = parse_view (parse_with fuel p entry txt).
Proof.
  unfold gparse_with, parse_with. destruct (gpr_new_sim txt) as (g0 & t' & -> & P0).
  pose proof (ggexec_sim p fuel (ECall entry None) [] g0 (p_new txt) P0) as H. both H; try reflexivity.
  - destruct H as (_ & _ & PS). pose proof (gpr_finish_sim _ _ PS) as F.
    destruct (p_finish s) as [[t es]|]; destruct F as (g' & ->); reflexivity.
  - destruct H as (_ & _ & PS). pose proof (gpr_finish_sim _ _ PS) as F.
    destruct (p_finish s) as [[t es]|]; destruct F as (g' & ->); reflexivity.
Qed.
