(** Base lemmas for the soundness of A-look / A-prog: bit-mask sets of token kinds, and the progress
    measure [msr] of a parser state (it never increases, and [eat] at a look-ahead other than Eof
    strictly decreases it). *)
From Coq Require Import List Arith NArith Bool Lia.
From TG.Gen Require Import GenTokens GenLexTables.
From TG.Model Require Import Chars Lexer Prep Tree ParserPrims GInterp.
From TG.Proofs Require Import LexBasics PrepBasics ParserTile LookProg.
Import ListNotations.
Open Scope nat_scope.

(** * kset *)

Lemma kmem_kof k ks : kmem k (kof ks) = existsb (tk_eqb k) ks.
Proof.
  unfold kmem. induction ks as [|x ks IH]; cbn [kof fold_right existsb].
  - apply N.bits_0.
  - fold (kof ks). rewrite N.setbit_eqb, IH. unfold tk_eqb. rewrite (N.eqb_sym (tk_index x)). reflexivity.
Qed.

Lemma kmem_single k x : kmem k (kof [x]) = tk_eqb k x.
Proof. rewrite kmem_kof. cbn. apply orb_false_r. Qed.

Lemma kmem_single_eq k x : kmem k (kof [x]) = true -> k = x.
Proof. rewrite kmem_single. apply LexBasics.tk_eqb_eq. Qed.

Lemma kmem_self k : kmem k (kof [k]) = true.
Proof. rewrite kmem_single. apply LexBasics.tk_eqb_refl. Qed.

Lemma existsb_tk_in k ks : In k ks -> existsb (tk_eqb k) ks = true.
Proof. intros H. apply existsb_exists. exists k. split; [exact H|apply LexBasics.tk_eqb_refl]. Qed.

Lemma kmem_kall k : kmem k kall = true.
Proof. unfold kall. rewrite kmem_kof. apply existsb_tk_in, all_token_kinds_complete. Qed.

Lemma kmem_inter k A B : kmem k (kinter A B) = kmem k A && kmem k B.
Proof. apply N.land_spec. Qed.
Lemma kmem_union k A B : kmem k (kunion A B) = kmem k A || kmem k B.
Proof. apply N.lor_spec. Qed.
Lemma kmem_diff k A B : kmem k (kdiff A B) = kmem k A && negb (kmem k B).
Proof. apply N.ldiff_spec. Qed.

Lemma ksub_spec A B : ksub A B = true -> forall k, kmem k A = true -> kmem k B = true.
Proof.
  unfold ksub. intros H k HA. apply N.eqb_eq in H.
  assert (E : kmem k (kdiff A B) = false) by (unfold kmem, kdiff; rewrite H; apply N.bits_0).
  rewrite kmem_diff, HA in E. cbn in E. destruct (kmem k B); [reflexivity|discriminate].
Qed.

Lemma kempty_false k A : kmem k A = true -> kempty A = false.
Proof.
  unfold kempty, kmem. intros H. destruct (N.eqb_spec A 0%N) as [->|]; [|reflexivity].
  rewrite N.bits_0 in H. discriminate.
Qed.

Lemma kmem_eof_cur s A : kmem T_Eof A = false -> kmem (cur s) A = true -> cur s <> T_Eof.
Proof. intros H1 H2 E. rewrite E in H2. congruence. Qed.

Arguments kmem : simpl never.
Arguments kof : simpl never.
Arguments kall : simpl never.
Arguments kinter : simpl never.
Arguments kunion : simpl never.
Arguments kdiff : simpl never.
Arguments ksub : simpl never.
Arguments kempty : simpl never.

(** * The measure *)

Definition obit (st : pstate) : nat := if (0 <? openc st)%N then 1 else 0.
Definition ebit (k : TokenKind) : nat := if tk_eqb k T_Eof then 0 else 1.
(** what is left once the look-ahead has been saved *)
Definition msr_pre (s : pst) : nat := 2 * List.length (raw s) + obit (pp s).
Definition msr (s : pst) : nat := msr_pre s + ebit (cur s).

Lemma ebit_le k : ebit k <= 1.
Proof. unfold ebit. destruct (tk_eqb k T_Eof); lia. Qed.
Lemma obit_le st : obit st <= 1.
Proof. unfold obit. destruct (0 <? openc st)%N; lia. Qed.
Lemma ebit_neq k : k <> T_Eof -> ebit k = 1.
Proof. intros H. unfold ebit. destruct (tk_eqb k T_Eof) eqn:E; [apply LexBasics.tk_eqb_eq in E; contradiction|reflexivity]. Qed.

Lemma msr_pre_le s : msr_pre s <= msr s.
Proof. unfold msr. lia. Qed.
Lemma msr_pre_lt s : cur s <> T_Eof -> msr_pre s < msr s.
Proof. intros H. unfold msr. rewrite (ebit_neq _ H). lia. Qed.

(** ParserBase::lex: the measure after lexing is at most what was left before *)
Lemma p_lex_msr s : msr (p_lex s) <= msr_pre s.
Proof.
  rewrite p_lex_eq. destruct (prep_next (pp s) (raw s)) as [[[k len] pp'] raw'] eqn:EP.
  destruct (take_bytes len (src s)) as [tx src']. unfold msr, msr_pre. cbn [raw pp cur].
  destruct (raw s) as [|t r] eqn:ER.
  - rewrite prep_next_nil in EP. destruct (0 <? openc (pp s))%N eqn:O; inversion EP; subst.
    + change (ebit T_Error) with 1. unfold obit. rewrite O. cbn. lia.
    + change (ebit T_Eof) with 0. cbn. lia.
  - assert (NE : t :: r <> []) by discriminate.
    pose proof (prep_next_progress _ _ _ _ _ _ EP NE) as LT. cbn [List.length] in *.
    pose proof (ebit_le k). pose proof (obit_le pp'). lia.
Qed.

Lemma p_save_msr_pre s s1 : p_save s = Some s1 -> msr_pre s1 = msr_pre s.
Proof. intros H. destruct (p_save_frame _ _ H) as (R & _ & _ & _ & O & _). unfold msr_pre, obit. rewrite R, O. reflexivity. Qed.

Lemma p_skip_msr : forall fuel s s', p_skip fuel s = Some s' -> msr s' <= msr s.
Proof.
  induction fuel as [|x fuel IH]; intros s s' H; cbn [p_skip] in H.
  - destruct (is_trivia (cur s)); inversion H; subst; lia.
  - destruct (is_trivia (cur s)); [|inversion H; subst; lia].
    destruct (p_save s) as [s1|] eqn:SV; [|discriminate].
    apply IH in H. pose proof (p_lex_msr s1). rewrite (p_save_msr_pre _ _ SV) in *. pose proof (msr_pre_le s). lia.
Qed.

Lemma p_eat_msr s s' : p_eat s = Some s' -> msr s' <= msr_pre s.
Proof.
  unfold p_eat. destruct (p_save s) as [s1|] eqn:SV; [|discriminate]. unfold p_skip_all. intros H.
  apply p_skip_msr in H. pose proof (p_lex_msr s1). rewrite (p_save_msr_pre _ _ SV) in *. lia.
Qed.

Lemma p_eat_le s s' : p_eat s = Some s' -> msr s' <= msr s.
Proof. intros H. apply p_eat_msr in H. pose proof (msr_pre_le s). lia. Qed.
Lemma p_eat_lt s s' : p_eat s = Some s' -> cur s <> T_Eof -> msr s' < msr s.
Proof. intros H N. apply p_eat_msr in H. pose proof (msr_pre_lt s N). lia. Qed.

Lemma msr_with_bld s b : msr (with_bld s b) = msr s.
Proof. reflexivity. Qed.
Lemma msr_p_error s m : msr (p_error s m) = msr s.
Proof. reflexivity. Qed.
Lemma msr_p_start_node s k : msr (p_start_node s k) = msr s.
Proof. reflexivity. Qed.
Lemma msr_pre_with_bld s b : msr_pre (with_bld s b) = msr_pre s.
Proof. reflexivity. Qed.
Lemma msr_pre_p_error s m : msr_pre (p_error s m) = msr_pre s.
Proof. reflexivity. Qed.
Lemma cur_with_bld s b : cur (with_bld s b) = cur s.
Proof. reflexivity. Qed.
Lemma cur_p_error s m : cur (p_error s m) = cur s.
Proof. reflexivity. Qed.

Lemma p_finish_node_frame s s' : p_finish_node s = Some s' -> msr s' = msr s /\ cur s' = cur s.
Proof. unfold p_finish_node. destruct (b_finish_node (bld s)); [|discriminate]. intros H; inversion H; subst. split; reflexivity. Qed.
Lemma p_start_node_at_frame s cp k s' : p_start_node_at s cp k = Some s' -> msr s' = msr s /\ cur s' = cur s.
Proof. unfold p_start_node_at. destruct (b_start_node_at (bld s) cp k); [|discriminate]. intros H; inversion H; subst. split; reflexivity. Qed.

(** eat_if / assert / expect / error_and_* in terms of [p_eat] *)
Lemma p_eat_if_inv s k b s' : p_eat_if s k = Some (b, s') ->
  (b = true /\ cur s = k /\ p_eat s = Some s') \/ (b = false /\ cur s <> k /\ s' = s).
Proof.
  unfold p_eat_if, p_at. destruct (tk_eqb (cur s) k) eqn:E.
  - apply LexBasics.tk_eqb_eq in E. destruct (p_eat s) as [s1|]; [|discriminate]. intros H; inversion H; subst. left. auto.
  - apply LexBasics.tk_eqb_neq in E. intros H; inversion H; subst. right. auto.
Qed.

Lemma p_assert_inv s k s' : p_assert s k = Some s' -> cur s = k /\ p_eat s = Some s'.
Proof.
  unfold p_assert. destruct (p_eat_if s k) as [[b s1]|] eqn:E; [|discriminate].
  destruct b; [|discriminate]. intros H; inversion H; subst.
  destruct (p_eat_if_inv _ _ _ _ E) as [(_ & A & B)|(C & _)]; [auto|discriminate].
Qed.

Lemma p_expect_inv s k m s' : p_expect s k m = Some s' ->
  (cur s = k /\ p_eat s = Some s') \/ (cur s <> k /\ msr s' = msr s /\ cur s' = cur s).
Proof.
  unfold p_expect. destruct (p_eat_if s k) as [[b s1]|] eqn:E; [|discriminate].
  destruct (p_eat_if_inv _ _ _ _ E) as [(-> & A & B)|(-> & A & ->)].
  - intros H; inversion H; subst. left. auto.
  - right. destruct (after_err s); inversion H; subst; auto.
Qed.

Lemma p_error_and_eat_inv s m s' : p_error_and_eat s m = Some s' ->
  msr s' <= msr_pre s.
Proof.
  unfold p_error_and_eat. destruct (p_eat _) as [s3|] eqn:E; [|discriminate]. intros H.
  apply p_finish_node_frame in H. destruct H as (H & _). apply p_eat_msr in E. rewrite msr_pre_with_bld, msr_pre_p_error in E. lia.
Qed.

Lemma p_error_and_recover_inv rec s m s' : p_error_and_recover rec s m = Some s' ->
  (existsb (tk_eqb (cur s)) (T_Eof :: rec) = false /\ msr s' <= msr_pre s) \/
  (existsb (tk_eqb (cur s)) (T_Eof :: rec) = true /\ msr s' = msr s /\ cur s' = cur s).
Proof.
  unfold p_error_and_recover, p_at_set, p_eof, p_at. rewrite cur_p_error. cbn [existsb].
  destruct (existsb (tk_eqb (cur s)) rec); cbn [negb andb orb].
  - intros H; inversion H; subst. right. rewrite orb_true_r. auto.
  - destruct (tk_eqb (cur s) T_Eof); cbn [negb orb].
    + intros H; inversion H; subst. right. auto.
    + destruct (p_eat _) as [s3|] eqn:E; [|discriminate]. intros H. left. split; [reflexivity|].
      apply p_finish_node_frame in H. destruct H as (H & _). apply p_eat_msr in E. rewrite msr_pre_with_bld, msr_pre_p_error in E. lia.
Qed.

Lemma p_skip_all_le s s' : p_skip_all s = Some s' -> msr s' <= msr s.
Proof. apply p_skip_msr. Qed.

Arguments msr : simpl never.
Arguments msr_pre : simpl never.
