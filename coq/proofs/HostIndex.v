(** C16 (indexer part): the include traversal of index.rs ([Include::index], push_file/pop_file,
    the [indexed_files] set) as modelled by [Host.index_file] / [Host.index_items].

    For EVERY database [db] (any include maps: self includes, cycles, diamonds) and every fuel:
    - [index_char]: if the traversal returns, then no file is entered twice ([NoDup (files_of tr)]),
      and the events of every entered file [g] are exactly [EvFile g] followed by the events of
      [g]'s own items in document order (declarations; not-found diagnostics for the reached include
      statements that are not in [g]'s include map) - in particular a file included along several
      paths contributes its declarations once; files that are not entered contribute nothing;
    - [index_terminates]: if the include maps stay inside a finite set [S] of files that have a
      content and an include map, then fuel > |S| suffices (never [OutOfFuel], never [Panic]). *)
From Coq Require Import List NArith Bool Lia Arith.
From TG.Model Require Import Includes Host.
Import ListNotations.
Local Open Scope nat_scope.

Section Index.
Context {path istr : Type} {PA : PathAlg path istr}.
Notation content := (content istr).
Notation item := (item istr).
Notation inputs := (@inputs path istr).

Variable db : inputs.

Definition items_of (f : N) : list item :=
  match fc db f with Some c => c_items c | None => [] end.
Definition map_of (f : N) : list (rng * N) :=
  match rim db f with Some m => m | None => [] end.

(** the events the indexer emits for the items of a file itself (without descending) *)
Fixpoint own (f : N) (m : list (rng * N)) (its : list item) : list event :=
  match its with
  | [] => []
  | IDecl nm :: r => EvDecl f nm :: own f m r
  | IInc sid true _ :: r =>
      match im_get sid m with
      | None => EvNotFound f sid :: own f m r
      | Some _ => own f m r
      end
  | IInc _ false _ :: r => own f m r
  end.

Definition full (g : N) : list event := own g (map_of g) (items_of g).

Definition ev_file (e : event) : N :=
  match e with EvFile f => f | EvDecl f _ => f | EvNotFound f _ => f end.

Definition proj (g : N) (tr : list event) : list event :=
  filter (fun e => (ev_file e =? g)%N) tr.

Lemma proj_app : forall g a b, proj g (a ++ b) = proj g a ++ proj g b.
Proof. intros. unfold proj. apply filter_app. Qed.

Lemma proj_rev : forall g l, proj g (rev l) = rev (proj g l).
Proof.
  intros g l. induction l as [|e l IH]; [reflexivity|].
  cbn [rev]. rewrite proj_app, IH. unfold proj at 2 3. cbn [filter].
  destruct (ev_file e =? g)%N; cbn [rev app]; [reflexivity|rewrite app_nil_r; reflexivity].
Qed.

Lemma files_of_app : forall a b : list event, files_of (a ++ b) = files_of a ++ files_of b.
Proof.
  induction a as [|e a IH]; intro b; [reflexivity|].
  destruct e; cbn [app files_of]; rewrite IH; reflexivity.
Qed.

Lemma files_of_rev : forall l : list event, files_of (rev l) = rev (files_of l).
Proof.
  induction l as [|e l IH]; [reflexivity|]. cbn [rev]. rewrite files_of_app, IH.
  destruct e; cbn [files_of rev app]; rewrite ?app_nil_r; reflexivity.
Qed.

Lemma memN_true : forall f l, memN f l = true <-> In f l.
Proof.
  intros f l. unfold memN. rewrite existsb_exists. split.
  - intros [g [Hg E]]. apply N.eqb_eq in E. subst. exact Hg.
  - intro H. exists f. split; [exact H|apply N.eqb_refl].
Qed.

Lemma memN_false : forall f l, memN f l = false <-> ~ In f l.
Proof. intros f l. rewrite <- memN_true. destruct (memN f l); split; congruence. Qed.

Lemma NoDup_app_intro : forall (A : Type) (a b : list A),
  NoDup a -> NoDup b -> (forall x, In x a -> ~ In x b) -> NoDup (a ++ b).
Proof.
  induction a as [|x a IH]; intros b Ha Hb Hd; [exact Hb|].
  cbn [app]. inversion Ha; subst. constructor.
  - intro H. apply in_app_or in H. destruct H as [H|H]; [contradiction|].
    exact (Hd x (or_introl eq_refl) H).
  - apply IH; auto. intros y Hy. apply Hd. right. exact Hy.
Qed.

(** ** segments of the trace (newest first) *)
Definition seg (f : N) (o : list event) (idx0 : list N) (new : list event) (newidx : list N) : Prop :=
  In f idx0 /\
  files_of new = newidx /\
  NoDup newidx /\
  (forall g, In g newidx -> ~ In g idx0) /\
  proj f new = rev o /\
  (forall g, In g newidx -> proj g new = rev (EvFile g :: full g)) /\
  (forall g, g <> f -> ~ In g newidx -> proj g new = []).

Lemma seg_nil : forall f idx0, In f idx0 -> seg f [] idx0 [] [].
Proof.
  intros f idx0 Hf. unfold seg. cbn. split; [exact Hf|]. split; [reflexivity|].
  split; [constructor|]. split; [intros g []|]. split; [reflexivity|]. split; [intros g []|reflexivity].
Qed.

Lemma seg_emit : forall f e o idx0 new newidx,
  ev_file e = f -> files_of [e] = [] ->
  seg f o idx0 new newidx -> seg f (e :: o) idx0 (new ++ [e]) newidx.
Proof.
  intros f e o idx0 new newidx He Hfe [S0 [S1 [S2 [S3 [S4 [S5 S6]]]]]].
  assert (Hpf : proj f [e] = [e]) by (unfold proj; cbn [filter]; rewrite He, N.eqb_refl; reflexivity).
  assert (Hpg : forall g, g <> f -> proj g [e] = []).
  { intros g Hg. unfold proj. cbn [filter]. rewrite He.
    destruct (f =? g)%N eqn:E; [apply N.eqb_eq in E; congruence|reflexivity]. }
  unfold seg. split; [exact S0|].
  split; [rewrite files_of_app, Hfe, app_nil_r; exact S1|].
  split; [exact S2|]. split; [exact S3|].
  split; [rewrite proj_app, S4, Hpf; reflexivity|].
  split.
  - intros g Hg. rewrite proj_app, (S5 g Hg).
    assert (NE : g <> f) by (intro E; subst g; exact (S3 f Hg S0)).
    rewrite (Hpg g NE), app_nil_r. reflexivity.
  - intros g Hg Hn. rewrite proj_app, (S6 g Hg Hn), (Hpg g Hg). reflexivity.
Qed.

Lemma seg_enter : forall f o g idx0 new2 newidx2 new3 newidx3,
  ~ In g idx0 ->
  seg g (full g) (g :: idx0) new2 newidx2 ->
  seg f o (newidx2 ++ g :: idx0) new3 newidx3 ->
  In f idx0 ->
  seg f o idx0 (new3 ++ new2 ++ [EvFile g]) (newidx3 ++ newidx2 ++ [g]).
Proof.
  intros f o g idx0 new2 newidx2 new3 newidx3 Hg [A0 [A1 [A2 [A3 [A4 [A5 A6]]]]]]
         [B0 [B1 [B2 [B3 [B4 [B5 B6]]]]]] Hf.
  assert (Hfg : f <> g) by (intro E; subst; contradiction).
  assert (Hpg : proj g [EvFile g] = [EvFile g])
    by (unfold proj; cbn [filter ev_file]; rewrite N.eqb_refl; reflexivity).
  assert (Hph : forall h, h <> g -> proj h [EvFile g] = []).
  { intros h Hh. unfold proj. cbn [filter ev_file].
    destruct (g =? h)%N eqn:E; [apply N.eqb_eq in E; congruence|reflexivity]. }
  assert (Hf2 : ~ In f newidx2) by (intro H; apply (A3 f H); right; exact Hf).
  unfold seg. split; [exact Hf|].
  split; [rewrite !files_of_app, A1, B1; reflexivity|].
  split.
  { apply NoDup_app_intro; [exact B2| |].
    - apply NoDup_app_intro; [exact A2|constructor; [intros []|constructor]|].
      intros x Hx [<-|[]]. apply (A3 g Hx). left. reflexivity.
    - intros x Hx Hx2. apply (B3 x Hx). apply in_app_or in Hx2. apply in_or_app.
      destruct Hx2 as [H|[<-|[]]]; [left; exact H|right; left; reflexivity]. }
  split.
  { intros h Hh Hi. apply in_app_or in Hh. destruct Hh as [Hh|Hh].
    - apply (B3 h Hh). apply in_or_app. right. right. exact Hi.
    - apply in_app_or in Hh. destruct Hh as [Hh|[<-|[]]].
      + apply (A3 h Hh). right. exact Hi.
      + contradiction. }
  split.
  { rewrite !proj_app, B4, (A6 f Hfg Hf2), (Hph f Hfg), !app_nil_r. reflexivity. }
  split.
  { intros h Hh. rewrite !proj_app. apply in_app_or in Hh. destruct Hh as [Hh|Hh].
    - (* new in the rest *)
      assert (N2 : ~ In h newidx2) by (intro H; apply (B3 h Hh); apply in_or_app; left; exact H).
      assert (Ng : h <> g) by (intro E; subst h; apply (B3 g Hh); apply in_or_app; right; left; reflexivity).
      rewrite (B5 h Hh), (A6 h Ng N2), (Hph h Ng), !app_nil_r. reflexivity.
    - apply in_app_or in Hh. destruct Hh as [Hh|[<-|[]]].
      + (* new below g *)
        assert (Ng : h <> g) by (intro E; subst h; apply (A3 g Hh); left; reflexivity).
        assert (Nf : h <> f) by (intro E; subst h; contradiction).
        assert (N3 : ~ In h newidx3) by (intro H; apply (B3 h H); apply in_or_app; left; exact Hh).
        rewrite (B6 h Nf N3), (A5 h Hh), (Hph h Ng), app_nil_r. reflexivity.
      + (* g itself *)
        assert (N3 : ~ In g newidx3) by (intro H; apply (B3 g H); apply in_or_app; right; left; reflexivity).
        assert (Nf : g <> f) by congruence.
        rewrite (B6 g Nf N3), A4, Hpg. cbn [rev app]. reflexivity. }
  intros h Nf Hn.
  assert (N3 : ~ In h newidx3) by (intro H; apply Hn; apply in_or_app; left; exact H).
  assert (N2 : ~ In h newidx2) by (intro H; apply Hn; apply in_or_app; right; apply in_or_app; left; exact H).
  assert (Ng : h <> g) by (intro E; subst h; apply Hn; apply in_or_app; right; apply in_or_app; right; left; reflexivity).
  rewrite !proj_app, (B6 h Nf N3), (A6 h Ng N2), (Hph h Ng). reflexivity.
Qed.

(** the result of a traversal step: the context grows by a segment *)
Definition grows (f : N) (o : list event) (cx cx' : ictx) : Prop :=
  exists new newidx,
    trace cx' = new ++ trace cx /\ indexed cx' = newidx ++ indexed cx /\
    seg f o (indexed cx) new newidx.

Definition rec_ok (rec : N -> ictx -> outcome ictx) : Prop :=
  forall g cx cx', In g (indexed cx) -> rec g cx = Done cx' -> grows g (full g) cx cx'.

Lemma items_ok : forall rec, rec_ok rec ->
  forall f its cx cx',
    In f (indexed cx) ->
    index_items rec db f its cx = Done cx' ->
    grows f (own f (map_of f) its) cx cx'.
Proof.
  intros rec Hrec f. induction its as [|it r IH]; intros cx cx' Hf H.
  - cbn in H. injection H as <-. exists [], []. split; [reflexivity|]. split; [reflexivity|].
    apply seg_nil. exact Hf.
  - destruct it as [sid reached tgt|nm]; cbn [index_items] in H.
    + destruct reached; [|cbn [own]; apply IH; assumption].
      unfold map_of. destruct (rim db f) as [m|] eqn:Em; [|discriminate]. cbn [own].
      assert (IH' : forall cx cx', In f (indexed cx) -> index_items rec db f r cx = Done cx' ->
                                   grows f (own f m r) cx cx').
      { intros c1 c2 H1 H2. specialize (IH c1 c2 H1 H2). unfold map_of in IH. rewrite Em in IH. exact IH. }
      destruct (im_get sid m) as [g|] eqn:Eg.
      * destruct (memN g (indexed cx)) eqn:Emem; [apply IH'; assumption|].
        apply memN_false in Emem.
        destruct (rec g (enter g cx)) as [cx2| |e] eqn:Er; try discriminate.
        assert (Hg1 : In g (indexed (enter g cx))) by (left; reflexivity).
        destruct (Hrec g _ _ Hg1 Er) as [new2 [newidx2 [T2 [I2 S2]]]].
        cbn [enter indexed trace] in T2, I2, S2.
        assert (Hf2 : In f (indexed cx2)).
        { rewrite I2. apply in_or_app. right. right. exact Hf. }
        destruct (IH' cx2 cx' Hf2 H) as [new3 [newidx3 [T3 [I3 S3]]]].
        rewrite I2 in S3.
        exists (new3 ++ new2 ++ [EvFile g]), (newidx3 ++ newidx2 ++ [g]).
        split; [rewrite T3, T2, <- !app_assoc; reflexivity|].
        split; [rewrite I3, I2, <- !app_assoc; reflexivity|].
        apply seg_enter; assumption.
      * assert (Hf1 : In f (indexed (emit (EvNotFound f sid) cx))) by exact Hf.
        destruct (IH' _ cx' Hf1 H) as [new [newidx [T1 [I1 S1]]]].
        cbn [emit indexed trace] in T1, I1, S1.
        exists (new ++ [EvNotFound f sid]), newidx.
        split; [rewrite T1, <- app_assoc; reflexivity|]. split; [exact I1|].
        apply seg_emit; [reflexivity|reflexivity|exact S1].
    + cbn [own].
      assert (Hf1 : In f (indexed (emit (EvDecl f nm) cx))) by exact Hf.
      destruct (IH _ cx' Hf1 H) as [new [newidx [T1 [I1 S1]]]].
      cbn [emit indexed trace] in T1, I1, S1.
      exists (new ++ [EvDecl f nm]), newidx.
      split; [rewrite T1, <- app_assoc; reflexivity|]. split; [exact I1|].
      apply seg_emit; [reflexivity|reflexivity|exact S1].
Qed.

Lemma index_file_ok : forall n, rec_ok (index_file n db).
Proof.
  induction n as [|n IH]; intros g cx cx' Hg H; [discriminate|].
  cbn [index_file] in H. unfold full, items_of.
  destruct (fc db g) as [c|] eqn:Ec; [|discriminate].
  eapply items_ok; eauto.
Qed.

(** ** the whole index query *)
Definition nf_events (l : list event) : list rng :=
  flat_map (fun e => match e with EvNotFound _ sid => [sid] | _ => [] end) l.
Definition decl_events (l : list event) : list N :=
  flat_map (fun e => match e with EvDecl _ nm => [nm] | _ => [] end) l.

Lemma notfound_proj : forall g tr, notfound_of g tr = nf_events (proj g tr).
Proof.
  intros g tr. induction tr as [|e tr IH]; [reflexivity|].
  destruct e as [f|f nm|f sid]; cbn [notfound_of proj filter ev_file].
  - destruct (f =? g)%N; cbn [nf_events flat_map app]; exact IH.
  - destruct (f =? g)%N; cbn [nf_events flat_map app]; exact IH.
  - destruct (f =? g)%N; cbn [nf_events flat_map app]; fold (nf_events (proj g tr)); rewrite IH; reflexivity.
Qed.

Lemma outline_proj : forall g tr, outline_of g tr = decl_events (proj g tr).
Proof.
  intros g tr. induction tr as [|e tr IH]; [reflexivity|].
  destruct e as [f|f nm|f sid]; cbn [outline_of proj filter ev_file].
  - destruct (f =? g)%N; cbn [decl_events flat_map app]; exact IH.
  - destruct (f =? g)%N; cbn [decl_events flat_map app]; fold (decl_events (proj g tr)); rewrite IH; reflexivity.
  - destruct (f =? g)%N; cbn [decl_events flat_map app]; exact IH.
Qed.

(** specification of the two per-file observations *)
Fixpoint nf_spec (m : list (rng * N)) (its : list item) : list rng :=
  match its with
  | [] => []
  | IInc sid true _ :: r =>
      match im_get sid m with None => sid :: nf_spec m r | Some _ => nf_spec m r end
  | _ :: r => nf_spec m r
  end.

Fixpoint decls (its : list item) : list N :=
  match its with
  | [] => []
  | IDecl nm :: r => nm :: decls r
  | _ :: r => decls r
  end.

Lemma nf_own : forall f m its, nf_events (own f m its) = nf_spec m its.
Proof.
  intros f m. induction its as [|it r IH]; [reflexivity|].
  destruct it as [sid [|] tgt|nm]; cbn [own nf_spec].
  - destruct (im_get sid m); [exact IH|]. cbn [nf_events flat_map app].
    fold (nf_events (own f m r)). rewrite IH. reflexivity.
  - exact IH.
  - cbn [nf_events flat_map app]. exact IH.
Qed.

Lemma decls_own : forall f m its, decl_events (own f m its) = decls its.
Proof.
  intros f m. induction its as [|it r IH]; [reflexivity|].
  destruct it as [sid [|] tgt|nm]; cbn [own decls].
  - destruct (im_get sid m); [exact IH|]. cbn [decl_events flat_map app]. exact IH.
  - exact IH.
  - cbn [decl_events flat_map app]. fold (decl_events (own f m r)). rewrite IH. reflexivity.
Qed.

Theorem index_char : forall fuel tr,
  index fuel db = Done tr ->
  NoDup (files_of tr) /\
  (forall g, In g (files_of tr) ->
     proj g tr = EvFile g :: full g /\
     notfound_of g tr = nf_spec (map_of g) (items_of g) /\
     outline_of g tr = decls (items_of g)) /\
  (forall g, ~ In g (files_of tr) ->
     proj g tr = [] /\ notfound_of g tr = [] /\ outline_of g tr = []).
Proof.
  intros fuel tr H. unfold index in H.
  destruct (sroot db) as [[fset root]|]; [|discriminate].
  destruct (index_file fuel db root {| indexed := [root]; trace := [EvFile root] |}) as [cx| |e] eqn:E;
    try discriminate.
  injection H as <-.
  destruct (index_file_ok fuel root {| indexed := [root]; trace := [EvFile root] |} cx (or_introl eq_refl) E) as [new [newidx [T [I S]]]].
  cbn [indexed trace] in T, I, S.
  destruct S as [S0 [S1 [S2 [S3 [S4 [S5 S6]]]]]].
  assert (Hfiles : files_of (rev (trace cx)) = rev (newidx ++ [root])).
  { rewrite files_of_rev, T, files_of_app, S1. reflexivity. }
  assert (Hproj : forall g, proj g (rev (trace cx)) = rev (proj g new ++ proj g [EvFile root])).
  { intro g. rewrite proj_rev, T, proj_app. reflexivity. }
  assert (Hroot : proj root [EvFile root] = [EvFile root])
    by (unfold proj; cbn [filter ev_file]; rewrite N.eqb_refl; reflexivity).
  assert (Hnr : forall g, g <> root -> proj g [EvFile root] = []).
  { intros g Hg. unfold proj. cbn [filter ev_file].
    destruct (root =? g)%N eqn:Eq; [apply N.eqb_eq in Eq; congruence|reflexivity]. }
  assert (Hrn : ~ In root newidx) by (intro Hi; apply (S3 root Hi); left; reflexivity).
  split; [|split].
  - rewrite Hfiles. apply NoDup_rev. apply NoDup_app_intro; [exact S2|constructor; [intros []|constructor]|].
    intros x Hx [<-|[]]. contradiction.
  - intros g Hg. rewrite Hfiles, <- in_rev in Hg.
    assert (Hp : proj g (rev (trace cx)) = EvFile g :: full g).
    { rewrite Hproj. apply in_app_or in Hg. destruct Hg as [Hg|[<-|[]]].
      - assert (g <> root) by (intro Eq; subst; contradiction).
        rewrite (S5 g Hg), (Hnr g H), app_nil_r, rev_involutive. reflexivity.
      - rewrite S4, Hroot, rev_app_distr, rev_involutive. reflexivity. }
    split; [exact Hp|]. rewrite notfound_proj, outline_proj, Hp.
    cbn [nf_events decl_events flat_map app]. fold (nf_events (full g)). fold (decl_events (full g)).
    unfold full. rewrite nf_own, decls_own. split; reflexivity.
  - intros g Hg. rewrite Hfiles, <- in_rev in Hg.
    assert (Hp : proj g (rev (trace cx)) = []).
    { rewrite Hproj.
      assert (g <> root) by (intro Eq; subst; apply Hg; apply in_or_app; right; left; reflexivity).
      assert (~ In g newidx) by (intro Hi; apply Hg; apply in_or_app; left; exact Hi).
      rewrite (S6 g H H0), (Hnr g H). reflexivity. }
    split; [exact Hp|]. rewrite notfound_proj, outline_proj, Hp. split; reflexivity.
Qed.

(** ** the set of entered files is closed under the reached include statements that are in the map *)
Definition complete (g : N) (idx : list N) : Prop :=
  forall sid tgt t, In (IInc sid true tgt) (items_of g) -> im_get sid (map_of g) = Some t -> In t idx.

Definition grows2 (f : N) (its : list item) (cx cx' : ictx) : Prop :=
  incl (indexed cx) (indexed cx') /\
  (forall sid tgt t, In (IInc sid true tgt) its -> im_get sid (map_of f) = Some t -> In t (indexed cx')) /\
  (forall g, In g (indexed cx') -> ~ In g (indexed cx) -> complete g (indexed cx')).

Definition rec_ok2 (rec : N -> ictx -> outcome ictx) : Prop :=
  forall g cx cx', rec g cx = Done cx' -> grows2 g (items_of g) cx cx'.

Lemma complete_mono : forall g idx idx', complete g idx -> incl idx idx' -> complete g idx'.
Proof. intros g idx idx' H Hi sid tgt t A B. apply Hi. eapply H; eauto. Qed.

Lemma items_ok2 : forall rec, rec_ok2 rec ->
  forall f its cx cx', index_items rec db f its cx = Done cx' -> grows2 f its cx cx'.
Proof.
  intros rec Hrec f. induction its as [|it r IH]; intros cx cx' H.
  - cbn in H. injection H as <-. split; [apply incl_refl|]. split; [intros ? ? ? []|].
    intros g A B. contradiction.
  - destruct it as [sid reached tgt|nm]; cbn [index_items] in H.
    + destruct reached.
      * destruct (rim db f) as [m|] eqn:Em; [|discriminate].
        assert (Hmap : map_of f = m) by (unfold map_of; rewrite Em; reflexivity).
        destruct (im_get sid m) as [g|] eqn:Eg.
        -- destruct (memN g (indexed cx)) eqn:Emem.
           ++ apply memN_true in Emem. destruct (IH _ _ H) as [A [B C]].
              split; [exact A|]. split; [|exact C].
              intros s2 tg t [Hh|Ht] Hm; [|eapply B; eauto].
              injection Hh as <- <-. apply A. rewrite Hmap in Hm. congruence.
           ++ destruct (rec g (enter g cx)) as [cx2| |e] eqn:Er; try discriminate.
              destruct (Hrec g _ _ Er) as [A2 [B2 C2]]. cbn [enter indexed] in A2, C2.
              destruct (IH _ _ H) as [A [B C]].
              assert (Hg2 : In g (indexed cx2)) by (apply A2; left; reflexivity).
              split; [intros x Hx; apply A; apply A2; right; exact Hx|].
              split.
              ** intros s2 tg t [Hh|Ht] Hm; [|eapply B; eauto].
                 injection Hh as <- <-. apply A. rewrite Hmap in Hm. assert (t = g) by congruence. subst t. exact Hg2.
              ** intros h Hh Hn. destruct (in_dec N.eq_dec h (indexed cx2)) as [H2|H2].
                 --- apply complete_mono with (idx := indexed cx2); [|exact A].
                     destruct (N.eq_dec h g) as [->|Hne].
                     +++ intros s2 tg t X Y. eapply B2; eauto.
                     +++ apply C2; [exact H2|]. intros [E|E]; [congruence|contradiction].
                 --- apply C; assumption.
        -- destruct (IH _ _ H) as [A [B C]]. cbn [emit indexed] in A, C.
           split; [exact A|]. split; [|exact C].
           intros s2 tg t [Hh|Ht] Hm; [|eapply B; eauto].
           injection Hh as <- <-. rewrite Hmap in Hm. congruence.
      * destruct (IH _ _ H) as [A [B C]]. split; [exact A|]. split; [|exact C].
        intros s2 tg t [Hh|Ht] Hm; [discriminate|eapply B; eauto].
    + destruct (IH _ _ H) as [A [B C]]. cbn [emit indexed] in A, C.
      split; [exact A|]. split; [|exact C].
      intros s2 tg t [Hh|Ht] Hm; [discriminate|eapply B; eauto].
Qed.

Lemma index_file_ok2 : forall n, rec_ok2 (index_file n db).
Proof.
  induction n as [|n IH]; intros g cx cx' H; [discriminate|].
  cbn [index_file] in H. unfold items_of.
  destruct (fc db g) as [c|] eqn:Ec; [|discriminate].
  eapply items_ok2; eauto.
Qed.

Theorem index_closed : forall fuel fset root tr,
  sroot db = Some (fset, root) ->
  index fuel db = Done tr ->
  In root (files_of tr) /\ forall g, In g (files_of tr) -> complete g (files_of tr).
Proof.
  intros fuel fset root tr S H. unfold index in H. rewrite S in H.
  destruct (index_file fuel db root {| indexed := [root]; trace := [EvFile root] |}) as [cx| |e] eqn:E;
    try discriminate.
  injection H as <-.
  destruct (index_file_ok fuel root {| indexed := [root]; trace := [EvFile root] |} cx (or_introl eq_refl) E)
    as [new [newidx [T [I [_ [S1 _]]]]]].
  cbn [indexed trace] in T, I.
  assert (Hfiles : forall g, In g (files_of (rev (trace cx))) <-> In g (indexed cx)).
  { intro g. rewrite files_of_rev, <- in_rev, T, files_of_app, S1, I. cbn [files_of]. reflexivity. }
  destruct (index_file_ok2 fuel root _ cx E) as [A [B C]]. cbn [indexed] in A, C.
  split; [apply Hfiles; apply A; left; reflexivity|].
  intros g Hg. apply Hfiles in Hg.
  assert (Hc : complete g (indexed cx)).
  { destruct (N.eq_dec g root) as [->|Hne].
    - intros s2 tg t X Y. eapply B; eauto.
    - apply C; [exact Hg|]. intros [Eq|[]]. congruence. }
  intros s2 tg t X Y. apply Hfiles. eapply Hc; eauto.
Qed.

(** ** termination of the traversal *)
Definition unidx (S : list N) (idx : list N) : nat :=
  length (filter (fun f => negb (memN f idx)) S).

Lemma unidx_le_length : forall S idx, unidx S idx <= length S.
Proof.
  intros S idx. unfold unidx. induction S as [|f S IH]; [cbn; lia|].
  cbn [filter]. destruct (negb (memN f idx)); cbn [length]; lia.
Qed.

Lemma unidx_incl : forall S idx idx', (forall x, In x idx -> In x idx') -> unidx S idx' <= unidx S idx.
Proof.
  intros S idx idx' H. unfold unidx. induction S as [|f S IH]; [cbn; lia|].
  cbn [filter]. destruct (memN f idx) eqn:E.
  - apply memN_true in E. apply H in E. apply memN_true in E. rewrite E. cbn [negb]. exact IH.
  - cbn [negb]. destruct (memN f idx'); cbn [negb length]; lia.
Qed.

Lemma unidx_enter : forall S idx g, In g S -> ~ In g idx -> unidx S (g :: idx) < unidx S idx.
Proof.
  intros S idx g Hg Hn. unfold unidx. induction S as [|f S IH]; [contradiction|].
  assert (Hle : length (filter (fun f => negb (memN f (g :: idx))) S)
                <= length (filter (fun f => negb (memN f idx)) S)).
  { apply (unidx_incl S idx (g :: idx)). intros x Hx. right. exact Hx. }
  cbn [filter]. destruct (N.eq_dec f g) as [E|NE].
  - subst f. apply memN_false in Hn. rewrite Hn.
    assert (memN g (g :: idx) = true) by (apply memN_true; left; reflexivity).
    rewrite H. cbn [negb length]. lia.
  - destruct Hg as [Hg|Hg]; [congruence|]. specialize (IH Hg).
    assert (memN f (g :: idx) = memN f idx).
    { unfold memN. cbn [existsb]. destruct (g =? f)%N eqn:E; [apply N.eqb_eq in E; congruence|reflexivity]. }
    rewrite H. destruct (memN f idx); cbn [negb length]; lia.
Qed.

(** the include maps stay inside [S], whose files have a content and an include map *)
Definition closed_in (S : list N) : Prop :=
  forall f, In f S ->
    fc db f <> None /\
    exists m, rim db f = Some m /\ forall sid g, im_get sid m = Some g -> In g S.

Lemma index_term_gen : forall S, closed_in S ->
  forall n f cx, In f S -> In f (indexed cx) -> unidx S (indexed cx) < n ->
  exists cx', index_file n db f cx = Done cx'.
Proof.
  intros S HS. induction n as [|n IH]; intros f cx Hf Hfi Hn; [lia|].
  cbn [index_file]. destruct (HS f Hf) as [Hc [m [Hm Hcl]]].
  destruct (fc db f) as [c|] eqn:Ec; [|congruence]. clear Hc.
  assert (Hn' : unidx S (indexed cx) <= n) by lia. clear Hn.
  generalize dependent cx. generalize (c_items c) as its.
  induction its as [|it r IHr]; intros cx Hfi Hn; [eexists; reflexivity|].
  destruct it as [sid reached tgt|nm]; cbn [index_items].
  - destruct reached; [|apply IHr; assumption]. rewrite Hm.
    destruct (im_get sid m) as [g|] eqn:Eg; [|apply IHr; assumption].
    destruct (memN g (indexed cx)) eqn:Emem; [apply IHr; assumption|].
    apply memN_false in Emem. pose proof (Hcl sid g Eg) as HgS.
    pose proof (unidx_enter S (indexed cx) g HgS Emem) as Hlt.
    destruct (IH g (enter g cx) HgS (or_introl eq_refl)) as [cx2 E2]; [cbn [enter indexed]; lia|].
    rewrite E2.
    destruct (index_file_ok n g (enter g cx) cx2 (or_introl eq_refl) E2) as [new [newidx [_ [I2 _]]]].
    cbn [enter indexed] in I2.
    apply IHr.
    + rewrite I2. apply in_or_app. right. right. exact Hfi.
    + assert (unidx S (indexed cx2) <= unidx S (indexed cx)); [|lia].
      apply unidx_incl. intros x Hx. rewrite I2. apply in_or_app. right. right. exact Hx.
  - apply IHr; assumption.
Qed.

Theorem index_terminates : forall S fset root fuel,
  sroot db = Some (fset, root) -> In root S -> closed_in S ->
  length S < fuel ->
  exists tr, index fuel db = Done tr.
Proof.
  intros S fset root fuel Hs Hr HS Hf. unfold index. rewrite Hs.
  destruct (index_term_gen S HS fuel root {| indexed := [root]; trace := [EvFile root] |} Hr
              (or_introl eq_refl)) as [cx E].
  - pose proof (unidx_le_length S [root]). cbn [indexed]. lia.
  - rewrite E. eexists. reflexivity.
Qed.

End Index.
