(** C03, indexer part (group bridge): the indexer model (model/Scope.v, BangOps.v, Indexer.v) never reaches a
    modelled panic and never runs out of fuel.  This file: the invariant, the Hoare-style triple [tot] and its
    rules for the monad combinators and for every primitive of Scope.v.

    Modelled panic sites = the places where Scope.v / Indexer.v set [s_bad]:
      pop_scope / scopes_add_variable on an empty scope stack   (scope.rs `expect("scope is empty")`)
      pop_file on an empty file trace                           (context.rs)
      record_mut / multiclass_mut on an unallocated id          (arena indexing)
      index_parents / index_targ / index_item (FieldDef, FieldLet) outside of a record / multiclass / defm scope
                                                                (`expect("... outside of record")`, `unreachable!`)
      fuel exhaustion of index_value & co / index_stmt          (the Rust recursion)
    [Good s]: no panic so far, the file trace and the scope stack are non-empty, and every record / multiclass id
    on the scope stack is allocated.  [Step s s']: what every `index` function guarantees between its start and its
    end: the KINDS of the scope stack and the file trace are restored, the arenas and the set of indexed files only
    grow. *)
From Coq Require Import List NArith Bool Lia PeanoNat.
From TG.Model Require Import CoreAst Scope BangOps Indexer.
Import ListNotations.
Open Scope N_scope.

Definition kinds (s : st) : list skind := map sc_kind (s_scopes s).
Definition nrec (s : st) : N := lenN (s_recs s).
Definition nmc (s : st) : N := lenN (s_mcs s).
Definition kind_ok (s : st) (k : skind) : Prop :=
  match k with KRecord i => i < nrec s | KMulticlass i => i < nmc s | _ => True end.

Definition Good (s : st) : Prop :=
  s_bad s = false /\ s_trace s <> [] /\ kinds s <> [] /\ Forall (kind_ok s) (kinds s).
Definition Step (s s' : st) : Prop :=
  kinds s' = kinds s /\ s_trace s' = s_trace s /\ nrec s <= nrec s' /\ nmc s <= nmc s' /\
  incl (s_indexed s) (s_indexed s').

Lemma Step_refl s : Step s s.
Proof. repeat split; try reflexivity; try lia. apply incl_refl. Qed.
Lemma Step_trans a b c : Step a b -> Step b c -> Step a c.
Proof.
  intros (K1 & T1 & R1 & M1 & I1) (K2 & T2 & R2 & M2 & I2). repeat split; try congruence; try lia.
  eapply incl_tran; eassumption.
Qed.

Lemma kind_ok_mono s s' k : nrec s <= nrec s' -> nmc s <= nmc s' -> kind_ok s k -> kind_ok s' k.
Proof. intros R M. destruct k; cbn [kind_ok]; auto; lia. Qed.

Definition tot {A} (P : st -> Prop) (m : M A) (Q : A -> st -> Prop) : Prop :=
  forall s, Good s -> P s ->
    Good (snd (m s)) /\ Step s (snd (m s)) /\ (forall x, fst (m s) = Some x -> Q x (snd (m s))).
Definition stable (P : st -> Prop) : Prop := forall s s', Step s s' -> P s -> P s'.
Definition anyv {A} : A -> st -> Prop := fun _ _ => True.
Definition top : st -> Prop := fun _ => True.

Lemma stable_top : stable top. Proof. intros s s' _ _. exact I. Qed.
Lemma stable_and P Q : stable P -> stable Q -> stable (fun s => P s /\ Q s).
Proof. intros HP HQ s s' E [p q]. split; [eapply HP|eapply HQ]; eauto. Qed.
Lemma stable_const (X : Prop) : stable (fun _ => X).
Proof. intros s s' _ x. exact x. Qed.
Lemma stable_anyv A (x : A) : stable (anyv x).
Proof. intros s s' _ _. exact I. Qed.

(** * Structural rules *)
Lemma tot_pre A (P P' : st -> Prop) (m : M A) Q : (forall s, Good s -> P' s -> P s) -> tot P m Q -> tot P' m Q.
Proof. intros H T s G p. apply T; auto. Qed.
Lemma tot_post A (P : st -> Prop) (m : M A) (Q Q' : A -> st -> Prop) :
  (forall x s, Q x s -> Q' x s) -> tot P m Q -> tot P m Q'.
Proof. intros H T s G p. destruct (T s G p) as (G' & S' & q). split; [exact G'|split; [exact S'|intros x E; apply H, q, E]]. Qed.
Lemma tot_any A (P : st -> Prop) (m : M A) Q : tot P m Q -> tot P m anyv.
Proof. apply tot_post. intros; exact I. Qed.

Lemma tot_ret A (x : A) (P : st -> Prop) (Q : A -> st -> Prop) : (forall s, Good s -> P s -> Q x s) -> tot P (ret x) Q.
Proof. intros H s G p. cbn [ret fst snd]. split; [exact G|split; [apply Step_refl|intros y E; inversion E; subst; auto]]. Qed.
Lemma tot_ret_any A (x : A) (P : st -> Prop) : tot P (ret x) anyv.
Proof. apply tot_ret. intros; exact I. Qed.
Lemma tot_none A (P : st -> Prop) (Q : A -> st -> Prop) : tot P none Q.
Proof. intros s G p. cbn [none fst snd]. split; [exact G|split; [apply Step_refl|intros y E; discriminate]]. Qed.
Lemma tot_lift A (o : option A) (P : st -> Prop) : tot P (lift o) anyv.
Proof. intros s G p. cbn [lift fst snd]. split; [exact G|split; [apply Step_refl|intros y E; exact I]]. Qed.
Lemma tot_get A (f : st -> A) (P : st -> Prop) (Q : A -> st -> Prop) :
  (forall s, Good s -> P s -> Q (f s) s) -> tot P (get f) Q.
Proof. intros H s G p. cbn [get fst snd]. split; [exact G|split; [apply Step_refl|intros y E; inversion E; subst; auto]]. Qed.
Lemma tot_get_any A (f : st -> A) (P : st -> Prop) : tot P (get f) anyv.
Proof. apply tot_get. intros; exact I. Qed.
(** [state] delivers a snapshot with the same scope kinds as every later state *)
Lemma tot_state (P : st -> Prop) : tot P state (fun x s => kinds x = kinds s).
Proof. apply tot_get. reflexivity. Qed.

Lemma tot_bind A B (m : M A) (f : A -> M B) (P : st -> Prop) Q1 Q2 :
  stable P -> tot P m Q1 -> (forall x, tot (fun s => P s /\ Q1 x s) (f x) Q2) -> tot P (bind m f) Q2.
Proof.
  intros SP Tm Tf s G p. unfold bind. destruct (Tm s G p) as (G1 & S1 & q1).
  destruct (m s) as [[x|] s1]; cbn [fst snd] in *.
  - destruct (Tf x s1 G1 (conj (SP _ _ S1 p) (q1 x eq_refl))) as (G2 & S2 & q2).
    split; [exact G2|split; [eapply Step_trans; eauto|exact q2]].
  - split; [exact G1|split; [exact S1|intros y E; discriminate]].
Qed.
Lemma tot_bind_any A B (m : M A) (f : A -> M B) (P : st -> Prop) Q1 Q2 :
  stable P -> tot P m Q1 -> (forall x, tot P (f x) Q2) -> tot P (bind m f) Q2.
Proof.
  intros SP Tm Tf. eapply tot_bind; [exact SP|exact Tm|]. intros x. eapply tot_pre; [|apply Tf]. intros s _ [p _]. exact p.
Qed.
Lemma tot_seq A B (m : M A) (k : M B) (P : st -> Prop) Q1 Q2 :
  stable P -> tot P m Q1 -> tot P k Q2 -> tot P (seq m k) Q2.
Proof.
  intros SP Tm Tk s G p. unfold seq. destruct (Tm s G p) as (G1 & S1 & _).
  destruct (Tk _ G1 (SP _ _ S1 p)) as (G2 & S2 & q2). split; [exact G2|split; [eapply Step_trans; eauto|exact q2]].
Qed.
Lemma tot_try A (m : M A) (P : st -> Prop) Q : tot P m Q -> tot P (try_ m) anyv.
Proof.
  intros T s G p. unfold try_. destruct (T s G p) as (G1 & S1 & _). destruct (m s) as [o s1]. cbn [fst snd] in *.
  split; [exact G1|split; [exact S1|intros; exact I]].
Qed.
Lemma tot_iterM A B (f : A -> M B) l (P : st -> Prop) :
  stable P -> (forall x, In x l -> tot P (f x) anyv) -> tot P (iterM f l) anyv.
Proof.
  intros SP. induction l as [|x r IH]; intros H; cbn [iterM]; [apply tot_ret_any|].
  eapply tot_seq; [exact SP|apply H; left; reflexivity|apply IH; intros y Hy; apply H; right; exact Hy].
Qed.
Lemma tot_mapM_opt A B (f : A -> M B) l (P : st -> Prop) :
  stable P -> (forall x, In x l -> tot P (f x) anyv) -> tot P (mapM_opt f l) anyv.
Proof.
  intros SP. induction l as [|x r IH]; intros H; cbn [mapM_opt]; [apply tot_ret_any|].
  eapply tot_bind_any; [exact SP|eapply tot_try; apply H; left; reflexivity|]. intros o.
  eapply tot_bind_any; [exact SP|apply IH; intros y Hy; apply H; right; exact Hy|]. intros os. apply tot_ret_any.
Qed.

(** * Primitives that keep bad / trace / scopes / indexed and only grow the arenas *)
Definition same_core (s s' : st) : Prop :=
  s_bad s' = s_bad s /\ s_trace s' = s_trace s /\ s_scopes s' = s_scopes s /\ s_indexed s' = s_indexed s /\
  nrec s <= nrec s' /\ nmc s <= nmc s'.

Lemma same_core_good s s' : same_core s s' -> Good s -> Good s' /\ Step s s'.
Proof.
  intros (B & T & SC & I & R & M) (G1 & G2 & G3 & G4). unfold Good, Step, kinds in *. rewrite B, T, SC, I.
  repeat split; auto using incl_refl. eapply Forall_impl; [|exact G4]. intros k. apply kind_ok_mono; assumption.
Qed.

Lemma tot_same A (m : M A) (P : st -> Prop) (Q : A -> st -> Prop) :
  (forall s, same_core s (snd (m s))) -> (forall s x, Good s -> P s -> fst (m s) = Some x -> Q x (snd (m s))) -> tot P m Q.
Proof. intros H HQ s G p. destruct (same_core_good _ _ (H s) G) as (G' & S'). split; [exact G'|split; [exact S'|intros x E; eapply HQ; eauto]]. Qed.

Lemma same_core_refl s : same_core s s.
Proof. unfold same_core. repeat split; lia. Qed.

Lemma add_pos_fields r id s :
  s_bad (add_pos r id s) = s_bad s /\ s_trace (add_pos r id s) = s_trace s /\ s_scopes (add_pos r id s) = s_scopes s /\
  s_indexed (add_pos r id s) = s_indexed s /\ s_recs (add_pos r id s) = s_recs s /\ s_mcs (add_pos r id s) = s_mcs s.
Proof. unfold add_pos. destruct (rng_empty r); repeat split; reflexivity. Qed.

Lemma lenN_app1 A (l : list A) x : lenN (l ++ [x]) = lenN l + 1.
Proof. unfold lenN. rewrite app_length. cbn [length]. lia. Qed.

Lemma tot_error r k P : tot P (error r k) anyv.
Proof. apply tot_same; [intros s; unfold same_core, nrec, nmc; cbn; repeat split; lia|intros; exact I]. Qed.
Lemma tot_here r P : tot P (here r) anyv. Proof. apply tot_get_any. Qed.
Lemma tot_err r k P : stable P -> tot P (err r k) anyv.
Proof. intros SP. unfold err. eapply tot_bind_any; [exact SP|apply tot_here|]. intros; apply tot_error. Qed.
Lemma tot_emit l P : stable P -> tot P (emit l) anyv.
Proof. intros SP. unfold emit. apply tot_iterM; [exact SP|]. intros; apply tot_err; exact SP. Qed.
Lemma tot_leaf_of i P : stable P -> tot P (leaf_of i) anyv.
Proof. intros SP. unfold leaf_of. eapply tot_bind_any; [exact SP|apply tot_state|]. intros; apply tot_lift. Qed.
Lemma tot_next_anonymous P : tot P next_anonymous anyv.
Proof. apply tot_same; [intros s; unfold same_core, nrec, nmc; cbn; repeat split; lia|intros; exact I]. Qed.

Lemma tot_add_reference id l P : tot P (add_reference id l) anyv.
Proof.
  apply tot_same; [|intros; exact I]. intros s. unfold add_reference, upd. cbn [snd].
  destruct (add_pos_fields l id (set_refs ((id, l) :: s_refs s) (set_uses ((l, define_loc s id) :: s_uses s) s))) as (B & T & SC & I & R & M).
  unfold same_core, nrec, nmc. rewrite B, T, SC, I, R, M. cbn. repeat split; lia.
Qed.

Lemma tot_add_record n c l P : tot P (add_record n c l) (fun id s => id < nrec s).
Proof.
  apply tot_same.
  - intros s. unfold add_record. cbn [snd].
    match goal with |- same_core s (add_pos l ?i ?x) => destruct (add_pos_fields l i x) as (B & T & SC & I & R & M) end.
    unfold same_core, nrec, nmc. rewrite B, T, SC, I, R, M. destruct c; cbn; rewrite lenN_app1; repeat split; lia.
  - intros s x _ _ E. unfold add_record in *. cbn [fst snd] in *. inversion E; subst x.
    match goal with |- _ < nrec (add_pos l ?i ?x) => destruct (add_pos_fields l i x) as (_ & _ & _ & _ & R & _) end.
    unfold nrec. rewrite R. destruct c; cbn; rewrite lenN_app1; lia.
Qed.
Lemma tot_add_anonymous_def n l P : tot P (add_anonymous_def n l) (fun id s => id < nrec s).
Proof.
  apply tot_same.
  - intros s. unfold add_anonymous_def, same_core, nrec, nmc. cbn. rewrite lenN_app1. repeat split; lia.
  - intros s x _ _ E. unfold add_anonymous_def in *. cbn [fst snd] in *. inversion E; subst x. unfold nrec. cbn. rewrite lenN_app1. lia.
Qed.
Lemma tot_add_leaf l P : tot P (add_leaf l) anyv.
Proof.
  apply tot_same; [|intros; exact I]. intros s. unfold add_leaf. cbn [snd].
  match goal with |- same_core s (add_pos ?r ?i ?x) => destruct (add_pos_fields r i x) as (B & T & SC & I & R & M) end.
  unfold same_core, nrec, nmc. rewrite B, T, SC, I, R, M. cbn. repeat split; lia.
Qed.
Lemma tot_add_leaf_nopos l P : tot P (add_leaf_nopos l) anyv.
Proof. apply tot_same; [|intros; exact I]. intros s. unfold add_leaf_nopos, same_core, nrec, nmc. cbn. repeat split; lia. Qed.
Lemma tot_add_defset l P : tot P (add_defset l) anyv.
Proof.
  apply tot_same; [|intros; exact I]. intros s. unfold add_defset. cbn [snd].
  match goal with |- same_core s (add_pos ?r ?i ?x) => destruct (add_pos_fields r i x) as (B & T & SC & I & R & M) end.
  unfold same_core, nrec, nmc. rewrite B, T, SC, I, R, M. cbn. repeat split; lia.
Qed.
Lemma tot_add_multiclass n l P : tot P (add_multiclass n l) (fun id s => id < nmc s).
Proof.
  apply tot_same.
  - intros s. unfold add_multiclass. cbn [snd].
    match goal with |- same_core s (add_pos l ?i ?x) => destruct (add_pos_fields l i x) as (B & T & SC & I & R & M) end.
    unfold same_core, nrec, nmc. rewrite B, T, SC, I, R, M. cbn. rewrite lenN_app1. repeat split; lia.
  - intros s x _ _ E. unfold add_multiclass in *. cbn [fst snd] in *. inversion E; subst x.
    match goal with |- _ < nmc (add_pos l ?i ?x) => destruct (add_pos_fields l i x) as (_ & _ & _ & _ & _ & M) end.
    unfold nmc. rewrite M. cbn. rewrite lenN_app1. lia.
Qed.

Lemma length_set_nth A n (f : A -> A) : forall l, length (set_nth n f l) = length l.
Proof. induction n; intros [|x l]; cbn [set_nth length]; auto. Qed.
Lemma nthN_some_lt A (l : list A) i : i < lenN l -> nthN l i <> None.
Proof. unfold nthN, lenN. intros H. apply nth_error_Some. lia. Qed.

(** record_mut / multiclass_mut do not panic on an allocated id *)
Lemma tot_record_mut id f (P : st -> Prop) : (forall s, Good s -> P s -> id < nrec s) -> tot P (record_mut id f) anyv.
Proof.
  intros H s G p. unfold record_mut. pose proof (nthN_some_lt _ _ _ (H s G p)) as NN.
  destruct (nthN (s_recs s) id); [|contradiction]. cbn [fst snd].
  assert (SC : same_core s (set_recs (set_nth (N.to_nat id) f (s_recs s)) s)).
  { unfold same_core, nrec, nmc, lenN. cbn. rewrite length_set_nth. repeat split; lia. }
  destruct (same_core_good _ _ SC G) as (G' & S'). split; [exact G'|split; [exact S'|intros; exact I]].
Qed.
Lemma tot_multiclass_mut id f (P : st -> Prop) : (forall s, Good s -> P s -> id < nmc s) -> tot P (multiclass_mut id f) anyv.
Proof.
  intros H s G p. unfold multiclass_mut. pose proof (nthN_some_lt _ _ _ (H s G p)) as NN.
  destruct (nthN (s_mcs s) id); [|contradiction]. cbn [fst snd].
  assert (SC : same_core s (set_mcs (set_nth (N.to_nat id) f (s_mcs s)) s)).
  { unfold same_core, nrec, nmc, lenN. cbn. rewrite length_set_nth. repeat split; lia. }
  destruct (same_core_good _ _ SC G) as (G' & S'). split; [exact G'|split; [exact S'|intros; exact I]].
Qed.

(** * Scopes *)
Lemma tot_scopes_add_variable l P : tot P (scopes_add_variable l) anyv.
Proof.
  intros s G p. unfold scopes_add_variable, bind.
  pose proof (tot_add_leaf l P s G p) as (G1 & S1 & _). destruct (add_leaf l s) as [[id|] s1] eqn:E; cbn [fst snd] in *.
  2:{ unfold add_leaf in E. inversion E. }
  destruct G1 as (B1 & T1 & K1 & F1). unfold kinds in K1. destruct (s_scopes s1) as [|c t] eqn:SC; [contradiction|].
  cbn [fst snd].
  assert (G2 : Good (set_scopes (mkScope (sc_kind c) ((lf_name l, id) :: sc_vars c) :: t) s1) /\
               Step s1 (set_scopes (mkScope (sc_kind c) ((lf_name l, id) :: sc_vars c) :: t) s1)).
  { unfold Good, Step, kinds, nrec, nmc in *. rewrite SC in *. cbn in *. repeat split; auto using incl_refl; try lia; try discriminate. }
  destruct G2 as (G2 & S2). split; [exact G2|split; [eapply Step_trans; eauto|intros; exact I]].
Qed.

Lemma kinds_push k s : kinds (set_scopes (mkScope k [] :: s_scopes s) s) = k :: kinds s.
Proof. reflexivity. Qed.

(** `scopes.push(k); body; scopes.pop()`: the body runs one scope deeper; the pop never finds the stack empty *)
Lemma tot_scoped A k (body : M A) (P P' : st -> Prop) Q :
  (forall s, Good s -> P s -> kind_ok s k) ->
  (forall s, Good s -> P s -> P' (snd (push_scope k s))) ->
  tot P' body Q -> tot P (scoped k body) anyv.
Proof.
  intros HK HP TB s G p. unfold scoped, seq, bind, try_, push_scope, upd. cbn [snd].
  set (s1 := set_scopes (mkScope k [] :: s_scopes s) s).
  assert (G1 : Good s1).
  { destruct G as (B & T & K & F). unfold Good. change (kinds s1) with (k :: kinds s).
    split; [exact B|split; [exact T|split; [discriminate|]]].
    constructor; [apply (HK s); [repeat split; auto|exact p]|exact F]. }
  assert (P1 : P' s1) by (apply (HP s G p)).
  destruct (TB s1 G1 P1) as (G2 & S2 & _). destruct (body s1) as [o s2]. cbn [fst snd] in *.
  destruct S2 as (K2 & T2 & R2 & M2 & I2). change (kinds s1) with (k :: kinds s) in K2.
  destruct G2 as (B2 & Tr2 & Kn2 & F2). unfold pop_scope. unfold kinds in K2.
  destruct (s_scopes s2) as [|c t] eqn:SC; [discriminate|]. cbn [fst snd map] in *. inversion K2 as [[Hk Ht]].
  assert (G3 : Good (set_scopes t s2) /\ Step s (set_scopes t s2)).
  { destruct G as (B & T & K & F). unfold Good, Step, kinds, nrec, nmc in *. cbn. rewrite SC in F2. cbn [map] in F2. inversion F2; subst.
    rewrite Ht. repeat split; auto. rewrite Ht in H2. eapply Forall_impl; [|exact H2]. intros k0 Hk0. destruct k0; exact Hk0. }
  destruct G3 as (G3 & S3). destruct o; cbn [lift fst snd]; (split; [exact G3|split; [exact S3|intros; exact I]]).
Qed.

(** * Contexts: what depends only on the scope kinds *)
Definition kind_record_id (k : skind) : option N := match k with KRecord i => Some i | _ => None end.
Definition kind_mc_id (k : skind) : option N := match k with KMulticlass i => Some i | _ => None end.
Definition kind_defm_id (k : skind) : option N := match k with KDefm i => Some i | _ => None end.

Lemma find_map_map A B C (g : A -> B) (h : B -> option C) : forall l, find_map (fun x => h (g x)) l = find_map h (map g l).
Proof. induction l as [|x l IH]; cbn [find_map map]; [reflexivity|]. destruct (h (g x)); [reflexivity|exact IH]. Qed.

Lemma current_record_kinds s : current_record_id s = find_map kind_record_id (kinds s).
Proof. unfold current_record_id, kinds. rewrite <- find_map_map. reflexivity. Qed.
Lemma current_multiclass_kinds s : current_multiclass_id s = find_map kind_mc_id (kinds s).
Proof. unfold current_multiclass_id, kinds. rewrite <- find_map_map. reflexivity. Qed.
Lemma current_defm_kinds s : current_defm_id s = find_map kind_defm_id (kinds s).
Proof. unfold current_defm_id, kinds. rewrite <- find_map_map. reflexivity. Qed.

Lemma current_record_ok s rid : Good s -> current_record_id s = Some rid -> rid < nrec s.
Proof.
  intros (_ & _ & _ & F). rewrite current_record_kinds. induction (kinds s) as [|k l IH]; cbn [find_map]; [discriminate|].
  inversion F; subst. destruct k; cbn [kind_record_id]; auto. intros E. inversion E; subst. assumption.
Qed.
Lemma current_multiclass_ok s mid : Good s -> current_multiclass_id s = Some mid -> mid < nmc s.
Proof.
  intros (_ & _ & _ & F). rewrite current_multiclass_kinds. induction (kinds s) as [|k l IH]; cbn [find_map]; [discriminate|].
  inversion F; subst. destruct k; cbn [kind_mc_id]; auto. intros E. inversion E; subst. assumption.
Qed.

(** a predicate on the scope kinds is stable *)
Lemma stable_kinds (F : list skind -> Prop) : stable (fun s => F (kinds s)).
Proof. intros s s' (K & _) H. rewrite K. exact H. Qed.
Lemma stable_lt_nrec i : stable (fun s => i < nrec s).
Proof. intros s s' (_ & _ & R & _) H. lia. Qed.
Lemma stable_lt_nmc i : stable (fun s => i < nmc s).
Proof. intros s s' (_ & _ & _ & M & _) H. lia. Qed.
Lemma stable_kinds_eq x : stable (fun s => kinds x = kinds s).
Proof. intros s s' (K & _) H. congruence. Qed.
