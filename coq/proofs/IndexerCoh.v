(** IndexerCoh (group symmap, bridge to group scope): coherence (C06) of the symbol-map state [abs s] that the
    indexer model reaches, PROVED from the structure of the program instead of checked on an op log:
    - name agreement and token-ness of every definition / reference (side conditions of [op_coh_ok]) follow from
      "every identifier of the AST is an identifier token with its text" ([stmt_ok], the output condition of the
      tree -> CoreAst bridge) and from the invariant [Names] (every lookup structure of the indexer maps a name to
      a symbol with that name whose definition is keyed in the position log);
    - the single-visit condition (a range is keyed at most once, except the `let` pair) is isolated as the
      decidable predicate [log_fresh] on the position log of the final state.
    Scope: single-file workspaces (the include stack stays [0]).  One Hoare-style traversal of Indexer.v. *)
From Coq Require Import List Arith NArith Bool Lia.
From TG.Model Require Import CoreAst Scope BangOps Indexer IndexerOps.
From TG.Model Require SymbolMap SymbolWf.
From TG.Proofs Require Import IndexerValid IndexerSim IndexerAbs.
From TG.Proofs Require SymbolMapBasics SymbolOps SymbolCoh ScopeFrame.
Import ListNotations.
Open Scope N_scope.

Module C := SymbolCoh.

Section WithToks.
Variable toks : list W.tok.
Hypothesis toks_ne : C.toks_nonempty toks.

(** ---- names and definitions of the indexer model's symbols *)
Definition sym_name (s : st) (a : symid) : option name :=
  match a with
  | SyRecord i => option_map rc_name (nthN (s_recs s) i)
  | SyMc i => option_map mc_name (nthN (s_mcs s) i)
  | SyLeaf i => option_map lf_name (nthN (s_leaves s) i)
  end.

Lemma name_eqb_eq : forall a b, name_eqb a b = true <-> a = b.
Proof.
  induction a as [|x a IH]; destruct b as [|y b]; cbn; split; intros H; try reflexivity; try discriminate.
  - apply andb_true_iff in H. destruct H as [H1 H2]. apply N.eqb_eq in H1. apply IH in H2. subst. reflexivity.
  - inversion H. subst. rewrite N.eqb_refl. cbn. apply IH. reflexivity.
Qed.
Lemma rng_eqb_eq : forall a b, rng_eqb a b = true <-> a = b.
Proof.
  intros [f1 l1 h1] [f2 l2 h2]. unfold rng_eqb. cbn. rewrite !andb_true_iff, !N.eqb_eq. split.
  - intros [[H1 H2] H3]. subst. reflexivity.
  - intros H. inversion H. auto.
Qed.
Lemma cv_inj : forall a b, cv a = cv b -> a = b.
Proof. intros [f1 l1 h1] [f2 l2 h2] H. inversion H. reflexivity. Qed.

(** a symbol that lookups may return: allocated, named [nm], defined at an identifier token with text [nm],
    and its definition is keyed in the position log *)
Definition GoodSym (s : st) (a : symid) (nm : name) : Prop :=
  sym_ok s a /\ sym_name s a = Some nm /\
  exists d, define_loc s a = Some d /\ W.tok_name toks (cv d) = Some nm /\ In (d, a) (s_pos s).

Definition good_map (s : st) (mk : N -> symid) (m : list (name * N)) : Prop :=
  Forall (fun e => GoodSym s (mk (snd e)) (fst e)) m.
Definition good_scope (s : st) (c : scope) : Prop :=
  good_map s SyLeaf (sc_vars c) /\ match sc_kind c with KForeach n v => GoodSym s (SyLeaf v) n | _ => True end.

Record Names (s : st) : Prop := {
  n_class : good_map s SyRecord (s_nclass s);
  n_def : good_map s SyRecord (s_ndef s);
  n_mc : good_map s SyMc (s_nmc s);
  n_dset : good_map s SyLeaf (s_ndset s);
  n_scopes : Forall (good_scope s) (s_scopes s);
  n_recs : Forall (fun r => good_map s SyLeaf (rc_targs r) /\ good_map s SyLeaf (rc_fields r)) (s_recs s);
  n_mcs : Forall (fun m => good_map s SyLeaf (mc_targs m)) (s_mcs s) }.

(** the single-visit condition [log_fresh] on the position log is defined in model/IndexerOps.v (it is executable and
    evaluated by the bridge driver on every generated Core workspace) *)
Definition CohC (s : st) : Prop := log_fresh s = true -> C.Coh toks (abs s).

(** ---- invariant and extension order of the logic.  [cf] is the file whose statements are being indexed, [stk] the rest of
    the include stack; every file on the stack has been marked as indexed. *)
Section AtFile.
Variables (cf : N) (stk : list N).
Definition Idx (s : st) : Prop := Forall (fun f => In f (s_indexed s)) (cf :: stk).
Definition Inv3 (s : st) : Prop :=
  Valid s /\ Names s /\ CohC s /\ s_trace s = cf :: stk /\ Idx s.

Definition stable (s s' : st) : Prop :=
  forall a, sym_ok s a -> sym_name s' a = sym_name s a /\ define_loc s' a = define_loc s a.
Definition ext3 (s s' : st) : Prop :=
  ext s s' /\ stable s s' /\ exists l, s_pos s' = l ++ s_pos s.

Lemma ext3_refl : forall s, ext3 s s.
Proof. intros s. split; [apply ext_refl|]. split; [intros a _; auto|exists []; reflexivity]. Qed.
Lemma ext3_trans : forall a b c, ext3 a b -> ext3 b c -> ext3 a c.
Proof.
  intros a b c (E1 & S1 & [l1 P1]) (E2 & S2 & [l2 P2]). split; [eapply ext_trans; eassumption|]. split.
  - intros x Hx. destruct (S1 x Hx) as [H1 H2]. destruct (S2 x (sym_ok_mono _ _ _ E1 Hx)) as [H3 H4]. split; congruence.
  - exists (l2 ++ l1). rewrite P2, P1, app_assoc. reflexivity.
Qed.

Lemma GoodSym_mono : forall s s' a nm, ext3 s s' -> GoodSym s a nm -> GoodSym s' a nm.
Proof.
  intros s s' a nm (E & S & [l P]) (H1 & H2 & d & H3 & H4 & H5). destruct (S a H1) as [Sn Sd].
  split; [eapply sym_ok_mono; eassumption|]. split; [congruence|]. exists d. split; [congruence|]. split; [exact H4|].
  rewrite P. apply in_or_app. right. exact H5.
Qed.
Lemma good_map_mono : forall s s' mk m, ext3 s s' -> good_map s mk m -> good_map s' mk m.
Proof. intros s s' mk m E. apply Forall_impl. intros e. apply GoodSym_mono. exact E. Qed.

(** ---- Hoare logic over [Inv3] / [ext3] (same rules as in IndexerValid.v) *)
Definition h3 {A} (P : st -> Prop) (m : M A) (Q : A -> st -> Prop) : Prop :=
  forall s, Inv3 s -> P s ->
    Inv3 (snd (m s)) /\ ext3 s (snd (m s)) /\ (forall x, fst (m s) = Some x -> Q x (snd (m s))).
Definition mono3 (P : st -> Prop) : Prop := forall s s', ext3 s s' -> P s -> P s'.

Lemma mono3_top : mono3 top. Proof. intros s s' _ _. exact I. Qed.
Lemma mono3_and : forall P Q, mono3 P -> mono3 Q -> mono3 (fun s => P s /\ Q s).
Proof. intros P Q HP HQ s s' He [H1 H2]. split; [eapply HP|eapply HQ]; eassumption. Qed.
Lemma mono3_pure : forall (X : Prop), mono3 (fun _ => X).
Proof. intros X s s' _ H. exact H. Qed.
Lemma mono3_good : forall a nm, mono3 (fun s => GoodSym s a nm).
Proof. intros a nm s s' He H. eapply GoodSym_mono; eassumption. Qed.
Lemma mono3_snap : forall x, mono3 (fun s => Inv3 x /\ ext3 x s).
Proof. intros x s s' He [H1 H2]. split; [exact H1|eapply ext3_trans; eassumption]. Qed.
Lemma mono3_lt_nrec : forall i, mono3 (fun s => i < nrec s).
Proof. intros i s s' ((H1 & _) & _) H. lia. Qed.
Lemma mono3_lt_nmc : forall i, mono3 (fun s => i < nmc s).
Proof. intros i s s' ((_ & H1 & _) & _) H. lia. Qed.
Lemma mono3_lt_nleaf : forall i, mono3 (fun s => i < nleaf s).
Proof. intros i s s' ((_ & _ & H1) & _) H. lia. Qed.
Lemma mono3_opt : forall A (o : option A) (Q : A -> st -> Prop),
  (forall x, mono3 (Q x)) -> mono3 (fun s => forall x, o = Some x -> Q x s).
Proof. intros A o Q H s s' He Hq x Hx. eapply H; [exact He|apply Hq; exact Hx]. Qed.
Lemma mono3_anyv : forall A (x : A), mono3 (anyv x).
Proof. intros A x s s' _ _. exact I. Qed.

Lemma h3_pre : forall A (P P' : st -> Prop) (m : M A) Q,
  (forall s, Inv3 s -> P s -> P' s) -> h3 P' m Q -> h3 P m Q.
Proof. intros A P P' m Q H Hm s Hv Hp. apply Hm; [exact Hv|apply H; assumption]. Qed.
Lemma h3_post : forall A (P : st -> Prop) (m : M A) (Q Q' : A -> st -> Prop),
  (forall x s, Inv3 s -> Q x s -> Q' x s) -> h3 P m Q -> h3 P m Q'.
Proof.
  intros A P m Q Q' H Hm s Hv Hp. destruct (Hm s Hv Hp) as (H1 & H2 & H3).
  split; [exact H1|]. split; [exact H2|]. intros x Hx. apply H; [exact H1|apply H3; exact Hx].
Qed.
Lemma h3_any : forall A (P : st -> Prop) (m : M A) Q, h3 P m Q -> h3 P m anyv.
Proof. intros A P m Q H. eapply h3_post; [|exact H]. intros; exact I. Qed.
Lemma h3_ret : forall A (x : A) (P : st -> Prop) (Q : A -> st -> Prop),
  (forall s, Inv3 s -> P s -> Q x s) -> h3 P (ret x) Q.
Proof.
  intros A x P Q H s Hv Hp. cbn. split; [exact Hv|]. split; [apply ext3_refl|].
  intros y Hy. inversion Hy. subst. apply H; assumption.
Qed.
Lemma h3_none : forall A (P : st -> Prop) (Q : A -> st -> Prop), h3 P none Q.
Proof. intros A P Q s Hv Hp. cbn. split; [exact Hv|]. split; [apply ext3_refl|]. intros y Hy. discriminate. Qed.
Lemma h3_lift : forall A (o : option A) (P : st -> Prop) (Q : A -> st -> Prop),
  (forall x s, o = Some x -> Inv3 s -> P s -> Q x s) -> h3 P (lift o) Q.
Proof.
  intros A o P Q H s Hv Hp. cbn. split; [exact Hv|]. split; [apply ext3_refl|]. intros y Hy. apply H; assumption.
Qed.
Lemma h3_get : forall A (f : st -> A) (P : st -> Prop) (Q : A -> st -> Prop),
  (forall s, Inv3 s -> P s -> Q (f s) s) -> h3 P (get f) Q.
Proof.
  intros A f P Q H s Hv Hp. cbn. split; [exact Hv|]. split; [apply ext3_refl|].
  intros y Hy. inversion Hy. subst. apply H; assumption.
Qed.
Lemma h3_state : forall (P : st -> Prop), h3 P state (fun x s => Inv3 x /\ ext3 x s).
Proof. intros P. apply h3_get. intros s Hv _. split; [exact Hv|apply ext3_refl]. Qed.
Lemma h3_here : forall r (P : st -> Prop), h3 P (here r) (fun loc _ => loc = mkR cf (r_lo r) (r_hi r)).
Proof.
  intros r P. apply h3_get. intros s (_ & _ & _ & Ht & _) _. unfold current_file. rewrite Ht. reflexivity.
Qed.
Lemma h3_bind : forall A B (m : M A) (f : A -> M B) (P : st -> Prop) Q1 Q2,
  mono3 P -> h3 P m Q1 -> (forall x, h3 (fun s => P s /\ Q1 x s) (f x) Q2) -> h3 P (bind m f) Q2.
Proof.
  intros A B m f P Q1 Q2 HP Hm Hf s Hv Hp. unfold bind.
  destruct (Hm s Hv Hp) as (H1 & H2 & H3). destruct (m s) as [[x|] s1]; cbn [fst snd] in *.
  - destruct (Hf x s1 H1) as (H4 & H5 & H6); [split; [eapply HP; eassumption|apply H3; reflexivity]|].
    split; [exact H4|]. split; [eapply ext3_trans; eassumption|exact H6].
  - split; [exact H1|]. split; [exact H2|]. intros y Hy. discriminate.
Qed.
Lemma h3_seq : forall A B (m : M A) (k : M B) (P : st -> Prop) Q1 Q2,
  mono3 P -> h3 P m Q1 -> h3 P k Q2 -> h3 P (seq m k) Q2.
Proof.
  intros A B m k P Q1 Q2 HP Hm Hk s Hv Hp. unfold seq.
  destruct (Hm s Hv Hp) as (H1 & H2 & _).
  destruct (Hk (snd (m s)) H1) as (H4 & H5 & H6); [eapply HP; eassumption|].
  split; [exact H4|]. split; [eapply ext3_trans; eassumption|exact H6].
Qed.
Lemma h3_try : forall A (m : M A) (P : st -> Prop) Q,
  h3 P m Q -> h3 P (try_ m) (fun o s => forall x, o = Some x -> Q x s).
Proof.
  intros A m P Q Hm s Hv Hp. unfold try_. destruct (Hm s Hv Hp) as (H1 & H2 & H3).
  destruct (m s) as [o s1]; cbn [fst snd] in *. split; [exact H1|]. split; [exact H2|].
  intros y Hy. inversion Hy. subst. exact H3.
Qed.
Lemma h3_iterM : forall A B (f : A -> M B) l (P : st -> Prop),
  mono3 P -> (forall x, In x l -> h3 P (f x) anyv) -> h3 P (iterM f l) anyv.
Proof.
  intros A B f l P HP. induction l as [|x r IH]; intros H; cbn [iterM].
  - apply h3_ret. intros; exact I.
  - eapply h3_seq; [exact HP|apply H; left; reflexivity|apply IH; intros y Hy; apply H; right; exact Hy].
Qed.
Lemma h3_mapM_opt : forall A B (f : A -> M B) l (P : st -> Prop),
  mono3 P -> (forall x, In x l -> h3 P (f x) anyv) -> h3 P (mapM_opt f l) anyv.
Proof.
  intros A B f l P HP. induction l as [|x r IH]; intros H; cbn [mapM_opt].
  - apply h3_ret. intros; exact I.
  - eapply h3_bind; [exact HP|apply h3_try; apply H; left; reflexivity|]. intros o.
    eapply h3_bind; [apply mono3_and; [exact HP|intros s s' _ _ y _; exact I] | |].
    + eapply h3_pre; [|apply IH; intros y Hy; apply H; right; exact Hy]. intros s _ [Hp _]. exact Hp.
    + intros os. apply h3_ret. intros; exact I.
Qed.


(** ---- abstraction facts used by the primitive lemmas *)
Lemma sym_entry_hdr : forall s a e, sym_entry s a = Some e ->
  sym_name s a = Some (SM.e_name e) /\ option_map cv (define_loc s a) = Some (SM.e_def e).
Proof.
  intros s [i|i|i] e H; cbn in *.
  - destruct (nthN (s_recs s) i); inversion H; subst; cbn; auto.
  - destruct (nthN (s_mcs s) i); inversion H; subst; cbn; auto.
  - destruct (nthN (s_leaves s) i); inversion H; subst; cbn; auto.
Qed.

Lemma abs_entry_of_good : forall s a nm, GoodSym s a nm ->
  exists e d, SM.get_entry (abs s) (sid_of s a) = Some e /\ SM.e_name e = nm /\ define_loc s a = Some d /\ SM.e_def e = cv d /\
              W.tok_name toks (cv d) = Some nm /\ In (d, a) (s_pos s).
Proof.
  intros s a nm (H1 & H2 & d & H3 & H4 & H5). destruct (sym_entry_some s a H1) as [e He].
  destruct (sym_entry_hdr s a e He) as [Hn Hd]. exists e, d. rewrite (get_sym_abs s a H1).
  rewrite H2 in Hn. rewrite H3 in Hd. cbn in Hd. inversion Hn. inversion Hd. repeat split; auto; congruence.
Qed.

Lemma sym_def_abs : forall s a, sym_ok s a -> SM.sym_def (abs s) (sid_of s a) = option_map cv (define_loc s a).
Proof.
  intros s a Ha. unfold SM.sym_def. rewrite (get_sym_abs s a Ha). destruct (sym_entry_some s a Ha) as [e He]. rewrite He.
  destruct (sym_entry_hdr s a e He) as [_ Hd]. cbn. symmetry. exact Hd.
Qed.

Lemma pos_get_none_of_log : forall s loc, (forall e, In e (s_pos s) -> fst e <> loc) -> W.pos_get (abs s) (cv loc) = None.
Proof.
  intros s loc H. rewrite B.pos_get_posf. destruct (W.ivl_get _ _ _) as [v|] eqn:E; [|reflexivity]. exfalso.
  apply B.ivl_get_In in E. unfold B.posf in E. cbn [abs SM.sm_pos] in E. unfold abs_pos in E.
  destruct (abs_pos_entries s (s_pos s) _ _ E) as (e & He & _ & Hf & Hlo & Hhi). cbn in Hf, Hlo, Hhi.
  apply (H e He). destruct (fst e) as [f l h], loc as [f' l' h']. cbn in *. subst. reflexivity.
Qed.
Lemma pos_get_some_of_log : forall s loc v, W.pos_get (abs s) (cv loc) = Some v ->
  exists e, In e (s_pos s) /\ fst e = loc /\ v = sid_of s (snd e).
Proof.
  intros s loc v E. rewrite B.pos_get_posf in E. apply B.ivl_get_In in E. unfold B.posf in E. cbn [abs SM.sm_pos] in E.
  unfold abs_pos in E. destruct (abs_pos_entries s (s_pos s) _ _ E) as (e & He & Hs & Hf & Hlo & Hhi).
  cbn in Hs, Hf, Hlo, Hhi. exists e. split; [exact He|]. split; [|exact Hs].
  destruct (fst e) as [f l h], loc as [f' l' h']. cbn in *. subst. reflexivity.
Qed.

(** ---- the position log and [log_fresh] *)
Lemma log_okb_ext : forall s s1 lg, (forall e, In e lg -> define_loc s1 (snd e) = define_loc s (snd e)) ->
  log_okb s1 lg = log_okb s lg.
Proof.
  intros s s1. induction lg as [|e older IH]; intros H; [reflexivity|]. cbn [log_okb].
  rewrite IH by (intros e0 He0; apply H; right; exact He0).
  assert (Hd : forall e0, In e0 (e :: older) -> is_def s1 e0 = is_def s e0).
  { intros e0 He0. unfold is_def. rewrite (H e0 He0). reflexivity. }
  rewrite (Hd e (or_introl eq_refl)).
  assert (Hf : forallb (fun e' => implb (rng_eqb (fst e') (fst e)) (is_def s1 e')) older =
               forallb (fun e' => implb (rng_eqb (fst e') (fst e)) (is_def s e')) older).
  { clear IH. induction older as [|x r IHr]; [reflexivity|]. cbn [forallb].
    rewrite (Hd x (or_intror (or_introl eq_refl))). rewrite IHr; [reflexivity| |].
    - intros e0 [He0|He0]; apply H; [left; exact He0|right; right; exact He0].
    - intros e0 [He0|He0]; apply Hd; [left; exact He0|right; right; exact He0]. }
  rewrite Hf. reflexivity.
Qed.

Lemma stable_log : forall s s1, Valid s -> stable s s1 -> forall e, In e (s_pos s) -> define_loc s1 (snd e) = define_loc s (snd e).
Proof.
  intros s s1 Hv Hs e He. pose proof (v_pos _ _ _ _ Hv) as Hp. rewrite Forall_forall in Hp. apply (Hs (snd e) (Hp e He)).
Qed.

Lemma log_fresh_cons : forall s s1 e, Valid s -> stable s s1 -> s_pos s1 = e :: s_pos s -> log_fresh s1 = true ->
  log_fresh s = true /\
  (if is_def s1 e then forall e', In e' (s_pos s) -> fst e' <> fst e
   else forall e', In e' (s_pos s) -> fst e' = fst e -> define_loc s (snd e') = Some (fst e)).
Proof.
  intros s s1 e Hv Hs Hp Hf. unfold log_fresh in *. rewrite Hp in Hf. cbn [log_okb] in Hf.
  apply andb_true_iff in Hf. destruct Hf as [H1 H2].
  rewrite (log_okb_ext s s1 (s_pos s) (stable_log s s1 Hv Hs)) in H2. split; [exact H2|].
  destruct (is_def s1 e).
  - intros e' He' Heq. rewrite forallb_forall in H1. specialize (H1 e' He'). rewrite Heq in H1.
    rewrite (proj2 (rng_eqb_eq _ _) eq_refl) in H1. discriminate.
  - intros e' He' Heq. rewrite forallb_forall in H1. specialize (H1 e' He'). rewrite Heq in H1.
    rewrite (proj2 (rng_eqb_eq _ _) eq_refl) in H1. cbn in H1. unfold is_def in H1.
    rewrite (stable_log s s1 Hv Hs e' He') in H1. destruct (define_loc s (snd e')) as [d|]; [|discriminate].
    apply rng_eqb_eq in H1. subst d. rewrite Heq. reflexivity.
Qed.
Lemma log_fresh_same : forall s s1, Valid s -> stable s s1 -> s_pos s1 = s_pos s -> log_fresh s1 = log_fresh s.
Proof. intros s s1 Hv Hs Hp. unfold log_fresh. rewrite Hp. apply log_okb_ext. apply stable_log; assumption. Qed.

Lemma tok_nonempty_rng : forall loc nm, W.tok_name toks (cv loc) = Some nm -> rng_empty loc = false.
Proof.
  intros loc nm H. apply C.tok_name_In in H. apply toks_ne in H. cbn in H. unfold rng_empty. apply N.leb_gt. exact H.
Qed.

(** ---- frames *)
Lemma GoodSym_same : forall s s1 a nm,
  s_recs s1 = s_recs s -> s_mcs s1 = s_mcs s -> s_leaves s1 = s_leaves s -> s_pos s1 = s_pos s ->
  GoodSym s a nm -> GoodSym s1 a nm.
Proof.
  intros s s1 a nm E1 E2 E3 E4 (H1 & H2 & d & H3 & H4 & H5).
  split; [unfold sym_ok, nrec, nmc, nleaf in *; rewrite E1, E2, E3; exact H1|].
  split; [destruct a; cbn in *; rewrite ?E1, ?E2, ?E3; exact H2|].
  exists d. split; [destruct a; cbn in *; rewrite ?E1, ?E2, ?E3; exact H3|]. split; [exact H4|rewrite E4; exact H5].
Qed.

Lemma Names_ext : forall s s1, Names s -> ext3 s s1 ->
  s_nclass s1 = s_nclass s -> s_ndef s1 = s_ndef s -> s_nmc s1 = s_nmc s -> s_ndset s1 = s_ndset s ->
  s_scopes s1 = s_scopes s -> s_recs s1 = s_recs s -> s_mcs s1 = s_mcs s -> Names s1.
Proof.
  intros s s1 [N1 N2 N3 N4 N5 N6 N7] He E1 E2 E3 E4 E5 E6 E7.
  split; rewrite ?E1, ?E2, ?E3, ?E4, ?E5, ?E6, ?E7.
  - eapply good_map_mono; eassumption.
  - eapply good_map_mono; eassumption.
  - eapply good_map_mono; eassumption.
  - eapply good_map_mono; eassumption.
  - eapply Forall_impl; [|exact N5]. intros c [Ha Hb]. split; [eapply good_map_mono; eassumption|].
    destruct (sc_kind c); try exact I. eapply GoodSym_mono; eassumption.
  - eapply Forall_impl; [|exact N6]. intros r [Ha Hb]. split; eapply good_map_mono; eassumption.
  - eapply Forall_impl; [|exact N7]. intros m Ha. eapply good_map_mono; eassumption.
Qed.

Lemma stable_same : forall s s1, s_recs s1 = s_recs s -> s_mcs s1 = s_mcs s -> s_leaves s1 = s_leaves s -> stable s s1.
Proof. intros s s1 E1 E2 E3 a _. destruct a; cbn; rewrite ?E1, ?E2, ?E3; auto. Qed.

Lemma cohc_same_tables : forall s s1, Valid s ->
  s_recs s1 = s_recs s -> s_mcs s1 = s_mcs s -> s_leaves s1 = s_leaves s -> s_refs s1 = s_refs s -> s_pos s1 = s_pos s ->
  CohC s -> CohC s1.
Proof.
  intros s s1 Hv E1 E2 E3 E4 E5 HC Hf.
  rewrite (log_fresh_same s s1 Hv (stable_same s s1 E1 E2 E3) E5) in Hf. specialize (HC Hf).
  destruct (abs_same_tables s s1 E1 E2 E3 E4 E5) as [Hg Hp].
  eapply C.coh_frame; [|exact Hp|exact HC]. intros sid. rewrite Hg. destruct (SM.get_entry (abs s) sid); auto.
Qed.

(** a state that differs only in fields the invariant does not read, or in the scope stack *)
Lemma invc_frame : forall s s1, Valid s -> Names s -> CohC s ->
  s_recs s1 = s_recs s -> s_mcs s1 = s_mcs s -> s_leaves s1 = s_leaves s -> s_nclass s1 = s_nclass s ->
  s_ndef s1 = s_ndef s -> s_nmc s1 = s_nmc s -> s_ndset s1 = s_ndset s -> s_pos s1 = s_pos s -> s_refs s1 = s_refs s ->
  Forall (scope_okB (nrec s) (nmc s) (nleaf s)) (s_scopes s1) -> Forall (good_scope s) (s_scopes s1) ->
  (Valid s1 /\ Names s1 /\ CohC s1) /\ ext3 s s1.
Proof.
  intros s s1 Hv Hn Hc E1 E2 E3 E4 E5 E6 E7 E8 E9 Hsc Hgs.
  assert (Hext : ext3 s s1).
  { split; [unfold ext, nrec, nmc, nleaf; rewrite E1, E2, E3; lia|]. split; [apply stable_same; assumption|].
    exists []. rewrite E8. reflexivity. }
  split; [|exact Hext]. split; [|split].
  - unfold Valid, nrec, nmc, nleaf in *. rewrite E1, E2, E3. destruct Hv as [V1 V2 V3 V4 V5 V6 V7 V8 V9].
    split; rewrite ?E1, ?E2, ?E4, ?E5, ?E6, ?E7, ?E8, ?E9; assumption.
  - destruct Hn as [N1 N2 N3 N4 N5 N6 N7].
    assert (G : forall a nm, GoodSym s a nm -> GoodSym s1 a nm) by (intros; eapply GoodSym_same; eassumption).
    assert (GM : forall mk m, good_map s mk m -> good_map s1 mk m) by (intros mk m; apply Forall_impl; intros e; apply G).
    split; rewrite ?E1, ?E2, ?E4, ?E5, ?E6, ?E7; auto.
    + eapply Forall_impl; [|exact Hgs]. intros c [Ha Hb]. split; [apply GM; exact Ha|].
      destruct (sc_kind c); try exact I. apply G. exact Hb.
    + eapply Forall_impl; [|exact N6]. intros r [Ha Hb]. split; apply GM; assumption.
    + eapply Forall_impl; [|exact N7]. intros m Ha. apply GM; assumption.
  - eapply cohc_same_tables; eassumption.
Qed.
Lemma inv3_frame : forall s s1, Inv3 s ->
  s_recs s1 = s_recs s -> s_mcs s1 = s_mcs s -> s_leaves s1 = s_leaves s -> s_nclass s1 = s_nclass s ->
  s_ndef s1 = s_ndef s -> s_nmc s1 = s_nmc s -> s_ndset s1 = s_ndset s -> s_pos s1 = s_pos s -> s_refs s1 = s_refs s ->
  s_trace s1 = s_trace s -> Idx s1 ->
  Forall (scope_okB (nrec s) (nmc s) (nleaf s)) (s_scopes s1) -> Forall (good_scope s) (s_scopes s1) ->
  Inv3 s1 /\ ext3 s s1.
Proof.
  intros s s1 (Hv & Hn & Hc & Ht & Hi) E1 E2 E3 E4 E5 E6 E7 E8 E9 E10 Hi1 Hsc Hgs.
  destruct (invc_frame s s1 Hv Hn Hc E1 E2 E3 E4 E5 E6 E7 E8 E9 Hsc Hgs) as ((V & Nn & Cc) & Hext).
  split; [|exact Hext]. split; [exact V|]. split; [exact Nn|]. split; [exact Cc|]. split; [rewrite E10; exact Ht|exact Hi1].
Qed.

Lemma h3_of_frame : forall (f : st -> st) (P : st -> Prop),
  (forall s, s_recs (f s) = s_recs s /\ s_mcs (f s) = s_mcs s /\ s_leaves (f s) = s_leaves s /\ s_nclass (f s) = s_nclass s /\
             s_ndef (f s) = s_ndef s /\ s_nmc (f s) = s_nmc s /\ s_ndset (f s) = s_ndset s /\ s_pos (f s) = s_pos s /\
             s_refs (f s) = s_refs s /\ s_scopes (f s) = s_scopes s /\ s_trace (f s) = s_trace s /\
             (forall g, In g (s_indexed s) -> In g (s_indexed (f s)))) ->
  h3 P (upd f) anyv.
Proof.
  intros f P H s Hinv Hp. cbn. destruct (H s) as (E1 & E2 & E3 & E4 & E5 & E6 & E7 & E8 & E9 & E10 & E11 & E12).
  pose proof Hinv as (Hv & Hn & _ & _ & Hi).
  destruct (inv3_frame s (f s) Hinv) as [H1 H2]; try assumption.
  - unfold Idx in *. eapply Forall_impl; [|exact Hi]. intros g Hg. apply E12. exact Hg.
  - rewrite E10. apply (v_scopes _ _ _ _ Hv).
  - rewrite E10. apply (n_scopes _ Hn).
  - split; [exact H1|]. split; [exact H2|intros; exact I].
Qed.

Lemma h3_bad : forall A (P : st -> Prop) (Q : A -> st -> Prop), h3 P bad Q.
Proof.
  intros A P Q s Hinv Hp. pose proof Hinv as (Hv & Hn & _ & _ & Hi). cbn [bad fst snd].
  destruct (inv3_frame s (snd (@bad A s)) Hinv) as [H1 H2]; try reflexivity; try exact Hi.
  - apply (v_scopes _ _ _ _ Hv).
  - apply (n_scopes _ Hn).
  - split; [exact H1|]. split; [exact H2|]. intros y Hy. discriminate.
Qed.
Lemma h3_error : forall r k (P : st -> Prop), h3 P (error r k) anyv.
Proof. intros. apply h3_of_frame. intros s. repeat split; auto. Qed.
Lemma h3_err : forall r k (P : st -> Prop), mono3 P -> h3 P (err r k) anyv.
Proof.
  intros r k P HP. unfold err. eapply h3_bind; [exact HP|apply h3_here|]. intros loc.
  eapply h3_pre; [|apply (h3_error loc k top)]. intros; exact I.
Qed.
Lemma h3_emit : forall l (P : st -> Prop), mono3 P -> h3 P (emit l) anyv.
Proof. intros l P HP. unfold emit. apply h3_iterM; [exact HP|]. intros x _. apply h3_err. exact HP. Qed.
Lemma h3_next_anonymous : forall (P : st -> Prop), h3 P next_anonymous anyv.
Proof. intros. apply h3_of_frame. intros s. repeat split; auto. Qed.
Lemma h3_mark_indexed : forall f (P : st -> Prop), h3 P (upd (fun s => set_files (s_trace s) (f :: s_indexed s) s)) anyv.
Proof. intros. apply h3_of_frame. intros s. repeat split; auto. cbn. intros g0 H. right. exact H. Qed.

(** ---- add_reference *)
Lemma h3_add_reference : forall id loc nm (P : st -> Prop),
  (forall s, Inv3 s -> P s -> GoodSym s id nm) -> W.tok_name toks (cv loc) = Some nm ->
  h3 P (add_reference id loc) anyv.
Proof.
  intros id loc nm P HG Htok s Hinv Hp. pose proof (HG s Hinv Hp) as Hgood.
  pose proof Hinv as (Hv & Hn & Hc & Ht & Hi). pose proof Hgood as (Hid & _).
  pose proof (tok_nonempty_rng loc nm Htok) as Hne.
  destruct (hs_add_reference id loc (fun s' => sym_ok s' id) (fun _ _ H => H) s Hv Hid) as (Hv1 & He1 & _).
  destruct (add_reference_tables id loc s) as (E1 & E2 & E3 & E4 & E5 & E6). rewrite Hne in E5.
  set (s1 := snd (add_reference id loc s)) in *.
  assert (Hext : ext3 s s1).
  { split; [exact He1|]. split; [apply stable_same; assumption|]. exists [(loc, id)]. exact E5. }
  split; [|split; [exact Hext|intros; exact I]].
  assert (E7 : s_trace s1 = s_trace s /\ s_indexed s1 = s_indexed s /\ s_nclass s1 = s_nclass s /\ s_ndef s1 = s_ndef s /\
               s_nmc s1 = s_nmc s /\ s_ndset s1 = s_ndset s /\ s_scopes s1 = s_scopes s).
  { unfold s1. cbn. unfold add_pos. destruct (rng_empty loc); cbn; repeat split. }
  destruct E7 as (E7 & E8 & E9 & E10 & E11 & E12 & E13).
  split; [exact Hv1|]. split; [|split; [|split; [rewrite E7; exact Ht|unfold Idx in *; rewrite E8; exact Hi]]].
  - eapply Names_ext; eassumption.
  - (* coherence *)
    intros Hf. destruct (log_fresh_cons s s1 (loc, id) Hv (stable_same s s1 E1 E2 E3) E5 Hf) as [Hf0 Hhead].
    specialize (Hc Hf0).
    destruct (abs_entry_of_good s id nm Hgood) as (e0 & d & He0 & Hn0 & Hd & Hde & Htd & Hin).
    destruct (abs_add_reference id loc s Hv Hid Hne) as [Hg Hpp]. fold s1 in Hg, Hpp.
    assert (Hdne : d <> loc).
    { intros Heq. subst d. unfold is_def in Hhead. cbn [snd fst] in Hhead.
      assert (Hd1 : define_loc s1 id = Some loc) by (rewrite <- Hd; apply (stable_same s s1 E1 E2 E3 id Hid)).
      rewrite Hd1, (proj2 (rng_eqb_eq _ _) eq_refl) in Hhead. apply (Hhead (loc, id) Hin). reflexivity. }
    eapply C.coh_reference; [exact toks_ne|exact Hg|exact Hpp| |exact Hc].
    cbn [W.op_coh_ok]. rewrite He0, Hn0, Hde, Htok, Htd. cbn [W.opt_name_eqb]. rewrite B.list_eqb_refl. cbn [andb].
    assert (Hfr : SM.fr_eqb (cv d) (cv loc) = false).
    { apply B.fr_eqb_neq. intros Heq. apply Hdne. apply cv_inj. exact Heq. }
    rewrite Hfr. cbn [negb andb].
    unfold W.key_ok_for_ref. destruct (W.pos_get (abs s) (cv loc)) as [sold|] eqn:Epg; [|reflexivity].
    destruct (pos_get_some_of_log s loc sold Epg) as (e' & He' & Hfe & Hsold).
    assert (Hok' : sym_ok s (snd e')).
    { pose proof (v_pos _ _ _ _ Hv) as Hpz. rewrite Forall_forall in Hpz. apply (Hpz e' He'). }
    rewrite Hsold, (sym_def_abs s _ Hok'), (sym_def_abs s id Hid), Hd. cbn [option_map].
    (* the entry keyed there is a definition at this very range *)
    assert (Hnd : is_def s1 (loc, id) = false).
    { unfold is_def. cbn [snd fst]. replace (define_loc s1 id) with (Some d)
        by (rewrite <- Hd; symmetry; apply (stable_same s s1 E1 E2 E3 id Hid)).
      destruct (rng_eqb d loc) eqn:Er; [apply rng_eqb_eq in Er; contradiction|reflexivity]. }
    rewrite Hnd in Hhead. rewrite (Hhead e' He' Hfe). cbn [option_map fst].
    rewrite (B.fr_eqb_refl (cv loc)). apply orb_true_r.
Qed.

(** ---- allocations *)
Lemma cohc_alloc_keyed : forall s s1 anew loc nm k e, Valid s -> CohC s ->
  stable s s1 -> s_pos s1 = (loc, anew) :: s_pos s -> define_loc s1 anew = Some loc ->
  (forall a, sym_ok s a -> sid_of s1 a = sid_of s a) ->
  sid_of s1 anew = (k, SM.next_id (abs s) k) ->
  (forall sid, SM.get_entry (abs s1) sid = if SM.sid_eqb sid (k, SM.next_id (abs s) k) then Some e else SM.get_entry (abs s) sid) ->
  SM.e_name e = nm -> SM.e_def e = cv loc -> SM.e_refs e = [] ->
  W.tok_name toks (cv loc) = Some nm -> CohC s1.
Proof.
  intros s s1 anew loc nm k e Hv Hc Hst Hp Hd Hsid Hnew Hg Hen Hed Her Htok Hf.
  destruct (log_fresh_cons s s1 (loc, anew) Hv Hst Hp Hf) as [Hf0 Hhead]. specialize (Hc Hf0).
  unfold is_def in Hhead. cbn [snd fst] in Hhead. rewrite Hd, (proj2 (rng_eqb_eq _ _) eq_refl) in Hhead.
  eapply (C.coh_alloc_keyed toks (abs s) (abs s1) k e); [exact toks_ne|exact Hg| |exact Her| |exact Hc].
  - intros f. rewrite Hed, <- Hnew. apply abs_pos_cons; [exact Hp|]. apply pos_old_sids; assumption.
  - unfold W.def_ok. rewrite Hen, Hed, Htok. cbn [W.opt_name_eqb]. rewrite B.list_eqb_refl. cbn [andb].
    unfold W.key_ok_for_def. rewrite (pos_get_none_of_log s loc); [reflexivity|]. intros e' He'. apply (Hhead e' He').
Qed.

Lemma cohc_alloc_unkeyed : forall s s1 k e, Valid s -> CohC s ->
  stable s s1 -> s_pos s1 = s_pos s -> (forall a, sym_ok s a -> sid_of s1 a = sid_of s a) ->
  (forall sid, SM.get_entry (abs s1) sid = if SM.sid_eqb sid (k, SM.next_id (abs s) k) then Some e else SM.get_entry (abs s) sid) ->
  SM.e_refs e = [] -> CohC s1.
Proof.
  intros s s1 k e Hv Hc Hst Hp Hsid Hg Her Hf. rewrite (log_fresh_same s s1 Hv Hst Hp) in Hf. specialize (Hc Hf).
  eapply (C.coh_alloc_unkeyed toks (abs s) (abs s1) k e); [exact Hg| |exact Her|exact Hc].
  apply abs_pos_same; [exact Hp|]. apply pos_old_sids; assumption.
Qed.

Lemma stable_app_recs : forall s s1 r, s_recs s1 = s_recs s ++ [r] -> s_mcs s1 = s_mcs s -> s_leaves s1 = s_leaves s -> stable s s1.
Proof.
  intros s s1 r E1 E2 E3 a Ha. destruct a as [i|i|i]; cbn in *; rewrite ?E1, ?E2, ?E3; auto.
  rewrite (nthN_app_old' _ _ _ _ Ha). auto.
Qed.
Lemma stable_app_mcs : forall s s1 m, s_recs s1 = s_recs s -> s_mcs s1 = s_mcs s ++ [m] -> s_leaves s1 = s_leaves s -> stable s s1.
Proof.
  intros s s1 m E1 E2 E3 a Ha. destruct a as [i|i|i]; cbn in *; rewrite ?E1, ?E2, ?E3; auto.
  rewrite (nthN_app_old' _ _ _ _ Ha). auto.
Qed.
Lemma stable_app_leaves : forall s s1 l, s_recs s1 = s_recs s -> s_mcs s1 = s_mcs s -> s_leaves s1 = s_leaves s ++ [l] -> stable s s1.
Proof.
  intros s s1 l E1 E2 E3 a Ha. destruct a as [i|i|i]; cbn in *; rewrite ?E1, ?E2, ?E3; auto.
  rewrite (nthN_app_old' _ _ _ _ Ha). auto.
Qed.

(** the invariant after an extension that adds entries to lookup structures: all old entries stay good *)
Lemma Names_build : forall s s1, Names s -> ext3 s s1 ->
  (good_map s1 SyRecord (s_nclass s1) \/ s_nclass s1 = s_nclass s) ->
  (good_map s1 SyRecord (s_ndef s1) \/ s_ndef s1 = s_ndef s) ->
  (good_map s1 SyMc (s_nmc s1) \/ s_nmc s1 = s_nmc s) ->
  (good_map s1 SyLeaf (s_ndset s1) \/ s_ndset s1 = s_ndset s) ->
  (Forall (good_scope s1) (s_scopes s1) \/ s_scopes s1 = s_scopes s) ->
  (Forall (fun r => good_map s1 SyLeaf (rc_targs r) /\ good_map s1 SyLeaf (rc_fields r)) (s_recs s1) \/ s_recs s1 = s_recs s) ->
  (Forall (fun m => good_map s1 SyLeaf (mc_targs m)) (s_mcs s1) \/ s_mcs s1 = s_mcs s) ->
  Names s1.
Proof.
  intros s s1 [N1 N2 N3 N4 N5 N6 N7] He H1 H2 H3 H4 H5 H6 H7. split.
  - destruct H1 as [H|H]; [exact H|rewrite H; eapply good_map_mono; eassumption].
  - destruct H2 as [H|H]; [exact H|rewrite H; eapply good_map_mono; eassumption].
  - destruct H3 as [H|H]; [exact H|rewrite H; eapply good_map_mono; eassumption].
  - destruct H4 as [H|H]; [exact H|rewrite H; eapply good_map_mono; eassumption].
  - destruct H5 as [H|H]; [exact H|rewrite H]. eapply Forall_impl; [|exact N5]. intros c [Ha Hb].
    split; [eapply good_map_mono; eassumption|]. destruct (sc_kind c); try exact I. eapply GoodSym_mono; eassumption.
  - destruct H6 as [H|H]; [exact H|rewrite H]. eapply Forall_impl; [|exact N6]. intros r [Ha Hb].
    split; eapply good_map_mono; eassumption.
  - destruct H7 as [H|H]; [exact H|rewrite H]. eapply Forall_impl; [|exact N7]. intros m Ha. eapply good_map_mono; eassumption.
Qed.

Lemma h3_add_record : forall nm cls loc (P : st -> Prop), W.tok_name toks (cv loc) = Some nm ->
  h3 P (add_record nm cls loc) (fun id s => GoodSym s (SyRecord id) nm).
Proof.
  intros nm cls loc P Htok s Hinv _. pose proof Hinv as (Hv & Hn & Hc & Ht & Hi).
  pose proof (tok_nonempty_rng loc nm Htok) as Hne.
  destruct (hs_add_record nm cls loc top s Hv I) as (Hv1 & He1 & Hq1).
  set (s1 := snd (add_record nm cls loc s)) in *. set (r := mkRec nm cls [] [] [] loc).
  assert (E : s_recs s1 = s_recs s ++ [r] /\ s_mcs s1 = s_mcs s /\ s_leaves s1 = s_leaves s /\ s_refs s1 = s_refs s /\
              s_pos s1 = (loc, SyRecord (nrec s)) :: s_pos s /\ s_trace s1 = s_trace s /\ s_indexed s1 = s_indexed s /\
              s_nmc s1 = s_nmc s /\ s_ndset s1 = s_ndset s /\ s_scopes s1 = s_scopes s /\
              (if cls then s_nclass s1 = (nm, nrec s) :: s_nclass s /\ s_ndef s1 = s_ndef s
               else s_nclass s1 = s_nclass s /\ s_ndef s1 = (nm, nrec s) :: s_ndef s)).
  { unfold s1, add_record. cbn [snd]. unfold add_pos. rewrite Hne. destruct cls; cbn; repeat split. }
  destruct E as (E1 & E2 & E3 & E4 & E5 & E6 & E7 & E8 & E9 & E10 & E11).
  assert (Hst : stable s s1) by (eapply stable_app_recs; eassumption).
  assert (Hext : ext3 s s1) by (split; [exact He1|]; split; [exact Hst|exists [(loc, SyRecord (nrec s))]; exact E5]).
  assert (Hnew : GoodSym s1 (SyRecord (nrec s)) nm).
  { split; [unfold sym_ok; cbn [sym_okB]; apply (Hq1 (nrec s)); reflexivity|].
    split; [unfold sym_name; rewrite E1; unfold nrec; rewrite nthN_app_new; reflexivity|].
    exists loc. split; [unfold define_loc; rewrite E1; unfold nrec; rewrite nthN_app_new; reflexivity|].
    split; [exact Htok|]. rewrite E5. left. reflexivity. }
  split; [|split; [exact Hext|]].
  - split; [exact Hv1|]. split; [|split; [|split; [rewrite E6; exact Ht|unfold Idx in *; rewrite E7; exact Hi]]].
    + destruct Hn as [N1 N2 N3 N4 N5 N6 N7].
      apply (Names_build s s1 (Build_Names _ N1 N2 N3 N4 N5 N6 N7) Hext); auto.
      * destruct cls; destruct E11 as [Ea Eb]; [left|right; exact Ea]. rewrite Ea.
        constructor; [exact Hnew|eapply good_map_mono; eassumption].
      * destruct cls; destruct E11 as [Ea Eb]; [right; exact Eb|left]. rewrite Eb.
        constructor; [exact Hnew|eapply good_map_mono; eassumption].
      * left. rewrite E1. apply Forall_app. split.
        -- eapply Forall_impl; [|exact N6]. intros r0 [Ha Hb]. split; eapply good_map_mono; eassumption.
        -- constructor; [split; constructor|constructor].
    + pose proof (abs_append_record s s1 r Hv E1 E2 E3 E4) as Hg. cbn zeta in Hg.
      eapply (cohc_alloc_keyed s s1 (SyRecord (nrec s)) loc nm SM.KRecord); try eassumption; try reflexivity.
      all: try (intros a _; apply sid_of_same_leaves; exact E3).
      all: try (unfold define_loc; rewrite E1; unfold nrec; rewrite nthN_app_new; reflexivity).
      all: try (cbn [sid_of]; rewrite next_rec_abs; reflexivity).
  - intros x Hx. unfold s1 in *. cbn in Hx. inversion Hx. subst x. exact Hnew.
Qed.

Lemma leaf_payload_refs : forall l, SM.e_refs (SM.mkEntry (lf_name l) (cv (lf_loc l)) [] (leaf_payload (lf_kind l))) = [].
Proof. reflexivity. Qed.

(** shared part of add_leaf / add_defset *)
Lemma leaf_alloc_core : forall s s1 l, Inv3 s -> W.tok_name toks (cv (lf_loc l)) = Some (lf_name l) ->
  Valid s1 -> ext s s1 ->
  s_recs s1 = s_recs s -> s_mcs s1 = s_mcs s -> s_leaves s1 = s_leaves s ++ [l] -> s_refs s1 = s_refs s ->
  s_pos s1 = (lf_loc l, SyLeaf (nleaf s)) :: s_pos s ->
  ext3 s s1 /\ GoodSym s1 (SyLeaf (nleaf s)) (lf_name l) /\ CohC s1.
Proof.
  intros s s1 l (Hv & Hn & Hc & Ht & Hi) Htok Hv1 He1 E1 E2 E3 E4 E5.
  assert (Hst : stable s s1) by (eapply stable_app_leaves; eassumption).
  assert (Hext : ext3 s s1) by (split; [exact He1|]; split; [exact Hst|exists [(lf_loc l, SyLeaf (nleaf s))]; exact E5]).
  split; [exact Hext|]. split.
  - split; [unfold sym_ok; cbn [sym_okB]; unfold nleaf; rewrite E3, lenN_app1; lia|].
    split; [unfold sym_name; rewrite E3; unfold nleaf; rewrite nthN_app_new; reflexivity|].
    exists (lf_loc l). split; [unfold define_loc; rewrite E3; unfold nleaf; rewrite nthN_app_new; reflexivity|].
    split; [exact Htok|]. rewrite E5. left. reflexivity.
  - destruct (abs_append_leaf s s1 l Hv E1 E2 E3 E4) as [Hsid Hg]. cbn zeta in Hg.
    eapply (cohc_alloc_keyed s s1 (SyLeaf (nleaf s)) (lf_loc l) (lf_name l)); try eassumption; try reflexivity.
    + unfold define_loc. rewrite E3. unfold nleaf. rewrite nthN_app_new. reflexivity.
    + intros a Ha. eapply sid_of_leaf_app; eassumption.
Qed.

Lemma h3_add_leaf : forall l (P : st -> Prop), W.tok_name toks (cv (lf_loc l)) = Some (lf_name l) ->
  h3 P (add_leaf l) (fun id s => GoodSym s (SyLeaf id) (lf_name l)).
Proof.
  intros l P Htok s Hinv _. pose proof Hinv as (Hv & Hn & Hc & Ht & Hi).
  pose proof (tok_nonempty_rng _ _ Htok) as Hne.
  destruct (hs_add_leaf l top s Hv I) as (Hv1 & He1 & Hq1).
  set (s1 := snd (add_leaf l s)) in *.
  assert (E : s_recs s1 = s_recs s /\ s_mcs s1 = s_mcs s /\ s_leaves s1 = s_leaves s ++ [l] /\ s_refs s1 = s_refs s /\
              s_pos s1 = (lf_loc l, SyLeaf (nleaf s)) :: s_pos s /\ s_trace s1 = s_trace s /\ s_indexed s1 = s_indexed s /\
              s_nclass s1 = s_nclass s /\ s_ndef s1 = s_ndef s /\ s_nmc s1 = s_nmc s /\ s_ndset s1 = s_ndset s /\ s_scopes s1 = s_scopes s).
  { unfold s1, add_leaf. cbn [snd]. unfold add_pos. rewrite Hne. cbn. repeat split. }
  destruct E as (E1 & E2 & E3 & E4 & E5 & E6 & E7 & E8 & E9 & E10 & E11 & E12).
  destruct (leaf_alloc_core s s1 l Hinv Htok Hv1 He1 E1 E2 E3 E4 E5) as (Hext & Hnew & Hc1).
  split; [|split; [exact Hext|]].
  - split; [exact Hv1|]. split; [|split; [exact Hc1|split; [rewrite E6; exact Ht|unfold Idx in *; rewrite E7; exact Hi]]].
    eapply Names_ext; eassumption.
  - intros x Hx. unfold s1 in *. cbn in Hx. inversion Hx. subst x. exact Hnew.
Qed.

Lemma h3_add_defset : forall l (P : st -> Prop), W.tok_name toks (cv (lf_loc l)) = Some (lf_name l) ->
  h3 P (add_defset l) (fun id s => GoodSym s (SyLeaf id) (lf_name l)).
Proof.
  intros l P Htok s Hinv _. pose proof Hinv as (Hv & Hn & Hc & Ht & Hi).
  pose proof (tok_nonempty_rng _ _ Htok) as Hne.
  destruct (hs_add_defset l top s Hv I) as (Hv1 & He1 & Hq1).
  set (s1 := snd (add_defset l s)) in *.
  assert (E : s_recs s1 = s_recs s /\ s_mcs s1 = s_mcs s /\ s_leaves s1 = s_leaves s ++ [l] /\ s_refs s1 = s_refs s /\
              s_pos s1 = (lf_loc l, SyLeaf (nleaf s)) :: s_pos s /\ s_trace s1 = s_trace s /\ s_indexed s1 = s_indexed s /\
              s_nclass s1 = s_nclass s /\ s_ndef s1 = s_ndef s /\ s_nmc s1 = s_nmc s /\
              s_ndset s1 = (lf_name l, nleaf s) :: s_ndset s /\ s_scopes s1 = s_scopes s).
  { unfold s1, add_defset. cbn [snd]. unfold add_pos. rewrite Hne. cbn. repeat split. }
  destruct E as (E1 & E2 & E3 & E4 & E5 & E6 & E7 & E8 & E9 & E10 & E11 & E12).
  destruct (leaf_alloc_core s s1 l Hinv Htok Hv1 He1 E1 E2 E3 E4 E5) as (Hext & Hnew & Hc1).
  split; [|split; [exact Hext|]].
  - split; [exact Hv1|]. split; [|split; [exact Hc1|split; [rewrite E6; exact Ht|unfold Idx in *; rewrite E7; exact Hi]]].
    apply (Names_build s s1 Hn Hext); auto.
    left. rewrite E11. constructor; [exact Hnew|eapply good_map_mono; [exact Hext|apply (n_dset _ Hn)]].
  - intros x Hx. unfold s1 in *. cbn in Hx. inversion Hx. subst x. exact Hnew.
Qed.

Lemma h3_add_leaf_nopos : forall l (P : st -> Prop), h3 P (add_leaf_nopos l) (fun id s => id < nleaf s).
Proof.
  intros l P s Hinv _. pose proof Hinv as (Hv & Hn & Hc & Ht & Hi).
  destruct (hs_add_leaf_nopos l top s Hv I) as (Hv1 & He1 & Hq1).
  set (s1 := snd (add_leaf_nopos l s)) in *.
  assert (E : s_recs s1 = s_recs s /\ s_mcs s1 = s_mcs s /\ s_leaves s1 = s_leaves s ++ [l] /\ s_refs s1 = s_refs s /\
              s_pos s1 = s_pos s /\ s_trace s1 = s_trace s /\ s_indexed s1 = s_indexed s /\
              s_nclass s1 = s_nclass s /\ s_ndef s1 = s_ndef s /\ s_nmc s1 = s_nmc s /\ s_ndset s1 = s_ndset s /\ s_scopes s1 = s_scopes s).
  { unfold s1, add_leaf_nopos. cbn. repeat split. }
  destruct E as (E1 & E2 & E3 & E4 & E5 & E6 & E7 & E8 & E9 & E10 & E11 & E12).
  assert (Hst : stable s s1) by (eapply stable_app_leaves; eassumption).
  assert (Hext : ext3 s s1) by (split; [exact He1|]; split; [exact Hst|exists []; exact E5]).
  split; [|split; [exact Hext|exact Hq1]].
  split; [exact Hv1|]. split; [eapply Names_ext; eassumption|]. split; [|split; [rewrite E6; exact Ht|unfold Idx in *; rewrite E7; exact Hi]].
  destruct (abs_append_leaf s s1 l Hv E1 E2 E3 E4) as [Hsid Hg]. cbn zeta in Hg.
  eapply (cohc_alloc_unkeyed s s1); try eassumption; try reflexivity.
  intros a Ha. eapply sid_of_leaf_app; eassumption.
Qed.

Lemma h3_add_anonymous_def : forall nm loc (P : st -> Prop), h3 P (add_anonymous_def nm loc) (fun id s => id < nrec s).
Proof.
  intros nm loc P s Hinv _. pose proof Hinv as (Hv & Hn & Hc & Ht & Hi).
  destruct (hs_add_anonymous_def nm loc top s Hv I) as (Hv1 & He1 & Hq1).
  set (s1 := snd (add_anonymous_def nm loc s)) in *. set (r := mkRec nm false [] [] [] loc).
  assert (E : s_recs s1 = s_recs s ++ [r] /\ s_mcs s1 = s_mcs s /\ s_leaves s1 = s_leaves s /\ s_refs s1 = s_refs s /\
              s_pos s1 = s_pos s /\ s_trace s1 = s_trace s /\ s_indexed s1 = s_indexed s /\
              s_nclass s1 = s_nclass s /\ s_ndef s1 = s_ndef s /\ s_nmc s1 = s_nmc s /\ s_ndset s1 = s_ndset s /\ s_scopes s1 = s_scopes s).
  { unfold s1, add_anonymous_def. cbn. repeat split. }
  destruct E as (E1 & E2 & E3 & E4 & E5 & E6 & E7 & E8 & E9 & E10 & E11 & E12).
  assert (Hst : stable s s1) by (eapply stable_app_recs; eassumption).
  assert (Hext : ext3 s s1) by (split; [exact He1|]; split; [exact Hst|exists []; exact E5]).
  split; [|split; [exact Hext|exact Hq1]].
  split; [exact Hv1|]. split; [|split; [|split; [rewrite E6; exact Ht|unfold Idx in *; rewrite E7; exact Hi]]].
  - apply (Names_build s s1 Hn Hext); auto. left. rewrite E1. apply Forall_app. split.
    + eapply Forall_impl; [|apply (n_recs _ Hn)]. intros r0 [Ha Hb]. split; eapply good_map_mono; eassumption.
    + constructor; [split; constructor|constructor].
  - pose proof (abs_append_record s s1 r Hv E1 E2 E3 E4) as Hg. cbn zeta in Hg.
    eapply (cohc_alloc_unkeyed s s1 SM.KRecord); try eassumption; try reflexivity.
    all: try (intros a _; apply sid_of_same_leaves; exact E3).
Qed.

Lemma h3_add_multiclass : forall nm loc (P : st -> Prop), W.tok_name toks (cv loc) = Some nm ->
  h3 P (add_multiclass nm loc) (fun id s => GoodSym s (SyMc id) nm).
Proof.
  intros nm loc P Htok s Hinv _. pose proof Hinv as (Hv & Hn & Hc & Ht & Hi).
  pose proof (tok_nonempty_rng loc nm Htok) as Hne.
  destruct (hs_add_multiclass nm loc top s Hv I) as (Hv1 & He1 & Hq1).
  set (s1 := snd (add_multiclass nm loc s)) in *. set (m := mkMc nm [] [] loc).
  assert (E : s_recs s1 = s_recs s /\ s_mcs s1 = s_mcs s ++ [m] /\ s_leaves s1 = s_leaves s /\ s_refs s1 = s_refs s /\
              s_pos s1 = (loc, SyMc (nmc s)) :: s_pos s /\ s_trace s1 = s_trace s /\ s_indexed s1 = s_indexed s /\
              s_nclass s1 = s_nclass s /\ s_ndef s1 = s_ndef s /\ s_nmc s1 = (nm, nmc s) :: s_nmc s /\
              s_ndset s1 = s_ndset s /\ s_scopes s1 = s_scopes s).
  { unfold s1, add_multiclass. cbn [snd]. unfold add_pos. rewrite Hne. cbn. repeat split. }
  destruct E as (E1 & E2 & E3 & E4 & E5 & E6 & E7 & E8 & E9 & E10 & E11 & E12).
  assert (Hst : stable s s1) by (eapply stable_app_mcs; eassumption).
  assert (Hext : ext3 s s1) by (split; [exact He1|]; split; [exact Hst|exists [(loc, SyMc (nmc s))]; exact E5]).
  assert (Hnew : GoodSym s1 (SyMc (nmc s)) nm).
  { split; [unfold sym_ok; cbn [sym_okB]; apply (Hq1 (nmc s)); reflexivity|].
    split; [unfold sym_name; rewrite E2; unfold nmc; rewrite nthN_app_new; reflexivity|].
    exists loc. split; [unfold define_loc; rewrite E2; unfold nmc; rewrite nthN_app_new; reflexivity|].
    split; [exact Htok|]. rewrite E5. left. reflexivity. }
  split; [|split; [exact Hext|]].
  - split; [exact Hv1|]. split; [|split; [|split; [rewrite E6; exact Ht|unfold Idx in *; rewrite E7; exact Hi]]].
    + apply (Names_build s s1 Hn Hext); auto.
      * left. rewrite E10. constructor; [exact Hnew|eapply good_map_mono; [exact Hext|apply (n_mc _ Hn)]].
      * left. rewrite E2. apply Forall_app. split.
        -- eapply Forall_impl; [|apply (n_mcs _ Hn)]. intros m0 Ha. eapply good_map_mono; eassumption.
        -- constructor; [constructor|constructor].
    + pose proof (abs_append_mc s s1 m Hv E1 E2 E3 E4) as Hg. cbn zeta in Hg.
      eapply (cohc_alloc_keyed s s1 (SyMc (nmc s)) loc nm SM.KMulticlass); try eassumption; try reflexivity.
      all: try (intros a _; apply sid_of_same_leaves; exact E3).
      all: try (unfold define_loc; rewrite E2; unfold nmc; rewrite nthN_app_new; reflexivity).
      all: try (cbn [sid_of]; rewrite next_mc_abs; reflexivity).
  - intros x Hx. unfold s1 in *. cbn in Hx. inversion Hx. subst x. exact Hnew.
Qed.

(** ---- in-place updates of records and multiclasses *)
Lemma cohc_hdr : forall s s1, Valid s -> CohC s ->
  (forall a, sym_ok s1 a <-> sym_ok s a) -> (forall a, sym_ok s a -> sid_of s1 a = sid_of s a) ->
  (forall a, sym_ok s a -> match sym_entry s1 a, sym_entry s a with
                           | Some e', Some e => SM.e_name e' = SM.e_name e /\ SM.e_def e' = SM.e_def e /\ SM.e_refs e' = SM.e_refs e
                           | None, None => True
                           | _, _ => False
                           end) ->
  stable s s1 -> s_pos s1 = s_pos s -> CohC s1.
Proof.
  intros s s1 Hv Hc Hok Hsid Hent Hst Hp Hf. rewrite (log_fresh_same s s1 Hv Hst Hp) in Hf. specialize (Hc Hf).
  eapply C.coh_frame; [|apply abs_pos_same; [exact Hp|apply pos_old_sids; assumption]|exact Hc].
  intros sid. apply (transfer_hdr s s1 Hok Hsid Hent sid).
Qed.

Lemma good_map_imap_insert : forall s mk k v m, GoodSym s (mk v) k -> good_map s mk m -> good_map s mk (imap_insert k v m).
Proof.
  intros s mk k v m Hg H. induction H as [|[k' v'] rest Hx Hr IH]; cbn.
  - constructor; [exact Hg|constructor].
  - destruct (name_eqb k k') eqn:E; constructor; cbn; auto.
    apply name_eqb_eq in E. subst k'. exact Hg.
Qed.

Lemma Forall_set_nth_gen : forall A (Q Q' : A -> Prop) (f : A -> A) l n,
  Forall Q l -> (forall x, Q x -> Q' x) -> (forall x, Q x -> Q' (f x)) -> Forall Q' (set_nth n f l).
Proof.
  intros A Q Q' f l n H H1 H2. revert n. induction H as [|x r Hx Hr IH]; intros [|n]; cbn; constructor; auto.
  eapply Forall_impl; [|exact Hr]. exact H1.
Qed.

Lemma h3_record_mut : forall rid (f : recd -> recd) (P : st -> Prop),
  (forall r, rc_name (f r) = rc_name r /\ rc_loc (f r) = rc_loc r /\ rc_class (f r) = rc_class r) ->
  (forall s r, Valid s -> P s -> rec_okB (nrec s) (nleaf s) r -> rec_okB (nrec s) (nleaf s) (f r)) ->
  (forall s r, Inv3 s -> P s -> good_map s SyLeaf (rc_targs r) /\ good_map s SyLeaf (rc_fields r) ->
               good_map s SyLeaf (rc_targs (f r)) /\ good_map s SyLeaf (rc_fields (f r))) ->
  h3 P (record_mut rid f) anyv.
Proof.
  intros rid f P Hf Hvf Hgf s Hinv Hp. pose proof Hinv as (Hv & Hn & Hc & Ht & Hi).
  assert (Hvf' : forall s0 r, Valid s0 -> s0 = s -> rec_okB (nrec s0) (nleaf s0) r -> rec_okB (nrec s0) (nleaf s0) (f r))
    by (intros s0 r Hv0 E; subst s0; apply (Hvf s r Hv Hp)).
  destruct (hs_record_mut rid f (fun s' => s' = s) Hvf' s Hv eq_refl) as (Hv1 & He1 & _).
  unfold record_mut in *. destruct (nthN (s_recs s) rid) as [r0|] eqn:Er; [|apply (h3_bad unit P anyv s Hinv Hp)].
  cbn [fst snd] in *. set (s1 := set_recs (set_nth (N.to_nat rid) f (s_recs s)) s) in *.
  assert (Hlen : nrec s1 = nrec s) by (unfold nrec, lenN, s1; cbn; rewrite length_set_nth; reflexivity).
  assert (Hst : stable s s1).
  { intros a _. destruct a as [i|i|i]; cbn; auto. rewrite ScopeFrame.nthN_set_nth.
    destruct (rid =? i); [|auto]. destruct (nthN (s_recs s) i) as [r|]; cbn; [|auto]. destruct (Hf r) as (H1 & H2 & _). rewrite H1, H2. auto. }
  assert (Hext : ext3 s s1) by (split; [exact He1|]; split; [exact Hst|exists []; reflexivity]).
  split; [|split; [exact Hext|intros; exact I]].
  split; [exact Hv1|]. split; [|split; [|split; [exact Ht|exact Hi]]].
  - apply (Names_build s s1 Hn Hext); auto. left. cbn [s1 set_recs s_recs].
    apply (Forall_set_nth_gen _ (fun r => good_map s SyLeaf (rc_targs r) /\ good_map s SyLeaf (rc_fields r))); [apply (n_recs _ Hn)| |].
    + intros r [Ha Hb]; split; eapply good_map_mono; eassumption.
    + intros r Hr. destruct (Hgf s r Hinv Hp Hr) as [Ha Hb]. split; eapply good_map_mono; eassumption.
  - eapply (cohc_hdr s s1 Hv Hc); [| | |exact Hst|reflexivity].
    + intros a. unfold sym_ok. rewrite Hlen. reflexivity.
    + intros a _. apply sid_of_same_leaves. reflexivity.
    + intros a _. destruct a as [i|i|i]; cbn [sym_entry].
      * cbn [s1 set_recs s_recs]. rewrite ScopeFrame.nthN_set_nth. destruct (rid =? i).
        -- destruct (nthN (s_recs s) i) as [r|]; cbn; [|exact I]. destruct (Hf r) as (H1 & H2 & _). rewrite H1, H2. repeat split.
        -- destruct (nthN (s_recs s) i) as [r|]; cbn; [repeat split|exact I].
      * change (s_mcs s1) with (s_mcs s). destruct (nthN (s_mcs s) i); cbn; [repeat split|exact I].
      * change (s_leaves s1) with (s_leaves s). destruct (nthN (s_leaves s) i); cbn; [repeat split|exact I].
Qed.

Lemma h3_rec_add_targ : forall rid n t (P : st -> Prop), (forall s, Inv3 s -> P s -> GoodSym s (SyLeaf t) n) ->
  h3 P (record_mut rid (rec_add_targ n t)) anyv.
Proof.
  intros rid n t P H. eapply h3_pre with (P' := fun s => Inv3 s /\ P s); [intros; split; assumption|].
  apply h3_record_mut.
  - intros r. repeat split.
  - intros s r Hv [Hi Hp] (Ha & Hb & Hc). repeat split; cbn; try assumption.
    apply amap_ok_imap_insert; [|exact Ha]. destruct (H s Hi Hp) as (Hok & _). exact Hok.
  - intros s r Hi [_ Hp] [Ha Hb]. split; cbn; [|exact Hb]. apply good_map_imap_insert; [apply H; assumption|exact Ha].
Qed.
Lemma h3_rec_add_field : forall rid n t (P : st -> Prop), (forall s, Inv3 s -> P s -> GoodSym s (SyLeaf t) n) ->
  h3 P (record_mut rid (rec_add_field n t)) anyv.
Proof.
  intros rid n t P H. eapply h3_pre with (P' := fun s => Inv3 s /\ P s); [intros; split; assumption|].
  apply h3_record_mut.
  - intros r. repeat split.
  - intros s r Hv [Hi Hp] (Ha & Hb & Hc). repeat split; cbn; try assumption.
    apply amap_ok_imap_insert; [|exact Hb]. destruct (H s Hi Hp) as (Hok & _). exact Hok.
  - intros s r Hi [_ Hp] [Ha Hb]. split; cbn; [exact Ha|]. apply good_map_imap_insert; [apply H; assumption|exact Hb].
Qed.
Lemma h3_rec_add_parent : forall rid p (P : st -> Prop), (forall s, Inv3 s -> P s -> p < nrec s) ->
  h3 P (record_mut rid (rec_add_parent p)) anyv.
Proof.
  intros rid p P H. eapply h3_pre with (P' := fun s => Inv3 s /\ P s); [intros; split; assumption|].
  apply h3_record_mut.
  - intros r. repeat split.
  - intros s r Hv [Hi Hp] (Ha & Hb & Hc). repeat split; cbn; try assumption.
    apply Forall_app1; [exact Hc|apply H; assumption].
  - intros s r Hi [_ Hp] [Ha Hb]. split; cbn; assumption.
Qed.

Lemma h3_multiclass_mut : forall mid (f : mcd -> mcd) (P : st -> Prop),
  (forall m, mc_name (f m) = mc_name m /\ mc_loc (f m) = mc_loc m) ->
  (forall s m, Valid s -> P s -> mc_okB (nmc s) (nleaf s) m -> mc_okB (nmc s) (nleaf s) (f m)) ->
  (forall s m, Inv3 s -> P s -> good_map s SyLeaf (mc_targs m) -> good_map s SyLeaf (mc_targs (f m))) ->
  h3 P (multiclass_mut mid f) anyv.
Proof.
  intros mid f P Hf Hvf Hgf s Hinv Hp. pose proof Hinv as (Hv & Hn & Hc & Ht & Hi).
  assert (Hvf' : forall s0 m, Valid s0 -> s0 = s -> mc_okB (nmc s0) (nleaf s0) m -> mc_okB (nmc s0) (nleaf s0) (f m))
    by (intros s0 m Hv0 E; subst s0; apply (Hvf s m Hv Hp)).
  destruct (hs_multiclass_mut mid f (fun s' => s' = s) Hvf' s Hv eq_refl) as (Hv1 & He1 & _).
  unfold multiclass_mut in *. destruct (nthN (s_mcs s) mid) as [m0|] eqn:Er; [|apply (h3_bad unit P anyv s Hinv Hp)].
  cbn [fst snd] in *. set (s1 := set_mcs (set_nth (N.to_nat mid) f (s_mcs s)) s) in *.
  assert (Hlen : nmc s1 = nmc s) by (unfold nmc, lenN, s1; cbn; rewrite length_set_nth; reflexivity).
  assert (Hst : stable s s1).
  { intros a _. destruct a as [i|i|i]; cbn; auto. rewrite ScopeFrame.nthN_set_nth.
    destruct (mid =? i); [|auto]. destruct (nthN (s_mcs s) i) as [m|]; cbn; [|auto]. destruct (Hf m) as (H1 & H2). rewrite H1, H2. auto. }
  assert (Hext : ext3 s s1) by (split; [exact He1|]; split; [exact Hst|exists []; reflexivity]).
  split; [|split; [exact Hext|intros; exact I]].
  split; [exact Hv1|]. split; [|split; [|split; [exact Ht|exact Hi]]].
  - apply (Names_build s s1 Hn Hext); auto. left. cbn [s1 set_mcs s_mcs].
    apply (Forall_set_nth_gen _ (fun m => good_map s SyLeaf (mc_targs m))); [apply (n_mcs _ Hn)| |].
    + intros m Ha. eapply good_map_mono; eassumption.
    + intros m Hm. eapply good_map_mono; [exact Hext|]. apply (Hgf s m Hinv Hp Hm).
  - eapply (cohc_hdr s s1 Hv Hc); [| | |exact Hst|reflexivity].
    + intros a. unfold sym_ok. rewrite Hlen. reflexivity.
    + intros a _. apply sid_of_same_leaves. reflexivity.
    + intros a _. destruct a as [i|i|i]; cbn [sym_entry].
      * change (s_recs s1) with (s_recs s). destruct (nthN (s_recs s) i); cbn; [repeat split|exact I].
      * cbn [s1 set_mcs s_mcs]. rewrite ScopeFrame.nthN_set_nth. destruct (mid =? i).
        -- destruct (nthN (s_mcs s) i) as [m|]; cbn; [|exact I]. destruct (Hf m) as (H1 & H2). rewrite H1, H2. repeat split.
        -- destruct (nthN (s_mcs s) i) as [m|]; cbn; [repeat split|exact I].
      * change (s_leaves s1) with (s_leaves s). destruct (nthN (s_leaves s) i); cbn; [repeat split|exact I].
Qed.
Lemma h3_mc_add_targ : forall mid n t (P : st -> Prop), (forall s, Inv3 s -> P s -> GoodSym s (SyLeaf t) n) ->
  h3 P (multiclass_mut mid (mc_add_targ n t)) anyv.
Proof.
  intros mid n t P H. eapply h3_pre with (P' := fun s => Inv3 s /\ P s); [intros; split; assumption|].
  apply h3_multiclass_mut.
  - intros m. split; reflexivity.
  - intros s m Hv [Hi Hp] (Ha & Hb). split; cbn; try assumption.
    apply amap_ok_imap_insert; [|exact Ha]. destruct (H s Hi Hp) as (Hok & _). exact Hok.
  - intros s m Hi [_ Hp] Ha. cbn. apply good_map_imap_insert; [apply H; assumption|exact Ha].
Qed.
Lemma h3_mc_add_parent : forall mid p (P : st -> Prop), (forall s, Inv3 s -> P s -> p < nmc s) ->
  h3 P (multiclass_mut mid (mc_add_parent p)) anyv.
Proof.
  intros mid p P H. eapply h3_pre with (P' := fun s => Inv3 s /\ P s); [intros; split; assumption|].
  apply h3_multiclass_mut.
  - intros m. split; reflexivity.
  - intros s m Hv [Hi Hp] (Ha & Hb). split; cbn; try assumption. apply Forall_app1; [exact Hb|apply H; assumption].
  - intros s m Hi [_ Hp] Ha. cbn. exact Ha.
Qed.

(** ---- scopes *)
Definition kind_good (s : st) (k : skind) : Prop :=
  kind_ok s k /\ match k with KForeach n v => GoodSym s (SyLeaf v) n | _ => True end.
Lemma mono3_kind_good : forall k, mono3 (fun s => kind_good s k).
Proof.
  intros k s s' He [H1 H2]. pose proof He as (E & _). split; [eapply kind_ok_mono; eassumption|].
  destruct k; try exact I. eapply GoodSym_mono; eassumption.
Qed.

Lemma h3_push_scope : forall k (P : st -> Prop), (forall s, Inv3 s -> P s -> kind_good s k) -> h3 P (push_scope k) anyv.
Proof.
  intros k P H s Hinv Hp. destruct (H s Hinv Hp) as [Hk Hg]. pose proof Hinv as (Hv & Hn & _ & _ & Hi).
  unfold push_scope, upd. cbn [fst snd].
  destruct (inv3_frame s (set_scopes (mkScope k [] :: s_scopes s) s) Hinv) as [H1 H2]; try reflexivity; try exact Hi.
  - cbn. constructor; [split; [exact Hk|constructor]|apply (v_scopes _ _ _ _ Hv)].
  - cbn. constructor; [split; [constructor|exact Hg]|apply (n_scopes _ Hn)].
  - split; [exact H1|]. split; [exact H2|intros; exact I].
Qed.
Lemma h3_pop_scope : forall (P : st -> Prop), h3 P pop_scope anyv.
Proof.
  intros P s Hinv Hp. pose proof Hinv as (Hv & Hn & _ & _ & Hi). unfold pop_scope.
  destruct (s_scopes s) as [|c t] eqn:E; [apply (h3_bad unit P anyv s Hinv Hp)|]. cbn [fst snd].
  destruct (inv3_frame s (set_scopes t s) Hinv) as [H1 H2]; try reflexivity; try exact Hi.
  - cbn. pose proof (v_scopes _ _ _ _ Hv) as Hs. rewrite E in Hs. inversion Hs. assumption.
  - cbn. pose proof (n_scopes _ Hn) as Hs. rewrite E in Hs. inversion Hs. assumption.
  - split; [exact H1|]. split; [exact H2|intros; exact I].
Qed.
Lemma h3_scoped : forall A k (body : M A) (P : st -> Prop) (Q : A -> st -> Prop),
  mono3 P -> (forall x, mono3 (Q x)) -> (forall s, Inv3 s -> P s -> kind_good s k) ->
  h3 P body Q -> h3 P (scoped k body) Q.
Proof.
  intros A k body P Q HP HQ Hk Hb. unfold scoped.
  eapply h3_seq; [exact HP|apply h3_push_scope; exact Hk|].
  eapply h3_bind; [exact HP|apply h3_try; exact Hb|]. intros o. cbn beta.
  eapply h3_seq.
  - apply mono3_and; [exact HP|]. intros s s' He H x Hx. eapply HQ; [exact He|apply H; exact Hx].
  - apply h3_pop_scope.
  - apply h3_lift. intros x s Ho _ [_ H]. apply H. exact Ho.
Qed.

Lemma h3_scopes_add_variable : forall l (P : st -> Prop), W.tok_name toks (cv (lf_loc l)) = Some (lf_name l) ->
  h3 P (scopes_add_variable l) anyv.
Proof.
  intros l P Htok. eapply h3_pre with (P' := top); [intros; exact I|]. unfold scopes_add_variable.
  eapply h3_bind with (Q1 := fun id s => GoodSym s (SyLeaf id) (lf_name l)); [apply mono3_top|apply (h3_add_leaf l top Htok)|].
  intros id s Hinv [_ Hg]. pose proof Hinv as (Hv & Hn & _ & _ & Hi).
  destruct (s_scopes s) as [|c t] eqn:E; [apply (h3_bad unit top anyv s Hinv I)|]. cbn [fst snd].
  destruct (inv3_frame s (set_scopes (mkScope (sc_kind c) ((lf_name l, id) :: sc_vars c) :: t) s) Hinv) as [H1 H2];
    try reflexivity; try exact Hi.
  - cbn. pose proof (v_scopes _ _ _ _ Hv) as Hs. rewrite E in Hs. inversion Hs as [|? ? [Hk Hvars] Ht]. subst.
    constructor; [|exact Ht]. split; [exact Hk|]. cbn. constructor; [destruct Hg as (Hok & _); exact Hok|exact Hvars].
  - cbn. pose proof (n_scopes _ Hn) as Hs. rewrite E in Hs. inversion Hs as [|? ? [Hvars Hk] Ht]. subst.
    constructor; [|exact Ht]. split; [constructor; [exact Hg|exact Hvars]|exact Hk].
  - split; [exact H1|]. split; [exact H2|intros; exact I].
Qed.

(** ---- lookups return good symbols *)
Lemma alookup_good : forall s mk (m : list (name * N)) nm v, good_map s mk m -> alookup nm m = Some v -> GoodSym s (mk v) nm.
Proof.
  intros s mk m nm v H. induction H as [|[k' v'] rest Hx Hr IH]; cbn; [discriminate|].
  destruct (name_eqb nm k') eqn:E; [|exact IH]. intros E2. inversion E2. subst v'. apply name_eqb_eq in E. subst k'. exact Hx.
Qed.
Lemma find_class_good : forall x nm c, Inv3 x -> find_class x nm = Some c -> GoodSym x (SyRecord c) nm.
Proof. intros x nm c (_ & Hn & _) E. eapply alookup_good; [apply (n_class _ Hn)|exact E]. Qed.
Lemma find_def_good : forall x nm c, Inv3 x -> find_def x nm = Some c -> GoodSym x (SyRecord c) nm.
Proof. intros x nm c (_ & Hn & _) E. eapply alookup_good; [apply (n_def _ Hn)|exact E]. Qed.
Lemma find_multiclass_good : forall x nm c, Inv3 x -> find_multiclass x nm = Some c -> GoodSym x (SyMc c) nm.
Proof. intros x nm c (_ & Hn & _) E. eapply alookup_good; [apply (n_mc _ Hn)|exact E]. Qed.
Lemma find_defset_good : forall x nm c, Inv3 x -> find_defset x nm = Some c -> GoodSym x (SyLeaf c) nm.
Proof. intros x nm c (_ & Hn & _) E. eapply alookup_good; [apply (n_dset _ Hn)|exact E]. Qed.

Lemma find_field_goodB : forall x recs fuel id nm f,
  Forall (fun r => good_map x SyLeaf (rc_targs r) /\ good_map x SyLeaf (rc_fields r)) recs ->
  Scope.find_field fuel recs id nm = Some f -> GoodSym x (SyLeaf f) nm.
Proof.
  intros x recs. induction fuel as [|fuel IH]; intros id nm f Hr E; cbn in E; [discriminate|].
  destruct (nthN recs id) as [r|] eqn:En; [|discriminate].
  pose proof (nthN_Forall _ _ _ _ _ Hr En) as (Ha & Hb).
  destruct (alookup nm (rc_fields r)) as [f0|] eqn:Ef.
  - inversion E. subst. eapply alookup_good; eassumption.
  - induction (rc_parents r) as [|p ps IHps]; [discriminate|].
    destruct (Scope.find_field fuel recs p nm) as [f1|] eqn:E1.
    + inversion E. subst. eapply IH; eassumption.
    + apply IHps. exact E.
Qed.
Lemma find_field_good : forall x id nm f, Inv3 x -> Scope.find_field (rec_fuel x) (s_recs x) id nm = Some f -> GoodSym x (SyLeaf f) nm.
Proof. intros x id nm f (_ & Hn & _) E. eapply find_field_goodB; [apply (n_recs _ Hn)|exact E]. Qed.
Lemma ty_find_field_good : forall x t nm f, Inv3 x -> ty_find_field x t nm = Some f -> GoodSym x (SyLeaf f) nm.
Proof. intros x t nm f Hi E. unfold ty_find_field in E. destruct t; try discriminate. eapply find_field_good; eassumption. Qed.

Lemma scope_find_good : forall x c nm sym, Inv3 x -> good_scope x c -> scope_find x c nm = Some sym -> GoodSym x sym nm.
Proof.
  intros x c nm sym Hi [Hvars Hk] E. pose proof Hi as (_ & Hn & _). unfold scope_find in E.
  destruct (sc_find_variable c nm) as [v|] eqn:Ev.
  - inversion E. subst. unfold sc_find_variable in Ev.
    destruct (alookup nm (sc_vars c)) eqn:Ea.
    + inversion Ev. subst. eapply alookup_good; eassumption.
    + destruct (sc_kind c); try discriminate. destruct (name_eqb nm nm0) eqn:En; [|discriminate].
      inversion Ev. subst. apply name_eqb_eq in En. subst. exact Hk.
  - destruct (sc_kind c) eqn:Ek; try discriminate.
    + destruct (Scope.find_field (rec_fuel x) (s_recs x) id nm) eqn:Ef.
      * inversion E. subst. eapply find_field_good; eassumption.
      * destruct (nthN (s_recs x) id) as [r|] eqn:En; [|discriminate].
        pose proof (nthN_Forall _ _ _ _ _ (n_recs _ Hn) En) as (Ha & _).
        destruct (alookup nm (rc_targs r)) eqn:Et; [|discriminate]. inversion E. subst. eapply alookup_good; eassumption.
    + destruct (nthN (s_mcs x) id) as [m|] eqn:En; [|discriminate].
      pose proof (nthN_Forall _ _ _ _ _ (n_mcs _ Hn) En) as Ha. cbn beta in Ha.
      destruct (alookup nm (mc_targs m)) eqn:Et; [|discriminate]. inversion E. subst. eapply alookup_good; eassumption.
Qed.
Lemma resolve_id_good : forall x nm sym, Inv3 x -> resolve_id x nm = Some sym -> GoodSym x sym nm.
Proof.
  intros x nm sym Hi E. pose proof Hi as (_ & Hn & _). unfold resolve_id in E. destruct (find_local x nm) as [id|] eqn:El.
  - inversion E. subst. unfold find_local in El.
    destruct (find_map_scopes _ _ _ _ _ (n_scopes _ Hn) El) as (c & Hc & Hf). eapply scope_find_good; eassumption.
  - destruct (find_def x nm) eqn:Ed.
    + inversion E. subst. eapply find_def_good; eassumption.
    + destruct (find_defset x nm) eqn:Es; [|discriminate]. inversion E. subst. eapply find_defset_good; eassumption.
Qed.

(** `here r`: the range is paired with the current file *)
Lemma h3_bind_here : forall B r (f : rng -> M B) (P : st -> Prop) Q,
  h3 P (f (mkR cf (r_lo r) (r_hi r))) Q -> h3 P (bind (here r) f) Q.
Proof.
  intros B r f P Q H s Hinv Hp. unfold bind, here, get. cbn [fst snd].
  pose proof Hinv as (_ & _ & _ & Ht & _). unfold current_file. rewrite Ht. apply H; assumption.
Qed.

(** ---- well-formed syntax: every identifier is an identifier token (of the current file) carrying its name *)
Definition id_ok (i : ident) : Prop :=
  W.tok_name toks (SM.mkFR cf (r_lo (i_rng i)) (r_hi (i_rng i))) = Some (i_name i).
Fixpoint ty_ok (t : ty) : Prop :=
  match t with TyList t' => ty_ok t' | TyClass i => id_ok i | _ => True end.
Definition suffix_ok (sf : suffix) : Prop := match sf with SufField i _ => id_ok i | _ => True end.
Definition annot_ok (a : option (ty * rng)) : Prop := match a with Some (t, _) => ty_ok t | None => True end.

Fixpoint value_ok (v : value) : Prop :=
  match v with
  | Val _ inners => (fix go (l : list inner) : Prop := match l with [] => True | x :: r => inner_ok x /\ go r end) inners
  end
with inner_ok (x : inner) : Prop :=
  match x with
  | Inner s sufs => simple_ok s /\ Forall suffix_ok sufs
  end
with simple_ok (s : simple) : Prop :=
  let vals := fix go (l : list value) : Prop := match l with [] => True | x :: r => value_ok x /\ go r end in
  let args := fix go (l : list arg) : Prop := match l with [] => True | x :: r => arg_ok x /\ go r end in
  match s with
  | SBits vs | SList vs | SDag vs | SCond vs => vals vs
  | SId i => id_ok i
  | SClassVal i a _ => id_ok i /\ args a
  | SBang _ an vs _ => annot_ok an /\ vals vs
  | _ => True
  end
with arg_ok (a : arg) : Prop :=
  match a with
  | APos v _ | ANamed _ v _ => value_ok v
  | ANamedBad _ => True
  end.

Lemma vals_ok_forall : forall l,
  (fix go (l : list value) : Prop := match l with [] => True | x :: r => value_ok x /\ go r end) l <-> Forall value_ok l.
Proof.
  induction l as [|x r IH]; [split; intros; [constructor|exact I]|]. split.
  - intros [H1 H2]. constructor; [exact H1|apply IH; exact H2].
  - intros H. inversion H; subst. split; [assumption|apply IH; assumption].
Qed.
Lemma args_ok_forall : forall l,
  (fix go (l : list arg) : Prop := match l with [] => True | x :: r => arg_ok x /\ go r end) l <-> Forall arg_ok l.
Proof.
  induction l as [|x r IH]; [split; intros; [constructor|exact I]|]. split.
  - intros [H1 H2]. constructor; [exact H1|apply IH; exact H2].
  - intros H. inversion H; subst. split; [assumption|apply IH; assumption].
Qed.
Lemma inners_ok_forall : forall l,
  (fix go (l : list inner) : Prop := match l with [] => True | x :: r => inner_ok x /\ go r end) l <-> Forall inner_ok l.
Proof.
  induction l as [|x r IH]; [split; intros; [constructor|exact I]|]. split.
  - intros [H1 H2]. constructor; [exact H1|apply IH; exact H2].
  - intros H. inversion H; subst. split; [assumption|apply IH; assumption].
Qed.

Lemma first_ident_ok : forall v i, value_ok v -> value_first_ident v = Some i -> id_ok i.
Proof.
  intros [r [|[sv sufs] rest]] i H E; cbn in E; [discriminate|]. destruct sv; try discriminate. inversion E. subst.
  cbn in H. destruct H as [[H _] _]. exact H.
Qed.
Lemma nth_ok : forall vs n v, Forall value_ok vs -> nth_error vs n = Some v -> value_ok v.
Proof. intros vs n v H E. apply nth_error_In in E. rewrite Forall_forall in H. apply H. exact E. Qed.

(** ---- automation *)
Ltac hmono3 :=
  repeat first
    [ apply mono3_top | apply mono3_snap | apply mono3_good | apply mono3_kind_good | apply mono3_and
    | apply mono3_lt_nrec | apply mono3_lt_nmc | apply mono3_lt_nleaf | apply mono3_anyv | apply mono3_pure
    | apply mono3_opt; intros ? | assumption
    | (intros ? ? ? ?; exact I) ].

Ltac destr_conj := repeat match goal with H : _ /\ _ |- _ => destruct H end.
Ltac solve_good :=
  intros; destr_conj;
  first [ exact I | assumption
        | match goal with
          | He : ext3 ?x ?s |- GoodSym ?s _ _ =>
              eapply GoodSym_mono; [exact He|];
              first [ eapply find_class_good; eassumption | eapply find_def_good; eassumption
                    | eapply find_multiclass_good; eassumption | eapply find_defset_good; eassumption
                    | eapply ty_find_field_good; eassumption | eapply find_field_good; eassumption
                    | eapply resolve_id_good; eassumption ]
          end ].
Ltac hret3 := apply h3_ret; intros; exact I.

(** ---- the traversal *)
Lemma h3_leaf_of : forall i P, mono3 P -> h3 P (leaf_of i) anyv.
Proof.
  intros i P HP. unfold leaf_of. eapply h3_bind; [exact HP|apply h3_state|]. intros x.
  apply h3_lift. intros; exact I.
Qed.

Lemma h3_index_ty : forall t P, mono3 P -> ty_ok t -> h3 P (index_ty t) anyv.
Proof.
  induction t; intros P HP Hok; cbn [index_ty]; try hret3.
  - eapply h3_bind; [exact HP|apply IHt; [exact HP|exact Hok]|]. intros x. hret3.
  - apply h3_bind_here.
    eapply h3_bind; [hmono3|apply h3_state|]. intros x.
    destruct (find_class x (i_name i)) eqn:E.
    + eapply h3_seq; [hmono3|eapply (h3_add_reference _ _ (i_name i)); [solve_good|exact Hok]|hret3].
    + eapply h3_seq; [hmono3|apply h3_error|apply h3_none].
Qed.

Lemma h3_index_annot : forall op an r P, mono3 P -> annot_ok an -> h3 P (index_annot op an r) anyv.
Proof.
  intros op an r P HP Hok. unfold index_annot. destruct (bang_annot op).
  - eapply h3_seq; [exact HP| |hret3]. destruct an as [[t tr]|]; [apply h3_err; exact HP|hret3].
  - destruct an as [[t tr]|].
    + eapply h3_any. apply h3_try. apply h3_index_ty; [exact HP|exact Hok].
    + eapply h3_seq; [exact HP|apply h3_err; exact HP|hret3].
  - destruct an as [[t tr]|]; [|hret3]. eapply h3_any. apply h3_try. apply h3_index_ty; [exact HP|exact Hok].
Qed.
Lemma h3_check_arity : forall op vs r P, mono3 P -> h3 P (check_arity op vs r) anyv.
Proof. intros. unfold check_arity. destruct (arity_ok _ _); [hret3|apply h3_err; assumption]. Qed.

Lemma h3_pre_pure : forall A (P : st -> Prop) (m : M A) Q (X : Prop),
  (forall s, Inv3 s -> P s -> X) -> (X -> h3 P m Q) -> h3 P m Q.
Proof. intros A P m Q X H1 H2 s Hinv Hp. apply (H2 (H1 s Hinv Hp) s Hinv Hp). Qed.

Lemma h3_bind_lift : forall A B (o : option A) (f : A -> M B) (P : st -> Prop) Q,
  (forall x, o = Some x -> h3 P (f x) Q) -> h3 P (bind (lift o) f) Q.
Proof.
  intros A B o f P Q H s Hinv Hp. destruct o as [x|]; unfold bind, lift; cbn [fst snd].
  - apply (H x eq_refl s Hinv Hp).
  - split; [exact Hinv|]. split; [apply ext3_refl|]. intros y Hy. discriminate.
Qed.

Definition values_ok3 (n : nat) : Prop :=
  (forall v P, mono3 P -> value_ok v -> h3 P (index_value n v) anyv) /\
  (forall x P, mono3 P -> inner_ok x -> h3 P (index_inner n x) anyv) /\
  (forall sv P, mono3 P -> simple_ok sv -> h3 P (index_simple n sv) anyv) /\
  (forall a P, mono3 P -> arg_ok a -> h3 P (index_arg n a) anyv) /\
  (forall op an vs r P, mono3 P -> annot_ok an -> Forall value_ok vs -> h3 P (index_bang n op an vs r) anyv) /\
  (forall op a vs r P, mono3 P -> Forall value_ok vs -> h3 P (index_bang_ops n op a vs r) anyv).

Lemma h3_sufs_loop : forall (l : list suffix) t P, mono3 P -> Forall suffix_ok l ->
  h3 P ((fix sufs_loop (t : mty) (l : list suffix) : M mty :=
           match l with
           | [] => ret t
           | sf :: r =>
             bind match sf with
                   | SufRange => lift (match t with MBits _ => Some MBit | _ => None end)
                   | SufSlice single => if single then lift (element_typ t) else ret t
                   | SufField i fr =>
                     bind (here (i_rng i)) (fun loc =>
                     bind state (fun s =>
                     match ty_find_field s t (i_name i) with
                     | None => match t with MUnknown => none | _ => seq (err fr DCannotAccessField) none end
                     | Some f => seq (add_reference (SyLeaf f) loc) (bind (leaf_of f) (fun lf => ret (lf_ty lf)))
                     end))
                   end (fun t' => sufs_loop t' r)
           end) t l) anyv.
Proof.
  induction l as [|sf r IH]; intros t P HP Hok; [hret3|]. inversion Hok as [|? ? Hsf Hr]; subst.
  eapply h3_bind with (Q1 := anyv); [exact HP| |intros t'; apply IH; [hmono3|exact Hr]].
  destruct sf as [|single|i fr].
  - apply h3_lift. intros; exact I.
  - destruct single; [apply h3_lift; intros; exact I|hret3].
  - apply h3_bind_here.
    eapply h3_bind; [hmono3|apply h3_state|]. intros x.
    destruct (ty_find_field x t (i_name i)) eqn:E.
    + eapply h3_seq; [hmono3|eapply (h3_add_reference _ _ (i_name i)); [solve_good|exact Hsf]|].
      eapply h3_bind; [hmono3|apply h3_leaf_of; hmono3|]. intros lf. hret3.
    + destruct t; try (eapply h3_seq; [hmono3|apply h3_err; hmono3|apply h3_none]). apply h3_none.
Qed.

Lemma h3_bind_var : forall i t P, id_ok i ->
  h3 P (bind (here (i_rng i)) (fun loc => scopes_add_variable (mkLeaf LVar (i_name i) t false loc))) anyv.
Proof. intros i t P Hok. apply h3_bind_here. apply h3_scopes_add_variable. exact Hok. Qed.

Lemma values_ok3_all : forall n, values_ok3 n.
Proof.
  induction n as [|n (IHv & IHi & IHs & IHa & IHb & IHo)].
  - split; [|split; [|split; [|split; [|split]]]].
    + intros v P HP _. apply h3_bad.
    + intros x P HP _. apply h3_bad.
    + intros sv P HP _. apply h3_bad.
    + intros a P HP _. apply h3_bad.
    + intros op an vs r P HP _ _. apply h3_bad.
    + intros op a vs r P HP _. apply h3_bad.
  - assert (Hvals : forall vs P, mono3 P -> Forall value_ok vs -> h3 P (iterM (index_value n) vs) anyv).
    { intros vs P HP Hok. apply h3_iterM; [exact HP|]. intros v Hv. apply IHv; [exact HP|]. rewrite Forall_forall in Hok. apply Hok. exact Hv. }
    assert (Hmap : forall vs P, mono3 P -> Forall value_ok vs -> h3 P (mapM_opt (index_value n) vs) anyv).
    { intros vs P HP Hok. apply h3_mapM_opt; [exact HP|]. intros v Hv. apply IHv; [exact HP|]. rewrite Forall_forall in Hok. apply Hok. exact Hv. }
    split; [|split; [|split; [|split; [|split]]]].
    + (* index_value *)
      intros [r inners] P HP Hok. cbn [value_ok] in Hok. apply inners_ok_forall in Hok.
      destruct inners as [|first rest]; cbn [index_value]; [apply h3_none|]. inversion Hok as [|? ? Hf Hrest]; subst.
      eapply h3_bind; [exact HP|apply h3_try; apply IHi; [exact HP|exact Hf]|]. intros t1.
      eapply h3_seq; [hmono3| |].
      * apply h3_iterM; [hmono3|]. intros y Hy. apply IHi; [hmono3|]. rewrite Forall_forall in Hrest. apply Hrest. exact Hy.
      * destruct rest; [apply h3_lift; intros; exact I|hret3].
    + (* index_inner *)
      intros [sv sufs] P HP [Hs Hsufs]; cbn [index_inner].
      eapply h3_bind; [exact HP|apply IHs; [exact HP|exact Hs]|]. intros t0. apply h3_sufs_loop; [hmono3|exact Hsufs].
    + (* index_simple *)
      intros sv P HP Hok. destruct sv; cbn [index_simple]; try hret3.
      * cbn in Hok. apply vals_ok_forall in Hok. eapply h3_seq; [exact HP|apply Hvals; assumption|hret3].
      * cbn in Hok. apply vals_ok_forall in Hok. eapply h3_bind; [exact HP|apply Hmap; assumption|]. intros os. hret3.
      * cbn in Hok. apply vals_ok_forall in Hok. eapply h3_seq; [exact HP|apply Hvals; assumption|hret3].
      * (* SId *)
        cbn in Hok. apply h3_bind_here.
        eapply h3_bind; [hmono3|apply h3_state|]. intros x.
        destruct (resolve_id x (i_name i)) as [sym|] eqn:E.
        -- eapply h3_seq; [hmono3|eapply (h3_add_reference _ _ (i_name i)); [solve_good|exact Hok]|].
           eapply h3_bind; [hmono3|apply h3_state|]. intros x'.
           destruct sym.
           ++ eapply h3_bind with (Q1 := anyv); [hmono3|apply h3_lift; intros; exact I|]. intros rc.
              destruct (rc_class rc); [apply h3_none|].
              eapply h3_bind with (Q1 := anyv); [hmono3|apply h3_lift; intros; exact I|]. intros d. hret3.
           ++ apply h3_none.
           ++ eapply h3_bind with (Q1 := anyv); [hmono3|apply h3_lift; intros; exact I|]. intros lf.
              destruct (lf_kind lf); try hret3. apply h3_none.
        -- destruct (name_eqb (i_name i) name_NAME); [hret3|].
           eapply h3_seq; [hmono3|apply h3_error|apply h3_none].
      * (* SClassVal *)
        cbn in Hok. destruct Hok as [Hid Hargs]. apply args_ok_forall in Hargs. apply h3_bind_here.
        eapply h3_bind; [hmono3|apply h3_state|]. intros x.
        destruct (find_class x (i_name i)) as [cid|] eqn:E.
        -- eapply h3_seq; [hmono3|eapply (h3_add_reference _ _ (i_name i)); [solve_good|exact Hid]|].
           eapply h3_bind; [hmono3|apply h3_state|]. intros x1.
           eapply h3_bind with (Q1 := anyv); [hmono3|apply h3_lift; intros; exact I|]. intros rc.
           eapply h3_bind with (Q1 := anyv); [hmono3| |].
           ++ apply h3_mapM_opt; [hmono3|]. intros a Ha. apply IHa; [hmono3|]. rewrite Forall_forall in Hargs. apply Hargs. exact Ha.
           ++ intros avs. eapply h3_bind; [hmono3|apply h3_state|]. intros x2.
              eapply h3_seq; [hmono3|apply h3_emit; hmono3|hret3].
        -- eapply h3_seq; [hmono3|apply h3_error|apply h3_none].
      * (* SBang *) cbn in Hok. destruct Hok as [Han Hvs]. apply vals_ok_forall in Hvs. apply IHb; assumption.
      * cbn in Hok. apply vals_ok_forall in Hok. eapply h3_seq; [exact HP|apply Hvals; assumption|apply h3_none].
    + (* index_arg *)
      intros a P HP Hok. destruct a; cbn [index_arg]; cbn in Hok.
      * eapply h3_bind; [exact HP|apply h3_try; apply IHv; assumption|]. intros o. hret3.
      * eapply h3_bind; [exact HP|apply h3_try; apply IHv; assumption|]. intros o. hret3.
      * eapply h3_seq; [exact HP|apply h3_err; exact HP|apply h3_none].
    + (* index_bang *)
      intros op an vs r P HP Han Hvs. cbn [index_bang].
      eapply h3_bind; [exact HP|apply h3_index_annot; assumption|]. intros a.
      eapply h3_seq; [hmono3|apply h3_check_arity; hmono3|apply IHo; [hmono3|exact Hvs]].
    + (* index_bang_ops *)
      intros op a vs r P HP Hvs. cbn [index_bang_ops].
      assert (Hdflt :
        h3 P (match bang_check_each op with
              | Some expected =>
                seq (iterM (fun v =>
                         bind (try_ (index_value n v)) (fun o =>
                         match o with
                         | Some t => bind state (fun s => if can_cast s t expected then ret tt else err (value_rng v) DOperand)
                         | None => ret tt
                         end)) vs)
                    (bind state (fun s => lift (snd (bang_post s op a []))))
              | None =>
                bind (mapM_opt (index_value n) vs) (fun os =>
                bind state (fun s =>
                let '(ds, t) := bang_post s op a (combine (map value_rng vs) os) in
                seq (iterM (fun d => err (fst d) DOperand) ds) (lift t)))
              end) anyv).
      { destruct (bang_check_each op) as [expected|].
        - eapply h3_seq; [exact HP| |].
          + apply h3_iterM; [exact HP|]. intros v Hv.
            eapply h3_bind; [exact HP|apply h3_try; apply IHv; [exact HP|rewrite Forall_forall in Hvs; apply Hvs; exact Hv]|]. intros o.
            destruct o as [t|]; [|hret3].
            eapply h3_bind; [hmono3|apply h3_state|]. intros x.
            destruct (can_cast x t expected); [hret3|apply h3_err; hmono3].
          + eapply h3_bind; [exact HP|apply h3_state|]. intros x. apply h3_lift. intros; exact I.
        - eapply h3_bind; [exact HP|apply Hmap; assumption|]. intros os.
          eapply h3_bind; [hmono3|apply h3_state|]. intros x.
          destruct (bang_post x op a (combine (map value_rng vs) os)) as [ds t].
          eapply h3_seq; [hmono3| |apply h3_lift; intros; exact I].
          apply h3_iterM; [hmono3|]. intros d _. apply h3_err. hmono3. }
      destruct op; try exact Hdflt; clear Hdflt.
      * (* XFilter *)
        apply h3_bind_lift. intros var E0. apply h3_bind_lift. intros lst E1. apply h3_bind_lift. intros pred E2.
        pose proof (nth_ok _ _ _ Hvs E0) as Hvar. pose proof (nth_ok _ _ _ Hvs E1) as Hlst. pose proof (nth_ok _ _ _ Hvs E2) as Hpred.
        eapply h3_bind; [exact HP|apply IHv; assumption|]. intros lt.
        apply h3_bind_lift. intros vt _. apply h3_bind_lift. intros i Ei. pose proof (first_ident_ok _ _ Hvar Ei) as Hi.
        eapply h3_seq; [hmono3| |hret3].
        apply h3_scoped; [hmono3|intros; hmono3|intros; split; exact I|].
        eapply h3_seq; [hmono3|apply h3_bind_var; exact Hi|apply IHv; [hmono3|exact Hpred]].
      * (* XFoldl *)
        apply h3_bind_lift. intros init E0. apply h3_bind_lift. intros lst E1. apply h3_bind_lift. intros acc E2.
        apply h3_bind_lift. intros var E3. apply h3_bind_lift. intros expr E4.
        pose proof (nth_ok _ _ _ Hvs E0) as H0. pose proof (nth_ok _ _ _ Hvs E1) as H1. pose proof (nth_ok _ _ _ Hvs E2) as H2.
        pose proof (nth_ok _ _ _ Hvs E3) as H3. pose proof (nth_ok _ _ _ Hvs E4) as H4.
        eapply h3_bind; [exact HP|apply IHv; assumption|]. intros it.
        eapply h3_bind; [hmono3|apply IHv; [hmono3|exact H1]|]. intros lt.
        apply h3_bind_lift. intros et _. apply h3_bind_lift. intros ia Eia. apply h3_bind_lift. intros iv Eiv.
        pose proof (first_ident_ok _ _ H2 Eia) as Hia. pose proof (first_ident_ok _ _ H3 Eiv) as Hiv.
        eapply h3_seq; [hmono3| |hret3].
        apply h3_scoped; [hmono3|intros; hmono3|intros; split; exact I|].
        eapply h3_seq; [hmono3|apply h3_bind_var; exact Hia|].
        eapply h3_seq; [hmono3|apply h3_bind_var; exact Hiv|apply IHv; [hmono3|exact H4]].
      * (* XForEach *)
        apply h3_bind_lift. intros var E0. apply h3_bind_lift. intros sq E1. apply h3_bind_lift. intros expr E2.
        pose proof (nth_ok _ _ _ Hvs E0) as Hvar. pose proof (nth_ok _ _ _ Hvs E1) as Hsq. pose proof (nth_ok _ _ _ Hvs E2) as Hexpr.
        eapply h3_bind; [exact HP|apply IHv; assumption|]. intros st_.
        apply h3_bind_lift. intros vt _. apply h3_bind_lift. intros i Ei. pose proof (first_ident_ok _ _ Hvar Ei) as Hi.
        eapply h3_bind; [hmono3| |intros et; hret3].
        apply h3_try. apply h3_scoped; [hmono3|intros; hmono3|intros; split; exact I|].
        eapply h3_seq; [hmono3|apply h3_bind_var; exact Hi|apply IHv; [hmono3|exact Hexpr]].
Qed.

Lemma h3_index_value : forall n v P, mono3 P -> value_ok v -> h3 P (index_value n v) anyv.
Proof. intros n. apply (values_ok3_all n). Qed.
Lemma h3_index_arg : forall n a P, mono3 P -> arg_ok a -> h3 P (index_arg n a) anyv.
Proof. intros n. apply (values_ok3_all n). Qed.
Lemma h3_index_args : forall n l P, mono3 P -> Forall arg_ok l -> h3 P (index_args n l) anyv.
Proof.
  intros n l P HP Hok. unfold index_args. apply h3_mapM_opt; [exact HP|]. intros a Ha. apply h3_index_arg; [exact HP|].
  rewrite Forall_forall in Hok. apply Hok. exact Ha.
Qed.
Lemma h3_values : forall n vs P, mono3 P -> Forall value_ok vs -> h3 P (iterM (index_value n) vs) anyv.
Proof.
  intros n vs P HP Hok. apply h3_iterM; [exact HP|]. intros v Hv. apply h3_index_value; [exact HP|].
  rewrite Forall_forall in Hok. apply Hok. exact Hv.
Qed.

(** statements *)
Definition classref_ok (c : classref) : Prop := match c with CRef i args _ => id_ok i /\ Forall arg_ok args end.
Definition opt_ok {A} (f : A -> Prop) (o : option A) : Prop := match o with Some x => f x | None => True end.
Definition targ_ok (a : targ) : Prop := match a with TArg t i d => ty_ok t /\ id_ok i /\ opt_ok value_ok d end.
Definition item_ok (it : item) : Prop :=
  match it with
  | IField t i v => ty_ok t /\ id_ok i /\ opt_ok value_ok v
  | ILet i v | IDefvar i v => id_ok i /\ value_ok v
  | IAssert c m => value_ok c /\ value_ok m
  | IDump v => value_ok v
  end.
Fixpoint stmt_ok (x : stmt) : Prop :=
  let stmts := fix go (l : list stmt) : Prop := match l with [] => True | y :: r => stmt_ok y /\ go r end in
  match x with
  | SInclude _ _ => True
  | SAssert c m => value_ok c /\ value_ok m
  | SClass i ta ps b => id_ok i /\ opt_ok (Forall targ_ok) ta /\ Forall classref_ok ps /\ Forall item_ok b
  | SDef nm _ ps b => opt_ok value_ok nm /\ Forall classref_ok ps /\ Forall item_ok b
  | SDefm nm _ ps => opt_ok value_ok nm /\ Forall classref_ok ps
  | SDefset t i b => ty_ok t /\ id_ok i /\ stmts b
  | SDefvar i v => id_ok i /\ value_ok v
  | SDump v => value_ok v
  | SForeach i init b => id_ok i /\ match init with FeRange => True | FeValue v => value_ok v end /\ stmts b
  | SIf c th el => value_ok c /\ stmts th /\ match el with Some e => stmts e | None => True end
  | SLet vs b => Forall value_ok vs /\ stmts b
  | SMulticlass i ta ps b => id_ok i /\ opt_ok (Forall targ_ok) ta /\ Forall classref_ok ps /\ stmts b
  end.
Lemma stmts_ok_forall : forall l,
  (fix go (l : list stmt) : Prop := match l with [] => True | y :: r => stmt_ok y /\ go r end) l <-> Forall stmt_ok l.
Proof.
  induction l as [|x r IH]; [split; intros; [constructor|exact I]|]. split.
  - intros [H1 H2]. constructor; [exact H1|apply IH; exact H2].
  - intros H. inversion H; subst. split; [assumption|apply IH; assumption].
Qed.

Lemma h3_resolve_class : forall n c P, mono3 P -> classref_ok c -> h3 P (resolve_class_ref_as_class n c) (fun cid s => cid < nrec s).
Proof.
  intros n [i args r] P HP [Hid Hargs]. cbn [resolve_class_ref_as_class].
  apply h3_bind_here.
  eapply h3_bind; [hmono3|apply h3_state|]. intros x.
  destruct (find_class x (i_name i)) as [cid|] eqn:E.
  - eapply h3_seq; [hmono3|eapply (h3_add_reference _ _ (i_name i)); [solve_good|exact Hid]|].
    eapply h3_bind; [hmono3|apply h3_state|]. intros x1.
    eapply h3_bind with (Q1 := anyv); [hmono3|apply h3_lift; intros; exact I|]. intros rc.
    eapply h3_bind with (Q1 := anyv); [hmono3|apply h3_index_args; [hmono3|exact Hargs]|]. intros avs.
    eapply h3_bind; [hmono3|apply h3_state|]. intros x2.
    eapply h3_seq; [hmono3|apply h3_emit; hmono3|]. apply h3_ret.
    intros s _ H. destr_conj.
    match goal with Hx : Inv3 x, Hex : ext3 x s |- _ =>
      destruct (find_class_good x _ _ Hx E) as (Hok & _); destruct Hex as ((Hl & _) & _); cbn in Hok; lia end.
  - eapply h3_seq; [hmono3|apply h3_error|apply h3_none].
Qed.
Lemma h3_resolve_multiclass : forall n c P, mono3 P -> classref_ok c -> h3 P (resolve_class_ref_as_multiclass n c) (fun mid s => mid < nmc s).
Proof.
  intros n [i args r] P HP [Hid Hargs]. cbn [resolve_class_ref_as_multiclass].
  apply h3_bind_here.
  eapply h3_bind; [hmono3|apply h3_state|]. intros x.
  destruct (find_multiclass x (i_name i)) as [mid|] eqn:E.
  - eapply h3_seq; [hmono3|eapply (h3_add_reference _ _ (i_name i)); [solve_good|exact Hid]|].
    eapply h3_bind; [hmono3|apply h3_state|]. intros x1.
    eapply h3_bind with (Q1 := anyv); [hmono3|apply h3_lift; intros; exact I|]. intros rc.
    eapply h3_bind with (Q1 := anyv); [hmono3|apply h3_index_args; [hmono3|exact Hargs]|]. intros avs.
    eapply h3_bind; [hmono3|apply h3_state|]. intros x2.
    eapply h3_seq; [hmono3|apply h3_emit; hmono3|]. apply h3_ret.
    intros s _ H. destr_conj.
    match goal with Hx : Inv3 x, Hex : ext3 x s |- _ =>
      destruct (find_multiclass_good x _ _ Hx E) as (Hok & _); destruct Hex as ((_ & Hl & _) & _); cbn in Hok; lia end.
  - eapply h3_seq; [hmono3|apply h3_error|apply h3_none].
Qed.

Lemma h3_index_parents : forall n ps P, mono3 P -> Forall classref_ok ps -> h3 P (index_parents n ps) anyv.
Proof.
  intros n ps P HP Hok. unfold index_parents. rewrite Forall_forall in Hok.
  eapply h3_bind; [exact HP|apply h3_state|]. intros x.
  destruct (current_record_id x) as [rid|] eqn:Er.
  - apply h3_iterM; [hmono3|]. intros cr Hcr.
    eapply h3_bind; [hmono3|apply h3_try; apply h3_resolve_class; [hmono3|apply Hok; exact Hcr]|]. intros o.
    destruct o as [cid|]; [|hret3].
    destruct (cid =? rid); [apply h3_err; hmono3; intros s s' He Hq y Hy; inversion Hy; subst; specialize (Hq _ eq_refl); destruct He as ((Hl & _) & _); cbn in *; lia|].
    apply h3_rec_add_parent. intros s Hv [_ Hq]. apply (Hq cid eq_refl).
  - destruct (current_multiclass_id x) as [mid|] eqn:Em.
    + apply h3_iterM; [hmono3|]. intros cr Hcr.
      eapply h3_bind; [hmono3|apply h3_try; apply h3_resolve_multiclass; [hmono3|apply Hok; exact Hcr]|]. intros o.
      destruct o as [p|]; [|hret3].
      apply h3_mc_add_parent. intros s Hv [_ Hq]. apply (Hq p eq_refl).
    + destruct (current_defm_id x); [|apply h3_bad].
      apply h3_iterM; [hmono3|]. intros cr Hcr. eapply h3_any. apply h3_resolve_multiclass; [hmono3|apply Hok; exact Hcr].
Qed.

Lemma h3_index_targ : forall n a P, mono3 P -> targ_ok a -> h3 P (index_targ n a) anyv.
Proof.
  intros n [t i dflt] P HP (Ht & Hi & Hd). cbn [index_targ].
  apply h3_bind_here.
  eapply h3_bind; [hmono3|apply h3_index_ty; [hmono3|exact Ht]|]. intros typ.
  eapply h3_bind; [hmono3|apply (h3_add_leaf (mkLeaf LTArg (i_name i) typ _ _)); exact Hi|]. intros tid. cbn [lf_name].
  eapply h3_bind; [hmono3|apply h3_state|]. intros x.
  eapply h3_seq; [hmono3| |].
  - destruct (current_record_id x) as [rid|]; [apply h3_rec_add_targ; solve_good|].
    destruct (current_multiclass_id x) as [mid|]; [apply h3_mc_add_targ; solve_good|apply h3_bad].
  - destruct dflt as [v|]; [|apply h3_none].
    eapply h3_seq; [hmono3|apply h3_index_value; [hmono3|exact Hd]|apply h3_none].
Qed.

Lemma h3_index_defvar : forall n i v P, mono3 P -> id_ok i -> value_ok v -> h3 P (index_defvar n i v) anyv.
Proof.
  intros n i v P HP Hi Hv. unfold index_defvar. apply h3_bind_here.
  eapply h3_bind; [hmono3|apply h3_try; apply h3_index_value; [hmono3|exact Hv]|]. intros o.
  apply h3_scopes_add_variable. exact Hi.
Qed.

Lemma h3_index_item : forall n it P, mono3 P -> item_ok it -> h3 P (index_item n it) anyv.
Proof.
  intros n it P HP Hok. destruct it as [t i v|i v|i v|c m|v]; cbn [index_item]; cbn in Hok.
  - destruct Hok as (Ht & Hi & Hv).
    eapply h3_bind; [exact HP|apply h3_state|]. intros x.
    destruct (current_record_id x) as [rid|]; [|apply h3_bad].
    apply h3_bind_here.
    eapply h3_bind; [hmono3|apply h3_index_ty; [hmono3|exact Ht]|]. intros typ.
    eapply h3_bind; [hmono3|apply (h3_add_leaf (mkLeaf LField (i_name i) typ false _)); exact Hi|]. intros fid. cbn [lf_name].
    eapply h3_seq; [hmono3|apply h3_rec_add_field; solve_good|].
    apply h3_bind_lift. intros v' Ev. subst v. cbn in Hv.
    eapply h3_bind; [hmono3|apply h3_index_value; [hmono3|exact Hv]|]. intros vt.
    eapply h3_bind; [hmono3|apply h3_state|]. intros x'.
    destruct (can_cast x' vt typ); [apply h3_none|apply h3_err; hmono3].
  - destruct Hok as (Hi & Hv). apply h3_bind_here.
    eapply h3_bind; [hmono3|apply h3_state|]. intros x.
    destruct (current_record_id x) as [rid|]; [|apply h3_bad].
    apply h3_bind_lift. intros fid Ef.
    eapply h3_bind; [hmono3|apply h3_leaf_of; hmono3|]. intros f.
    eapply h3_bind; [hmono3|apply (h3_add_leaf (mkLeaf LField (i_name i) (lf_ty f) false _)); exact Hi|]. intros nid. cbn [lf_name].
    eapply h3_seq; [hmono3|apply h3_rec_add_field; solve_good|].
    eapply h3_seq; [hmono3|eapply (h3_add_reference _ _ (i_name i)); [solve_good|exact Hi]|].
    eapply h3_bind; [hmono3|apply h3_index_value; [hmono3|exact Hv]|]. intros vt.
    eapply h3_bind; [hmono3|apply h3_state|]. intros x'.
    destruct (can_cast x' vt (lf_ty f)); [apply h3_none|apply h3_err; hmono3].
  - destruct Hok as (Hi & Hv). apply h3_index_defvar; assumption.
  - destruct Hok as (Hc & Hm).
    eapply h3_seq; [exact HP|apply h3_index_value; assumption|].
    eapply h3_seq; [exact HP|apply h3_index_value; assumption|apply h3_none].
  - eapply h3_seq; [exact HP|apply h3_index_value; assumption|apply h3_none].
Qed.

Lemma h3_record_body : forall n ps b P, mono3 P -> Forall classref_ok ps -> Forall item_ok b -> h3 P (index_record_body n ps b) anyv.
Proof.
  intros n ps b P HP Hps Hb. unfold index_record_body.
  eapply h3_seq; [exact HP|apply h3_index_parents; assumption|].
  apply h3_iterM; [exact HP|]. intros it Hit. apply h3_index_item; [exact HP|]. rewrite Forall_forall in Hb. apply Hb. exact Hit.
Qed.
Lemma h3_targs : forall n (o : option (list targ)) P, mono3 P -> opt_ok (Forall targ_ok) o ->
  h3 P (match o with Some l => iterM (index_targ n) l | None => ret tt end) anyv.
Proof.
  intros n [l|] P HP Hok; [|hret3]. cbn in Hok. apply h3_iterM; [exact HP|]. intros a Ha. apply h3_index_targ; [exact HP|].
  rewrite Forall_forall in Hok. apply Hok. exact Ha.
Qed.
Lemma name_value_ok : forall v, value_ok v ->
  match v with Val _ (Inner (SId i) _ :: _) => id_ok i | _ => True end.
Proof.
  intros [r [|[sv sufs] rest]] H; [exact I|]. destruct sv; try exact I. cbn in H. destruct H as [[H _] _]. exact H.
Qed.
Lemma h3_index_name_value : forall v P, value_ok v ->
  h3 P (index_name_value v) (fun p _ => W.tok_name toks (cv (snd p)) = Some (fst p)).
Proof.
  intros v P Hok. pose proof (name_value_ok v Hok) as Hn.
  destruct v as [r [|[sv sufs] rest]]; cbn [index_name_value]; try apply h3_none.
  destruct sv; try apply h3_none. apply h3_bind_here. apply h3_ret. intros s _ _. cbn. exact Hn.
Qed.

End AtFile.

(** ---- automation (again: Ltac definitions are local to a section) *)
Ltac hmono3 :=
  repeat first
    [ apply mono3_top | apply mono3_snap | apply mono3_good | apply mono3_kind_good | apply mono3_and
    | apply mono3_lt_nrec | apply mono3_lt_nmc | apply mono3_lt_nleaf | apply mono3_anyv | apply mono3_pure
    | apply mono3_opt; intros ? | assumption
    | (intros ? ? ? ?; exact I) ].
Ltac destr_conj := repeat match goal with H : _ /\ _ |- _ => destruct H end.
Ltac hret3 := apply h3_ret; intros; exact I.

(** ---- `include`: mark the file, push it, index its statements as the current file, pop *)
Lemma pop_file_eq : forall s2 g l, s_trace s2 = g :: l -> pop_file s2 = (Some tt, set_files l (s_indexed s2) s2).
Proof. intros s2 g l H. unfold pop_file. rewrite H. reflexivity. Qed.

Lemma h3_push_body_pop : forall cf stk g (mb : M unit),
  h3 g (cf :: stk) top mb anyv ->
  h3 cf stk (fun s => In g (s_indexed s)) (seq (push_file g) (seq mb pop_file)) anyv.
Proof.
  intros cf stk g mb Hm s0 (Hv0 & Hn0 & Hc0 & Ht0 & Hi0) Hg0.
  set (s1 := set_files (g :: s_trace s0) (s_indexed s0) s0).
  change (seq (push_file g) (seq mb pop_file) s0) with (pop_file (snd (mb s1))).
  destruct (invc_frame s0 s1 Hv0 Hn0 Hc0) as ((Hv1 & Hn1 & Hc1) & He1); try reflexivity.
  { apply (v_scopes _ _ _ _ Hv0). }
  { apply (n_scopes _ Hn0). }
  assert (Hinv1 : Inv3 g (cf :: stk) s1).
  { split; [exact Hv1|]. split; [exact Hn1|]. split; [exact Hc1|].
    split; [change (g :: s_trace s0 = g :: cf :: stk); rewrite Ht0; reflexivity|].
    unfold Idx in *. constructor; [exact Hg0|exact Hi0]. }
  destruct (Hm s1 Hinv1 I) as ((Hv2 & Hn2 & Hc2 & Ht2 & Hi2) & He2 & _).
  rewrite (pop_file_eq _ _ _ Ht2). cbn [fst snd].
  destruct (invc_frame (snd (mb s1)) (set_files (cf :: stk) (s_indexed (snd (mb s1))) (snd (mb s1))) Hv2 Hn2 Hc2)
    as ((Hv3 & Hn3 & Hc3) & He3); try reflexivity.
  { apply (v_scopes _ _ _ _ Hv2). }
  { apply (n_scopes _ Hn2). }
  split; [|split; [|intros; exact I]].
  - split; [exact Hv3|]. split; [exact Hn3|]. split; [exact Hc3|]. split; [reflexivity|].
    unfold Idx in *. inversion Hi2; assumption.
  - eapply ext3_trans; [exact He1|]. eapply ext3_trans; [exact He2|exact He3].
Qed.

Lemma h3_include : forall cf stk g (o : option (list stmt)) (m : list stmt -> M unit) (P : st -> Prop),
  (forall body, o = Some body -> h3 g (cf :: stk) top (m body) anyv) ->
  h3 cf stk P (seq (upd (fun s => set_files (s_trace s) (g :: s_indexed s) s))
                   (bind (lift o) (fun body => seq (push_file g) (seq (m body) pop_file)))) anyv.
Proof.
  intros cf stk g o m P Hm s Hinv Hp.
  destruct (h3_mark_indexed cf stk g P s Hinv Hp) as (Hinv0 & He0 & _).
  set (F := fun body => seq (push_file g) (seq (m body) pop_file)).
  set (s0 := snd (upd (fun s => set_files (s_trace s) (g :: s_indexed s) s) s)) in *.
  change (seq (upd (fun s => set_files (s_trace s) (g :: s_indexed s) s)) (bind (lift o) F) s) with (bind (lift o) F s0).
  assert (Hg0 : In g (s_indexed s0)) by (left; reflexivity).
  destruct o as [body|].
  - change (bind (lift (Some body)) F s0) with (seq (push_file g) (seq (m body) pop_file) s0).
    destruct (h3_push_body_pop cf stk g (m body) (Hm body eq_refl) s0 Hinv0 Hg0) as (H1 & H2 & _).
    split; [exact H1|]. split; [eapply ext3_trans; [exact He0|exact H2]|intros; exact I].
  - change (bind (lift None) F s0) with (@None unit, s0). cbn [fst snd].
    split; [exact Hinv0|]. split; [exact He0|]. intros y Hy; discriminate.
Qed.

(** ---- statements; [files_ok]: the identifiers of file g are identifier tokens OF FILE g *)
Section Stmts.
Variable files : list (list stmt).
Hypothesis files_ok : forall g body, nthN files g = Some body -> Forall (stmt_ok g) body.

Lemma h3_index_stmt : forall n cf stk x P, mono3 P -> stmt_ok cf x -> h3 cf stk P (index_stmt files n x) anyv.
Proof.
  induction n as [|n IH]; intros cf stk x P HP Hok; [apply h3_bad|].
  assert (Hl : forall cf0 stk0 l P0, mono3 P0 -> Forall (stmt_ok cf0) l -> h3 cf0 stk0 P0 (iterM (index_stmt files n) l) anyv).
  { intros cf0 stk0 l P0 HP0 Hall. apply h3_iterM; [exact HP0|]. intros y Hy. apply IH; [exact HP0|].
    rewrite Forall_forall in Hall. apply Hall. exact Hy. }
  destruct x; cbn [index_stmt]; cbn [stmt_ok] in Hok.
  - (* include *)
    destruct target as [g|]; [|eapply h3_seq; [exact HP|apply h3_err; exact HP|apply h3_none]].
    eapply h3_bind; [exact HP|apply h3_state|]. intros x.
    destruct (existsb (N.eqb g) (s_indexed x)) eqn:Eidx; [apply h3_none|].
    apply h3_include. intros body E. apply Hl; [apply mono3_top|apply files_ok; exact E].
  - destruct Hok as [Hc Hm]. eapply h3_seq; [exact HP|apply h3_index_value; assumption|].
    eapply h3_seq; [exact HP|apply h3_index_value; assumption|apply h3_none].
  - (* class *)
    destruct Hok as (Hi & Hta & Hps & Hb). apply h3_bind_here.
    eapply h3_bind; [hmono3|apply h3_add_record; exact Hi|]. intros rid.
    apply h3_scoped; [hmono3|intros; hmono3| |].
    + intros s _ H. destr_conj. split; [|exact I]. match goal with Hg : GoodSym s (SyRecord rid) _ |- _ => destruct Hg as (Ho & _); exact Ho end.
    + eapply h3_seq; [hmono3|apply h3_targs; [hmono3|exact Hta]|apply h3_record_body; [hmono3|exact Hps|exact Hb]].
  - (* def *)
    destruct Hok as (Hnm & Hps & Hb).
    eapply h3_bind with (Q1 := fun did s => did < nrec s); [exact HP| |].
    + destruct nm as [v|].
      * cbn in Hnm. eapply h3_bind; [exact HP|apply h3_index_name_value; exact Hnm|]. intros p.
        intros s Hinv [Hp Htok]. destruct (h3_add_record cf stk (fst p) false (snd p) top Htok s Hinv I) as (H1 & H2 & H3).
        split; [exact H1|]. split; [exact H2|]. intros y Hy. destruct (H3 y Hy) as (Ho & _). exact Ho.
      * eapply h3_seq; [exact HP|apply h3_next_anonymous|]. apply h3_bind_here. apply h3_add_anonymous_def.
    + intros did. apply h3_scoped; [hmono3|intros; hmono3| |apply h3_record_body; [hmono3|exact Hps|exact Hb]].
      intros s _ [_ H]. split; [exact H|exact I].
  - (* defm *)
    destruct Hok as (Hnm & Hps).
    eapply h3_bind with (Q1 := fun did s => did < nleaf s); [exact HP| |].
    + destruct nm as [v|].
      * cbn in Hnm. eapply h3_bind; [exact HP|apply h3_index_name_value; exact Hnm|]. intros p.
        intros s Hinv [Hp Htok].
        destruct (h3_add_leaf cf stk (mkLeaf LDefm (fst p) MUnknown false (snd p)) top Htok s Hinv I) as (H1 & H2 & H3).
        split; [exact H1|]. split; [exact H2|]. intros y Hy. destruct (H3 y Hy) as (Ho & _). exact Ho.
      * eapply h3_seq; [exact HP|apply h3_next_anonymous|]. apply h3_bind_here. apply h3_add_leaf_nopos.
    + intros did. apply h3_scoped; [hmono3|intros; hmono3| |apply h3_index_parents; [hmono3|exact Hps]].
      intros s _ [_ H]. split; [exact H|exact I].
  - (* defset *)
    destruct Hok as (Ht & Hi & Hb). apply stmts_ok_forall in Hb. apply h3_bind_here.
    eapply h3_bind; [hmono3|apply h3_index_ty; [hmono3|exact Ht]|]. intros typ.
    eapply h3_bind; [hmono3|apply (h3_add_defset _ _ (mkLeaf LDefset (i_name i) typ false _)); exact Hi|]. intros did.
    apply h3_scoped; [hmono3|intros; hmono3| |apply Hl; [hmono3|exact Hb]].
    intros s _ H. destr_conj. split; [|exact I]. match goal with Hg : GoodSym s (SyLeaf did) _ |- _ => destruct Hg as (Ho & _); exact Ho end.
  - destruct Hok as [Hi Hv]. apply h3_index_defvar; assumption.
  - eapply h3_seq; [exact HP|apply h3_index_value; assumption|apply h3_none].
  - (* foreach *)
    destruct Hok as (Hi & Hinit & Hb). apply stmts_ok_forall in Hb. apply h3_bind_here.
    eapply h3_bind with (Q1 := anyv); [hmono3| |].
    + eapply h3_any. apply (h3_try _ _ mty _ _ anyv). destruct init as [|v]; [hret3|].
      eapply h3_bind; [hmono3|apply h3_index_value; [hmono3|exact Hinit]|]. intros t. apply h3_lift. intros; exact I.
    + intros o. eapply h3_bind; [hmono3|apply (h3_add_leaf _ _ (mkLeaf LVar (i_name i) _ false _)); exact Hi|]. intros vid. cbn [lf_name].
      apply h3_scoped; [hmono3|intros; hmono3| |apply Hl; [hmono3|exact Hb]].
      intros s _ H. destr_conj. match goal with Hg : GoodSym s (SyLeaf vid) _ |- _ => split; [destruct Hg as (Ho & _); exact Ho|exact Hg] end.
  - (* if *)
    destruct Hok as (Hc & Hth & Hel). apply stmts_ok_forall in Hth.
    eapply h3_seq; [exact HP|apply h3_index_value; assumption|].
    apply h3_iterM; [exact HP|]. intros body Hbody.
    apply h3_scoped; [exact HP|intros; hmono3|intros; split; exact I|]. apply Hl; [exact HP|].
    destruct Hbody as [Hbody|Hbody]; [subst; exact Hth|]. destruct el as [e|]; [|destruct Hbody].
    destruct Hbody as [Hbody|[]]. subst. apply stmts_ok_forall. exact Hel.
  - (* let *)
    destruct Hok as (Hvs & Hb). apply stmts_ok_forall in Hb.
    eapply h3_seq; [exact HP|apply h3_values; assumption|].
    apply h3_scoped; [exact HP|intros; hmono3|intros; split; exact I|]. apply Hl; assumption.
  - (* multiclass *)
    destruct Hok as (Hi & Hta & Hps & Hb). apply stmts_ok_forall in Hb. apply h3_bind_here.
    eapply h3_bind; [hmono3|apply h3_add_multiclass; exact Hi|]. intros mid.
    apply h3_scoped; [hmono3|intros; hmono3| |].
    + intros s _ H. destr_conj. split; [|exact I]. match goal with Hg : GoodSym s (SyMc mid) _ |- _ => destruct Hg as (Ho & _); exact Ho end.
    + eapply h3_seq; [hmono3|apply h3_targs; [hmono3|exact Hta]|].
      eapply h3_seq; [hmono3|apply h3_index_parents; [hmono3|exact Hps]|apply Hl; [hmono3|exact Hb]].
Qed.
End Stmts.

(** ---- the initial state and the workspace theorem *)
Lemma inv3_st0 : Inv3 0 [] st0.
Proof.
  split; [apply valid_st0|]. split; [|split; [|split; [reflexivity|constructor; [left; reflexivity|constructor]]]].
  - split; cbn; try apply Forall_nil. constructor; [split; [apply Forall_nil|exact I]|apply Forall_nil].
  - intros _. change (abs st0) with SM.sm_empty. apply C.coh_empty.
Qed.

Theorem index_ws_inv : forall w,
  (forall g body, nthN (ws_files w) g = Some body -> Forall (stmt_ok g) body) -> Inv3 0 [] (index_ws w).
Proof.
  intros w Hok. unfold index_ws. destruct (ws_files w) as [|root rest] eqn:E; [apply inv3_st0|].
  assert (H : h3 0 [] top (iterM (index_stmt (root :: rest) (ws_fuel w)) root) anyv).
  { apply h3_iterM; [apply mono3_top|]. intros x Hx. apply h3_index_stmt; [exact Hok|apply mono3_top|].
    specialize (Hok 0 root eq_refl). rewrite Forall_forall in Hok. apply Hok. exact Hx. }
  apply (H st0 inv3_st0 I).
Qed.

End WithToks.

(** ---- C06 for the Core fragment (any number of files): identifiers are tokens of their file, the position log is
    single-visit *)
Theorem c06_coherent_core : forall toks w,
  W.toks_sorted toks = true ->
  (forall g body, nthN (ws_files w) g = Some body -> Forall (stmt_ok toks g) body) ->
  let s := index_ws w in
  log_fresh s = true ->
  forall f p t, SM.goto_definition (abs s) f p = SM.SOk (Some t) ->
  exists c n rs,
    W.tok_name toks c = Some n /\ (SM.fr_file c = f /\ SM.fr_lo c <= p /\ p < SM.fr_hi c) /\
    (forall c' n', In (c', n') toks -> (SM.fr_file c' = f /\ SM.fr_lo c' <= p /\ p < SM.fr_hi c') -> c' = c) /\
    W.tok_name toks t = Some n /\
    SM.references (abs s) f p = SM.SOk (Some rs) /\
    (forall r, In r rs -> W.tok_name toks r = Some n /\
       forall q, SM.fr_lo r <= q -> q < SM.fr_hi r -> SM.goto_definition (abs s) (SM.fr_file r) q = SM.SOk (Some t)) /\
    (t = c \/ In c rs).
Proof.
  intros toks w Ht Hok s Hf f p t Hg. destruct (C.toks_sorted_sound _ Ht) as [Hne Hd].
  pose proof (index_ws_inv toks Hne w Hok) as (_ & _ & Hc & _). fold s in Hc.
  exact (C.coherent_queries toks (abs s) Hd (Hc Hf) f p t Hg).
Qed.

(** ---- non-vacuity:  class A { int x; }  class B : A { let x = 1; }  (tokens A@6 x@14 B@25 A@29 x@37) *)
Definition core_ex_toks : list W.tok :=
  [ (SM.mkFR 0 6 7, [65]); (SM.mkFR 0 14 15, [120]); (SM.mkFR 0 25 26, [66]); (SM.mkFR 0 29 30, [65]); (SM.mkFR 0 37 38, [120]) ].
Definition core_ex_root : list stmt :=
  [ SClass (mkId (mkR 0 6 7) [65]) None [] [IField TyInt (mkId (mkR 0 14 15) [120]) None];
    SClass (mkId (mkR 0 25 26) [66]) None [CRef (mkId (mkR 0 29 30) [65]) [] (mkR 0 29 30)]
           [ILet (mkId (mkR 0 37 38) [120]) (Val (mkR 0 41 42) [Inner SInt []])] ].
Example core_ex_hyps :
  W.toks_sorted core_ex_toks = true /\ Forall (stmt_ok core_ex_toks 0) core_ex_root /\
  log_fresh (index_ws (mkWs [core_ex_root] [])) = true /\
  SM.goto_definition (abs (index_ws (mkWs [core_ex_root] []))) 0 37 = SM.SOk (Some (SM.mkFR 0 14 15)) /\
  SM.references (abs (index_ws (mkWs [core_ex_root] []))) 0 14 = SM.SOk (Some [SM.mkFR 0 37 38]).
Proof.
  split; [reflexivity|]. split.
  - repeat constructor.
  - split; [vm_compute; reflexivity|]. split; vm_compute; reflexivity.
Qed.
