(** Property C10, refinement: the model of the implementation (LineIndex::new, pos_to_line, line_to_pos,
    utf16_col, offset_at, to_proto::{position,range}, from_proto::{position,range}) computes the
    specification [pos_of] / [off_of] and never reaches a [Panic] outcome, for every text below 4 GiB.
    Pieces:
      [li_new_ok]            LineIndex::new does not panic and builds exactly [line_starts t] (byte scan of the
                             UTF-8 encoding = character scan of the text)
      [pos_to_line_ok]       partition_point(..) - 1 = [line_of], never underflows
      [line_to_pos_ok]       = [nth_start]
      [utf16_col_ok]         on a character boundary = the specification's column
      [to_proto_position_ok], [to_proto_position_total] (no panic for ANY offset)
      [from_proto_position_ok]   offset_at = [off_of] for ANY (line, column)
      [to_proto_range_ok], [from_proto_range_ok] (ordered LSP range: the TextRange::new assertion holds) *)
From Coq Require Import List NArith Bool Lia ZifyBool ZifyN.
From TG.Model Require Import Chars LineIndex.
From TG.Proofs Require Import LineIndexProofs LineIndexSpec.
Import ListNotations.
Open Scope N_scope.

Arguments N.add : simpl never.
Arguments N.sub : simpl never.
Arguments N.mul : simpl never.
Arguments N.div : simpl never.
Arguments N.modulo : simpl never.
Arguments N.ltb : simpl never.
Arguments N.leb : simpl never.
Arguments N.eqb : simpl never.
Arguments N.min : simpl never.
Arguments N.max : simpl never.
Arguments N.of_nat : simpl never.
Arguments N.to_nat : simpl never.
Arguments utf8_len : simpl never.
Arguments utf16_len : simpl never.

(* ------------------------------------------------------------------------------------------ *)
(** * The UTF-8 encoding *)

Lemma lenN_app a b : lenN (a ++ b) = lenN a + lenN b.
Proof. induction a as [|x a IH]; cbn [app lenN]; [lia|]. rewrite IH. lia. Qed.

Lemma lenN_utf8 c : lenN (utf8_bytes c) = utf8_len c.
Proof.
  unfold utf8_bytes, utf8_len. destruct (c <? 128); [reflexivity|]. destruct (c <? 2048); [reflexivity|].
  destruct (c <? 65536); reflexivity.
Qed.

Lemma encode_app a b : encode (a ++ b) = encode a ++ encode b.
Proof. induction a as [|c a IH]; cbn [app encode]; [reflexivity|]. now rewrite IH, app_assoc. Qed.

Lemma lenN_encode t : lenN (encode t) = bytes t.
Proof. induction t as [|c r IH]; cbn [encode bytes lenN]; [reflexivity|]. now rewrite lenN_app, lenN_utf8, IH. Qed.

(** a non-ASCII character is encoded by bytes >= 128 only; its first byte is >= 192 *)
Lemma utf8_bytes_high c : 128 <= c -> Forall (fun b => 128 <= b) (utf8_bytes c).
Proof.
  intros H. unfold utf8_bytes. destruct (c <? 128) eqn:E; [lia|].
  set (u1 := c / 64). set (u2 := c mod 64). set (u3 := c / 4096). set (u4 := (c / 64) mod 64).
  set (u5 := c / 262144). set (u6 := (c / 4096) mod 64). clearbody u1 u2 u3 u4 u5 u6.
  destruct (c <? 2048); [|destruct (c <? 65536)]; repeat constructor; lia.
Qed.

Lemma utf8_bytes_lead c : exists b rest, utf8_bytes c = b :: rest /\ ((b <? 128) || (192 <=? b) = true) /\
  (b =? 10) = (c =? 10).
Proof.
  unfold utf8_bytes. destruct (c <? 128) eqn:E.
  - exists c, []. split; [reflexivity|]. split; [lia|reflexivity].
  - set (u1 := c / 64). set (u2 := c mod 64). set (u3 := c / 4096). set (u4 := (c / 64) mod 64).
    set (u5 := c / 262144). set (u6 := (c / 4096) mod 64). clearbody u1 u2 u3 u4 u5 u6.
    destruct (c <? 2048); [|destruct (c <? 65536)]; eexists; eexists; (split; [reflexivity|]); split; lia.
Qed.

Lemma next_lf_encode r : match encode r with n :: _ => n =? 10 | [] => false end = hd_lf r.
Proof.
  destruct r as [|d r]; [reflexivity|]. rewrite hd_lf_cons. cbn [encode].
  destruct (utf8_bytes_lead d) as (b & rest & -> & _ & Hb). cbn [app]. exact Hb.
Qed.

(* ------------------------------------------------------------------------------------------ *)
(** * LineIndex::new *)

Lemma scan_skip hi : forall i rest, Forall (fun b => 128 <= b) hi ->
  scan_bytes i (hi ++ rest) = scan_bytes (i + lenN hi) rest.
Proof.
  induction hi as [|b hi IH]; intros i rest H.
  - cbn [app lenN]. now rewrite N.add_0_r.
  - inversion H as [|? ? Hb Hr]; subst. cbn [app scan_bytes].
    destruct (b =? 10) eqn:E1; [lia|]. destruct (b =? 13) eqn:E2; [lia|]. cbn [orb andb].
    rewrite IH by assumption. cbn [lenN]. f_equal. lia.
Qed.

Lemma scan_encode t : forall i, i + bytes t <= u32_max -> scan_bytes i (encode t) = Ok (starts_from i t).
Proof.
  induction t as [|c r IH]; intros i H; [reflexivity|].
  rewrite bytes_cons in H. rewrite starts_from_cons. cbn [encode]. pose proof (utf8_len_bounds c) as Hu.
  destruct (c <? 128) eqn:E.
  - assert (Hl : utf8_len c = 1) by (apply utf8_len_ascii; lia). rewrite Hl in *.
    unfold utf8_bytes. rewrite E. cbn [app scan_bytes]. rewrite next_lf_encode.
    assert (Hok : to_u32 PTooLarge (i + 1) = Ok (i + 1)).
    { unfold to_u32. unfold u32_max in *. destruct (i + 1 <=? 4294967295) eqn:?; [reflexivity|lia]. }
    destruct (c =? 10) eqn:E10.
    + cbn [orb]. rewrite Hok. cbn [bind]. rewrite IH by lia. reflexivity.
    + destruct (c =? 13) eqn:E13; cbn [orb andb].
      * destruct (hd_lf r); cbn [negb]; [apply IH; lia|]. rewrite Hok. cbn [bind]. rewrite IH by lia. reflexivity.
      * apply IH. lia.
  - rewrite scan_skip by (apply utf8_bytes_high; lia). rewrite lenN_utf8.
    destruct (c =? 10) eqn:E10; [lia|]. destruct (c =? 13) eqn:E13; [lia|]. apply IH. lia.
Qed.

(** the value LineIndex::new builds *)
Definition li_of (t : text) : LineIndex := mkLI t (encode t) (line_starts t).

Theorem li_new_ok t : bytes t <= u32_max -> li_new t = Ok (li_of t).
Proof. intros H. unfold li_new. rewrite scan_encode by lia. reflexivity. Qed.

(* ------------------------------------------------------------------------------------------ *)
(** * pos_to_line, line_to_pos *)

Lemma pp_filter pos l : forall lo, incr lo l ->
  partition_point (fun s => s <=? pos) l = N.of_nat (length (filter (fun s => s <=? pos) l)).
Proof.
  induction l as [|a r IH]; intros lo H; [reflexivity|]. cbn [partition_point filter]. destruct H as [H1 H2].
  destruct (a <=? pos) eqn:E.
  - cbn [length]. rewrite (IH a) by assumption. lia.
  - rewrite filter_none; [reflexivity|]. intros y Hy. pose proof (incr_all_gt _ _ H2 _ Hy). lia.
Qed.

(** the documented precondition of partition_point: the table is partitioned by the predicate *)
Lemma starts_partitioned t pos : exists a b, line_starts t = a ++ b /\
  (forall x, In x a -> (x <=? pos) = true) /\ (forall x, In x b -> (x <=? pos) = false).
Proof.
  assert (G : forall l lo, incr lo l -> exists a b, l = a ++ b /\
            (forall x, In x a -> (x <=? pos) = true) /\ (forall x, In x b -> (x <=? pos) = false)).
  { induction l as [|y r IH]; intros lo H.
    - exists [], []. repeat split; intros ? [].
    - destruct H as [H1 H2]. destruct (y <=? pos) eqn:E.
      + destruct (IH y H2) as (a & b & -> & Ha & Hb). exists (y :: a), b. split; [reflexivity|].
        split; [|assumption]. intros x [<-|Hx]; [assumption|now apply Ha].
      + exists [], (y :: r). split; [reflexivity|]. split; [intros ? []|].
        intros x [<-|Hx]; [assumption|]. pose proof (incr_all_gt _ _ H2 _ Hx). lia. }
  destruct (G (starts_from 0 t) 0 (starts_incr t 0)) as (a & b & E & Ha & Hb).
  exists (0 :: a), b. unfold line_starts. rewrite E. split; [reflexivity|]. split; [|assumption].
  intros x [<-|Hx]; [lia|now apply Ha].
Qed.

Theorem pos_to_line_ok t pos : pos_to_line (li_of t) pos = Ok (line_of t pos).
Proof.
  unfold pos_to_line, li_of, line_of, line_starts. cbn [li_starts partition_point filter].
  destruct (0 <=? pos) eqn:E; [|lia]. rewrite (pp_filter pos _ 0) by apply starts_incr. cbn [length].
  destruct (1 + N.of_nat (length (filter (fun s => s <=? pos) (starts_from 0 t))) =? 0) eqn:E2; [lia|].
  f_equal. lia.
Qed.

Lemma line_of_lt t o : line_of t o < N.of_nat (length (line_starts t)).
Proof.
  unfold line_of. pose proof (filter_length_le' (fun s => s <=? o) (line_starts t)).
  unfold line_starts in *. cbn [length] in *. lia.
Qed.

Lemma line_of_le_terms t o : line_of t o <= count_terms t.
Proof. pose proof (line_of_lt t o) as H. unfold line_starts in H. cbn [length] in H. rewrite starts_length in H. lia. Qed.

Lemma get_some l i d : i < N.of_nat (length l) -> get l i = Some (nth (N.to_nat i) l d).
Proof. intros H. unfold get. apply nth_error_nth'. lia. Qed.
Lemma get_none l i : N.of_nat (length l) <= i -> get l i = None.
Proof. intros H. unfold get. apply nth_error_None. lia. Qed.

Theorem line_to_pos_ok t l : bytes t <= u32_max -> line_to_pos (li_of t) l = Ok (nth_start t l).
Proof.
  intros Hb. unfold line_to_pos, li_of. cbn [li_starts].
  destruct (N.lt_ge_cases l (N.of_nat (length (line_starts t)))) as [H|H].
  - rewrite (get_some _ _ (bytes t)) by assumption. reflexivity.
  - rewrite get_none by assumption. unfold text_size_of, to_u32. cbn [li_bytes]. rewrite lenN_encode.
    destruct (bytes t <=? u32_max) eqn:E; [|lia]. f_equal. unfold nth_start. apply eq_sym, nth_overflow. lia.
Qed.

(** in an increasing table the elements satisfying [<= pos] form a prefix *)
Lemma nth_filter_prefix pos d l : forall lo k, incr lo l ->
  (k < length (filter (fun s => s <=? pos) l))%nat -> nth k l d <= pos.
Proof.
  induction l as [|a r IH]; intros lo k H Hk; [cbn [filter length] in Hk; lia|].
  destruct H as [H1 H2]. cbn [filter] in Hk. destruct (a <=? pos) eqn:E.
  - destruct k as [|k']; cbn [nth]; [lia|]. cbn [length] in Hk. apply (IH a); [assumption|lia].
  - rewrite filter_none in Hk; [cbn [length] in Hk; lia|].
    intros y Hy. pose proof (incr_all_gt _ _ H2 _ Hy). lia.
Qed.

Lemma nth_start_le t o : nth_start t (line_of t o) <= o.
Proof.
  unfold nth_start, line_of, line_starts. cbn [filter]. destruct (0 <=? o) eqn:E; [|lia]. cbn [length].
  remember (length (filter (fun s => s <=? o) (starts_from 0 t))) as k eqn:Hk.
  replace (N.to_nat (N.of_nat (S k) - 1)) with k by lia.
  destruct k as [|k']; cbn [nth]; [lia|].
  apply (nth_filter_prefix o (bytes t) _ 0); [apply starts_incr|lia].
Qed.

Lemma nth_start_boundary t l : exists p s, t = p ++ s /\ nth_start t l = bytes p.
Proof.
  unfold nth_start. destruct (nth_in_or_default (N.to_nat l) (line_starts t) (bytes t)) as [H| ->].
  - destruct H as [<-|H]; [now exists [], t|].
    destruct (starts_boundary _ _ _ H) as (p & s & -> & E). exists p, s. split; [reflexivity|]. rewrite E. lia.
  - exists t, []. now rewrite app_nil_r.
Qed.

(* ------------------------------------------------------------------------------------------ *)
(** * str::is_char_boundary, slicing *)

Lemma nthN_app a : forall b i, nthN (a ++ b) (lenN a + i) = nthN b i.
Proof.
  induction a as [|x a IH]; intros b i; cbn [app lenN nthN]; [now rewrite N.add_0_l|].
  destruct (1 + lenN a + i =? 0) eqn:E; [lia|].
  replace (1 + lenN a + i - 1) with (lenN a + i) by lia. apply IH.
Qed.

Theorem is_char_boundary_ok p s : is_char_boundary (encode (p ++ s)) (bytes p) = true.
Proof.
  unfold is_char_boundary. destruct (bytes p =? 0) eqn:E0; [reflexivity|].
  rewrite encode_app. rewrite <- (lenN_encode p). rewrite <- (N.add_0_r (lenN (encode p))) at 1.
  rewrite nthN_app. destruct s as [|c s'].
  - cbn [encode nthN]. rewrite app_nil_r. apply N.eqb_refl.
  - cbn [encode]. destruct (utf8_bytes_lead c) as (b & rest & -> & Hb & _). cbn [app nthN].
    rewrite N.eqb_refl. exact Hb.
Qed.

Lemma is_char_boundary_zero bs : is_char_boundary bs 0 = true.
Proof. reflexivity. Qed.

Lemma walk_back_ok bs : forall fuel e, (N.to_nat e < fuel)%nat ->
  exists e', walk_back fuel bs e = Ok e' /\ is_char_boundary bs e' = true /\ e' <= e.
Proof.
  induction fuel as [|f IH]; intros e H; [lia|]. cbn [walk_back].
  destruct (is_char_boundary bs e) eqn:E; [exists e; split; [reflexivity|split; [assumption|lia]]|].
  destruct (e =? 0) eqn:E0.
  - assert (e = 0) by lia. subst e. rewrite is_char_boundary_zero in E. discriminate.
  - destruct (IH (e - 1) ltac:(lia)) as (e' & H1 & H2 & H3). exists e'. split; [assumption|split; [assumption|lia]].
Qed.

Lemma walk_back_boundary bs fuel e : is_char_boundary bs e = true -> walk_back (S fuel) bs e = Ok e.
Proof. intros H. cbn [walk_back]. now rewrite H. Qed.

Lemma sum_utf16_u16 cs : sum_utf16 cs = u16 cs.
Proof.
  unfold sum_utf16.
  assert (G : forall acc, fold_left (fun acc c => acc + utf16_len c) cs acc = acc + u16 cs).
  { induction cs as [|c r IH]; intros acc; cbn [fold_left u16]; [lia|]. rewrite IH. lia. }
  rewrite G. lia.
Qed.

Lemma u16_chars_between t : forall off a b, u16 (chars_between off a b t) = u16_between off a b t.
Proof.
  induction t as [|c r IH]; intros off a b; [reflexivity|]. cbn [chars_between u16_between].
  destruct ((a <=? off) && (off <? b)); cbn [u16]; rewrite IH; lia.
Qed.

Lemma chars_from_drop t : forall off a, chars_from off a t = drop_bytes a off t.
Proof.
  induction t as [|c r IH]; intros off a; [reflexivity|]. cbn [chars_from drop_bytes].
  destruct (a <=? off) eqn:E1; destruct (off <? a) eqn:E2; try lia; [reflexivity|apply IH].
Qed.

Lemma offset_loop_advance cs : forall off rest, offset_loop off rest cs = advance off rest cs.
Proof.
  induction cs as [|c r IH]; intros off rest; [reflexivity|]. cbn [offset_loop advance].
  destruct ((c =? 10) || (c =? 13)); cbn [orb]; [reflexivity|].
  destruct (rest <? utf16_len c) eqn:E1; destruct (utf16_len c <=? rest) eqn:E2; try lia; apply IH.
Qed.

Lemma to_u32_ok site x : x <= u32_max -> to_u32 site x = Ok x.
Proof. intros H. unfold to_u32. destruct (x <=? u32_max) eqn:E; [reflexivity|lia]. Qed.

(* ------------------------------------------------------------------------------------------ *)
(** * utf16_col, to_proto::position *)

(** what utf16_col does on ANY offset: it never panics *)
Theorem utf16_col_total t o : bytes t <= u32_max -> exists c, utf16_col (li_of t) o = Ok c.
Proof.
  intros Hb. unfold utf16_col. rewrite pos_to_line_ok. cbn [bind]. rewrite line_to_pos_ok by assumption. cbn [bind].
  cbn [li_of li_bytes]. set (e0 := N.min o (lenN (encode t))).
  destruct (walk_back_ok (encode t) (S (N.to_nat e0)) e0 ltac:(lia)) as (e & -> & He & Hle). cbn [bind].
  set (start := nth_start t (line_of t o)).
  assert (Hs : is_char_boundary (encode t) start = true).
  { destruct (nth_start_boundary t (line_of t o)) as (p & s & Ht & Hp). unfold start. rewrite Hp.
    rewrite Ht at 1. apply is_char_boundary_ok. }
  unfold str_slice. cbn [li_of li_bytes li_text].
  assert (Hm : is_char_boundary (encode t) (N.max e start) = true).
  { destruct (N.max_spec e start) as [[_ ->]|[_ ->]]; assumption. }
  rewrite Hs, Hm. destruct (start <=? N.max e start) eqn:E; [|lia]. cbn [andb bind].
  rewrite sum_utf16_u16, u16_chars_between. eexists. apply to_u32_ok.
  pose proof (u16_between_le t 0 start (N.max e start)). lia.
Qed.

Theorem utf16_col_ok t o : bytes t <= u32_max -> on_char_boundary t o ->
  utf16_col (li_of t) o = Ok (u16_between 0 (nth_start t (line_of t o)) o t).
Proof.
  intros Hb (p & s & Ht & Ho). unfold utf16_col. rewrite pos_to_line_ok. cbn [bind].
  rewrite line_to_pos_ok by assumption. cbn [bind]. cbn [li_of li_bytes].
  assert (Hle : o <= bytes t) by (rewrite Ht, bytes_app; lia).
  assert (Hbo : is_char_boundary (encode t) o = true) by (rewrite Ht, Ho; apply is_char_boundary_ok).
  rewrite lenN_encode. replace (N.min o (bytes t)) with o by lia.
  rewrite walk_back_boundary by assumption. cbn [bind].
  pose proof (nth_start_le t o) as Hsl. set (start := nth_start t (line_of t o)) in *.
  assert (Hs : is_char_boundary (encode t) start = true).
  { destruct (nth_start_boundary t (line_of t o)) as (p' & s' & Ht' & Hp'). unfold start. rewrite Hp'.
    rewrite Ht' at 1. apply is_char_boundary_ok. }
  replace (N.max o start) with o by lia.
  unfold str_slice. cbn [li_of li_bytes li_text]. rewrite Hs, Hbo. destruct (start <=? o) eqn:E; [|lia]. cbn [andb bind].
  rewrite sum_utf16_u16, u16_chars_between. apply to_u32_ok.
  pose proof (u16_between_le t 0 start o). lia.
Qed.

Lemma line_u32 t o : bytes t <= u32_max -> to_u32 PLineRange (line_of t o) = Ok (line_of t o).
Proof.
  intros Hb. apply to_u32_ok. pose proof (line_of_le_terms t o). pose proof (count_terms_le_bytes t). lia.
Qed.

Theorem to_proto_position_ok t o : bytes t <= u32_max -> on_char_boundary t o ->
  to_proto_position (li_of t) o = Ok (pos_of t o).
Proof.
  intros Hb Ho. unfold to_proto_position. rewrite pos_to_line_ok. cbn [bind]. rewrite line_u32 by assumption.
  cbn [bind]. rewrite utf16_col_ok by assumption. reflexivity.
Qed.

(** never panics, whatever the offset (inside a character, beyond the text, ...) *)
Theorem to_proto_position_total t o : bytes t <= u32_max -> exists p, to_proto_position (li_of t) o = Ok p.
Proof.
  intros Hb. unfold to_proto_position. rewrite pos_to_line_ok. cbn [bind]. rewrite line_u32 by assumption.
  cbn [bind]. destruct (utf16_col_total t o Hb) as (c & ->). cbn [bind]. now eexists.
Qed.

Theorem to_proto_range_ok t a b : bytes t <= u32_max -> on_char_boundary t a -> on_char_boundary t b ->
  to_proto_range (li_of t) (a, b) = Ok (pos_of t a, pos_of t b).
Proof.
  intros Hb Ha Hb'. unfold to_proto_range. cbn [fst snd]. rewrite !to_proto_position_ok by assumption. reflexivity.
Qed.

Theorem to_proto_range_total t a b : bytes t <= u32_max -> exists r, to_proto_range (li_of t) (a, b) = Ok r.
Proof.
  intros Hb. unfold to_proto_range. cbn [fst snd].
  destruct (to_proto_position_total t a Hb) as (p & ->). destruct (to_proto_position_total t b Hb) as (q & ->).
  cbn [bind]. now eexists.
Qed.

(** to_proto::folding_range: the lines of the two ends, for ANY offsets, never panics *)
Lemma line_unwrap_u32 t o : bytes t <= u32_max -> to_u32 PLineUnwrap (line_of t o) = Ok (line_of t o).
Proof.
  intros Hb. apply to_u32_ok. pose proof (line_of_le_terms t o). pose proof (count_terms_le_bytes t). lia.
Qed.

Theorem to_proto_folding_range_ok t a b : bytes t <= u32_max ->
  to_proto_folding_range (li_of t) (a, b) = Ok (fst (pos_of t a), fst (pos_of t b)).
Proof.
  intros Hb. unfold to_proto_folding_range. cbn [fst snd]. rewrite !pos_to_line_ok. cbn [bind].
  rewrite !line_unwrap_u32 by assumption. reflexivity.
Qed.

(** the wrappers are [position] / [range] *)
Theorem to_proto_wrappers_ok t : bytes t <= u32_max ->
  (forall o, on_char_boundary t o -> to_proto_inlay_hint_position (li_of t) o = Ok (pos_of t o)) /\
  (forall a b, on_char_boundary t a -> on_char_boundary t b ->
     to_proto_location_range (li_of t) (a, b) = Ok (pos_of t a, pos_of t b) /\
     to_proto_diagnostic_range (li_of t) (a, b) = Ok (pos_of t a, pos_of t b) /\
     to_proto_document_link_range (li_of t) (a, b) = Ok (pos_of t a, pos_of t b) /\
     to_proto_document_symbol_range (li_of t) (a, b) =
       Ok ((pos_of t a, pos_of t b), (pos_of t a, pos_of t b))).
Proof.
  intros Hb. split; [intros o Ho; now apply to_proto_position_ok|].
  intros a b Ha Hb'. pose proof (to_proto_range_ok t a b Hb Ha Hb') as H.
  unfold to_proto_location_range, to_proto_diagnostic_range, to_proto_document_link_range,
    to_proto_document_symbol_range. rewrite H. repeat split.
Qed.

(* ------------------------------------------------------------------------------------------ *)
(** * offset_at, from_proto::position *)

Theorem from_proto_position_ok t l c : bytes t <= u32_max ->
  from_proto_position (li_of t) (l, c) = Ok (off_of t l c).
Proof.
  intros Hb. unfold from_proto_position, offset_at. cbn [fst snd li_of li_starts].
  pose proof (off_of_le t l c) as Hle. unfold off_of in *.
  destruct (N.of_nat (length (line_starts t)) <=? l) eqn:E.
  - rewrite get_none by lia. unfold text_size_of. cbn [li_of li_bytes]. rewrite lenN_encode. now apply to_u32_ok.
  - rewrite (get_some _ _ (bytes t)) by lia. fold (nth_start t l). cbv zeta in Hle.
    unfold str_slice_from. cbn [li_of li_bytes li_text].
    assert (Hs : is_char_boundary (encode t) (nth_start t l) = true).
    { destruct (nth_start_boundary t l) as (p & s & Ht & Hp). rewrite Hp. rewrite Ht at 1. apply is_char_boundary_ok. }
    rewrite Hs. cbn [bind]. rewrite offset_loop_advance, chars_from_drop. apply to_u32_ok. lia.
Qed.

(** an ordered LSP range converts without tripping the TextRange::new assertion *)
Theorem from_proto_range_ok t l1 c1 l2 c2 : bytes t <= u32_max -> l1 < l2 \/ (l1 = l2 /\ c1 <= c2) ->
  from_proto_range (li_of t) ((l1, c1), (l2, c2)) = Ok (off_of t l1 c1, off_of t l2 c2).
Proof.
  intros Hb Hord. unfold from_proto_range. cbn [fst snd]. rewrite !from_proto_position_ok by assumption. cbn [bind].
  pose proof (off_of_mono t l1 c1 l2 c2 Hord). destruct (off_of t l1 c1 <=? off_of t l2 c2) eqn:E; [reflexivity|lia].
Qed.

(** a reversed LSP range either converts to an (empty or ordered) range or trips exactly that assertion *)
Theorem from_proto_range_any t p1 p2 : bytes t <= u32_max ->
  from_proto_range (li_of t) (p1, p2) =
    (if off_of t (fst p1) (snd p1) <=? off_of t (fst p2) (snd p2)
     then Ok (off_of t (fst p1) (snd p1), off_of t (fst p2) (snd p2)) else Panic PRangeAssert).
Proof.
  intros Hb. destruct p1 as [l1 c1], p2 as [l2 c2]. unfold from_proto_range. cbn [fst snd].
  rewrite !from_proto_position_ok by assumption. reflexivity.
Qed.

(* ------------------------------------------------------------------------------------------ *)
(** * The refinement theorem *)

Theorem impl_correct t : bytes t <= u32_max ->
  exists li, li_new t = Ok li /\
    (forall o, on_char_boundary t o -> to_proto_position li o = Ok (pos_of t o)) /\
    (forall o, exists p, to_proto_position li o = Ok p) /\
    (forall l c, from_proto_position li (l, c) = Ok (off_of t l c)) /\
    (forall a b, on_char_boundary t a -> on_char_boundary t b ->
                 to_proto_range li (a, b) = Ok (pos_of t a, pos_of t b)) /\
    (forall l1 c1 l2 c2, l1 < l2 \/ (l1 = l2 /\ c1 <= c2) ->
                 from_proto_range li ((l1, c1), (l2, c2)) = Ok (off_of t l1 c1, off_of t l2 c2)).
Proof.
  intros Hb. exists (li_of t). split; [now apply li_new_ok|].
  split; [intros o Ho; now apply to_proto_position_ok|].
  split; [intros o; now apply to_proto_position_total|].
  split; [intros l c; now apply from_proto_position_ok|].
  split; [intros a b Ha Hb'; now apply to_proto_range_ok|].
  intros l1 c1 l2 c2 H. now apply from_proto_range_ok.
Qed.
