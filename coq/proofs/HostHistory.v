(** C16 / C07 / C12 at the level of sessions: [Host.touch] (= lsp Server::set_file_content) and
    histories of touches ([Host.run]).

    [hinv] is the session invariant (holds initially, preserved by every touch, for every world):
      - the id table of the Vfs is a bijection ([wf_fs]);
      - [truthful]: every text the database holds for a file is the text the Vfs returns for its
        path: the latest editor text if the document was ever opened, else the disk text;
      - [opened_known]: every opened document has an id and a text in the database.
    [touch_spec]: a touch computes the path-level walk [pcollect] over the effective file system
    after registering the new text; the three salsa inputs, read through [view] (root path, and for
    every file of the source root in walk order its path, file_content and resolved_include_map
    with targets as paths), are exactly the result of that walk.
    [run_spec]: the same after any history, with [opened] = the reversed history.
    From these: C07 ([history_independent]), C12 ([buffers_win]) and the session-level C16 theorems. *)
From Coq Require Import List NArith Bool Lia Arith.
From TG.Model Require Import Includes Host.
From TG.Proofs Require Import IncludesGraph IncludesRefine HostIndex IncludesLinks.
Import ListNotations.
Local Open Scope nat_scope.

Section History.
Context {path istr : Type} {PA : PathAlg path istr} {PAok : PathAlgOk path istr}.
Notation content := (content istr).
Notation item := (item istr).
Notation world := (world path istr).
Notation fsys := (@fsys path istr).
Notation inputs := (@inputs path istr).
Notation entry := (@entry path istr).
Notation state := (@state path istr).

(** ** the observation of the three inputs, keyed by path *)
Fixpoint tr_links (fs : fsys) (lid : list (rng * N)) : option (list (rng * path)) :=
  match lid with
  | [] => Some []
  | (sid, t) :: r =>
      match path_for_file fs t, tr_links fs r with
      | Some q, Some l => Some ((sid, q) :: l)
      | _, _ => None
      end
  end.

Definition entry_of (fs : fsys) (db : inputs) (x : N * path) : option entry :=
  match fc db (fst x), rim db (fst x) with
  | Some c, Some lid =>
      match tr_links fs lid with Some l => Some (snd x, c, l) | None => None end
  | _, _ => None
  end.

Fixpoint all_some {A : Type} (l : list (option A)) : option (list A) :=
  match l with
  | [] => Some []
  | Some a :: r => match all_some r with Some l' => Some (a :: l') | None => None end
  | None :: _ => None
  end.

(** root path + the workspace in walk order (oldest first) *)
Definition view (st : state) : option (path * list entry) :=
  let '(fs, db) := st in
  match sroot db with
  | None => None
  | Some (fset, root) =>
      match path_for_file fs root, all_some (map (entry_of fs db) fset) with
      | Some p, Some V => Some (p, V)
      | _, _ => None
      end
  end.

Lemma tr_links_rel : forall fs lid l, Forall2 (lrel fs) lid l -> tr_links fs lid = Some l.
Proof.
  intros fs lid l H. induction H as [|[sid t] [sid' q] lid l [A B] _ IH]; [reflexivity|].
  cbn [fst snd] in A, B. subst sid'. cbn [tr_links]. rewrite B, IH. reflexivity.
Qed.

Lemma erel_view : forall fs db fset V,
  Forall2 (erel fs db) fset V -> all_some (map (entry_of fs db) fset) = Some V.
Proof.
  intros fs db fset V H. induction H as [|x e fset V [A [B [C [lid [D E]]]]] _ IH]; [reflexivity|].
  cbn [map all_some]. unfold entry_of at 1. rewrite C, D, (tr_links_rel _ _ _ E), IH.
  destruct e as [[p c] l]. cbn [e_path e_content e_links fst snd] in *. subst p. reflexivity.
Qed.

(** ** the session invariant *)
Variable w : world.

Definition opened_known (fs : fsys) (db : inputs) : Prop :=
  forall q c, assoc q (opened fs) = Some c ->
    exists f, path_for_file fs f = Some q /\ fc db f <> None.

Definition hinv (st : state) : Prop :=
  wf_fs (fst st) /\ truthful w (opened (fst st)) (fst st) (snd st) /\ opened_known (fst st) (snd st).

Lemma hinv_init : hinv st_init.
Proof.
  split; [apply wf_init|]. split.
  - intros f c H. discriminate.
  - intros q c H. discriminate.
Qed.

Lemma assoc_cons : forall (B : Type) (p q : path) (b : B) l,
  assoc q ((p, b) :: l) = if path_eqb p q then Some b else assoc q l.
Proof. reflexivity. Qed.

Lemma rd_cons : forall op p c q,
  rd w ((p, c) :: op) q = if path_eqb p q then Some c else rd w op q.
Proof.
  intros op p c q. unfold rd. rewrite assoc_cons. destruct (path_eqb p q); reflexivity.
Qed.

Definition touch_post (fs : fsys) (p : path) (c : content) (st' : state) (V : list entry) : Prop :=
  exists fset root,
    sroot (snd st') = Some (fset, root) /\
    path_for_file (fst st') root = Some p /\
    Forall2 (erel (fst st') (snd st')) fset V /\
    hinv st' /\
    opened (fst st') = (p, c) :: opened fs /\
    ext (set_open fs p c) (fst st').

Theorem touch_spec : forall fuel fs db p c,
  hinv (fs, db) ->
  match touch fuel w (fs, db) p c with
  | Done st' =>
      exists V, pcollect (read w (set_open fs p c)) (extra w) fuel [p] [] = Done V /\
                touch_post fs p c st' V
  | OutOfFuel => pcollect (read w (set_open fs p c)) (extra w) fuel [p] [] = OutOfFuel
  | Panic e => pcollect (read w (set_open fs p c)) (extra w) fuel [p] [] = Panic e
  end.
Proof.
  intros fuel fs db p c [W [T K]]. cbn [fst snd] in W, T, K.
  unfold touch. set (fs1 := set_open fs p c).
  assert (W1 : wf_fs fs1) by (destruct W; constructor; assumption).
  destruct (assign fs1 p) as [f fs2] eqn:Ea.
  destruct (assign_spec _ _ _ _ W1 Ea) as [W2 [X2 Hf]].
  set (op' := (p, c) :: opened fs).
  assert (Hop2 : opened fs2 = op') by (rewrite (proj1 X2); reflexivity).
  assert (X02 : forall g q, path_for_file fs g = Some q -> path_for_file fs2 g = Some q).
  { intros g q Hg. apply (proj2 X2). exact Hg. }
  assert (T2 : truthful w op' fs2 (set_fc db f c)).
  { intros g cg Hg. cbn [set_fc fc] in Hg. destruct (g =? f)%N eqn:Eg.
    - apply N.eqb_eq in Eg. subst g. injection Hg as <-. exists p. split; [exact Hf|].
      unfold op'. rewrite rd_cons, path_eqb_refl. reflexivity.
    - destruct (T g cg Hg) as [q [A B]]. exists q. split; [apply X02; exact A|].
      unfold op'. rewrite rd_cons. destruct (path_eqb p q) eqn:Epq; [|exact B].
      apply path_eqb_ok in Epq. subst q. apply X02 in A.
      apply N.eqb_neq in Eg. exfalso. apply Eg. eapply pof_inj; eauto. }
  assert (I0 : cinv w op' fs2 (set_fc db f c) [f] [] [p] []).
  { constructor; auto.
    constructor; [|constructor]. split; [exact Hf|]. cbn [set_fc fc]. rewrite N.eqb_refl. discriminate. }
  pose proof (collect_refines w op' fuel _ _ _ _ _ _ I0) as R.
  assert (Erd : forall q, read w fs1 q = rd w op' q) by (intro q; reflexivity).
  rewrite (pcollect_ext (read w fs1) (rd w op') Erd).
  unfold set_root_file.
  destruct (collect fuel w fs2 (set_fc db f c) [f] []) as [[[fs3 db3] fset]| |e]; cbn [same_outcome] in R;
    [|exact R|exact R].
  destruct R as [V [HV [I3 [X3 [S3 M3]]]]]. exists V. split; [exact HV|].
  destruct I3 as [W3 Hop3 T3 _ F3].
  exists fset, f. cbn [fst snd set_sroot sroot].
  split; [reflexivity|]. split; [apply (proj2 X3); exact Hf|].
  split; [eapply Forall2_weaken_in; [exact F3|]; intros x e _ Hxe; exact Hxe|].
  split; [|split; [exact Hop3|exact (ext_trans _ _ _ X2 X3)]].
  split; [exact W3|]. cbn [fst snd]. split.
  - rewrite Hop3. intros g cg Hg. apply T3. exact Hg.
  - intros q cq Hq. rewrite Hop3 in Hq. unfold op' in Hq. rewrite assoc_cons in Hq.
    destruct (path_eqb p q) eqn:Epq.
    + apply path_eqb_ok in Epq. subst q. exists f. split; [apply (proj2 X3); exact Hf|].
      cbn [set_sroot fc]. apply M3. cbn [set_fc fc]. rewrite N.eqb_refl. discriminate.
    + destruct (K q cq Hq) as [g [A B]]. exists g. split; [apply (proj2 X3); apply X02; exact A|].
      cbn [set_sroot fc]. apply M3. cbn [set_fc fc]. destruct (g =? f)%N; [discriminate|exact B].
Qed.

Lemma touch_done : forall fuel st p c st',
  hinv st -> touch fuel w st p c = Done st' ->
  exists V, pcollect (read w (set_open (fst st) p c)) (extra w) fuel [p] [] = Done V /\
            touch_post (fst st) p c st' V.
Proof.
  intros fuel [fs db] p c st' H E. pose proof (touch_spec fuel fs db p c H) as S.
  rewrite E in S. exact S.
Qed.

(** ** histories *)
Lemma run_app : forall fuel h1 h2 st st',
  run fuel w st (h1 ++ h2) = Done st' <->
  exists st1, run fuel w st h1 = Done st1 /\ run fuel w st1 h2 = Done st'.
Proof.
  intros fuel. induction h1 as [|[p c] h1 IH]; intros h2 st st'; cbn [app run].
  - split; [intro H; exists st; auto | intros [st1 [A B]]; injection A as <-; exact B].
  - destruct (touch fuel w st p c) as [st0| |e].
    + apply IH.
    + split; [discriminate | intros [st1 [A _]]; discriminate].
    + split; [discriminate | intros [st1 [A _]]; discriminate].
Qed.

Theorem run_hinv : forall fuel h st st',
  hinv st -> run fuel w st h = Done st' ->
  hinv st' /\ opened (fst st') = rev h ++ opened (fst st).
Proof.
  intros fuel. induction h as [|[p c] h IH]; intros st st' H E; cbn [run] in E.
  - injection E as <-. split; [exact H|reflexivity].
  - destruct (touch fuel w st p c) as [st1| |e] eqn:Et; try discriminate.
    destruct (touch_done _ _ _ _ _ H Et) as [V [_ [fset [root [_ [_ [_ [H1 [O1 _]]]]]]]]].
    destruct (IH st1 st' H1 E) as [H2 O2]. split; [exact H2|].
    rewrite O2, O1. cbn [rev]. rewrite <- app_assoc. reflexivity.
Qed.

(** the latest text the editor sent for a path *)
Definition last_text (h : list (path * content)) (q : path) : option content := assoc q (rev h).

(** the reference: editor text for documents that were opened, disk text otherwise *)
Definition truth (h : list (path * content)) (q : path) : option content :=
  match last_text h q with Some c => Some c | None => disk w q end.

Lemma read_truth : forall fs h q, opened fs = rev h -> read w fs q = truth h q.
Proof. intros fs h q H. unfold read, truth, last_text. rewrite H. reflexivity. Qed.

(** after a non-empty history: the view is the walk over [truth], rooted at the last touched path *)
Theorem run_view : forall fuel h p c st',
  run fuel w st_init (h ++ [(p, c)]) = Done st' ->
  exists st1 V,
    run fuel w st_init h = Done st1 /\ hinv st1 /\
    pcollect (truth (h ++ [(p, c)])) (extra w) fuel [p] [] = Done V /\
    view st' = Some (p, V) /\
    touch_post (fst st1) p c st' V /\ opened (fst st') = rev (h ++ [(p, c)]).
Proof.
  intros fuel h p c st' E. apply run_app in E. destruct E as [st1 [E1 E2]].
  destruct (run_hinv _ _ _ _ hinv_init E1) as [H1 O1]. cbn [st_init fst fs_init opened] in O1.
  rewrite app_nil_r in O1.
  cbn [run] in E2. destruct (touch fuel w st1 p c) as [st2| |e] eqn:Et; try discriminate.
  injection E2 as <-.
  destruct (touch_done _ _ _ _ _ H1 Et) as [V [HV P]].
  assert (Hop : opened (fst st2) = rev (h ++ [(p, c)])).
  { destruct P as [fset [root [_ [_ [_ [_ [O2 _]]]]]]]. rewrite O2, O1, rev_app_distr. reflexivity. }
  exists st1, V. split; [exact E1|]. split; [exact H1|].
  split; [|split; [|split; [exact P|exact Hop]]].
  - rewrite <- HV. symmetry. apply pcollect_ext. intro q. apply read_truth.
    cbn [set_open opened]. rewrite O1, rev_app_distr. reflexivity.
  - destruct P as [fset [root [S [R [F _]]]]]. destruct st2 as [fs2 db2]. cbn [fst snd] in *.
    unfold view. rewrite S, R, (erel_view _ _ _ _ F). reflexivity.
Qed.

End History.
