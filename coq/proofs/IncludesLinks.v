(** C16 (links / not-found): what a [resolved_include_map] built by the walk answers for the
    include statements of its file, in terms of the specification [presolve].

    An [IncludeId] is the text range of the Include node; distinct Include nodes of one parse tree
    have distinct ranges (hypothesis [NoDup (inc_sids items)], checked on every generated case by
    the check).  Under it:
    - [lookup_spec]: looking up the statement [sid] in the map of its file returns exactly what the
      statement resolves to ([None] for an [include] without a file name);
    - [links_spec]: document_link = one link per include statement that resolves, on the range of
      its string, to precisely that file, in document order;
    - [nf_spec_spec]: the not-found diagnostics = the reached include statements that do not resolve. *)
From Coq Require Import List NArith Bool Lia Arith.
From TG.Model Require Import Includes Host.
From TG.Proofs Require Import IncludesGraph IncludesRefine HostIndex.
Import ListNotations.
Local Open Scope nat_scope.

Section Links.
Context {path istr : Type} {PA : PathAlg path istr}.
Notation content := (content istr).
Notation item := (item istr).
Notation fsys := (@fsys path istr).

Lemma rng_eqb_ok : forall a b : rng, rng_eqb a b = true <-> a = b.
Proof.
  intros [a1 a2] [b1 b2]. unfold rng_eqb. cbn [fst snd]. rewrite andb_true_iff, !N.eqb_eq.
  split; [intros [-> ->]; reflexivity | intro H; inversion H; auto].
Qed.

Lemma rng_eqb_refl : forall a : rng, rng_eqb a a = true.
Proof. intro a. apply rng_eqb_ok. reflexivity. Qed.

(** [im_get] for any type of targets *)
Fixpoint im_getA {A : Type} (sid : rng) (m : list (rng * A)) : option A :=
  match m with
  | [] => None
  | (s, f) :: r =>
      match im_getA sid r with
      | Some g => Some g
      | None => if rng_eqb s sid then Some f else None
      end
  end.

Lemma im_get_A : forall sid m, im_get sid m = im_getA sid m.
Proof. induction m as [|[s f] r IH]; cbn [im_get im_getA]; [reflexivity|rewrite IH; reflexivity]. Qed.

Lemma im_getA_notin : forall (A : Type) sid (m : list (rng * A)),
  ~ In sid (map fst m) -> im_getA sid m = None.
Proof.
  induction m as [|[s f] r IH]; intro H; [reflexivity|]. cbn [im_getA map fst In] in *.
  rewrite IH by tauto. destruct (rng_eqb s sid) eqn:E; [|reflexivity].
  apply rng_eqb_ok in E. tauto.
Qed.

(** related maps answer related targets *)
Lemma im_get_rel : forall (A B : Type) (R : A -> B -> Prop) sid (l : list (rng * A)) (pl : list (rng * B)),
  Forall2 (fun a b => fst a = fst b /\ R (snd a) (snd b)) l pl ->
  match im_getA sid l, im_getA sid pl with
  | Some t, Some q => R t q
  | None, None => True
  | _, _ => False
  end.
Proof.
  intros A B R sid l pl H. induction H as [|[s t] [s' q] l pl [E Hr] _ IH]; [exact I|].
  cbn [fst snd] in E, Hr. subst s'. cbn [im_getA].
  destruct (im_getA sid l), (im_getA sid pl); try contradiction; try exact IH.
  destruct (rng_eqb s sid); [exact Hr|exact I].
Qed.

Variable rd : path -> option content.

Definition resolves (dirs : list path) (tgt : option (istr * rng)) : option path :=
  match tgt with Some (s, _) => presolve rd s dirs | None => None end.

Fixpoint inc_sids (its : list item) : list rng :=
  match its with
  | [] => []
  | IInc sid _ _ :: r => sid :: inc_sids r
  | IDecl _ :: r => inc_sids r
  end.

(** specification of document_link: (range of the string, target) of every include that resolves *)
Fixpoint spec_links (dirs : list path) (its : list item) : list (rng * path) :=
  match its with
  | [] => []
  | IInc _ _ (Some (s, lr)) :: r =>
      match presolve rd s dirs with
      | Some q => (lr, q) :: spec_links dirs r
      | None => spec_links dirs r
      end
  | _ :: r => spec_links dirs r
  end.

(** specification of the not-found diagnostics: the reached include statements that do not resolve *)
Fixpoint spec_notfound (dirs : list path) (its : list item) : list rng :=
  match its with
  | [] => []
  | IInc sid true tgt :: r =>
      match resolves dirs tgt with
      | None => sid :: spec_notfound dirs r
      | Some _ => spec_notfound dirs r
      end
  | _ :: r => spec_notfound dirs r
  end.

Lemma presolve_all_fst : forall dirs incs sid,
  In sid (map fst (presolve_all rd dirs incs)) -> In sid (map fst incs).
Proof.
  induction incs as [|[s0 s] r IH]; intros sid H; [exact H|]. cbn [presolve_all] in H.
  cbn [map fst]. destruct (presolve rd s dirs).
  - destruct H as [H|H]; [left; exact H|right; apply IH; exact H].
  - right. apply IH. exact H.
Qed.

Lemma list_includes_sids : forall its sid,
  In sid (map fst (list_includes its)) -> In sid (inc_sids its).
Proof.
  induction its as [|it r IH]; intros sid H; [exact H|].
  destruct it as [s0 re [[s lr]|]|nm]; cbn [list_includes inc_sids] in *.
  - destruct H as [H|H]; [left; exact H|right; apply IH; exact H].
  - right. apply IH. exact H.
  - apply IH. exact H.
Qed.

Lemma lookup_notin : forall dirs its sid,
  ~ In sid (inc_sids its) -> im_getA sid (presolve_all rd dirs (list_includes its)) = None.
Proof.
  intros dirs its sid H. apply im_getA_notin. intro Hi. apply H.
  apply list_includes_sids. eapply presolve_all_fst. exact Hi.
Qed.

Lemma lookup_spec : forall dirs its,
  NoDup (inc_sids its) ->
  forall sid reached tgt, In (IInc sid reached tgt) its ->
  im_getA sid (presolve_all rd dirs (list_includes its)) = resolves dirs tgt.
Proof.
  intros dirs. induction its as [|it r IH]; intros ND sid reached tgt Hin; [contradiction|].
  destruct it as [s0 re0 tgt0|nm].
  - cbn [inc_sids] in ND. inversion ND as [|? ? Hn ND']; subst.
    destruct Hin as [Hin|Hin].
    + inversion Hin; subst. clear Hin. destruct tgt as [[s lr]|]; cbn [list_includes resolves presolve_all].
      * destruct (presolve rd s dirs) as [q|] eqn:Eq.
        -- cbn [im_getA]. rewrite (lookup_notin dirs r sid Hn), rng_eqb_refl. reflexivity.
        -- apply lookup_notin. exact Hn.
      * apply lookup_notin. exact Hn.
    + assert (Hs : In sid (inc_sids r)).
      { clear - Hin. induction r as [|x r IHr]; [contradiction|].
        destruct Hin as [->|Hin]; [left; reflexivity|].
        destruct x; cbn [inc_sids]; [right|]; apply IHr; exact Hin. }
      assert (Hne : rng_eqb s0 sid = false).
      { destruct (rng_eqb s0 sid) eqn:E; [|reflexivity]. apply rng_eqb_ok in E. subst. contradiction. }
      specialize (IH ND' sid reached tgt Hin).
      destruct tgt0 as [[s lr]|]; cbn [list_includes presolve_all]; [|exact IH].
      destruct (presolve rd s dirs); [|exact IH].
      cbn [im_getA]. rewrite IH, Hne. destruct (resolves dirs tgt); reflexivity.
  - cbn [inc_sids list_includes] in *. destruct Hin as [Hin|Hin]; [discriminate|].
    exact (IH ND sid reached tgt Hin).
Qed.

Lemma presolve_all_in : forall dirs incs sid q,
  In (sid, q) (presolve_all rd dirs incs) ->
  exists s, In (sid, s) incs /\ presolve rd s dirs = Some q.
Proof.
  induction incs as [|[s0 s] r IH]; intros sid q H; [contradiction|]. cbn [presolve_all] in H.
  destruct (presolve rd s dirs) as [q0|] eqn:E.
  - destruct H as [H|H].
    + injection H as <- <-. exists s. split; [left; reflexivity|exact E].
    + destruct (IH _ _ H) as [s1 [A B]]. exists s1. split; [right; exact A|exact B].
  - destruct (IH _ _ H) as [s1 [A B]]. exists s1. split; [right; exact A|exact B].
Qed.

Lemma list_includes_in : forall (its : list item) sid (s : istr),
  In (sid, s) (list_includes its) ->
  exists reached lr, In (IInc sid reached (Some (s, lr))) its.
Proof.
  induction its as [|it r IH]; intros sid s H; [contradiction|].
  destruct it as [s0 re [[s1 lr]|]|nm]; cbn [list_includes] in H.
  - destruct H as [H|H].
    + injection H as <- <-. exists re, lr. left. reflexivity.
    + destruct (IH _ _ H) as [re' [lr' A]]. exists re', lr'. right. exact A.
  - destruct (IH _ _ H) as [re' [lr' A]]. exists re', lr'. right. exact A.
  - destruct (IH _ _ H) as [re' [lr' A]]. exists re', lr'. right. exact A.
Qed.

(** ** id level: a map related to [presolve_all] *)
Variable fs : fsys.

Definition tgt_rel (t : N) (q : path) : Prop := path_for_file fs t = Some q.

Lemma lrel_as_rel : forall l pl,
  Forall2 (lrel fs) l pl -> Forall2 (fun a b => fst a = fst b /\ tgt_rel (snd a) (snd b)) l pl.
Proof. intros l pl H. exact H. Qed.

Section OneFile.
Variable dirs : list path.
Variable its : list item.
Variable lid : list (rng * N).
Hypothesis ND : NoDup (inc_sids its).
Hypothesis Hlid : Forall2 (lrel fs) lid (presolve_all rd dirs (list_includes its)).

Lemma lookup_id : forall sid reached tgt, In (IInc sid reached tgt) its ->
  match im_get sid lid, resolves dirs tgt with
  | Some t, Some q => path_for_file fs t = Some q
  | None, None => True
  | _, _ => False
  end.
Proof.
  intros sid reached tgt Hin.
  pose proof (im_get_rel N path tgt_rel sid lid _ (lrel_as_rel _ _ Hlid)) as H.
  rewrite (lookup_spec dirs its ND sid reached tgt Hin) in H. rewrite im_get_A. exact H.
Qed.

Lemma links_spec_gen : forall its', (forall x, In x its' -> In x its) ->
  Forall2 (lrel fs) (links_of lid its') (spec_links dirs its').
Proof.
  induction its' as [|it r IH]; intro Hsub; [constructor|].
  assert (Hr : forall x, In x r -> In x its) by (intros x Hx; apply Hsub; right; exact Hx).
  specialize (IH Hr).
  destruct it as [sid reached [[s lr]|]|nm]; cbn [links_of spec_links]; try exact IH.
  pose proof (lookup_id sid reached (Some (s, lr)) (Hsub _ (or_introl eq_refl))) as H.
  cbn [resolves] in H.
  destruct (im_get sid lid) as [t|], (presolve rd s dirs) as [q|]; try contradiction; [|exact IH].
  constructor; [|exact IH]. split; [reflexivity|exact H].
Qed.

Lemma links_spec : Forall2 (lrel fs) (links_of lid its) (spec_links dirs its).
Proof. apply links_spec_gen. auto. Qed.

Lemma nf_spec_gen : forall its', (forall x, In x its' -> In x its) ->
  nf_spec lid its' = spec_notfound dirs its'.
Proof.
  induction its' as [|it r IH]; intro Hsub; [reflexivity|].
  assert (Hr : forall x, In x r -> In x its) by (intros x Hx; apply Hsub; right; exact Hx).
  specialize (IH Hr).
  destruct it as [sid [|] tgt|nm]; cbn [nf_spec spec_notfound]; try exact IH.
  pose proof (lookup_id sid true tgt (Hsub _ (or_introl eq_refl))) as H.
  destruct (im_get sid lid) as [t|], (resolves dirs tgt) as [q|]; try contradiction;
    [exact IH|rewrite IH; reflexivity].
Qed.

Lemma nf_spec_spec : nf_spec lid its = spec_notfound dirs its.
Proof. apply nf_spec_gen. auto. Qed.

End OneFile.
End Links.
