(** Property C09 composed with C17 (range validity of the modelled analysis, group "symmap"/"bridge") and C10
    (exactness of the position mapping, group "lines"): for every analysis of the model pipeline
    (Pipeline.analyze: texts -> modelled parser -> tree -> CoreAst -> Indexer) and every answer of the modelled
    definition / references handlers and every index diagnostic, the LSP range sent is, in the coordinates of the
    file it names, a position inside that document that converts back (from_proto) to exactly the analysed byte
    span - with only the size hypothesis (texts below 4 GiB) left.
    - [line_containing]     an offset on a character boundary, not between CR and LF, lies on line [count_terms p] and its
                            column is at most the UTF-16 length of that line's content
    - [position_faithful]   what pos_of of a character-boundary offset is, both cases (outside / inside a CR LF pair)
    - [c09_pipeline]        the composition. *)
From Coq Require Import List NArith Bool Lia ZifyBool ZifyN.
From TG.Model Require Import Chars LineIndex ServerProto SymbolMap SymbolWf.
From TG.Model Require CoreAst AstToCore Indexer IndexerOps Pipeline.
From TG.Proofs Require Import LineIndexProofs LineIndexSpec LineIndexImpl ServerProofs SymbolRanges.
From TG.Proofs Require BridgeSymbol IndexerPipeline.
Import ListNotations.
Open Scope N_scope.

(* ------------------------------------------------------------------------------------------ *)
(** * The line of an offset *)

Lemma is_newline_cases c : is_newline c = true <-> c = 13 \/ c = 10.
Proof. unfold is_newline. rewrite orb_true_iff, !N.eqb_eq. tauto. Qed.

Lemma count_terms_no_nl x : existsb is_newline x = false -> count_terms x = 0.
Proof.
  induction x as [|c r IH]; intros H; [reflexivity|]. cbn [existsb] in H. apply orb_false_iff in H. destruct H as [Hc Hr].
  rewrite count_terms_cons, (IH Hr). unfold is_newline in Hc. apply orb_false_iff in Hc. destruct Hc as [H13 H10].
  rewrite H10, H13. reflexivity.
Qed.

Lemma no_newline_existsb x : no_newline x -> existsb is_newline x = false.
Proof.
  unfold no_newline. induction x as [|c r IH]; intros H; [reflexivity|]. cbn [forallb existsb] in *.
  apply andb_true_iff in H. destruct H as [Hc Hr]. rewrite (IH Hr). destruct (is_newline c); [discriminate|reflexivity].
Qed.

Lemma hd_lf_no_nl x : existsb is_newline x = false -> hd_lf x = false.
Proof.
  destruct x as [|c r]; [reflexivity|]. cbn [existsb]. intros H. apply orb_false_iff in H. destruct H as [Hc _].
  rewrite hd_lf_cons. unfold is_newline in Hc. apply orb_false_iff in Hc. tauto.
Qed.

(** [p] = complete lines ++ the unfinished last line *)
Lemma last_line_split p : exists q, p = q ++ last_line p /\ last_line q = [] /\ count_terms q = count_terms p.
Proof.
  induction p as [|c r IH]; [exists []; repeat split|]. cbn [last_line].
  destruct (existsb is_newline r) eqn:Hr.
  - destruct IH as (q & Hq & Hl & Hc).
    assert (Hqn : existsb is_newline q = true).
    { rewrite Hq, existsb_app, (no_newline_existsb _ (last_line_no_newline r)), orb_false_r in Hr. exact Hr. }
    exists (c :: q). split; [cbn [app]; f_equal; exact Hq|]. split.
    + cbn [last_line]. rewrite Hqn. exact Hl.
    + rewrite !count_terms_cons, Hc. f_equal.
      assert (Hh : hd_lf r = hd_lf q).
      { rewrite Hq at 1. apply hd_lf_app_ne. intros ->. discriminate. }
      rewrite Hh. reflexivity.
  - destruct (is_newline c) eqn:Hc.
    + exists [c]. split; [reflexivity|]. split.
      * cbn [last_line existsb]. rewrite Hc. reflexivity.
      * rewrite !count_terms_cons, (count_terms_no_nl _ Hr), (hd_lf_no_nl _ Hr). reflexivity.
    + exists []. split; [reflexivity|]. split; [reflexivity|].
      symmetry. apply count_terms_no_nl. cbn [existsb]. rewrite Hc, Hr. reflexivity.
Qed.

Lemma forallb_app' {A} (f : A -> bool) a b : forallb f (a ++ b) = forallb f a && forallb f b.
Proof. apply forallb_app. Qed.

Theorem line_containing p s : crlf_split p s = false ->
  exists q content rest, is_line (p ++ s) (count_terms p) q content rest /\ u16 (last_line p) <= u16 content.
Proof.
  intros Hs. destruct (last_line_split p) as (q & Hq & Hl & Hc).
  destruct (span_newline s) as (y & rest & Hy & Hyn & Hrest).
  exists q, (last_line p ++ y), rest. split.
  - unfold is_line. split.
    { rewrite Hq at 1. rewrite Hy, <- !app_assoc. reflexivity. }
    split; [exact Hc|]. split; [exact Hl|]. split.
    + replace (p ++ s) with (q ++ ((last_line p ++ y) ++ rest)).
      2:{ rewrite Hq at 2. rewrite Hy, <- !app_assoc. reflexivity. }
      apply split_not_inside_crlf. destruct (last_line p) as [|d ll] eqn:El.
      * cbn [app]. rewrite <- Hy. rewrite app_nil_r in Hq. rewrite <- Hq. exact Hs.
      * unfold crlf_split. replace (hd_lf (((d :: ll) ++ y) ++ rest)) with false; [apply andb_false_r|].
        symmetry. rewrite <- app_assoc. rewrite hd_lf_app_ne by discriminate.
        apply hd_lf_no_nl. apply no_newline_existsb. rewrite <- El. apply last_line_no_newline.
    + split; [|exact Hrest]. unfold no_newline. rewrite forallb_app'.
      apply andb_true_iff. split; [apply last_line_no_newline|exact Hyn].
  - rewrite u16_app. lia.
Qed.

(* ------------------------------------------------------------------------------------------ *)
(** * What the position of a character-boundary offset is *)

(** (i) a position inside the document, (ii) that converts back to the offset; the offset between a CR and its LF
    (the only other case) is sent as one column past the line's content and converts back to the CR *)
Definition faithful (t : text) (o : N) : Prop :=
  let l := fst (pos_of t o) in
  let c := snd (pos_of t o) in
  l <= count_terms t /\
  exists li, li_new t = Ok li /\
    ((~ inside_crlf t o /\
      (exists q content rest, is_line t l q content rest /\ c <= u16 content) /\
      from_proto_position li (pos_of t o) = Ok o) \/
     (inside_crlf t o /\ from_proto_position li (pos_of t o) = Ok (o - 1))).

Theorem position_faithful t o : bytes t <= u32_max -> on_char_boundary t o -> faithful t o.
Proof.
  intros Hb (p & s & -> & ->). unfold faithful. cbv zeta. split.
  { unfold pos_of. cbv zeta. cbn [fst]. apply line_of_le_terms. }
  exists (li_of (p ++ s)). split; [apply li_new_ok; exact Hb|].
  destruct (crlf_split p s) eqn:Hs.
  - right. split; [apply crlf_split_inside; exact Hs|].
    unfold crlf_split in Hs. apply andb_prop in Hs. destruct Hs as [H1 H2].
    destruct (ends_cr_true _ H1) as (p' & ->). destruct (hd_lf_true _ H2) as (s' & ->).
    replace ((p' ++ [13]) ++ 10 :: s') with (p' ++ 13 :: 10 :: s') by (rewrite <- app_assoc; reflexivity).
    replace (bytes (p' ++ [13])) with (bytes p' + 1) by (rewrite bytes_app; reflexivity).
    rewrite pos_of_inside_crlf.
    replace ((p' ++ [13]) ++ 10 :: s') with (p' ++ 13 :: 10 :: s') in Hb by (rewrite <- app_assoc; reflexivity).
    rewrite (from_proto_position_ok _ _ _ Hb), roundtrip_inside_crlf. f_equal. lia.
  - left. split; [apply split_not_inside_crlf; exact Hs|]. rewrite (pos_of_prefix _ _ Hs). cbn [fst snd]. split.
    + destruct (line_containing p s Hs) as (q & content & rest & Hl & Hc). exists q, content, rest. split; assumption.
    + rewrite (from_proto_position_ok _ _ _ Hb), (roundtrip_prefix _ _ Hs). reflexivity.
Qed.

(* ------------------------------------------------------------------------------------------ *)
(** * From the symbol map's ranges (file ids in N, workspace = association list) to the plumbing model *)

Definition content_of (ws : list wtext) (f : file) : text :=
  match fmap_get ws (N.of_nat f) with Some t => t | None => [] end.
Definition loc_of (r : file_range) : file * rng := (N.to_nat (fr_file r), (fr_lo r, fr_hi r)).
Definition small_ws (ws : list wtext) : Prop := forall f t, fmap_get ws f = Some t -> bytes t <= u32_max.

Lemma small_content ws f : small_ws ws -> small (content_of ws) f.
Proof.
  intros H. unfold small, content_of. destruct (fmap_get ws (N.of_nat f)) as [t|] eqn:E; [exact (H _ _ E)|].
  cbn. unfold u32_max. lia.
Qed.

Lemma boundary_firstn (t : text) n : on_char_boundary t (bytes (firstn n t)).
Proof. exists (firstn n t), (skipn n t). split; [symmetry; apply firstn_skipn|reflexivity]. Qed.

Lemma valid_range_ok ws r : range_valid ws r = true ->
  exists t, fmap_get ws (fr_file r) = Some t /\ content_of ws (fst (loc_of r)) = t /\
            range_ok (content_of ws) (fst (loc_of r)) (snd (loc_of r)) /\
            fr_lo r <= fr_hi r /\ fr_hi r <= bytes t.
Proof.
  intros H. destruct (range_valid_spec _ _ H) as (t & Hg & Hle & Hhi & (n1 & H1) & (n2 & H2)).
  exists t. split; [exact Hg|].
  assert (Hc : content_of ws (fst (loc_of r)) = t).
  { unfold content_of, loc_of. cbn [fst]. rewrite N2Nat.id, Hg. reflexivity. }
  split; [exact Hc|]. split; [|split; assumption].
  unfold range_ok. rewrite Hc. unfold loc_of. cbn [snd fst]. rewrite H1, H2. split; apply boundary_firstn.
Qed.

(** what the client receives for one analysed range [r]: the URI of r's file and the range [lr], which denotes r *)
Definition denotes (ws : list wtext) (r : file_range) (lr : lrange) : Prop :=
  exists t, fmap_get ws (fr_file r) = Some t /\
    lr = (pos_of t (fr_lo r), pos_of t (fr_hi r)) /\
    fr_lo r <= fr_hi r /\ fr_hi r <= bytes t /\
    faithful t (fr_lo r) /\ faithful t (fr_hi r).

Lemma valid_denotes ws r : small_ws ws -> range_valid ws r = true ->
  denotes ws r (spec_range (content_of ws) (fst (loc_of r)) (snd (loc_of r))).
Proof.
  intros Hs H. destruct (valid_range_ok _ _ H) as (t & Hg & Hc & (Hb1 & Hb2) & Hle & Hhi).
  exists t. split; [exact Hg|]. unfold spec_range. rewrite Hc in *. cbn [loc_of fst snd] in *.
  split; [reflexivity|]. split; [exact Hle|]. split; [exact Hhi|].
  split; apply position_faithful; auto; exact (Hs _ _ Hg).
Qed.

Lemma Forall2_map_r {A B : Type} (R : A -> B -> Prop) (g : A -> B) (l : list A) :
  (forall x, In x l -> R x (g x)) -> Forall2 R l (map g l).
Proof.
  induction l as [|x r IH]; intros H; cbn [map]; constructor.
  - apply H. left. reflexivity.
  - apply IH. intros y Hy. apply H. right. exact Hy.
Qed.

(* ------------------------------------------------------------------------------------------ *)
(** * The composition *)

Section Pipeline.
Variables (pfuel cfuel : nat) (files : list (text * text)) (root : text).
Variables (a : Pipeline.analysis) (w : CoreAst.workspace).
Hypothesis Han : Pipeline.analyze pfuel cfuel files root = Some a.
Hypothesis Hcore : Pipeline.an_core a = AstToCore.Ok w.

Let S := IndexerOps.abs (Indexer.index_ws w).
Let ws := BridgeSymbol.an_texts a.
Let content := content_of ws.

Hypothesis Hsmall : small_ws ws.

Theorem pipeline_definition (f p : N) (t : file_range) : goto_definition S f p = SOk (Some t) ->
  exists lr, h_definition content (N.to_nat f) (Some (loc_of t)) = Ok (Some (N.to_nat (fr_file t), lr)) /\
             denotes ws t lr.
Proof.
  intros H. destruct (IndexerPipeline.c17_pipeline_core _ _ _ _ _ _ Han Hcore) as (Hd & _).
  pose proof (Hd f p t H) as Hv. fold ws in Hv.
  destruct (valid_range_ok _ _ Hv) as (txt & Hg & Hc & Hr & _).
  eexists. split.
  - apply c09_definition; [apply small_content; exact Hsmall|apply small_content; exact Hsmall|exact Hr].
  - apply valid_denotes; assumption.
Qed.

Theorem pipeline_references (f p : N) (rs : list file_range) : references S f p = SOk (Some rs) ->
  exists lrs, h_references content (N.to_nat f) (Some (map loc_of rs)) = Ok (Some lrs) /\
              Forall2 (fun r out => fst out = N.to_nat (fr_file r) /\ denotes ws r (snd out)) rs lrs.
Proof.
  intros H. destruct (IndexerPipeline.c17_pipeline_core _ _ _ _ _ _ Han Hcore) as (_ & Hr & _).
  assert (Hv : forall r, In r rs -> range_valid ws r = true) by (intros r Hin; exact (Hr f p rs r H Hin)).
  eexists. split.
  - apply c09_references; [apply small_content; exact Hsmall|].
    intros it Hin. apply in_map_iff in Hin. destruct Hin as (r & <- & Hin).
    split; [apply small_content; exact Hsmall|].
    destruct (valid_range_ok _ _ (Hv r Hin)) as (_ & _ & _ & Hok & _). exact Hok.
  - rewrite map_map. apply Forall2_map_r. intros r Hin. cbn [fst snd]. split; [reflexivity|].
    apply valid_denotes; [exact Hsmall|]. apply Hv. exact Hin.
Qed.

(** the diagnostics of the index (sm_diags), grouped per file as update_diagnostics does *)
Theorem pipeline_diagnostics (M : Type) (dm : list (file * list (rng * M))) :
  (forall e d, In e dm -> In d (snd e) ->
     exists r, In r (sm_diags S) /\ fst e = N.to_nat (fr_file r) /\ fst d = (fr_lo r, fr_hi r)) ->
  exists out, h_diagnostics content dm = Ok out /\
    Forall2 (fun e o => fst o = fst e /\
               Forall2 (fun d od => snd od = snd d /\
                          exists r, In r (sm_diags S) /\ fst e = N.to_nat (fr_file r) /\ denotes ws r (fst od)) (snd e) (snd o))
            dm out.
Proof.
  intros Hsrc. destruct (IndexerPipeline.c17_pipeline_core _ _ _ _ _ _ Han Hcore) as (_ & _ & _ & _ & Hd).
  eexists. split.
  - apply c09_diagnostics. intros e He. split; [apply small_content; exact Hsmall|].
    intros d Hin. destruct (Hsrc e d He Hin) as (r & Hr & Hf & Hrg).
    destruct (valid_range_ok _ _ (Hd r Hr)) as (_ & _ & _ & Hok & _).
    unfold loc_of in Hok. cbn [fst snd] in Hok. rewrite Hf, Hrg. exact Hok.
  - apply Forall2_map_r. intros e He. cbn [fst snd]. split; [reflexivity|].
    apply Forall2_map_r. intros d Hin. cbn [fst snd]. split; [reflexivity|].
    destruct (Hsrc e d He Hin) as (r & Hr & Hf & Hrg).
    exists r. split; [exact Hr|]. split; [exact Hf|].
    pose proof (valid_denotes ws r Hsmall (Hd r Hr)) as Hden.
    unfold loc_of in Hden. cbn [fst snd] in Hden. rewrite Hf, Hrg. exact Hden.
Qed.

End Pipeline.

(** the composition in one statement (props/C09.v) *)
Theorem c09_pipeline (pfuel cfuel : nat) (files : list (text * text)) (root : text)
    (a : Pipeline.analysis) (w : CoreAst.workspace) :
  Pipeline.analyze pfuel cfuel files root = Some a -> Pipeline.an_core a = AstToCore.Ok w ->
  let S := IndexerOps.abs (Indexer.index_ws w) in
  let ws := BridgeSymbol.an_texts a in
  let content := content_of ws in
  small_ws ws ->
  (forall f p t, goto_definition S f p = SOk (Some t) ->
     exists lr, h_definition content (N.to_nat f) (Some (loc_of t)) = Ok (Some (N.to_nat (fr_file t), lr)) /\
                denotes ws t lr) /\
  (forall f p rs, references S f p = SOk (Some rs) ->
     exists lrs, h_references content (N.to_nat f) (Some (map loc_of rs)) = Ok (Some lrs) /\
                 Forall2 (fun r out => fst out = N.to_nat (fr_file r) /\ denotes ws r (snd out)) rs lrs) /\
  (forall (M : Type) (dm : list (file * list (rng * M))),
     (forall e d, In e dm -> In d (snd e) ->
        exists r, In r (sm_diags S) /\ fst e = N.to_nat (fr_file r) /\ fst d = (fr_lo r, fr_hi r)) ->
     exists out, h_diagnostics content dm = Ok out /\
       Forall2 (fun e o => fst o = fst e /\
                  Forall2 (fun d od => snd od = snd d /\
                             exists r, In r (sm_diags S) /\ fst e = N.to_nat (fr_file r) /\ denotes ws r (fst od))
                          (snd e) (snd o))
               dm out).
Proof.
  intros Han Hcore S ws content Hs. split; [|split].
  - intros f p t. exact (pipeline_definition _ _ _ _ _ _ Han Hcore Hs f p t).
  - intros f p rs. exact (pipeline_references _ _ _ _ _ _ Han Hcore Hs f p rs).
  - intros M dm. exact (pipeline_diagnostics _ _ _ _ _ _ Han Hcore Hs M dm).
Qed.

(* ------------------------------------------------------------------------------------------ *)
(** * Non-vacuity: two files, non-ASCII text on the lines of the spans
      main.td = include "sub.td"\n/* é */ class Foo : Bar;       sub.td = // ü😀\nclass Bar;  *)

Definition ex_main_path : text := [109;97;105;110;46;116;100].
Definition ex_sub_path : text := [115;117;98;46;116;100].
Definition ex_main : text :=
  [105;110;99;108;117;100;101;32;34;115;117;98;46;116;100;34;10;
   47;42;32;233;32;42;47;32;99;108;97;115;115;32;70;111;111;32;58;32;66;97;114;59].
Definition ex_sub : text := [47;47;32;252;128512;10;99;108;97;115;115;32;66;97;114;59].

Example c09_pipeline_nonvacuous :
  exists a w,
    Pipeline.analyze 200 10 [(ex_main_path, ex_main); (ex_sub_path, ex_sub)] ex_main_path = Some a /\
    Pipeline.an_core a = AstToCore.Ok w /\
    small_ws (BridgeSymbol.an_texts a) /\
    let S := IndexerOps.abs (Indexer.index_ws w) in
    let content := content_of (BridgeSymbol.an_texts a) in
    (* `Bar` in main.td (byte 38) is defined in sub.td, bytes 16..19 = line 1, columns 6..9 of sub.td *)
    goto_definition S 0 38 = SOk (Some (mkFR 1 16 19)) /\
    h_definition content 0%nat (Some (loc_of (mkFR 1 16 19))) = Ok (Some (1%nat, ((1, 6), (1, 9)))) /\
    (* `Foo` (bytes 32..35 of main.td) follows a two-byte character on its line: UTF-16 columns 14..17, byte columns 15..18 *)
    goto_definition S 0 33 = SOk (Some (mkFR 0 32 35)) /\
    h_definition content 0%nat (Some (loc_of (mkFR 0 32 35))) = Ok (Some (0%nat, ((1, 14), (1, 17)))) /\
    references S 1 16 = SOk (Some [mkFR 0 38 41]).
Proof.
  remember (Pipeline.analyze 200 10 [(ex_main_path, ex_main); (ex_sub_path, ex_sub)] ex_main_path) as r eqn:E.
  vm_compute in E. destruct r as [a|]; [|discriminate E]. injection E as E.
  assert (Hc : exists w, Pipeline.an_core a = AstToCore.Ok w).
  { rewrite E. remember (Pipeline.an_core _) as c eqn:Ec. vm_compute in Ec. rewrite Ec. eexists. reflexivity. }
  destruct Hc as [w Hc]. exists a, w. split; [reflexivity|]. split; [exact Hc|].
  assert (Hws : BridgeSymbol.an_texts a = [(0, ex_main); (1, ex_sub)]) by (rewrite E; vm_compute; reflexivity).
  split.
  { intros f t H. rewrite Hws in H. cbn [fmap_get] in H.
    destruct (0 =? f); [injection H as <-; vm_compute; discriminate|].
    destruct (1 =? f); [injection H as <-; vm_compute; discriminate|discriminate H]. }
  cbv zeta. rewrite Hws. rewrite E in Hc. vm_compute in Hc. injection Hc as Ew. rewrite <- Ew. vm_compute. repeat split.
Qed.

(* ------------------------------------------------------------------------------------------ *)
(** * The remaining handlers, from validity in C17's vocabulary ([range_valid ws], what C17 concludes), so that they
      compose with any C17 statement about the corresponding query of PipelineAll (q_links, q_inlay, q_outline) as
      soon as it exists; folding needs no validity at all and is composed with PipelineAll.q_folding here. *)
From TG.Model Require PipelineAll.

Fixpoint sym_valid (ws : list wtext) (f : N) (s : dsym) : Prop :=
  match s with
  | DSym r ch => range_valid ws (mkFR f (fst r) (snd r)) = true /\
                 (fix all (l : list dsym) : Prop := match l with [] => True | x :: xs => sym_valid ws f x /\ all xs end) ch
  end.

Lemma sym_valid_ok ws f : forall s, sym_valid ws f s -> sym_ok (content_of ws) (N.to_nat f) s.
Proof.
  fix IH 1. intros [r ch] [Hr Hch]. cbn [sym_ok]. split.
  - destruct (valid_range_ok _ _ Hr) as (_ & _ & _ & Hok & _). unfold loc_of in Hok. cbn [fst snd fr_file fr_lo fr_hi] in Hok.
    destruct r. exact Hok.
  - induction ch as [|x xs IHch]; [exact I|]. destruct Hch as [Hx Hxs]. split; [apply IH; exact Hx|apply IHch; exact Hxs].
Qed.

Section Valid.
Variable ws : list wtext.
Hypothesis Hsmall : small_ws ws.
Let content := content_of ws.

Theorem valid_document_link (f : N) (l : list (rng * file)) :
  (forall x, In x l -> range_valid ws (mkFR f (fst (fst x)) (snd (fst x))) = true) ->
  h_document_link content (N.to_nat f) (Some l) =
    Ok (Some (map (fun x => (spec_range content (N.to_nat f) (fst x), snd x)) l)) /\
  forall x, In x l -> denotes ws (mkFR f (fst (fst x)) (snd (fst x))) (spec_range content (N.to_nat f) (fst x)).
Proof.
  intros H. split.
  - apply c09_document_link; [apply small_content; exact Hsmall|].
    intros x Hin. destruct (valid_range_ok _ _ (H x Hin)) as (_ & _ & _ & Hok & _).
    unfold loc_of in Hok. cbn [fst snd fr_file fr_lo fr_hi] in Hok. destruct (fst x). exact Hok.
  - intros x Hin. pose proof (valid_denotes ws _ Hsmall (H x Hin)) as Hd.
    unfold loc_of in Hd. cbn [fst snd fr_file fr_lo fr_hi] in Hd. destruct (fst x). exact Hd.
Qed.

Theorem valid_inlay_hint (f : N) (l : list N) :
  (forall o, In o l -> range_valid ws (mkFR f o o) = true) ->
  h_inlay_hint content (N.to_nat f) (Some l) = Ok (Some (map (pos_of (content (N.to_nat f))) l)) /\
  forall o, In o l -> exists t, fmap_get ws f = Some t /\ content (N.to_nat f) = t /\ o <= bytes t /\ faithful t o.
Proof.
  intros H. split.
  - apply c09_inlay_hint; [apply small_content; exact Hsmall|].
    intros o Hin. destruct (valid_range_ok _ _ (H o Hin)) as (_ & _ & _ & (Hok & _) & _). exact Hok.
  - intros o Hin. destruct (valid_range_ok _ _ (H o Hin)) as (t & Hg & Hc & (Hb & _) & _ & Hhi).
    exists t. split; [exact Hg|]. split; [exact Hc|]. split; [exact Hhi|].
    apply position_faithful; [exact (Hsmall _ _ Hg)|]. unfold loc_of in Hb, Hc. cbn [fst snd fr_file fr_lo] in Hb, Hc.
    fold content in Hc. rewrite <- Hc. exact Hb.
Qed.

Theorem valid_document_symbol (f : N) (l : list dsym) :
  (forall s, In s l -> sym_valid ws f s) ->
  h_document_symbol content (N.to_nat f) (Some l) = Ok (Some (map (spec_symbol content (N.to_nat f)) l)).
Proof.
  intros H. apply c09_document_symbol; [apply small_content; exact Hsmall|].
  intros s Hin. apply sym_valid_ok. apply H. exact Hin.
Qed.

(** folding ranges only send line numbers: no validity needed; every line sent exists *)
Theorem valid_folding_range (f : N) (l : list rng) :
  h_folding_range content (N.to_nat f) (Some l) = Ok (Some (map (spec_lines content (N.to_nat f)) l)) /\
  forall r, In r l -> fst (spec_lines content (N.to_nat f) r) <= count_terms (content (N.to_nat f)) /\
                      snd (spec_lines content (N.to_nat f) r) <= count_terms (content (N.to_nat f)).
Proof.
  split; [apply c09_folding_range; apply small_content; exact Hsmall|].
  intros r _. unfold spec_lines, pos_of. cbv zeta. cbn [fst snd]. split; apply line_of_le_terms.
Qed.

End Valid.

(** the folding answer of the complete model analysis (group bridge: PipelineAll.analyze_all / q_folding) *)
Theorem pipeline_all_folding (pfuel cfuel : nat) (files : list (text * text)) (root : text)
    (A : PipelineAll.all_answers) (f : N) (l : list (N * N)) :
  PipelineAll.analyze_all pfuel cfuel files root = Some A -> PipelineAll.q_folding A f = Some l ->
  let ws := BridgeSymbol.an_texts (PipelineAll.aa_an A) in
  let content := content_of ws in
  small_ws ws ->
  h_folding_range content (N.to_nat f) (Some l) = Ok (Some (map (spec_lines content (N.to_nat f)) l)) /\
  forall r, In r l -> fst (spec_lines content (N.to_nat f) r) <= count_terms (content (N.to_nat f)) /\
                      snd (spec_lines content (N.to_nat f) r) <= count_terms (content (N.to_nat f)).
Proof. intros _ _ ws content Hs. exact (valid_folding_range ws Hs f l). Qed.

(* ------------------------------------------------------------------------------------------ *)
(** * The complete model analysis (group bridge: PipelineAll.analyze_all, analyze_all_ranges_valid): definition and
      references on the complete symbol map, and the per-file diagnostics as update_diagnostics sends them (syntax
      errors AND index diagnostics, merged per file), with only the size hypothesis *)
From TG.Proofs Require PipelineAllRanges.

Definition diag_entry {M : Type} (f : N) (l : list (N * N * M)) : file * list (rng * M) :=
  (N.to_nat f, map (fun e => ((fst (fst e), snd (fst e)), snd e)) l).

Theorem pipeline_all (pfuel cfuel : nat) (files : list (text * text)) (root : text) (A : PipelineAll.all_answers) :
  PipelineAll.analyze_all pfuel cfuel files root = Some A ->
  let ws := BridgeSymbol.an_texts (PipelineAll.aa_an A) in
  let content := content_of ws in
  small_ws ws ->
  (forall f p t, PipelineAll.q_goto_sm A f p = SOk (Some t) ->
     exists lr, h_definition content (N.to_nat f) (Some (loc_of t)) = Ok (Some (N.to_nat (fr_file t), lr)) /\
                denotes ws t lr) /\
  (forall f p rs, PipelineAll.q_references_sm A f p = SOk (Some rs) ->
     exists lrs, h_references content (N.to_nat f) (Some (map loc_of rs)) = Ok (Some lrs) /\
                 Forall2 (fun r out => fst out = N.to_nat (fr_file r) /\ denotes ws r (snd out)) rs lrs) /\
  (forall f l, PipelineAll.q_diagnostics A f = Some l ->
     h_diagnostics content [diag_entry f l] =
       Ok [(N.to_nat f, map (fun e => (spec_range content (N.to_nat f) (fst (fst e), snd (fst e)), snd e)) l)] /\
     forall e, In e l ->
       denotes ws (mkFR f (fst (fst e)) (snd (fst e))) (spec_range content (N.to_nat f) (fst (fst e), snd (fst e)))).
Proof.
  intros HA ws content Hs.
  destruct (PipelineAllRanges.analyze_all_ranges_valid _ _ _ _ _ HA) as (Hg & Hr & _ & Hd & _).
  fold ws in Hg, Hr, Hd. split; [|split].
  - intros f p t H. pose proof (Hg f p t H) as Hv.
    destruct (valid_range_ok _ _ Hv) as (_ & _ & _ & Hok & _). eexists. split.
    + apply c09_definition; [apply small_content; exact Hs|apply small_content; exact Hs|exact Hok].
    + apply valid_denotes; assumption.
  - intros f p rs H.
    assert (Hv : forall r, In r rs -> range_valid ws r = true) by (intros r Hin; exact (Hr f p rs r H Hin)).
    eexists. split.
    + apply c09_references; [apply small_content; exact Hs|].
      intros it Hin. apply in_map_iff in Hin. destruct Hin as (r & <- & Hin).
      split; [apply small_content; exact Hs|].
      destruct (valid_range_ok _ _ (Hv r Hin)) as (_ & _ & _ & Hok & _). exact Hok.
    + rewrite map_map. apply Forall2_map_r. intros r Hin. cbn [fst snd]. split; [reflexivity|].
      apply valid_denotes; [exact Hs|]. apply Hv. exact Hin.
  - intros f l Hq.
    assert (Hv : forall e, In e l -> range_valid ws (mkFR f (fst (fst e)) (snd (fst e))) = true).
    { intros [[lo hi] m] Hin. exact (Hd f l lo hi m Hq Hin). }
    split.
    + rewrite (c09_diagnostics content (M := PipelineAll.dmsg) [diag_entry f l]).
      * cbn [map diag_entry fst snd]. rewrite map_map. reflexivity.
      * intros e [<-|[]]. cbn [diag_entry fst snd]. split; [apply small_content; exact Hs|].
        intros d Hin. apply in_map_iff in Hin. destruct Hin as (e0 & <- & Hin). cbn [fst].
        destruct (valid_range_ok _ _ (Hv e0 Hin)) as (_ & _ & _ & Hok & _).
        unfold loc_of in Hok. cbn [fst snd fr_file fr_lo fr_hi] in Hok. exact Hok.
    + intros e Hin. pose proof (valid_denotes ws _ Hs (Hv e Hin)) as Hden.
      unfold loc_of in Hden. cbn [fst snd fr_file fr_lo fr_hi] in Hden. exact Hden.
Qed.
