(** C18 (outline) and C19 (hover signature, inlay hints): theorems about the handler models of Outline.v over the
    symbol-map state machine of SymbolMap.v -- for ALL op sequences / all states / all trees / all ranges. *)
From Coq Require Import List NArith Bool Lia String.
From TG.Gen Require Import GenTokens.
From TG.Model Require Import Chars Tree TreeNav SymbolMap DocComments Outline.
From TG.Proofs Require Import TreeNavProofs DocProofs.
Import ListNotations.
Open Scope N_scope.

(** ---- generic: sres monad, smap ---- *)
Lemma sbind_ok : forall (A B : Type) (r : sres A) (f : A -> sres B) b,
  sbind r f = SOk b -> exists a, r = SOk a /\ f a = SOk b.
Proof. intros A B [a|e] f b H; cbn in H; [eauto|discriminate]. Qed.

Lemma smap_Forall2 : forall (A B : Type) (f : A -> sres B) l r,
  smap f l = SOk r -> Forall2 (fun x y => f x = SOk y) l r.
Proof.
  induction l as [|x l IH]; intros r H; cbn [smap] in H.
  - injection H as <-. constructor.
  - apply sbind_ok in H. destruct H as (y & Hy & H). apply sbind_ok in H. destruct H as (ys & Hys & H).
    injection H as <-. constructor; [exact Hy|now apply IH].
Qed.

Lemma Forall2_length' : forall (A B : Type) (R : A -> B -> Prop) l r, Forall2 R l r -> List.length l = List.length r.
Proof. induction 1; cbn; congruence. Qed.

(** ================================================================================================
    O1. The per-file symbol list holds exactly the global symbols of the file, in insertion order
    ================================================================================================ *)
Definition global_of (o : op) : option (fileid * symbol_id) :=
  match o with
  | OpAddRecord _ _ loc true id => Some (fr_file loc, (KRecord, id))
  | OpAddVariable _ _ loc id => Some (fr_file loc, (KVariable, id))
  | OpAddDefset _ _ loc id => Some (fr_file loc, (KDefset, id))
  | OpAddMulticlass _ loc id => Some (fr_file loc, (KMulticlass, id))
  | OpAddDefm _ loc true id => Some (fr_file loc, (KDefm, id))
  | _ => None
  end.
Definition pushed (f : fileid) (o : op) : list symbol_id :=
  match global_of o with
  | Some (f', s) => if f' =? f then [s] else []
  | None => []
  end.
Definition globals_in (f : fileid) (ops : list op) : list symbol_id := flat_map (pushed f) ops.

Definition file_list (S : symbol_map) (f : fileid) : list symbol_id :=
  match fmap_get (sm_file_syms S) f with Some l => l | None => [] end.

Lemma fmap_get_set : forall (V : Type) (m : list (fileid * V)) f v f',
  fmap_get (fmap_set m f v) f' = if f =? f' then Some v else fmap_get m f'.
Proof.
  induction m as [|[g w] m IH]; intros f v f'; cbn [fmap_set fmap_get].
  - destruct (f =? f'); reflexivity.
  - destruct (g =? f) eqn:E; cbn [fmap_get].
    + apply N.eqb_eq in E. subst g. destruct (f =? f'); reflexivity.
    + rewrite IH. destruct (f =? f') eqn:E2; [|reflexivity].
      apply N.eqb_eq in E2. subst f'. now rewrite E.
Qed.

Lemma file_syms_set_arena : forall S k l, sm_file_syms (set_arena S k l) = sm_file_syms S.
Proof. intros S [] l; reflexivity. Qed.

Lemma file_syms_add_to_pos : forall S loc s S', add_to_pos S loc s = SOk S' -> sm_file_syms S' = sm_file_syms S.
Proof.
  intros S loc s S' H. unfold add_to_pos in H. destruct (fr_is_empty loc); [now injection H as <-|].
  apply sbind_ok in H. destruct H as (m & _ & H). now injection H as <-.
Qed.

Lemma file_list_push : forall S f s f',
  file_list (push_file_sym S f s) f' = file_list S f' ++ (if f =? f' then [s] else []).
Proof.
  intros S f s f'. unfold file_list, push_file_sym. cbn [sm_file_syms set_file_syms].
  rewrite fmap_get_set. destruct (f =? f') eqn:E.
  - apply N.eqb_eq in E. subst f'. reflexivity.
  - now rewrite app_nil_r.
Qed.

Lemma file_list_add_symbol : forall S k e in_list in_pos logged S' f,
  add_symbol S k e in_list in_pos logged = SOk S' ->
  file_list S' f = file_list S f ++
    (if in_list then (if fr_file (e_def e) =? f then [(k, logged)] else []) else []).
Proof.
  intros S k e in_list in_pos logged S' f H. unfold add_symbol, alloc in H.
  apply sbind_ok in H. destruct H as (u & Hc & H).
  unfold check_id in Hc. destruct (logged =? next_id S k) eqn:E; [|discriminate]. apply N.eqb_eq in E.
  set (S1 := set_arena S k (get_arena S k ++ [e])) in *.
  assert (file_list S1 f = file_list S f) as H1 by (unfold file_list, S1; now rewrite file_syms_set_arena).
  set (S2 := if in_list then push_file_sym S1 (fr_file (e_def e)) (k, next_id S k) else S1) in *.
  assert (file_list S2 f = file_list S f ++
          (if in_list then (if fr_file (e_def e) =? f then [(k, logged)] else []) else [])) as H2.
  { unfold S2. destruct in_list; [|now rewrite app_nil_r]. rewrite file_list_push, H1, E. reflexivity. }
  destruct in_pos.
  - apply file_syms_add_to_pos in H. unfold file_list in *. now rewrite H.
  - now injection H as <-.
Qed.

Lemma file_syms_with_cur : forall S k g S', with_cur S k g = SOk S' -> sm_file_syms S' = sm_file_syms S.
Proof.
  intros S k g S' H. unfold with_cur in H. destruct (sm_cur S) as [[k' id]|]; [|discriminate].
  destruct (sym_kind_eqb k k'); [|discriminate]. destruct (get_entry S (k, id)); [|discriminate].
  injection H as <-. unfold update_entry. apply file_syms_set_arena.
Qed.

Lemma file_syms_borrow : forall S s S', borrow_mut S s = SOk S' -> sm_file_syms S' = sm_file_syms S.
Proof. intros S s S' H. unfold borrow_mut in H. destruct (get_entry S s); [|discriminate]. now injection H as <-. Qed.

Lemma file_list_apply_op : forall S o S' f, apply_op S o = SOk S' -> file_list S' f = file_list S f ++ pushed f o.
Proof.
  intros S o S' f H. unfold pushed.
  destruct o; cbn [apply_op global_of] in *;
    try (apply file_syms_with_cur in H; unfold file_list; rewrite H; now rewrite app_nil_r);
    try (apply file_syms_borrow in H; unfold file_list; rewrite H; now rewrite app_nil_r).
  - (* OpAddRecord *)
    assert (forall S1, file_list S1 f = file_list S f ->
            add_symbol S1 KRecord (mkEntry n loc [] (PRecord k [] [] [])) is_global true id = SOk S' ->
            file_list S' f = file_list S f ++ (if is_global then (if fr_file loc =? f then [(KRecord, id)] else []) else [])) as Hk.
    { intros S1 E1 H1. apply (file_list_add_symbol _ _ _ _ _ _ _ f) in H1. cbn [e_def] in H1. now rewrite H1, E1. }
    destruct k; (eapply Hk in H; [|reflexivity]); destruct is_global; exact H.
  - apply (file_list_add_symbol _ _ _ _ _ _ _ f) in H. exact H.
  - apply (file_list_add_symbol _ _ _ _ _ _ _ f) in H. exact H.
  - apply (file_list_add_symbol _ _ _ _ _ _ _ f) in H. exact H.
  - apply (file_list_add_symbol _ _ _ _ _ _ _ f) in H. cbn [e_def] in H. exact H.
  - apply (file_list_add_symbol _ _ _ _ _ _ _ f) in H. cbn [e_def] in H. exact H.
  - apply (file_list_add_symbol _ _ _ _ _ _ _ f) in H. cbn [e_def] in H. exact H.
  - apply (file_list_add_symbol _ _ _ _ _ _ _ f) in H. cbn [e_def] in H. destruct is_global; exact H.
  - apply (file_list_add_symbol _ _ _ _ _ _ _ f) in H. exact H.
  - (* OpAddReference *)
    destruct (get_entry S s); [|discriminate]. apply file_syms_add_to_pos in H.
    unfold file_list. rewrite H. unfold update_entry. rewrite file_syms_set_arena. now rewrite app_nil_r.
  - (* OpError *) injection H as <-. now rewrite app_nil_r.
Qed.

Lemma file_list_run_from : forall ops S S' f,
  run_ops_from S ops = SOk S' -> file_list S' f = file_list S f ++ globals_in f ops.
Proof.
  induction ops as [|o ops IH]; intros S S' f H; cbn [run_ops_from globals_in flat_map] in *.
  - injection H as <-. now rewrite app_nil_r.
  - apply sbind_ok in H. destruct H as (S1 & H1 & H2).
    rewrite (IH _ _ f H2), (file_list_apply_op _ _ _ f H1), <- app_assoc. reflexivity.
Qed.

(** a file has an entry in the map iff something was pushed for it (the entry is never empty) *)
Definition file_syms_ok (S : symbol_map) : Prop :=
  forall f l, fmap_get (sm_file_syms S) f = Some l -> l <> [].

Lemma file_syms_ok_apply_op : forall S o S', file_syms_ok S -> apply_op S o = SOk S' -> file_syms_ok S'.
Proof.
  intros S o S' Hok H f l Hl.
  pose proof (file_list_apply_op _ _ _ f H) as E. unfold file_list in E. rewrite Hl in E.
  destruct (fmap_get (sm_file_syms S) f) as [l0|] eqn:E0.
  - specialize (Hok f l0 E0). intros ->. destruct l0; [congruence|discriminate].
  - cbn [app] in E. intros ->.
    (* nothing was pushed for f, so the map is unchanged at f: contradiction with Hl *)
    assert (fmap_get (sm_file_syms S') f = None) as Hn; [|congruence].
    clear Hl Hok. unfold pushed in E.
    assert (forall S1 (k : sym_kind) (e : entry) (il ip : bool) (lg : N), fmap_get (sm_file_syms S1) f = None ->
            (if il then (if fr_file (e_def e) =? f then [((k, lg) : symbol_id)] else []) else []) = [] ->
            add_symbol S1 k e il ip lg = SOk S' -> fmap_get (sm_file_syms S') f = None) as Hadd.
    { intros S1 k e il ip lg N1 Hp Ha. unfold add_symbol, alloc in Ha.
      apply sbind_ok in Ha. destruct Ha as (u & _ & Ha).
      assert (fmap_get (sm_file_syms (if il then push_file_sym (set_arena S1 k (get_arena S1 k ++ [e])) (fr_file (e_def e)) (k, next_id S1 k)
                                      else set_arena S1 k (get_arena S1 k ++ [e]))) f = None) as N2.
      { destruct il.
        - unfold push_file_sym. cbn [sm_file_syms set_file_syms]. rewrite fmap_get_set.
          destruct (fr_file (e_def e) =? f); [discriminate|]. now rewrite file_syms_set_arena.
        - now rewrite file_syms_set_arena. }
      destruct ip; [apply file_syms_add_to_pos in Ha; now rewrite Ha|now injection Ha as <-]. }
    destruct o; cbn [apply_op global_of] in *;
      try (apply file_syms_with_cur in H; now rewrite H);
      try (apply file_syms_borrow in H; now rewrite H).
    + destruct k, is_global; cbn in E;
        (eapply Hadd; [ | |exact H]; [cbn; exact E0|cbn [e_def]; first [reflexivity|symmetry; exact E]]).
    + eapply Hadd; [ | |exact H]; [cbn; exact E0|reflexivity].
    + eapply Hadd; [ | |exact H]; [cbn; exact E0|reflexivity].
    + eapply Hadd; [ | |exact H]; [cbn; exact E0|reflexivity].
    + eapply Hadd; [ | |exact H]; [cbn; exact E0|cbn [e_def]; symmetry; exact E].
    + eapply Hadd; [ | |exact H]; [cbn; exact E0|cbn [e_def]; symmetry; exact E].
    + eapply Hadd; [ | |exact H]; [cbn; exact E0|cbn [e_def]; symmetry; exact E].
    + destruct is_global; cbn in E;
        (eapply Hadd; [ | |exact H]; [cbn; exact E0|cbn [e_def]; first [reflexivity|symmetry; exact E]]).
    + eapply Hadd; [ | |exact H]; [cbn; exact E0|reflexivity].
    + destruct (get_entry S s); [|discriminate]. apply file_syms_add_to_pos in H. rewrite H.
      unfold update_entry. now rewrite file_syms_set_arena.
    + now injection H as <-.
Qed.

Lemma file_syms_ok_run_from : forall ops S S', file_syms_ok S -> run_ops_from S ops = SOk S' -> file_syms_ok S'.
Proof.
  induction ops as [|o ops IH]; intros S S' Hok H; cbn [run_ops_from] in H.
  - now injection H as <-.
  - apply sbind_ok in H. destruct H as (S1 & H1 & H2). eapply IH; [|exact H2]. eapply file_syms_ok_apply_op; eauto.
Qed.

Theorem outline_file_list : forall ops S f, run_ops ops = SOk S ->
  iter_symbols_in_file S f = match globals_in f ops with [] => None | l => Some l end.
Proof.
  intros ops S f H. unfold run_ops in H.
  pose proof (file_list_run_from _ _ _ f H) as E.
  assert (file_syms_ok S) as Hok.
  { eapply file_syms_ok_run_from; [|exact H]. intros g l Hl. discriminate. }
  unfold file_list in E. cbn [sm_empty sm_file_syms fmap_get app] in E. unfold iter_symbols_in_file.
  destruct (fmap_get (sm_file_syms S) f) as [l|] eqn:El.
  - specialize (Hok f l El). rewrite <- E. destruct l; [congruence|reflexivity].
  - now rewrite <- E.
Qed.
