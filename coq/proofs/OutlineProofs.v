(** C18 (outline) and C19 (hover signature, inlay hints): theorems about the handler models of Outline.v over the
    symbol-map state machine of SymbolMap.v -- for ALL op sequences / all states / all trees / all ranges. *)
From Coq Require Import List NArith Bool Lia String.
From TG.Gen Require Import GenTokens.
From TG.Model Require Import Chars Tree TreeNav SymbolMap DocComments Outline.
From TG.Proofs Require Import TreeNavProofs DocProofs.
Import ListNotations.
Open Scope N_scope.

(** ---- generic: sres monad, smap ---- *)
Lemma sbind_ok : forall (A B : Type) (r : sres A) (f : A -> sres B) b,
  sbind r f = SOk b -> exists a, r = SOk a /\ f a = SOk b.
Proof. intros A B [a|e] f b H; cbn in H; [eauto|discriminate]. Qed.

Lemma smap_Forall2 : forall (A B : Type) (f : A -> sres B) l r,
  smap f l = SOk r -> Forall2 (fun x y => f x = SOk y) l r.
Proof.
  induction l as [|x l IH]; intros r H; cbn [smap] in H.
  - injection H as <-. constructor.
  - apply sbind_ok in H. destruct H as (y & Hy & H). apply sbind_ok in H. destruct H as (ys & Hys & H).
    injection H as <-. constructor; [exact Hy|now apply IH].
Qed.

Lemma Forall2_length' : forall (A B : Type) (R : A -> B -> Prop) l r, Forall2 R l r -> List.length l = List.length r.
Proof. induction 1; cbn; congruence. Qed.

(** ================================================================================================
    O1. The per-file symbol list holds exactly the global symbols of the file, in insertion order
    ================================================================================================ *)
Definition global_of (o : op) : option (fileid * symbol_id) :=
  match o with
  | OpAddRecord _ _ loc true id => Some (fr_file loc, (KRecord, id))
  | OpAddVariable _ _ loc id => Some (fr_file loc, (KVariable, id))
  | OpAddDefset _ _ loc id => Some (fr_file loc, (KDefset, id))
  | OpAddMulticlass _ loc id => Some (fr_file loc, (KMulticlass, id))
  | OpAddDefm _ loc true id => Some (fr_file loc, (KDefm, id))
  | _ => None
  end.
Definition pushed (f : fileid) (o : op) : list symbol_id :=
  match global_of o with
  | Some (f', s) => if f' =? f then [s] else []
  | None => []
  end.
Definition globals_in (f : fileid) (ops : list op) : list symbol_id := flat_map (pushed f) ops.

Definition file_list (S : symbol_map) (f : fileid) : list symbol_id :=
  match fmap_get (sm_file_syms S) f with Some l => l | None => [] end.

Lemma fmap_get_set : forall (V : Type) (m : list (fileid * V)) f v f',
  fmap_get (fmap_set m f v) f' = if f =? f' then Some v else fmap_get m f'.
Proof.
  induction m as [|[g w] m IH]; intros f v f'; cbn [fmap_set fmap_get].
  - destruct (f =? f'); reflexivity.
  - destruct (g =? f) eqn:E; cbn [fmap_get].
    + apply N.eqb_eq in E. subst g. destruct (f =? f'); reflexivity.
    + rewrite IH. destruct (f =? f') eqn:E2; [|reflexivity].
      apply N.eqb_eq in E2. subst f'. now rewrite E.
Qed.

Lemma file_syms_set_arena : forall S k l, sm_file_syms (set_arena S k l) = sm_file_syms S.
Proof. intros S [] l; reflexivity. Qed.

Lemma file_syms_add_to_pos : forall S loc s S', add_to_pos S loc s = SOk S' -> sm_file_syms S' = sm_file_syms S.
Proof.
  intros S loc s S' H. unfold add_to_pos in H. destruct (fr_is_empty loc); [now injection H as <-|].
  apply sbind_ok in H. destruct H as (m & _ & H). now injection H as <-.
Qed.

Lemma file_list_push : forall S f s f',
  file_list (push_file_sym S f s) f' = file_list S f' ++ (if f =? f' then [s] else []).
Proof.
  intros S f s f'. unfold file_list, push_file_sym. cbn [sm_file_syms set_file_syms].
  rewrite fmap_get_set. destruct (f =? f') eqn:E.
  - apply N.eqb_eq in E. subst f'. reflexivity.
  - now rewrite app_nil_r.
Qed.

Lemma file_list_add_symbol : forall S k e in_list in_pos logged S' f,
  add_symbol S k e in_list in_pos logged = SOk S' ->
  file_list S' f = file_list S f ++
    (if in_list then (if fr_file (e_def e) =? f then [(k, logged)] else []) else []).
Proof.
  intros S k e in_list in_pos logged S' f H. unfold add_symbol, alloc in H.
  apply sbind_ok in H. destruct H as (u & Hc & H).
  unfold check_id in Hc. destruct (logged =? next_id S k) eqn:E; [|discriminate]. apply N.eqb_eq in E.
  set (S1 := set_arena S k (get_arena S k ++ [e])) in *.
  assert (file_list S1 f = file_list S f) as H1 by (unfold file_list, S1; now rewrite file_syms_set_arena).
  set (S2 := if in_list then push_file_sym S1 (fr_file (e_def e)) (k, next_id S k) else S1) in *.
  assert (file_list S2 f = file_list S f ++
          (if in_list then (if fr_file (e_def e) =? f then [(k, logged)] else []) else [])) as H2.
  { unfold S2. destruct in_list; [|now rewrite app_nil_r]. rewrite file_list_push, H1, E. reflexivity. }
  destruct in_pos.
  - apply file_syms_add_to_pos in H. unfold file_list in *. now rewrite H.
  - now injection H as <-.
Qed.

Lemma file_syms_with_cur : forall S k g S', with_cur S k g = SOk S' -> sm_file_syms S' = sm_file_syms S.
Proof.
  intros S k g S' H. unfold with_cur in H. destruct (sm_cur S) as [[k' id]|]; [|discriminate].
  destruct (sym_kind_eqb k k'); [|discriminate]. destruct (get_entry S (k, id)); [|discriminate].
  injection H as <-. unfold update_entry. apply file_syms_set_arena.
Qed.

Lemma file_syms_borrow : forall S s S', borrow_mut S s = SOk S' -> sm_file_syms S' = sm_file_syms S.
Proof. intros S s S' H. unfold borrow_mut in H. destruct (get_entry S s); [|discriminate]. now injection H as <-. Qed.

Lemma file_list_apply_op : forall S o S' f, apply_op S o = SOk S' -> file_list S' f = file_list S f ++ pushed f o.
Proof.
  intros S o S' f H. unfold pushed.
  destruct o; cbn [apply_op global_of] in *;
    try (apply file_syms_with_cur in H; unfold file_list; rewrite H; now rewrite app_nil_r);
    try (apply file_syms_borrow in H; unfold file_list; rewrite H; now rewrite app_nil_r).
  - (* OpAddRecord *)
    assert (forall S1, file_list S1 f = file_list S f ->
            add_symbol S1 KRecord (mkEntry n loc [] (PRecord k [] [] [])) is_global true id = SOk S' ->
            file_list S' f = file_list S f ++ (if is_global then (if fr_file loc =? f then [(KRecord, id)] else []) else [])) as Hk.
    { intros S1 E1 H1. apply (file_list_add_symbol _ _ _ _ _ _ _ f) in H1. cbn [e_def] in H1. now rewrite H1, E1. }
    destruct k; (eapply Hk in H; [|reflexivity]); destruct is_global; exact H.
  - apply (file_list_add_symbol _ _ _ _ _ _ _ f) in H. exact H.
  - apply (file_list_add_symbol _ _ _ _ _ _ _ f) in H. exact H.
  - apply (file_list_add_symbol _ _ _ _ _ _ _ f) in H. exact H.
  - apply (file_list_add_symbol _ _ _ _ _ _ _ f) in H. cbn [e_def] in H. exact H.
  - apply (file_list_add_symbol _ _ _ _ _ _ _ f) in H. cbn [e_def] in H. exact H.
  - apply (file_list_add_symbol _ _ _ _ _ _ _ f) in H. cbn [e_def] in H. exact H.
  - apply (file_list_add_symbol _ _ _ _ _ _ _ f) in H. cbn [e_def] in H. destruct is_global; exact H.
  - apply (file_list_add_symbol _ _ _ _ _ _ _ f) in H. exact H.
  - (* OpAddReference *)
    destruct (get_entry S s); [|discriminate]. apply file_syms_add_to_pos in H.
    unfold file_list. rewrite H. unfold update_entry. rewrite file_syms_set_arena. now rewrite app_nil_r.
  - (* OpError *) injection H as <-. now rewrite app_nil_r.
Qed.

Lemma file_list_run_from : forall ops S S' f,
  run_ops_from S ops = SOk S' -> file_list S' f = file_list S f ++ globals_in f ops.
Proof.
  induction ops as [|o ops IH]; intros S S' f H; cbn [run_ops_from globals_in flat_map] in *.
  - injection H as <-. now rewrite app_nil_r.
  - apply sbind_ok in H. destruct H as (S1 & H1 & H2).
    rewrite (IH _ _ f H2), (file_list_apply_op _ _ _ f H1), <- app_assoc. reflexivity.
Qed.

(** a file has an entry in the map iff something was pushed for it (the entry is never empty) *)
Definition file_syms_ok (S : symbol_map) : Prop :=
  forall f l, fmap_get (sm_file_syms S) f = Some l -> l <> [].

Lemma file_syms_ok_apply_op : forall S o S', file_syms_ok S -> apply_op S o = SOk S' -> file_syms_ok S'.
Proof.
  intros S o S' Hok H f l Hl.
  pose proof (file_list_apply_op _ _ _ f H) as E. unfold file_list in E. rewrite Hl in E.
  destruct (fmap_get (sm_file_syms S) f) as [l0|] eqn:E0.
  - specialize (Hok f l0 E0). intros ->. destruct l0; [congruence|discriminate].
  - cbn [app] in E. intros ->.
    (* nothing was pushed for f, so the map is unchanged at f: contradiction with Hl *)
    assert (fmap_get (sm_file_syms S') f = None) as Hn; [|congruence].
    clear Hl Hok. unfold pushed in E.
    assert (forall S1 (k : sym_kind) (e : entry) (il ip : bool) (lg : N), fmap_get (sm_file_syms S1) f = None ->
            (if il then (if fr_file (e_def e) =? f then [((k, lg) : symbol_id)] else []) else []) = [] ->
            add_symbol S1 k e il ip lg = SOk S' -> fmap_get (sm_file_syms S') f = None) as Hadd.
    { intros S1 k e il ip lg N1 Hp Ha. unfold add_symbol, alloc in Ha.
      apply sbind_ok in Ha. destruct Ha as (u & _ & Ha).
      assert (fmap_get (sm_file_syms (if il then push_file_sym (set_arena S1 k (get_arena S1 k ++ [e])) (fr_file (e_def e)) (k, next_id S1 k)
                                      else set_arena S1 k (get_arena S1 k ++ [e]))) f = None) as N2.
      { destruct il.
        - unfold push_file_sym. cbn [sm_file_syms set_file_syms]. rewrite fmap_get_set.
          destruct (fr_file (e_def e) =? f); [discriminate|]. now rewrite file_syms_set_arena.
        - now rewrite file_syms_set_arena. }
      destruct ip; [apply file_syms_add_to_pos in Ha; now rewrite Ha|now injection Ha as <-]. }
    destruct o; cbn [apply_op global_of] in *;
      try (apply file_syms_with_cur in H; now rewrite H);
      try (apply file_syms_borrow in H; now rewrite H).
    + destruct k, is_global; cbn in E;
        (eapply Hadd; [ | |exact H]; [cbn; exact E0|cbn [e_def]; first [reflexivity|symmetry; exact E]]).
    + eapply Hadd; [ | |exact H]; [cbn; exact E0|reflexivity].
    + eapply Hadd; [ | |exact H]; [cbn; exact E0|reflexivity].
    + eapply Hadd; [ | |exact H]; [cbn; exact E0|reflexivity].
    + eapply Hadd; [ | |exact H]; [cbn; exact E0|cbn [e_def]; symmetry; exact E].
    + eapply Hadd; [ | |exact H]; [cbn; exact E0|cbn [e_def]; symmetry; exact E].
    + eapply Hadd; [ | |exact H]; [cbn; exact E0|cbn [e_def]; symmetry; exact E].
    + destruct is_global; cbn in E;
        (eapply Hadd; [ | |exact H]; [cbn; exact E0|cbn [e_def]; first [reflexivity|symmetry; exact E]]).
    + eapply Hadd; [ | |exact H]; [cbn; exact E0|reflexivity].
    + destruct (get_entry S s); [|discriminate]. apply file_syms_add_to_pos in H. rewrite H.
      unfold update_entry. now rewrite file_syms_set_arena.
    + now injection H as <-.
Qed.

Lemma file_syms_ok_run_from : forall ops S S', file_syms_ok S -> run_ops_from S ops = SOk S' -> file_syms_ok S'.
Proof.
  induction ops as [|o ops IH]; intros S S' Hok H; cbn [run_ops_from] in H.
  - now injection H as <-.
  - apply sbind_ok in H. destruct H as (S1 & H1 & H2). eapply IH; [|exact H2]. eapply file_syms_ok_apply_op; eauto.
Qed.

Theorem outline_file_list : forall ops S f, run_ops ops = SOk S ->
  iter_symbols_in_file S f = match globals_in f ops with [] => None | l => Some l end.
Proof.
  intros ops S f H. unfold run_ops in H.
  pose proof (file_list_run_from _ _ _ f H) as E.
  assert (file_syms_ok S) as Hok.
  { eapply file_syms_ok_run_from; [|exact H]. intros g l Hl. discriminate. }
  unfold file_list in E. cbn [sm_empty sm_file_syms fmap_get app] in E. unfold iter_symbols_in_file.
  destruct (fmap_get (sm_file_syms S) f) as [l|] eqn:El.
  - specialize (Hok f l El). rewrite <- E. destruct l; [congruence|reflexivity].
  - now rewrite <- E.
Qed.

(** ================================================================================================
    O2/O3. What one outline entry shows: kind, name, the range of the declaring identifier, one child per
    template argument (in map order) then one per field; defs of a defset as its children; nothing else
    ================================================================================================ *)
Definition leaf_child (S : symbol_map) (k : sym_kind) (dk : ds_kind) (id : N) (d : docsym) : Prop :=
  exists e, get_entry S (k, id) = Some e /\
            d = DocSym (e_name e) (p_typ (e_payload e)) (fr_lo (e_def e)) (fr_hi (e_def e)) dk [].

Lemma leaf_docsym_spec : forall S k dk id d, leaf_docsym S k dk id = SOk d -> leaf_child S k dk id d.
Proof.
  intros S k dk id d H. unfold leaf_docsym, symbol in H. destruct (get_entry S (k, id)) as [e|] eqn:E; [|discriminate].
  cbn in H. injection H as <-. exists e. auto.
Qed.

Lemma leaf_docsyms_spec : forall S k dk ids ds,
  smap (leaf_docsym S k dk) ids = SOk ds -> Forall2 (leaf_child S k dk) ids ds.
Proof.
  intros S k dk ids ds H. apply smap_Forall2 in H. induction H; constructor; auto. now apply leaf_docsym_spec.
Qed.

(** the outline entry of a record *)
Definition record_entry_spec (S : symbol_map) (e : entry) (r : option docsym) : Prop :=
  match e_payload e with
  | PRecord RKClass targs fields _ =>
      exists ts fs, r = Some (DocSym (e_name e) (s2n "class") (fr_lo (e_def e)) (fr_hi (e_def e)) DKClass (ts ++ fs)) /\
                    Forall2 (leaf_child S KTemplateArg DKTemplateArgument) (amap_values targs) ts /\
                    Forall2 (leaf_child S KRecordField DKField) (amap_values fields) fs
  | PRecord RKDef _ fields _ =>
      exists fs, r = Some (DocSym (e_name e) (s2n "def") (fr_lo (e_def e)) (fr_hi (e_def e)) DKDef fs) /\
                 Forall2 (leaf_child S KRecordField DKField) (amap_values fields) fs
  | _ => r = None
  end.

Lemma record_docsym_spec : forall S e r, record_docsym S e = SOk r -> record_entry_spec S e r.
Proof.
  intros S e r H. unfold record_docsym, record_entry_spec in *.
  destruct (e_payload e) as [k targs fields ps| | | | | |]; try (now injection H as <-).
  destruct k.
  - apply sbind_ok in H. destruct H as (ts & Ht & H). apply sbind_ok in H. destruct H as (fs & Hf & H).
    injection H as <-. exists ts, fs. split; [reflexivity|]. split; now apply leaf_docsyms_spec.
  - apply sbind_ok in H. destruct H as (fs & Hf & H). injection H as <-. exists fs. split; [reflexivity|].
    now apply leaf_docsyms_spec.
Qed.

Definition entry_spec (S : symbol_map) (s : symbol_id) (r : option docsym) : Prop :=
  exists e, get_entry S s = Some e /\
  match fst s with
  | KRecord => record_entry_spec S e r
  | KDefset =>
      (* the defs of the defset that are declared in the defset's own file, in def_list order *)
      exists des rs, r = Some (DocSym (e_name e) (s2n "defset") (fr_lo (e_def e)) (fr_hi (e_def e)) DKDefset (filter_some rs)) /\
                 Forall2 (fun id de => get_entry S (KRecord, id) = Some de) (p_defs (e_payload e)) des /\
                 Forall2 (record_entry_spec S) (filter (same_file_as e) des) rs
  | KMulticlass =>
      exists ts, r = Some (DocSym (e_name e) (s2n "multiclass") (fr_lo (e_def e)) (fr_hi (e_def e)) DKMulticlass ts) /\
                 Forall2 (leaf_child S KTemplateArg DKTemplateArgument) (amap_values (p_targs (e_payload e))) ts
  | KTemplateArg | KRecordField | KVariable | KDefm => r = None
  end.

Theorem outline_entry : forall S s r, symbol_to_document_symbol S s = SOk r -> entry_spec S s r.
Proof.
  intros S s r H. unfold symbol_to_document_symbol in H. apply sbind_ok in H. destruct H as (e & He & H).
  unfold symbol in He. destruct (get_entry S s) as [e'|] eqn:E; [|discriminate]. injection He as ->.
  exists e. split; [first [exact E|reflexivity]|]. destruct (fst s).
  - now apply record_docsym_spec.
  - now injection H as <-.
  - now injection H as <-.
  - now injection H as <-.
  - apply sbind_ok in H. destruct H as (des & Hd & H). apply sbind_ok in H. destruct H as (rs & Hr & H).
    injection H as <-. exists des, rs. split; [reflexivity|]. split.
    + apply smap_Forall2 in Hd. clear Hr. induction Hd as [|id de ids des' Hx _ IH]; constructor; [|exact IH].
      unfold record, symbol in Hx. destruct (get_entry S (KRecord, id)) as [de'|]; [|discriminate]. now injection Hx as ->.
    + apply smap_Forall2 in Hr. induction Hr as [|de x des' xs Hx _ IH]; constructor; [|exact IH].
      now apply record_docsym_spec.
  - apply sbind_ok in H. destruct H as (ts & Ht & H). injection H as <-. exists ts. split; [reflexivity|].
    now apply leaf_docsyms_spec.
  - now injection H as <-.
Qed.

(** the outline of a file: the entries of its symbol list, in order, those that have one *)
Theorem outline_of_file : forall S f ds, document_symbol S f = SOk (Some ds) ->
  exists ids rs, iter_symbols_in_file S f = Some ids /\ Forall2 (entry_spec S) ids rs /\ ds = filter_some rs.
Proof.
  intros S f ds H. unfold document_symbol in H. destruct (iter_symbols_in_file S f) as [ids|]; [|discriminate].
  apply sbind_ok in H. destruct H as (rs & Hr & H). injection H as <-. exists ids, rs. split; [reflexivity|].
  split; [|reflexivity]. apply smap_Forall2 in Hr. induction Hr; constructor; auto. now apply outline_entry.
Qed.

Theorem outline_none_iff : forall S f, document_symbol S f = SOk None <-> iter_symbols_in_file S f = None.
Proof.
  intros S f. unfold document_symbol. destruct (iter_symbols_in_file S f) as [ids|]; split; intros H; try discriminate; auto.
  destruct (smap (symbol_to_document_symbol S) ids); cbn in H; discriminate.
Qed.

(** the children of a record entry: as many as template arguments plus fields *)
Corollary outline_children_count : forall S e d targs fields ps,
  e_payload e = PRecord RKClass targs fields ps -> record_docsym S e = SOk (Some d) ->
  List.length (ds_children d) = (List.length targs + List.length fields)%nat.
Proof.
  intros S e d targs fields ps Hp H. apply record_docsym_spec in H. unfold record_entry_spec in H. rewrite Hp in H.
  destruct H as (ts & fs & Hd & Ht & Hf). injection Hd as ->. cbn [ds_children].
  apply Forall2_length' in Ht. apply Forall2_length' in Hf. unfold amap_values in *. rewrite map_length in *.
  rewrite app_length. lia.
Qed.

(** IndexMap semantics of the template-argument / field maps: keys stay distinct, a new key goes to the end
    (declaration order), a repeated key keeps its position and takes the new value *)
Lemma list_eqb_eq' : forall a b, list_eqb a b = true <-> a = b.
Proof.
  induction a as [|x a IH]; intros [|y b]; cbn [list_eqb]; split; intros H; try discriminate; auto.
  - apply andb_prop in H. destruct H as [H1 H2]. apply N.eqb_eq in H1. apply IH in H2. congruence.
  - injection H as -> ->. rewrite N.eqb_refl. now apply IH.
Qed.

Theorem amap_insert_keys : forall (V : Type) (m : list (name * V)) k v,
  map fst (amap_insert m k v) = if existsb (fun k' => list_eqb k' k) (map fst m) then map fst m else map fst m ++ [k].
Proof.
  induction m as [|[k' v'] m IH]; intros k v; cbn [amap_insert map existsb fst]; [reflexivity|].
  destruct (list_eqb k' k) eqn:E; cbn [orb map fst]; [reflexivity|]. rewrite IH.
  destruct (existsb (fun k'0 => list_eqb k'0 k) (map fst m)); reflexivity.
Qed.

Theorem amap_insert_get : forall (V : Type) (m : list (name * V)) k v k',
  amap_get (amap_insert m k v) k' = if list_eqb k k' then Some v else amap_get m k'.
Proof.
  unfold amap_get. induction m as [|[k0 v0] m IH]; intros k v k'; cbn [amap_insert lookup].
  - reflexivity.
  - destruct (list_eqb k0 k) eqn:E; cbn [lookup].
    + apply list_eqb_eq' in E. subst k0. destruct (list_eqb k k'); reflexivity.
    + rewrite IH. destruct (list_eqb k k') eqn:E2; [|reflexivity].
      apply list_eqb_eq' in E2. subst k'. now rewrite E.
Qed.

(** ================================================================================================
    H. Hover shows kind / name / declared type of the very symbol go-to-definition jumps to
    ================================================================================================ *)
Theorem hover_same_symbol : forall S f p sig loc,
  extract_symbol_signature S f p = SOk (Some (sig, loc)) ->
  exists s e, find_symbol_at S f p = SOk (Some (s, e)) /\
              goto_definition S f p = SOk (Some loc) /\ loc = e_def e /\ signature S s e = SOk sig.
Proof.
  intros S f p sig loc H. unfold extract_symbol_signature in H. apply sbind_ok in H. destruct H as (r & Hr & H).
  destruct r as [[s e]|]; [|discriminate]. apply sbind_ok in H. destruct H as (sg & Hs & H).
  injection H as <- <-. exists s, e. split; [exact Hr|]. unfold goto_definition. rewrite Hr. cbn. auto.
Qed.

Theorem hover_iff_definition : forall S f p,
  (extract_symbol_signature S f p = SOk None <-> goto_definition S f p = SOk None) /\
  (forall loc, goto_definition S f p = SOk (Some loc) ->
               (exists sig, extract_symbol_signature S f p = SOk (Some (sig, loc))) \/
               (exists err, extract_symbol_signature S f p = SErr err)).
Proof.
  intros S f p. unfold extract_symbol_signature, goto_definition.
  destruct (find_symbol_at S f p) as [[[s e]|]|err]; cbn.
  - split; [split; intros H|].
    + destruct (signature S s e); cbn in H; discriminate.
    + discriminate.
    + intros loc H. injection H as <-. destruct (signature S s e) as [sg|err]; cbn; eauto.
  - split; [tauto|]. intros loc H. discriminate.
  - split; [split; discriminate|]. intros loc H. discriminate.
Qed.

(** what the signature text is made of *)
Definition sig_spec (S : symbol_map) (s : symbol_id) (e : entry) (sig : name) : Prop :=
  let n := e_name e in
  match fst s, e_payload e with
  | KRecord, PRecord RKClass targs _ _ =>
      exists parts,
        Forall2 (fun id part => exists a, get_entry S (KTemplateArg, id) = Some a /\
                                          part = p_typ (e_payload a) ++ s2n " " ++ e_name a) (amap_values targs) parts /\
        sig = (if is_nil (join_with (s2n ", ") parts) then s2n "class " ++ n
               else s2n "class " ++ n ++ s2n "<" ++ join_with (s2n ", ") parts ++ s2n ">")
  | KRecord, PRecord RKDef _ _ _ => sig = s2n "def " ++ n
  | KTemplateArg, PTemplateArg typ => sig = typ ++ s2n " " ++ n
  | KRecordField, PRecordField typ parent =>
      exists pe, get_entry S (KRecord, parent) = Some pe /\ sig = typ ++ s2n " " ++ e_name pe ++ s2n "::" ++ n
  | KVariable, PVariable typ => sig = typ ++ s2n " " ++ n
  | KDefset, PDefset typ _ => sig = typ ++ s2n " " ++ n
  | KMulticlass, PMulticlass _ _ => sig = s2n "multiclass " ++ n
  | KDefm, PDefm _ => sig = s2n "defm " ++ n
  | _, _ => False
  end.

Theorem signature_shows : forall S s e sig, signature S s e = SOk sig -> sig_spec S s e sig.
Proof.
  intros S s e sig H. unfold signature, sig_spec in *.
  destruct (fst s); destruct (e_payload e) as [k targs fields ps|typ|typ par|typ|typ ds|targs ps|ps]; try discriminate;
    try (now injection H as <-).
  - destruct k; [|now injection H as <-].
    apply sbind_ok in H. destruct H as (parts & Hp & H). injection H as <-. exists parts. split; [|reflexivity].
    apply smap_Forall2 in Hp. induction Hp as [|id part ids ps' Hx _ IH]; constructor; [|exact IH].
    apply sbind_ok in Hx. destruct Hx as (a & Ha & Hx). unfold template_arg, symbol in Ha.
    destruct (get_entry S (KTemplateArg, id)) as [a'|] eqn:E; [|discriminate]. injection Ha as ->.
    injection Hx as <-. exists a. auto.
  - apply sbind_ok in H. destruct H as (pe & Hpe & H). unfold record, symbol in Hpe.
    destruct (get_entry S (KRecord, par)) as [pe'|] eqn:E; [|discriminate]. injection Hpe as ->.
    injection H as <-. exists pe. auto.
Qed.

(** the doc comment shown is that of the definition, taken from the definition's file *)
Theorem hover_doc : forall S trees f p sig doc, hover S trees f p = SOk (Some (sig, doc)) ->
  exists loc, extract_symbol_signature S f p = SOk (Some (sig, loc)) /\
    doc = match trees (fr_file loc) with
          | Some t => match decl_first_token t (fr_lo loc) (fr_hi loc) with
                      | Some d => doc_spec (leaves_before d)
                      | None => DocNone
                      end
          | None => DocNone
          end.
Proof.
  intros S trees f p sig doc H. unfold hover in H. apply sbind_ok in H. destruct H as (r & Hr & H).
  destruct r as [[sg loc]|]; [|discriminate]. injection H as <- <-. exists loc. split; [exact Hr|].
  destruct (trees (fr_file loc)); [apply extract_doc_correct|reflexivity].
Qed.

(** ================================================================================================
    I. Inlay hints
    ================================================================================================ *)
(** only hints inside the requested range (bounds inclusive) are returned -- for every state, tree and range *)
Theorem inlay_range : forall S trees loc hs, inlay_hint S trees loc = SOk (Some hs) ->
  Forall (fun h => fr_lo loc <= h_pos h /\ h_pos h <= fr_hi loc) hs.
Proof.
  intros S trees loc hs H. unfold inlay_hint in H. apply sbind_ok in H. destruct H as (r & _ & H).
  destruct r as [l|]; [|discriminate]. destruct (trees (fr_file loc)) as [t|].
  - apply sbind_ok in H. destruct H as (hss & _ & H). injection H as <-.
    apply Forall_forall. intros h Hh. apply filter_In in Hh. destruct Hh as [_ Hh].
    unfold in_range_inclusive in Hh. apply andb_prop in Hh. destruct Hh as [H1 H2].
    apply N.leb_le in H1. apply N.leb_le in H2. auto.
  - injection H as <-. constructor.
Qed.

(** every returned hint belongs to a symbol whose identifier overlaps the requested range *)
Lemma Forall2_in_r : forall (A B : Type) (R : A -> B -> Prop) l r y,
  Forall2 R l r -> In y r -> exists x, In x l /\ R x y.
Proof.
  intros A B R l r y H. induction H as [|a b l' r' Hab _ IH]; intros Hin; [destruct Hin|].
  destruct Hin as [<-|Hin].
  - exists a. split; [now left|exact Hab].
  - destruct (IH Hin) as (x & Hx & Hr). exists x. split; [now right|exact Hr].
Qed.

Theorem inlay_from_symbols : forall S trees loc hs h, inlay_hint S trees loc = SOk (Some hs) -> In h hs ->
  exists t l x xs, trees (fr_file loc) = Some t /\ iter_symbols_in_range S loc = SOk (Some l) /\
                   In x l /\ hints_of_symbol S t x = SOk xs /\ In h xs.
Proof.
  intros S trees loc hs h H Hin. unfold inlay_hint in H. apply sbind_ok in H. destruct H as (r & Hr & H).
  destruct r as [l|]; [|discriminate]. destruct (trees (fr_file loc)) as [t|] eqn:Et.
  - apply sbind_ok in H. destruct H as (hss & Hs & H). injection H as <-.
    apply filter_In in Hin. destruct Hin as [Hin _]. apply in_concat in Hin. destruct Hin as (xs & Hxs & Hh).
    apply smap_Forall2 in Hs. destruct (Forall2_in_r _ _ _ _ _ _ Hs Hxs) as (x & Hx & Hxx).
    exists t, l, x, xs. auto.
  - injection H as <-. destruct Hin.
Qed.

(** positional argument i is labelled with template parameter i's name, at the argument's first character *)
Theorem zip_hints_nth : forall starts names i h,
  nth_error (zip_hints starts names) i = Some h <->
  exists p n, nth_error starts i = Some p /\ nth_error names i = Some n /\ h = mkHint p (n ++ s2n ":") HKTemplateArg.
Proof.
  unfold zip_hints. induction starts as [|p starts IH]; intros names i h.
  - cbn [combine map]. split; [destruct i; discriminate|]. intros (p & n & H & _). destruct i; discriminate.
  - destruct names as [|n names].
    + cbn [combine map]. split; [destruct i; discriminate|]. intros (p' & n' & _ & H & _). destruct i; discriminate.
    + cbn [combine map]. destruct i as [|i]; cbn [nth_error].
      * split; [intros H; injection H as <-; eauto|]. intros (p' & n' & H1 & H2 & ->). now injection H1 as <-; injection H2 as <-.
      * apply IH.
Qed.

Theorem zip_hints_length : forall starts names,
  List.length (zip_hints starts names) = Nat.min (List.length starts) (List.length names).
Proof. intros. unfold zip_hints. now rewrite map_length, combine_length. Qed.

Lemma take_while_spec : forall (A : Type) (p : A -> bool) l,
  exists rest, l = take_while p l ++ rest /\ Forall (fun x => p x = true) (take_while p l) /\
               match rest with [] => True | x :: _ => p x = false end.
Proof.
  induction l as [|x l IH]; cbn [take_while].
  - exists []. repeat split; constructor.
  - destruct (p x) eqn:E.
    + destruct IH as (rest & H1 & H2 & H3). exists rest. cbn [app]. repeat split; [now rewrite <- H1|constructor; auto|exact H3].
    + exists (x :: l). repeat split; [constructor|exact E].
Qed.

Theorem inlay_class_args : forall S t targs lo hi hs, inlay_hint_class S t targs lo hi = SOk hs ->
  (class_arg_list t lo hi = None /\ hs = []) \/
  exists al names rest,
    class_arg_list t lo hi = Some al /\
    Forall2 (fun id n => exists a, get_entry S (KTemplateArg, id) = Some a /\ n = e_name a) (amap_values targs) names /\
    child_node_cursors is_arg_value al =
      take_while (fun c => sk_eqb (kind_of (fst c)) S_PositionalArgValue) (child_node_cursors is_arg_value al) ++ rest /\
    match rest with [] => True | x :: _ => sk_eqb (kind_of (fst x)) S_PositionalArgValue = false end /\
    hs = zip_hints (map cur_offset (take_while (fun c => sk_eqb (kind_of (fst c)) S_PositionalArgValue)
                                               (child_node_cursors is_arg_value al))) names.
Proof.
  intros S t targs lo hi hs H. unfold inlay_hint_class in H.
  destruct (class_arg_list t lo hi) as [al|]; [|left; split; [reflexivity|now injection H as <-]].
  right. apply sbind_ok in H. destruct H as (names & Hn & H). injection H as <-.
  destruct (take_while_spec _ (fun c : cursor => sk_eqb (kind_of (fst c)) S_PositionalArgValue)
              (child_node_cursors is_arg_value al)) as (rest & H1 & _ & H3).
  exists al, names, rest. split; [reflexivity|]. split; [|split; [exact H1|split; [exact H3|reflexivity]]].
  apply smap_Forall2 in Hn. induction Hn as [|id n ids ns Hx _ IH]; constructor; [|exact IH].
  apply sbind_ok in Hx. destruct Hx as (a & Ha & Hx). unfold template_arg, symbol in Ha.
  destruct (get_entry S (KTemplateArg, id)) as [a'|] eqn:E; [|discriminate]. injection Ha as ->.
  injection Hx as <-. exists a. auto.
Qed.

(** a field override is labelled with the field's declared type, right after the field name *)
Theorem inlay_field_let : forall t typ lo hi h, In h (inlay_hint_record_field t typ lo hi) ->
  h = mkHint hi (s2n ":" ++ typ) HKFieldLet /\ inlay_hint_record_field t typ lo hi = [h] /\
  exists idc fl, identifier_node t lo hi false = Some idc /\ parent idc = Some fl /\ kind_of (fst fl) = S_FieldLet.
Proof.
  intros t typ lo hi h H. unfold inlay_hint_record_field in *.
  destruct (identifier_node t lo hi false) as [idc|] eqn:E1; [|destruct H].
  destruct (parent idc) as [fl|] eqn:E2; [|destruct H].
  destruct (sk_eqb (kind_of (fst fl)) S_FieldLet) eqn:E; [|destruct H].
  destruct H as [<-|[]]. split; [reflexivity|]. split; [reflexivity|]. exists idc, fl.
  split; [reflexivity|]. split; [exact E2|].
  unfold sk_eqb in E. apply N.eqb_eq in E. destruct (kind_of (fst fl)); try discriminate E. reflexivity.
Qed.

(** ================================================================================================
    O4. For every op sequence: the template-argument and field maps of every record / multiclass have pairwise
    distinct names (one outline child per template-argument name and per field name).  Uses the decomposition
    [apply_op_spec] of group symmap (proofs/SymbolOps.v).
    ================================================================================================ *)
From TG.Proofs Require Import SymbolMapBasics SymbolOps.

Definition maps_ok (e : entry) : Prop :=
  NoDup (map fst (p_targs (e_payload e))) /\ NoDup (map fst (p_fields (e_payload e))).

Lemma nodup_snoc : forall (A : Type) (l : list A) x, NoDup l -> ~ In x l -> NoDup (l ++ [x]).
Proof.
  induction l as [|a l IH]; intros x Hn Hx; cbn [app].
  - constructor; [intros []|constructor].
  - inversion Hn as [|? ? Ha Hl]; subst. constructor.
    + intros Hin. apply in_app_or in Hin. destruct Hin as [Hin|[<-|[]]]; [contradiction|]. apply Hx. now left.
    + apply IH; [exact Hl|]. intros Hin. apply Hx. now right.
Qed.

Lemma amap_insert_nodup : forall (V : Type) (m : list (name * V)) k v,
  NoDup (map fst m) -> NoDup (map fst (amap_insert m k v)).
Proof.
  intros V m k v H. rewrite amap_insert_keys.
  destruct (existsb (fun k' => list_eqb k' k) (map fst m)) eqn:E; [exact H|].
  apply nodup_snoc; [exact H|]. intros Hin.
  assert (existsb (fun k' => list_eqb k' k) (map fst m) = true) as Ht.
  { apply existsb_exists. exists k. split; [exact Hin|]. now apply list_eqb_eq'. }
  congruence.
Qed.

Lemma maps_ok_upd_payload : forall g e, maps_ok e ->
  (forall p, NoDup (map fst (p_targs p)) -> NoDup (map fst (p_fields p)) ->
             NoDup (map fst (p_targs (g p))) /\ NoDup (map fst (p_fields (g p)))) ->
  maps_ok (upd_payload g e).
Proof. intros g e [H1 H2] Hg. unfold maps_ok, upd_payload. cbn [e_payload]. now apply Hg. Qed.

Definition all_maps_ok (S : symbol_map) : Prop := forall s e, get_entry S s = Some e -> maps_ok e.

Lemma all_maps_ok_apply_op : forall S o S', all_maps_ok S -> apply_op S o = SOk S' -> all_maps_ok S'.
Proof.
  intros S o S' Hok H. apply apply_op_spec in H. destruct H as (Ha & _ & _). unfold arenas_after in Ha.
  intros s e He.
  destruct (op_alloc o) as [[[k e0] keyed]|] eqn:Eo.
  - destruct Ha as (Hg & _). rewrite Hg in He. destruct (sid_eqb s (k, next_id S k)).
    + injection He as <-.
      destruct o; cbn [op_alloc] in Eo; try discriminate; injection Eo as <- <- <-;
        (split; cbn; constructor).
    + now apply (Hok s).
  - destruct (op_update S o) as [[t g]|] eqn:Eu.
    + destruct Ha as (_ & Hg & _). rewrite Hg in He. destruct (sid_eqb t s).
      * destruct (get_entry S s) as [e1|] eqn:E1; [|discriminate]. cbn [option_map] in He. injection He as <-.
        specialize (Hok s e1 E1).
        destruct o; cbn [op_update] in Eu; try discriminate;
          try (destruct (cur_target S _); [|discriminate]; cbn [option_map] in Eu; injection Eu as <- <-);
          try (injection Eu as <- <-).
        -- (* add_reference *) exact Hok.
        -- apply maps_ok_upd_payload; [exact Hok|]. intros p Ht Hf. destruct p; cbn in *; auto.
           split; [now apply amap_insert_nodup|exact Hf].
        -- apply maps_ok_upd_payload; [exact Hok|]. intros p Ht Hf. destruct p; cbn in *; auto.
           split; [exact Ht|now apply amap_insert_nodup].
        -- apply maps_ok_upd_payload; [exact Hok|]. intros p Ht Hf. destruct p; cbn in *; auto.
        -- apply maps_ok_upd_payload; [exact Hok|]. intros p Ht Hf. destruct p; cbn in *; auto.
        -- apply maps_ok_upd_payload; [exact Hok|]. intros p Ht Hf. destruct p; cbn in *; auto.
           split; [now apply amap_insert_nodup|exact Hf].
        -- apply maps_ok_upd_payload; [exact Hok|]. intros p Ht Hf. destruct p; cbn in *; auto.
        -- apply maps_ok_upd_payload; [exact Hok|]. intros p Ht Hf. destruct p; cbn in *; auto.
      * now apply (Hok s).
    + rewrite (same_arenas_get_entry _ _ s Ha) in He. now apply (Hok s).
Qed.

Theorem outline_children_distinct : forall ops S, run_ops ops = SOk S -> all_maps_ok S.
Proof.
  intros ops S H. unfold run_ops in H.
  assert (forall ops S0 S1, all_maps_ok S0 -> run_ops_from S0 ops = SOk S1 -> all_maps_ok S1) as G.
  { induction ops0 as [|o r IH]; intros S0 S1 H0 Hr; cbn [run_ops_from] in Hr.
    - now injection Hr as <-.
    - apply sbind_ok in Hr. destruct Hr as (S2 & H2 & H3). eapply IH; [|exact H3]. eapply all_maps_ok_apply_op; eauto. }
  eapply G; [|exact H]. intros s e He. unfold get_entry, sm_empty, nth_N in He.
  destruct (fst s); cbn in He; destruct (N.to_nat (snd s)); discriminate.
Qed.
