(** Completeness-direction lemmas for the regular-expression operations of model/GramComp.v:
    validated nullable / FIRST tables cover the language; the letter derivative [pdl] decomposes every word. *)
From Coq Require Import List NArith Bool Lia PeanoNat Arith String.
From TG.Gen Require Import GenTokens.
From TG.Model Require Import GInterp DocGrammar GramAbs TokSem GramComp.
From TG.Proofs Require Import GramRx.
Import ListNotations.
Close Scope string_scope.
Close Scope N_scope.
Open Scope nat_scope.
Open Scope list_scope.

Lemma kset_mem_In k L : kset_mem k L = true <-> In k L.
Proof.
  unfold kset_mem. rewrite existsb_exists. split.
  - intros (y & Hy & E). apply tk_eqb_eq in E. now subst.
  - intros H. exists k. split; auto. apply tk_eqb_refl.
Qed.
Lemma kset_sub_In a b : kset_sub a b = true -> forall k, In k a -> In k b.
Proof. unfold kset_sub. intros H k Hk. rewrite forallb_forall in H. apply kset_mem_In. auto. Qed.
Lemma kset_dedup_In k : forall l, In k l -> In k (kset_dedup l).
Proof.
  induction l as [|x l IH]; intros H; [contradiction|]. cbn [kset_dedup].
  destruct (kset_mem x l) eqn:E.
  - destruct H as [->|H]; auto. apply IH. now apply kset_mem_In.
  - destruct H as [->|H]; [now left|right; auto].
Qed.
Lemma dedup_rx_In_conv x : forall l, In x l -> In x (dedup_rx l).
Proof.
  induction l as [|y l IH]; intros H; [contradiction|]. cbn [dedup_rx].
  destruct (existsb (rx_eqb y) l) eqn:E.
  - destruct H as [->|H]; auto. apply IH. apply existsb_exists in E as (z & Hz & Ez). apply rx_eqb_eq in Ez. now subst.
  - destruct H as [->|H]; [now left|right; auto].
Qed.

Section Rx.
  Variable G : grammar.
  Variable T : tabs.
  Hypothesis Hclosed : tabs_closed G T = true.

  Lemma closed_at m rhs : nth_error G m = Some rhs ->
    (rnull T rhs = true -> nt_null T m = true) /\ (forall k, In k (rfirst T rhs) -> In k (nt_first T m)).
  Proof.
    intros E. unfold tabs_closed in Hclosed. rewrite forallb_forall in Hclosed.
    assert (Hm : m < List.length G) by (apply nth_error_Some; congruence).
    specialize (Hclosed m ltac:(apply in_seq; lia)). rewrite E in Hclosed.
    apply andb_true_iff in Hclosed as [H1 H2]. split.
    - intros Hn. rewrite Hn in H1. exact H1.
    - intros k Hk. eapply kset_sub_In; eauto.
  Qed.

  Lemma tabs_complete : forall r w, rmatch G r w ->
    (w = [] -> rnull T r = true) /\ (forall t w', w = t :: w' -> In t (rfirst T r)).
  Proof.
    induction 1 as [|ks k Hk|n r w Hn Hr IH|a b u v Ha IHa Hb IHb|a b w Ha IH|a b w Hb IH|a|a u v Hu IHu Hv IHv]; cbn [rnull rfirst].
    - split; auto. intros t w' E. discriminate E.
    - split; [intros E; discriminate E|]. intros t w' E. inversion E. now subst.
    - destruct IH as [I1 I2]. destruct (closed_at n r Hn) as [C1 C2]. split; auto.
      intros t w' E. apply C2. eauto.
    - destruct IHa as [A1 A2], IHb as [B1 B2]. split.
      + intros E. apply app_eq_nil in E as [-> ->]. rewrite A1, B1; auto.
      + intros t w' E. apply in_or_app. destruct u as [|x u].
        * right. rewrite (A1 eq_refl). eapply B2; eauto.
        * left. cbn in E. inversion E. subst. eapply A2; eauto.
    - destruct IH as [I1 I2]. split.
      + intros E. rewrite (I1 E). reflexivity.
      + intros t w' E. apply in_or_app. left. eauto.
    - destruct IH as [I1 I2]. split.
      + intros E. rewrite (I1 E). apply orb_true_r.
      + intros t w' E. apply in_or_app. right. eauto.
    - split; auto. intros t w' E. discriminate E.
    - destruct IHu as [U1 U2], IHv as [V1 V2]. split; auto.
      intros t w' E. destruct u as [|x u].
      + cbn in E. apply (V2 t w' E).
      + cbn in E. inversion E. subst. eapply U2; eauto.
  Qed.
  Lemma null_complete r : rmatch G r [] -> rnull T r = true.
  Proof. intros H. now apply (tabs_complete r [] H). Qed.
  Lemma first_complete r t w : rmatch G r (t :: w) -> In t (rfirst T r).
  Proof. intros H. eapply (proj2 (tabs_complete r (t :: w) H)). reflexivity. Qed.

  Lemma rnull_lo_sound : forall fuel r, rnull_lo G fuel r = true -> rmatch G r [].
  Proof.
    induction fuel as [|n IH]; intros r H; cbn [rnull_lo] in H; [discriminate H|].
    destruct r as [| |[ks|m]|a b|a b|a]; try discriminate H.
    - constructor.
    - destruct (nth_error G m) as [rhs|] eqn:E; [|discriminate H]. eapply MNT; eauto.
    - apply andb_true_iff in H as [H1 H2]. change (@nil TokenKind) with (@nil TokenKind ++ []). constructor; auto.
    - apply orb_true_iff in H as [H|H]; [apply MAltL|apply MAltR]; auto.
    - constructor.
  Qed.
  Lemma null_exact fuel m : tabs_null_exact G T fuel = true -> nt_null T m = true -> rmatch G (RSym (DNT m)) [].
  Proof.
    unfold tabs_null_exact. intros H Hn. rewrite forallb_forall in H.
    assert (Hm : m < List.length (t_null T)).
    { unfold nt_null in Hn. destruct (Nat.lt_ge_cases m (List.length (t_null T))); auto.
      rewrite nth_overflow in Hn by lia. discriminate Hn. }
    specialize (H m ltac:(apply in_seq; lia)). rewrite Hn in H. cbn [implb] in H. eapply rnull_lo_sound; eauto.
  Qed.

  (** * mk_seq *)
  Lemma mk_seq_intro a b u v : rmatch G a u -> rmatch G b v -> rmatch G (mk_seq a b) (u ++ v).
  Proof.
    intros Ha Hb. destruct a; cbn [mk_seq]; try (constructor; assumption).
    - inversion Ha.
    - inversion Ha. subst. exact Hb.
  Qed.

  (** * the letter derivative *)
  Definition cons (c : option (list TokenKind)) (w : list TokenKind) : Prop :=
    match c with
    | None => True
    | Some ts => w = [] \/ exists t w', w = t :: w' /\ In t ts
    end.
  Lemma cons_prefix c u v : cons c (u ++ v) -> u <> [] -> cons c u.
  Proof.
    destruct c as [ts|]; cbn; auto. intros [E|(t & w' & E & Ht)] Hu.
    - apply app_eq_nil in E as [-> _]. now left.
    - right. destruct u as [|x u]; [contradiction|]. cbn in E. inversion E. subst. eauto.
  Qed.
  Lemma cons_nil_app c v : cons c ([] ++ v) -> cons c v.
  Proof. auto. Qed.

  Definition Lmatch (L : letter) (u : list TokenKind) : Prop :=
    match L with LTok t => u = [t] | LNT m => rmatch G (RSym (DNT m)) u end.

  Definition decomp (L : letter) (d : pdres) (w : list TokenKind) : Prop :=
    (exists u v r', w = u ++ v /\ Lmatch L u /\ In r' (d_der d) /\ rmatch G r' v) \/
    (exists m, In m (d_miss d) /\ rmatch G m w) \/
    (d_eps d = true /\ w = []).

  Lemma decomp_app_l L a b w : decomp L a w -> decomp L (pd_app a b) w.
  Proof.
    intros [(u & v & r' & E & Hl & Hin & Hm)|[(m & Hin & Hm)|[He Hw]]].
    - left. exists u, v, r'. repeat split; auto. cbn. apply in_or_app. now left.
    - right. left. exists m. split; auto. cbn. apply in_or_app. now left.
    - right. right. split; auto. cbn. rewrite He. reflexivity.
  Qed.
  Lemma decomp_app_r L a b w : decomp L b w -> decomp L (pd_app a b) w.
  Proof.
    intros [(u & v & r' & E & Hl & Hin & Hm)|[(m & Hin & Hm)|[He Hw]]].
    - left. exists u, v, r'. repeat split; auto. cbn. apply in_or_app. now right.
    - right. left. exists m. split; auto. cbn. apply in_or_app. now right.
    - right. right. split; auto. cbn. rewrite He. apply orb_true_r.
  Qed.
  (** a word of [a] that is decomposed (not through the empty case), followed by a word of [b] *)
  Lemma decomp_seq L ra b u v : decomp L ra u -> u <> [] -> rmatch G b v -> decomp L (pd_seq ra b) (u ++ v).
  Proof.
    intros [(u1 & v1 & r' & E & Hl & Hin & Hm)|[(m & Hin & Hm)|[He Hw]]] Hu Hb.
    - left. exists u1, (v1 ++ v), (mk_seq r' b). subst u. rewrite <- app_assoc. repeat split; auto.
      + cbn. apply in_map_iff. eauto.
      + apply mk_seq_intro; auto.
    - right. left. exists (mk_seq m b). split; [cbn; apply in_map_iff; eauto|apply mk_seq_intro; auto].
    - contradiction.
  Qed.

  Lemma star_cases a w : rmatch G (RStar a) w ->
    w = [] \/ exists u v, u <> [] /\ w = u ++ v /\ rmatch G a u /\ rmatch G (RStar a) v.
  Proof.
    intros H. remember (RStar a) as r eqn:Er. induction H as [| | | | | |a0|a0 u v Hu _ Hv IHv]; try discriminate Er.
    - now left.
    - inversion Er. subst a0. destruct u as [|x u].
      + cbn. apply IHv. reflexivity.
      + right. exists (x :: u), v. repeat split; auto. discriminate.
  Qed.

  Lemma prune_sound c r w : prune T c r = true -> rmatch G r w -> cons c w -> False.
  Proof.
    unfold prune. destruct c as [ts|]; [|discriminate]. intros H Hm Hc.
    apply andb_true_iff in H as [H1 H2]. apply negb_true_iff in H1.
    destruct Hc as [->|(t & w' & -> & Ht)].
    - rewrite (null_complete r Hm) in H1. discriminate H1.
    - apply first_complete in Hm. unfold kset_disjoint in H2. rewrite forallb_forall in H2.
      specialize (H2 t Ht). apply negb_true_iff in H2.
      assert (kset_mem t (rfirst T r) = true) by now apply kset_mem_In. congruence.
  Qed.

  Lemma pdl_complete : forall fuel L c r d, pdl G T fuel L c r = Some d ->
    forall w, rmatch G r w -> cons c w -> decomp L d w.
  Proof.
    induction fuel as [|n IH]; intros L c r d H w Hm Hc; cbn [pdl] in H; [discriminate H|].
    destruct (prune T c r) eqn:Ep.
    { exfalso. eapply prune_sound; eauto. }
    destruct r as [| |[ks|m]|a b|a b|a].
    - inversion Hm.
    - inversion H. subst d. inversion Hm. subst. right. right. split; reflexivity.
    - inversion Hm as [|ks' k Hk| | | | | |]; subst. inversion H. subst d. clear H.
      set (isl := fun k0 : TokenKind => match L with LTok t => tk_eqb k0 t | LNT _ => false end).
      destruct (isl k) eqn:Ek.
      + left. unfold isl in Ek. destruct L as [t|m']; [|discriminate Ek]. apply tk_eqb_eq in Ek. subst k.
        exists [t], [], REps. repeat split; auto; [|constructor]. cbn [d_der].
        assert (E : kset_mem t ks = true) by now apply kset_mem_In. rewrite E. now left.
      + right. left.
        match goal with |- context [filter ?q ks] => set (rest := filter q ks) end.
        assert (Hin : In k rest).
        { apply filter_In. split; auto. fold (isl k). rewrite Ek. cbn [negb andb].
          destruct c as [ts|]; auto. destruct Hc as [E|(t0 & w0 & E & Ht)]; [discriminate E|].
          inversion E. subst. now apply kset_mem_In. }
        exists (RSym (DTok rest)). split; [|now constructor]. cbn [d_miss]. destruct rest; [contradiction|now left].
    - inversion Hm as [| |m0 rhs w0 Hn Hr| | | | |]; subst.
      destruct (match L with LNT m' => Nat.eqb m m' | LTok _ => false end) eqn:El.
      + inversion H. subst d. destruct L as [t|m']; [discriminate El|]. apply Nat.eqb_eq in El. subst m'.
        left. exists w, [], REps. rewrite app_nil_r. repeat split; auto; [now left|constructor].
      + rewrite Hn in H. eapply IH; eauto.
    - inversion Hm as [| | |a0 b0 u v Ha Hb| | | |]; subst.
      destruct (pdl G T n L c a) as [ra|] eqn:Ea; [|discriminate H].
      destruct u as [|x u].
      + (* the first part is empty: the empty case of [a] *)
        pose proof (IH _ _ _ _ Ea [] Ha ltac:(destruct c; cbn; auto)) as D.
        destruct D as [(u1 & v1 & r' & E & Hl & Hin & Hm1)|[(m & Hin & Hm1)|[He _]]].
        * symmetry in E. apply app_eq_nil in E as [-> ->].
          destruct (d_eps ra).
          -- destruct (pdl G T n L c b) as [rb|] eqn:Eb; [|discriminate H]. inversion H. subst d.
             apply decomp_app_l. left. exists [], v, (mk_seq r' b). repeat split; auto.
             ++ cbn. apply in_map_iff. eauto.
             ++ change v with ([] ++ v). apply mk_seq_intro; auto.
          -- inversion H. subst d. left. exists [], v, (mk_seq r' b). repeat split; auto.
             ++ cbn. apply in_map_iff. eauto.
             ++ change v with ([] ++ v). apply mk_seq_intro; auto.
        * destruct (d_eps ra).
          -- destruct (pdl G T n L c b) as [rb|] eqn:Eb; [|discriminate H]. inversion H. subst d.
             apply decomp_app_l. right. left. exists (mk_seq m b). split; [cbn; apply in_map_iff; eauto|].
             change ([] ++ v) with ([] ++ v). apply mk_seq_intro; auto.
          -- inversion H. subst d. right. left. exists (mk_seq m b). split; [cbn; apply in_map_iff; eauto|].
             apply mk_seq_intro; auto.
        * rewrite He in H. destruct (pdl G T n L c b) as [rb|] eqn:Eb; [|discriminate H]. inversion H. subst d.
          apply decomp_app_r. cbn [app]. eapply IH; eauto.
      + assert (D : decomp L (pd_seq ra b) ((x :: u) ++ v)).
        { apply decomp_seq; auto; [|discriminate]. eapply IH; eauto. eapply cons_prefix; eauto. discriminate. }
        destruct (d_eps ra).
        * destruct (pdl G T n L c b) as [rb|] eqn:Eb; [|discriminate H]. inversion H. subst d. now apply decomp_app_l.
        * inversion H. now subst d.
    - destruct (pdl G T n L c a) as [ra|] eqn:Ea; [|discriminate H].
      destruct (pdl G T n L c b) as [rb|] eqn:Eb; [|discriminate H]. inversion H. subst d.
      inversion Hm; subst; [apply decomp_app_l|apply decomp_app_r]; eapply IH; eauto.
    - destruct (pdl G T n L c a) as [ra|] eqn:Ea; [|discriminate H]. inversion H. subst d. clear H.
      destruct (star_cases a w Hm) as [->|(u & v & Hu & -> & Ha & Hs)].
      + right. right. split; reflexivity.
      + assert (D : decomp L (pd_seq ra (RStar a)) (u ++ v)).
        { apply decomp_seq; auto. eapply IH; eauto. eapply cons_prefix; eauto. }
        destruct D as [D|[D|[D _]]]; [left; exact D|right; left; exact D|discriminate D].
  Qed.

  Lemma pd_all_complete fuel L c : forall rs d, pd_all G T fuel L c rs = Some d ->
    forall r w, In r rs -> rmatch G r w -> cons c w -> decomp L d w.
  Proof.
    induction rs as [|r0 rs IH]; intros d H r w Hin Hm Hc; [contradiction|].
    cbn [pd_all] in H. destruct (pdl G T fuel L c r0) as [a|] eqn:Ea; [|discriminate H].
    destruct (pd_all G T fuel L c rs) as [b|] eqn:Eb; [|discriminate H]. inversion H. subst d.
    destruct Hin as [->|Hin]; [apply decomp_app_l; eapply pdl_complete; eauto|apply decomp_app_r; eapply IH; eauto].
  Qed.
End Rx.
