(** Basic lemmas about the symbol-map model (group C03/C06/C17): arenas, association maps, the
    interval map, and the effect of every op on the two projections the invariants speak about
    (symbol headers and the interval maps). *)
From Coq Require Import List Arith NArith Bool Lia Sorted.
From TG.Model Require Import Chars SymbolMap SymbolWf.
Import ListNotations.
Open Scope N_scope.

(** ---- equalities *)
Lemma fr_eqb_eq : forall a b, fr_eqb a b = true <-> a = b.
Proof.
  intros [f1 l1 h1] [f2 l2 h2]. unfold fr_eqb. cbn [fr_file fr_lo fr_hi].
  rewrite !andb_true_iff, !N.eqb_eq. split.
  - intros [[H1 H2] H3]. subst. reflexivity.
  - intros H. inversion H. auto.
Qed.
Lemma fr_eqb_refl : forall a, fr_eqb a a = true.
Proof. intros. apply fr_eqb_eq. reflexivity. Qed.
Lemma fr_eqb_neq : forall a b, fr_eqb a b = false <-> a <> b.
Proof.
  intros. split.
  - intros H E. apply fr_eqb_eq in E. congruence.
  - intros H. destruct (fr_eqb a b) eqn:E; [apply fr_eqb_eq in E; contradiction | reflexivity].
Qed.
Lemma fr_eq_dec : forall a b : file_range, {a = b} + {a <> b}.
Proof.
  intros. destruct (fr_eqb a b) eqn:E.
  - left. apply fr_eqb_eq. exact E.
  - right. apply fr_eqb_neq. exact E.
Qed.

Lemma sym_kind_eqb_eq : forall a b, sym_kind_eqb a b = true <-> a = b.
Proof. intros a b. destruct a, b; cbn; split; intros H; try reflexivity; try discriminate. Qed.
Lemma sym_kind_eqb_refl : forall a, sym_kind_eqb a a = true.
Proof. destruct a; reflexivity. Qed.
Lemma sid_eqb_eq : forall a b, sid_eqb a b = true <-> a = b.
Proof.
  intros [k1 i1] [k2 i2]. unfold sid_eqb. cbn [fst snd].
  rewrite andb_true_iff, sym_kind_eqb_eq, N.eqb_eq. split.
  - intros [H1 H2]. subst. reflexivity.
  - intros H. inversion H. auto.
Qed.
Lemma sid_eq_dec : forall a b : symbol_id, {a = b} + {a <> b}.
Proof.
  intros. destruct (sid_eqb a b) eqn:E.
  - left. apply sid_eqb_eq. exact E.
  - right. intros H. apply sid_eqb_eq in H. congruence.
Qed.

Lemma list_eqb_eq : forall a b, list_eqb a b = true <-> a = b.
Proof.
  induction a as [|x a IH]; destruct b as [|y b]; cbn; split; intros H; try reflexivity; try discriminate.
  - apply andb_true_iff in H. destruct H as [H1 H2]. apply N.eqb_eq in H1. apply IH in H2. subst. reflexivity.
  - inversion H. subst. rewrite N.eqb_refl. cbn. apply IH. reflexivity.
Qed.
Lemma list_eqb_refl : forall a, list_eqb a a = true.
Proof. intros. apply list_eqb_eq. reflexivity. Qed.

(** ---- N-indexed lists *)
Lemma nth_N_app_last : forall {A} (l : list A) (e : A) (i : N),
  nth_N (l ++ [e]) i = if i =? len_N l then Some e else nth_N l i.
Proof.
  intros A l e i. unfold nth_N, len_N.
  destruct (i =? N.of_nat (length l)) eqn:E.
  - apply N.eqb_eq in E. subst. rewrite Nnat.Nat2N.id.
    rewrite nth_error_app2 by lia. replace (length l - length l)%nat with 0%nat by lia. reflexivity.
  - apply N.eqb_neq in E.
    destruct (Nat.lt_ge_cases (N.to_nat i) (length l)) as [H|H].
    + rewrite nth_error_app1 by exact H. reflexivity.
    + assert (N.to_nat i <> length l) by (intros C; apply E; rewrite <- C; rewrite Nnat.N2Nat.id; reflexivity).
      assert (Hn : nth_error l (N.to_nat i) = None) by (apply nth_error_None; lia).
      rewrite Hn. apply nth_error_None. rewrite app_length. cbn. lia.
Qed.

Lemma nth_N_some_lt : forall {A} (l : list A) (i : N), (exists e, nth_N l i = Some e) <-> i < len_N l.
Proof.
  intros A l i. unfold nth_N, len_N. split.
  - intros [e H]. assert (N.to_nat i < length l)%nat by (apply nth_error_Some; congruence). lia.
  - intros H. destruct (nth_error l (N.to_nat i)) eqn:E; [eauto|].
    apply nth_error_None in E. lia.
Qed.

Lemma nth_error_update_nth : forall {A} (l : list A) (i j : nat) (f : A -> A),
  nth_error (update_nth l i f) j = if Nat.eqb i j then option_map f (nth_error l j) else nth_error l j.
Proof.
  induction l as [|x l IH]; intros i j f.
  - cbn. destruct i, j; cbn; try reflexivity. destruct (Nat.eqb i j); reflexivity.
  - destruct i, j; cbn; try reflexivity. apply IH.
Qed.

Lemma length_update_nth : forall {A} (l : list A) i (f : A -> A), length (update_nth l i f) = length l.
Proof. induction l; intros; destruct i; cbn; auto. Qed.

Lemma nth_N_update_nth : forall {A} (l : list A) (i j : N) (f : A -> A),
  nth_N (update_nth l (N.to_nat i) f) j = if i =? j then option_map f (nth_N l j) else nth_N l j.
Proof.
  intros. unfold nth_N. rewrite nth_error_update_nth.
  destruct (i =? j) eqn:E.
  - apply N.eqb_eq in E. subst. rewrite Nat.eqb_refl. reflexivity.
  - apply N.eqb_neq in E. destruct (Nat.eqb (N.to_nat i) (N.to_nat j)) eqn:E2; [|reflexivity].
    apply Nat.eqb_eq in E2. apply Nnat.N2Nat.inj in E2. contradiction.
Qed.

(** ---- arenas *)
Lemma get_set_arena_same : forall S k l, get_arena (set_arena S k l) k = l.
Proof. intros S k l. destruct k; reflexivity. Qed.
Lemma get_set_arena_other : forall S k k' l, k <> k' -> get_arena (set_arena S k l) k' = get_arena S k'.
Proof. intros S k k' l H. destruct k, k'; try reflexivity; contradiction. Qed.
Lemma pos_set_arena : forall S k l, sm_pos (set_arena S k l) = sm_pos S.
Proof. intros S k l. destruct k; reflexivity. Qed.
Lemma cur_set_arena : forall S k l, sm_cur (set_arena S k l) = sm_cur S.
Proof. intros S k l. destruct k; reflexivity. Qed.
Lemma diags_set_arena : forall S k l, sm_diags (set_arena S k l) = sm_diags S.
Proof. intros S k l. destruct k; reflexivity. Qed.
Lemma file_syms_set_arena : forall S k l, sm_file_syms (set_arena S k l) = sm_file_syms S.
Proof. intros S k l. destruct k; reflexivity. Qed.

(** state components that the setters other than [set_arena] leave alone *)
Definition same_arenas (S S' : symbol_map) : Prop := forall k, get_arena S' k = get_arena S k.
Lemma same_arenas_refl : forall S, same_arenas S S.
Proof. intros S k. reflexivity. Qed.
Lemma same_arenas_trans : forall S1 S2 S3, same_arenas S1 S2 -> same_arenas S2 S3 -> same_arenas S1 S3.
Proof. intros S1 S2 S3 H1 H2 k. rewrite H2. apply H1. Qed.
Lemma same_arenas_name_to_class : forall S m, same_arenas S (set_name_to_class S m).
Proof. intros S m k. destruct k; reflexivity. Qed.
Lemma same_arenas_name_to_def : forall S m, same_arenas S (set_name_to_def S m).
Proof. intros S m k. destruct k; reflexivity. Qed.
Lemma same_arenas_name_to_multiclass : forall S m, same_arenas S (set_name_to_multiclass S m).
Proof. intros S m k. destruct k; reflexivity. Qed.
Lemma same_arenas_name_to_defset : forall S m, same_arenas S (set_name_to_defset S m).
Proof. intros S m k. destruct k; reflexivity. Qed.
Lemma same_arenas_file_syms : forall S m, same_arenas S (set_file_syms S m).
Proof. intros S m k. destruct k; reflexivity. Qed.
Lemma same_arenas_pos : forall S m, same_arenas S (set_pos S m).
Proof. intros S m k. destruct k; reflexivity. Qed.
Lemma same_arenas_cur : forall S c, same_arenas S (set_cur S c).
Proof. intros S c k. destruct k; reflexivity. Qed.
Lemma same_arenas_diags : forall S d, same_arenas S (set_diags S d).
Proof. intros S d k. destruct k; reflexivity. Qed.
Lemma same_arenas_push_file_sym : forall S f s, same_arenas S (push_file_sym S f s).
Proof. intros. unfold push_file_sym. apply same_arenas_file_syms. Qed.

Lemma same_arenas_get_entry : forall S S' s, same_arenas S S' -> get_entry S' s = get_entry S s.
Proof. intros S S' s H. unfold get_entry. rewrite H. reflexivity. Qed.
Lemma same_arenas_next_id : forall S S' k, same_arenas S S' -> next_id S' k = next_id S k.
Proof. intros S S' k H. unfold next_id. rewrite H. reflexivity. Qed.

(** [get_entry] after an allocation *)
Lemma get_entry_alloc : forall S k e s,
  get_entry (fst (alloc S k e)) s = if sid_eqb s (k, next_id S k) then Some e else get_entry S s.
Proof.
  intros S k e [k' i]. unfold alloc, get_entry, next_id, sid_eqb. cbn [fst snd].
  destruct (sym_kind_eqb k' k) eqn:Ek.
  - apply sym_kind_eqb_eq in Ek. subst k'. rewrite get_set_arena_same. cbn [andb].
    apply nth_N_app_last.
  - cbn [andb]. rewrite get_set_arena_other; [reflexivity|].
    intros C. subst. rewrite sym_kind_eqb_refl in Ek. discriminate.
Qed.

Lemma next_id_alloc : forall S k e k',
  next_id (fst (alloc S k e)) k' = if sym_kind_eqb k' k then next_id S k + 1 else next_id S k'.
Proof.
  intros S k e k'. unfold alloc, next_id. cbn [fst].
  destruct (sym_kind_eqb k' k) eqn:Ek.
  - apply sym_kind_eqb_eq in Ek. subst. rewrite get_set_arena_same. unfold len_N. rewrite app_length. cbn. lia.
  - rewrite get_set_arena_other; [reflexivity|]. intros C. subst. rewrite sym_kind_eqb_refl in Ek. discriminate.
Qed.

(** [get_entry] after an in-place update *)
Lemma get_entry_update : forall S s f s',
  get_entry (update_entry S s f) s' = if sid_eqb s s' then option_map f (get_entry S s') else get_entry S s'.
Proof.
  intros S [k i] f [k' i']. unfold update_entry, get_entry, sid_eqb. cbn [fst snd].
  destruct (sym_kind_eqb k k') eqn:Ek.
  - apply sym_kind_eqb_eq in Ek. subst k'. rewrite get_set_arena_same. cbn [andb]. apply nth_N_update_nth.
  - cbn [andb]. rewrite get_set_arena_other; [reflexivity|].
    intros C. subst. rewrite sym_kind_eqb_refl in Ek. discriminate.
Qed.

Lemma next_id_update : forall S s f k, next_id (update_entry S s f) k = next_id S k.
Proof.
  intros S [k0 i] f k. unfold update_entry, next_id. cbn [fst snd].
  destruct (sym_kind_eqb k0 k) eqn:Ek.
  - apply sym_kind_eqb_eq in Ek. subst. rewrite get_set_arena_same. unfold len_N. rewrite length_update_nth. reflexivity.
  - rewrite get_set_arena_other; [reflexivity|]. intros C. subst. rewrite sym_kind_eqb_refl in Ek. discriminate.
Qed.

Lemma get_entry_valid : forall S s, (exists e, get_entry S s = Some e) <-> valid_id S (fst s) (snd s) = true.
Proof.
  intros S [k i]. unfold get_entry, valid_id, next_id. cbn [fst snd]. rewrite N.ltb_lt. apply nth_N_some_lt.
Qed.

(** ---- file maps *)
Lemma fmap_get_set : forall {V} (m : list (fileid * V)) f v f',
  fmap_get (fmap_set m f v) f' = if f =? f' then Some v else fmap_get m f'.
Proof.
  induction m as [|[g w] m IH]; intros f v f'; cbn.
  - rewrite (N.eqb_sym f f'). destruct (f' =? f); reflexivity.
  - destruct (g =? f) eqn:E1.
    + apply N.eqb_eq in E1. subst. cbn. destruct (f =? f'); reflexivity.
    + cbn. destruct (g =? f') eqn:E2.
      * apply N.eqb_eq in E2. subst. rewrite N.eqb_sym in E1. rewrite E1. reflexivity.
      * apply IH.
Qed.

(** the interval map of a file as a total function *)
Definition posf (S : symbol_map) (f : fileid) : list ivl :=
  match fmap_get (sm_pos S) f with Some m => m | None => [] end.

(** ---- the interval map: sortedness, membership after insert, exact lookup *)
Definition ivl_key_lt (a b : ivl) : Prop :=
  let '(lo, hi, _) := a in let '(lo', hi', _) := b in ivl_lt lo hi lo' hi' = true.
Definition ivl_sorted (m : list ivl) : Prop := StronglySorted ivl_key_lt m.

Lemma ivl_lt_trans : forall a b c d e f, ivl_lt a b c d = true -> ivl_lt c d e f = true -> ivl_lt a b e f = true.
Proof.
  unfold ivl_lt. intros a b c d e f H1 H2.
  apply orb_true_iff in H1. apply orb_true_iff in H2. apply orb_true_iff.
  rewrite !andb_true_iff, !N.ltb_lt, !N.eqb_eq in *. lia.
Qed.
Lemma ivl_lt_irrefl : forall a b, ivl_lt a b a b = false.
Proof.
  unfold ivl_lt. intros. apply orb_false_iff. rewrite andb_false_iff, !N.ltb_ge. split; [lia|right; lia].
Qed.
Lemma ivl_lt_total : forall a b c d, ivl_lt a b c d = false -> (a =? c) && (b =? d) = false -> ivl_lt c d a b = true.
Proof.
  unfold ivl_lt. intros a b c d H1 H2.
  apply orb_false_iff in H1. destruct H1 as [H1 H3].
  apply andb_false_iff in H2. apply andb_false_iff in H3.
  apply orb_true_iff. rewrite andb_true_iff, !N.ltb_lt, N.eqb_eq.
  rewrite N.ltb_ge in H1. rewrite !N.eqb_neq in H2. rewrite N.eqb_neq, N.ltb_ge in H3. lia.
Qed.

Lemma In_ivl_insert : forall m lo hi v x,
  In x (ivl_insert m lo hi v) -> x = (lo, hi, v) \/ In x m.
Proof.
  induction m as [|[[lo' hi'] v'] m IH]; intros lo hi v x H; cbn in H.
  - destruct H as [H|[]]. left. auto.
  - destruct (ivl_lt lo hi lo' hi').
    + destruct H as [H|H]; [left; auto|right; exact H].
    + destruct ((lo =? lo') && (hi =? hi')).
      * destruct H as [H|H]; [left; auto|right; right; exact H].
      * destruct H as [H|H]; [right; left; exact H|].
        apply IH in H. destruct H as [H|H]; [left; exact H|right; right; exact H].
Qed.

Lemma ivl_insert_head_lt : forall m lo hi v a,
  Forall (ivl_key_lt a) m -> ivl_key_lt a (lo, hi, v) -> Forall (ivl_key_lt a) (ivl_insert m lo hi v).
Proof.
  intros m lo hi v a Hm Ha. apply Forall_forall. intros x Hx.
  apply In_ivl_insert in Hx. destruct Hx as [Hx|Hx]; [subst; exact Ha|].
  rewrite Forall_forall in Hm. apply Hm. exact Hx.
Qed.

Lemma ivl_insert_sorted : forall m lo hi v, ivl_sorted m -> ivl_sorted (ivl_insert m lo hi v).
Proof.
  unfold ivl_sorted. induction m as [|[[lo' hi'] v'] m IH]; intros lo hi v Hs; cbn.
  - constructor; constructor.
  - inversion Hs as [|? ? Hs' Hall]; subst.
    destruct (ivl_lt lo hi lo' hi') eqn:E1.
    + constructor; [exact Hs|]. constructor.
      * exact E1.
      * rewrite Forall_forall in *. intros [[a b] c] Hx. specialize (Hall _ Hx). cbn in *.
        eapply ivl_lt_trans; eassumption.
    + destruct ((lo =? lo') && (hi =? hi')) eqn:E2.
      * apply andb_true_iff in E2. destruct E2 as [E2 E3]. apply N.eqb_eq in E2. apply N.eqb_eq in E3. subst.
        constructor; [exact Hs'|]. rewrite Forall_forall in *. intros [[a b] c] Hx. specialize (Hall _ Hx). exact Hall.
      * constructor; [apply IH; exact Hs'|].
        apply ivl_insert_head_lt; [exact Hall|]. cbn. apply ivl_lt_total; [exact E1|exact E2].
Qed.

Lemma ivl_sorted_unique : forall m lo hi v v',
  ivl_sorted m -> In (lo, hi, v) m -> In (lo, hi, v') m -> v = v'.
Proof.
  unfold ivl_sorted. induction m as [|x m IH]; intros lo hi v v' Hs H1 H2; [destruct H1|].
  inversion Hs as [|? ? Hs' Hall]; subst. rewrite Forall_forall in Hall.
  destruct H1 as [H1|H1], H2 as [H2|H2].
  - congruence.
  - subst x. specialize (Hall _ H2). cbn in Hall. rewrite ivl_lt_irrefl in Hall. discriminate.
  - subst x. specialize (Hall _ H1). cbn in Hall. rewrite ivl_lt_irrefl in Hall. discriminate.
  - eapply IH; eassumption.
Qed.

Lemma ivl_get_In : forall m lo hi v, ivl_get m lo hi = Some v -> In (lo, hi, v) m.
Proof.
  induction m as [|[[lo' hi'] v'] m IH]; intros lo hi v H; cbn in H; [discriminate|].
  destruct ((lo =? lo') && (hi =? hi')) eqn:E.
  - apply andb_true_iff in E. destruct E as [E1 E2]. apply N.eqb_eq in E1. apply N.eqb_eq in E2.
    inversion H. subst. left. reflexivity.
  - right. apply IH. exact H.
Qed.

Lemma ivl_In_get : forall m lo hi v, ivl_sorted m -> In (lo, hi, v) m -> ivl_get m lo hi = Some v.
Proof.
  intros m lo hi v Hs Hin.
  destruct (ivl_get m lo hi) as [v'|] eqn:E.
  - apply ivl_get_In in E. f_equal. eapply ivl_sorted_unique; eassumption.
  - exfalso. clear Hs. induction m as [|[[lo' hi'] v''] m IH]; [destruct Hin|].
    cbn in E. destruct ((lo =? lo') && (hi =? hi')) eqn:E2; [discriminate|].
    destruct Hin as [Hin|Hin].
    + inversion Hin. subst. rewrite !N.eqb_refl in E2. discriminate.
    + apply IH; assumption.
Qed.

Lemma ivl_get_none_notin : forall m lo hi v, ivl_get m lo hi = None -> ~ In (lo, hi, v) m.
Proof.
  induction m as [|[[lo' hi'] v'] m IH]; intros lo hi v H Hin; [destruct Hin|].
  cbn in H. destruct ((lo =? lo') && (hi =? hi')) eqn:E; [discriminate|].
  destruct Hin as [Hin|Hin].
  - inversion Hin. subst. rewrite !N.eqb_refl in E. discriminate.
  - eapply IH; eassumption.
Qed.

(** membership after an insert into a sorted map: the new entry, or an old entry with another key *)
Lemma In_ivl_insert_sorted : forall m lo hi v lo' hi' v',
  ivl_sorted m ->
  (In (lo', hi', v') (ivl_insert m lo hi v) <->
   ((lo', hi') = (lo, hi) /\ v' = v) \/ ((lo', hi') <> (lo, hi) /\ In (lo', hi', v') m)).
Proof.
  intros m lo hi v lo' hi' v' Hs. split.
  - intros H. pose proof (ivl_insert_sorted m lo hi v Hs) as Hs'.
    assert (Hnew : In (lo, hi, v) (ivl_insert m lo hi v)).
    { clear. induction m as [|[[a b] c] m IH]; cbn; [left; reflexivity|].
      destruct (ivl_lt lo hi a b); [left; reflexivity|].
      destruct ((lo =? a) && (hi =? b)); [left; reflexivity|right; exact IH]. }
    destruct (N.eq_dec lo' lo) as [E1|E1]; [destruct (N.eq_dec hi' hi) as [E2|E2]|].
    + subst. left. split; [reflexivity|]. eapply ivl_sorted_unique; eassumption.
    + right. split; [congruence|]. apply In_ivl_insert in H. destruct H as [H|H]; [congruence|exact H].
    + right. split; [congruence|]. apply In_ivl_insert in H. destruct H as [H|H]; [congruence|exact H].
  - intros [[E Hv]|[Hne Hin]].
    + inversion E. subst. clear. induction m as [|[[a b] c] m IH]; cbn; [left; reflexivity|].
      destruct (ivl_lt lo hi a b); [left; reflexivity|].
      destruct ((lo =? a) && (hi =? b)); [left; reflexivity|right; exact IH].
    + clear Hs. induction m as [|[[a b] c] m IH]; [destruct Hin|]. cbn.
      destruct (ivl_lt lo hi a b); [right; exact Hin|].
      destruct ((lo =? a) && (hi =? b)) eqn:E.
      * apply andb_true_iff in E. destruct E as [E1 E2]. apply N.eqb_eq in E1. apply N.eqb_eq in E2. subst.
        destruct Hin as [Hin|Hin]; [inversion Hin; subst; contradiction|right; exact Hin].
      * destruct Hin as [Hin|Hin]; [left; exact Hin|right; apply IH; exact Hin].
Qed.

(** ---- the two projections and the effect of the building blocks on them *)
Lemma posf_set_pos : forall S f m f',
  posf (set_pos S (fmap_set (sm_pos S) f m)) f' = if f =? f' then m else posf S f'.
Proof.
  intros. unfold posf. cbn [sm_pos set_pos]. rewrite fmap_get_set. destruct (f =? f'); reflexivity.
Qed.

Lemma add_to_pos_spec : forall S loc s S',
  add_to_pos S loc s = SOk S' ->
  same_arenas S S' /\ sm_cur S' = sm_cur S /\ sm_diags S' = sm_diags S /\ sm_file_syms S' = sm_file_syms S /\
  sm_name_to_class S' = sm_name_to_class S /\ sm_name_to_def S' = sm_name_to_def S /\
  sm_name_to_multiclass S' = sm_name_to_multiclass S /\
  forall f, posf S' f =
    if fr_is_empty loc then posf S f
    else if fr_file loc =? f then ivl_insert (posf S (fr_file loc)) (fr_lo loc) (fr_hi loc) s else posf S f.
Proof.
  intros S loc s S' H. unfold add_to_pos in H.
  destruct (fr_is_empty loc) eqn:E.
  - inversion H. subst. repeat split; try reflexivity.
  - unfold ivl_insert_checked in H. unfold fr_is_empty in E. rewrite E in H. cbn [sbind] in H.
    inversion H. subst. clear H.
    split; [apply same_arenas_pos|]. repeat split; try reflexivity.
    intros f. rewrite posf_set_pos. unfold posf. reflexivity.
Qed.

Lemma add_to_pos_ok : forall S loc s, exists S', add_to_pos S loc s = SOk S'.
Proof.
  intros. unfold add_to_pos. destruct (fr_is_empty loc) eqn:E; [eauto|].
  unfold ivl_insert_checked. unfold fr_is_empty in E. rewrite E. cbn. eauto.
Qed.

(** [pos_get] through [posf] *)
Lemma pos_get_posf : forall S r, pos_get S r = ivl_get (posf S (fr_file r)) (fr_lo r) (fr_hi r).
Proof. intros. unfold pos_get, posf. destruct (fmap_get (sm_pos S) (fr_file r)); reflexivity. Qed.
