(** Soundness of A-look / A-prog (LookProg.v), for EVERY program [p] and certificate [ce] that pass the
    reflective check [chk_fns]:
      [facts_sound]  the abstract facts (look-ahead set, "consumed") hold of every result of [gexec];
      [gexec_mono]   fuel monotonicity;   [gexec_le] the measure never increases;
      [term_main]    every expression whose analysis is [ok] terminates (no ROOF for some fuel):
                     lexicographic induction on (measure at function entry, rank, measure, expression). *)
From Coq Require Import List Arith NArith Bool Lia.
From TG.Gen Require Import GenTokens GenLexTables.
From TG.Model Require Import Chars Lexer Prep Tree ParserPrims GInterp.
From TG.Proofs Require Import LexBasics PrepBasics ParserTile LookProg LookProgBase.
Import ListNotations.
Open Scope nat_scope.

Arguments p_eat : simpl never.
Arguments p_eat_if : simpl never.
Arguments p_assert : simpl never.
Arguments p_expect : simpl never.
Arguments p_skip_all : simpl never.
Arguments p_error_and_eat : simpl never.
Arguments p_error_and_recover : simpl never.
Arguments p_start_node : simpl never.
Arguments p_finish_node : simpl never.
Arguments p_start_node_at : simpl never.
Arguments p_error : simpl never.
Arguments p_at_set : simpl never.
Arguments env_get : simpl never.
Arguments env_set : simpl never.
Arguments join : simpl never.
Arguments refine : simpl never.
Arguments refine_not : simpl never.
Arguments ate : simpl never.

(** * Facts and their meaning *)

Definition sat (E : nat) (a : fact) (s : pst) : Prop :=
  msr s <= E /\ (cs a = true -> msr s < E) /\ kmem (cur s) (L a) = true.
Definition osat (E : nat) (o : ofact) (s : pst) : Prop := exists a, o = Some a /\ sat E a s.

Definition rpost (E : nat) (q : ares) (r : res) : Prop :=
  match r with
  | RVal (VB false) _ s => osat E (rf q) s
  | RVal _ _ s => osat E (rt q) s
  | RBrk _ s => osat E (rb q) s
  | RRet (VB false) _ s => osat E (qf q) s
  | RRet _ _ s => osat E (qt q) s
  | RPanic | ROOF => True
  end.

Lemma osat_some E a s : sat E a s -> osat E (Some a) s.
Proof. intros H. exists a. auto. Qed.

Lemma osat_join_l E a b s : osat E a s -> osat E (join a b) s.
Proof.
  intros (x & -> & (H1 & H2 & H3)). destruct b as [y|]; unfold join; eexists; (split; [reflexivity|]).
  - repeat split; cbn [L cs]; auto.
    + intros H. apply andb_prop in H. tauto.
    + rewrite kmem_union, H3. reflexivity.
  - repeat split; auto.
Qed.
Lemma osat_join_r E a b s : osat E b s -> osat E (join a b) s.
Proof.
  intros (x & -> & (H1 & H2 & H3)). destruct a as [y|]; unfold join; eexists; (split; [reflexivity|]).
  - repeat split; cbn [L cs]; auto.
    + intros H. apply andb_prop in H. tauto.
    + rewrite kmem_union, H3. apply orb_true_r.
  - repeat split; auto.
Qed.

Lemma allc_join a b : allc a = true -> allc b = true -> allc (join a b) = true.
Proof. destruct a, b; unfold join; cbn; auto. intros -> ->; reflexivity. Qed.
Lemma allc_osat E o s : allc o = true -> osat E o s -> msr s < E.
Proof. intros A (f & -> & (H1 & H2 & H3)). cbn in A. auto. Qed.
Lemma allc_join_osat E a b s : allc (join a b) = true -> osat E a s \/ osat E b s -> msr s < E.
Proof. intros A [H|H]; eapply allc_osat; eauto using osat_join_l, osat_join_r. Qed.

Lemma sat_refine E a s S : sat E a s -> kmem (cur s) S = true -> osat E (refine a S) s.
Proof.
  intros (H1 & H2 & H3) HS. unfold refine.
  assert (M : kmem (cur s) (kinter (L a) S) = true) by (rewrite kmem_inter, H3, HS; reflexivity).
  rewrite (kempty_false _ _ M). eexists; split; [reflexivity|]. repeat split; auto.
Qed.
Lemma sat_refine_not E a s S : sat E a s -> kmem (cur s) S = false -> osat E (refine_not a S) s.
Proof.
  intros (H1 & H2 & H3) HS. unfold refine_not.
  assert (M : kmem (cur s) (kdiff (L a) S) = true) by (rewrite kmem_diff, H3, HS; reflexivity).
  rewrite (kempty_false _ _ M). eexists; split; [reflexivity|]. repeat split; auto.
Qed.

(** after an eat from [s] to [s'] *)
Lemma sat_ate E a s s' c : sat E a s -> msr s' <= msr s -> (c = true -> msr s' < msr s) -> sat E (ate a c) s'.
Proof.
  intros (H1 & H2 & H3) LE LT. unfold ate. repeat split; cbn [L cs].
  - lia.
  - intros H. apply orb_prop in H. destruct H as [H|H]; [specialize (H2 H); lia|specialize (LT H); lia].
  - apply kmem_kall.
Qed.
Lemma sat_same E a s s' : sat E a s -> msr s' = msr s -> cur s' = cur s -> sat E a s'.
Proof. intros (H1 & H2 & H3) M C. unfold sat. rewrite M, C. auto. Qed.

Lemma not_eof_neq k : not_eof k = true -> k <> T_Eof.
Proof. unfold not_eof. intros H E. subst. cbn in H. discriminate. Qed.

(** * cs is never lost *)
Definition mono (a : fact) (q : ares) : Prop :=
  cs a = true -> allc (rt q) = true /\ allc (rf q) = true /\ allc (rb q) = true /\ allc (qt q) = true /\ allc (qf q) = true.

Lemma allc_refine a S : cs a = true -> allc (refine a S) = true.
Proof. unfold refine. destruct (kempty _); cbn; auto. Qed.
Lemma allc_refine_not a S : cs a = true -> allc (refine_not a S) = true.
Proof. unfold refine_not. destruct (kempty _); cbn; auto. Qed.
Lemma cs_ate a c : cs a = true -> cs (ate a c) = true.
Proof. unfold ate. cbn. intros ->. reflexivity. Qed.

Section SOUND.
Variable p : prog.
Variable ce : cert.
Notation AN := (an p ce).

Lemma mono_bind a o (k : fact -> ares) :
  (cs a = true -> allc o = true) -> (forall a1, mono a1 (k a1)) -> mono a (bind o k).
Proof.
  intros Ho Hk C. destruct o as [a1|]; cbn [bind].
  - apply Hk. specialize (Ho C). exact Ho.
  - cbn. auto.
Qed.

Lemma allc_if_ate (b : bool) a c : cs a = true -> allc (if b then Some (ate a c) else None) = true.
Proof. intros C. destruct b; cbn [allc]; auto using cs_ate. Qed.
Lemma allc_if_ate' (b : bool) a c : cs a = true -> allc (if b then None else Some (ate a c)) = true.
Proof. intros C. destruct b; cbn [allc]; auto using cs_ate. Qed.
Lemma allc_some_ate a c : cs a = true -> allc (Some (ate a c)) = true.
Proof. intros C. cbn [allc]. auto using cs_ate. Qed.

Lemma an_prim_mono pr a : mono a (an_prim p pr a).
Proof.
  intros C. destruct pr; cbn [an_prim mk rt rf rb qt qf]; repeat split;
    auto using allc_refine, allc_refine_not, allc_join, allc_if_ate, allc_if_ate', allc_some_ate.
Qed.

Lemma an_mono chk r e : forall a, mono a (AN chk r e a).
Proof.
  induction e as [b|x|x IH|pr|f arg|x IHx y IHy|c IHc x IHx y IHy|c IHc b IHb| |x IH|v x IH]; intros a C; cbn [an].
  - destruct b; cbn; auto.
  - cbn. auto.
  - destruct (IH a C) as (A1 & A2 & A3 & A4 & A5). cbn. auto.
  - apply an_prim_mono, C.
  - cbn. rewrite C. cbn. auto.
  - destruct (IHx a C) as (A1 & A2 & A3 & A4 & A5).
    assert (J : cs a = true -> allc (join (rt (AN chk r x a)) (rf (AN chk r x a))) = true) by (intros; apply allc_join; auto).
    destruct (mono_bind a _ (AN chk r y) J IHy C) as (B1 & B2 & B3 & B4 & B5).
    cbn [rt rf rb qt qf]. repeat split; auto using allc_join.
  - destruct (IHc a C) as (A1 & A2 & A3 & A4 & A5).
    destruct (mono_bind a _ (AN chk r x) (fun _ => A1) IHx C) as (B1 & B2 & B3 & B4 & B5).
    destruct (mono_bind a _ (AN chk r y) (fun _ => A2) IHy C) as (D1 & D2 & D3 & D4 & D5).
    cbn [rt rf rb qt qf]. repeat split; auto using allc_join.
  - set (h := {| L := kall; cs := cs a |}).
    assert (Ch : cs h = true) by exact C.
    destruct (IHc h Ch) as (A1 & A2 & A3 & A4 & A5).
    destruct (mono_bind h _ (AN chk r b) (fun _ => A1) IHb Ch) as (B1 & B2 & B3 & B4 & B5).
    cbn [rt rf rb qt qf allc]. repeat split; auto using allc_join.
  - cbn. auto.
  - destruct (IH a C) as (A1 & A2 & A3 & A4 & A5). cbn [rt rf rb qt qf allc]. repeat split; auto using allc_join.
  - destruct (IH a C) as (A1 & A2 & A3 & A4 & A5). cbn [rt rf rb qt qf allc]. repeat split; auto using allc_join.
Qed.

(** * The certificate is consistent (what [chk_fns] establishes) *)
Definition cert_ok : Prop :=
  forall f body k, fn_body p f = Some body -> kmem k (pre (cert_of ce f)) = true ->
    let c := cert_of ce f in
    let q := AN true (rank c) body {| L := kof [k]; cs := false |} in
    ok q = true /\ exit_ok c (join (rt q) (qt q)) (kmem k (ct c)) = true
                /\ exit_ok c (join (rf q) (qf q)) (kmem k (cf c)) = true.

Lemma chk_fns_spec : forall l f0, chk_fns p ce f0 l = true ->
  forall i body, nth_error l i = Some body -> chk_fn p ce (f0 + i) body = true.
Proof.
  induction l as [|b l IH]; intros f0 H i body N; [destruct i; discriminate|].
  cbn [chk_fns] in H. apply andb_prop in H. destruct H as [H1 H2].
  destruct i as [|i]; cbn in N.
  - inversion N; subst. rewrite Nat.add_0_r. exact H1.
  - replace (f0 + S i) with (S f0 + i) by lia. eapply IH; eauto.
Qed.

Lemma chk_fns_cert_ok : chk_fns p ce 0 (fns p) = true -> cert_ok.
Proof.
  intros H f body k FB PRE. unfold fn_body in FB.
  pose proof (chk_fns_spec _ _ H f body FB) as C. rewrite Nat.add_0_l in C. unfold chk_fn in C.
  rewrite forallb_forall in C. specialize (C k (all_token_kinds_complete k)).
  unfold chk_fn_at in C. rewrite PRE in C. cbn [implb] in C.
  apply andb_prop in C. destruct C as [C C3]. apply andb_prop in C. destruct C as [C1 C2]. auto.
Qed.

Hypothesis CERT : cert_ok.

Lemma exit_sound_l E c o o' need s : osat E o s -> exit_ok c (join o o') need = true ->
  kmem (cur s) (post c) = true /\ (need = true -> msr s < E).
Proof.
  intros OS EX. pose proof (osat_join_l E o o' s OS) as (y & J & (H1 & H2 & H3)). rewrite J in EX. cbn in EX.
  apply andb_prop in EX. destruct EX as [E1 E2]. split; [eapply ksub_spec; eauto|].
  intros ->. cbn in E2. auto.
Qed.
Lemma exit_sound_r E c o o' need s : osat E o' s -> exit_ok c (join o o') need = true ->
  kmem (cur s) (post c) = true /\ (need = true -> msr s < E).
Proof.
  intros OS EX. pose proof (osat_join_r E o o' s OS) as (y & J & (H1 & H2 & H3)). rewrite J in EX. cbn in EX.
  apply andb_prop in EX. destruct EX as [E1 E2]. split; [eapply ksub_spec; eauto|].
  intros ->. cbn in E2. auto.
Qed.

(** * Primitives *)
Lemma an_prim_sound E pr a en s : sat E a s -> rpost E (an_prim p pr a) (exec_prim p pr en s).
Proof.
  intros SA. pose proof SA as (H1 & H2 & H3).
  destruct pr; cbn [exec_prim an_prim].
  - cbn. apply osat_some. eapply sat_same; eauto.
  - destruct (p_finish_node s) as [s'|] eqn:F; cbn; [|exact I].
    apply p_finish_node_frame in F. destruct F. apply osat_some. eapply sat_same; eauto.
  - cbn. apply osat_some. exact SA.
  - destruct (env_get en x) as [[b|cp]|]; cbn; try exact I.
    destruct (p_start_node_at s cp k) as [s'|] eqn:F; cbn; [|exact I].
    apply p_start_node_at_frame in F. destruct F. apply osat_some. eapply sat_same; eauto.
  - destruct (p_assert s k) as [s'|] eqn:F; cbn; [|exact I].
    apply p_assert_inv in F. destruct F as (C & EA). apply osat_some.
    apply (sat_ate E a s s' _ SA (p_eat_le _ _ EA)). intros N. apply not_eof_neq in N. apply (p_eat_lt _ _ EA). congruence.
  - destruct (p_expect s k m) as [s'|] eqn:F; cbn; [|exact I].
    apply p_expect_inv in F. destruct F as [(C & EA)|(C & M & CU)].
    + apply osat_join_l. rewrite <- C, H3. apply osat_some.
      apply (sat_ate E a s s' _ SA (p_eat_le _ _ EA)). intros N. apply not_eof_neq in N. apply (p_eat_lt _ _ EA). congruence.
    + apply osat_join_r. assert (SA' : sat E a s') by (eapply sat_same; eauto).
      apply sat_refine_not; [exact SA'|]. rewrite kmem_single, CU. destruct (tk_eqb (cur s) k) eqn:T; [|reflexivity].
      apply LexBasics.tk_eqb_eq in T. contradiction.
  - destruct (p_eat s) as [s'|] eqn:F; cbn; [|exact I]. apply osat_some.
    apply (sat_ate E a s s' _ SA (p_eat_le _ _ F)). unfold no_eof. intros N. apply negb_true_iff in N.
    apply (p_eat_lt _ _ F). eapply kmem_eof_cur; eauto.
  - destruct (p_eat_if s k) as [[b s']|] eqn:F; [|exact I].
    apply p_eat_if_inv in F. destruct F as [(-> & C & EA)|(-> & C & ->)]; cbn.
    + rewrite <- C, H3. apply osat_some.
      apply (sat_ate E a s s' _ SA (p_eat_le _ _ EA)). intros N. apply not_eof_neq in N. apply (p_eat_lt _ _ EA). congruence.
    + apply sat_refine_not; [exact SA|]. rewrite kmem_single. destruct (tk_eqb (cur s) k) eqn:T; [|reflexivity].
      apply LexBasics.tk_eqb_eq in T. contradiction.
  - destruct (p_skip_all s) as [s'|] eqn:F; cbn; [|exact I]. apply p_skip_all_le in F.
    apply osat_some. repeat split; cbn [L cs]; [lia|intros C; specialize (H2 C); lia|apply kmem_kall].
  - cbn. apply osat_some. eapply sat_same; eauto.
  - destruct (p_error_and_eat s m) as [s'|] eqn:F; cbn; [|exact I]. apply p_error_and_eat_inv in F. apply osat_some.
    apply (sat_ate E a s s' _ SA); [pose proof (msr_pre_le s); lia|].
    unfold no_eof. intros N. apply negb_true_iff in N.
    assert (cur s <> T_Eof) by (eapply kmem_eof_cur; eauto). pose proof (msr_pre_lt s H). lia.
  - destruct (p_error_and_recover (recover_tokens p) s m) as [s'|] eqn:F; cbn; [|exact I].
    apply p_error_and_recover_inv in F. destruct F as [(X & M)|(X & M & CU)].
    + apply osat_join_r.
      assert (KD : kmem (cur s) (kdiff (L a) (kof (T_Eof :: recover_tokens p))) = true).
      { rewrite kmem_diff, H3, kmem_kof, X. reflexivity. }
      rewrite (kempty_false _ _ KD). apply osat_some.
      assert (NE : cur s <> T_Eof).
      { intros EQ. rewrite EQ in X. cbn in X. discriminate. }
      pose proof (msr_pre_lt s NE).
      apply (sat_ate E a s s' _ SA); [lia|intros _; lia].
    + apply osat_join_l. assert (SA' : sat E a s') by (eapply sat_same; eauto).
      apply sat_refine; [exact SA'|]. rewrite kmem_kof, CU. exact X.
  - cbn. unfold p_at_set. destruct (existsb (tk_eqb (cur s)) ks) eqn:X.
    + apply sat_refine; [exact SA|]. rewrite kmem_kof. exact X.
    + apply sat_refine_not; [exact SA|]. rewrite kmem_kof. exact X.
Qed.

Lemma post_weaken E q Q r :
  (forall s, osat E (rt q) s -> osat E (rt Q) s) -> (forall s, osat E (rf q) s -> osat E (rf Q) s) ->
  (forall s, osat E (rb q) s -> osat E (rb Q) s) -> (forall s, osat E (qt q) s -> osat E (qt Q) s) ->
  (forall s, osat E (qf q) s -> osat E (qf Q) s) -> rpost E q r -> rpost E Q r.
Proof. intros A1 A2 A3 A4 A5. destruct r as [[[|]|m] en s|en s|[[|]|m] en s| |]; cbn; auto. Qed.

Lemma post_nores E r : rpost E nores r -> match r with RPanic | ROOF => True | _ => False end.
Proof. destruct r as [[[|]|m] en s|en s|[[|]|m] en s| |]; cbn; auto; intros (a & H & _); discriminate. Qed.

Lemma sat_head E a s : sat E a s -> sat E {| L := kall; cs := cs a |} s.
Proof. intros (H1 & H2 & H3). repeat split; cbn [L cs]; auto. apply kmem_kall. Qed.

(** * Partial correctness of the facts *)
Lemma facts_sound : forall n chk r e a en s E,
  sat E a s -> ok (AN chk r e a) = true -> rpost E (AN chk r e a) (gexec n p e en s).
Proof.
  induction n as [|n IH]; intros chk r e a en s E SA OK; [exact I|].
  pose proof SA as (H1 & H2 & H3).
  destruct e as [b|x|x|pr|f arg|x y|c x y|c b| |x|v x]; cbn [gexec an] in *.
  - (* EB *) destruct b; cbn; apply osat_some; exact SA.
  - (* EVar *) destruct (env_get en x) as [[[|]|m]|]; cbn; try exact I; apply osat_some; exact SA.
  - (* ENot *)
    specialize (IH chk r x a en s E SA OK).
    destruct (gexec n p x en s) as [[[|]|m] en1 s1|en1 s1|[[|]|m] en1 s1| |]; cbn in *; auto.
  - (* EPrim *) apply an_prim_sound, SA.
  - (* ECall *)
    apply andb_prop in OK. destruct OK as [OKP _].
    destruct (fn_body p f) as [body|] eqn:FB; [|exact I].
    destruct (match arg with Some (x, _) => match env_get en x with Some v => Some [v] | None => None end | None => Some [] end) as [cen0|]; [|exact I].
    pose proof (ksub_spec _ _ OKP _ H3) as PRE.
    destruct (CERT f body (cur s) FB PRE) as (OKB & EXT & EXF).
    set (c := cert_of ce f) in *.
    assert (SB : sat (msr s) {| L := kof [cur s]; cs := false |} s).
    { repeat split; cbn [L cs]; [lia|discriminate|apply kmem_self]. }
    pose proof (IH true (rank c) body _ cen0 s (msr s) SB OKB) as P.
    assert (G : forall (need : bool) s', kmem (cur s') (post c) = true /\ (need = true -> msr s' < msr s) -> msr s' <= msr s ->
              forall need', (need' = true -> need = true) ->
              sat E {| L := post c; cs := cs a || need' |} s').
    { intros need s' (K & LT) LE need' IMP. repeat split; cbn [L cs]; [lia| |exact K].
      intros X. apply orb_prop in X. destruct X as [X|X]; [specialize (H2 X); lia|specialize (LT (IMP X)); lia]. }
    assert (CT : ksub (L a) (ct c) = true -> kmem (cur s) (ct c) = true) by (intros X; eapply ksub_spec; eauto).
    assert (CF : ksub (L a) (cf c) = true -> kmem (cur s) (cf c) = true) by (intros X; eapply ksub_spec; eauto).
    assert (LE : forall o s', osat (msr s) o s' -> msr s' <= msr s) by (intros o s' (y & _ & (Y & _)); exact Y).
    destruct (gexec n p body cen0 s) as [v cen1 s1|cen1 s1|v cen1 s1| |]; try exact I.
    + assert (R : rpost E (AN chk r (ECall f arg) a) (RVal v en s1)).
      { cbn [an]. fold c. destruct v as [[|]|m]; cbn [rpost rt rf]; apply osat_some; cbn in P.
        * eapply G; [eapply exit_sound_l; [exact P|exact EXT]|eapply LE; exact P|exact CT].
        * eapply G; [eapply exit_sound_l; [exact P|exact EXF]|eapply LE; exact P|exact CF].
        * eapply G; [eapply exit_sound_l; [exact P|exact EXT]|eapply LE; exact P|exact CT]. }
      cbn [an] in R. fold c in R.
      destruct arg as [[x [|]]|]; [destruct (env_get cen1 0); [|exact I]|..];
        (destruct v as [[|]|m]; exact R).
    + assert (R : rpost E (AN chk r (ECall f arg) a) (RVal v en s1)).
      { cbn [an]. fold c. destruct v as [[|]|m]; cbn [rpost rt rf]; apply osat_some; cbn in P.
        * eapply G; [eapply exit_sound_r; [exact P|exact EXT]|eapply LE; exact P|exact CT].
        * eapply G; [eapply exit_sound_r; [exact P|exact EXF]|eapply LE; exact P|exact CF].
        * eapply G; [eapply exit_sound_r; [exact P|exact EXT]|eapply LE; exact P|exact CT]. }
      cbn [an] in R. fold c in R.
      destruct arg as [[x [|]]|]; [destruct (env_get cen1 0); [|exact I]|..];
        (destruct v as [[|]|m]; exact R).
  - (* ESeq *)
    apply andb_prop in OK. destruct OK as [OK1 OK2].
    pose proof (IH chk r x a en s E SA OK1) as P1.
    destruct (gexec n p x en s) as [v en1 s1|en1 s1|v en1 s1| |]; try exact I.
    + assert (J : osat E (join (rt (AN chk r x a)) (rf (AN chk r x a))) s1).
      { destruct v as [[|]|m]; cbn in P1; [apply osat_join_l|apply osat_join_r|apply osat_join_l]; exact P1. }
      destruct J as (a1 & J1 & S1). rewrite J1 in OK2 |- *. cbn [bind] in *.
      pose proof (IH chk r y a1 en1 s1 E S1 OK2) as P2.
      eapply post_weaken; [..|exact P2]; cbn [rt rf rb qt qf]; auto using osat_join_r.
    + cbn in *. apply osat_join_l. exact P1.
    + destruct v as [[|]|m]; cbn in *; apply osat_join_l; exact P1.
  - (* EIf *)
    apply andb_prop in OK. destruct OK as [OK12 OK3]. apply andb_prop in OK12. destruct OK12 as [OK1 OK2].
    pose proof (IH chk r c a en s E SA OK1) as P1.
    destruct (gexec n p c en s) as [[[|]|m] en1 s1|en1 s1|v en1 s1| |]; try exact I.
    + cbn in P1. destruct P1 as (a1 & J1 & S1). rewrite J1 in OK2 |- *. cbn [bind] in *.
      pose proof (IH chk r x a1 en1 s1 E S1 OK2) as P2.
      eapply post_weaken; [..|exact P2]; cbn [rt rf rb qt qf]; intros; auto using osat_join_l, osat_join_r.
    + cbn in P1. destruct P1 as (a1 & J1 & S1). rewrite J1 in OK3 |- *. cbn [bind] in *.
      pose proof (IH chk r y a1 en1 s1 E S1 OK3) as P2.
      eapply post_weaken; [..|exact P2]; cbn [rt rf rb qt qf]; intros; auto using osat_join_l, osat_join_r.
    + cbn in *. apply osat_join_l. exact P1.
    + destruct v as [[|]|m]; cbn in *; apply osat_join_l; exact P1.
  - (* EWhile *)
    set (h := {| L := kall; cs := cs a |}) in *.
    pose proof (sat_head _ _ _ SA) as SH. fold h in SH.
    apply andb_prop in OK. destruct OK as [OK PR]. apply andb_prop in OK. destruct OK as [OK OKB0].
    apply andb_prop in OK. destruct OK as [OK OKC0]. apply andb_prop in OK. destruct OK as [OKC OKB].
    pose proof (IH chk r c h en s E SH OKC) as P1.
    destruct (gexec n p c en s) as [[[|]|m] en1 s1|en1 s1|v en1 s1| |]; try exact I.
    + cbn in P1. destruct P1 as (a1 & J1 & S1).
      assert (OKB' : ok (AN chk r b a1) = true) by (rewrite J1 in OKB; exact OKB).
      pose proof (IH chk r b a1 en1 s1 E S1 OKB') as P2.
      assert (MONO : cs a = true -> forall s2, osat E (rt (AN chk r b a1)) s2 \/ osat E (rf (AN chk r b a1)) s2 -> msr s2 < E).
      { intros Ca s2 OS. destruct (an_mono chk r c h Ca) as (A1 & _). rewrite J1 in A1. cbn in A1.
        destruct (an_mono chk r b a1 A1) as (B1 & B2 & _).
        destruct OS as [OS|OS]; [eapply allc_osat; [exact B1|exact OS]|eapply allc_osat; [exact B2|exact OS]]. }
      destruct (gexec n p b en1 s1) as [v2 en2 s2|en2 s2|v2 en2 s2| |]; try exact I.
      * assert (OS2 : osat E (rt (AN chk r b a1)) s2 \/ osat E (rf (AN chk r b a1)) s2).
        { destruct v2 as [[|]|m]; cbn [rpost] in P2; [left|right|left]; exact P2. }
        assert (SH2 : sat E h s2).
        { repeat split; cbn [L cs].
          - destruct OS2 as [(y & _ & (Y & _))|(y & _ & (Y & _))]; exact Y.
          - intros Ca. eapply MONO; eauto.
          - apply kmem_kall. }
        assert (OKW : ok (AN chk r (EWhile c b) h) = true).
        { cbn [an]. change {| L := kall; cs := cs h |} with h. rewrite OKC, OKB, OKC0, OKB0, PR. reflexivity. }
        pose proof (IH chk r (EWhile c b) h en2 s2 E SH2 OKW) as P3. cbn [an] in P3.
        change {| L := kall; cs := cs h |} with h in P3. exact P3.
      * cbn in P2 |- *. rewrite J1. cbn [bind]. apply osat_join_r. exact P2.
      * rewrite J1. cbn [bind]. destruct v2 as [[|]|m]; cbn in P2 |- *; apply osat_join_r; exact P2.
    + cbn in P1 |- *. apply osat_join_l. exact P1.
    + cbn in P1 |- *. exact P1.
    + destruct v as [[|]|m]; cbn in P1 |- *; apply osat_join_l; exact P1.
  - (* EBreak *) cbn. apply osat_some. exact SA.
  - (* EReturn *)
    pose proof (IH chk r x a en s E SA OK) as P1.
    destruct (gexec n p x en s) as [[[|]|m] en1 s1|en1 s1|[[|]|m] en1 s1| |]; cbn in *; auto using osat_join_l, osat_join_r.
  - (* ESet *)
    pose proof (IH chk r x a en s E SA OK) as P1.
    destruct (gexec n p x en s) as [[[|]|m] en1 s1|en1 s1|[[|]|m] en1 s1| |]; cbn in *; auto using osat_join_l, osat_join_r.
Qed.

(** * Fuel monotonicity; the measure never increases *)
Lemma gexec_mono : forall n e en s r, gexec n p e en s = r -> r <> ROOF -> forall n', n <= n' -> gexec n' p e en s = r.
Proof.
  induction n as [|n IH]; intros e en s r H NO n' LE; [cbn in H; congruence|].
  destruct n' as [|n']; [lia|]. assert (LE' : n <= n') by lia.
  assert (K : forall y en0 t q, gexec n p y en0 t = q -> q <> ROOF -> gexec n' p y en0 t = q) by (intros; eapply IH; eauto).
  destruct e as [b|x|x|pr|f arg|x y|c x y|c b| |x|v x]; cbn [gexec] in *; auto.
  - destruct (gexec n p x en s) eqn:E1; try (subst; congruence); rewrite (K _ _ _ _ E1) by congruence; auto.
  - destruct (fn_body p f) as [body|]; [|exact H].
    destruct (match arg with Some (x, _) => match env_get en x with Some v => Some [v] | None => None end | None => Some [] end) as [cen0|]; [|exact H].
    destruct (gexec n p body cen0 s) eqn:E1; try (subst; congruence); rewrite (K _ _ _ _ E1) by congruence; auto.
  - destruct (gexec n p x en s) eqn:E1; try (subst; congruence); rewrite (K _ _ _ _ E1) by congruence; auto.
  - destruct (gexec n p c en s) as [[[|]|m] en1 s1|en1 s1|v en1 s1| |] eqn:E1; try (subst; congruence);
      rewrite (K _ _ _ _ E1) by congruence; auto.
  - destruct (gexec n p c en s) as [[[|]|m] en1 s1|en1 s1|v en1 s1| |] eqn:E1; try (subst; congruence);
      rewrite (K _ _ _ _ E1) by congruence; auto.
    destruct (gexec n p b en1 s1) eqn:E2; try (subst; congruence); rewrite (K _ _ _ _ E2) by congruence; auto.
  - destruct (gexec n p x en s) eqn:E1; try (subst; congruence); rewrite (K _ _ _ _ E1) by congruence; auto.
  - destruct (gexec n p x en s) eqn:E1; try (subst; congruence); rewrite (K _ _ _ _ E1) by congruence; auto.
Qed.

Definition res_le (m : nat) (r : res) : Prop :=
  match r with RVal _ _ s' | RBrk _ s' | RRet _ _ s' => msr s' <= m | RPanic | ROOF => True end.

Lemma exec_prim_le pr en s : res_le (msr s) (exec_prim p pr en s).
Proof.
  destruct pr; cbn [exec_prim].
  - cbn. rewrite msr_p_start_node. lia.
  - destruct (p_finish_node s) eqn:F; cbn; auto. apply p_finish_node_frame in F. lia.
  - cbn. lia.
  - destruct (env_get en x) as [[b|cp]|]; cbn; auto.
    destruct (p_start_node_at s cp k) eqn:F; cbn; auto. apply p_start_node_at_frame in F. lia.
  - destruct (p_assert s k) eqn:F; cbn; auto. apply p_assert_inv in F. destruct F as (_ & F). apply p_eat_le in F. lia.
  - destruct (p_expect s k m) eqn:F; cbn; auto. apply p_expect_inv in F. destruct F as [(_ & F)|(_ & F & _)]; [apply p_eat_le in F|]; lia.
  - destruct (p_eat s) eqn:F; cbn; auto. apply p_eat_le in F. lia.
  - destruct (p_eat_if s k) as [[b s']|] eqn:F; cbn; auto. apply p_eat_if_inv in F.
    destruct F as [(_ & _ & F)|(_ & _ & ->)]; [apply p_eat_le in F|]; lia.
  - destruct (p_skip_all s) eqn:F; cbn; auto. apply p_skip_all_le in F. lia.
  - cbn. rewrite msr_p_error. lia.
  - destruct (p_error_and_eat s m) eqn:F; cbn; auto. apply p_error_and_eat_inv in F. pose proof (msr_pre_le s). lia.
  - destruct (p_error_and_recover (recover_tokens p) s m) eqn:F; cbn; auto. apply p_error_and_recover_inv in F.
    pose proof (msr_pre_le s). destruct F as [(_ & F)|(_ & F & _)]; lia.
  - cbn. lia.
Qed.

Lemma res_le_trans m m' r : res_le m r -> m <= m' -> res_le m' r.
Proof. destruct r; cbn; auto; lia. Qed.

Lemma gexec_le : forall n e en s, res_le (msr s) (gexec n p e en s).
Proof.
  induction n as [|n IH]; intros e en s; [exact I|].
  destruct e as [b|x|x|pr|f arg|x y|c x y|c b| |x|vx x]; cbn [gexec].
  - cbn. lia.
  - destruct (env_get en x); cbn; auto.
  - pose proof (IH x en s) as H. destruct (gexec n p x en s) as [[b|m] en1 s1| | | |]; cbn in *; auto.
  - apply exec_prim_le.
  - destruct (fn_body p f) as [body|]; [|exact I].
    destruct (match arg with Some (x, _) => match env_get en x with Some v => Some [v] | None => None end | None => Some [] end) as [cen0|]; [|exact I].
    pose proof (IH body cen0 s) as H.
    destruct (gexec n p body cen0 s) as [v cen1 s1|cen1 s1|v cen1 s1| |]; cbn in *; auto;
      destruct arg as [[x [|]]|]; cbn; auto; destruct (env_get cen1 0); cbn; auto.
  - pose proof (IH x en s) as H. destruct (gexec n p x en s) as [v en1 s1| | | |]; cbn in *; auto.
    eapply res_le_trans; [apply IH|exact H].
  - pose proof (IH c en s) as H. destruct (gexec n p c en s) as [[[|]|m] en1 s1| | | |]; cbn in *; auto;
      (eapply res_le_trans; [apply IH|exact H]).
  - pose proof (IH c en s) as H. destruct (gexec n p c en s) as [[[|]|m] en1 s1| | | |]; cbn in *; auto.
    pose proof (IH b en1 s1) as H2. destruct (gexec n p b en1 s1) as [v en2 s2|en2 s2| | |]; cbn in *; auto; try lia.
    eapply res_le_trans; [apply IH|lia].
  - cbn. lia.
  - pose proof (IH x en s) as H. destruct (gexec n p x en s) as [v en1 s1| | | |]; cbn in *; auto.
  - pose proof (IH x en s) as H. destruct (gexec n p x en s) as [v en1 s1| | | |]; cbn in *; auto.
Qed.

(** * Termination *)
Definition term (e : expr) (en : env) (s : pst) : Prop := exists n, gexec n p e en s <> ROOF.

Lemma exec_prim_not_oof pr en s : exec_prim p pr en s <> ROOF.
Proof.
  destruct pr; cbn [exec_prim]; try discriminate;
    try (match goal with |- lift ?o _ <> _ => destruct o; cbn; discriminate end).
  - destruct (env_get en x) as [[b|cp]|]; try discriminate. destruct (p_start_node_at s cp k); cbn; discriminate.
  - destruct (p_eat_if s k) as [[b s']|]; discriminate.
Qed.

Lemma term_main : forall E r k e a en s,
  msr s <= k -> sat E a s -> ok (AN true r e a) = true -> term e en s.
Proof.
  induction E as [E IHE] using lt_wf_ind. induction r as [r IHr] using lt_wf_ind.
  induction k as [k IHk] using lt_wf_ind.
  induction e as [b|x|x IHx|pr|f arg|x IHx y IHy|c IHc x IHx y IHy|c IHc b IHb| |x IHx|vx x IHx];
    intros a en s MK SA OK; pose proof SA as (H1 & H2 & H3); cbn [an] in OK.
  - exists 1; cbn; congruence.
  - exists 1; cbn. destruct (env_get en x); congruence.
  - destruct (IHx a en s MK SA OK) as (n1 & N1). exists (S n1); cbn [gexec].
    destruct (gexec n1 p x en s) as [[b|m] en1 s1| | | |]; congruence.
  - exists 1; cbn [gexec]. apply exec_prim_not_oof.
  - (* ECall *)
    apply andb_prop in OK. destruct OK as [OKP OKR].
    destruct (fn_body p f) as [body|] eqn:FB; [|exists 1; cbn [gexec]; rewrite FB; congruence].
    destruct (match arg with Some (x, _) => match env_get en x with Some v => Some [v] | None => None end | None => Some [] end) as [cen0|] eqn:CE;
      [|exists 1; cbn [gexec]; rewrite FB, CE; congruence].
    pose proof (ksub_spec _ _ OKP _ H3) as PRE.
    destruct (CERT f body (cur s) FB PRE) as (OKB & _ & _).
    set (c := cert_of ce f) in *.
    assert (SB : sat (msr s) {| L := kof [cur s]; cs := false |} s).
    { repeat split; cbn [L cs]; [lia|discriminate|apply kmem_self]. }
    assert (T : term body cen0 s).
    { destruct (Nat.eq_dec (msr s) E) as [EQ|NEQ].
      - assert (Ca : cs a = false) by (destruct (cs a); auto; specialize (H2 eq_refl); lia).
        rewrite Ca in OKR. cbn in OKR. apply Nat.ltb_lt in OKR.
        rewrite <- EQ in *.
        apply (IHr (rank c) OKR (msr s) body _ cen0 s (le_n _) SB OKB).
      - assert (LT : msr s < E) by lia.
        apply (IHE (msr s) LT (rank c) (msr s) body _ cen0 s (le_n _) SB OKB). }
    destruct T as (n1 & N1). exists (S n1); cbn [gexec]. rewrite FB, CE.
    destruct (gexec n1 p body cen0 s) as [v cen1 s1|cen1 s1|v cen1 s1| |]; try congruence;
      destruct arg as [[x [|]]|]; try congruence; destruct (env_get cen1 0); congruence.
  - (* ESeq *)
    apply andb_prop in OK. destruct OK as [OK1 OK2].
    destruct (IHx a en s MK SA OK1) as (n1 & N1).
    pose proof (facts_sound n1 true r x a en s E SA OK1) as F1. pose proof (gexec_le n1 x en s) as M1.
    destruct (gexec n1 p x en s) as [v en1 s1|en1 s1|v en1 s1| |] eqn:E1;
      [|exists (S n1); cbn [gexec]; rewrite E1; congruence|exists (S n1); cbn [gexec]; rewrite E1; congruence
       |exists (S n1); cbn [gexec]; rewrite E1; congruence|congruence].
    assert (J : osat E (join (rt (AN true r x a)) (rf (AN true r x a))) s1).
    { destruct v as [[|]|m]; cbn in F1; [apply osat_join_l|apply osat_join_r|apply osat_join_l]; exact F1. }
    destruct J as (a1 & J1 & S1). rewrite J1 in OK2. cbn [bind] in OK2. cbn in M1.
    destruct (IHy a1 en1 s1 ltac:(lia) S1 OK2) as (n2 & N2).
    exists (S (max n1 n2)); cbn [gexec].
    rewrite (gexec_mono n1 x en s _ E1) by (try congruence; lia).
    destruct (gexec n2 p y en1 s1) eqn:E2; try congruence; rewrite (gexec_mono n2 y en1 s1 _ E2) by (try congruence; lia); congruence.
  - (* EIf *)
    apply andb_prop in OK. destruct OK as [OK12 OK3]. apply andb_prop in OK12. destruct OK12 as [OK1 OK2].
    destruct (IHc a en s MK SA OK1) as (n1 & N1).
    pose proof (facts_sound n1 true r c a en s E SA OK1) as F1. pose proof (gexec_le n1 c en s) as M1.
    destruct (gexec n1 p c en s) as [[[|]|m] en1 s1|en1 s1|v en1 s1| |] eqn:E1;
      [| |exists (S n1); cbn [gexec]; rewrite E1; congruence|exists (S n1); cbn [gexec]; rewrite E1; congruence
       |exists (S n1); cbn [gexec]; rewrite E1; congruence|exists (S n1); cbn [gexec]; rewrite E1; congruence|congruence].
    + cbn in F1. destruct F1 as (a1 & J1 & S1). rewrite J1 in OK2. cbn [bind] in OK2. cbn in M1.
      destruct (IHx a1 en1 s1 ltac:(lia) S1 OK2) as (n2 & N2).
      exists (S (max n1 n2)); cbn [gexec]. rewrite (gexec_mono n1 c en s _ E1) by (try congruence; lia).
      destruct (gexec n2 p x en1 s1) eqn:E2; try congruence; rewrite (gexec_mono n2 x en1 s1 _ E2) by (try congruence; lia); congruence.
    + cbn in F1. destruct F1 as (a1 & J1 & S1). rewrite J1 in OK3. cbn [bind] in OK3. cbn in M1.
      destruct (IHy a1 en1 s1 ltac:(lia) S1 OK3) as (n2 & N2).
      exists (S (max n1 n2)); cbn [gexec]. rewrite (gexec_mono n1 c en s _ E1) by (try congruence; lia).
      destruct (gexec n2 p y en1 s1) eqn:E2; try congruence; rewrite (gexec_mono n2 y en1 s1 _ E2) by (try congruence; lia); congruence.
  - (* EWhile *)
    set (h := {| L := kall; cs := cs a |}) in *.
    pose proof (sat_head _ _ _ SA) as SH. fold h in SH.
    pose proof OK as OKW.
    apply andb_prop in OK. destruct OK as [OK PR]. apply andb_prop in OK. destruct OK as [OK OKB0].
    apply andb_prop in OK. destruct OK as [OK OKC0]. apply andb_prop in OK. destruct OK as [OKC OKB].
    destruct (IHc h en s MK SH OKC) as (n1 & N1).
    pose proof (facts_sound n1 true r c h en s E SH OKC) as F1. pose proof (gexec_le n1 c en s) as M1.
    destruct (gexec n1 p c en s) as [[[|]|m] en1 s1|en1 s1|v en1 s1| |] eqn:E1;
      [|exists (S n1); cbn [gexec]; rewrite E1; congruence|exists (S n1); cbn [gexec]; rewrite E1; congruence
       |exists (S n1); cbn [gexec]; rewrite E1; congruence|exists (S n1); cbn [gexec]; rewrite E1; congruence
       |exists (S n1); cbn [gexec]; rewrite E1; congruence|congruence].
    cbn in F1. destruct F1 as (a1 & J1 & S1). cbn in M1.
    assert (OKB' : ok (AN true r b a1) = true) by (rewrite J1 in OKB; exact OKB).
    destruct (IHb a1 en1 s1 ltac:(lia) S1 OKB') as (n2 & N2).
    pose proof (facts_sound n2 true r b a1 en1 s1 E S1 OKB') as F2. pose proof (gexec_le n2 b en1 s1) as M2.
    destruct (gexec n2 p b en1 s1) as [v2 en2 s2|en2 s2|v2 en2 s2| |] eqn:E2;
      [|exists (S (max n1 n2)); cbn [gexec]; rewrite (gexec_mono n1 c en s _ E1) by (try congruence; lia);
        rewrite (gexec_mono n2 b en1 s1 _ E2) by (try congruence; lia); congruence
       |exists (S (max n1 n2)); cbn [gexec]; rewrite (gexec_mono n1 c en s _ E1) by (try congruence; lia);
        rewrite (gexec_mono n2 b en1 s1 _ E2) by (try congruence; lia); congruence
       |exists (S (max n1 n2)); cbn [gexec]; rewrite (gexec_mono n1 c en s _ E1) by (try congruence; lia);
        rewrite (gexec_mono n2 b en1 s1 _ E2) by (try congruence; lia); congruence
       |congruence].
    cbn in M2.
    (* progress: the iteration consumed *)
    assert (PRG : msr s2 < msr s).
    { set (h0 := {| L := kall; cs := false |}) in *.
      assert (S0 : sat (msr s) h0 s) by (repeat split; cbn [L cs]; [lia|discriminate|apply kmem_kall]).
      pose proof (facts_sound n1 false r c h0 en s (msr s) S0 OKC0) as G1. rewrite E1 in G1. cbn in G1.
      destruct G1 as (a10 & J10 & S10). rewrite J10 in OKB0, PR. cbn [bind] in OKB0, PR.
      pose proof (facts_sound n2 false r b a10 en1 s1 (msr s) S10 OKB0) as G2. rewrite E2 in G2.
      eapply allc_join_osat; [exact PR|]. destruct v2 as [[|]|m]; cbn in G2; auto. }
    assert (SH2 : sat E h s2).
    { repeat split; cbn [L cs]; [lia|intros Ca; specialize (H2 Ca); lia|apply kmem_kall]. }
    assert (OKW2 : ok (AN true r (EWhile c b) h) = true).
    { cbn [an]. change {| L := kall; cs := cs h |} with h. exact OKW. }
    destruct (IHk (msr s2) ltac:(lia) (EWhile c b) h en2 s2 (le_n _) SH2 OKW2) as (n3 & N3).
    exists (S (max n1 (max n2 n3))); cbn [gexec].
    rewrite (gexec_mono n1 c en s _ E1) by (try congruence; lia). rewrite (gexec_mono n2 b en1 s1 _ E2) by (try congruence; lia).
    destruct (gexec n3 p (EWhile c b) en2 s2) eqn:E3; try congruence; rewrite (gexec_mono n3 _ en2 s2 _ E3) by (try congruence; lia); congruence.
  - exists 1; cbn; congruence.
  - destruct (IHx a en s MK SA OK) as (n1 & N1). exists (S n1); cbn [gexec].
    destruct (gexec n1 p x en s); congruence.
  - destruct (IHx a en s MK SA OK) as (n1 & N1). exists (S n1); cbn [gexec].
    destruct (gexec n1 p x en s); congruence.
Qed.

End SOUND.
