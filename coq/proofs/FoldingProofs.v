(** C18 (folding part): theorems about [Folding.folding_model] for ALL trees. *)
From Coq Require Import List NArith Bool Lia Sorted.
From TG.Gen Require Import GenTokens GenFoldKinds.
From TG.Model Require Import Chars Tree TreeNav Folding.
From TG.Proofs Require Import TreeNavProofs.
Import ListNotations.
Open Scope N_scope.

Definition rng : Type := (N * N)%type.
(** [nested a b]: a lies inside b;  [disjoint a b]: they do not overlap (touching allowed) *)
Definition nested (a b : rng) : Prop := fst b <= fst a /\ snd a <= snd b.
Definition disjoint (a b : rng) : Prop := snd a <= fst b \/ snd b <= fst a.
Definition laminar2 (a b : rng) : Prop := nested a b \/ nested b a \/ disjoint a b.

Definition trim_of (d : N * N * tree) : rng := range_excluding_trivia (fst (fst d)) (snd d).
Definition ranges_of (ds : list (N * N * tree)) : list rng := map trim_of (filter fold_node ds).

Lemma folding_model_eq : forall t, folding_model t = ranges_of (descendants_from 0 t).
Proof. reflexivity. Qed.

Lemma ranges_of_app : forall a b, ranges_of (a ++ b) = ranges_of a ++ ranges_of b.
Proof. intros. unfold ranges_of. now rewrite filter_app, map_app. Qed.

(** ---- the trimmed end ---- *)
Definition trim_end (off : N) (t : tree) : N := snd (range_excluding_trivia off t).

Lemma trim_fst : forall off t, fst (range_excluding_trivia off t) = off.
Proof. reflexivity. Qed.

Lemma sorted_filter : forall (A : Type) (R : A -> A -> Prop) (f : A -> bool) (l : list A),
  StronglySorted R l -> StronglySorted R (filter f l).
Proof.
  intros A R f l H. induction H as [|a l Hl IH Ha]; [constructor|].
  cbn [filter]. destruct (f a); [|exact IH]. constructor; [exact IH|].
  rewrite Forall_forall in *. intros x Hx. apply filter_In in Hx. now apply Ha.
Qed.

Lemma sorted_last_max : forall (A : Type) (R : A -> A -> Prop) (pre : list A) (x a : A),
  StronglySorted R (pre ++ [x]) -> In a pre -> R a x.
Proof.
  induction pre as [|p pre IH]; intros x a H Hin; [destruct Hin|].
  cbn [app] in H. inversion H as [|? ? Hs Hf]; subst. destruct Hin as [<-|Hin].
  - rewrite Forall_forall in Hf. apply Hf. apply in_or_app. right. now left.
  - now apply IH.
Qed.

(** the trimmed end is the end of a significant token of the node, or the node's start when it has none;
    it dominates the end of every significant token of the node *)
Lemma trim_end_cases : forall off t,
  (trim_end off t = off /\ forall l, In l (leaves_from off t) -> sig_token l = false) \/
  (exists l, In l (leaves_from off t) /\ sig_token l = true /\ trim_end off t = lf_hi l).
Proof.
  intros off t. unfold trim_end, range_excluding_trivia. cbn [snd].
  destruct (last_opt (filter sig_token (leaves_from off t))) as [m|] eqn:E.
  - right. exists m. apply last_opt_In in E. apply filter_In in E. tauto.
  - left. split; [reflexivity|]. intros l Hl. apply last_opt_None in E.
    destruct (sig_token l) eqn:S; [|reflexivity].
    assert (In l (filter sig_token (leaves_from off t))) as H by (apply filter_In; tauto).
    rewrite E in H. destruct H.
Qed.

Lemma trim_end_max : forall off t l, In l (leaves_from off t) -> sig_token l = true -> lf_hi l <= trim_end off t.
Proof.
  intros off t l Hl Hs. unfold trim_end, range_excluding_trivia. cbn [snd].
  assert (In l (filter sig_token (leaves_from off t))) as Hf by (apply filter_In; tauto).
  destruct (last_opt (filter sig_token (leaves_from off t))) as [m|] eqn:E.
  - destruct (last_opt_split _ _ _ E) as [pre Epre].
    pose proof (sorted_filter _ leaf_before sig_token _ (leaves_sorted t off)) as Hsort.
    rewrite Epre in Hsort, Hf. apply in_app_or in Hf. destruct Hf as [Hf|[<-|[]]]; [|lia].
    pose proof (sorted_last_max _ _ _ _ _ Hsort Hf) as Hb. unfold leaf_before in Hb.
    assert (In m (leaves_from off t)) as Hm.
    { apply last_opt_In in E. apply filter_In in E. tauto. }
    apply leaves_bounds in Hm. unfold leaf_in in Hm. lia.
  - apply last_opt_None in E. rewrite E in Hf. destruct Hf.
Qed.

Lemma trim_end_bounds : forall off t, off <= trim_end off t <= off + tree_len t.
Proof.
  intros off t. destruct (trim_end_cases off t) as [[E _]|(l & Hl & _ & E)]; rewrite E.
  - lia.
  - apply leaves_bounds in Hl. unfold leaf_in in Hl. lia.
Qed.

(** ---- the invariant carried through the tree induction ---- *)
Record inv (off len : N) (L : list leaf) (rs : list rng) : Prop := {
  inv_bounds : forall r, In r rs -> off <= fst r /\ fst r <= snd r /\ snd r <= off + len;
  inv_end : forall r, In r rs -> snd r = fst r \/ exists l, In l L /\ sig_token l = true /\ snd r = lf_hi l;
  inv_lam : forall a b, In a rs -> In b rs -> laminar2 a b;
  inv_sorted : StronglySorted N.le (map fst rs)
}.

Lemma inv_nil : forall off len L, inv off len L [].
Proof.
  intros. constructor.
  - intros r [].
  - intros r [].
  - intros a b [].
  - constructor.
Qed.

Lemma inv_app : forall o1 len1 L1 rs1 len2 L2 rs2,
  inv o1 len1 L1 rs1 -> inv (o1 + len1) len2 L2 rs2 -> inv o1 (len1 + len2) (L1 ++ L2) (rs1 ++ rs2).
Proof.
  intros o1 len1 L1 rs1 len2 L2 rs2 [B1 E1 M1 S1] [B2 E2 M2 S2]. constructor.
  - intros r Hr. apply in_app_or in Hr. destruct Hr as [Hr|Hr]; [apply B1 in Hr|apply B2 in Hr]; lia.
  - intros r Hr. apply in_app_or in Hr. destruct Hr as [Hr|Hr].
    + destruct (E1 r Hr) as [H|(l & Hl & Hs & H)]; [now left|]. right. exists l. split; [|tauto].
      apply in_or_app. now left.
    + destruct (E2 r Hr) as [H|(l & Hl & Hs & H)]; [now left|]. right. exists l. split; [|tauto].
      apply in_or_app. now right.
  - intros a b Ha Hb. apply in_app_or in Ha. apply in_app_or in Hb.
    destruct Ha as [Ha|Ha], Hb as [Hb|Hb].
    + now apply M1.
    + apply B1 in Ha. apply B2 in Hb. right. right. left. lia.
    + apply B2 in Ha. apply B1 in Hb. right. right. right. lia.
    + now apply M2.
  - rewrite map_app. apply sorted_app; [exact S1|exact S2|].
    intros a b Ha Hb. apply in_map_iff in Ha. apply in_map_iff in Hb.
    destruct Ha as (ra & <- & Ha). destruct Hb as (rb & <- & Hb).
    apply B1 in Ha. apply B2 in Hb. lia.
Qed.

Lemma inv_self : forall off len L rs e,
  inv off len L rs -> off <= e -> e <= off + len ->
  (e = off \/ exists l, In l L /\ sig_token l = true /\ e = lf_hi l) ->
  (forall l, In l L -> sig_token l = true -> lf_hi l <= e) ->
  inv off len L ((off, e) :: rs).
Proof.
  intros off len L rs e [B E M S] H1 H2 H3 H4.
  assert (forall b, In b rs -> laminar2 (off, e) b) as Hself.
  { intros b Hb. pose proof (B b Hb) as Bb. destruct (E b Hb) as [Hz|(l & Hl & Hs & Hz)].
    - destruct (N.le_gt_cases (fst b) e) as [Hle|Hgt].
      + right. left. unfold nested. cbn [fst snd]. lia.
      + right. right. left. cbn [fst snd]. lia.
    - right. left. unfold nested. cbn [fst snd]. specialize (H4 l Hl Hs). lia. }
  constructor.
  - intros r [<-|Hr]; [cbn [fst snd]; lia|now apply B].
  - intros r [<-|Hr]; [cbn [fst snd]|now apply E]. destruct H3 as [->|H3]; [now left|now right].
  - intros a b [<-|Ha] [<-|Hb].
    + left. unfold nested. lia.
    + now apply Hself.
    + specialize (Hself a Ha). unfold laminar2, disjoint in *. tauto.
    + now apply M.
  - cbn [map fst]. constructor; [exact S|]. apply Forall_forall. intros x Hx.
    apply in_map_iff in Hx. destruct Hx as (r & <- & Hr). now apply B.
Qed.

Lemma ranges_inv : forall t off, inv off (tree_len t) (leaves_from off t) (ranges_of (descendants_from off t)).
Proof.
  induction t as [k txt|k cs IH] using tree_ind'; intros off.
  - rewrite descendants_from_tok. apply inv_nil.
  - rewrite descendants_from_node.
    assert (inv off (forest_len cs) (leaves_forest off cs) (ranges_of (descendants_forest off cs))) as Hf.
    { clear k. revert off. induction IH as [|c r Hc Hr IHr]; intros off; [apply inv_nil|].
      cbn [descendants_forest leaves_forest]. rewrite ranges_of_app, forest_len_cons.
      apply inv_app; [apply Hc|apply IHr]. }
    rewrite tree_len_node, leaves_from_node.
    unfold ranges_of. cbn [filter]. unfold fold_node at 1. cbn [snd kind_of].
    destruct (is_fold_kind k); [|exact Hf].
    cbn [map]. unfold trim_of at 1. cbn [fst snd].
    change (range_excluding_trivia off (Node k cs)) with (off, trim_end off (Node k cs)).
    pose proof (trim_end_bounds off (Node k cs)) as Hb. rewrite tree_len_node in Hb.
    apply inv_self; [exact Hf|lia|lia| |].
    + destruct (trim_end_cases off (Node k cs)) as [[E _]|(l & Hl & Hs & E)]; [now left|].
      right. exists l. rewrite leaves_from_node in Hl. tauto.
    + intros l Hl Hs. apply trim_end_max; [|exact Hs]. now rewrite leaves_from_node.
Qed.

(** ================= the theorems ================= *)

(** pairwise nested or disjoint *)
Theorem fold_laminar : forall t a b, In a (folding_model t) -> In b (folding_model t) -> laminar2 a b.
Proof. intros t a b. rewrite folding_model_eq. apply (inv_lam _ _ _ _ (ranges_inv t 0)). Qed.

(** every range is well-formed and inside the file *)
Theorem fold_wf : forall t r, In r (folding_model t) -> fst r <= snd r /\ snd r <= tree_len t.
Proof.
  intros t r. rewrite folding_model_eq. intros H.
  pose proof (inv_bounds _ _ _ _ (ranges_inv t 0) r H). lia.
Qed.

(** ranges are listed in source order (by start offset) *)
Theorem fold_source_order : forall t, StronglySorted N.le (map fst (folding_model t)).
Proof. intros t. rewrite folding_model_eq. apply (inv_sorted _ _ _ _ (ranges_inv t 0)). Qed.

(** Specification of one range: the statement node [n] at [lo]: the range starts at [lo]; it ends at the
    end of the LAST significant (non-trivia, non-empty) token of the statement, or at [lo] if it has none. *)
Definition ends_at_last_sig (lo : N) (n : tree) (e : N) : Prop :=
  (exists pre l post, leaves_from lo n = pre ++ l :: post /\ sig_token l = true /\
                      Forall (fun x => sig_token x = false) post /\ e = lf_hi l) \/
  (Forall (fun x => sig_token x = false) (leaves_from lo n) /\ e = lo).

Definition fold_spec (d : N * N * tree) (r : rng) : Prop :=
  fst r = fst (fst d) /\ ends_at_last_sig (fst (fst d)) (snd d) (snd r).

Lemma filter_last_split : forall (A : Type) (f : A -> bool) (l : list A) x,
  last_opt (filter f l) = Some x ->
  exists pre post, l = pre ++ x :: post /\ f x = true /\ Forall (fun y => f y = false) post.
Proof.
  intros A f l. induction l as [|a r IH]; intros x H; [discriminate|].
  cbn [filter] in H. destruct (f a) eqn:Fa.
  - destruct (filter f r) as [|b r'] eqn:E.
    + injection H as <-. exists [], r. repeat split; [exact Fa|].
      apply Forall_forall. intros y Hy. destruct (f y) eqn:Fy; [|reflexivity].
      assert (In y (filter f r)) as Hin by (apply filter_In; tauto). rewrite E in Hin. destruct Hin.
    + change (last_opt (a :: b :: r')) with (last_opt (b :: r')) in H.
      destruct (IH x H) as (pre & post & -> & Fx & Hp). exists (a :: pre), post. tauto.
  - destruct (IH x H) as (pre & post & -> & Fx & Hp). exists (a :: pre), post. tauto.
Qed.

Lemma trim_spec : forall lo n, ends_at_last_sig lo n (trim_end lo n).
Proof.
  intros lo n. unfold ends_at_last_sig, trim_end, range_excluding_trivia. cbn [snd].
  destruct (last_opt (filter sig_token (leaves_from lo n))) as [m|] eqn:E.
  - left. destruct (filter_last_split _ _ _ _ E) as (pre & post & H1 & H2 & H3).
    exists pre, m, post. tauto.
  - right. split; [|reflexivity]. apply last_opt_None in E. apply Forall_forall. intros y Hy.
    destruct (sig_token y) eqn:Fy; [|reflexivity].
    assert (In y (filter sig_token (leaves_from lo n))) as Hin by (apply filter_In; tauto).
    rewrite E in Hin. destruct Hin.
Qed.

(** one-to-one, in preorder: the i-th range belongs to the i-th statement node of the folding kinds *)
Theorem fold_one_to_one : forall t,
  Forall2 fold_spec (filter fold_node (descendants t)) (folding_model t).
Proof.
  intros t. unfold folding_model. induction (filter fold_node (descendants t)) as [|d ds IH]; [constructor|].
  cbn [map]. constructor; [|exact IH]. split; [reflexivity|]. apply trim_spec.
Qed.

(** an independent count of the statements of the folding kinds *)
Fixpoint count_fold (t : tree) : nat :=
  match t with
  | Tok _ _ => O
  | Node k cs => ((if is_fold_kind k then 1 else 0) +
                  (fix go (l : list tree) : nat := match l with [] => O | c :: r => count_fold c + go r end) cs)%nat
  end.

Lemma count_fold_desc : forall t off, length (filter fold_node (descendants_from off t)) = count_fold t.
Proof.
  induction t as [k txt|k cs IH] using tree_ind'; intros off; [reflexivity|].
  rewrite descendants_from_node. cbn [filter count_fold]. unfold fold_node at 1. cbn [snd kind_of].
  assert (forall o, length (filter fold_node (descendants_forest o cs)) =
          (fix go (l : list tree) : nat := match l with [] => O | c :: r => (count_fold c + go r)%nat end) cs) as Hf.
  { induction IH as [|c r Hc Hr IHr]; intros o; [reflexivity|].
    cbn [descendants_forest]. rewrite filter_app, app_length, Hc, IHr. reflexivity. }
  destruct (is_fold_kind k); cbn [length]; rewrite Hf; reflexivity.
Qed.

Theorem fold_count : forall t, length (folding_model t) = count_fold t.
Proof. intros t. unfold folding_model. rewrite map_length. apply count_fold_desc. Qed.

(** the start of a range is the start of the statement's first token (when it has one) *)
Theorem fold_starts_at_first_token : forall t lo hi n l,
  In (lo, hi, n) (descendants t) -> hd_error (leaves_from lo n) = Some l -> lf_lo l = lo.
Proof. intros t lo hi n l _ H. now apply first_leaf_lo in H. Qed.

(** the kinds are exactly those the property names (re-checked against the regenerated table) *)
Theorem fold_kinds_are_the_block_statements :
  fold_kinds = [S_Class; S_Def; S_Defset; S_Foreach; S_If; S_Let; S_MultiClass] /\
  forall k, is_fold_kind k = existsb (sk_eqb k) fold_kinds.
Proof. split; [reflexivity|]. intros k. destruct k; reflexivity. Qed.
