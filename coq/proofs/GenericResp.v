(** GenericResp: one traversal of the whole indexer model for an arbitrary preorder [R] on states:
    if every primitive state operation respects [R] (the state after is R-related to the state before),
    so does every `index` function, for all syntax, fuels and states.  Instantiated for "the diagnostics
    only grow", "the reference log only grows", "declaration ranges of existing symbols never change", ... *)
From Coq Require Import List NArith Bool.
From TG.Model Require Import CoreAst Scope BangOps Indexer.
From TG.Proofs Require Import ScopeBalance ScopeFrame.
Import ListNotations.
Open Scope N_scope.

(** statements without `include` (at any depth) *)
Fixpoint noinc (x : stmt) : bool :=
  let stmts := fix go (l : list stmt) : bool := match l with [] => true | y :: r => noinc y && go r end in
  match x with
  | SInclude _ _ => false
  | SDefset _ _ b | SForeach _ _ b | SLet _ b | SMulticlass _ _ _ b => stmts b
  | SIf _ th el => stmts th && match el with Some b => stmts b | None => true end
  | _ => true
  end.
Definition noincs (l : list stmt) : bool := forallb noinc l.
Lemma noinc_local : forall l,
    (fix go (l : list stmt) : bool := match l with [] => true | y :: r => noinc y && go r end) l = noincs l.
Proof. induction l as [|y r IH]; [reflexivity|]. simpl. now rewrite IH. Qed.

Section Generic.
  Variable R : st -> st -> Prop.
  Hypothesis Rrefl : forall s, R s s.
  Hypothesis Rtrans : forall a b c, R a b -> R b c -> R a c.
  Notation rsp := (resp R).

  Hypothesis H_bad : forall A, rsp (@bad A).
  Hypothesis H_error : forall r k, rsp (error r k).
  Hypothesis H_add_reference : forall id l, rsp (add_reference id l).
  Hypothesis H_add_record : forall n c l, rsp (add_record n c l).
  Hypothesis H_add_anonymous_def : forall n l, rsp (add_anonymous_def n l).
  Hypothesis H_add_leaf : forall l, rsp (add_leaf l).
  Hypothesis H_add_leaf_nopos : forall l, rsp (add_leaf_nopos l).
  Hypothesis H_add_defset : forall l, rsp (add_defset l).
  Hypothesis H_add_multiclass : forall n l, rsp (add_multiclass n l).
  Hypothesis H_rec_targ : forall id n t, rsp (record_mut id (rec_add_targ n t)).
  Hypothesis H_rec_field : forall id n t, rsp (record_mut id (rec_add_field n t)).
  Hypothesis H_rec_parent : forall id p, rsp (record_mut id (rec_add_parent p)).
  Hypothesis H_mc_targ : forall id n t, rsp (multiclass_mut id (mc_add_targ n t)).
  Hypothesis H_mc_parent : forall id p, rsp (multiclass_mut id (mc_add_parent p)).
  Hypothesis H_push_scope : forall k, rsp (push_scope k).
  Hypothesis H_pop_scope : rsp pop_scope.
  Hypothesis H_add_variable : forall l, rsp (scopes_add_variable l).
  Hypothesis H_push_file : forall f, rsp (push_file f).
  Hypothesis H_pop_file : rsp pop_file.
  Hypothesis H_next_anonymous : rsp next_anonymous.
  Hypothesis H_mark_indexed : forall f, rsp (upd (fun s => set_files (s_trace s) (f :: s_indexed s) s)).

  Let r_ret := resp_ret R Rrefl.
  Let r_none := resp_none R Rrefl.
  Let r_lift := resp_lift R Rrefl.
  Let r_get := resp_get R Rrefl.
  Let r_bind := resp_bind R Rtrans.
  Let r_seq := resp_seq R Rtrans.
  Let r_try := resp_try R.
  Let r_iterM := resp_iterM R Rrefl Rtrans.

  Lemma r_mapM_opt : forall A B (f : A -> M B) l, (forall x, In x l -> rsp (f x)) -> rsp (mapM_opt f l).
  Proof.
    induction l as [|x r IH]; intros H; simpl; [apply r_ret|].
    apply r_bind; [apply r_try, H; now left|]. intros o.
    apply r_bind; [apply IH; intros y Hy; apply H; now right|]. intros os. apply r_ret.
  Qed.
  Lemma r_here : forall r, rsp (here r). Proof. intros; apply r_get. Qed.
  Lemma r_state : rsp state. Proof. apply r_get. Qed.
  Lemma r_err : forall r k, rsp (err r k).
  Proof. intros. unfold err. apply r_bind; [apply r_here|intros; apply H_error]. Qed.
  Lemma r_emit : forall l, rsp (emit l).
  Proof. intros. unfold emit. apply r_iterM. intros; apply r_err. Qed.
  Lemma r_leaf_of : forall i, rsp (leaf_of i).
  Proof. intros. unfold leaf_of. apply r_bind; [apply r_state|intros; apply r_lift]. Qed.
  Lemma r_scoped : forall A k (body : M A), rsp body -> rsp (scoped k body).
  Proof.
    intros. unfold scoped. apply r_seq; [apply H_push_scope|].
    apply r_bind; [apply r_try; assumption|]. intros o. apply r_seq; [apply H_pop_scope|apply r_lift].
  Qed.

  Hint Resolve r_ret r_none r_lift r_get r_here r_state r_err r_emit r_leaf_of H_bad H_error H_add_reference
    H_add_record H_add_anonymous_def H_add_leaf H_add_leaf_nopos H_add_defset H_add_multiclass H_rec_targ
    H_rec_field H_rec_parent H_mc_targ H_mc_parent H_push_scope H_pop_scope H_add_variable H_push_file H_pop_file
    H_next_anonymous H_mark_indexed : rsp.

  Ltac rs :=
    repeat first
      [ progress auto with rsp
      | apply r_scoped
      | apply r_bind; [|intros ?]
      | apply r_seq
      | apply r_try
      | match goal with
        | |- resp R (match ?x with _ => _ end) => destruct x
        | |- resp R (if ?x then _ else _) => destruct x
        | |- resp R (let '(_, _) := ?x in _) => destruct x
        end ].

  Lemma r_index_ty : forall t, rsp (index_ty t).
  Proof. induction t; simpl; rs. Qed.
  Hint Resolve r_index_ty : rsp.

  Definition values_resp (n : nat) : Prop :=
    (forall v, rsp (index_value n v)) /\ (forall x, rsp (index_inner n x)) /\
    (forall sv, rsp (index_simple n sv)) /\ (forall a, rsp (index_arg n a)) /\
    (forall op an vs r, rsp (index_bang n op an vs r)) /\
    (forall op a vs r, rsp (index_bang_ops n op a vs r)).

  Lemma r_sufs_loop : forall (l : list suffix) t,
      rsp ((fix sufs_loop (t : mty) (l : list suffix) : M mty :=
           match l with
           | [] => ret t
           | sf :: r =>
             bind match sf with
                   | SufRange => lift (match t with MBits _ => Some MBit | _ => None end)
                   | SufSlice single => if single then lift (element_typ t) else ret t
                   | SufField i fr =>
                     bind (here (i_rng i)) (fun loc =>
                     bind state (fun s =>
                     match ty_find_field s t (i_name i) with
                     | None => match t with MUnknown => none | _ => seq (err fr DCannotAccessField) none end
                     | Some f => seq (add_reference (SyLeaf f) loc) (bind (leaf_of f) (fun lf => ret (lf_ty lf)))
                     end))
                   end (fun t' => sufs_loop t' r)
           end) t l).
  Proof. induction l as [|sf r IH]; intros t; rs; apply IH. Qed.

  Lemma r_index_annot : forall op an r, rsp (index_annot op an r).
  Proof. intros. unfold index_annot. rs. Qed.
  Lemma r_check_arity : forall op vs r, rsp (check_arity op vs r).
  Proof. intros. unfold check_arity. rs. Qed.
  Hint Resolve r_index_annot r_check_arity : rsp.

  Lemma values_resp_all : forall n, values_resp n.
  Proof.
    induction n as [|n [IHv [IHi [IHs [IHa [IHb IHo]]]]]].
    - repeat split; intros; simpl; auto with rsp.
    - repeat split.
      + intros [r [|first rest]]; simpl; rs; try (apply r_iterM; intros; apply IHi).
      + intros [sv sufs]; simpl. apply r_bind; [apply IHs|]. intros t0. apply r_sufs_loop.
      + intros sv; destruct sv; simpl; rs;
          try (apply r_iterM; intros; apply IHv); try (apply r_mapM_opt; intros; first [apply IHv|apply IHa]).
      + intros a; destruct a; simpl; rs; apply IHv.
      + intros op an vs r; simpl. rs.
      + intros op a vs r; simpl.
        destruct op; simpl;
          rs; try (apply r_iterM; intros; rs; apply IHv); try (apply r_mapM_opt; intros; apply IHv).
  Qed.

  Lemma r_index_value : forall n v, rsp (index_value n v).
  Proof. intros n; apply (values_resp_all n). Qed.
  Lemma r_index_arg : forall n a, rsp (index_arg n a).
  Proof. intros n; apply (values_resp_all n). Qed.
  Lemma r_index_simple : forall n a, rsp (index_simple n a).
  Proof. intros n; apply (values_resp_all n). Qed.
  Lemma r_index_bang : forall n op an vs r, rsp (index_bang n op an vs r).
  Proof. intros n; apply (values_resp_all n). Qed.
  Lemma r_index_bang_ops : forall n op a vs r, rsp (index_bang_ops n op a vs r).
  Proof. intros n; apply (values_resp_all n). Qed.
  Hint Resolve r_index_value r_index_arg : rsp.
  Lemma r_index_args : forall n l, rsp (index_args n l).
  Proof. intros. unfold index_args. apply r_mapM_opt. intros; auto with rsp. Qed.
  Lemma r_values : forall n vs, rsp (iterM (index_value n) vs).
  Proof. intros. apply r_iterM. intros; auto with rsp. Qed.
  Hint Resolve r_index_args r_values : rsp.
  Lemma r_resolve_class : forall n c, rsp (resolve_class_ref_as_class n c).
  Proof. intros n [i args r]; simpl; rs. Qed.
  Lemma r_resolve_multiclass : forall n c, rsp (resolve_class_ref_as_multiclass n c).
  Proof. intros n [i args r]; simpl; rs. Qed.
  Hint Resolve r_resolve_class r_resolve_multiclass : rsp.
  Lemma r_index_parents : forall n ps, rsp (index_parents n ps).
  Proof. intros. unfold index_parents. rs; try (apply r_iterM; intros; rs). Qed.
  Lemma r_index_targ : forall n a, rsp (index_targ n a).
  Proof. intros n [t i d]; simpl; rs. Qed.
  Lemma r_index_name_value : forall v, rsp (index_name_value v).
  Proof. intros [r [|[[] sufs] rest]]; simpl; rs. Qed.
  Lemma r_index_defvar : forall n i v, rsp (index_defvar n i v).
  Proof. intros. unfold index_defvar. rs. Qed.
  Hint Resolve r_index_parents r_index_targ r_index_name_value r_index_defvar : rsp.
  Lemma r_index_item : forall n it, rsp (index_item n it).
  Proof. intros n [t i v|i v|i v|c m|v]; simpl; rs. Qed.
  Hint Resolve r_index_item : rsp.
  Lemma r_record_body : forall n ps b, rsp (index_record_body n ps b).
  Proof. intros. unfold index_record_body. rs; try (apply r_iterM; intros; rs). Qed.
  Lemma r_targs : forall n (o : option (list targ)),
      rsp (match o with Some l => iterM (index_targ n) l | None => ret tt end).
  Proof. intros n [l|]; [apply r_iterM; intros|]; auto with rsp. Qed.
  Hint Resolve r_record_body r_targs : rsp.

  Lemma r_index_stmt : forall files n x, rsp (index_stmt files n x).
  Proof.
    intros files n. induction n as [|n IH]; intros x; [simpl; auto with rsp|].
    assert (Hl : forall l, rsp (iterM (index_stmt files n) l)) by (intros; apply r_iterM; intros; apply IH).
    destruct x; simpl; rs; try apply Hl; try (apply r_iterM; intros; rs; apply Hl).
  Qed.


  (** a statement without include never runs the three file operations *)
  Lemma r_index_stmt_noinc : forall files n x, noinc x = true -> rsp (index_stmt files n x).
  Proof.
    intros files n. induction n as [|n IH]; intros x Hx; [simpl; auto with rsp|].
    assert (Hl : forall l, noincs l = true -> rsp (iterM (index_stmt files n) l)).
    { intros l Hn. apply r_iterM. intros y Hy. apply IH. unfold noincs in Hn. rewrite forallb_forall in Hn. now apply Hn. }
    destruct x; simpl in Hx; try discriminate; rewrite ?noinc_local in Hx; simpl; rs; try (now apply Hl).
    - (* if: then *) apply andb_true_iff in Hx. destruct Hx as [H1 H2]. now apply Hl.
    - (* if: else *) apply andb_true_iff in Hx. destruct Hx as [H1 H2].
      apply r_iterM. intros body Hin. destruct el as [b|]; [|destruct Hin].
      destruct Hin as [<-|[]]. rs.
  Qed.

  Lemma r_index_stmts : forall files n l, rsp (iterM (index_stmt files n) l).
  Proof. intros. apply r_iterM. intros; apply r_index_stmt. Qed.
End Generic.
