(** A locally complete tree is Core: if every node of the tree has the children the bridge insists on for its kind
    (model/TreeComplete.v, a decidable LOCAL condition), then [core_of_tree] returns a Core AST.  Contrapositive:
    every refusal of the bridge ("noncore") is a local defect of some node of the tree (a missing mandatory child,
    an empty Identifier node, a bits length outside 0 .. 2^63-1, a BangOperator node that does not start with
    one of the 51 operators).  What remains between "the parse reported no error" and "Core" is therefore exactly:
    the grammar builds every mandatory child or reports an error - the error-free variant of the child-frame
    analysis of group grammar (AstAccess.kid_frames); observed on every error-free file of the self-test, with the
    single semantic exception of a bits length >= 2^63 or negative (BridgeText.error_free_not_core_refuted). *)
From Coq Require Import List NArith ZArith Bool String PeanoNat Lia.
From TG.Gen Require Import GenTokens GenAst.
From TG.Model Require Import Chars Lexer Tree AstAccess CoreAst AstToCore CoreParts TreeComplete.
From TG.Proofs Require Import ParserTile BridgeProofs BridgeLinear.
Import ListNotations.
Close Scope string_scope.
Open Scope N_scope.
Open Scope list_scope.

(** * Completeness at every located node *)
Definition AllOk (t : tree) : Prop := forall x, sub t x -> is_node (snd x) = true -> node_ok x = true.

Lemma complete_node o k cs : complete_from o (Node k cs) = true ->
  node_ok (o, Node k cs) = true /\ forall y, In y (with_offsets o cs) -> complete_from (fst y) (snd y) = true.
Proof.
  cbn [complete_from]. intros H. apply andb_true_iff in H. destruct H as [H1 H2]. split; [exact H1|].
  clear H1. revert o H2. induction cs as [|c r IH]; intros o H2 y Hy; cbn [with_offsets] in Hy; [contradiction|].
  apply andb_true_iff in H2. destruct H2 as [Hc Hr]. destruct Hy as [<-|Hy]; [exact Hc|]. eapply IH; eauto.
Qed.

Lemma complete_sub t : tree_complete t = true -> forall x, sub t x -> complete_from (fst x) (snd x) = true.
Proof.
  intros C x S. induction S as [|x y S IH Hy]; [exact C|].
  destruct x as [o [k cs|k tx]]; unfold lchildren in Hy; cbn [fst snd children_of] in Hy, IH; [|contradiction].
  eapply complete_node; eauto.
Qed.
Theorem complete_allok t : tree_complete t = true -> AllOk t.
Proof.
  intros C x S N. pose proof (complete_sub t C x S) as H. destruct x as [o [k cs|k tx]]; [|discriminate N].
  apply complete_node in H. tauto.
Qed.

(** * No "noncore" *)
Definition noerr {A} (m : res A) : Prop := forall e, m <> Err e.
Lemma noerr_ok A (a : A) : noerr (Ok a). Proof. intros e; discriminate. Qed.
Lemma noerr_fuel A : noerr (@Fuel A). Proof. intros e; discriminate. Qed.
Lemma noerr_bind A B (m : res A) (f : A -> res B) : noerr m -> (forall a, m = Ok a -> noerr (f a)) -> noerr (bind m f).
Proof. intros Hm Hf. destruct m as [a|e|]; cbn [bind]; [apply Hf; reflexivity|exfalso; eapply Hm; reflexivity|apply noerr_fuel]. Qed.
Lemma noerr_mapM A B (f : A -> res B) l : (forall x, In x l -> noerr (f x)) -> noerr (mapM f l).
Proof.
  induction l as [|x l IH]; intros H; cbn [mapM]; [apply noerr_ok|].
  apply noerr_bind; [apply H; left; reflexivity|]. intros y _. apply noerr_bind; [apply IH; intros z Hz; apply H; right; exact Hz|].
  intros ys _. apply noerr_ok.
Qed.
Lemma noerr_need A (l : list A) w : l <> [] -> noerr (need l w).
Proof. destruct l; [contradiction|]. intros _. apply noerr_ok. Qed.
Lemma mapM_nonnil A B (f : A -> res B) l ys : mapM f l = Ok ys -> l <> [] -> ys <> [].
Proof.
  destruct l as [|x l]; [contradiction|]. cbn [mapM]. destruct (f x); cbn [bind]; try discriminate.
  destruct (mapM f l); cbn [bind]; try discriminate. intros E _. inversion E. discriminate.
Qed.

Lemma nonnil_ne A (l : list A) : nonnil l = true -> l <> [].
Proof. destruct l; [discriminate|]. intros _. discriminate. Qed.
Lemma mand_ne x f : node_ok x = true -> In f (mand (l_kind x)) -> field x f <> [].
Proof.
  unfold node_ok. intros H I. apply andb_true_iff in H. destruct H as [H _]. rewrite forallb_forall in H. apply nonnil_ne. apply H. exact I.
Qed.
Lemma extra_ok x : node_ok x = true -> node_extra x = true.
Proof. unfold node_ok. intros H. apply andb_true_iff in H. tauto. Qed.

(** a child selected by a field: located in the tree, a node, of one of the field's kinds *)
Lemma field_facts t x f y : sub t x -> In y (field x f) ->
  sub t y /\ is_node (snd y) = true /\
  match field_acc (l_kind x) f with Some a => kind_in (l_kind y) (acc_kinds a) = true | None => False end.
Proof.
  intros S H. split; [eapply field_sub; eauto|]. unfold field in H. unfold field_acc.
  destruct (find (fun a => String.eqb (fst (fst a)) f) (accessors_of (l_kind x))) as [a|]; [|contradiction].
  destruct (laccess_is_node _ _ _ _ H). auto.
Qed.
Lemma kind_in_single k k0 : kind_in k [k0] = true -> k = k0.
Proof. cbn [kind_in existsb]. rewrite orb_false_r. apply sk_eqb_eq. Qed.

Section Complete.
Variable t : tree.
Variable c : cx.
Hypothesis A : AllOk t.

Definition good (x : lnode) : Prop := sub t x /\ is_node (snd x) = true.
Lemma good_ok x : good x -> node_ok x = true.
Proof. intros [S N]. apply A; assumption. Qed.

(** from [H : In y (field x f)] and [K : l_kind x = ...]: y is good and has one of the field's kinds *)
Ltac ff G K H :=
  let S := fresh "G" in let N := fresh "N" in let HK := fresh "HK" in
  destruct (field_facts t _ _ _ (proj1 G) H) as (S & N & HK); rewrite K in HK; cbn in HK;
  pose proof (conj S N : good _).

Lemma ce_ident x : good x -> l_kind x = S_Identifier -> noerr (c_ident c x).
Proof.
  intros G K. unfold c_ident. rewrite K. replace (sk_eqb S_Identifier S_Identifier) with true by reflexivity.
  pose proof (extra_ok x (good_ok x G)) as E. unfold node_extra in E. rewrite K in E. unfold m_identifier.
  destruct (first_token x) as [[o [k cs|k tx]]|]; try discriminate; cbn [need_opt]; apply noerr_ok.
Qed.

Definition type_kinds : list SyntaxKind := [S_BitType; S_IntType; S_StringType; S_DagType; S_BitsType; S_ListType; S_ClassId; S_CodeType].
Definition simple_kinds : list SyntaxKind :=
  [S_Integer; S_String; S_Code; S_Boolean; S_Uninitialized; S_Bits; S_List; S_Dag; S_Identifier; S_ClassValue; S_BangOperator; S_CondOperator].
Definition suffix_kinds : list SyntaxKind := [S_RangeSuffix; S_SliceSuffix; S_FieldSuffix].
Definition arg_kinds : list SyntaxKind := [S_PositionalArgValue; S_NamedArgValue].
Definition item_kinds : list SyntaxKind := [S_FieldDef; S_FieldLet; S_Defvar; S_Assert; S_Dump].
Definition stmt_kinds : list SyntaxKind :=
  [S_Include; S_Assert; S_Class; S_Def; S_Defm; S_Defset; S_Defvar; S_Dump; S_Foreach; S_If; S_Let; S_MultiClass].

Lemma ce_typ : forall n x, good x -> kind_in (l_kind x) type_kinds = true -> noerr (c_typ n c x).
Proof.
  induction n as [|n IH]; intros x G PK; [apply noerr_fuel|]. cbn [c_typ].
  destruct (l_kind x) eqn:K; try (cbn in PK; discriminate PK); try apply noerr_ok.
  - (* BitsType *)
    pose proof (good_ok x G) as OK. pose proof (extra_ok x OK) as E. unfold node_extra in E. rewrite K in E.
    destruct (field x "length") as [|len r] eqn:FL; [discriminate|]. cbn [need bind].
    destruct (m_integer_value len) as [v|]; [|discriminate]. cbn [need_opt bind]. destruct (v <? 0)%Z; [discriminate|apply noerr_ok].
  - (* ListType *)
    pose proof (good_ok x G) as OK.
    apply noerr_bind; [apply noerr_need; apply (mand_ne x _ OK); rewrite K; cbn; tauto|]. intros it H. apply need_ok_in in H. ff G K H.
    apply noerr_bind; [apply IH; assumption|]. intros; apply noerr_ok.
  - (* ClassId *)
    pose proof (good_ok x G) as OK.
    apply noerr_bind; [apply noerr_need; apply (mand_ne x _ OK); rewrite K; cbn; tauto|]. intros nm H. apply need_ok_in in H. ff G K H.
    apply kind_in_single in HK. apply noerr_bind; [apply ce_ident; assumption|]. intros; apply noerr_ok.
Qed.

(** [need (field x f) w] on a complete node whose kind makes [f] mandatory; the child is good and kinded *)
Tactic Notation "nd" constr(G) constr(K) constr(OK) ident(y) ident(H) :=
  apply noerr_bind; [apply noerr_need; apply (mand_ne _ _ OK); rewrite K; cbn; tauto|]; intros y H; apply need_ok_in in H; ff G K H.

Lemma ce_suffix x : good x -> kind_in (l_kind x) suffix_kinds = true -> noerr (c_suffix c x).
Proof.
  intros G PK. unfold c_suffix. destruct (l_kind x) eqn:K; try (cbn in PK; discriminate PK); try apply noerr_ok.
  pose proof (good_ok x G) as OK. nd G K OK nm H. apply kind_in_single in HK.
  apply noerr_bind; [apply ce_ident; assumption|]. intros; apply noerr_ok.
Qed.

Definition comp_values (n : nat) : Prop :=
  (forall x, good x -> l_kind x = S_Value -> noerr (c_value n c x)) /\
  (forall x, good x -> l_kind x = S_InnerValue -> noerr (c_inner n c x)) /\
  (forall x, good x -> kind_in (l_kind x) simple_kinds = true -> noerr (c_simple n c x)) /\
  (forall x, good x -> kind_in (l_kind x) arg_kinds = true -> noerr (c_arg n c x)).

(** the values selected by a field whose kind set is [Value] *)
Lemma ce_values_field n x f (IHv : forall y, good y -> l_kind y = S_Value -> noerr (c_value n c y)) :
  good x -> (forall y, In y (field x f) -> kind_in (l_kind y) [S_Value] = true) -> noerr (mapM (c_value n c) (field x f)).
Proof.
  intros G HK. apply noerr_mapM. intros y Hy. apply IHv.
  - split; [eapply field_sub; [exact (proj1 G)|exact Hy]|]. unfold field in Hy. destruct (find _ _); [|contradiction]. apply (laccess_is_node _ _ _ _ Hy).
  - apply kind_in_single. apply HK. exact Hy.
Qed.

Lemma comp_values_all : forall n, comp_values n.
Proof.
  induction n as [|n (IHv & IHi & IHs & IHa)]; [repeat split; intros; apply noerr_fuel|].
  split; [|split; [|split]]; intros x G PK.
  - (* value *)
    cbn [c_value]. pose proof (good_ok x G) as OK.
    apply noerr_bind.
    + apply noerr_mapM. intros y H. ff G PK H. apply kind_in_single in HK. apply IHi; assumption.
    + intros inners M. assert (NE : inners <> []).
      { eapply mapM_nonnil; [exact M|]. apply (mand_ne _ _ OK). rewrite PK. cbn. tauto. }
      destruct inners; [contradiction|apply noerr_ok].
  - (* inner *)
    cbn [c_inner]. pose proof (good_ok x G) as OK. nd G PK OK sv H.
    apply noerr_bind; [apply IHs; assumption|]. intros s0 _.
    apply noerr_bind; [|intros; apply noerr_ok]. apply noerr_mapM. intros y Hy. ff G PK Hy. apply ce_suffix; assumption.
  - (* simple *)
    cbn [c_simple]. pose proof (good_ok x G) as OK.
    destruct (l_kind x) eqn:K; try (cbn in PK; discriminate PK); try apply noerr_ok.
    + (* Bits *) nd G K OK vl H. apply kind_in_single in HK.
      apply noerr_bind; [|intros; apply noerr_ok]. apply ce_values_field; [exact IHv|assumption|].
      intros y Hy. destruct (field_facts t _ _ _ (proj1 H0) Hy) as (_ & _ & HK'). rewrite HK in HK'. exact HK'.
    + (* List *) nd G K OK vl H. apply kind_in_single in HK.
      apply noerr_bind; [|intros; apply noerr_ok]. apply ce_values_field; [exact IHv|assumption|].
      intros y Hy. destruct (field_facts t _ _ _ (proj1 H0) Hy) as (_ & _ & HK'). rewrite HK in HK'. exact HK'.
    + (* Dag *)
      apply noerr_bind; [|intros; apply noerr_ok]. apply noerr_mapM. intros v Hv.
      assert (DV : forall l, (forall a, In a l -> good a /\ l_kind a = S_DagArg) -> In v (dag_values l) -> noerr (c_value n c v)).
      { intros l Hl I0. unfold dag_values in I0. apply in_flat_map in I0. destruct I0 as (a & Ha & Iv). destruct (Hl a Ha) as (Ga & Ka).
        ff Ga Ka Iv. apply kind_in_single in HK. apply IHv; assumption. }
      apply in_app_or in Hv. destruct Hv as [Hv|Hv].
      * eapply DV; [|exact Hv]. intros a Ha. ff G K Ha. apply kind_in_single in HK. auto.
      * destruct (field x "arg_list") as [|al r] eqn:AL; [contradiction|].
        assert (Hal : In al (field x "arg_list")) by (rewrite AL; left; reflexivity). ff G K Hal. apply kind_in_single in HK.
        eapply DV; [|exact Hv]. intros a Ha. ff H HK Ha. apply kind_in_single in HK0. auto.
    + (* Identifier *)
      apply noerr_bind; [apply ce_ident; assumption|]. intros; apply noerr_ok.
    + (* ClassValue *)
      nd G K OK nm H. apply kind_in_single in HK.
      apply noerr_bind; [apply ce_ident; assumption|]. intros i _.
      apply noerr_bind; [|intros; apply noerr_ok]. unfold args_with.
      destruct (field x "arg_value_list") as [|avl r] eqn:AV; [apply noerr_ok|].
      assert (Havl : In avl (field x "arg_value_list")) by (rewrite AV; left; reflexivity). ff G K Havl. apply kind_in_single in HK0.
      apply noerr_mapM. intros a Ha. ff H1 HK0 Ha. apply IHa; assumption.
    + (* BangOperator *)
      pose proof (extra_ok x OK) as E. unfold node_extra in E. rewrite K in E.
      destruct (m_bang_kind x) as [k|] eqn:MB; [|discriminate]. cbn [need_opt bind].
      destruct (bop_of_kind k) as [op|] eqn:BK; [|discriminate].
      apply noerr_bind.
      { unfold opt_with. destruct (field x "type") as [|ty r] eqn:FT; [apply noerr_ok|].
        assert (Hty : In ty (field x "type")) by (rewrite FT; left; reflexivity). ff G K Hty.
        apply noerr_bind; [|intros; apply noerr_ok]. apply noerr_bind; [apply ce_typ; assumption|]. intros; apply noerr_ok. }
      intros annot _. apply noerr_bind; [|intros; apply noerr_ok].
      apply ce_values_field; [exact IHv|assumption|]. intros y Hy. ff G K Hy. exact HK.
    + (* CondOperator *)
      apply noerr_bind.
      { apply noerr_mapM. intros cl Hcl. ff G K Hcl. apply kind_in_single in HK. pose proof (good_ok cl H) as OKc.
        apply noerr_bind; [apply noerr_need; apply (mand_ne _ _ OKc); rewrite HK; cbn; tauto|]. intros cn _.
        apply noerr_bind; [apply noerr_need; apply (mand_ne _ _ OKc); rewrite HK; cbn; tauto|]. intros v _. apply noerr_ok. }
      intros cvs M. apply noerr_bind; [|intros; apply noerr_ok]. apply noerr_mapM. intros v Hv.
      apply in_concat in Hv. destruct Hv as (pair & Hp & Hv). destruct (mapM_in _ _ _ M pair Hp) as (cl & Hcl & E).
      ff G K Hcl. apply kind_in_single in HK.
      destruct (need (field cl "condition") "cond condition") as [cn| |] eqn:E1; cbn [bind] in E; try discriminate.
      destruct (need (field cl "value") "cond value") as [v0| |] eqn:E2; cbn [bind] in E; try discriminate. inversion E; subst pair.
      apply need_ok_in in E1. apply need_ok_in in E2.
      destruct Hv as [<-|[<-|[]]].
      * ff H HK E1. apply kind_in_single in HK0. apply IHv; assumption.
      * ff H HK E2. apply kind_in_single in HK0. apply IHv; assumption.
  - (* arg *)
    cbn [c_arg]. pose proof (good_ok x G) as OK.
    destruct (l_kind x) eqn:K; try (cbn in PK; discriminate PK).
    + (* Positional *) nd G K OK v H. apply kind_in_single in HK. apply noerr_bind; [apply IHv; assumption|]. intros; apply noerr_ok.
    + (* Named *)
      nd G K OK nm H. apply kind_in_single in HK. pose proof (good_ok nm H0) as OKn.
      nd H0 HK OKn first H1. apply kind_in_single in HK0. pose proof (good_ok first H2) as OKf.
      nd H2 HK0 OKf sv H3.
      destruct (l_kind sv) eqn:KS; try apply noerr_ok.
      * (* String name *) nd G K OK v H5. apply kind_in_single in HK2. apply noerr_bind; [apply IHv; assumption|]. intros; apply noerr_ok.
      * (* Identifier name *)
        pose proof (extra_ok sv (good_ok sv H4)) as E. unfold node_extra in E. rewrite KS in E. unfold m_identifier.
        destruct (first_token sv) as [[o [k0 cs|k0 tx]]|]; try discriminate. cbn [need_opt bind].
        nd G K OK v H5. apply kind_in_single in HK2. apply noerr_bind; [apply IHv; assumption|]. intros; apply noerr_ok.
Qed.

Lemma ce_value n x : good x -> l_kind x = S_Value -> noerr (c_value n c x).
Proof. apply (comp_values_all n). Qed.
Lemma ce_arg n x : good x -> kind_in (l_kind x) arg_kinds = true -> noerr (c_arg n c x).
Proof. apply (comp_values_all n). Qed.

(** an optional Value child *)
Lemma ce_opt_value n x f K0 : good x -> l_kind x = K0 ->
  (match field_acc K0 f with Some a => acc_kinds a = [S_Value] | None => True end) ->
  noerr (c_opt_value n c (field x f)).
Proof.
  intros G K HA. unfold c_opt_value, opt_with. destruct (field x f) as [|v r] eqn:F; [apply noerr_ok|].
  assert (Hv : In v (field x f)) by (rewrite F; left; reflexivity).
  destruct (field_facts t _ _ _ (proj1 G) Hv) as (Gv & Nv & HK). rewrite K in HK.
  destruct (field_acc K0 f) as [a|]; [|contradiction]. rewrite HA in HK. apply kind_in_single in HK.
  apply noerr_bind; [apply ce_value; [split; assumption|exact HK]|]. intros; apply noerr_ok.
Qed.

Lemma ce_args n x f K0 : good x -> l_kind x = K0 ->
  (match field_acc K0 f with Some a => acc_kinds a = [S_ArgValueList] | None => True end) ->
  noerr (c_args n c (field x f)).
Proof.
  intros G K HA. unfold c_args, args_with. destruct (field x f) as [|avl r] eqn:F; [apply noerr_ok|].
  assert (Hv : In avl (field x f)) by (rewrite F; left; reflexivity).
  destruct (field_facts t _ _ _ (proj1 G) Hv) as (Gv & Nv & HK). rewrite K in HK.
  destruct (field_acc K0 f) as [a|]; [|contradiction]. rewrite HA in HK. apply kind_in_single in HK.
  apply noerr_mapM. intros a0 Ha. assert (Gavl : good avl) by (split; assumption). ff Gavl HK Ha. apply ce_arg; assumption.
Qed.

Lemma ce_targs n x K0 : good x -> l_kind x = K0 ->
  (match field_acc K0 "template_arg_list" with Some a => acc_kinds a = [S_TemplateArgList] | None => True end) ->
  noerr (c_targs n c (field x "template_arg_list")).
Proof.
  intros G K HA. unfold c_targs, opt_with. destruct (field x "template_arg_list") as [|tl r] eqn:F; [apply noerr_ok|].
  assert (Hv : In tl (field x "template_arg_list")) by (rewrite F; left; reflexivity).
  destruct (field_facts t _ _ _ (proj1 G) Hv) as (Gv & Nv & HK). rewrite K in HK.
  destruct (field_acc K0 "template_arg_list") as [a|]; [|contradiction]. rewrite HA in HK. apply kind_in_single in HK.
  assert (Gtl : good tl) by (split; assumption).
  apply noerr_bind; [|intros; apply noerr_ok]. apply noerr_mapM. intros a0 Ha. ff Gtl HK Ha. apply kind_in_single in HK0.
  pose proof (good_ok a0 H) as OKa.
  nd H HK0 OKa ty H1. apply noerr_bind; [apply ce_typ; assumption|]. intros ty' _.
  nd H HK0 OKa nm H3. apply kind_in_single in HK2. apply noerr_bind; [apply ce_ident; assumption|]. intros i _.
  apply noerr_bind; [eapply ce_opt_value; [exact H|exact HK0|reflexivity]|]. intros; apply noerr_ok.
Qed.

Lemma ce_parents n pl : good pl -> l_kind pl = S_ParentClassList -> noerr (c_parents n c pl).
Proof.
  intros G K. unfold c_parents. apply noerr_mapM. intros cr Hcr. ff G K Hcr. apply kind_in_single in HK.
  pose proof (good_ok cr H) as OKc. nd H HK OKc nm H1. apply kind_in_single in HK0.
  apply noerr_bind; [apply ce_ident; assumption|]. intros i _.
  apply noerr_bind; [eapply ce_args; [exact H|exact HK|reflexivity]|]. intros; apply noerr_ok.
Qed.

Lemma ce_item n x : good x -> kind_in (l_kind x) item_kinds = true -> noerr (c_item n c x).
Proof.
  intros G PK. unfold c_item. pose proof (good_ok x G) as OK.
  destruct (l_kind x) eqn:K; try (cbn in PK; discriminate PK).
  - (* Defvar *) nd G K OK nm H. apply kind_in_single in HK. apply noerr_bind; [apply ce_ident; assumption|]. intros i _.
    nd G K OK v H1. apply kind_in_single in HK0. apply noerr_bind; [apply ce_value; assumption|]. intros; apply noerr_ok.
  - (* Dump *) nd G K OK v H. apply kind_in_single in HK. apply noerr_bind; [apply ce_value; assumption|]. intros; apply noerr_ok.
  - (* Assert *) nd G K OK cn H. apply kind_in_single in HK. apply noerr_bind; [apply ce_value; assumption|]. intros cn' _.
    nd G K OK m H1. apply kind_in_single in HK0. apply noerr_bind; [apply ce_value; assumption|]. intros; apply noerr_ok.
  - (* FieldDef *) nd G K OK ty H. apply noerr_bind; [apply ce_typ; assumption|]. intros ty' _.
    nd G K OK nm H1. apply kind_in_single in HK0. apply noerr_bind; [apply ce_ident; assumption|]. intros i _.
    apply noerr_bind; [eapply ce_opt_value; [exact G|exact K|reflexivity]|]. intros; apply noerr_ok.
  - (* FieldLet *) nd G K OK nm H. apply kind_in_single in HK. apply noerr_bind; [apply ce_ident; assumption|]. intros i _.
    nd G K OK v H1. apply kind_in_single in HK0. apply noerr_bind; [apply ce_value; assumption|]. intros; apply noerr_ok.
Qed.

Lemma ce_record_body n rb : good rb -> l_kind rb = S_RecordBody -> noerr (c_record_body n c rb).
Proof.
  intros G K. unfold c_record_body. pose proof (good_ok rb G) as OK.
  nd G K OK pl H. apply kind_in_single in HK. nd G K OK body H1. apply kind_in_single in HK0.
  apply noerr_bind; [apply noerr_mapM; intros it Hit; ff H2 HK0 Hit; apply ce_item; assumption|]. intros items _.
  apply noerr_bind; [apply ce_parents; assumption|]. intros; apply noerr_ok.
Qed.

Definition comp_stmts (n : nat) : Prop :=
  (forall x, good x -> l_kind x = S_StatementList -> noerr (c_stmts n c x)) /\
  (forall x, good x -> kind_in (l_kind x) stmt_kinds = true -> noerr (c_stmt n c x)).

Lemma comp_stmts_all : forall n, comp_stmts n.
Proof.
  induction n as [|n (IHl & IHs)]; [split; intros; apply noerr_fuel|].
  split; intros x G PK.
  - cbn [c_stmts]. apply noerr_mapM. intros y Hy. ff G PK Hy. apply IHs; assumption.
  - cbn [c_stmt]. pose proof (good_ok x G) as OK.
    destruct (l_kind x) eqn:K; try (cbn in PK; discriminate PK).
    + (* Include *) nd G K OK pth H. apply noerr_ok.
    + (* Class *) nd G K OK nm H. apply kind_in_single in HK. apply noerr_bind; [apply ce_ident; assumption|]. intros i _.
      apply noerr_bind; [eapply ce_targs; [exact G|exact K|reflexivity]|]. intros ta _.
      nd G K OK rb H1. apply kind_in_single in HK0. apply noerr_bind; [apply ce_record_body; assumption|]. intros; apply noerr_ok.
    + (* Def *) apply noerr_bind; [eapply ce_opt_value; [exact G|exact K|reflexivity]|]. intros nm _.
      nd G K OK rb H. apply kind_in_single in HK. apply noerr_bind; [apply ce_record_body; assumption|]. intros; apply noerr_ok.
    + (* Let *) nd G K OK ll H. apply kind_in_single in HK.
      apply noerr_bind.
      { apply noerr_mapM. intros it Hit. ff H0 HK Hit. apply kind_in_single in HK0. pose proof (good_ok it H1) as OKi.
        apply noerr_need. apply (mand_ne _ _ OKi). rewrite HK0. cbn. tauto. }
      intros vs M. apply noerr_bind.
      { unfold c_values. apply noerr_mapM. intros v Hv. destruct (mapM_in _ _ _ M v Hv) as (it & Hit & E). apply need_ok_in in E.
        ff H0 HK Hit. apply kind_in_single in HK0. ff H1 HK0 E. apply kind_in_single in HK1. apply ce_value; assumption. }
      intros vs' _. nd G K OK sl H1. apply kind_in_single in HK0. apply noerr_bind; [apply IHl; assumption|]. intros; apply noerr_ok.
    + (* MultiClass *) nd G K OK nm H. apply kind_in_single in HK. apply noerr_bind; [apply ce_ident; assumption|]. intros i _.
      apply noerr_bind; [eapply ce_targs; [exact G|exact K|reflexivity]|]. intros ta _.
      nd G K OK pl H1. apply kind_in_single in HK0. apply noerr_bind; [apply ce_parents; assumption|]. intros ps _.
      nd G K OK sl H3. apply kind_in_single in HK1. apply noerr_bind; [apply IHl; assumption|]. intros; apply noerr_ok.
    + (* Defm *) apply noerr_bind; [eapply ce_opt_value; [exact G|exact K|reflexivity]|]. intros nm _.
      nd G K OK pl H. apply kind_in_single in HK. apply noerr_bind; [apply ce_parents; assumption|]. intros; apply noerr_ok.
    + (* Defset *) nd G K OK ty H. apply noerr_bind; [apply ce_typ; assumption|]. intros ty' _.
      nd G K OK nm H1. apply kind_in_single in HK0. apply noerr_bind; [apply ce_ident; assumption|]. intros i _.
      nd G K OK sl H3. apply kind_in_single in HK1. apply noerr_bind; [apply IHl; assumption|]. intros; apply noerr_ok.
    + (* Defvar *) nd G K OK nm H. apply kind_in_single in HK. apply noerr_bind; [apply ce_ident; assumption|]. intros i _.
      nd G K OK v H1. apply kind_in_single in HK0. apply noerr_bind; [apply ce_value; assumption|]. intros; apply noerr_ok.
    + (* Dump *) nd G K OK v H. apply kind_in_single in HK. apply noerr_bind; [apply ce_value; assumption|]. intros; apply noerr_ok.
    + (* Foreach *) nd G K OK it H. apply kind_in_single in HK. pose proof (good_ok it H0) as OKi.
      nd H0 HK OKi ini H1.
      apply noerr_bind.
      { destruct (l_kind ini) eqn:KI; try (cbn in HK0; discriminate HK0); try apply noerr_ok.
        apply noerr_bind; [apply ce_value; assumption|]. intros; apply noerr_ok. }
      intros init _. nd H0 HK OKi nm H3. apply kind_in_single in HK1. apply noerr_bind; [apply ce_ident; assumption|]. intros i _.
      nd G K OK sl H5. apply kind_in_single in HK2. apply noerr_bind; [apply IHl; assumption|]. intros; apply noerr_ok.
    + (* If *) nd G K OK cn H. apply kind_in_single in HK. apply noerr_bind; [apply ce_value; assumption|]. intros cn' _.
      nd G K OK th H1. apply kind_in_single in HK0. apply noerr_bind; [apply IHl; assumption|]. intros th' _.
      apply noerr_bind; [|intros; apply noerr_ok]. unfold opt_with. destruct (field x "else_body") as [|el r] eqn:FE; [apply noerr_ok|].
      assert (Hel : In el (field x "else_body")) by (rewrite FE; left; reflexivity). ff G K Hel. apply kind_in_single in HK1.
      apply noerr_bind; [apply IHl; assumption|]. intros; apply noerr_ok.
    + (* Assert *) nd G K OK cn H. apply kind_in_single in HK. apply noerr_bind; [apply ce_value; assumption|]. intros cn' _.
      nd G K OK m H1. apply kind_in_single in HK0. apply noerr_bind; [apply ce_value; assumption|]. intros; apply noerr_ok.
Qed.
End Complete.

(** * The theorem *)
Theorem complete_is_core : forall file links cs,
  tree_complete (Node S_SourceFile cs) = true -> exists ss, core_of_tree file links (Node S_SourceFile cs) = Ok ss.
Proof.
  intros file links cs C. set (t := Node S_SourceFile cs) in *. pose proof (complete_allok t C) as A.
  destruct (core_of_tree file links t) as [ss|e|] eqn:E; [exists ss; reflexivity| |exfalso; eapply core_of_tree_total; exact E].
  exfalso. assert (NE : noerr (core_of_tree file links t)); [|exact (NE e E)].
  unfold core_of_tree, c_file. change (l_kind (0, t)) with S_SourceFile. change (snd (0, t)) with (Node S_SourceFile cs). cbv iota.
  assert (G : good t (0, t)) by (split; [constructor|reflexivity]).
  pose proof (good_ok _ A _ G) as OK. assert (K : l_kind (0, t) = S_SourceFile) by reflexivity.
  apply noerr_bind.
  - apply noerr_need. apply (mand_ne _ _ OK). rewrite K. cbn. tauto.
  - intros sl H. apply need_ok_in in H.
    destruct (field_facts _ _ _ _ (proj1 G) H) as (Gs & Ns & HK). rewrite K in HK. cbn in HK. apply kind_in_single in HK.
    apply (comp_stmts_all t (mkCx file links) A); [split; assumption|exact HK].
Qed.

(** the refusals of the bridge are local defects: a tree the bridge refuses is not locally complete *)
Corollary refusal_is_local_defect : forall file links cs why,
  core_of_tree file links (Node S_SourceFile cs) = Err why -> tree_complete (Node S_SourceFile cs) = false.
Proof.
  intros file links cs why E. destruct (tree_complete (Node S_SourceFile cs)) eqn:C; [|reflexivity].
  destruct (complete_is_core file links cs C) as (ss & E'). congruence.
Qed.
