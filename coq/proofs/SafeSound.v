(** Panic-freedom of every program accepted by the reflective checks:
      [chk_fns] (A-look: every p.assert(k) is reached only with look-ahead k; LookProg.v) and
      [bchk_fns] (A-bld: builder discipline, checkpoints, types of locals, break/return; BldAn.v).
    [safe_sound]: no execution of an accepted expression from a state satisfying the invariants ends in RPanic,
    and the result satisfies the A-bld post-state.  The look-ahead facts needed at p.assert and at calls come from
    [facts_sound] (LookProgSound.v), the token-stream facts (no `error token without message`, skip fuel) from the
    tiling invariant (ParserTile.v / GTile.v). *)
From Coq Require Import List Arith NArith Bool Lia.
From TG.Gen Require Import GenTokens GenLexTables.
From TG.Model Require Import Chars Lexer Prep Tree ParserPrims GInterp.
From TG.Proofs Require Import LexBasics PrepBasics ParserTile GTile LookProg LookProgBase LookProgSound BldAn BldBase.
Import ListNotations.
Open Scope nat_scope.

Arguments p_eat : simpl never.
Arguments p_eat_if : simpl never.
Arguments p_assert : simpl never.
Arguments p_expect : simpl never.
Arguments p_skip_all : simpl never.
Arguments p_error_and_eat : simpl never.
Arguments p_error_and_recover : simpl never.
Arguments p_start_node : simpl never.
Arguments p_finish_node : simpl never.
Arguments p_start_node_at : simpl never.
Arguments p_error : simpl never.
Arguments p_at_set : simpl never.
Arguments env_get : simpl never.
Arguments env_set : simpl never.
Arguments sjoin : simpl never.
Arguments njoin : simpl never.
Arguments grow : simpl never.
Arguments ble : simpl never.
Arguments nc : simpl never.
Arguments NPof : simpl never.

(** * The builder under the token-stream primitives *)
Definition grows (b b' : builder) : Prop := parents b' = parents b /\ nc b <= nc b'.

Lemma grows_refl b : grows b b.
Proof. split; auto. Qed.
Lemma grows_trans a b c : grows a b -> grows b c -> grows a c.
Proof. intros [A1 A2] [B1 B2]. split; [congruence|lia]. Qed.

Lemma p_save_bld s s1 : p_save s = Some s1 -> parents (bld s1) = parents (bld s) /\ nc (bld s1) = S (nc (bld s)).
Proof.
  unfold p_save. destruct (tk_eqb (cur s) T_Error).
  - destruct (take_error _) as [[e|] pp']; [|discriminate]. intros H; inversion H; subst. split; reflexivity.
  - intros H; inversion H; subst. split; reflexivity.
Qed.
Lemma p_lex_bld s : bld (p_lex s) = bld s.
Proof.
  unfold p_lex. destruct (prep_next (pp s) (raw s)) as [[[k len] pp'] raw'].
  destruct (take_bytes len (src s)) as [tx src']. reflexivity.
Qed.
Lemma p_skip_grows : forall fuel s s', p_skip fuel s = Some s' -> grows (bld s) (bld s').
Proof.
  induction fuel as [|x fuel IH]; intros s s' H; cbn [p_skip] in H.
  - destruct (is_trivia (cur s)); inversion H; subst. apply grows_refl.
  - destruct (is_trivia (cur s)); [|inversion H; subst; apply grows_refl].
    destruct (p_save s) as [s1|] eqn:SV; [|discriminate]. apply IH in H. rewrite p_lex_bld in H.
    apply p_save_bld in SV. destruct SV as [A B]. destruct H as [C D]. split; [congruence|lia].
Qed.
Lemma p_eat_grows s s' : p_eat s = Some s' -> parents (bld s') = parents (bld s) /\ S (nc (bld s)) <= nc (bld s').
Proof.
  unfold p_eat. destruct (p_save s) as [s1|] eqn:SV; [|discriminate]. unfold p_skip_all. intros H.
  apply p_skip_grows in H. rewrite p_lex_bld in H. apply p_save_bld in SV. destruct SV as [A B]. destruct H as [C D].
  split; [congruence|lia].
Qed.
Lemma p_eat_grows' s s' : p_eat s = Some s' -> grows (bld s) (bld s').
Proof. intros H. apply p_eat_grows in H. destruct H. split; [auto|lia]. Qed.

Lemma p_finish_node_bld s s' : p_finish_node s = Some s' -> b_finish_node (bld s) = Some (bld s').
Proof. unfold p_finish_node. destruct (b_finish_node (bld s)); [|discriminate]. intros H; inversion H; reflexivity. Qed.

(** error; start_node(Error); eat; finish_node *)
Lemma error_eat_total txt s m : Tile txt s ->
  exists s', (match p_eat (with_bld (p_error s m) (b_start_node (bld (p_error s m)) S_Error)) with
              | Some s3 => p_finish_node s3 | None => None end) = Some s' /\ grows (bld s) (bld s').
Proof.
  intros T.
  assert (T2 : Tile txt (with_bld (p_error s m) (b_start_node (bld (p_error s m)) S_Error))).
  { apply tile_with_bld; [apply pushed_start_node|apply p_error_tile; exact T]. }
  destruct (p_eat_tile _ _ T2) as (s3 & E & _). rewrite E.
  apply p_eat_grows in E. destruct E as [EP EN].
  change (bld (with_bld (p_error s m) (b_start_node (bld (p_error s m)) S_Error))) with (b_start_node (bld s) S_Error) in *.
  cbn [b_start_node parents] in EP. unfold nc in EN. cbn [b_start_node children] in EN. fold (nc (bld s)) (nc (bld s3)) in EN.
  unfold p_finish_node, b_finish_node. rewrite EP. eexists; split; [reflexivity|].
  split; cbn [with_bld bld parents]; [reflexivity|].
  unfold nc. cbn [children List.length]. rewrite skipn_length. fold (nc (bld s)) (nc (bld s3)). lia.
Qed.

Lemma p_error_and_eat_total txt s m : Tile txt s -> exists s', p_error_and_eat s m = Some s' /\ grows (bld s) (bld s').
Proof. intros T. unfold p_error_and_eat. apply (error_eat_total txt s m T). Qed.

Lemma p_error_and_recover_total txt rec s m : Tile txt s -> exists s', p_error_and_recover rec s m = Some s' /\ grows (bld s) (bld s').
Proof.
  intros T. unfold p_error_and_recover. destruct (negb _ && negb _).
  - apply (error_eat_total txt s m T).
  - eexists; split; [reflexivity|apply grows_refl].
Qed.

Lemma p_eat_if_total txt s k : Tile txt s -> exists b s', p_eat_if s k = Some (b, s') /\ grows (bld s) (bld s') /\ b = p_at s k.
Proof.
  intros T. unfold p_eat_if. destruct (p_at s k).
  - destruct (p_eat_tile txt s T) as (s' & E & _). rewrite E. do 2 eexists; split; [reflexivity|]. split; [apply p_eat_grows'; exact E|reflexivity].
  - do 2 eexists; split; [reflexivity|]. split; [apply grows_refl|reflexivity].
Qed.

Lemma p_expect_total txt s k m : Tile txt s -> exists s', p_expect s k m = Some s' /\ grows (bld s) (bld s').
Proof.
  intros T. unfold p_expect. destruct (p_eat_if_total txt s k T) as (b & s1 & -> & G & _).
  destruct b; [eauto|]. destruct (after_err s1); [eauto|]. eexists; split; [reflexivity|exact G].
Qed.

(** * Post-states *)
Definition bpost (P0 : frames) (lo : nat) (q : bres) (r : res) : Prop :=
  match r with
  | RVal v en s => exists a vt, bn q = Some (a, vt) /\ BG P0 lo a en (bld s) /\ vok lo (NPof a (bld s)) (nc (bld s)) vt v
  | RBrk en s => exists a, bb q = Some a /\ BG P0 lo a en (bld s)
  | RRet v en s => exists a, br q = Some a /\ BG P0 lo a en (bld s) /\ exists bv, v = VB bv
  | RPanic => False
  | ROOF => True
  end.

Lemma sjoin_l P0 lo o1 o2 o3 a en b : sjoin o1 o2 = (o3, true) -> o1 = Some a -> BG P0 lo a en b ->
  exists a3, o3 = Some a3 /\ BG P0 lo a3 en b.
Proof.
  intros J -> G. destruct o2 as [a2|].
  - unfold sjoin in J. destruct (Nat.eqb (dep a) (dep a2)) eqn:E; [|inversion J].
    inversion J; subst. eexists; split; [reflexivity|]. eapply BG_sjoin_l; [|exact G]. unfold sjoin. rewrite E. reflexivity.
  - unfold sjoin in J. inversion J; subst. eauto.
Qed.
Lemma sjoin_r P0 lo o1 o2 o3 a en b : sjoin o1 o2 = (o3, true) -> o2 = Some a -> BG P0 lo a en b ->
  exists a3, o3 = Some a3 /\ BG P0 lo a3 en b.
Proof.
  intros J -> G. destruct o1 as [a1|].
  - unfold sjoin in J. destruct (Nat.eqb (dep a1) (dep a)) eqn:E; [|inversion J].
    inversion J; subst. eexists; split; [reflexivity|]. eapply BG_sjoin_r; [|exact G]. unfold sjoin. rewrite E. reflexivity.
  - unfold sjoin in J. inversion J; subst. eauto.
Qed.

Lemma NPof_sjoin a1 a2 a3 b : sjoin (Some a1) (Some a2) = (Some a3, true) -> NPof a3 b = NPof a1 b /\ NPof a3 b = NPof a2 b.
Proof.
  unfold sjoin. destruct (Nat.eqb_spec (dep a1) (dep a2)) as [E|]; [|discriminate]. intros H; inversion H; subst.
  unfold NPof. cbn [dep]. rewrite E. auto.
Qed.

Lemma njoin_l P0 lo o1 o2 o3 a vt en b v : njoin o1 o2 = (o3, true) -> o1 = Some (a, vt) -> BG P0 lo a en b ->
  vok lo (NPof a b) (nc b) vt v ->
  exists a3, o3 = Some (a3, vt) /\ BG P0 lo a3 en b /\ vok lo (NPof a3 b) (nc b) vt v.
Proof.
  intros J -> G V. destruct o2 as [[a2 w]|].
  - unfold njoin in J. destruct (sjoin (Some a) (Some a2)) as [[c|] k] eqn:SJ; [|inversion J].
    inversion J as [[J1 J2]]. apply andb_prop in J2. destruct J2 as [K1 K2]. subst k.
    eexists; split; [reflexivity|]. destruct (NPof_sjoin _ _ _ b SJ) as [N1 _]. rewrite N1.
    split; [eapply BG_sjoin_l; eauto|exact V].
  - unfold njoin in J. inversion J; subst. eauto.
Qed.
Lemma njoin_r P0 lo o1 o2 o3 a vt en b v : njoin o1 o2 = (o3, true) -> o2 = Some (a, vt) -> BG P0 lo a en b ->
  vok lo (NPof a b) (nc b) vt v ->
  exists a3 vt3, o3 = Some (a3, vt3) /\ BG P0 lo a3 en b /\ vok lo (NPof a3 b) (nc b) vt3 v.
Proof.
  intros J -> G V. destruct o1 as [[a1 w]|].
  - unfold njoin in J. destruct (sjoin (Some a1) (Some a)) as [[c|] k] eqn:SJ; [|inversion J].
    inversion J as [[J1 J2]]. apply andb_prop in J2. destruct J2 as [K1 K2]. subst k. apply vty_eqb_eq in K2. subst w.
    do 2 eexists; split; [reflexivity|]. destruct (NPof_sjoin _ _ _ b SJ) as [_ N2]. rewrite N2.
    split; [eapply BG_sjoin_r; eauto|exact V].
  - unfold njoin in J. inversion J; subst. eauto.
Qed.

Lemma is_bool_vok o a vt lo NP ub v : is_bool o = true -> o = Some (a, vt) -> vok lo NP ub vt v -> vt = VBool /\ exists bv, v = VB bv.
Proof. intros I -> V. destruct vt; [split; [reflexivity|exact V]|discriminate]. Qed.

Lemma BG_env_set_bool P0 lo a en b x w : BG P0 lo a en b -> ty_at (tys a) x = TBool -> BG P0 lo a (env_set en x (VB w)) b.
Proof.
  intros [H0 H1 H2 H3 H4 H5] TX. constructor; auto.
  intros y. destruct (Nat.eq_dec x y) as [<-|NE].
  - rewrite TX. cbn. rewrite env_get_set_same. eauto.
  - specialize (H5 y). destruct (ty_at (tys a) y); cbn in *; auto.
    + destruct H5 as (bv & E). exists bv. apply env_get_set_other; assumption.
    + destruct H5 as (n & E & C). exists n. split; [apply env_get_set_other; assumption|exact C].
Qed.

Lemma BG_set P0 lo a en b x vt v :
  BG P0 lo a en b -> vok lo (NPof a b) (nc b) vt v ->
  BG P0 lo {| dep := dep a; sta := sta a; tys := ty_set (tys a) x (match vt with VBool => TBool | VCp d => TCp d end) |}
     (env_set en x v) b.
Proof.
  intros [H0 H1 H2 H3 H4 H5] V. constructor; auto. unfold NPof in *. cbn [dep tys].
  intros y. destruct (Nat.eq_dec x y) as [<-|NE].
  - rewrite ty_at_set_same, env_get_set_same. destruct vt; cbn in *.
    + destruct V as (bv & ->). eauto.
    + destruct V as (n & -> & C). eauto.
  - rewrite ty_at_set_other by assumption. specialize (H5 y). destruct (ty_at (tys a) y); cbn in *; auto.
    + destruct H5 as (bv & E). exists bv. apply env_get_set_other; assumption.
    + destruct H5 as (n & E & C). exists n. split; [apply env_get_set_other; assumption|exact C].
Qed.

Lemma base0_parents P0 lo a en b : BG P0 lo a en b -> base0 (parents b) <= base lo (NPof a b).
Proof.
  intros [H0 H1 H2 H3 H4 H5]. unfold NPof in *.
  destruct (dep a) as [|d]; cbn [firstn skipn base] in *.
  - rewrite H2. exact H0.
  - destruct (parents b) as [|[k f] ps]; cbn [firstn base base0]; [cbn in H1; lia|lia].
Qed.

(** * Primitives *)
Section SAFE.
Variable p : prog.
Variable ce : cert.
Variable sigs : list fsig.
Variable txt : text.
Hypothesis CERT : cert_ok p ce.

Lemma bnorm_post P0 lo a vt en s v : BG P0 lo a en (bld s) -> vok lo (NPof a (bld s)) (nc (bld s)) vt v ->
  bpost P0 lo (bnorm a vt) (RVal v en s).
Proof. intros G V. cbn. eauto. Qed.

Lemma vok_true lo NP ub : vok lo NP ub VBool (VB true).
Proof. cbn. eauto. Qed.
Lemma vok_bool lo NP ub bv : vok lo NP ub VBool (VB bv).
Proof. cbn. eauto. Qed.

Lemma bprim_sound P0 lo pr al ab en s :
  kmem (cur s) (L al) = true -> ok (an_prim p pr al) = true -> Tile txt s -> BG P0 lo ab en (bld s) ->
  bok (bprim pr ab) = true -> bpost P0 lo (bprim pr ab) (exec_prim p pr en s).
Proof.
  intros KM OK T G BOK.
  assert (GROW : forall s', grows (bld s) (bld s') -> bpost P0 lo (bnorm (grow ab) VBool) (RVal (VB true) en s')).
  { intros s' [GP GN]. apply bnorm_post; [eapply BG_grow; eauto|apply vok_true]. }
  destruct pr; cbn [exec_prim bprim] in *.
  - (* StartNode *) apply bnorm_post; [|apply vok_true]. apply BG_start_node. exact G.
  - (* FinishNode *) destruct (dep ab) as [|d] eqn:D; [discriminate|].
    destruct (BG_finish_node _ _ _ _ _ _ D G) as (b' & F & G').
    unfold p_finish_node. rewrite F. cbn [lift]. apply bnorm_post; [exact G'|apply vok_true].
  - (* Checkpoint *) apply bnorm_post; [exact G|]. eapply BG_checkpoint. exact G.
  - (* StartNodeAt *)
    destruct (ty_at (tys ab) x) as [|d|] eqn:TX; try discriminate.
    destruct (Nat.eqb_spec d (dep ab)) as [->|]; [|discriminate].
    destruct (BG_start_node_at _ _ _ _ _ x k TX G) as (n & b' & EX & SN & G').
    rewrite EX. unfold p_start_node_at. rewrite SN. cbn [lift]. apply bnorm_post; [exact G'|apply vok_true].
  - (* Assert *)
    cbn [an_prim ok] in OK. pose proof (ksub_spec _ _ OK _ KM) as KK. apply kmem_single_eq in KK.
    destruct (p_eat_if_total txt s k T) as (b & s' & E & GR & B).
    assert (BT : p_at s k = true) by (unfold p_at; rewrite KK; apply LexBasics.tk_eqb_refl).
    rewrite BT in B. subst b. unfold p_assert. rewrite E. cbn [lift]. apply GROW. exact GR.
  - (* Expect *) destruct (p_expect_total txt s k m T) as (s' & E & GR). rewrite E. cbn [lift]. apply GROW. exact GR.
  - (* Eat *) destruct (p_eat_tile txt s T) as (s' & E & _). rewrite E. cbn [lift]. apply GROW. apply p_eat_grows'. exact E.
  - (* EatIf *) destruct (p_eat_if_total txt s k T) as (b & s' & E & GR & B). rewrite E.
    destruct GR as [GP GN]. apply bnorm_post; [eapply BG_grow; eauto|apply vok_bool].
  - (* Skip *) destruct (p_skip_all_tile txt s T) as (s' & E & _). rewrite E. cbn [lift]. apply GROW.
    unfold p_skip_all in E. eapply p_skip_grows. exact E.
  - (* Error *) apply bnorm_post; [exact G|apply vok_true].
  - (* ErrorAndEat *) destruct (p_error_and_eat_total txt s m T) as (s' & E & GR). rewrite E. cbn [lift]. apply GROW. exact GR.
  - (* ErrorAndRecover *) destruct (p_error_and_recover_total txt (recover_tokens p) s m T) as (s' & E & GR). rewrite E. cbn [lift]. apply GROW. exact GR.
  - (* AtSet *) apply bnorm_post; [exact G|apply vok_bool].
Qed.

(** * The function table agrees with the signatures *)
Definition sigs_ok : Prop :=
  forall f sg, nth_error sigs f = Some sg -> exists body, fn_body p f = Some body /\ bchk_fn sigs sg body = true.

Lemma bchk_fns_sigs_ok : bchk_fns sigs (fns p) sigs = true -> sigs_ok.
Proof.
  unfold sigs_ok, fn_body. generalize (fns p) as l. generalize sigs at 2 3 as sg.
  induction sg as [|s0 sg IH]; intros l H f s1 N; [destruct f; discriminate|].
  destruct l as [|b l]; [cbn in H; discriminate|]. cbn [bchk_fns] in H. apply andb_prop in H. destruct H as [H1 H2].
  destruct f as [|f]; cbn in N |- *.
  - inversion N; subst. eauto.
  - eapply IH; eauto.
Qed.

Hypothesis SIGS : sigs_ok.

Lemma lp_sat al s : kmem (cur s) (L al) = true -> sat (S (msr s)) al s.
Proof. intros K. repeat split; [lia|intros _; lia|exact K]. Qed.

Notation AN := (an p ce).
Notation BN := (ban sigs).

(** * Soundness *)
Theorem safe_sound : forall n chk r e al ab en s P0 lo,
  kmem (cur s) (L al) = true -> ok (AN chk r e al) = true -> Tile txt s -> BG P0 lo ab en (bld s) ->
  bok (BN e ab) = true -> bpost P0 lo (BN e ab) (gexec n p e en s).
Proof.
  induction n as [|n IH]; intros chk r e al ab en s P0 lo KM OK T G BOK; [exact I|].
  pose proof (lp_sat al s KM) as SA.
  destruct e as [b|x|x|pr|f arg|x y|c x y|c b| |x|v x]; cbn [gexec ban an] in *.
  - (* EB *) apply bnorm_post; [exact G|apply vok_bool].
  - (* EVar *)
    pose proof (bg_tys _ _ _ _ _ G x) as TX.
    destruct (ty_at (tys ab) x) as [|d|]; cbn in TX; try discriminate.
    + destruct TX as (bv & ->). apply bnorm_post; [exact G|apply vok_bool].
    + destruct TX as (m & -> & C). apply bnorm_post; [exact G|]. cbn. eauto.
  - (* ENot *)
    apply andb_prop in BOK. destruct BOK as [BOK IB].
    pose proof (IH chk r x al ab en s P0 lo KM OK T G BOK) as P1.
    destruct (gexec n p x en s) as [v1 en1 s1|en1 s1|v1 en1 s1| |]; cbn [bpost bn bb br] in *; auto.
    destruct P1 as (a1 & vt & B1 & G1 & V1). destruct (is_bool_vok _ _ _ _ _ _ _ IB B1 V1) as (-> & bv & ->).
    exists a1, VBool. split; [exact B1|split; [exact G1|apply vok_bool]].
  - (* EPrim *) eapply bprim_sound; eauto.
  - (* ECall *)
    apply andb_prop in OK. destruct OK as [OKP _].
    unfold bcall in *. destruct (nth_error sigs f) as [sg|] eqn:SG; [|discriminate].
    destruct (SIGS f sg SG) as (body & FB & BC). rewrite FB.
    pose proof (ksub_spec _ _ OKP _ KM) as PRE.
    destruct (CERT f body (cur s) FB PRE) as (OKB & _ & _).
    assert (KB : kmem (cur s) (L {| L := kof [cur s]; cs := false |}) = true) by apply kmem_self.
    unfold bchk_fn in BC.
    apply andb_prop in BC. destruct BC as [BC EXR]. apply andb_prop in BC. destruct BC as [BC EXN].
    apply andb_prop in BC. destruct BC as [BC NOB]. apply andb_prop in BC. destruct BC as [BOKB IBB].
    set (a0 := {| dep := 0; sta := SMany; tys := entry_tys sg |}) in *.
    assert (CALL : forall lo' cen0 ab',
              BG (parents (bld s)) lo' a0 cen0 (bld s) ->
              (forall b', parents b' = parents (bld s) -> lo' <= nc b' -> BG P0 lo ab' en b') ->
              (forall x, arg = Some (x, true) -> sg = BoolParam /\ ty_at (tys ab') x = TBool) ->
              bpost P0 lo (bnorm ab' VBool)
                (let back := fun (v : val) (cen1 : env) (s1 : pst) =>
                     match arg with
                     | Some (x, true) => match env_get cen1 0 with Some w => RVal v (env_set en x w) s1 | None => RPanic end
                     | _ => RVal v en s1
                     end in
                 match gexec n p body cen0 s with
                 | RVal v cen1 s1 => back v cen1 s1
                 | RRet v cen1 s1 => back v cen1 s1
                 | RBrk _ _ => RPanic
                 | RPanic => RPanic
                 | ROOF => ROOF
                 end)).
    { intros lo' cen0 ab' G0 AFTER BYREF. cbv zeta.
      pose proof (IH true (rank (cert_of ce f)) body _ a0 cen0 s _ lo' KB OKB T G0 BOKB) as P1.
      assert (FIN : forall v cen1 s1 a1, BG (parents (bld s)) lo' a1 cen1 (bld s1) -> (exists bv, v = VB bv) ->
                exit_state_ok sg (Some a1) = true ->
                bpost P0 lo (bnorm ab' VBool)
                  (match arg with
                   | Some (x, true) => match env_get cen1 0 with Some w => RVal v (env_set en x w) s1 | None => RPanic end
                   | _ => RVal v en s1
                   end)).
      { intros v cen1 s1 a1 G1 (bv & ->) EX. cbn [exit_state_ok] in EX. apply andb_prop in EX. destruct EX as [ED ET].
        apply Nat.eqb_eq in ED. destruct (BG_exit _ _ _ _ _ G1 ED) as (EP & LE).
        pose proof (AFTER (bld s1) EP LE) as G2.
        destruct arg as [[x [|]]|].
        - destruct (BYREF x eq_refl) as (-> & TX). apply aty_eqb_eq in ET.
          pose proof (bg_tys _ _ _ _ _ G1 0) as T0. rewrite ET in T0. cbn in T0. destruct T0 as (w & ->).
          apply bnorm_post; [apply BG_env_set_bool; assumption|apply vok_bool].
        - apply bnorm_post; [exact G2|apply vok_bool].
        - apply bnorm_post; [exact G2|apply vok_bool]. }
      destruct (gexec n p body cen0 s) as [v cen1 s1|cen1 s1|v cen1 s1| |]; cbn [bpost] in P1; auto.
      - destruct P1 as (a1 & vt & B1 & G1 & V1). destruct (is_bool_vok _ _ _ _ _ _ _ IBB B1 V1) as (-> & BV).
        apply (FIN v cen1 s1 a1 G1 BV). rewrite B1 in EXN. exact EXN.
      - destruct P1 as (a1 & B1 & _). rewrite B1 in NOB. discriminate.
      - destruct P1 as (a1 & B1 & G1 & BV). apply (FIN v cen1 s1 a1 G1 BV). rewrite B1 in EXR. exact EXR. }
    pose proof (base0_parents _ _ _ _ _ G) as B0P.
    pose proof (chain_base _ _ _ (bg_chain _ _ _ _ _ G)) as CB.
    destruct sg.
    + (* NoParam *)
      destruct arg as [[x byr]|]; [discriminate|]. cbn [bnorm bn bb br bok] in *.
      apply (CALL (nc (bld s)) [] (grow ab)).
      * apply BG_entry; [reflexivity|lia|lia|]. intros y. cbn [a0 entry_tys]. rewrite ty_at_nil. exact I.
      * intros b' EP LE. eapply BG_grow; eauto.
      * intros x0 X. discriminate.
    + (* BoolParam *)
      destruct arg as [[x byr]|]; [|discriminate].
      destruct (ty_at (tys ab) x) eqn:TX; try discriminate.
      pose proof (bg_tys _ _ _ _ _ G x) as TXV. rewrite TX in TXV. cbn in TXV. destruct TXV as (bv & EV). rewrite EV.
      apply (CALL (nc (bld s)) [VB bv] (grow ab)).
      * apply BG_entry; [reflexivity|lia|lia|]. intros y. unfold ty_at. destruct y as [|y]; cbn [a0 entry_tys tys nth ty_ok].
        -- eexists. reflexivity.
        -- destruct y; exact I.
      * intros b' EP LE. eapply BG_grow; eauto.
      * intros x0 X. inversion X; subst. split; [reflexivity|exact TX].
    + (* CpParam *)
      destruct arg as [[x [|]]|]; try discriminate.
      destruct (ty_at (tys ab) x) as [|d|] eqn:TX; try discriminate.
      destruct (Nat.eqb_spec d (dep ab)) as [->|]; [|discriminate].
      pose proof (bg_tys _ _ _ _ _ G x) as TXV. rewrite TX in TXV. cbn in TXV. destruct TXV as (nx & EV & CV). rewrite EV.
      rewrite <- (NPof_length _ _ _ _ _ G) in CV. destruct (cpv_top_bounds _ _ _ _ CV) as (BL & BU).
      apply (CALL nx [VN nx] {| dep := dep ab; sta := sta (grow ab); tys := forget_from (dep ab) (tys ab) |}).
      * apply BG_entry; [reflexivity|lia|lia|]. intros y. unfold ty_at. destruct y as [|y]; cbn [a0 entry_tys tys nth ty_ok].
        -- exists nx. split; [reflexivity|]. cbn [cpv]. repeat split; auto.
        -- destruct y; exact I.
      * intros b' EP LE. eapply BG_after_call; eauto.
      * intros x0 X. discriminate.
  - (* ESeq *)
    apply andb_prop in OK. destruct OK as [OK1 OK2].
    destruct (sjoin (bb (BN x ab)) (bb (bbind (bn (BN x ab)) (BN y)))) as [b1 k1] eqn:J1.
    destruct (sjoin (br (BN x ab)) (br (bbind (bn (BN x ab)) (BN y)))) as [r1 k2] eqn:J2.
    cbn [bn bb br bok] in *.
    apply andb_prop in BOK. destruct BOK as [BOK K2]. apply andb_prop in BOK. destruct BOK as [BOK K1].
    apply andb_prop in BOK. destruct BOK as [BOK1 BOK2]. subst k1 k2.
    pose proof (IH chk r x al ab en s P0 lo KM OK1 T G BOK1) as P1.
    pose proof (facts_sound p ce CERT n chk r x al en s _ SA OK1) as F1.
    pose proof (gexec_tile txt p n x en s T) as T1.
    destruct (gexec n p x en s) as [v1 en1 s1|en1 s1|v1 en1 s1| |]; cbn [bpost res_inv] in *; auto.
    + destruct P1 as (a1 & vt & B1 & G1 & V1). rewrite B1 in *. cbn [bbind] in *.
      assert (J : osat (S (msr s)) (join (rt (AN chk r x al)) (rf (AN chk r x al))) s1).
      { destruct v1 as [[|]|m]; cbn in F1; [apply osat_join_l|apply osat_join_r|apply osat_join_l]; exact F1. }
      destruct J as (al1 & JL & (_ & _ & KM1)). rewrite JL in OK2. cbn [bind] in OK2.
      pose proof (IH chk r y al1 a1 en1 s1 P0 lo KM1 OK2 T1 G1 BOK2) as P2.
      destruct (gexec n p y en1 s1) as [v2 en2 s2|en2 s2|v2 en2 s2| |]; cbn [bpost bn bb br] in *; auto.
      * destruct P2 as (a2 & B2 & G2). eapply sjoin_r; eauto.
      * destruct P2 as (a2 & B2 & G2 & BV). destruct (sjoin_r _ _ _ _ _ _ _ _ J2 B2 G2) as (a3 & E3 & G3). eauto.
    + destruct P1 as (a1 & B1 & G1). eapply sjoin_l; eauto.
    + destruct P1 as (a1 & B1 & G1 & BV). destruct (sjoin_l _ _ _ _ _ _ _ _ J2 B1 G1) as (a3 & E3 & G3). eauto.
  - (* EIf *)
    apply andb_prop in OK. destruct OK as [OK12 OK3]. apply andb_prop in OK12. destruct OK12 as [OK1 OK2].
    set (q := BN c ab) in *. set (qx := bbind (bn q) (BN x)) in *. set (qy := bbind (bn q) (BN y)) in *.
    destruct (njoin (bn qx) (bn qy)) as [n1 k0] eqn:J0.
    destruct (sjoin (bb qx) (bb qy)) as [b0 k1] eqn:J1. destruct (sjoin (bb q) b0) as [b1 k2] eqn:J2.
    destruct (sjoin (br qx) (br qy)) as [r0 k3] eqn:J3. destruct (sjoin (br q) r0) as [r1 k4] eqn:J4.
    cbn [bn bb br bok] in *.
    repeat (apply andb_prop in BOK; let K := fresh "K" in destruct BOK as [BOK K]).
    subst k0 k1 k2 k3 k4. rename K4 into BOKY. rename K5 into BOKX. rename K6 into IB. rename BOK into BOKC.
    pose proof (IH chk r c al ab en s P0 lo KM OK1 T G BOKC) as P1.
    pose proof (facts_sound p ce CERT n chk r c al en s _ SA OK1) as F1.
    pose proof (gexec_tile txt p n c en s T) as T1.
    destruct (gexec n p c en s) as [v1 en1 s1|en1 s1|v1 en1 s1| |]; cbn [bpost res_inv] in *; auto.
    + destruct P1 as (a1 & vt & B1 & G1 & V1). destruct (is_bool_vok _ _ _ _ _ _ _ IB B1 V1) as (-> & bv & ->).
      unfold qx, qy, q in *. rewrite B1 in *. cbn [bbind] in *.
      destruct bv.
      * cbn in F1. destruct F1 as (al1 & JL & (_ & _ & KM1)). rewrite JL in OK2. cbn [bind] in OK2.
        pose proof (IH chk r x al1 a1 en1 s1 P0 lo KM1 OK2 T1 G1 BOKX) as P2.
        destruct (gexec n p x en1 s1) as [v2 en2 s2|en2 s2|v2 en2 s2| |]; cbn [bpost bn bb br] in *; auto.
        -- destruct P2 as (a2 & vt2 & B2 & G2 & V2). destruct (njoin_l _ _ _ _ _ _ _ _ _ _ J0 B2 G2 V2) as (a3 & E3 & G3 & V3). eauto.
        -- destruct P2 as (a2 & B2 & G2). destruct (sjoin_l _ _ _ _ _ _ _ _ J1 B2 G2) as (a3 & E3 & G3). eapply sjoin_r; eauto.
        -- destruct P2 as (a2 & B2 & G2 & BV). destruct (sjoin_l _ _ _ _ _ _ _ _ J3 B2 G2) as (a3 & E3 & G3).
           destruct (sjoin_r _ _ _ _ _ _ _ _ J4 E3 G3) as (a4 & E4 & G4). eauto.
      * cbn in F1. destruct F1 as (al1 & JL & (_ & _ & KM1)). rewrite JL in OK3. cbn [bind] in OK3.
        pose proof (IH chk r y al1 a1 en1 s1 P0 lo KM1 OK3 T1 G1 BOKY) as P2.
        destruct (gexec n p y en1 s1) as [v2 en2 s2|en2 s2|v2 en2 s2| |]; cbn [bpost bn bb br] in *; auto.
        -- destruct P2 as (a2 & vt2 & B2 & G2 & V2). destruct (njoin_r _ _ _ _ _ _ _ _ _ _ J0 B2 G2 V2) as (a3 & vt3 & E3 & G3 & V3). eauto.
        -- destruct P2 as (a2 & B2 & G2). destruct (sjoin_r _ _ _ _ _ _ _ _ J1 B2 G2) as (a3 & E3 & G3). eapply sjoin_r; eauto.
        -- destruct P2 as (a2 & B2 & G2 & BV). destruct (sjoin_r _ _ _ _ _ _ _ _ J3 B2 G2) as (a3 & E3 & G3).
           destruct (sjoin_r _ _ _ _ _ _ _ _ J4 E3 G3) as (a4 & E4 & G4). eauto.
    + destruct P1 as (a1 & B1 & G1). eapply sjoin_l; eauto.
    + destruct P1 as (a1 & B1 & G1 & BV). destruct (sjoin_l _ _ _ _ _ _ _ _ J4 B1 G1) as (a3 & E3 & G3). eauto.
  - (* EWhile *)
    pose proof OK as OKW. pose proof BOK as BOKW.
    set (h := {| L := kall; cs := cs al |}) in *.
    assert (KH : kmem (cur s) (L h) = true) by apply kmem_kall.
    apply andb_prop in OK. destruct OK as [OK PR]. apply andb_prop in OK. destruct OK as [OK OKB0].
    apply andb_prop in OK. destruct OK as [OK OKC0]. apply andb_prop in OK. destruct OK as [OKC OKB].
    set (q := BN c ab) in *. set (qb := bbind (bn q) (BN b)) in *.
    destruct (sjoin (option_map fst (bn q)) (bb qb)) as [x1 k1] eqn:J1.
    destruct (sjoin (br q) (br qb)) as [r1 k2] eqn:J2.
    cbn [bn bb br bok] in *.
    repeat (apply andb_prop in BOK; let K := fresh "K" in destruct BOK as [BOK K]).
    subst k1 k2. rename K1 into BACK. rename K2 into BOKB. rename K3 into NOBC. rename K4 into IB. rename BOK into BOKC.
    pose proof (IH chk r c h ab en s P0 lo KH OKC T G BOKC) as P1.
    pose proof (facts_sound p ce CERT n chk r c h en s _ (lp_sat h s KH) OKC) as F1.
    pose proof (gexec_tile txt p n c en s T) as T1.
    destruct (gexec n p c en s) as [v1 en1 s1|en1 s1|v1 en1 s1| |]; cbn [bpost res_inv] in *; auto.
    + destruct P1 as (a1 & vt & B1 & G1 & V1). destruct (is_bool_vok _ _ _ _ _ _ _ IB B1 V1) as (-> & bv & ->).
      unfold qb, q in *. rewrite B1 in *. cbn [bbind option_map fst] in *.
      destruct bv.
      * cbn in F1. destruct F1 as (al1 & JL & (_ & _ & KM1)).
        assert (OKB' : ok (AN chk r b al1) = true) by (rewrite JL in OKB; exact OKB).
        pose proof (IH chk r b al1 a1 en1 s1 P0 lo KM1 OKB' T1 G1 BOKB) as P2.
        pose proof (gexec_tile txt p n b en1 s1 T1) as T2.
        destruct (gexec n p b en1 s1) as [v2 en2 s2|en2 s2|v2 en2 s2| |]; cbn [bpost res_inv] in *; auto.
        -- destruct P2 as (a2 & vt2 & B2 & G2 & V2). rewrite B2 in BACK.
           pose proof (BG_ble _ _ _ _ _ _ BACK G2) as GH.
           assert (KH2 : kmem (cur s2) (L h) = true) by apply kmem_kall.
           assert (OKW2 : ok (AN chk r (EWhile c b) h) = true).
           { cbn [an]. change {| L := kall; cs := cs h |} with h. exact OKW. }
           pose proof (IH chk r (EWhile c b) h ab en2 s2 P0 lo KH2 OKW2 T2 GH) as P3.
           cbn [ban] in P3. rewrite B1 in P3. cbn [bbind option_map fst] in P3.
           rewrite J1, J2 in P3. cbn [bn bb br bok] in P3. apply P3.
           exact BOKW.
        -- destruct P2 as (a2 & B2 & G2). destruct (sjoin_r _ _ _ _ _ _ _ _ J1 B2 G2) as (a3 & -> & G3).
           cbn [option_map]. exists a3, VBool. split; [reflexivity|split; [exact G3|apply vok_true]].
        -- destruct P2 as (a2 & B2 & G2 & BV). destruct (sjoin_r _ _ _ _ _ _ _ _ J2 B2 G2) as (a3 & E3 & G3). eauto.
      * destruct (sjoin_l _ _ _ _ _ _ _ _ J1 eq_refl G1) as (a3 & -> & G3).
        cbn [option_map]. exists a3, VBool. split; [reflexivity|split; [exact G3|apply vok_true]].
    + destruct P1 as (a1 & B1 & _). unfold q in *. rewrite B1 in NOBC. discriminate.
    + destruct P1 as (a1 & B1 & G1 & BV). destruct (sjoin_l _ _ _ _ _ _ _ _ J2 B1 G1) as (a3 & E3 & G3). eauto.
  - (* EBreak *) cbn. eauto.
  - (* EReturn *)
    set (q := BN x ab) in *. destruct (sjoin (option_map fst (bn q)) (br q)) as [r1 k1] eqn:J1. cbn [bn bb br bok] in *.
    apply andb_prop in BOK. destruct BOK as [BOK K1]. apply andb_prop in BOK. destruct BOK as [BOK IB]. subst k1.
    pose proof (IH chk r x al ab en s P0 lo KM OK T G BOK) as P1.
    destruct (gexec n p x en s) as [v1 en1 s1|en1 s1|v1 en1 s1| |]; cbn [bpost] in *; auto.
    + destruct P1 as (a1 & vt & B1 & G1 & V1). destruct (is_bool_vok _ _ _ _ _ _ _ IB B1 V1) as (-> & BV).
      unfold q in *. rewrite B1 in J1. cbn [option_map fst] in J1. destruct (sjoin_l _ _ _ _ _ _ _ _ J1 eq_refl G1) as (a3 & E3 & G3). eauto.
    + destruct P1 as (a1 & B1 & G1 & BV). destruct (sjoin_r _ _ _ _ _ _ _ _ J1 B1 G1) as (a3 & E3 & G3). eauto.
  - (* ESet *)
    cbn [bn bb br bok] in *.
    pose proof (IH chk r x al ab en s P0 lo KM OK T G BOK) as P1.
    destruct (gexec n p x en s) as [v1 en1 s1|en1 s1|v1 en1 s1| |]; cbn [bpost] in *; auto.
    destruct P1 as (a1 & vt & B1 & G1 & V1). rewrite B1. do 2 eexists. split; [reflexivity|].
    split; [apply BG_set; assumption|apply vok_true].
Qed.

End SAFE.
