(** C02 (iv), message part: every syntax error recorded by the parser has a non-empty message, for every
    program whose message literals are non-empty ([prog_msgs_ok], a boolean check on the generated program). *)
From Coq Require Import List Arith NArith Bool String.
From TG.Gen Require Import GenTokens GenLexTables.
From TG.Model Require Import Chars Lexer Prep Tree ParserPrims GInterp.
From TG.Proofs Require Import GTile.
Import ListNotations.

Definition msg_ok (m : parse_msg) : Prop := msg_text m <> EmptyString.
Definition MI (s : pst) : Prop := Forall (fun e : N * N * parse_msg => msg_ok (snd e)) (errs s).

Lemma any_err_msg_ok e : msg_ok (MTok e).
Proof. unfold msg_ok. destruct e as [[]|[]]; cbn; discriminate. Qed.
Lemma expected_msg_ok k : msg_ok (MExpected k).
Proof. unfold msg_ok. cbn. discriminate. Qed.

Definition lit_ok (m : parse_msg) : bool :=
  match m with MLit s => negb (String.eqb s EmptyString) | _ => true end.
Lemma lit_ok_spec m : lit_ok m = true -> msg_ok m.
Proof.
  destruct m as [s|k|e]; intros H; [|apply expected_msg_ok|apply any_err_msg_ok].
  unfold msg_ok. cbn in *. intros ->. cbn in H. discriminate.
Qed.

Definition prim_msgs_ok (pr : prim) : bool :=
  match pr with
  | PExpect _ m | PError m | PErrorAndEat m | PErrorAndRecover m => lit_ok m
  | _ => true
  end.
Fixpoint expr_msgs_ok (e : expr) : bool :=
  match e with
  | EB _ | EVar _ | EBreak | ECall _ _ => true
  | EPrim pr => prim_msgs_ok pr
  | ENot a | EReturn a | ESet _ a => expr_msgs_ok a
  | ESeq a b | EWhile a b => expr_msgs_ok a && expr_msgs_ok b
  | EIf c a b => expr_msgs_ok c && expr_msgs_ok a && expr_msgs_ok b
  end.
Definition prog_msgs_ok (p : prog) : bool := forallb expr_msgs_ok (fns p).

(** primitives *)
Lemma MI_with_bld s b : MI s -> MI (with_bld s b).
Proof. exact (fun H => H). Qed.
Lemma MI_error s m : msg_ok m -> MI s -> MI (p_error s m).
Proof. intros M H. unfold MI. cbn. constructor; auto. Qed.
Lemma MI_lex s : MI s -> MI (p_lex s).
Proof.
  intros H. unfold p_lex. destruct (prep_next (pp s) (raw s)) as [[[k len] pp'] raw'].
  destruct (take_bytes len (src s)) as [tx src']. exact H.
Qed.
Lemma MI_save s s1 : MI s -> p_save s = Some s1 -> MI s1.
Proof.
  intros H. unfold p_save. destruct (tk_eqb (cur s) T_Error).
  - destruct (take_error _) as [[e|] pp']; [|discriminate]. intros X; inversion X; subst.
    apply MI_error; [apply any_err_msg_ok|exact H].
  - intros X; inversion X; subst. exact H.
Qed.
Lemma MI_skip : forall fuel s s', MI s -> p_skip fuel s = Some s' -> MI s'.
Proof.
  induction fuel as [|x fuel IH]; intros s s' H; cbn [p_skip].
  - destruct (is_trivia (cur s)); intros X; inversion X; subst; exact H.
  - destruct (is_trivia (cur s)); [|intros X; inversion X; subst; exact H].
    destruct (p_save s) as [s1|] eqn:SV; [|discriminate]. apply IH. apply MI_lex. eapply MI_save; eauto.
Qed.
Lemma MI_eat s s' : MI s -> p_eat s = Some s' -> MI s'.
Proof.
  intros H. unfold p_eat. destruct (p_save s) as [s1|] eqn:SV; [|discriminate].
  apply MI_skip. apply MI_lex. eapply MI_save; eauto.
Qed.
Lemma MI_finish_node s s' : MI s -> p_finish_node s = Some s' -> MI s'.
Proof. intros H. unfold p_finish_node. destruct (b_finish_node (bld s)); [|discriminate]. intros X; inversion X; subst. exact H. Qed.
Lemma MI_eat_if s k b s' : MI s -> p_eat_if s k = Some (b, s') -> MI s'.
Proof.
  intros H. unfold p_eat_if. destruct (p_at s k).
  - destruct (p_eat s) as [s1|] eqn:E; [|discriminate]. intros X; inversion X; subst. eapply MI_eat; eauto.
  - intros X; inversion X; subst. exact H.
Qed.

Definition res_MI (r : res) : Prop := match r with RVal _ _ s | RBrk _ s | RRet _ _ s => MI s | _ => True end.

Lemma exec_prim_MI p pr en s : prim_msgs_ok pr = true -> MI s -> res_MI (exec_prim p pr en s).
Proof.
  intros PM H. destruct pr; cbn [exec_prim prim_msgs_ok] in *.
  - cbn. exact H.
  - destruct (p_finish_node s) eqn:F; cbn; auto. eapply MI_finish_node; eauto.
  - cbn. exact H.
  - destruct (env_get en x) as [[b|cp]|]; cbn; auto. unfold p_start_node_at.
    destruct (b_start_node_at (bld s) cp k); cbn; auto.
  - unfold p_assert. destruct (p_eat_if s k) as [[[|] s1]|] eqn:F; cbn; auto. eapply MI_eat_if; eauto.
  - unfold p_expect. destruct (p_eat_if s k) as [[[|] s1]|] eqn:F; cbn; auto; [eapply MI_eat_if; eauto|].
    pose proof (MI_eat_if _ _ _ _ H F) as H1. destruct (after_err s1); cbn; auto.
    apply MI_error; [apply lit_ok_spec; exact PM|exact H1].
  - destruct (p_eat s) eqn:F; cbn; auto. eapply MI_eat; eauto.
  - destruct (p_eat_if s k) as [[b s1]|] eqn:F; cbn; auto. eapply MI_eat_if; eauto.
  - unfold p_skip_all. destruct (p_skip _ s) eqn:F; cbn; auto. eapply MI_skip; eauto.
  - cbn. apply MI_error; [apply lit_ok_spec; exact PM|exact H].
  - unfold p_error_and_eat. destruct (p_eat _) as [s3|] eqn:F; cbn; auto.
    destruct (p_finish_node s3) eqn:G; cbn; auto. eapply MI_finish_node; [|exact G]. eapply MI_eat; [|exact F].
    apply MI_with_bld, MI_error; [apply lit_ok_spec; exact PM|exact H].
  - unfold p_error_and_recover. destruct (negb _ && negb _).
    + destruct (p_eat _) as [s3|] eqn:F; cbn; auto.
      destruct (p_finish_node s3) eqn:G; cbn; auto. eapply MI_finish_node; [|exact G]. eapply MI_eat; [|exact F].
      apply MI_with_bld, MI_error; [apply lit_ok_spec; exact PM|exact H].
    + cbn. apply MI_error; [apply lit_ok_spec; exact PM|exact H].
  - cbn. exact H.
Qed.

Theorem gexec_MI p : prog_msgs_ok p = true ->
  forall n e en s, expr_msgs_ok e = true -> MI s -> res_MI (gexec n p e en s).
Proof.
  intros PM. induction n as [|n IH]; intros e en s EM H; [exact I|].
  destruct e as [b|x|a|pr|f arg|a b|c a b|c b| |a|x a]; cbn [gexec expr_msgs_ok] in *.
  - exact H.
  - destruct (env_get en x); cbn; auto.
  - pose proof (IH a en s EM H) as H1. destruct (gexec n p a en s) as [[b|m] en1 s1| | | |]; cbn in *; auto.
  - apply exec_prim_MI; assumption.
  - destruct (fn_body p f) as [body|] eqn:FB; [|exact I].
    assert (BM : expr_msgs_ok body = true).
    { unfold prog_msgs_ok in PM. rewrite forallb_forall in PM. apply PM. eapply nth_error_In. exact FB. }
    destruct (match arg with Some (x, _) => match env_get en x with Some v => Some [v] | None => None end | None => Some [] end) as [cen0|]; [|exact I].
    pose proof (IH body cen0 s BM H) as H1.
    destruct (gexec n p body cen0 s) as [v cen1 s1|cen1 s1|v cen1 s1| |]; cbn in *; auto;
      destruct arg as [[x [|]]|]; cbn; auto; destruct cen1; cbn; auto.
  - apply andb_prop in EM. destruct EM as [E1 E2].
    pose proof (IH a en s E1 H) as H1. destruct (gexec n p a en s) as [v en1 s1| | | |]; cbn in *; auto.
  - apply andb_prop in EM. destruct EM as [E12 E3]. apply andb_prop in E12. destruct E12 as [E1 E2].
    pose proof (IH c en s E1 H) as H1. destruct (gexec n p c en s) as [[[|]|m] en1 s1| | | |]; cbn in *; auto.
  - pose proof EM as EM0. apply andb_prop in EM. destruct EM as [E1 E2].
    pose proof (IH c en s E1 H) as H1. destruct (gexec n p c en s) as [[[|]|m] en1 s1| | | |]; cbn in *; auto.
    pose proof (IH b en1 s1 E2 H1) as H2. destruct (gexec n p b en1 s1) as [v en2 s2|en2 s2| | |]; cbn in *; auto.
  - exact H.
  - pose proof (IH a en s EM H) as H1. destruct (gexec n p a en s) as [v en1 s1| | | |]; cbn in *; auto.
  - pose proof (IH a en s EM H) as H1. destruct (gexec n p a en s) as [v en1 s1| | | |]; cbn in *; auto.
Qed.

Theorem parse_msgs_nonempty p entry : prog_msgs_ok p = true ->
  forall fuel txt t errs st, parse_with fuel p entry txt = ParseOk t errs st ->
  Forall (fun e : N * N * parse_msg => msg_text (snd e) <> EmptyString) errs.
Proof.
  intros PM fuel txt t errs st H. unfold parse_with in H.
  assert (M0 : MI (p_new txt)).
  { unfold p_new. apply MI_lex. constructor. }
  pose proof (gexec_MI p PM fuel (ECall entry None) [] (p_new txt) eq_refl M0) as R.
  destruct (gexec fuel p (ECall entry None) [] (p_new txt)) as [v en s|en s|v en s| |]; try discriminate;
    cbn in R; unfold p_finish in H; destruct (b_finish (bld s)); try discriminate; inversion H; subst;
    apply Forall_rev; exact R.
Qed.
