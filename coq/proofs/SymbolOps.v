(** The effect of every op of the symbol-map model, in one lemma ([apply_op_spec]): each op is an allocation
    (with or without keying the definition range in the interval map), an in-place update of one entry, or
    leaves the arenas alone.  The invariants of C03 / C06 / C17 are proven from this decomposition. *)
From Coq Require Import List Arith NArith Bool Lia.
From TG.Model Require Import Chars SymbolMap SymbolWf.
From TG.Proofs Require Import SymbolMapBasics.
Import ListNotations.
Open Scope N_scope.

Definition push_ref (loc : file_range) (e : entry) : entry :=
  mkEntry (e_name e) (e_def e) (e_refs e ++ [loc]) (e_payload e).

Definition pf_rec_targ (n : name) (id : N) (p : payload) : payload :=
  match p with PRecord k t f ps => PRecord k (amap_insert t n id) f ps | _ => p end.
Definition pf_rec_field (n : name) (id : N) (p : payload) : payload :=
  match p with PRecord k t f ps => PRecord k t (amap_insert f n id) ps | _ => p end.
Definition pf_rec_parent (id : N) (p : payload) : payload :=
  match p with PRecord k t f ps => PRecord k t f (ps ++ [id]) | _ => p end.
Definition pf_defset_def (id : N) (p : payload) : payload :=
  match p with PDefset ty ds => PDefset ty (ds ++ [id]) | _ => p end.
Definition pf_mc_targ (n : name) (id : N) (p : payload) : payload :=
  match p with PMulticlass t ps => PMulticlass (amap_insert t n id) ps | _ => p end.
Definition pf_mc_parent (id : N) (p : payload) : payload :=
  match p with PMulticlass t ps => PMulticlass t (ps ++ [id]) | _ => p end.
Definition pf_defm_parent (id : N) (p : payload) : payload :=
  match p with PDefm ps => PDefm (ps ++ [id]) | _ => p end.

(** what an op allocates: arena, entry, whether the definition range is keyed in the interval map *)
Definition op_alloc (o : op) : option (sym_kind * entry * bool) :=
  match o with
  | OpAddRecord n k loc _ _ => Some (KRecord, mkEntry n loc [] (PRecord k [] [] []), true)
  | OpAddAnonymousDef n loc _ => Some (KRecord, mkEntry n loc [] (PRecord RKDef [] [] []), false)
  | OpAddTemplateArg n typ loc _ => Some (KTemplateArg, mkEntry n loc [] (PTemplateArg typ), true)
  | OpAddRecordField n typ loc parent _ => Some (KRecordField, mkEntry n loc [] (PRecordField typ parent), true)
  | OpAddVariable n typ loc _ => Some (KVariable, mkEntry n loc [] (PVariable typ), true)
  | OpAddDefset n typ loc _ => Some (KDefset, mkEntry n loc [] (PDefset typ []), true)
  | OpAddMulticlass n loc _ => Some (KMulticlass, mkEntry n loc [] (PMulticlass [] []), true)
  | OpAddDefm n loc _ _ => Some (KDefm, mkEntry n loc [] (PDefm []), true)
  | OpAddAnonymousDefm n loc _ => Some (KDefm, mkEntry n loc [] (PDefm []), false)
  | _ => None
  end.

Definition cur_target (S : symbol_map) (k : sym_kind) : option symbol_id :=
  match sm_cur S with
  | Some (k', id) => if sym_kind_eqb k k' then Some (k, id) else None
  | None => None
  end.

(** which entry an op updates in place, and how *)
Definition op_update (S : symbol_map) (o : op) : option (symbol_id * (entry -> entry)) :=
  match o with
  | OpAddReference s loc => Some (s, push_ref loc)
  | OpRecAddTemplateArg n id => option_map (fun t => (t, upd_payload (pf_rec_targ n id))) (cur_target S KRecord)
  | OpRecAddField n id => option_map (fun t => (t, upd_payload (pf_rec_field n id))) (cur_target S KRecord)
  | OpRecAddParent id => option_map (fun t => (t, upd_payload (pf_rec_parent id))) (cur_target S KRecord)
  | OpDefsetAddDef id => option_map (fun t => (t, upd_payload (pf_defset_def id))) (cur_target S KDefset)
  | OpMcAddTemplateArg n id => option_map (fun t => (t, upd_payload (pf_mc_targ n id))) (cur_target S KMulticlass)
  | OpMcAddParent id => option_map (fun t => (t, upd_payload (pf_mc_parent id))) (cur_target S KMulticlass)
  | OpDefmAddParent id => option_map (fun t => (t, upd_payload (pf_defm_parent id))) (cur_target S KDefm)
  | _ => None
  end.

(** what an op keys in the interval map *)
Definition op_key (S : symbol_map) (o : op) : option (file_range * symbol_id) :=
  match o with
  | OpAddReference s loc => Some (loc, s)
  | _ => match op_alloc o with
         | Some (k, e, true) => Some (e_def e, (k, next_id S k))
         | _ => None
         end
  end.

Definition pos_after (S : symbol_map) (key : option (file_range * symbol_id)) (f : fileid) : list ivl :=
  match key with
  | Some (loc, s) =>
      if fr_is_empty loc then posf S f
      else if fr_file loc =? f then ivl_insert (posf S (fr_file loc)) (fr_lo loc) (fr_hi loc) s else posf S f
  | None => posf S f
  end.

Definition arenas_after (S S' : symbol_map) (o : op) : Prop :=
  match op_alloc o with
  | Some (k, e, _) =>
      (forall s, get_entry S' s = if sid_eqb s (k, next_id S k) then Some e else get_entry S s) /\
      (forall k', next_id S' k' = if sym_kind_eqb k' k then next_id S k + 1 else next_id S k')
  | None =>
      match op_update S o with
      | Some (s, f) =>
          (exists e, get_entry S s = Some e) /\
          (forall s', get_entry S' s' = if sid_eqb s s' then option_map f (get_entry S s') else get_entry S s') /\
          (forall k', next_id S' k' = next_id S k')
      | None => same_arenas S S'
      end
  end.

Definition diags_after (S : symbol_map) (o : op) : list file_range :=
  sm_diags S ++ match o with OpError loc => [loc] | _ => [] end.

(** ---- building blocks *)
Lemma add_symbol_spec : forall S0 S k e fl keyed logged S',
  same_arenas S0 S -> sm_pos S = sm_pos S0 -> sm_diags S = sm_diags S0 ->
  add_symbol S k e fl keyed logged = SOk S' ->
  (forall s, get_entry S' s = if sid_eqb s (k, next_id S0 k) then Some e else get_entry S0 s) /\
  (forall k', next_id S' k' = if sym_kind_eqb k' k then next_id S0 k + 1 else next_id S0 k') /\
  (forall f, posf S' f = pos_after S0 (if keyed then Some (e_def e, (k, next_id S0 k)) else None) f) /\
  sm_diags S' = sm_diags S0 /\ logged = next_id S0 k.
Proof.
  intros S0 S k e fl keyed logged S' Hsa Hpos Hdi H.
  unfold add_symbol in H.
  destruct (alloc S k e) as [S1 id] eqn:Ea.
  assert (Hid : id = next_id S0 k).
  { unfold alloc in Ea. injection Ea as _ E. rewrite <- E. apply same_arenas_next_id. exact Hsa. }
  assert (HS1 : S1 = fst (alloc S k e)) by (rewrite Ea; reflexivity).
  unfold check_id in H. destruct (logged =? id) eqn:El; [|discriminate]. cbn [sbind] in H.
  apply N.eqb_eq in El.
  set (S2 := if fl then push_file_sym S1 (fr_file (e_def e)) (k, id) else S1) in *.
  assert (Hsa2 : same_arenas S1 S2).
  { unfold S2. destruct fl; [apply same_arenas_push_file_sym|apply same_arenas_refl]. }
  assert (Hpos2 : sm_pos S2 = sm_pos S0).
  { unfold S2. destruct fl; cbn [push_file_sym set_file_syms sm_pos]; subst S1; unfold alloc; cbn [fst];
      rewrite pos_set_arena; exact Hpos. }
  assert (Hdi2 : sm_diags S2 = sm_diags S0).
  { unfold S2. destruct fl; cbn [push_file_sym set_file_syms sm_diags]; subst S1; unfold alloc; cbn [fst];
      rewrite diags_set_arena; exact Hdi. }
  assert (Hge1 : forall s, get_entry S1 s = if sid_eqb s (k, next_id S0 k) then Some e else get_entry S0 s).
  { intros s. subst S1. rewrite get_entry_alloc. rewrite (same_arenas_next_id _ _ k Hsa).
    rewrite (same_arenas_get_entry _ _ s Hsa). reflexivity. }
  assert (Hni1 : forall k', next_id S1 k' = if sym_kind_eqb k' k then next_id S0 k + 1 else next_id S0 k').
  { intros k'. subst S1. rewrite next_id_alloc. rewrite !(same_arenas_next_id _ _ _ Hsa). reflexivity. }
  destruct keyed.
  - apply add_to_pos_spec in H. destruct H as (Hsa3 & _ & Hdi3 & _ & _ & _ & _ & Hp).
    repeat split.
    + intros s. rewrite (same_arenas_get_entry _ _ s Hsa3), (same_arenas_get_entry _ _ s Hsa2). apply Hge1.
    + intros k'. rewrite (same_arenas_next_id _ _ k' Hsa3), (same_arenas_next_id _ _ k' Hsa2). apply Hni1.
    + intros f. rewrite Hp. unfold pos_after, posf. rewrite Hpos2.
      assert (Hid' : id = next_id S0 k) by congruence. rewrite Hid'. reflexivity.
    + rewrite Hdi3. exact Hdi2.
    + subst. reflexivity.
  - inversion H. subst S'. repeat split.
    + intros s. rewrite (same_arenas_get_entry _ _ s Hsa2). apply Hge1.
    + intros k'. rewrite (same_arenas_next_id _ _ k' Hsa2). apply Hni1.
    + intros f. unfold pos_after, posf. rewrite Hpos2. reflexivity.
    + exact Hdi2.
    + subst. reflexivity.
Qed.

Lemma with_cur_spec : forall S k g S',
  with_cur S k g = SOk S' ->
  exists t, cur_target S k = Some t /\ (exists e, get_entry S t = Some e) /\ S' = update_entry S t g.
Proof.
  intros S k g S' H. unfold with_cur in H. unfold cur_target.
  destruct (sm_cur S) as [[k' id]|]; [|discriminate].
  destruct (sym_kind_eqb k k'); [|discriminate].
  destruct (get_entry S (k, id)) as [e|] eqn:E; [|discriminate].
  inversion H. exists (k, id). repeat split. eauto.
Qed.

Lemma posf_update_entry : forall S s g f, posf (update_entry S s g) f = posf S f.
Proof. intros. unfold posf, update_entry. rewrite pos_set_arena. reflexivity. Qed.
Lemma diags_update_entry : forall S s g, sm_diags (update_entry S s g) = sm_diags S.
Proof. intros. unfold update_entry. apply diags_set_arena. Qed.

Lemma borrow_mut_spec : forall S s S', borrow_mut S s = SOk S' -> S' = set_cur S (Some s) /\ exists e, get_entry S s = Some e.
Proof.
  intros S s S' H. unfold borrow_mut in H. destruct (get_entry S s) eqn:E; [|discriminate].
  inversion H. split; [reflexivity|eauto].
Qed.

(** ---- the decomposition *)
Theorem apply_op_spec : forall S o S',
  apply_op S o = SOk S' ->
  arenas_after S S' o /\ (forall f, posf S' f = pos_after S (op_key S o) f) /\ sm_diags S' = diags_after S o.
Proof.
  intros S o S' H. unfold arenas_after, diags_after.
  destruct o; cbn [apply_op] in H; cbn [op_alloc op_update op_key e_def].
  - (* add_record *)
    destruct k.
    + eapply add_symbol_spec in H; [|apply same_arenas_name_to_class|reflexivity|reflexivity].
      destruct H as (H1 & H2 & H3 & H4 & _). rewrite app_nil_r. auto.
    + eapply add_symbol_spec in H; [|apply same_arenas_name_to_def|reflexivity|reflexivity].
      destruct H as (H1 & H2 & H3 & H4 & _). rewrite app_nil_r. auto.
  - eapply add_symbol_spec in H; [|apply same_arenas_refl|reflexivity|reflexivity].
    destruct H as (H1 & H2 & H3 & H4 & _). rewrite app_nil_r. auto.
  - eapply add_symbol_spec in H; [|apply same_arenas_refl|reflexivity|reflexivity].
    destruct H as (H1 & H2 & H3 & H4 & _). rewrite app_nil_r. auto.
  - eapply add_symbol_spec in H; [|apply same_arenas_refl|reflexivity|reflexivity].
    destruct H as (H1 & H2 & H3 & H4 & _). rewrite app_nil_r. auto.
  - eapply add_symbol_spec in H; [|apply same_arenas_refl|reflexivity|reflexivity].
    destruct H as (H1 & H2 & H3 & H4 & _). rewrite app_nil_r. auto.
  - eapply add_symbol_spec in H; [|apply same_arenas_name_to_defset|reflexivity|reflexivity].
    destruct H as (H1 & H2 & H3 & H4 & _). rewrite app_nil_r. auto.
  - eapply add_symbol_spec in H; [|apply same_arenas_name_to_multiclass|reflexivity|reflexivity].
    destruct H as (H1 & H2 & H3 & H4 & _). rewrite app_nil_r. auto.
  - eapply add_symbol_spec in H; [|apply same_arenas_refl|reflexivity|reflexivity].
    destruct H as (H1 & H2 & H3 & H4 & _). rewrite app_nil_r. auto.
  - eapply add_symbol_spec in H; [|apply same_arenas_refl|reflexivity|reflexivity].
    destruct H as (H1 & H2 & H3 & H4 & _). rewrite app_nil_r. auto.
  - (* add_reference *)
    destruct (get_entry S s) as [e0|] eqn:E; [|discriminate].
    apply add_to_pos_spec in H. destruct H as (Hsa & _ & Hdi & _ & _ & _ & _ & Hp).
    rewrite app_nil_r. repeat split.
    + eauto.
    + intros s'. rewrite (same_arenas_get_entry _ _ s' Hsa). apply get_entry_update.
    + intros k'. rewrite (same_arenas_next_id _ _ k' Hsa). apply next_id_update.
    + intros f. rewrite Hp. unfold pos_after. rewrite !posf_update_entry. reflexivity.
    + rewrite Hdi. apply diags_update_entry.
  - apply borrow_mut_spec in H. destruct H as [H _]. subst. rewrite app_nil_r.
    split; [apply same_arenas_cur|]. split; [intros f; reflexivity|reflexivity].
  - apply borrow_mut_spec in H. destruct H as [H _]. subst. rewrite app_nil_r.
    split; [apply same_arenas_cur|]. split; [intros f; reflexivity|reflexivity].
  - apply borrow_mut_spec in H. destruct H as [H _]. subst. rewrite app_nil_r.
    split; [apply same_arenas_cur|]. split; [intros f; reflexivity|reflexivity].
  - apply borrow_mut_spec in H. destruct H as [H _]. subst. rewrite app_nil_r.
    split; [apply same_arenas_cur|]. split; [intros f; reflexivity|reflexivity].
  - apply with_cur_spec in H. destruct H as (t & Ht & He & HS). rewrite Ht. cbn [option_map]. subst S'.
    rewrite app_nil_r. repeat split; [exact He|apply get_entry_update|apply next_id_update| |apply diags_update_entry].
    intros f. apply posf_update_entry.
  - apply with_cur_spec in H. destruct H as (t & Ht & He & HS). rewrite Ht. cbn [option_map]. subst S'.
    rewrite app_nil_r. repeat split; [exact He|apply get_entry_update|apply next_id_update| |apply diags_update_entry].
    intros f. apply posf_update_entry.
  - apply with_cur_spec in H. destruct H as (t & Ht & He & HS). rewrite Ht. cbn [option_map]. subst S'.
    rewrite app_nil_r. repeat split; [exact He|apply get_entry_update|apply next_id_update| |apply diags_update_entry].
    intros f. apply posf_update_entry.
  - apply with_cur_spec in H. destruct H as (t & Ht & He & HS). rewrite Ht. cbn [option_map]. subst S'.
    rewrite app_nil_r. repeat split; [exact He|apply get_entry_update|apply next_id_update| |apply diags_update_entry].
    intros f. apply posf_update_entry.
  - apply with_cur_spec in H. destruct H as (t & Ht & He & HS). rewrite Ht. cbn [option_map]. subst S'.
    rewrite app_nil_r. repeat split; [exact He|apply get_entry_update|apply next_id_update| |apply diags_update_entry].
    intros f. apply posf_update_entry.
  - apply with_cur_spec in H. destruct H as (t & Ht & He & HS). rewrite Ht. cbn [option_map]. subst S'.
    rewrite app_nil_r. repeat split; [exact He|apply get_entry_update|apply next_id_update| |apply diags_update_entry].
    intros f. apply posf_update_entry.
  - apply with_cur_spec in H. destruct H as (t & Ht & He & HS). rewrite Ht. cbn [option_map]. subst S'.
    rewrite app_nil_r. repeat split; [exact He|apply get_entry_update|apply next_id_update| |apply diags_update_entry].
    intros f. apply posf_update_entry.
  - inversion H. subst. split; [apply same_arenas_diags|]. split; [intros f; reflexivity|reflexivity].
Qed.

(** ---- no op fails when the id side conditions hold *)
Lemma add_symbol_ok : forall S k e fl keyed logged,
  logged = next_id S k -> exists S', add_symbol S k e fl keyed logged = SOk S'.
Proof.
  intros S k e fl keyed logged Hl. unfold add_symbol, alloc, check_id. subst. rewrite N.eqb_refl. cbn [sbind].
  destruct keyed; [apply add_to_pos_ok|eauto].
Qed.

Lemma cur_is_target : forall S k id, cur_is S k = Some id -> cur_target S k = Some (k, id) /\ exists e, get_entry S (k, id) = Some e.
Proof.
  intros S k id H. unfold cur_is in H. unfold cur_target.
  destruct (sm_cur S) as [[k' i]|]; [|discriminate].
  destruct (sym_kind_eqb k k') eqn:Ek; cbn [andb] in H; [|discriminate].
  destruct (valid_id S k i) eqn:Ev; [|discriminate]. inversion H. subst.
  split; [reflexivity|]. apply get_entry_valid. exact Ev.
Qed.

Lemma with_cur_ok : forall S k g id, cur_is S k = Some id -> exists S', with_cur S k g = SOk S'.
Proof.
  intros S k g id H. unfold with_cur. unfold cur_is in H.
  destruct (sm_cur S) as [[k' i]|]; [|discriminate].
  destruct (sym_kind_eqb k k') eqn:Ek; cbn [andb] in H; [|discriminate].
  destruct (valid_id S k i) eqn:Ev; [|discriminate].
  apply (proj2 (get_entry_valid S (k, i))) in Ev. destruct Ev as [e Ev]. rewrite Ev. eauto.
Qed.

Lemma borrow_mut_ok : forall S s, valid_id S (fst s) (snd s) = true -> exists S', borrow_mut S s = SOk S'.
Proof.
  intros S s H. apply get_entry_valid in H. destruct H as [e H]. unfold borrow_mut. rewrite H. eauto.
Qed.

Theorem apply_op_ok : forall S o, op_ids_ok S o = true -> exists S', apply_op S o = SOk S'.
Proof.
  intros S o H. destruct o; cbn [op_ids_ok] in H; cbn [apply_op].
  - destruct k; apply add_symbol_ok; apply N.eqb_eq in H; rewrite H; symmetry; apply same_arenas_next_id;
      [apply same_arenas_name_to_class|apply same_arenas_name_to_def].
  - apply add_symbol_ok. apply N.eqb_eq. exact H.
  - apply add_symbol_ok. apply N.eqb_eq. exact H.
  - apply andb_true_iff in H. destruct H as [H _]. apply add_symbol_ok. apply N.eqb_eq. exact H.
  - apply add_symbol_ok. apply N.eqb_eq. exact H.
  - apply add_symbol_ok. apply N.eqb_eq in H. rewrite H. symmetry. apply same_arenas_next_id.
    apply same_arenas_name_to_defset.
  - apply add_symbol_ok. apply N.eqb_eq in H. rewrite H. symmetry. apply same_arenas_next_id.
    apply same_arenas_name_to_multiclass.
  - apply add_symbol_ok. apply N.eqb_eq. exact H.
  - apply add_symbol_ok. apply N.eqb_eq. exact H.
  - apply get_entry_valid in H. destruct H as [e H]. rewrite H. apply add_to_pos_ok.
  - apply (borrow_mut_ok S (KRecord, id)). exact H.
  - apply (borrow_mut_ok S (KDefset, id)). exact H.
  - apply (borrow_mut_ok S (KMulticlass, id)). exact H.
  - apply (borrow_mut_ok S (KDefm, id)). exact H.
  - destruct (cur_is S KRecord) eqn:E; [|discriminate]. eapply with_cur_ok. exact E.
  - destruct (cur_is S KRecord) eqn:E; [|discriminate]. eapply with_cur_ok. exact E.
  - destruct (cur_is S KRecord) eqn:E; [|discriminate]. eapply with_cur_ok. exact E.
  - destruct (cur_is S KDefset) eqn:E; [|discriminate]. eapply with_cur_ok. exact E.
  - destruct (cur_is S KMulticlass) eqn:E; [|discriminate]. eapply with_cur_ok. exact E.
  - destruct (cur_is S KMulticlass) eqn:E; [|discriminate]. eapply with_cur_ok. exact E.
  - destruct (cur_is S KDefm) eqn:E; [|discriminate]. eapply with_cur_ok. exact E.
  - eauto.
Qed.

(** ---- running op lists: a generic invariant rule *)
Lemma ops_ok_from_inv : forall (ok : symbol_map -> op -> bool) (I : symbol_map -> Prop),
  (forall S o S', I S -> ok S o = true -> apply_op S o = SOk S' -> I S') ->
  forall ops S, I S -> ops_ok_from ok S ops = true -> exists S', run_ops_from S ops = SOk S' /\ I S'.
Proof.
  intros ok I Hstep. induction ops as [|o ops IH]; intros S HI H; cbn in *.
  - eauto.
  - apply andb_true_iff in H. destruct H as [Hok H].
    destruct (apply_op S o) as [S1|] eqn:E; [|discriminate]. cbn [sbind].
    apply IH; [|exact H]. eapply Hstep; eassumption.
Qed.

Lemma ops_ok_from_and : forall ok1 ok2 ops S,
  ops_ok_from (fun S o => ok1 S o && ok2 S o) S ops = true ->
  ops_ok_from ok1 S ops = true /\ ops_ok_from ok2 S ops = true.
Proof.
  intros ok1 ok2. induction ops as [|o ops IH]; intros S H; cbn in *; [auto|].
  apply andb_true_iff in H. destruct H as [H1 H2]. apply andb_true_iff in H1. destruct H1 as [Ha Hb].
  destruct (apply_op S o) as [S1|]; [|discriminate].
  apply IH in H2. destruct H2 as [H2 H3]. rewrite Ha, Hb, H2, H3. auto.
Qed.
