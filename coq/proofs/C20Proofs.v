(** Lemmas for property C20 (completion vocabulary closed under the server's own lexer and parser).
    The vocabularies, the lexer tables and the grammar program are GENERATED from the current source, so
    the finite statements are decided by computation over the complete tables and lifted with
    [forallb_forall]; the statements about all operator names, all class lists and all template-argument
    counts are proved by induction. *)
From Coq Require Import List NArith Bool String Decimal DecimalN DecimalPos Lia.
From TG.Gen Require Import GenTokens GenLexTables GenCompletion GenGrammar GenAst.
From TG.Model Require Import Chars Lexer Prep Tree ParserPrims GInterp Completion.
Import ListNotations.
Close Scope string_scope.
Open Scope list_scope.
Open Scope N_scope.

(** * Basic facts on text equality and table lookup *)
Lemma list_eqb_eq a : forall b, list_eqb a b = true -> a = b.
Proof.
  induction a as [|x a IH]; intros [|y b] H; simpl in H; try discriminate; auto.
  apply andb_true_iff in H as [H1 H2]. apply N.eqb_eq in H1. f_equal; auto.
Qed.
Lemma list_eqb_refl a : list_eqb a a = true.
Proof. induction a as [|x a IH]; simpl; auto. rewrite N.eqb_refl; auto. Qed.

Lemma lookup_In {A} (tbl : list (list N * A)) k v : lookup tbl k = Some v -> In (k, v) tbl.
Proof.
  induction tbl as [|[k' v'] r IH]; simpl; intros H; try discriminate.
  destruct (list_eqb k' k) eqn:E.
  - apply list_eqb_eq in E. inversion H; subst. now left.
  - right; auto.
Qed.

Definition mem (x : text) (l : list text) : bool := existsb (list_eqb x) l.
Lemma mem_In x l : mem x l = true <-> In x l.
Proof.
  unfold mem. rewrite existsb_exists. split.
  - intros (y & Hy & E). apply list_eqb_eq in E. now subst.
  - intros H. exists x. split; auto. apply list_eqb_refl.
Qed.
Lemma mem_false_not_In x l : mem x l = false <-> ~ In x l.
Proof.
  split; intros H.
  - intros HI. apply mem_In in HI. congruence.
  - destruct (mem x l) eqn:E; auto. apply mem_In in E. contradiction.
Qed.

Lemma tk_neq_of_eqb a b : tk_eqb a b = false -> a <> b.
Proof. intros H E. subst. rewrite tk_eqb_refl in H. discriminate. Qed.

(** * One-word lexing *)
Lemma lex_single_sound w k : lex_single w = Some k -> lexes_as w k.
Proof.
  unfold lex_single, lexes_as. destruct (lex_text w) as [|[[k1 e1] a1] l]; try discriminate.
  destruct e1; try discriminate.
  destruct l as [|[[k2 e2] a2] l]; try discriminate.
  destruct k2; try discriminate. destruct e2; try discriminate. destruct a2; try discriminate.
  destruct l; try discriminate.
  destruct (list_eqb a1 w) eqn:E; try discriminate.
  intros H. inversion H; subst. apply list_eqb_eq in E. now subst.
Qed.
Lemma lex_single_complete w k : lexes_as w k -> lex_single w = Some k.
Proof. unfold lex_single, lexes_as. intros ->. now rewrite list_eqb_refl. Qed.

Lemma keyword_ok_b_sound w : keyword_ok_b w = true -> keyword_ok w.
Proof.
  unfold keyword_ok_b, keyword_ok.
  destruct (lookup spelling_table w) as [k|] eqn:L; try discriminate.
  destruct (lex_single w) as [k'|] eqn:S; try discriminate.
  intros H. apply andb_true_iff in H as [H H3]. apply andb_true_iff in H as [H1 H2].
  apply tk_eqb_eq in H1. subst k'.
  exists k. repeat split; auto using lex_single_sound.
  - apply tk_neq_of_eqb. now destruct (tk_eqb k T_Id).
  - apply tk_neq_of_eqb. now destruct (tk_eqb k T_Error).
Qed.

Lemma bangop_ok_b_sound o : bangop_ok_b o = true -> bangop_ok o.
Proof.
  unfold bangop_ok_b, bangop_ok.
  destruct (lex_single (bang_text o)) as [k|] eqn:S; try discriminate.
  intros H. apply andb_true_iff in H as [H1 H2].
  exists k. repeat split; auto using lex_single_sound.
  intros k' L. rewrite L in H2. now apply tk_eqb_eq in H2.
Qed.
Lemma bangop_ok_b_complete o : bangop_ok o -> bangop_ok_b o = true.
Proof.
  unfold bangop_ok_b, bangop_ok. intros (k & H1 & H2 & H3).
  rewrite (lex_single_complete _ _ H1), H2. cbn [andb].
  destruct (lookup spelling_table (bang_text o)) as [k'|] eqn:L; auto.
  specialize (H3 k' eq_refl). subst k'. apply tk_eqb_refl.
Qed.

(** * Offered keywords, type names and boolean literals lex as exactly that token (finite domain) *)
Lemma keywords_lex_all :
  forallb keyword_ok_b (offered_keywords ++ offered_types ++ offered_values) = true.
Proof. vm_compute. reflexivity. Qed.

Lemma C20_keywords_lex_proof :
  forall w, In w (offered_keywords ++ offered_types ++ offered_values) -> keyword_ok w.
Proof.
  intros w H. apply keyword_ok_b_sound.
  exact (proj1 (forallb_forall _ _) keywords_lex_all w H).
Qed.

(** * Offered bang operators lex as operators, except the known class *)
Definition t (s : string) : text := map (fun a => N.of_nat (Ascii.nat_of_ascii a)) (list_ascii_of_string s).

(** known finding D20, first half: offered but rejected by the lexer (known_findings.txt keys offered-not-lexed:NAME) *)
Definition known_offered_not_lexed : list text := [t "concat"; t "log2"].
(** known finding D20, second half: accepted by the lexer but not offered (keys lexed-not-offered:NAME) *)
Definition known_lexed_not_offered : list text :=
  [t "con"; t "cond"; t "initialized"; t "listflatten"; t "repr"; t "logtwo"].

Lemma offered_lex_all :
  forallb (fun o => mem o known_offered_not_lexed || bangop_ok_b o) offered_bangops = true.
Proof. vm_compute. reflexivity. Qed.

Lemma C20_offered_lexes_proof :
  forall o, In o offered_bangops -> ~ In o known_offered_not_lexed -> bangop_ok o.
Proof.
  intros o H NK. pose proof (proj1 (forallb_forall _ _) offered_lex_all o H) as F.
  apply orb_true_iff in F as [F|F]; [apply mem_In in F; contradiction|now apply bangop_ok_b_sound].
Qed.

(** * Every operator the lexer accepts is offered, except the known class.
    First for ALL texts: if `!o` lexes as one operator token then [o] is a key of the lexer's table. *)
Lemma lex_all_S n s :
  lex_all (S n) s =
  let '(k, e, a, rest) := lex_one s in
  if tk_eqb k T_Eof then [(k, e, a)] else (k, e, a) :: lex_all n rest.
Proof. simpl. destruct (lex_one s) as [[[k e] a] rest]. destruct k; reflexivity. Qed.

Lemma lex_one_bang o : lex_one (33 :: o) = cons_lexeme 33 (bangoperator o).
Proof. reflexivity. Qed.

Lemma bang_trigger_is : bang_trigger = [33].
Proof. reflexivity. Qed.

Lemma bang_lex_inv o k :
  lexes_as (bang_text o) k -> k <> T_Error -> lookup bangop_table o = Some k.
Proof.
  unfold lexes_as, bang_text, lex_text. rewrite bang_trigger_is. change ([33] ++ o) with (33 :: o).
  rewrite lex_all_S, lex_one_bang. unfold bangoperator.
  destruct (eat_while is_ascii_alphabetic o) as [a rest].
  destruct (lookup bangop_table a) as [k1|] eqn:L; unfold tok, err, cons_lexeme.
  - destruct (tk_eqb k1 T_Eof); intros H NE; inversion H; subst; auto.
  - simpl. intros H NE. inversion H.
Qed.

Lemma operator_kind_not_error k : is_operator_kind k = true -> k <> T_Error.
Proof. intros H E. subst. discriminate. Qed.

Lemma lexed_offered_all :
  forallb (fun kv => mem (fst kv) known_lexed_not_offered || mem (fst kv) offered_bangops) bangop_table = true.
Proof. vm_compute. reflexivity. Qed.

Lemma C20_lexed_offered_proof :
  forall o k, lexes_as (bang_text o) k -> is_operator_kind k = true ->
              ~ In o known_lexed_not_offered -> In o offered_bangops.
Proof.
  intros o k H Hk NK.
  pose proof (bang_lex_inv o k H (operator_kind_not_error k Hk)) as L.
  apply lookup_In in L.
  pose proof (proj1 (forallb_forall _ _) lexed_offered_all _ L) as F. cbn [fst snd] in F.
  apply orb_true_iff in F as [F|F]; apply mem_In in F; [contradiction|assumption].
Qed.

(** the table-level form (every row of the lexer's operator table) *)
Lemma C20_lexer_table_offered_proof :
  forall o k, In (o, k) bangop_table -> ~ In o known_lexed_not_offered -> In o offered_bangops.
Proof.
  intros o k L NK.
  pose proof (proj1 (forallb_forall _ _) lexed_offered_all _ L) as F. cbn [fst snd] in F.
  apply orb_true_iff in F as [F|F]; apply mem_In in F; [contradiction|assumption].
Qed.

(** every row of the lexer's table is really accepted by the lexer as that operator (so the two forms agree) *)
Lemma lexer_table_lexes_all :
  forallb (fun kv => match lex_single (bang_text (fst kv)) with Some k => tk_eqb k (snd kv) && is_operator_kind k | None => false end)
          bangop_table = true.
Proof. vm_compute. reflexivity. Qed.
Lemma lexer_table_lexes o k : In (o, k) bangop_table -> lexes_as (bang_text o) k /\ is_operator_kind k = true.
Proof.
  intros L. pose proof (proj1 (forallb_forall _ _) lexer_table_lexes_all _ L) as F. cbn [fst snd] in F.
  destruct (lex_single (bang_text o)) as [k'|] eqn:S; try discriminate.
  apply andb_true_iff in F as [F1 F2]. apply tk_eqb_eq in F1. subst. split; auto using lex_single_sound.
Qed.

(** * The known class is real (refutation of the unrestricted statements) *)
Lemma known_offered_not_lexed_real_all :
  forallb (fun o => mem o offered_bangops && negb (bangop_ok_b o)) known_offered_not_lexed = true.
Proof. vm_compute. reflexivity. Qed.
Lemma C20_known_offered_not_lexed_real_proof :
  forall o, In o known_offered_not_lexed -> In o offered_bangops /\ ~ bangop_ok o.
Proof.
  intros o H. pose proof (proj1 (forallb_forall _ _) known_offered_not_lexed_real_all o H) as F.
  apply andb_true_iff in F as [F1 F2]. split; [now apply mem_In|].
  intros OK. apply bangop_ok_b_complete in OK. rewrite OK in F2. discriminate.
Qed.
Lemma C20_offered_refuted_proof : exists o, In o offered_bangops /\ ~ bangop_ok o.
Proof. exists (t "concat"). apply C20_known_offered_not_lexed_real_proof. now left. Qed.

Lemma known_lexed_not_offered_real_all :
  forallb (fun o => negb (mem o offered_bangops) &&
                    match lex_single (bang_text o) with Some k => is_operator_kind k | None => false end)
          known_lexed_not_offered = true.
Proof. vm_compute. reflexivity. Qed.
Lemma C20_known_lexed_not_offered_real_proof :
  forall o, In o known_lexed_not_offered ->
            exists k, lexes_as (bang_text o) k /\ is_operator_kind k = true /\ ~ In o offered_bangops.
Proof.
  intros o H. pose proof (proj1 (forallb_forall _ _) known_lexed_not_offered_real_all o H) as F.
  apply andb_true_iff in F as [F1 F2].
  destruct (lex_single (bang_text o)) as [k|] eqn:S; try discriminate.
  exists k. repeat split; auto using lex_single_sound.
  apply mem_false_not_In. now destruct (mem o offered_bangops).
Qed.
Lemma C20_lexed_refuted_proof :
  exists o k, lexes_as (bang_text o) k /\ is_operator_kind k = true /\ ~ In o offered_bangops.
Proof.
  destruct (C20_known_lexed_not_offered_real_proof (t "con")) as (k & H); [now left|].
  exists (t "con"), k. exact H.
Qed.

(** non-vacuity of the two restricted statements: an offered operator outside the known class, an accepted
    operator outside the known class *)
Example offered_outside_known_inhabited :
  In (t "add") offered_bangops /\ ~ In (t "add") known_offered_not_lexed.
Proof. split; [apply mem_In|apply mem_false_not_In]; vm_compute; reflexivity. Qed.
Example lexed_outside_known_inhabited :
  lexes_as (bang_text (t "add")) T_XAdd /\ is_operator_kind T_XAdd = true /\ ~ In (t "add") known_lexed_not_offered.
Proof. split; [vm_compute; reflexivity|split; [reflexivity|apply mem_false_not_In; vm_compute; reflexivity]]. Qed.

(** * Every offered statement keyword starts a statement the parser model accepts *)
Fixpoint is_prefix (a b : text) : bool :=
  match a, b with
  | [], _ => true
  | x :: a', y :: b' => (x =? y) && is_prefix a' b'
  | _ :: _, [] => false
  end.
Lemma is_prefix_app a : forall b, is_prefix a b = true -> exists r, b = a ++ r.
Proof.
  induction a as [|x a IH]; intros b H; [now exists b|].
  destruct b as [|y b]; simpl in H; try discriminate.
  apply andb_true_iff in H as [H1 H2]. apply N.eqb_eq in H1. subst.
  destruct (IH _ H2) as [r ->]. now exists r.
Qed.

Lemma accepted_statement_from_b_sound w src :
  accepted_statement_from_b w src = true -> accepted_statement_from w src.
Proof.
  unfold accepted_statement_from_b, accepted_statement_from.
  destruct (parse_with parse_fuel grammar_prog grammar_entry src) as [tr errs st| |] eqn:P; try discriminate.
  destruct errs; try discriminate.
  destruct (first_stmt tr) as [stmt|] eqn:F; try discriminate.
  intros H. apply andb_true_iff in H as [H1 H2].
  destruct (first_leaf_text stmt) as [a|] eqn:L; try discriminate.
  apply list_eqb_eq in H2. subst a.
  exists parse_fuel, tr, st, stmt. repeat split; auto.
  apply existsb_exists in H1 as (k & Hk & E). apply sk_eqb_eq in E. now subst.
Qed.

Definition keyword_starts_b (w : text) : bool :=
  match lookup stmt_witness_table w with
  | Some src => is_prefix w src && accepted_statement_from_b w src
  | None => false
  end.
Lemma keywords_start_all : forallb keyword_starts_b offered_keywords = true.
Proof. vm_compute. reflexivity. Qed.

Lemma C20_keywords_start_proof : forall w, In w offered_keywords -> starts_statement w.
Proof.
  intros w H. pose proof (proj1 (forallb_forall _ _) keywords_start_all w H) as F.
  unfold keyword_starts_b in F. destruct (lookup stmt_witness_table w) as [src|]; try discriminate.
  apply andb_true_iff in F as [F1 F2]. destruct (is_prefix_app _ _ F1) as [r ->].
  exists r. now apply accepted_statement_from_b_sound.
Qed.

(** * Class-name completion *)
Lemma dispatch_classref : dispatch S_ClassRef = Some ActClasses.
Proof. reflexivity. Qed.

(** in a parent-class position (grand-parent of the token left of the cursor is a ClassRef) and without a
    trigger character, the completion list is exactly one item per class symbol, in the symbol order *)
Lemma C20_classes_proof :
  forall cl tr off p rest,
    ancestors_at tr off = Some (p :: S_ClassRef :: rest) ->
    completion_model cl tr off None = Some (complete_classes cl) /\
    labels (complete_classes cl) = map cs_name cl.
Proof.
  intros cl tr off p rest H. unfold completion_model. rewrite H.
  unfold context_items. rewrite dispatch_classref. simpl. split; [reflexivity|].
  unfold labels, complete_classes. rewrite map_map. reflexivity.
Qed.
(** with the `!` trigger the bang operators are listed first, the class items are unchanged *)
Lemma C20_classes_trigger_proof :
  forall cl tr off p rest trig,
    ancestors_at tr off = Some (p :: S_ClassRef :: rest) ->
    exists pre, completion_model cl tr off trig = Some (pre ++ complete_classes cl) /\
                (pre = [] \/ pre = bang_operator_items).
Proof.
  intros cl tr off p rest trig H. unfold completion_model. rewrite H.
  unfold context_items. rewrite dispatch_classref. cbn [action_items].
  destruct trig as [x|]; [destruct (list_eqb x bang_trigger)|]; eexists; split; eauto.
Qed.

(** ** decimal rendering round trip *)
Lemma chars_of_uint_digits u : Forall (fun c => is_ascii_digit c = true) (chars_of_uint u).
Proof. induction u; simpl; constructor; auto. Qed.

Lemma read_uint_chars u : forall rest,
  match rest with c :: _ => is_ascii_digit c = false | [] => True end ->
  read_uint (chars_of_uint u ++ rest) = (u, rest).
Proof.
  induction u; intros rest H; simpl;
    try (rewrite (IHu rest H); reflexivity).
  destruct rest as [|c r]; simpl; auto. now rewrite H.
Qed.

Lemma to_uint_nonnil n : N.to_uint n <> Nil.
Proof. destruct n; simpl; [discriminate|apply DecimalPos.Unsigned.to_uint_nonnil]. Qed.

Lemma read_uint_dec n rest :
  match rest with c :: _ => is_ascii_digit c = false | [] => True end ->
  read_uint (dec n ++ rest) = (N.to_uint n, rest).
Proof. apply read_uint_chars. Qed.

(** ** tab stops *)
Lemma tabstops_cons c r :
  tabstops (c :: r) = if c =? 36 then match tabstop_at r with Some n => n :: tabstops r | None => tabstops r end
                      else tabstops r.
Proof. reflexivity. Qed.

Lemma tabstops_skip a : forall b, ~ In 36 a -> tabstops (a ++ b) = tabstops b.
Proof.
  induction a as [|c a IH]; intros b H; auto.
  change ((c :: a) ++ b) with (c :: (a ++ b)). rewrite tabstops_cons.
  destruct (c =? 36) eqn:E; [apply N.eqb_eq in E; subst; exfalso; apply H; now left|].
  apply IH. intros HI. apply H. now right.
Qed.

Lemma dec_no_dollar n : ~ In 36 (dec n).
Proof.
  unfold dec. intros H.
  pose proof (chars_of_uint_digits (N.to_uint n)) as F.
  rewrite Forall_forall in F. specialize (F _ H). discriminate.
Qed.

Lemma ph_consts : cls_ph_pre = [36; 123] /\ cls_ph_post = [125] /\ cls_ph_offset = 1.
Proof. repeat split. Qed.

Lemma uint_is_nil_false u : u <> Nil -> uint_is_nil u = false.
Proof. destruct u; auto. contradiction. Qed.

Lemma tabstops_placeholder i rest :
  tabstops (placeholder i ++ rest) = (N.of_nat i + 1) :: tabstops rest.
Proof.
  unfold placeholder. destruct ph_consts as (-> & -> & ->).
  set (k := N.of_nat i + 1).
  change (([36; 123] ++ dec k ++ [125]) ++ rest) with (36 :: 123 :: (dec k ++ [125]) ++ rest).
  rewrite <- app_assoc. change ([125] ++ rest) with (125 :: rest).
  rewrite tabstops_cons. change (36 =? 36) with true. cbv iota.
  unfold tabstop_at. change (starts_with 123 (123 :: dec k ++ 125 :: rest)) with true. cbv iota.
  change (tl (123 :: dec k ++ 125 :: rest)) with (dec k ++ 125 :: rest).
  rewrite (read_uint_dec k (125 :: rest) eq_refl).
  rewrite (uint_is_nil_false _ (to_uint_nonnil k)).
  change (starts_with 125 (125 :: rest)) with true. cbn [negb andb].
  rewrite DecimalN.Unsigned.of_to. f_equal.
  change (123 :: dec k ++ 125 :: rest) with ([123] ++ dec k ++ [125] ++ rest).
  rewrite !app_assoc. apply tabstops_skip.
  intros HI. apply in_app_or in HI as [HI|HI]; [apply in_app_or in HI as [HI|HI]|].
  - destruct HI as [HI|[]]; discriminate.
  - now apply dec_no_dollar in HI.
  - destruct HI as [HI|[]]; discriminate.
Qed.

Lemma sep_no_dollar : ~ In 36 cls_sep.
Proof. intros H. vm_compute in H. intuition discriminate. Qed.

Lemma join_cons sep a l : l <> [] -> join sep (a :: l) = a ++ sep ++ join sep l.
Proof. destruct l; [contradiction|reflexivity]. Qed.

Lemma tabstops_args : forall n s rest,
  tabstops (join cls_sep (map placeholder (seq s n)) ++ rest) =
  map (fun i => N.of_nat i + 1) (seq s n) ++ tabstops rest.
Proof.
  induction n as [|n IH]; intros s rest; [reflexivity|].
  cbn [seq map]. destruct n as [|n].
  - cbn [seq map join]. rewrite tabstops_placeholder. reflexivity.
  - rewrite join_cons by (cbn [seq map]; discriminate).
    rewrite <- !app_assoc, tabstops_placeholder, tabstops_skip by apply sep_no_dollar.
    rewrite IH. reflexivity.
Qed.

Lemma item_consts : cls_item_pre = [] /\ cls_item_mid = [] /\ cls_item_post = [36; 48] /\
                    cls_args_open = [60] /\ cls_args_close = [62].
Proof. repeat split. Qed.

Lemma arg_snippet_S n : exists c r, arg_snippet (S n) = c :: r.
Proof.
  unfold arg_snippet. cbn [seq map]. unfold placeholder at 1. destruct ph_consts as (-> & _ & _).
  destruct (map placeholder (seq 1 n)); cbn [join]; eexists; eexists; reflexivity.
Qed.

(** one tab stop per template parameter, numbered 1..n in order, then the final `$0` *)
Lemma C20_class_placeholders_proof :
  forall c, ~ In 36 (cs_name c) ->
    tabstops (class_snippet c) = map N.of_nat (seq 1 (cs_ntargs c)) ++ [0].
Proof.
  intros [name n] H. unfold class_snippet. cbn [cs_name cs_ntargs] in *.
  destruct item_consts as (-> & -> & -> & -> & ->). rewrite !app_nil_l.
  rewrite tabstops_skip by assumption.
  destruct n as [|n].
  - reflexivity.
  - destruct (arg_snippet_S n) as (c & r & E). rewrite E, <- E.
    change ([60] ++ arg_snippet (S n) ++ [62]) with (60 :: arg_snippet (S n) ++ [62]).
    change ((60 :: arg_snippet (S n) ++ [62]) ++ [36; 48]) with ([60] ++ (arg_snippet (S n) ++ [62]) ++ [36; 48]).
    rewrite tabstops_skip by (intros [HI|[]]; discriminate).
    rewrite <- app_assoc. unfold arg_snippet. rewrite tabstops_args.
    change ([62] ++ [36; 48]) with [62; 36; 48].
    change (tabstops [62; 36; 48]) with [0]. f_equal.
    rewrite <- seq_shift, map_map. apply map_ext. intros i. lia.
Qed.

(** label of the class item = the class name; the snippet starts with the class name *)
Lemma C20_class_item_proof :
  forall c, item_label (class_item c) = cs_name c /\
            exists tail, item_snippet (class_item c) = Some (cs_name c ++ tail).
Proof.
  intros c. split; [reflexivity|]. unfold class_item, item_snippet, class_snippet. cbn [fst snd].
  destruct item_consts as (-> & -> & _). rewrite !app_nil_l. eexists. reflexivity.
Qed.

Example class_snippet_example :
  class_snippet {| cs_name := t "Foo"; cs_ntargs := 2 |} = t "Foo<${1}, ${2}>$0" /\
  class_snippet {| cs_name := t "Bar"; cs_ntargs := 0 |} = t "Bar$0".
Proof. split; vm_compute; reflexivity. Qed.
