(** The typed accessors reach every child node of a node that conforms to a frame covered by the accessor table.
    (The frames are computed from the generated grammar program by the reflective analysis of model/AstAccess.v;
     that the trees the parser builds conform to them is checked on real trees by checks/C04.py, not proved.) *)
From Coq Require Import List NArith Bool String PeanoNat Lia.
From TG.Gen Require Import GenTokens GenAst GenGrammar.
From TG.Model Require Import Tree GInterp AstAccess.
Import ListNotations.
Close Scope string_scope.
Close Scope N_scope.
Open Scope nat_scope.
Open Scope list_scope.

(** order-preserving sub-sequence *)
Inductive Sublist {A} : list A -> list A -> Prop :=
| SL_nil l : Sublist [] l
| SL_skip x a b : Sublist a b -> Sublist a (x :: b)
| SL_keep x a b : Sublist a b -> Sublist (x :: a) (x :: b).

Lemma sublist_filter {A} (P : A -> bool) l : Sublist (filter P l) l.
Proof. induction l as [|x l IH]; simpl; [constructor|]. destruct (P x); [apply SL_keep|apply SL_skip]; exact IH. Qed.
Lemma sublist_refl {A} (l : list A) : Sublist l l.
Proof. induction l; [constructor|apply SL_keep; auto]. Qed.
Lemma sublist_trans {A} (a b c : list A) : Sublist a b -> Sublist b c -> Sublist a c.
Proof.
  intros H1 H2. revert a H1. induction H2 as [l|x b0 c0 H IH|x b0 c0 H IH]; intros a' H1.
  - inversion H1. apply SL_nil.
  - apply SL_skip. apply IH. exact H1.
  - inversion H1; subst.
    + apply SL_nil.
    + apply SL_skip. apply IH. assumption.
    + apply SL_keep. apply IH. assumption.
Qed.
Lemma sublist_firstn {A} n (l : list A) : Sublist (firstn n l) l.
Proof. revert l. induction n; intros [|x l]; simpl; try apply SL_nil. apply SL_keep; auto. Qed.
Lemma sublist_nth {A} (l : list A) i c : nth_error l i = Some c -> Sublist [c] l.
Proof.
  revert l. induction i; intros [|x l] H; simpl in H; try discriminate.
  - inversion H. subst. apply SL_keep. apply SL_nil.
  - apply SL_skip. auto.
Qed.

Lemma access_sublist t ks m : Sublist (access t ks m) (node_children t).
Proof.
  unfold access. set (cs := of_kinds ks (node_children t)).
  assert (S : Sublist cs (node_children t)) by apply sublist_filter.
  destruct m.
  - eapply sublist_trans; [apply sublist_firstn|exact S].
  - exact S.
  - destruct (nth_error cs i) eqn:E; [|constructor]. eapply sublist_trans; [eapply sublist_nth; eauto|exact S].
Qed.

Lemma kinds_same_eq a : forall b, kinds_same a b = true -> a = b.
Proof.
  induction a as [|x a IH]; intros [|y b] H; simpl in H; try discriminate; auto.
  apply andb_true_iff in H as [H1 H2]. apply sk_eqb_eq in H1. f_equal; auto.
Qed.

Lemma bound_le_small n c : c < 3 -> bound_le n c = true -> n <= c.
Proof.
  unfold bound_le. intros Hc H. apply orb_true_iff in H as [H|H]; apply Nat.leb_le in H; lia.
Qed.

Lemma length_le_1_In {A} (l : list A) c : List.length l <= 1 -> In c l -> firstn 1 l = [c].
Proof.
  destruct l as [|x [|y l]]; simpl; intros H Hin.
  - contradiction.
  - destruct Hin as [->|[]]. reflexivity.
  - lia.
Qed.

(** the accessor found by [reach] returns the child *)
Lemma reach_sound f t c :
  node_conforms f t = true -> In c (node_children t) ->
  reach (accessors_of (kind_of t)) f (kind_of c) = true ->
  exists a, In a (accessors_of (kind_of t)) /\ In c (access t (acc_kinds a) (acc_mode_of a)).
Proof.
  intros Hc Hin Hr. unfold node_conforms in Hc. apply andb_true_iff in Hc as [_ Hb].
  rewrite forallb_forall in Hb.
  unfold reach in Hr. apply existsb_exists in Hr as (a & Ha & Hr).
  apply andb_true_iff in Hr as [Hk Hm].
  assert (HL : In c (of_kinds (acc_kinds a) (node_children t))) by (apply filter_In; auto).
  pose proof (Hb a Ha) as Hlen.
  destruct (acc_mode_of a) eqn:Em.
  - (* child *) exists a. split; auto. unfold access. rewrite Em.
    apply Nat.leb_le in Hm. apply bound_le_small in Hlen; [|lia].
    rewrite (length_le_1_In _ c); [now left|lia|auto].
  - (* children *) exists a. split; auto. unfold access. rewrite Em. exact HL.
  - (* nth *) apply andb_true_iff in Hm as [H3 Hall]. apply Nat.ltb_lt in H3.
    apply bound_le_small in Hlen; [|lia].
    apply In_nth_error in HL as (j & Hj).
    assert (Hjlt : j < ftotal f (acc_kinds a)).
    { assert (j < List.length (of_kinds (acc_kinds a) (node_children t))) by (apply nth_error_Some; congruence). lia. }
    rewrite forallb_forall in Hall.
    assert (Hseq : In j (seq 0 (ftotal f (acc_kinds a)))) by (apply in_seq; lia).
    specialize (Hall j Hseq).
    unfold has_nth in Hall. apply existsb_exists in Hall as (a' & Ha' & H').
    apply andb_true_iff in H' as [Hs Hn]. apply kinds_same_eq in Hs.
    destruct (acc_mode_of a') eqn:Em'; try discriminate. apply Nat.eqb_eq in Hn. subst i0.
    exists a'. split; auto. unfold access. rewrite Em', Hs, Hj. now left.
Qed.

Lemma fcount_In f k : fcount f k <> 0 -> exists n, In (k, n) f /\ n = fcount f k.
Proof.
  induction f as [|[k' n] f IH]; simpl; [congruence|].
  destruct (sk_eqb k' k) eqn:E.
  - apply sk_eqb_eq in E. subst. intros _. exists n. split; auto.
  - intros H. destruct (IH H) as (m & Hin & Hm). exists m. split; auto.
Qed.

(** every child node of a conforming node, except Error nodes and the listed known pairs, is returned by a typed
    accessor, and every accessor returns an order-preserving sub-sequence of the child nodes *)
Theorem accessors_reach known tbl :
  covers_all known tbl = true ->
  forall t f, In (kind_of t, f) tbl -> node_conforms f t = true ->
  forall c, In c (node_children t) -> kind_of c <> S_Error -> pair_in (kind_of t, kind_of c) known = false ->
  exists a, In a (accessors_of (kind_of t)) /\ In c (access t (acc_kinds a) (acc_mode_of a)) /\
            Sublist (access t (acc_kinds a) (acc_mode_of a)) (node_children t).
Proof.
  intros Hcov t f Hin Hconf c Hc Herr Hkn.
  unfold covers_all in Hcov. rewrite forallb_forall in Hcov. specialize (Hcov _ Hin). cbn [fst snd] in Hcov.
  unfold covers_frame in Hcov. rewrite forallb_forall in Hcov.
  pose proof Hconf as Hconf'. unfold node_conforms in Hconf'. apply andb_true_iff in Hconf' as [Hdom _].
  rewrite forallb_forall in Hdom. specialize (Hdom c Hc). apply negb_true_iff, Nat.eqb_neq in Hdom.
  destruct (fcount_In _ _ Hdom) as (n & Hn & En).
  specialize (Hcov _ Hn). cbn [fst snd] in Hcov.
  apply orb_true_iff in Hcov as [Hcov|Hcov].
  - apply orb_true_iff in Hcov as [Hcov|Hcov].
    + apply orb_true_iff in Hcov as [Hcov|Hcov].
      * apply Nat.eqb_eq in Hcov. lia.
      * apply sk_eqb_eq in Hcov. contradiction.
    + congruence.
  - destruct (reach_sound f t c Hconf Hc Hcov) as (a & Ha & Hin').
    exists a. repeat split; auto. apply access_sublist.
Qed.
