(** SymbolSource (group symmap): the translated source of the symbol map (coq/gen/GenSymbolMap.v, regenerated from
    crates/ide/src/symbol_map.rs + symbol_map/*.rs by tools/translate/t_symbolmap.py; related to the hand model by
    proofs/GenSymbolMapEq.v, group "lines") composed with C03: the clauses of [symbolmap_model_is_source] about the
    recursive readers Record::find_field / is_subclass_of are conditional on the hand model not answering EOutOfFuel.
    With (number of records + 1) fuel it never does (proofs/SymbolIds.v), so the TRANSLATED SOURCE FUNCTIONS terminate
    without error and give the model's answer -- for every op log with allocated ids, and for every state the indexer
    model reaches (Core fragment, no hypothesis). *)
From Coq Require Import List NArith Bool Lia.
From TG.Model Require Import Chars SymbolMap SymbolWf SymbolMapSrc.
From TG.Model Require CoreAst Scope Indexer IndexerOps.
From TG.Gen Require Import GenSymbolMap.
From TG.Proofs Require Import GenSymbolMapEq SymbolIds.
From TG.Proofs Require IndexerSim.
Import ListNotations.
Open Scope N_scope.

Lemma source_recursion_of_total : forall S r,
  (forall n, exists o, find_field (Datatypes.S (length (sm_records S))) S r n = SOk o) ->
  (forall other, exists b, is_subclass_of (Datatypes.S (length (sm_records S))) S r other = SOk b) ->
  let fuel := Datatypes.S (length (sm_records S)) in
  (forall n, exists o, find_field fuel S r n = SOk o /\
                       sbind (record S r) (fun e => src_Record_find_field fuel e S n) = SOk o) /\
  (forall other, exists b, is_subclass_of fuel S r other = SOk b /\
                           sbind (record S r) (fun e => src_Record_is_subclass_of fuel e S other) = SOk b).
Proof.
  intros S r Hf Hs fuel. split.
  - intros n. destruct (Hf n) as [o Ho]. exists o. split; [exact Ho|].
    rewrite <- (src_find_field_eq fuel S r n); [exact Ho|]. unfold fuel. rewrite Ho. discriminate.
  - intros other. destruct (Hs other) as [b Hb]. exists b. split; [exact Hb|].
    rewrite <- (src_is_subclass_of_eq fuel S r other); [exact Hb|]. unfold fuel. rewrite Hb. discriminate.
Qed.

Theorem source_recursion_total : forall ops S r,
  ops_ids_wf ops = true -> run_ops ops = SOk S -> r < next_id S KRecord ->
  let fuel := Datatypes.S (length (sm_records S)) in
  (forall n, exists o, find_field fuel S r n = SOk o /\
                       sbind (record S r) (fun e => src_Record_find_field fuel e S n) = SOk o) /\
  (forall other, exists b, is_subclass_of fuel S r other = SOk b /\
                           sbind (record S r) (fun e => src_Record_is_subclass_of fuel e S other) = SOk b).
Proof.
  intros ops S r Hw Hr Hlt. destruct (c03_symbol_map_total ops Hw) as (S' & Hr' & _ & _ & _ & _ & Hf & Hs & _).
  rewrite Hr in Hr'. inversion Hr'. subst S'.
  apply source_recursion_of_total; [intros n; apply Hf; exact Hlt|intros other; apply Hs; exact Hlt].
Qed.

Theorem source_recursion_total_core : forall (w : CoreAst.workspace) r,
  let S := IndexerOps.abs (Indexer.index_ws w) in
  r < next_id S KRecord ->
  let fuel := Datatypes.S (length (sm_records S)) in
  (forall n, exists o, find_field fuel S r n = SOk o /\
                       sbind (record S r) (fun e => src_Record_find_field fuel e S n) = SOk o) /\
  (forall other, exists b, is_subclass_of fuel S r other = SOk b /\
                           sbind (record S r) (fun e => src_Record_is_subclass_of fuel e S other) = SOk b).
Proof.
  intros w r S Hlt. destruct (IndexerSim.c03_symbol_map_total_core w) as (_ & _ & _ & _ & Hf & Hs & _). fold S in Hf, Hs.
  apply source_recursion_of_total; [intros n; apply Hf; exact Hlt|intros other; apply Hs; exact Hlt].
Qed.
Print Assumptions source_recursion_total.
Print Assumptions source_recursion_total_core.
