(** The plumbing model of model/ServerProto.v part 2 IS the data flow of the current sources: gen/GenServerConv.v is
    regenerated on every run by tools/translate/t_serverconv.py from crates/lsp/src/server.rs, to_proto.rs and
    from_proto.rs (which LineIndex and which URI each handler uses for each converted location; what the to_proto
    wrappers apply to which field) and compared here, by computation.  The position-mapping primitives themselves
    (to_proto::{position, range, folding_range}) are rendered by t_lineindex.py and proved equal to the model in
    TG.Proofs.GenLineIndexEq (group "lines"); the conjunction is re-exported below. *)
From Coq Require Import List Bool NArith.
From TG.Model Require Import Chars LineIndex ServerProto.
From TG.Gen Require Import GenServerConv GenLineIndex.
From TG.Proofs Require Import GenLineIndexEq.
Import ListNotations.
Open Scope N_scope.

Lemma gen_document_symbol_eq li : forall s, gen_document_symbol li s = document_symbol li s.
Proof.
  fix IH 1. intros [r ch]. cbn [gen_document_symbol document_symbol].
  destruct (to_proto_range li r) as [lr|p]; [|reflexivity]. cbn [bind].
  assert (H : forall l,
    (fix go (l : list dsym) : res (list lsym) :=
       match l with [] => Ok [] | x :: xs => y <- gen_document_symbol li x ;; ys <- go xs ;; Ok (y :: ys) end) l =
    (fix go (l : list dsym) : res (list lsym) :=
       match l with [] => Ok [] | x :: xs => y <- document_symbol li x ;; ys <- go xs ;; Ok (y :: ys) end) l).
  { induction l as [|x xs IHl]; [reflexivity|]. rewrite (IH x), IHl. reflexivity. }
  rewrite (H ch). reflexivity.
Qed.

Lemma mapM_ext {A B : Type} (f g : A -> res B) (l : list A) : (forall x, f x = g x) -> mapM f l = mapM g l.
Proof. intros H. induction l as [|x r IH]; cbn [mapM]; [reflexivity|]. rewrite (H x), IH. reflexivity. Qed.

Theorem plumbing_is_source (content : file -> text) :
  (forall reqf r, gen_h_definition content reqf r = h_definition content reqf r) /\
  (forall reqf r, gen_h_references content reqf r = h_references content reqf r) /\
  (forall reqf r, gen_h_document_symbol content reqf r = h_document_symbol content reqf r) /\
  (forall reqf r, gen_h_folding_range content reqf r = h_folding_range content reqf r) /\
  (forall reqf r, gen_h_inlay_hint content reqf r = h_inlay_hint content reqf r) /\
  (forall reqf r, gen_h_document_link content reqf r = h_document_link content reqf r) /\
  (forall (M : Type) (dm : list (file * list (rng * M))), gen_h_diagnostics content dm = h_diagnostics content dm) /\
  (forall li r, src_to_proto_range li r = to_proto_range li r) /\
  (forall li o, src_to_proto_position li o = to_proto_position li o) /\
  (forall li r, src_to_proto_folding_range li r = to_proto_folding_range li r).
Proof.
  split; [reflexivity|]. split; [reflexivity|].
  split.
  { intros reqf r. unfold gen_h_document_symbol, h_document_symbol.
    destruct (line_index content reqf) as [li|p]; [|reflexivity]. cbn [bind].
    destruct r as [l|]; [|reflexivity]. rewrite (mapM_ext _ _ l (gen_document_symbol_eq li)). reflexivity. }
  split; [reflexivity|]. split; [reflexivity|]. split; [reflexivity|]. split; [reflexivity|].
  split; [exact src_to_proto_range_eq|]. split; [exact src_to_proto_position_eq|exact src_to_proto_folding_range_eq].
Qed.
