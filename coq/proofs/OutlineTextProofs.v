(** C18, end to end FROM THE TEXTS: composition of the source-level outline theorems (OutlineVisitProofs / OutlineTotalProofs)
    with group bridge's pipeline (model/Pipeline.v: texts --parser model--> trees --AstToCore--> CoreAst workspace) and its
    well-formedness theorem [PipelineProofs.analyze_wf].  Every top-level outline entry is a declaration name THAT STANDS IN
    THE TEXT of the file it is listed under, at exactly the entry's range. *)
From Coq Require Import List NArith Bool Lia.
From TG.Model Require Import Chars CoreAst CoreParts AstToCore SymbolMap OutlineIndex OutlineSpec Pipeline.
From TG.Proofs Require Import OutlineVisitProofs OutlineTotalProofs PipelineProofs.
Import ListNotations.
Open Scope N_scope.

Definition decl_of_ident (k : dkind) (i : ident) : decl := (k, i_name i, r_lo (i_rng i), r_hi (i_rng i)).

Lemma first_ident_part : forall v i, value_first_ident v = Some i -> In (PI i) (value_parts v).
Proof.
  intros [r [|[s sufs] rest]] i H; cbn in H; [discriminate|]. destruct s; try discriminate. injection H as <-.
  cbn. right. left. reflexivity.
Qed.

Lemma many_idents : forall (P : stmt -> Prop) d b e,
  (forall y, In y b -> forall e, In e (stmt_decls d y) -> exists k i, e = decl_of_ident k i /\ In (PI i) (stmt_parts y)) ->
  In e (flat_map (stmt_decls d) b) -> exists k i, e = decl_of_ident k i /\ In (PI i) (flat_map stmt_parts b).
Proof.
  intros _ d b e H Hin. apply in_flat_map in Hin. destruct Hin as (y & Hy & He).
  destruct (H y Hy e He) as (k & i & -> & Hi). exists k, i. split; [reflexivity|]. apply in_flat_map. eauto.
Qed.

Lemma stmt_decls_idents : forall n d x, (stmt_size x <= n)%nat ->
  forall e, In e (stmt_decls d x) -> exists k i, e = decl_of_ident k i /\ In (PI i) (stmt_parts x).
Proof.
  induction n as [|n IH]; intros d x Hs e He; [destruct x; cbn [stmt_size] in Hs; lia|].
  assert (forall d' b, (sum_sizes stmt_size b <= n)%nat -> In e (flat_map (stmt_decls d') b) ->
                       exists k i, e = decl_of_ident k i /\ In (PI i) (flat_map stmt_parts b)) as HM.
  { intros d' b Hb Hin. apply (many_idents (fun _ => True) d' b e); [|exact Hin].
    intros y Hy e' He'. apply (IH d' y); [|exact He']. pose proof (in_sum_sizes b y Hy). lia. }
  destruct x; cbn [stmt_decls] in He; cbn [stmt_parts]; cbn [stmt_size] in Hs; try rewrite !stmts_fix_eq in Hs;
    try (now destruct He).
  - (* class *) destruct He as [<-|[]]. exists DClass, i. split; [reflexivity|now left].
  - (* def *) destruct nm as [v|]; [|destruct He]. destruct (value_first_ident v) as [j|] eqn:Ej; [|destruct He].
    destruct d; [destruct He|]. destruct He as [<-|[]]. exists DDef, j. split; [reflexivity|].
    cbn [opt_parts]. apply in_or_app. left. now apply first_ident_part.
  - (* defset *) destruct He as [<-|He].
    + exists DDefset, i. split; [reflexivity|]. apply in_or_app. right. now left.
    + destruct (HM true body ltac:(lia) He) as (k & j & -> & Hj). exists k, j. split; [reflexivity|].
      apply in_or_app. right. now right.
  - (* foreach *) destruct (HM d body ltac:(lia) He) as (k & j & -> & Hj). exists k, j. split; [reflexivity|].
    right. apply in_or_app. now right.
  - (* if *) apply in_app_or in He. destruct He as [He|He].
    + destruct (HM d th ltac:(lia) He) as (k & j & -> & Hj). exists k, j. split; [reflexivity|].
      apply in_or_app. right. apply in_or_app. now left.
    + destruct el as [el|]; [|destruct He]. rewrite (stmts_fix_eq el) in Hs.
      destruct (HM d el ltac:(lia) He) as (k & j & -> & Hj). exists k, j. split; [reflexivity|].
      apply in_or_app. right. apply in_or_app. now right.
  - (* let *) destruct (HM d body ltac:(lia) He) as (k & j & -> & Hj). exists k, j. split; [reflexivity|].
    apply in_or_app. now right.
  - (* multiclass *) destruct He as [<-|He].
    + exists DMulticlass, i. split; [reflexivity|now left].
    + destruct (HM d body ltac:(lia) He) as (k & j & -> & Hj). exists k, j. split; [reflexivity|].
      right. apply in_or_app. right. apply in_or_app. now right.
Qed.

Lemma file_decls_idents : forall body e, In e (program_decls body) ->
  exists k i, e = decl_of_ident k i /\ In i (file_idents body).
Proof.
  intros body e He. unfold program_decls in He. apply in_flat_map in He. destruct He as (y & Hy & He).
  destruct (stmt_decls_idents (stmt_size y) false y (le_n _) e He) as (k & i & -> & Hi).
  exists k, i. split; [reflexivity|]. unfold file_idents. apply in_flat_map. exists (PI i). split; [|now left].
  apply in_flat_map. eauto.
Qed.

(** the name [n] stands in [txt] at the byte range [lo, hi) *)
Definition name_at (txt : text) (n : SymbolMap.name) (lo hi : N) : Prop :=
  exists pre suf, txt = pre ++ n ++ suf /\ lo = bytes pre /\ hi = bytes pre + bytes n.

Theorem outline_decls_in_text : forall pfuel cfuel files root a w,
  analyze pfuel cfuel files root = Some a -> an_core a = Ok w -> decls_wf w = true ->
  forall f k n lo hi, In (k, n, lo, hi) (decls_of_file f (ops_fdecls (oix_ops w))) ->
  exists txt, nth_error (map (fun fp => pf_text (snd fp)) (an_files a)) (N.to_nat f) = Some txt /\ name_at txt n lo hi.
Proof.
  intros pfuel cfuel files root a w A E Hwf f k n lo hi Hin.
  rewrite (outline_files_complete w (oix_total w) Hwf f) in Hin.
  destruct (mem f (oi_indexed (oix w))); [|destruct Hin]. unfold file_decls in Hin.
  destruct (nth_error (ws_files w) (N.to_nat f)) as [body|] eqn:Nb; [|destruct Hin].
  destruct (file_decls_idents body _ Hin) as (k' & i & Hd & Hi). injection Hd as -> -> -> ->.
  destruct (analyze_wf pfuel cfuel files root a w A E) as (Hlen & Hfiles).
  set (texts := map (fun fp => pf_text (snd fp)) (an_files a)) in *.
  destruct (nth_error texts (N.to_nat f)) as [txt|] eqn:Nt.
  - exists txt. split; [reflexivity|]. destruct (Hfiles _ _ _ Nb Nt) as (_ & Hids & _).
    rewrite Forall_forall in Hids. destruct (Hids i Hi) as (_ & pre & suf & H1 & H2 & H3). exists pre, suf. auto.
  - apply nth_error_None in Nt. assert (N.to_nat f < List.length (ws_files w))%nat by (apply nth_error_Some; congruence). lia.
Qed.

(** ================= the CHILDREN: every registration of the slice (records, defsets, multiclasses, template arguments,
    fields and field overrides) carries the name and range of an identifier of the file it is registered in; the only
    exception is the synthesized name of an anonymous def ================= *)
From TG.Model Require Import OutlineChildSpec.
From TG.Proofs Require Import OutlineChildProofs.

Definition ev_key (e : cev) : option (N * SymbolMap.name * N * N) :=
  match e with
  | CRec f _ n lo hi _ | CMc f n lo hi | CDefset f n _ lo hi | CTArg f n _ lo hi | CField f n _ lo hi => Some (f, n, lo, hi)
  | CAnon _ _ _ _ => None
  end.

Definition src (files : list (list stmt)) (f : N) (i : ident) : Prop :=
  exists body, nth_error files (N.to_nat f) = Some body /\ In i (file_idents body).

Definition ev_ok (files : list (list stmt)) (e : cev) : Prop :=
  forall f n lo hi, ev_key e = Some (f, n, lo, hi) ->
  exists i, src files f i /\ n = i_name i /\ lo = r_lo (i_rng i) /\ hi = r_hi (i_rng i).

Lemma ev_ok_ident : forall files g i e, src files g i ->
  ev_key e = Some (g, i_name i, r_lo (i_rng i), r_hi (i_rng i)) -> ev_ok files e.
Proof. intros files g i e Hs Hk f n lo hi H. rewrite Hk in H. injection H as <- <- <- <-. exists i. auto. Qed.

Lemma targs_ok : forall files g targs c,
  (forall i, In (PI i) (opt_parts (flat_map targ_parts) targs) -> src files g i) ->
  Forall (ev_ok files) (sp_targs g targs c).
Proof.
  intros files g [l|] c H; [|constructor]. cbn [sp_targs opt_parts] in *. apply Forall_forall. intros e He.
  apply in_flat_map in He. destruct He as ([t i d] & Ha & He). cbn [sp_targ] in He.
  destruct (ty_str (c_cls c) t); [|destruct He]. destruct He as [<-|[]].
  apply (ev_ok_ident files g i); [|reflexivity]. apply H. apply in_flat_map. exists (TArg t i d). split; [exact Ha|].
  cbn [targ_parts]. apply in_or_app. right. now left.
Qed.

Lemma items_ok : forall files g rid b c ev c',
  sp_items g rid b c = Some (ev, c') ->
  (forall i, In (PI i) (flat_map item_parts b) -> src files g i) -> Forall (ev_ok files) ev.
Proof.
  intros files g rid. induction b as [|it r IH]; intros c ev c' H Hs; cbn [sp_items] in H.
  - injection H as <- <-. constructor.
  - destruct (sp_item g rid it c) as [[e1 c1]|] eqn:E1; [|discriminate].
    destruct (sp_items g rid r c1) as [[e2 c2]|] eqn:E2; [|discriminate]. injection H as <- <-.
    apply Forall_app. split.
    + assert (forall i, In (PI i) (item_parts it) -> src files g i) as Hi
        by (intros i Hi; apply Hs; cbn [flat_map]; apply in_or_app; now left).
      destruct it; cbn [sp_item] in E1.
      * destruct (ty_str (c_cls c) t); injection E1 as <- <-; [|constructor]. constructor; [|constructor].
        apply (ev_ok_ident files g i); [|reflexivity]. apply Hi. cbn [item_parts]. apply in_or_app. right. now left.
      * destruct (sp_find (c_recs c) rid (i_name i)) as [[typ|]|]; try discriminate; injection E1 as <- <-; [|constructor].
        constructor; [|constructor]. apply (ev_ok_ident files g i); [|reflexivity]. apply Hi. now left.
      * injection E1 as <- <-. constructor.
      * injection E1 as <- <-. constructor.
      * injection E1 as <- <-. constructor.
    + apply (IH c1 e2 c2 E2). intros i Hi. apply Hs. cbn [flat_map]. apply in_or_app. now right.
Qed.

Lemma src_of_body : forall files f body y i, nth_error files (N.to_nat f) = Some body -> In y body ->
  In (PI i) (stmt_parts y) -> src files f i.
Proof.
  intros files f body y i Hn Hy Hi. exists body. split; [exact Hn|]. unfold file_idents. apply in_flat_map.
  exists (PI i). split; [|now left]. apply in_flat_map. eauto.
Qed.

Lemma svc_ok : forall files n g d x c ev c',
  svc files n g d x c = Some (ev, c') ->
  (forall i, In (PI i) (stmt_parts x) -> src files g i) -> Forall (ev_ok files) ev.
Proof.
  intros files. induction n as [|n IH]; intros g d x c ev c' H Hs; [discriminate|].
  assert (forall g d b c ev c', svc_list files n g d b c = Some (ev, c') ->
            (forall y i, In y b -> In (PI i) (stmt_parts y) -> src files g i) -> Forall (ev_ok files) ev) as HL.
  { intros g0 d0 b. induction b as [|y r IHb]; intros c0 ev0 c0' H0 Hs0; cbn [svc_list] in H0.
    - injection H0 as <- <-. constructor.
    - destruct (svc files n g0 d0 y c0) as [[e1 c1]|] eqn:E1; [|discriminate].
      destruct (svc_list files n g0 d0 r c1) as [[e2 c2]|] eqn:E2; [|discriminate]. injection H0 as <- <-.
      apply Forall_app. split.
      + apply (IH g0 d0 y c0 e1 c1 E1). intros i Hi. apply (Hs0 y i); [now left|exact Hi].
      + apply (IHb c1 e2 c2 E2). intros y' i Hy' Hi. apply (Hs0 y' i); [now right|exact Hi]. }
  assert (forall b, (forall i, In (PI i) (flat_map stmt_parts b) -> src files g i) ->
                    forall y i, In y b -> In (PI i) (stmt_parts y) -> src files g i) as Hsub.
  { intros b Hb y i Hy Hi. apply Hb. apply in_flat_map. eauto. }
  rewrite svc_S in H. unfold svc_body in H. destruct x; cbn [stmt_parts] in Hs.
  - (* include *)
    destruct target as [f|]; [|injection H as <- <-; constructor].
    destruct (existsb (N.eqb f) (c_indexed c)); [injection H as <- <-; constructor|].
    destruct (nth_error files (N.to_nat f)) as [body|] eqn:Nf; [|injection H as <- <-; constructor].
    apply (HL _ _ _ _ _ _ H). intros y i Hy Hi. now apply (src_of_body files f body y i).
  - injection H as <- <-. constructor.
  - (* class *)
    destruct (sp_record_body g _ parents body _) as [[eb c2]|] eqn:Eb; [|discriminate]. injection H as <- <-.
    constructor; [apply (ev_ok_ident files g i); [apply Hs; now left|reflexivity]|].
    apply Forall_app. split.
    + apply targs_ok. intros j Hj. apply Hs. right. apply in_or_app. now left.
    + unfold sp_record_body in Eb. apply (items_ok _ _ _ _ _ _ _ Eb). intros j Hj. apply Hs. right.
      apply in_or_app. right. apply in_or_app. now right.
  - (* def *)
    destruct nm as [v|].
    + destruct (value_first_ident v) as [j|] eqn:Ej; [|injection H as <- <-; constructor].
      destruct (sp_record_body g _ parents body _) as [[eb c2]|] eqn:Eb; [|discriminate]. injection H as <- <-.
      constructor.
      * apply (ev_ok_ident files g j); [|reflexivity]. apply Hs. cbn [opt_parts]. apply in_or_app. left.
        now apply first_ident_part.
      * unfold sp_record_body in Eb. apply (items_ok _ _ _ _ _ _ _ Eb). intros k Hk. apply Hs.
        apply in_or_app. right. right. apply in_or_app. now right.
    + destruct (sp_record_body g _ parents body _) as [[eb c2]|] eqn:Eb; [|discriminate]. injection H as <- <-.
      constructor; [intros f n0 lo hi Hk; discriminate|].
      unfold sp_record_body in Eb. apply (items_ok _ _ _ _ _ _ _ Eb). intros k Hk. apply Hs.
      cbn [opt_parts app]. right. apply in_or_app. now right.
  - (* defm *) destruct nm; injection H as <- <-; constructor.
  - (* defset *)
    destruct (ty_str (c_cls c) t); [|injection H as <- <-; constructor].
    destruct (svc_list files n g true body c) as [[e c1]|] eqn:Eb; [|discriminate]. injection H as <- <-.
    constructor; [apply (ev_ok_ident files g i); [apply Hs; apply in_or_app; right; now left|reflexivity]|].
    apply (HL _ _ _ _ _ _ Eb). apply Hsub. intros j Hj. apply Hs. apply in_or_app. right. now right.
  - injection H as <- <-. constructor.
  - injection H as <- <-. constructor.
  - (* foreach *)
    apply (HL _ _ _ _ _ _ H). apply Hsub. intros j Hj. apply Hs. right. apply in_or_app. now right.
  - (* if *)
    destruct (svc_list files n g d th c) as [[e1 c1]|] eqn:E1; [|discriminate].
    assert (Forall (ev_ok files) e1) as F1.
    { apply (HL _ _ _ _ _ _ E1). apply Hsub. intros j Hj. apply Hs. apply in_or_app. right. apply in_or_app. now left. }
    destruct el as [el|]; [|injection H as <- <-; exact F1].
    destruct (svc_list files n g d el c1) as [[e2 c2]|] eqn:E2; [|discriminate]. injection H as <- <-.
    apply Forall_app. split; [exact F1|]. apply (HL _ _ _ _ _ _ E2). apply Hsub. intros j Hj. apply Hs.
    apply in_or_app. right. apply in_or_app. now right.
  - (* let *)
    apply (HL _ _ _ _ _ _ H). apply Hsub. intros j Hj. apply Hs. apply in_or_app. now right.
  - (* multiclass *)
    destruct (svc_list files n g d body c) as [[e c1]|] eqn:Eb; [|discriminate]. injection H as <- <-.
    constructor; [apply (ev_ok_ident files g i); [apply Hs; now left|reflexivity]|].
    apply Forall_app. split.
    + apply targs_ok. intros j Hj. apply Hs. right. apply in_or_app. now left.
    + apply (HL _ _ _ _ _ _ Eb). apply Hsub. intros j Hj. apply Hs. right. apply in_or_app. right. apply in_or_app. now right.
Qed.

Theorem oix_children_idents : forall w, Forall (ev_ok (ws_files w)) (ops_cevs (oix_ops w)).
Proof.
  intros w. destruct (oix_children w (oix_total w)) as (ev & c' & Hv & ->). unfold visitc_ws in Hv.
  destruct (ws_files w) as [|root rest] eqn:Ef; [injection Hv as <- <-; constructor|].
  revert Hv. generalize (ws_fuel w) as n, c0 as c. intros n.
  assert (forall b c ev c', svc_list (root :: rest) n 0 false b c = Some (ev, c') ->
            (forall y i, In y b -> In (PI i) (stmt_parts y) -> src (root :: rest) 0 i) -> Forall (ev_ok (root :: rest)) ev) as HL.
  { induction b as [|y r IHb]; intros c ev0 c0' H0 Hs0; cbn [svc_list] in H0.
    - injection H0 as <- <-. constructor.
    - destruct (svc (root :: rest) n 0 false y c) as [[e1 c1]|] eqn:E1; [|discriminate].
      destruct (svc_list (root :: rest) n 0 false r c1) as [[e2 c2]|] eqn:E2; [|discriminate]. injection H0 as <- <-.
      apply Forall_app. split.
      + apply (svc_ok _ _ _ _ _ _ _ _ E1). intros i Hi. apply (Hs0 y i); [now left|exact Hi].
      + apply (IHb c1 e2 c2 E2). intros y' i Hy' Hi. apply (Hs0 y' i); [now right|exact Hi]. }
  intros c Hv. apply (HL root c ev c' Hv). intros y i Hy Hi. now apply (src_of_body (root :: rest) 0 root y i).
Qed.

(** ... and from the texts: with the pipeline's well-formedness, the name stands in the text of that file at that range *)
Theorem outline_children_in_text : forall pfuel cfuel files root a w,
  analyze pfuel cfuel files root = Some a -> an_core a = Ok w ->
  forall e f n lo hi, In e (ops_cevs (oix_ops w)) -> ev_key e = Some (f, n, lo, hi) ->
  exists txt, nth_error (map (fun fp => pf_text (snd fp)) (an_files a)) (N.to_nat f) = Some txt /\ name_at txt n lo hi.
Proof.
  intros pfuel cfuel files root a w A E e f n lo hi He Hk.
  pose proof (oix_children_idents w) as Hall. rewrite Forall_forall in Hall.
  destruct (Hall e He f n lo hi Hk) as (i & (body & Nb & Hi) & -> & -> & ->).
  destruct (analyze_wf pfuel cfuel files root a w A E) as (Hlen & Hfiles).
  set (texts := map (fun fp => pf_text (snd fp)) (an_files a)) in *.
  destruct (nth_error texts (N.to_nat f)) as [txt|] eqn:Nt.
  - exists txt. split; [reflexivity|]. destruct (Hfiles _ _ _ Nb Nt) as (_ & Hids & _).
    rewrite Forall_forall in Hids. destruct (Hids i Hi) as (_ & pre & suf & H1 & H2 & H3). exists pre, suf. auto.
  - apply nth_error_None in Nt. assert (N.to_nat f < List.length (ws_files w))%nat by (apply nth_error_Some; congruence). lia.
Qed.

(** the same, spelled out per registration kind (the form pinned in props/C18.v) *)
Corollary outline_children_in_text' : forall pfuel cfuel files root a w,
  analyze pfuel cfuel files root = Some a -> an_core a = Ok w ->
  let texts := map (fun fp => pf_text (snd fp)) (an_files a) in
  let at_ := fun (f : N) (n : SymbolMap.name) (lo hi : N) =>
    exists txt, nth_error texts (N.to_nat f) = Some txt /\ exists pre suf, txt = pre ++ n ++ suf /\ lo = bytes pre /\ hi = bytes pre + bytes n in
  forall e, In e (ops_cevs (oix_ops w)) ->
  match e with
  | CRec f _ n lo hi _ | CMc f n lo hi | CDefset f n _ lo hi | CTArg f n _ lo hi | CField f n _ lo hi => at_ f n lo hi
  | CAnon _ _ _ _ => True
  end.
Proof.
  intros pfuel cfuel files root a w A E texts at_ e He.
  pose proof (fun f n lo hi => outline_children_in_text pfuel cfuel files root a w A E e f n lo hi He) as H.
  destruct e; cbn [ev_key] in H; try exact I; exact (H _ _ _ _ eq_refl).
Qed.
