(** The ops emitted by the outline-relevant slice of the indexer (OutlineIndex.v) replay, in the symbol-map state
    machine, to exactly the state the slice computed: for every workspace (AST), unless a modelled panic occurred. *)
From Coq Require Import List NArith Bool.
From TG.Model Require Import Chars CoreAst SymbolMap Outline OutlineIndex.
From TG.Proofs Require Import OutlineProofs.
Import ListNotations.
Open Scope N_scope.

Lemma run_ops_from_app : forall a b S,
  run_ops_from S (a ++ b) = sbind (run_ops_from S a) (fun S' => run_ops_from S' b).
Proof.
  induction a as [|o a IH]; intros b S; cbn [app run_ops_from]; [reflexivity|].
  destruct (apply_op S o) as [S1|e]; cbn [sbind]; [apply IH|reflexivity].
Qed.

Definition ok_state (s : ostate) : Prop :=
  oi_bad s = false -> run_ops (rev (oi_ops s)) = SOk (oi_sm s).

Lemma ok_o0 : ok_state o0.
Proof. intros _. reflexivity. Qed.

Lemma ok_emit : forall o s, ok_state s -> ok_state (emit o s).
Proof.
  intros o s H. unfold emit. destruct (oi_bad s) eqn:B; [exact H|].
  destruct (apply_op (oi_sm s) o) as [sm'|e] eqn:E.
  - intros _. cbn [set_sm_ops oi_ops oi_sm rev]. unfold ok_state, run_ops in *. rewrite run_ops_from_app, (H B).
    cbn [sbind run_ops_from]. now rewrite E.
  - intros Hb. cbn in Hb. discriminate.
Qed.

Lemma ok_same : forall s s', oi_sm s' = oi_sm s -> oi_ops s' = oi_ops s -> oi_bad s' = oi_bad s ->
  ok_state s -> ok_state s'.
Proof. intros s s' H1 H2 H3 H. unfold ok_state in *. rewrite H1, H2, H3. exact H. Qed.

Lemma ok_set_bad : forall s, ok_state (set_bad s).
Proof. intros s Hb. cbn in Hb. discriminate. Qed.

Lemma ok_set_files : forall s a b, ok_state s -> ok_state (set_files s a b).
Proof. intros. eapply ok_same; [| | |eassumption]; reflexivity. Qed.
Lemma ok_set_scopes : forall s a, ok_state s -> ok_state (set_scopes s a).
Proof. intros. eapply ok_same; [| | |eassumption]; reflexivity. Qed.
Lemma ok_set_anon : forall s a, ok_state s -> ok_state (set_anon s a).
Proof. intros. eapply ok_same; [| | |eassumption]; reflexivity. Qed.
Lemma ok_push : forall k s, ok_state s -> ok_state (push_scope k s).
Proof. intros. now apply ok_set_scopes. Qed.
Lemma ok_pop : forall s, ok_state s -> ok_state (pop_scope s).
Proof. intros. now apply ok_set_scopes. Qed.

Lemma ok_fold : forall (A : Type) (f : A -> ostate -> ostate) (l : list A),
  (forall a s, ok_state s -> ok_state (f a s)) ->
  forall s, ok_state s -> ok_state (fold_left (fun st a => f a st) l s).
Proof. intros A f l Hf. induction l as [|a l IH]; intros s Hs; cbn [fold_left]; auto. Qed.

Global Hint Resolve ok_emit ok_set_bad ok_set_files ok_set_scopes ok_set_anon ok_push ok_pop : okst.

Lemma ok_index_targ : forall a s, ok_state s -> ok_state (index_targ a s).
Proof.
  intros [t i d] s H. unfold index_targ. destruct (ty_string (oi_sm s) t); [|exact H].
  destruct (first_record _); [auto with okst|]. destruct (first_multiclass _); auto with okst.
Qed.

Lemma ok_index_parent : forall rid c s, ok_state s -> ok_state (index_parent rid c s).
Proof.
  intros rid [i a r] s H. unfold index_parent. destruct (find_class (oi_sm s) (i_name i)); [|exact H].
  destruct (_ =? rid); auto with okst.
Qed.

Lemma ok_index_item : forall rid it s, ok_state s -> ok_state (index_item rid it s).
Proof.
  intros rid it s H. destruct it; cbn [index_item]; try exact H.
  - destruct (ty_string (oi_sm s) t); auto with okst.
  - destruct (find_field _ _ _ _) as [[f0|]|e]; auto with okst.
    destruct (get_entry _ _); auto with okst.
Qed.

Lemma ok_index_record_body : forall rid ps b s, ok_state s -> ok_state (index_record_body rid ps b s).
Proof.
  intros rid ps b s H. unfold index_record_body.
  apply (ok_fold _ (fun it st => index_item rid it st)); [intros; now apply ok_index_item|].
  apply (ok_fold _ (fun c st => index_parent rid c st)); [intros; now apply ok_index_parent|exact H].
Qed.

Lemma ok_index_stmt : forall files fuel x s, ok_state s -> ok_state (index_stmt files fuel x s).
Proof.
  intros files. induction fuel as [|n IH]; intros x s H; cbn [index_stmt]; [apply ok_set_bad|].
  assert (forall b st, ok_state st -> ok_state (fold_left (fun a y => index_stmt files n y a) b st)) as Hst.
  { intros b st Hs. apply (ok_fold _ (fun y a => index_stmt files n y a)); [intros; now apply IH|exact Hs]. }
  destruct x.
  - (* include *) destruct target as [f|]; [|exact H]. destruct (existsb _ _); [exact H|].
    destruct (nth_error files (N.to_nat f)) as [body|]; [|auto with okst].
    apply ok_set_files, Hst, ok_set_files, H.
  - exact H.
  - (* class *)
    apply ok_pop, ok_index_record_body. destruct targs as [l|].
    + apply (ok_fold _ (fun a st => index_targ a st)); [intros; now apply ok_index_targ|auto with okst].
    + auto with okst.
  - (* def *)
    destruct nm as [v|].
    + destruct (value_first_ident v); [|exact H].
      apply ok_pop, ok_index_record_body, ok_push. destruct (first_defset _); auto with okst.
    + apply ok_pop, ok_index_record_body, ok_push. destruct (first_defset _); auto with okst.
  - (* defm *) destruct nm; auto with okst.
  - (* defset *) destruct (ty_string _ _); [|exact H]. apply ok_pop, Hst. auto with okst.
  - exact H.
  - exact H.
  - (* foreach *) apply ok_pop, Hst. auto with okst.
  - (* if *)
    assert (ok_state (pop_scope (fold_left (fun a y => index_stmt files n y a) th (push_scope OBlock s)))) as H1.
    { apply ok_pop, Hst. auto with okst. }
    destruct el; [|exact H1]. apply ok_pop, Hst. auto with okst.
  - (* let *) apply ok_pop, Hst. auto with okst.
  - (* multiclass *)
    apply ok_pop, Hst. destruct targs as [l|].
    + apply (ok_fold _ (fun a st => index_targ a st)); [intros; now apply ok_index_targ|auto with okst].
    + auto with okst.
Qed.

(** for every workspace: the emitted op sequence replays to the state the slice computed *)
Theorem oix_replays : forall w, oi_bad (oix w) = false -> run_ops (oix_ops w) = SOk (oi_sm (oix w)).
Proof.
  intros w. unfold oix_ops, oix. destruct (ws_files w) as [|root rest]; [intros _; reflexivity|].
  apply (ok_fold _ (fun y a => index_stmt (root :: rest) (ws_fuel w) y a)); [intros; now apply ok_index_stmt|apply ok_o0].
Qed.

(** hence the theorems about all op sequences apply to the outline of every program: its per-file symbol list is the
    list of the slice's global add-ops of that file, in emission (= indexing) order *)
Corollary oix_file_list : forall w f, oi_bad (oix w) = false ->
  iter_symbols_in_file (oi_sm (oix w)) f = match globals_in f (oix_ops w) with [] => None | l => Some l end.
Proof. intros w f H. apply outline_file_list. now apply oix_replays. Qed.
