(** ScopeSimWsT: ScopeSimWs.v over the typed development: C05_resolution for a workspace with field access. *)
From Coq Require Import List NArith Bool Lia Arith.
From TG.Model Require Import CoreAst Scope BangOps Indexer .
From TG.Model Require Import ScopeSpecT.
From TG.Proofs Require Import ScopeBalance ScopeFrame GenericResp.
From TG.Proofs Require Import ScopeSimT ScopeSimStmtT ScopeSimRecT.
Import ListNotations.
Open Scope N_scope.

(** ---- statements of the fragment leave the file trace and the set of indexed files alone *)
Definition FI (s s' : st) : Prop := s_trace s' = s_trace s /\ s_indexed s' = s_indexed s.
Lemma FI_refl : forall s, FI s s. Proof. intros; split; reflexivity. Qed.
Lemma FI_trans : forall a b c, FI a b -> FI b c -> FI a c.
Proof. intros a b c [A1 A2] [B1 B2]. split; congruence. Qed.

Ltac fi_prim :=
  intros; let s := fresh "s" in intros s;
  unfold add_reference, scopes_add_variable, add_leaf, add_leaf_nopos, add_defset, add_record, add_anonymous_def,
    add_multiclass, record_mut, multiclass_mut, next_anonymous, bind, upd, bad, error, push_scope, pop_scope, add_pos;
  simpl;
  repeat match goal with |- context [match ?x with _ => _ end] => destruct x end; simpl; split; reflexivity.

Lemma FI_stmt : forall files n x, noinc x = true -> resp FI (index_stmt files n x).
Proof. intros files n x. apply (r_index_stmt_noinc FI FI_refl FI_trans); fi_prim. Qed.

Lemma frag_noinc : forall x, frag_stmt x = true -> noinc x = true.
Proof.
  fix IH 1. intros x.
  destruct x as [r t|c m|i targs ps b|nm r ps b|nm r ps|t i b|i v|v|i init b|c th el|vs b|i targs ps b];
    simpl; intros H; try reflexivity; try discriminate.
  - (* defset *) revert H. induction b as [|y r IHl]; simpl; intros H; [reflexivity|].
    apply andb_true_iff in H. destruct H as [A B]. rewrite (IH y A). simpl. apply IHl. exact B.
  - (* foreach *) apply andb_true_iff in H. destruct H as [_ H].
    revert H. induction b as [|y r IHl]; simpl; intros H; [reflexivity|].
    apply andb_true_iff in H. destruct H as [A B]. rewrite (IH y A). simpl. apply IHl. exact B.
  - (* if *) apply andb_true_iff in H. destruct H as [H He]. apply andb_true_iff in H. destruct H as [_ Ht].
    apply andb_true_iff. split.
    + revert Ht. induction th as [|y r IHl]; simpl; intros H; [reflexivity|].
      apply andb_true_iff in H. destruct H as [A B]. rewrite (IH y A). simpl. apply IHl. exact B.
    + destruct el as [b|]; [|reflexivity].
      revert He. induction b as [|y r IHl]; simpl; intros H; [reflexivity|].
      apply andb_true_iff in H. destruct H as [A B]. rewrite (IH y A). simpl. apply IHl. exact B.
  - (* let *) apply andb_true_iff in H. destruct H as [_ H].
    revert H. induction b as [|y r IHl]; simpl; intros H; [reflexivity|].
    apply andb_true_iff in H. destruct H as [A B]. rewrite (IH y A). simpl. apply IHl. exact B.
  - (* multiclass *) apply andb_true_iff in H. destruct H as [_ H].
    revert H. induction b as [|y r IHl]; simpl; intros H; [reflexivity|].
    apply andb_true_iff in H. destruct H as [A B]. rewrite (IH y A). simpl. apply IHl. exact B.
Qed.

(** ---- the relations do not look at the file trace / the indexed files, except for the current file *)
Lemma Pre2_files : forall f g e s tr ix,
    Pre2 f e s -> Pre2 g e (set_files (g :: tr) ix s).
Proof.
  intros f g e s tr ix [F L1 L2 D1 D2 S1 S2 C1 C2 M1 M2 TLx]. split; try assumption. reflexivity.
Qed.
Lemma Stat_files : forall s tr ix, Stat s -> Stat (set_files tr ix s).
Proof. intros s tr ix [A B C]. split; assumption. Qed.
Lemma Inh_files : forall o e s tr ix, Inh o e s -> Inh o e (set_files tr ix s).
Proof. intros o e s tr ix H. exact H. Qed.

Lemma spec_flat_app : forall a b e,
    spec_flat e (a ++ b)
    = let '(ev1, e1) := spec_flat e a in let '(ev2, e2) := spec_flat e1 b in (ev1 ++ ev2, e2).
Proof.
  induction a as [|[f x] r IH]; intros b e; simpl.
  - destruct (spec_flat e b); reflexivity.
  - destruct (spec_stmt f e x) as [ev1 e1]. rewrite IH.
    destruct (spec_flat e1 r) as [ev2 e2]. destruct (spec_flat e2 b) as [ev3 e3]. now rewrite app_assoc.
Qed.

Lemma ResB_refl : forall f e s, Pre2 f e s -> Stat s -> e_frames e <> [] -> Inh None e s -> ResB f s s [] e.
Proof. intros. apply ResB_of_Step; auto. apply Step_refl. Qed.

Lemma include_eq : forall files n r g s,
    index_stmt files (S n) (SInclude r (Some g)) s
    = if existsb (N.eqb g) (s_indexed s) then (None, s)
      else let s1 := set_files (s_trace s) (g :: s_indexed s) s in
           match nthN files g with
           | None => (None, s1)
           | Some body => pop_file (snd (iterM (index_stmt files n) body (set_files (g :: s_trace s) (g :: s_indexed s) s1)))
           end.
Proof.
  intros files n r g s. simpl. unfold bind at 1. unfold state, get. cbn [fst snd].
  destruct (existsb (N.eqb g) (s_indexed s)); [reflexivity|].
  unfold seq at 1. unfold upd at 1. cbn [fst snd]. unfold bind at 1. unfold lift at 1.
  destruct (nthN files g) as [body|]; [|reflexivity].
  unfold seq at 1. unfold push_file, upd. cbn [fst snd]. unfold seq. reflexivity.
Qed.

Lemma iterM_cons : forall A (f : A -> M unit) x r s, snd (iterM f (x :: r) s) = snd (iterM f r (snd (f x s))).
Proof. reflexivity. Qed.

Lemma nf_files : forall tr ix s, nf (set_files tr ix s) = nf s. Proof. reflexivity. Qed.

(** a statement of the fragment (not an include) at the top level of a file *)
Lemma top_stmt_sim : forall files k x f e s,
    frag_stmt x = true -> Pre2 f e s -> Stat s -> e_frames e <> [] -> Inh None e s ->
    forallb resolved (fst (spec_stmt f e x)) = true ->
    s_bad (snd (index_stmt files k x s)) = false ->
    ResB f s (snd (index_stmt files k x s)) (fst (spec_stmt f e x)) (snd (spec_stmt f e x)) /\
    FI s (snd (index_stmt files k x s)).
Proof.
  intros files k x f e s Hf P T He HI HR Hb. split.
  - apply (statements_agree files k); assumption.
  - apply FI_stmt. now apply frag_noinc.
Qed.

#[local] Arguments index_stmt : simpl never.
Lemma spec_flat_cons : forall e f x r,
    spec_flat e ((f, x) :: r)
    = let '(ev1, e1) := spec_stmt f e x in let '(ev2, e2) := spec_flat e1 r in (ev1 ++ ev2, e2).
Proof. reflexivity. Qed.

Section FileSim.
  Variable files : list (list stmt).

  Definition file_sim_at (k : nat) : Prop := forall l f e s,
      forallb (fun p => frag_stmt (snd p)) (fst (flat_file files k f (s_indexed s) l)) = true ->
      Pre2 f e s -> Stat s -> e_frames e <> [] -> Inh None e s ->
      forallb resolved (fst (spec_flat e (fst (flat_file files k f (s_indexed s) l)))) = true ->
      s_bad (snd (iterM (index_stmt files k) l s)) = false ->
      ResB f s (snd (iterM (index_stmt files k) l s))
           (fst (spec_flat e (fst (flat_file files k f (s_indexed s) l))))
           (snd (spec_flat e (fst (flat_file files k f (s_indexed s) l)))) /\
      s_trace (snd (iterM (index_stmt files k) l s)) = s_trace s /\
      s_indexed (snd (iterM (index_stmt files k) l s)) = snd (flat_file files k f (s_indexed s) l).

  Lemma file_sim_0 : file_sim_at 0.
  Proof.
    intros l f e s Hf P T He HI HR Hb. destruct l as [|x r].
    - simpl. split; [now apply ResB_refl|split; reflexivity].
    - exfalso. rewrite iterM_cons in Hb.
      assert (X : s_bad (snd (index_stmt files 0 x s)) = true) by reflexivity.
      pose proof (BM_stmts files 0 r _ X) as Y. congruence.
  Qed.

  Lemma flat_other : forall k f ix x r,
      match x with SInclude _ _ => false | _ => true end = true ->
      flat_file files (S k) f ix (x :: r)
      = let '(b, ix2) := flat_file files (S k) f ix r in ((f, x) :: b, ix2).
  Proof. intros k f ix x r H. destruct x; try discriminate; reflexivity. Qed.
  Lemma flat_inc_none : forall k f ix rr r,
      flat_file files (S k) f ix (SInclude rr None :: r) = flat_file files (S k) f ix r.
  Proof. reflexivity. Qed.
  Lemma flat_inc_some : forall k f ix rr g r,
      flat_file files (S k) f ix (SInclude rr (Some g) :: r)
      = if existsb (N.eqb g) ix then flat_file files (S k) f ix r
        else let '(a, ix1) := flat_file files k g (g :: ix) (file_body files g) in
             let '(b, ix2) := flat_file files (S k) f ix1 r in (a ++ b, ix2).
  Proof. reflexivity. Qed.

  Lemma file_sim_S : forall k, file_sim_at k -> file_sim_at (S k).
  Proof.
    intros k IHk l. induction l as [|x r IHl]; intros f e s Hf P T He HI HR Hb.
    - simpl. split; [now apply ResB_refl|split; reflexivity].
    - rewrite iterM_cons in *.
      assert (Hb1 : s_bad (snd (index_stmt files (S k) x s)) = false)
        by (eapply (bad_false_before _ (iterM (index_stmt files (S k)) r)); [apply BM_stmts|exact Hb]).
      assert (Hother : match x with SInclude _ _ => false | _ => true end = true ->
                ResB f s (snd (iterM (index_stmt files (S k)) r (snd (index_stmt files (S k) x s))))
                     (fst (spec_flat e (fst (flat_file files (S k) f (s_indexed s) (x :: r)))))
                     (snd (spec_flat e (fst (flat_file files (S k) f (s_indexed s) (x :: r))))) /\
                s_trace (snd (iterM (index_stmt files (S k)) r (snd (index_stmt files (S k) x s)))) = s_trace s /\
                s_indexed (snd (iterM (index_stmt files (S k)) r (snd (index_stmt files (S k) x s))))
                = snd (flat_file files (S k) f (s_indexed s) (x :: r))).
      { intros Hx. rewrite (flat_other k f (s_indexed s) x r Hx) in *.
        destruct (flat_file files (S k) f (s_indexed s) r) as [b ix2] eqn:Er. cbn [fst snd] in *.
        simpl in Hf. apply andb_true_iff in Hf. destruct Hf as [Hfx Hfr].
        rewrite spec_flat_cons in *. destruct (spec_stmt f e x) as [ev1 e1] eqn:E1. destruct (spec_flat e1 b) as [ev2 e2] eqn:E2.
        cbn [fst snd] in *. rewrite forallb_app in HR. apply andb_true_iff in HR. destruct HR as [HR1 HR2].
        destruct (top_stmt_sim files (S k) x f e s Hfx P T He HI) as [R1 [Ft Fi]];
          [rewrite E1; exact HR1|exact Hb1|]. rewrite E1 in R1. cbn [fst snd] in R1.
        pose proof R1 as [_ _ _ P1 T1 F1 I1].
        pose proof (IHl f e1 (snd (index_stmt files (S k) x s))) as R2. rewrite Fi, Er in R2. cbn [fst snd] in R2.
        rewrite E2 in R2. cbn [fst snd] in R2.
        destruct (R2 Hfr P1 T1 F1 I1 HR2 Hb) as [R3 [Ft3 Fi3]].
        split; [eapply ResB_trans; eassumption|]. split; [rewrite Ft3; exact Ft|exact Fi3]. }
      destruct x as [rr tg| | | | | | | | | | | ]; try (apply Hother; reflexivity). clear Hother.
      destruct tg as [g|].
      + (* include of file g *)
        rewrite flat_inc_some in *. rewrite include_eq in *.
        destruct (existsb (N.eqb g) (s_indexed s)) eqn:Ex.
        * (* read before *) cbn [snd] in *. apply IHl; assumption.
        * (* first time *)
          assert (Hix : s_indexed s = s_indexed s) by reflexivity.
          destruct (flat_file files k g (g :: s_indexed s) (file_body files g)) as [a ix1] eqn:Ea.
          destruct (flat_file files (S k) f ix1 r) as [b ix2] eqn:Er. cbn [fst snd] in Hf, HR |- *.
          rewrite forallb_app in Hf. apply andb_true_iff in Hf. destruct Hf as [Hfa Hfb].
          rewrite spec_flat_app in HR |- *.
          destruct (spec_flat e a) as [ev1 e1] eqn:E1. destruct (spec_flat e1 b) as [ev2 e2] eqn:E2.
          cbn [fst snd] in HR |- *. rewrite forallb_app in HR. apply andb_true_iff in HR. destruct HR as [HR1 HR2].
          set (s1 := set_files (s_trace s) (g :: s_indexed s) s) in *. cbv zeta in Hb |- *.
          assert (P1 : Pre2 f e s1) by (destruct P; split; assumption).
          unfold file_body in Ea. change (nth_error files (N.to_nat g)) with (nthN files g) in Ea.
          destruct (nthN files g) as [body|] eqn:Eb.
          -- (* the file *)
             set (s2 := set_files (g :: s_trace s) (g :: s_indexed s) s1) in *.
             set (s3 := snd (iterM (index_stmt files k) body s2)) in *.
             assert (Hb4 : s_bad (snd (pop_file s3)) = false)
               by (eapply (bad_false_before _ (iterM (index_stmt files (S k)) r)); [apply BM_stmts|exact Hb]).
             assert (Hb3 : s_bad s3 = false).
             { destruct (s_bad s3) eqn:E; [|reflexivity]. unfold pop_file in Hb4.
               destruct (s_trace s3); simpl in Hb4; congruence. }
             assert (Q1 : forallb (fun p => frag_stmt (snd p)) (fst (flat_file files k g (s_indexed s2) body)) = true).
             { change (s_indexed s2) with (g :: s_indexed s). rewrite Ea. exact Hfa. }
             assert (Q2 : Pre2 g e s2) by (now apply (Pre2_files f)).
             assert (Q3 : Stat s2) by (do 2 apply Stat_files; exact T).
             assert (Q4 : forallb resolved (fst (spec_flat e (fst (flat_file files k g (s_indexed s2) body)))) = true).
             { change (s_indexed s2) with (g :: s_indexed s). rewrite Ea. cbn [fst]. rewrite E1. exact HR1. }
             destruct (IHk body g e s2 Q1 Q2 Q3 He HI Q4 Hb3) as [Ra [Fta Fia]].
             change (s_indexed s2) with (g :: s_indexed s) in Ra, Fia. rewrite Ea in Ra, Fia. cbn [fst snd] in Ra, Fia.
             rewrite E1 in Ra. cbn [fst snd] in Ra. fold s3 in Ra, Fta, Fia.
             change (s_trace s2) with (g :: s_trace s) in Fta.
             assert (Ep : pop_file s3 = (Some tt, set_files (s_trace s) (s_indexed s3) s3))
               by (unfold pop_file; now rewrite Fta).
             rewrite Ep in Hb |- *. cbn [snd] in Hb |- *.
             set (s4 := set_files (s_trace s) (s_indexed s3) s3) in *.
             destruct Ra as [Ua Na [vs Sa] [Fa L1 L2 D1 D2 S1 S2 C1 C2 M1 M2 TLx] Ta Fra Ia].
             assert (R1 : ResB f s s4 ev1 e1).
             { split; auto.
               - exists vs. exact Sa.
               - split; try assumption. exact (p2_file f e s P).
               - now apply Stat_files. }
             pose proof R1 as [_ _ _ P4 T4 F4 I4].
             pose proof (IHl f e1 s4) as R2. change (s_indexed s4) with (s_indexed s3) in R2.
             rewrite Fia, Er in R2. cbn [fst snd] in R2. rewrite E2 in R2. cbn [fst snd] in R2.
             destruct (R2 Hfb P4 T4 F4 I4 HR2 Hb) as [R3 [Ft3 Fi3]].
             split; [eapply ResB_trans; eassumption|]. split; [rewrite Ft3; reflexivity|exact Fi3].
          -- (* no such file: marked, nothing read *)
             assert (Ea' : a = [] /\ ix1 = g :: s_indexed s).
             { destruct k; simpl in Ea; injection Ea as <- <-; split; reflexivity. }
             destruct Ea' as [-> ->]. simpl in E1. injection E1 as <- <-. cbn [snd] in Hb |- *.
             assert (R1 : ResB f s s1 [] e).
             { destruct T as [A B C]. split; auto.
               - exists []. now rewrite add_vars_nil.
               - split; assumption. }
             pose proof (IHl f e s1) as R2. change (s_indexed s1) with (g :: s_indexed s) in R2.
             rewrite Er in R2. cbn [fst snd] in R2. rewrite E2 in R2. cbn [fst snd] in R2.
             destruct (R2 Hfb P1 (Stat_files s _ _ T) He HI HR2 Hb) as [R3 [Ft3 Fi3]].
             split; [exact (ResB_trans _ _ _ _ _ _ _ _ R1 R3)|]. split; [rewrite Ft3; reflexivity|exact Fi3].
      + (* include of a file that does not exist: reported *)
        rewrite flat_inc_none in *.
        change (snd (index_stmt files (S k) (SInclude rr None) s)) with (snd (err rr DIncludeNotFound s)) in *.
        pose proof (Step_err s rr DIncludeNotFound eq_refl) as S1.
        set (s1 := snd (err rr DIncludeNotFound s)) in *.
        pose proof (ResB_of_Step f e s s1 _ S1 P T He HI) as R1. pose proof R1 as [_ _ _ P1 T1 F1 I1].
        pose proof (IHl f e s1) as R2. change (s_indexed s1) with (s_indexed s) in R2.
        destruct (R2 Hf P1 T1 F1 I1 HR Hb) as [R3 [Ft3 Fi3]].
        split; [exact (ResB_trans _ _ _ _ _ _ _ _ R1 R3)|]. split; [rewrite Ft3; reflexivity|exact Fi3].
  Qed.
End FileSim.

Theorem files_agree : forall files k, file_sim_at files k.
Proof. intros files k. induction k as [|k IH]; [apply file_sim_0|now apply file_sim_S]. Qed.

(** C05_resolution for a workspace of the fragment (all statements, parent classes, includes at the top level of
    the files; no field access): the model's log of resolved uses is exactly the specification's list *)
Theorem workspace_resolution_fuel : forall files n root,
    forallb (fun p => frag_stmt (snd p)) (fst (flat_file files n 0 [0] root)) = true ->
    forallb resolved (fst (spec_flat env0 (fst (flat_file files n 0 [0] root)))) = true ->
    s_bad (snd (iterM (index_stmt files n) root st0)) = false ->
    rev (s_uses (snd (iterM (index_stmt files n) root st0))) = fst (spec_flat env0 (fst (flat_file files n 0 [0] root))) /\
    nf (snd (iterM (index_stmt files n) root st0)) = [].
Proof.
  intros files n root Hf HR Hb.
  assert (T0 : Stat st0).
  { split; [reflexivity| |discriminate]. intros c mid [<-|[]] Hk. discriminate. }
  destruct (files_agree files n root 0 env0 st0 Hf Pre2_initial T0) as [[U N _ _ _ _ _] _]; auto;
    try discriminate; try apply Inh_initial.
  split.
  - rewrite U. simpl. rewrite app_nil_r. apply rev_involutive.
  - rewrite N. reflexivity.
Qed.

Theorem workspace_resolution : forall w,
    frag_ws w = true -> well_scoped w = true -> s_bad (index_ws w) = false ->
    rev (s_uses (index_ws w)) = spec_uses w /\ nf (index_ws w) = [].
Proof.
  intros w Hf HR Hb. unfold frag_ws, well_scoped, spec_uses, ws_flat, index_ws in *.
  destruct (ws_files w) as [|root rest] eqn:E; [split; reflexivity|].
  rewrite <- E in *. now apply workspace_resolution_fuel.
Qed.
