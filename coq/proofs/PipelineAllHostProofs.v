(** C07 for the COMPLETE modelled analysis (b-bridge's PipelineAll: the nine queries): after any history,
    everything the nine queries read ([aa_obs]) computed from the post-history host state equals what
    [analyze_all] computes from scratch over the final contents. *)
From Coq Require Import List NArith Bool Lia Arith String.
Close Scope string_scope.
From TG.Gen Require Import GenTokens GenAst GenGrammar GenCompletion.
From TG.Model Require Import Chars Lexer Prep Tree ParserPrims GInterp AstAccess Includes Host CoreAst AstToCore Scope Indexer
     Pipeline PipelineHost PipelineAll PipelineAllHost.
From TG.Model Require SymbolMap OutlineIndex Outline DocComments Folding Completion HandlerCompApi.
From TG.Proofs Require Import IncludesGraph IncludesRefine HostIndex IncludesLinks HostHistory HostTheorems
     HostFrame HostAscending PipelineHostFresh PipelineHostFrame.
Import ListNotations.
Local Open Scope nat_scope.

Definition links_of_view (V : list (@entry fpath text)) : list (list (N * N * N)) :=
  map (fun e : @entry fpath text =>
         plinks_for (map e_path (rev V)) (plinks_of (e_links e) (c_items (e_content e)))) (rev V).

Lemma links_from_state_view : forall (fs : @fsys fpath text) db fset root V,
  wf_fs fs -> sroot db = Some (fset, root) -> Forall2 (erel fs db) fset V ->
  links_from_state (fs, db) = Some (links_of_view V).
Proof.
  intros fs db fset root V W S F. unfold links_from_state. rewrite S. f_equal. unfold links_of_view.
  set (dl := fun f : N => match document_link db f with Done l => l | _ => [] end).
  pose proof (Forall2_rev _ _ _ _ _ F) as F'. rewrite <- map_rev.
  assert (Hids : Forall2 (fun f q => path_for_file fs f = Some q) (map fst (rev fset)) (map e_path (rev V))).
  { clear - F'. induction F' as [|x e X Wl [A [B _]] _ IH]; cbn [map]; constructor; [|exact IH].
    rewrite <- A. exact B. }
  assert (G : forall ids paths, Forall2 (fun f q => path_for_file fs f = Some q) ids paths ->
                forall X Wl, Forall2 (erel fs db) X Wl ->
                map (links_for ids dl) (map fst X) =
                map (fun e : @entry fpath text => plinks_for paths (plinks_of (e_links e) (c_items (e_content e)))) Wl).
  { intros ids paths Hi X Wl H. induction H as [|x e X Wl [Ex [Bx [Cx [lid [Dx Lx]]]]] _ IH]; [reflexivity|].
    cbn [map]. rewrite IH. f_equal.
    apply (links_for_rel fs W ids paths dl (fst x) (links_of lid (c_items (e_content e)))); [exact Hi| |].
    - unfold dl, document_link. rewrite Dx, Cx. reflexivity.
    - apply links_rel. exact Lx. }
  exact (G _ _ Hids _ _ F').
Qed.

(** [analyze_links] from the fresh state *)
Theorem analyze_links_is_from_state : forall pfuel cfuel files root,
  analyze_links pfuel cfuel files root =
  let dfs := disk_files_of pfuel files in
  let rootp := components root in
  let rc := match assoc rootp dfs with
            | Some c => c
            | None => {| c_tag := N.of_nat (List.length files); c_items := [] |}
            end in
  match touch cfuel (world_of dfs) st_init rootp rc with
  | Done st => links_from_state st
  | _ => None
  end.
Proof.
  intros pfuel cfuel files root. unfold analyze_links. cbv zeta.
  change (map (fun pt => parse_file pfuel (components (fst pt)) (snd pt)) files) with (parsed_of pfuel files).
  change (map (fun tp => (pf_path (snd tp), content_of (fst tp) (snd tp))) (number_from 0 (parsed_of pfuel files)))
    with (disk_files_of pfuel files).
  change {| disk := fun p => assoc p (disk_files_of pfuel files); extra := [] |} with (world_of (disk_files_of pfuel files)).
  set (dfs := disk_files_of pfuel files). set (rootp := components root).
  set (rc := match assoc rootp dfs with Some c => c | None => _ end).
  destruct (touch cfuel (world_of dfs) st_init rootp rc) as [[fs2 db2]| |e] eqn:Et; try reflexivity.
  unfold links_from_state. destruct (sroot db2) as [[fset root']|] eqn:S; [|reflexivity].
  destruct (touch_fresh_ascending (world_of dfs) cfuel rootp rc fs2 db2 fset root' Et S) as [k Hk].
  rewrite (sort_walk_order _ k Hk). reflexivity.
Qed.

(** every session state: analysis and links are those of the view *)
Lemma state_obs_all : forall pfuel files (w : world fpath text) fuel h p c (st : @Host.state fpath text),
  run fuel w st_init (h ++ [(p, c)]) = Done st ->
  exists V a,
    pcollect (truth w (h ++ [(p, c)])) (extra w) fuel [p] [] = Done V /\
    analyze_from_state pfuel files st = Some a /\
    an_obs a = obs_of_view pfuel files (p, V) /\
    links_from_state st = Some (links_of_view V).
Proof.
  intros pfuel files w fuel h p c [fs db] E.
  destruct (state_obs pfuel files w fuel h p c (fs, db) E) as [V [a [HV [A1 A2]]]].
  destruct (session_frame w fuel h p c (fs, db) E) as [V' [fset [root [_ [HV' [S [_ [_ [W [F _]]]]]]]]]].
  assert (V' = V) by (eapply pcollect_det; eauto). subst V'. cbn [fst snd] in *.
  exists V, a. split; [exact HV|]. split; [exact A1|]. split; [exact A2|].
  eapply links_from_state_view; eauto.
Qed.

Lemma number_from_fst_len : forall (A B C : Type) (g : N -> C) (l1 : list A) (l2 : list B) k,
  List.length l1 = List.length l2 ->
  map (fun kp => g (fst kp)) (number_from k l1) = map (fun kp => g (fst kp)) (number_from k l2).
Proof.
  induction l1 as [|x r IH]; destruct l2 as [|y s]; intros k H; try discriminate; [reflexivity|].
  cbn [number_from map fst]. f_equal. apply IH. injection H as H. exact H.
Qed.

Theorem all_history_independent :
  forall pfuel cfuel1 cfuel2 (disk0 Ht : list (text * text)) (p t : text) (st1 : @Host.state fpath text) A,
  let final := rev (Ht ++ [(p, t)]) ++ disk0 in
  let dfs := disk_files_of pfuel final in
  let n := S (List.length Ht) in
  run cfuel1 (world_of (skipn n dfs)) st_init (rev (firstn n dfs)) = Done st1 ->
  analyze_all pfuel cfuel2 final p = Some A ->
  exists A1, all_from_state pfuel final st1 = Some A1 /\ aa_obs A1 = aa_obs A.
Proof.
  intros pfuel cfuel1 cfuel2 disk0 Ht p t st1 A final dfs n E1 E2.
  unfold analyze_all in E2.
  destruct (analyze pfuel cfuel2 final p) as [an|] eqn:Ean; [|discriminate].
  destruct (an_core an) as [ws| |] eqn:Ec; try discriminate.
  destruct (full_state (index_ws ws) (OutlineIndex.oix ws)) as [sm ok] eqn:Efs.
  injection E2 as <-.
  (* both sides through the view *)
  assert (Hfinal : final = (p, t) :: (rev Ht ++ disk0)) by (unfold final; rewrite rev_app_distr; reflexivity).
  destruct (disk_files_head pfuel p t (rev Ht ++ disk0)) as [c0 [dfs' Hd]].
  assert (Hdfs : dfs = (components p, c0) :: dfs') by (unfold dfs; rewrite Hfinal; exact Hd).
  set (rootp := components p) in *.
  assert (Hrc : assoc rootp dfs = Some c0).
  { rewrite Hdfs. cbn [assoc]. change (fpath_eqb rootp rootp) with (path_eqb rootp rootp).
    rewrite path_eqb_refl. reflexivity. }
  pose proof Ean as Ean'. rewrite analyze_is_from_state in Ean'. cbv zeta in Ean'.
  fold final in Ean'. fold dfs in Ean'. fold rootp in Ean'. rewrite Hrc in Ean'.
  pose proof (analyze_links_is_from_state pfuel cfuel2 final p) as El. cbv zeta in El.
  fold final in El. fold dfs in El. fold rootp in El. rewrite Hrc in El.
  destruct (touch cfuel2 (world_of dfs) st_init rootp c0) as [st2| |e] eqn:Et; try discriminate.
  assert (R2 : run cfuel2 (world_of dfs) st_init ([] ++ [(rootp, c0)]) = Done st2)
    by (cbn [app run]; rewrite Et; reflexivity).
  destruct (state_obs_all pfuel final _ _ _ _ _ _ R2) as [V2 [a2 [HV2 [A2 [O2 L2]]]]].
  rewrite A2 in Ean'. injection Ean' as ->.
  assert (Hn : firstn n dfs = (rootp, c0) :: firstn (List.length Ht) dfs') by (unfold n; rewrite Hdfs; reflexivity).
  rewrite Hn in E1. cbn [rev] in E1.
  destruct (state_obs_all pfuel final _ _ _ _ _ _ E1) as [V1 [a1 [HV1 [A1 [O1 L1]]]]].
  cbn [world_of extra app] in HV1, HV2.
  assert (Ext : forall q, truth (world_of (skipn n dfs)) (rev (firstn (List.length Ht) dfs') ++ [(rootp, c0)]) q =
                          truth (world_of dfs) [(rootp, c0)] q).
  { intro q. unfold truth, last_text. cbn [world_of disk].
    rewrite rev_app_distr, rev_involutive. cbn [rev app]. rewrite <- Hn.
    transitivity (assoc q dfs).
    - symmetry. rewrite <- (firstn_skipn n dfs) at 1. rewrite assoc_app. reflexivity.
    - rewrite Hdfs. cbn [assoc]. destruct (path_eqb rootp q); reflexivity. }
  rewrite (pcollect_ext _ _ Ext) in HV1.
  assert (V1 = V2) by (eapply pcollect_det; eauto). subst V2.
  assert (O : an_obs a1 = an_obs an) by congruence.
  unfold an_obs in O. injection O as Of Op Ocs Oc Os.
  unfold all_from_state. rewrite A1, Oc, Ec, Efs. eexists. split; [reflexivity|].
  unfold aa_obs. cbn [aa_ws aa_st aa_sm aa_sm_ok aa_trees aa_links aa_diags].
  rewrite L1, El, L2.
  replace (map (fun fp : N * pfile => pf_tree (snd fp)) (an_files a1))
    with (map (fun fp : N * pfile => pf_tree (snd fp)) (an_files an))
    by (rewrite <- !(map_map snd pf_tree), Of; reflexivity).
  replace (map (fun kp : N * (N * pfile) => diags_of_file a1 (index_ws ws) (fst kp)) (number_from 0 (an_files a1)))
    with (map (fun kp : N * (N * pfile) => diags_of_file an (index_ws ws) (fst kp)) (number_from 0 (an_files an))).
  - reflexivity.
  - assert (Hd' : forall k, diags_of_file an (index_ws ws) k = diags_of_file a1 (index_ws ws) k)
      by (intro k; unfold diags_of_file; rewrite Op; reflexivity).
    rewrite (map_ext _ _ (fun kp => Hd' (fst kp))).
    apply (number_from_fst_len _ _ _ (diags_of_file a1 (index_ws ws))).
    rewrite <- (map_length snd (an_files an)), <- (map_length snd (an_files a1)), Of. reflexivity.
Qed.

(** the nine queries answer the same *)
Corollary nine_queries_history_independent :
  forall pfuel cfuel1 cfuel2 (disk0 Ht : list (text * text)) (p t : text) (st1 : @Host.state fpath text) A,
  let final := rev (Ht ++ [(p, t)]) ++ disk0 in
  let dfs := disk_files_of pfuel final in
  let n := S (List.length Ht) in
  run cfuel1 (world_of (skipn n dfs)) st_init (rev (firstn n dfs)) = Done st1 ->
  analyze_all pfuel cfuel2 final p = Some A ->
  exists A1, all_from_state pfuel final st1 = Some A1 /\
    (forall f pos, q_goto A1 f pos = q_goto A f pos) /\
    (forall f pos, q_references A1 f pos = q_references A f pos) /\
    (forall f, q_diagnostics A1 f = q_diagnostics A f) /\
    (forall f, q_outline A1 f = q_outline A f) /\
    (forall f pos, q_hover A1 f pos = q_hover A f pos) /\
    (forall f lo hi, q_inlay A1 f lo hi = q_inlay A f lo hi) /\
    (forall f, q_folding A1 f = q_folding A f) /\
    (forall f, q_links A1 f = q_links A f) /\
    (forall f pos trig, q_completion A1 f pos trig = q_completion A f pos trig).
Proof.
  intros pfuel cfuel1 cfuel2 disk0 Ht p t st1 A final dfs n E1 E2.
  destruct (all_history_independent pfuel cfuel1 cfuel2 disk0 Ht p t st1 A E1 E2) as [A1 [H1 O]].
  exists A1. split; [exact H1|]. unfold aa_obs in O. injection O as Ows Ost Osm Ook Otr Oli Odi.
  unfold q_goto, q_references, q_diagnostics, q_outline, q_hover, q_inlay, q_folding, q_links, q_completion, aa_tree.
  rewrite Ost, Osm, Oli, Odi, Otr. repeat split; reflexivity.
Qed.
